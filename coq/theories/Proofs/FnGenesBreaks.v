(* C16 loop tie of get_breakpoints:

       for i, curr_row in enumerate(segments[:-1]):
           curr_chrom = curr_row.chromosome
           curr_end = curr_row.end
           next_row = segments[i + 1]
           if next_row.chromosome != curr_chrom:
               continue
           for gname, gstarts, gend in intervals[curr_chrom]:
               if gstarts[0] < curr_end < gend:
                   probes_left = sum(s < curr_end for s in gstarts)
                   probes_right = sum(s >= curr_end for s in gstarts)
                   if probes_left >= min_probes and probes_right >= min_probes:
                       breakpoints.append((gname, curr_chrom, int(math.ceil(curr_end)),
                                           next_row.log2 - curr_row.log2, probes_left, probes_right))

   Gen/FnGenesBreaks.v, regenerated from the Python source on every run, holds
     fn_break_inner : ONE ITERATION of the inner loop -- the tuples it appends (the two sums are opaque
                      inputs keyed by their source text, supplied here by the model's counts);
     fn_break_outer : ONE ITERATION of the outer loop -- the tuples appended during it, the inner loop
                      being an opaque range whose appended tuples are a parameter.
   Here: the inner step is Model/Genes.v break_at (the log2 difference reduced, as the model keeps its
   rationals), and the two steps iterated over consecutive segment pairs ARE breakpoints_raw. *)
From Coq Require Import Qabs Qround.
From CNV Require Import Base.Prelude Base.Str Base.QNum Gen.FnGenesBreaks Model.Genes.

Local Open Scope Z_scope.

Definition btuple := (string * string * Z * Q * Z * Z)%type.

Definition brow_of (t : btuple) : brow :=
  let '(g, c, loc, chg, l, r) := t in mkBrow g c loc (Qred chg) l r.

(* int(math.ceil(e)) of an integer e, in the translator's spelling *)
Lemma int_ceil_Z e :
  (let tr := inject_Z (ceilQ (inject_Z e)) in if Qle_bool 0 tr then floorQ tr else ceilQ tr) = e.
Proof.
  cbv zeta. unfold ceilQ, floorQ. rewrite Qceiling_Z.
  destruct (Qle_bool 0 (inject_Z e)); [apply Qfloor_Z | apply Qceiling_Z].
Qed.

(* one iteration of the inner loop on the interval iv, the opaque sums supplied by the model *)
Definition py_break_inner (min_probes : Z) (cur next : bin) (iv : interval) : list btuple :=
  let '(g, starts, gend) := iv in
  fn_break_inner g (b_chr cur) (b_end cur) (hd 0 starts) gend
                 (Z.of_nat (countb (fun s => s <? b_end cur) starts))
                 (Z.of_nat (countb (fun s => b_end cur <=? s) starts))
                 min_probes (b_log2 next) (b_log2 cur).

Lemma source_break_at min_probes cur next iv :
  break_at min_probes cur next iv = map brow_of (py_break_inner min_probes cur next iv).
Proof.
  destruct iv as [[g starts] gend]. unfold break_at, py_break_inner, fn_break_inner.
  destruct ((hd 0 starts <? b_end cur) && (b_end cur <? gend)); [|reflexivity].
  cbv zeta.
  destruct ((min_probes <=? Z.of_nat (countb (fun s => s <? b_end cur) starts))
            && (min_probes <=? Z.of_nat (countb (fun s => b_end cur <=? s) starts))); [|reflexivity].
  cbn [app map brow_of]. rewrite int_ceil_Z. reflexivity.
Qed.

(* one iteration of the outer loop: the inner loop's tuples pass through exactly when the next
   segment is on the same chromosome *)
Lemma source_break_outer cc ce id nc (inner : list btuple) :
  fn_break_outer cc ce id nc inner = if String.eqb nc cc then inner else [].
Proof. unfold fn_break_outer. destruct (String.eqb nc cc); reflexivity. Qed.

(* the two loops: consecutive pairs of segments, per pair the inner loop over the chromosome's intervals *)
Fixpoint py_breakpoints (ivs : string -> list interval) (min_probes : Z) (segs : list bin) : list brow :=
  match segs with
  | cur :: ((next :: _) as t) =>
      map brow_of (fn_break_outer (b_chr cur) (b_end cur) 0 (b_chr next)
                                  (flat_map (py_break_inner min_probes cur next) (ivs (b_chr cur))))
      ++ py_breakpoints ivs min_probes t
  | _ => []
  end.

Lemma map_flat_map {A B C} (f : B -> C) (g : A -> list B) (l : list A) :
  map f (flat_map g l) = flat_map (fun a => map f (g a)) l.
Proof. induction l as [|a t IH]; [reflexivity|]. cbn [flat_map]. rewrite map_app, IH. reflexivity. Qed.

Lemma raw_cons ivs mp cur next t :
  breakpoints_raw ivs mp (cur :: next :: t)
  = (if String.eqb (b_chr next) (b_chr cur) then flat_map (break_at mp cur next) (ivs (b_chr cur)) else [])
    ++ breakpoints_raw ivs mp (next :: t).
Proof. reflexivity. Qed.

Lemma py_cons ivs mp cur next t :
  py_breakpoints ivs mp (cur :: next :: t)
  = map brow_of (fn_break_outer (b_chr cur) (b_end cur) 0 (b_chr next)
                                (flat_map (py_break_inner mp cur next) (ivs (b_chr cur))))
    ++ py_breakpoints ivs mp (next :: t).
Proof. reflexivity. Qed.

Theorem source_breakpoints ivs min_probes segs :
  breakpoints_raw ivs min_probes segs = py_breakpoints ivs min_probes segs.
Proof.
  induction segs as [|cur t IH]; [reflexivity|].
  destruct t as [|next t']; [reflexivity|].
  rewrite raw_cons, py_cons, IH, source_break_outer. f_equal.
  destruct (String.eqb (b_chr next) (b_chr cur)); [|reflexivity].
  rewrite map_flat_map. apply flat_map_ext. intro iv. apply source_break_at.
Qed.
