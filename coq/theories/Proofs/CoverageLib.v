(* Library lemmas for the C09 extension (text layer, chunks, grouping): split / join on
   character lists, decimal printing, all_some, chunk sizes, filter / permutation facts.
   Nothing here mentions reads or coverage. *)
From Coq Require Import DecimalString DecimalZ DecimalPos Permutation Sorting.Sorted.
From CNV Require Import Base.Prelude Base.Str Gen.CoverageDefaults Model.Decimal Model.Chromsort Model.Coverage.

Local Open Scope Z_scope.

(* ------------------------------------------------------------------------ *)
(* strings <-> character lists                                                *)

Lemma cl_chars_unchars l : chars (unchars l) = l.
Proof. apply list_ascii_of_string_of_list_ascii. Qed.

Lemma cl_unchars_chars s : unchars (chars s) = s.
Proof. apply string_of_list_ascii_of_string. Qed.

Lemma cl_map_unchars_chars l : map unchars (map chars l) = l.
Proof. rewrite map_map. rewrite <- (map_id l) at 2. apply map_ext. intros. apply cl_unchars_chars. Qed.

Lemma cl_chars_app s1 s2 : chars (s1 ++ s2)%string = chars s1 ++ chars s2.
Proof. unfold chars. induction s1 as [|c s IH]; cbn; auto. now rewrite IH. Qed.

(* ------------------------------------------------------------------------ *)
(* decimal printing                                                           *)

Lemma cl_parse_print z : parse_Z (print_Z z) = Some z.
Proof.
  unfold parse_Z, print_Z. rewrite NilZero.isi.
  - cbn. now rewrite DecimalZ.of_to.
  - destruct z; cbn; try discriminate.
    intros [= E]. now apply Unsigned.to_uint_nonnil in E.
  - destruct z; cbn; try discriminate.
    intros [= E]. now apply Unsigned.to_uint_nonnil in E.
Qed.

(* a printed integer consists of digits and possibly a minus sign *)
Definition numchar (c : ascii) : bool := is_digit c || Ascii.eqb c "-"%char.

Lemma cl_uint_numchars d : forallb numchar (chars (NilEmpty.string_of_uint d)) = true.
Proof. induction d; cbn; auto. Qed.

Lemma cl_print_numchars z : forallb numchar (chars (print_Z z)) = true.
Proof.
  unfold print_Z. destruct z as [|p|p]; [reflexivity| |].
  - cbn. unfold NilZero.string_of_uint. destruct (Pos.to_uint p); try apply cl_uint_numchars; reflexivity.
  - cbn. unfold NilZero.string_of_uint.
    destruct (Pos.to_uint p); cbn; try apply cl_uint_numchars; reflexivity.
Qed.

(* ------------------------------------------------------------------------ *)
(* split / join                                                               *)

Definition clean (sepb : ascii -> bool) (f : list ascii) : Prop := forallb (fun c => negb (sepb c)) f = true.

Lemma split_chars_clean sepb f : clean sepb f -> split_chars sepb f = [f].
Proof.
  unfold clean. induction f as [|c t IH]; cbn; [reflexivity|].
  intros H. apply andb_prop in H. destruct H as [Hc Ht].
  destruct (sepb c); [discriminate|]. now rewrite (IH Ht).
Qed.

Lemma split_chars_app_sep sepb f c rest :
  clean sepb f -> sepb c = true -> split_chars sepb (f ++ c :: rest) = f :: split_chars sepb rest.
Proof.
  unfold clean. intros Hf Hc. induction f as [|a t IH]; cbn.
  - now rewrite Hc.
  - cbn in Hf. apply andb_prop in Hf. destruct Hf as [Ha Ht].
    destruct (sepb a); [discriminate|]. now rewrite (IH Ht).
Qed.

Lemma is_char_refl a : is_char a a = true.
Proof. unfold is_char. apply Ascii.eqb_refl. Qed.

Lemma split_join sep fs :
  fs <> [] -> Forall (clean (is_char sep)) fs -> split_chars (is_char sep) (join_chars sep fs) = fs.
Proof.
  induction fs as [|f t IH]; [congruence|]. intros _ H. inversion H as [|? ? Hf Ht]; subst.
  destruct t as [|g t'].
  - cbn. now apply split_chars_clean.
  - change (join_chars sep (f :: g :: t')) with (f ++ sep :: join_chars sep (g :: t')).
    rewrite split_chars_app_sep; [|exact Hf|apply is_char_refl].
    rewrite IH; [reflexivity|discriminate|exact Ht].
Qed.

(* number of separators in a joined record *)
Lemma count_char_app ch l1 l2 : count_char ch (l1 ++ l2) = count_char ch l1 + count_char ch l2.
Proof. unfold count_char. rewrite filter_app, app_length. lia. Qed.

Lemma count_char_clean ch f : clean (is_char ch) f -> count_char ch f = 0.
Proof.
  unfold clean, count_char, is_char. induction f as [|c t IH]; cbn; [reflexivity|].
  intros H. apply andb_prop in H. destruct H as [Hc Ht].
  rewrite Ascii.eqb_sym. destruct (Ascii.eqb c ch); [discriminate|]. now apply IH.
Qed.

Lemma count_char_join ch fs :
  fs <> [] -> Forall (clean (is_char ch)) fs -> count_char ch (join_chars ch fs) = Z.of_nat (length fs) - 1.
Proof.
  induction fs as [|f t IH]; [congruence|]. intros _ H. inversion H as [|? ? Hf Ht]; subst.
  destruct t as [|g t'].
  - cbn [join_chars length]. rewrite count_char_clean by exact Hf. lia.
  - change (join_chars ch (f :: g :: t')) with (f ++ [ch] ++ join_chars ch (g :: t')).
    rewrite !count_char_app, count_char_clean by exact Hf.
    rewrite IH; [|discriminate|exact Ht].
    unfold count_char at 1. cbn [filter]. rewrite Ascii.eqb_refl. cbn [length]. lia.
Qed.

Lemma before_char_app ch f rest :
  clean (is_char ch) f -> before_char ch (f ++ ch :: rest) = Some f.
Proof.
  unfold clean, is_char. induction f as [|c t IH]; cbn.
  - now rewrite Ascii.eqb_refl.
  - intros H. apply andb_prop in H. destruct H as [Hc Ht].
    destruct (Ascii.eqb c ch); [discriminate|]. now rewrite (IH Ht).
Qed.

(* records: every record clean of line ends and followed by one *)
Lemma split_records sepb eol ls :
  sepb eol = true -> Forall (clean sepb) ls ->
  split_chars sepb (concat (map (fun l => l ++ [eol]) ls)) = ls ++ [[]].
Proof.
  intros He. induction ls as [|l t IH]; intros H; [reflexivity|].
  inversion H as [|? ? Hl Ht]; subst. cbn [map concat].
  rewrite <- app_assoc. cbn [app]. rewrite split_chars_app_sep by assumption.
  now rewrite (IH Ht).
Qed.

Lemma filter_nonempty_records (ls : list (list ascii)) :
  Forall (fun l => l <> []) ls -> filter nonempty (ls ++ [[]]) = ls.
Proof.
  induction ls as [|l t IH]; intros H; [reflexivity|].
  inversion H as [|? ? Hl Ht]; subst. cbn. destruct l; [congruence|]. cbn. now rewrite (IH Ht).
Qed.

(* ------------------------------------------------------------------------ *)
(* all_some                                                                   *)

Lemma all_some_map_some {A B} (f : A -> option B) (g : A -> B) l :
  (forall x, In x l -> f x = Some (g x)) -> all_some (map f l) = Some (map g l).
Proof.
  induction l as [|x t IH]; cbn; intros H; auto.
  rewrite (H x (or_introl eq_refl)), IH; auto.
Qed.

(* ------------------------------------------------------------------------ *)
(* column lookup                                                              *)

Lemma assoc_field_last name cs fs f :
  length cs = length fs -> Forall (fun c => String.eqb c name = false) cs ->
  assoc_field name (cs ++ [name]) (fs ++ [f]) = Some f.
Proof.
  revert fs. induction cs as [|c t IH]; intros fs Hl H.
  - destruct fs; [|discriminate]. cbn. now rewrite String.eqb_refl.
  - destruct fs as [|g fs']; [discriminate|]. inversion H as [|? ? Hc Ht]; subst.
    cbn. rewrite Hc. apply IH; [cbn in Hl; lia|exact Ht].
Qed.

Lemma assoc_field_absent name cs fs :
  Forall (fun c => String.eqb c name = false) cs -> assoc_field name cs fs = None.
Proof.
  revert fs. induction cs as [|c t IH]; intros fs H; [destruct fs; reflexivity|].
  inversion H as [|? ? Hc Ht]; subst. destruct fs; [reflexivity|]. cbn. rewrite Hc. now apply IH.
Qed.

(* ------------------------------------------------------------------------ *)
(* chunks                                                                     *)

Lemma chunks_fuel_nonempty {A} (fuel k : nat) (l : list A) :
  (1 <= k)%nat -> Forall (fun ch => ch <> []) (chunks_fuel fuel k l).
Proof.
  intros Hk. revert l; induction fuel as [|f IH]; intros l; cbn [chunks_fuel]; [constructor|].
  destruct l as [|a t]; [constructor|]. constructor; [|apply IH].
  destruct k; [lia|]. cbn. discriminate.
Qed.

Lemma chunks_fuel_le {A} (fuel k : nat) (l : list A) :
  Forall (fun ch => (length ch <= k)%nat) (chunks_fuel fuel k l).
Proof.
  revert l; induction fuel as [|f IH]; intros l; cbn [chunks_fuel]; [constructor|].
  destruct l as [|a t]; [constructor|]. constructor; [|apply IH].
  rewrite firstn_length. lia.
Qed.

(* every piece but the last has exactly k elements *)
Lemma chunks_fuel_full {A} (fuel k : nat) (l : list A) :
  (1 <= k)%nat -> (length l <= fuel)%nat ->
  Forall (fun ch => length ch = k) (removelast (chunks_fuel fuel k l)).
Proof.
  intros Hk. revert l; induction fuel as [|f IH]; intros l Hl; cbn [chunks_fuel]; [constructor|].
  destruct l as [|a t]; [constructor|].
  assert (Hs : (length (skipn k (a :: t)) <= f)%nat).
  { rewrite skipn_length. cbn [length] in *. lia. }
  specialize (IH (skipn k (a :: t)) Hs).
  destruct (chunks_fuel f k (skipn k (a :: t))) as [|c r] eqn:E.
  - cbn. constructor.
  - change (removelast (firstn k (a :: t) :: c :: r)) with (firstn k (a :: t) :: removelast (c :: r)).
    constructor; [|exact IH].
    (* the rest is not empty, so the list is longer than k *)
    destruct (Nat.le_gt_cases (length (a :: t)) k) as [Hle|Hgt].
    + rewrite skipn_all2 in E by exact Hle. destruct f; discriminate.
    + rewrite firstn_length. lia.
Qed.

(* ------------------------------------------------------------------------ *)
(* filters and permutations                                                   *)

Lemma filter_filter_same {A} (p : A -> bool) l : filter p (filter p l) = filter p l.
Proof.
  induction l as [|x t IH]; cbn; [reflexivity|].
  destruct (p x) eqn:E; cbn; [rewrite E|]; now rewrite ?IH.
Qed.

Lemma filter_filter_comm {A} (p q : A -> bool) l : filter p (filter q l) = filter q (filter p l).
Proof.
  induction l as [|x t IH]; cbn; [reflexivity|].
  destruct (p x) eqn:Ep, (q x) eqn:Eq; cbn; rewrite ?Ep, ?Eq, ?IH; reflexivity.
Qed.

Lemma filter_none {A} (p : A -> bool) l : (forall x, In x l -> p x = false) -> filter p l = [].
Proof.
  induction l as [|x t IH]; cbn; intros H; [reflexivity|].
  rewrite (H x (or_introl eq_refl)). apply IH. intros y Hy. apply H. now right.
Qed.

Lemma filter_all {A} (p : A -> bool) l : (forall x, In x l -> p x = true) -> filter p l = l.
Proof.
  induction l as [|x t IH]; cbn; intros H; [reflexivity|].
  rewrite (H x (or_introl eq_refl)). f_equal. apply IH. intros y Hy. apply H. now right.
Qed.

Lemma filter_partition_perm {A} (p : A -> bool) l :
  Permutation (filter p l ++ filter (fun x => negb (p x)) l) l.
Proof.
  induction l as [|x t IH]; cbn; [constructor|].
  destruct (p x); cbn.
  - now constructor.
  - apply Permutation_sym. apply Permutation_cons_app. now apply Permutation_sym.
Qed.

Lemma filter_length_le {A} (p : A -> bool) l : (length (filter p l) <= length l)%nat.
Proof. induction l as [|x t IH]; cbn; [lia|]. destruct (p x); cbn; lia. Qed.
