(* C17 per-element tie of p_adjust_bh:

       by_descend = p.argsort()[::-1]
       by_orig = by_descend.argsort()
       steps = float(len(p)) / np.arange(len(p), 0, -1)
       q = np.minimum(1, np.minimum.accumulate(steps * p[by_descend]))
       return q[by_orig]

   The two elementwise statements are regenerated from the Python source on every run as
   Gen/FnBintestBH.v (fn_bh_step_factor: the element of `steps` at the position whose arange value is
   `rank`; fn_bh_cap: the element of q from the running minimum at its position).  The argsorts and
   np.minimum.accumulate are array algorithms (Model/Bintest.v by_descend / cummin, proved in
   Proofs/Bintest*.v).  Here: the model's bh IS that pipeline with the generated factor and cap. *)
From CNV Require Import Base.Prelude Base.QNum Gen.SegmetricsDefaults Gen.FnBintestBH
  Model.Ranges Model.Segmetrics Model.Bintest.
Local Open Scope Q_scope.

(* steps * p[by_descend], the arange value counting n, n-1, ..., 1 *)
Fixpoint py_steps_mul (n k : nat) (l : list Q) : list Q :=
  match l with
  | [] => []
  | x :: t => qmul (Qred (fn_bh_step_factor (Z.of_nat n) (Z.of_nat k))) x :: py_steps_mul n (k - 1) t
  end.

Lemma source_bh_steps n k l : steps_mul (qofnat n) k l = py_steps_mul n k l.
Proof.
  revert k. induction l as [|x t IH]; intro k; [reflexivity|].
  cbn [steps_mul py_steps_mul]. rewrite IH. reflexivity.
Qed.

Lemma source_bh_cap x : qmin2 bh_cap x = fn_bh_cap x.
Proof. reflexivity. Qed.

Theorem source_bh ps :
  bh ps =
  let n := length ps in
  let d := by_descend ps in
  let q := map fn_bh_cap (cummin (py_steps_mul n n (map fst d))) in
  let tab := combine (map snd d) q in
  map (fun i => lookup_idx i tab) (seq 0 n).
Proof. unfold bh. cbv zeta. rewrite source_bh_steps. reflexivity. Qed.
