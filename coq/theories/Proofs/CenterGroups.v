(* C15: by_chromosome (pandas groupby(sort=False)) as the model folds it = the text's "per
   chromosome": chromosomes in order of first appearance, each with the log2 of its own rows. *)
From CNV Require Import Base.Prelude Base.Str Base.QNum Model.Center Spec.Center.
Local Open Scope Q_scope.

Definition has_chrom (k : string) (t : list bin) : bool := existsb (fun x => String.eqb k (b_chrom x)) t.

Lemma groups_of_snoc t b : groups_of (t ++ [b]) = group_insert (b_chrom b) (b_log2 b) (groups_of t).
Proof. unfold groups_of. rewrite fold_left_app. reflexivity. Qed.

Lemma chrom_values_snoc c t b :
  chrom_values c (t ++ [b]) = chrom_values c t ++ (if String.eqb (b_chrom b) c then [b_log2 b] else []).
Proof.
  unfold chrom_values. rewrite filter_app, map_app. simpl. destruct (String.eqb (b_chrom b) c); reflexivity.
Qed.

Lemma first_names_snoc t b : forall seen,
  first_names seen (t ++ [b]) =
  first_names seen t ++ (if mem_string (b_chrom b) seen || has_chrom (b_chrom b) t then [] else [b_chrom b]).
Proof.
  induction t as [|a t IH]; intros seen; simpl.
  - rewrite orb_false_r. destruct (mem_string (b_chrom b) seen); reflexivity.
  - destruct (mem_string (b_chrom a) seen) eqn:Ea.
    + rewrite IH. f_equal.
      destruct (String.eqb (b_chrom b) (b_chrom a)) eqn:E; [|reflexivity].
      apply String.eqb_eq in E. rewrite E, Ea. reflexivity.
    + simpl. rewrite IH. f_equal. simpl.
      destruct (String.eqb (b_chrom b) (b_chrom a)), (mem_string (b_chrom b) seen), (has_chrom (b_chrom b) t); reflexivity.
Qed.

Lemma mem_string_In k l : mem_string k l = true <-> In k l.
Proof.
  induction l as [|x l IH]; simpl; [split; [discriminate|tauto]|].
  rewrite orb_true_iff, String.eqb_eq, IH. split; intros [H|H]; auto.
Qed.

Lemma first_names_spec t : forall seen k,
  In k (first_names seen t) <-> (has_chrom k t = true /\ mem_string k seen = false).
Proof.
  induction t as [|a t IH]; intros seen k; simpl.
  - split; [tauto|]. intros [H _]. discriminate.
  - destruct (mem_string (b_chrom a) seen) eqn:Ea.
    + rewrite IH. destruct (String.eqb k (b_chrom a)) eqn:E; simpl; [|tauto].
      apply String.eqb_eq in E. subst k. rewrite Ea. split; intros [_ H]; discriminate.
    + simpl. rewrite IH. simpl. destruct (String.eqb k (b_chrom a)) eqn:E; simpl.
      * apply String.eqb_eq in E. subst k. rewrite Ea. split; [intros _; auto|intros _; left; reflexivity].
      * split.
        -- intros [H|H]; [subst k; rewrite String.eqb_refl in E; discriminate|]. tauto.
        -- intros H. right. tauto.
Qed.

Lemma first_names_nodup t : forall seen, NoDup (first_names seen t).
Proof.
  induction t as [|a t IH]; intros seen; simpl; [constructor|].
  destruct (mem_string (b_chrom a) seen); [apply IH|].
  constructor; [|apply IH]. intro K. apply first_names_spec in K. destruct K as [_ K].
  simpl in K. rewrite String.eqb_refl in K. discriminate.
Qed.

Lemma chrom_values_absent k t : has_chrom k t = false -> chrom_values k t = [].
Proof.
  unfold has_chrom, chrom_values. induction t as [|a t IH]; simpl; [reflexivity|].
  rewrite orb_false_iff. intros [E H]. rewrite String.eqb_sym, E. apply IH. exact H.
Qed.

(* group_insert on a table of distinct names *)
Lemma group_insert_present k v (f : string -> list Q) names :
  NoDup names -> In k names ->
  group_insert k v (map (fun c => (c, f c)) names) =
  map (fun c => (c, if String.eqb k c then f c ++ [v] else f c)) names.
Proof.
  induction names as [|c names IH]; intros Hnd Hin; [contradiction|].
  inversion Hnd as [|? ? Hc Hnd']; subst. simpl.
  destruct (String.eqb k c) eqn:E.
  - apply String.eqb_eq in E. subst c. f_equal.
    apply map_ext_in. intros c Hc'. destruct (String.eqb k c) eqn:E'; [|reflexivity].
    apply String.eqb_eq in E'. subst c. contradiction.
  - f_equal. apply IH; [exact Hnd'|]. destruct Hin as [->|Hin]; [rewrite String.eqb_refl in E; discriminate|exact Hin].
Qed.

Lemma group_insert_absent k v (f : string -> list Q) names :
  ~ In k names ->
  group_insert k v (map (fun c => (c, f c)) names) = map (fun c => (c, f c)) names ++ [(k, [v])].
Proof.
  induction names as [|c names IH]; intros Hin; simpl; [reflexivity|].
  destruct (String.eqb k c) eqn:E.
  - apply String.eqb_eq in E. subst c. exfalso. apply Hin. left. reflexivity.
  - f_equal. apply IH. intro K. apply Hin. right. exact K.
Qed.

Lemma groups_of_spec t : groups_of t = map (fun c => (c, chrom_values c t)) (first_names [] t).
Proof.
  induction t as [|b t IH] using rev_ind; [reflexivity|].
  rewrite groups_of_snoc, IH, first_names_snoc. simpl (mem_string _ []). rewrite orb_false_l.
  destruct (has_chrom (b_chrom b) t) eqn:E.
  - rewrite app_nil_r. rewrite group_insert_present.
    + apply map_ext. intros c. rewrite chrom_values_snoc. destruct (String.eqb (b_chrom b) c); [reflexivity|].
      rewrite app_nil_r. reflexivity.
    + apply first_names_nodup.
    + apply first_names_spec. split; [exact E|reflexivity].
  - rewrite group_insert_absent.
    + rewrite map_app. simpl. f_equal.
      * apply map_ext_in. intros c Hc. rewrite chrom_values_snoc.
        destruct (String.eqb (b_chrom b) c) eqn:E'; [|rewrite app_nil_r; reflexivity].
        apply String.eqb_eq in E'. subst c. apply first_names_spec in Hc. destruct Hc as [Hc _]. congruence.
      * rewrite chrom_values_snoc, String.eqb_refl, (chrom_values_absent _ _ E). reflexivity.
    + intro K. apply first_names_spec in K. destruct K as [K _]. congruence.
Qed.

Theorem group_log2_per_chromosome t : group_log2 t = per_chromosome t.
Proof. unfold group_log2, per_chromosome. rewrite groups_of_spec, map_map. reflexivity. Qed.

(* the model's estimate over a selection is the text's two-level / flat estimate *)
Theorem center_stat_spec est by_chrom sel :
  center_stat est by_chrom sel = if by_chrom then two_level est sel else flat_level_est est sel.
Proof.
  unfold center_stat, two_level, flat_level_est. rewrite group_log2_per_chromosome. reflexivity.
Qed.

(* the per-chromosome lists partition the selection's values: every row's log2 is in the list of its
   own chromosome, and in no other *)
Lemma per_chromosome_names t c : In c (first_names [] t) <-> exists b, In b t /\ b_chrom b = c.
Proof.
  rewrite first_names_spec. unfold has_chrom. rewrite existsb_exists. split.
  - intros [[b [Hb E]] _]. apply String.eqb_eq in E. exists b. auto.
  - intros [b [Hb E]]. split; [|reflexivity]. exists b. split; [exact Hb|]. subst c. apply String.eqb_refl.
Qed.
