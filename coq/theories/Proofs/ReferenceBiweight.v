(* The per-bin estimators of the model are Tukey's biweight location and midvariance as written
   in Spec/Biweight.v (refinement: reduced arithmetic, filter/combine plumbing and the carried
   centre are all equal up to == to the plain formulas). *)
From CNV Require Import Base.Prelude Base.QNum Gen.RefDefaults Gen.DescDefaults Model.Reference
  Spec.Biweight Proofs.QNumLemmas.
From CNV Require Model.Descriptives.
From Coq Require Import Qabs.
Local Open Scope Q_scope.

(* ---- generic plumbing -------------------------------------------------------------------------- *)
Lemma combine_map_self {A B} (f : A -> B) l : combine l (map f l) = map (fun x => (x, f x)) l.
Proof. induction l as [|x l IH]; cbn; [reflexivity|]. now rewrite IH. Qed.

Lemma qdot_map_pairs {A} (f g : A -> Q) l :
  qdot (map f l) (map g l) == qsum (map (fun p => f p * g p) l).
Proof.
  induction l as [|x l IH]; [reflexivity|]. cbn [map]. rewrite qdot_cons, qsum_cons, IH. reflexivity.
Qed.

Lemma Qmax2_spec a b a' b' : a == a' -> b == b' -> qmax2 a b == Qmax2 a' b'.
Proof.
  intros Ea Eb. unfold qmax2, Qmax2. rewrite (Qleb_comp _ _ Ea _ _ Eb).
  destruct (Qle_bool a' b'); assumption.
Qed.

(* e: how one observation enters the masked lists of the model *)
Section Masked.
  Variables (m s m' s' : Q).
  Hypothesis Em : m == m'.
  Hypothesis Es : s == s'.

  Definition ent (x : Q) : Q * Q := (qsub x m, qdiv (qsub x m) s).
  Definition keepm (p : Q * Q) : bool := qlt_b (qabs (snd p)) 1.

  Lemma ent_fst x : fst (ent x) == x - m'.
  Proof. unfold ent. cbn [fst snd]. rewrite qsub_spec, Em. reflexivity. Qed.

  Lemma ent_snd x : snd (ent x) == bw_u s' m' x.
  Proof. unfold ent. cbn [fst snd]. unfold bw_u. rewrite qdiv_spec, qsub_spec, Em, Es. reflexivity. Qed.

  Lemma keepm_inside x : keepm (ent x) = bw_inside s' m' x.
  Proof.
    unfold keepm, bw_inside, qlt_b, qabs. f_equal.
    apply Qleb_comp; [reflexivity|]. apply Qabs_wd, ent_snd.
  Qed.

  Lemma sum_filter_map (g : Q * Q -> Q) (h : Q -> Q) a :
    (forall x, g (ent x) == h x) ->
    qsum (map g (filter keepm (map ent a))) == sumQ h (filter (bw_inside s' m') a).
  Proof.
    intros Hg. induction a as [|x a IH]; [reflexivity|].
    cbn [map filter]. rewrite keepm_inside. destruct (bw_inside s' m' x).
    - cbn [map sumQ]. rewrite qsum_cons, IH, Hg. reflexivity.
    - exact IH.
  Qed.

  Lemma length_filter_map a :
    length (filter keepm (map ent a)) = length (filter (bw_inside s' m') a).
  Proof.
    induction a as [|x a IH]; [reflexivity|].
    cbn [map filter]. rewrite keepm_inside. destruct (bw_inside s' m' x); cbn [length]; now rewrite IH.
  Qed.

  Lemma forallb_filter_map (P : Q * Q -> bool) (R : Q -> bool) a :
    (forall x, P (ent x) = R x) ->
    forallb P (filter keepm (map ent a)) = forallb R (filter (bw_inside s' m') a).
  Proof.
    intros HP. induction a as [|x a IH]; [reflexivity|].
    cbn [map filter]. rewrite keepm_inside. destruct (bw_inside s' m' x); cbn [forallb]; now rewrite ?HP, IH.
  Qed.
End Masked.

(* ---- MAD and scale -------------------------------------------------------------------------------- *)
Lemma mad_model_spec m m' a :
  m == m' -> median (map qabs (map (fun x => qsub x m) a)) == mad_about m' a.
Proof.
  intros Em. unfold mad_about. rewrite map_map. apply median_eqQ, eqQ_map_ext.
  intros x _. unfold qabs. apply Qabs_wd. rewrite qsub_spec, Em. reflexivity.
Qed.

Lemma scale_model_spec c eps m m' a :
  m == m' ->
  qmax2 (qmul c (median (map qabs (map (fun x => qsub x m) a)))) eps == bw_scale c eps m' a.
Proof.
  intros Em. unfold bw_scale. apply Qmax2_spec; [|reflexivity].
  rewrite qmul_spec, (mad_model_spec m m' a Em). reflexivity.
Qed.

(* ---- location: one step ------------------------------------------------------------------------------ *)
Lemma mask_bound_loc : BILOC_MASK_BOUND = 1. Proof. reflexivity. Qed.

Lemma biloc_masked_shape c eps a m :
  Descriptives.biloc_masked c eps a m =
  let s := qmax2 (qmul c (median (map qabs (map (fun x => qsub x m) a)))) eps in
  map (fun p => (fst p, qsq (qsub 1 (qsq (snd p))))) (filter keepm (map (ent m s) a)).
Proof.
  unfold Descriptives.biloc_masked, Descriptives.sub_all, Descriptives.abs_all. cbv zeta.
  rewrite combine_map_self, map_map. reflexivity.
Qed.

Lemma biloc_iter_spec c eps a m m' :
  m == m' -> Descriptives.biloc_iter c eps a m == bw_step c eps a m'.
Proof.
  intros Em. unfold Descriptives.biloc_iter, bw_step. rewrite biloc_masked_shape. cbv zeta.
  set (s := qmax2 _ eps). set (s' := bw_scale c eps m' a).
  assert (Es : s == s') by (apply scale_model_spec; exact Em).
  set (dw := map _ (filter keepm (map (ent m s) a))).
  assert (HW : qsum (map snd dw) == sumQ (bw_weight s' m') (filter (bw_inside s' m') a)).
  { unfold dw. rewrite map_map. cbn [snd].
    apply (sum_filter_map m s m' s' Em Es (fun x => qsq (qsub 1 (qsq (snd x))))). intros x. unfold bw_weight, sq.
    rewrite qsq_spec, qsub_spec, qsq_spec, (ent_snd m s m' s' Em Es). reflexivity. }
  assert (HN : qdot (map fst dw) (map snd dw)
               == sumQ (fun x => (x - m') * bw_weight s' m' x) (filter (bw_inside s' m') a)).
  { unfold dw. rewrite !map_map. cbn [fst snd].
    rewrite (qdot_map_pairs (fun x : Q * Q => fst x) (fun x => qsq (qsub 1 (qsq (snd x))))).
    apply (sum_filter_map m s m' s' Em Es (fun p => fst p * qsq (qsub 1 (qsq (snd p))))).
    intros x. unfold bw_weight, sq.
    rewrite qsq_spec, qsub_spec, qsq_spec, (ent_snd m s m' s' Em Es), (ent_fst m s m' Em). reflexivity. }
  unfold qeq_b. rewrite (Qeqb_comp _ _ HW 0 0 (Qeq_refl 0)).
  destruct (Qeq_bool _ 0); [exact Em|].
  rewrite qadd_spec, qdiv_spec, HN, HW, Em. reflexivity.
Qed.

Lemma biloc_loop_spec fuel c eps a m m' :
  m == m' -> Descriptives.biloc_loop fuel c eps a m m == bw_iterate fuel c eps a m'.
Proof.
  revert m m'. induction fuel as [|k IH]; intros m m' Em; [exact Em|].
  cbn [Descriptives.biloc_loop bw_iterate].
  pose proof (biloc_iter_spec c eps a m m' Em) as Er.
  set (r := Descriptives.biloc_iter c eps a m) in *. set (r' := bw_step c eps a m') in *.
  assert (Eb : qle_b (qabs (qsub r m)) eps = Qle_bool (Qabs (r' - m')) eps).
  { unfold qle_b, qabs. apply Qleb_comp; [|reflexivity]. apply Qabs_wd. rewrite qsub_spec, Er, Em. reflexivity. }
  rewrite Eb. destruct (Qle_bool _ eps); [exact Er|]. apply IH. exact Er.
Qed.

(* the model's location of a column with at least two values *)
Theorem ref_biloc_spec col :
  (2 <= length col)%nat -> ref_biloc col == biweight_location_spec 6 eps_1e3 5 col.
Proof.
  intros Hl. unfold ref_biloc, Descriptives.biweight_location, Descriptives.on_array.
  destruct col as [|x [|y t]]; cbn in Hl; try lia.
  cbn [opt0]. unfold Descriptives.biweight_location_core, biweight_location_spec.
  change (Z.to_nat BILOC_MAX_ITER) with 5%nat.
  change Descriptives.biweight_location_core with Descriptives.biweight_location_core.
  apply (biloc_loop_spec 5 BILOC_C BILOC_EPS (x :: y :: t)). reflexivity.
Qed.

(* ---- midvariance ---------------------------------------------------------------------------------------- *)
Lemma qpow4 x : Reference.qpow x 4 == sq (sq x).
Proof. cbn [Reference.qpow]. rewrite !qmul_spec. unfold sq. ring. Qed.

Lemma bw_scale_pos c eps m a : 0 < eps -> 0 < bw_scale c eps m a.
Proof.
  intros He. unfold bw_scale, Qmax2. destruct (Qle_bool (c * mad_about m a) eps) eqn:E; [exact He|].
  apply Qnot_le_lt. intros H.
  assert (H2 : c * mad_about m a <= eps)
    by (apply Qle_trans with 0; [exact H|apply Qlt_le_weak; exact He]).
  apply Qle_bool_iff in H2. congruence.
Qed.

Theorem bivar_core_spec c eps a m m' :
  0 < eps -> m == m' ->
  bivar_core_sq c eps a m == biweight_midvar_sq_spec c eps RefDefaults.BIVAR_MAD_SCALE a m'.
Proof.
  intros He Em. unfold bivar_core_sq, biweight_midvar_sq_spec. cbv zeta.
  set (s := qmax2 _ eps). set (s' := bw_scale c eps m' a).
  assert (Es : s == s') by (apply scale_model_spec; exact Em).
  assert (Hs' : 0 < s') by (apply bw_scale_pos; exact He).
  rewrite map_map.
  change (map (fun x => (qsub x m, qdiv (qsub x m) s)) a) with (map (ent m s) a).
  change (fun p : Q * Q => qlt_b (qabs (snd p)) BIVAR_MASK_BOUND) with keepm.
  rewrite (forallb_filter_map m s m' s' Em Es (fun p => qeq_b (snd p) 0) (fun x => Qeq_bool (x - m') 0)).
  2:{ intros x. unfold qeq_b.
      destruct (Qeq_bool (x - m') 0) eqn:E.
      - apply Qeq_bool_iff in E. apply Qeq_bool_iff.
        rewrite (ent_snd m s m' s' Em Es). unfold bw_u. rewrite E. unfold Qdiv. ring.
      - destruct (Qeq_bool (snd (ent m s x)) 0) eqn:E2; [|reflexivity].
        apply Qeq_bool_iff in E2. rewrite (ent_snd m s m' s' Em Es) in E2. unfold bw_u in E2.
        assert (x - m' == 0).
        { setoid_replace (x - m') with ((x - m') / s' * s') by (field; intro H; rewrite H in Hs'; discriminate Hs').
          rewrite E2. ring. }
        apply Qeq_bool_iff in H. congruence. }
  destruct (forallb _ (filter (bw_inside s' m') a)).
  - unfold sq. rewrite qsq_spec, qmul_spec, (mad_model_spec m m' a Em). ring.
  - rewrite qdiv_spec, qmul_spec, qsq_spec.
    rewrite (length_filter_map m s m' s' Em Es).
    rewrite (sum_filter_map m s m' s' Em Es _ (fun x => sq (x - m') * sq (sq (1 - sq (bw_u s' m' x))))).
    2:{ intros x. change (Z.to_nat BIVAR_NUM_POW) with 4%nat.
        cbv beta. rewrite qmul_spec, qsq_spec, qpow4. unfold sq.
        rewrite qsub_spec, qsq_spec, (ent_snd m s m' s' Em Es), (ent_fst m s m' Em).
        reflexivity. }
    rewrite (sum_filter_map m s m' s' Em Es _ (fun x => (1 - sq (bw_u s' m' x)) * (1 - 5 * sq (bw_u s' m' x)))).
    2:{ intros x. cbv beta. unfold sq.
        rewrite qmul_spec, !qsub_spec, qmul_spec, qsq_spec, (ent_snd m s m' s' Em Es).
        change RefDefaults.BIVAR_DEN_COEF with (5 # 1). reflexivity. }
    unfold qofnat, sq. reflexivity.
Qed.

Theorem ref_bivar_spec col m m' :
  (2 <= length col)%nat -> m == m' ->
  ref_bivar_sq col m == biweight_midvar_sq_spec 9 eps_1e3 mad_to_sd col m'.
Proof.
  intros Hl Em. unfold ref_bivar_sq. destruct col as [|x [|y t]]; cbn in Hl; try lia.
  apply (bivar_core_spec BIVAR_C BIVAR_EPS (x :: y :: t) m m'); [reflexivity|exact Em].
Qed.

