(* C16 loop tie of group_by_genes: ONE ITERATION of

       for gene, rows in cnarr.by_gene():
           if not rows or gene in ignore:
               continue
           segmean = segment_mean(rows, skip_low)
           if segmean is None:
               continue
           outrow = rows[0].copy()
           outrow["end"] = rows.end.iat[-1]
           outrow["gene"] = gene
           outrow["log2"] = segmean
           outrow["probes"] = len(rows)
           if "weight" in rows:
               outrow["weight"] = rows["weight"].sum()
               if "depth" in rows:
                   outrow["depth"] = np.average(rows["depth"], weights=rows["weight"])
           elif "depth" in rows:
               outrow["depth"] = rows["depth"].mean()
           yield outrow

   is regenerated from the Python source on every run as Gen/FnGenesGroup.v (fn_group_step: the six
   stored fields of outrow after the iteration and the list of rows -- opaque ids -- it yields).
   Table-level quantities (truthiness of rows, membership of the gene in the ignore tuple, the
   aggregates) are opaque inputs keyed by their source text; here Model/Genes.v supplies them.
   segment_mean returns a float (np.nan on an empty table, C16_source_segment_mean), never Python's
   None: `segmean is None` is False, so the second `continue` is dead code and a group whose mean is
   NaN is still reported (with log2 NaN) -- as the model has it.
   Here: for every group (gene, rows) the iteration yields exactly the rows of the model's
   group_rows_of, field for field (the bin tables of the model carry weight and depth), and running
   the generator over by_gene's groups IS group_by_genes. *)
From Coq Require Import Qabs.
From CNV Require Import Base.Prelude Base.Str Gen.Params Gen.GenesDefaults Gen.FnGenesGroup Model.Genes.

Local Open Scope Z_scope.

Definition is_nil {B} (l : list B) : bool := match l with [] => true | _ => false end.

Definition no_bin : bin := mkBin "" 0 0 "" 0 0 0 0.

(* one iteration of the Python loop on the group gr, every opaque input read off the model's table;
   each yielded id stands for the row whose fields are the carried outrow[...] values (chromosome
   and start are never stored into: they stay those of rows[0]) *)
Definition py_group_iter (skip_low : bool) (gr : group) : list grow :=
  let g := fst gr in
  let rows := snd gr in
  let b0 := hd no_bin rows in
  let '(e, gn, l2, p, w, d, ys) :=
    fn_group_step (negb (is_nil rows)) g (mem_string g group_ignore)
                  (segment_mean skip_low rows) false 0
                  (b_end b0) (b_gene b0) (Some (b_log2 b0)) (b_probes b0) (b_weight b0) (b_depth b0)
                  (b_end (last rows b0)) (Z.of_nat (length rows))
                  true (sumQ (map b_weight rows))
                  true (wavg (map b_depth rows) (map b_weight rows)) (meanQ (map b_depth rows)) in
  map (fun _ => mkGrow gn (b_chr b0) (b_start b0) e l2 d w p None None) ys.

Lemma source_group_step skip_low gr : group_rows_of skip_low gr = py_group_iter skip_low gr.
Proof.
  destruct gr as [g rows]. unfold group_rows_of, py_group_iter, fn_group_step, group_row.
  cbn [fst snd]. destruct rows as [|b0 t].
  - cbn [is_nil negb orb]. destruct (mem_string g group_ignore); reflexivity.
  - cbn [is_nil negb orb hd]. destruct (mem_string g group_ignore); reflexivity.
Qed.

Theorem source_group_by_genes skip_low rows :
  group_by_genes skip_low rows = flat_map (py_group_iter skip_low) (by_gene IGNORE_GENE_NAMES rows).
Proof.
  unfold group_by_genes. apply flat_map_ext. intro gr. apply source_group_step.
Qed.

(* the skip rules, read off the generated step: nothing is yielded for an empty or ignored group,
   whatever the other inputs; otherwise exactly one row *)
Lemma source_group_skips nonempty g ign sm id fe fg fl fp fw fd le n hw ws hd_ wd md :
  let '(_, _, _, _, _, _, ys) :=
    fn_group_step nonempty g ign sm false id fe fg fl fp fw fd le n hw ws hd_ wd md in
  ys = if negb nonempty || ign then [] else [id].
Proof. unfold fn_group_step. destruct (negb nonempty || ign); [reflexivity|]. destruct hw, hd_; reflexivity. Qed.

(* the depth / weight stores for every combination of present columns *)
Lemma source_group_columns g sm id fe fg fl fp fw fd le n hw ws hd_ wd md :
  let '(e, gn, l2, p, w, d, _) :=
    fn_group_step true g false sm false id fe fg fl fp fw fd le n hw ws hd_ wd md in
  e = le /\ gn = g /\ l2 = sm /\ p = n /\
  w = (if hw then ws else fw) /\
  d = (if hd_ then (if hw then wd else md) else fd).
Proof. unfold fn_group_step. cbn [negb orb]. destruct hw, hd_; repeat split; reflexivity. Qed.
