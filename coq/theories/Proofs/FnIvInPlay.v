(* C06 loop tie of merge._flatten_tuples / _flatten_tuples_split: the row selection inside the loop
   `for bp_start, bp_end in zip(breaks[:-1], breaks[1:])`,

       rows_in_play = [row for row in rows if row.start <= bp_start and row.end >= bp_end]

   whose test is regenerated from the Python source on every run as Gen/FnIvInPlay.v (fn_in_play from
   _flatten_tuples, fn_in_play_split from its twin _flatten_tuples_split, which flatten uses when split_columns
   is given).  Here: Model/Intervals.v in_play (the rows whose fields flatten_group combines for one piece) IS the
   filter by either generated test. *)
From CNV Require Import Base.Prelude Model.IvRow Model.Intervals.
From CNV Require Gen.FnIvInPlay.

Local Open Scope Z_scope.

Section InPlayTie.
Context {A : Type}.
Notation row := (@row A).

Lemma source_in_play_test (d rs re s e : Z) :
  FnIvInPlay.fn_in_play d rs re s e = ((rs <=? s) && (e <=? re)) /\
  FnIvInPlay.fn_in_play_split d rs re s e = ((rs <=? s) && (e <=? re)).
Proof. split; reflexivity. Qed.

(* [row for row in rows if <test>] *)
Theorem source_in_play (d : Z) (g : list row) (s e : Z) :
  in_play g s e = filter (fun r => FnIvInPlay.fn_in_play d (lo r) (hi r) s e) g /\
  in_play g s e = filter (fun r => FnIvInPlay.fn_in_play_split d (lo r) (hi r) s e) g.
Proof. split; reflexivity. Qed.

(* one piece of flatten_group, read through the generated test *)
Theorem source_flatten_piece (comb : A -> list A -> A) (d : Z) (f : row) (g : list row) (s e : Z) :
  (s, e, comb (pay f) (map pay (in_play g s e))) =
  (s, e, comb (pay f) (map pay (filter (fun r => FnIvInPlay.fn_in_play d (lo r) (hi r) s e) g))).
Proof. reflexivity. Qed.

End InPlayTie.
