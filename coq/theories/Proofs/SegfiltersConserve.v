(* C14, part 3: what squash_region conserves, the weighted median of a run of
   equal values, and which runs ampdel keeps. *)
From Coq Require Import QArith.Qabs.
From CNV Require Import Base.Prelude Base.Str Gen.SegfilterDefaults Model.Segfilters Spec.Segfilters.
From CNV Require Base.QNum Model.Descriptives Proofs.QNumLemmas.
From CNV Require Import Proofs.SegfiltersRuns Proofs.SegfiltersKeys.

(* ------------------------------------------------------------- sums, means *)

Lemma sumQ_qsum l : (sumQ l == qsum l)%Q.
Proof.
  induction l as [|x t IH]; cbn [sumQ qsum]; [reflexivity|].
  rewrite Qred_correct, IH. reflexivity.
Qed.

Lemma qsum_app l1 l2 : (qsum (l1 ++ l2) == qsum l1 + qsum l2)%Q.
Proof.
  induction l1 as [|x t IH]; cbn [qsum app]; [ring|]. rewrite IH. ring.
Qed.

Lemma dotQ_qsum (r : list seg) :
  (dotQ (map weight r) (map log2 r) == qsum (map (fun s => weight s * log2 s) r))%Q.
Proof.
  induction r as [|s t IH]; cbn [dotQ qsum map]; [reflexivity|].
  rewrite Qred_correct, IH. reflexivity.
Qed.

Lemma Qltb_lt a b : Qltb a b = true <-> (a < b)%Q.
Proof.
  unfold Qltb. rewrite negb_true_iff. split.
  - intros H. apply Qnot_le_lt. intros L. apply Qle_bool_iff in L. congruence.
  - intros H. destruct (Qle_bool b a) eqn:E; [|reflexivity].
    apply Qle_bool_iff in E. exfalso. apply (Qlt_not_le _ _ H E).
Qed.

Lemma Qltb_nlt a b : Qltb a b = false <-> ~ (a < b)%Q.
Proof.
  split.
  - intros H L. apply Qltb_lt in L. congruence.
  - intros H. destruct (Qltb a b) eqn:E; [|reflexivity]. apply Qltb_lt in E. contradiction.
Qed.

Lemma probes_squash r : probes (squash_region r) = sumZ (map probes r).
Proof. destruct r; reflexivity. Qed.

Lemma weight_squash r : (weight (squash_region r) == qsum (map weight r))%Q.
Proof. destruct r as [|s0 r']; [reflexivity|]. cbn [squash_region weight]. apply sumQ_qsum. Qed.

Lemma total_probes_squash rs : total_probes (map squash_region rs) = total_probes (concat rs).
Proof.
  unfold total_probes. induction rs as [|r rs IH]; cbn [map concat sumZ]; [reflexivity|].
  rewrite map_app, sumZ_app, IH, probes_squash. reflexivity.
Qed.

Lemma total_weight_squash rs : (total_weight (map squash_region rs) == total_weight (concat rs))%Q.
Proof.
  unfold total_weight. induction rs as [|r rs IH]; cbn [map concat qsum]; [reflexivity|].
  rewrite map_app, qsum_app, IH, weight_squash. reflexivity.
Qed.

Lemma squash_log2 s0 r' :
  log2 (squash_region (s0 :: r')) = wmean (map weight (s0 :: r')) (map log2 (s0 :: r')).
Proof. reflexivity. Qed.

Lemma squash_cn s0 r' :
  cn (squash_region (s0 :: r')) =
  if Qltb region_weight_min (sumQ (map weight (s0 :: r')))
  then wmedian (map cn (s0 :: r')) (map weight (s0 :: r')) else median (map cn (s0 :: r')).
Proof. reflexivity. Qed.

Lemma squash_cn1 s0 r' :
  cn1 (squash_region (s0 :: r')) =
  if Qltb region_weight_min (sumQ (map weight (s0 :: r')))
  then wmedian_opt (map cn1 (s0 :: r')) (map weight (s0 :: r')) else median_opt (map cn1 (s0 :: r')).
Proof. reflexivity. Qed.

Lemma log2_squash r : r <> [] ->
  ((0 < total_weight r)%Q -> (log2 (squash_region r) == wavg_log2 r)%Q) /\
  (~ (0 < total_weight r)%Q -> (log2 (squash_region r) == avg_log2 r)%Q).
Proof.
  intros NE. destruct r as [|s0 r']; [contradiction NE; reflexivity|].
  rewrite squash_log2. set (r := s0 :: r').
  unfold wmean, total_weight, wavg_log2, avg_log2.
  change region_weight_min with 0%Q.
  split; intros H.
  - assert (E : Qltb 0 (sumQ (map weight r)) = true).
    { apply Qltb_lt. rewrite sumQ_qsum. exact H. }
    rewrite E, Qred_correct, dotQ_qsum, sumQ_qsum. reflexivity.
  - assert (E : Qltb 0 (sumQ (map weight r)) = false).
    { apply Qltb_nlt. rewrite sumQ_qsum. exact H. }
    rewrite E, Qred_correct, sumQ_qsum. unfold Qlen. rewrite map_length. reflexivity.
Qed.

(* ------------------------------------------------------- spans per chromosome *)

Lemma ozmin_assoc a b c : ozmin a (ozmin b c) = ozmin (ozmin a b) c.
Proof. destruct a, b, c; cbn; try reflexivity. f_equal. lia. Qed.
Lemma ozmax_assoc a b c : ozmax a (ozmax b c) = ozmax (ozmax a b) c.
Proof. destruct a, b, c; cbn; try reflexivity. f_equal. lia. Qed.

Lemma min_lo_app c l1 l2 : min_lo c (l1 ++ l2) = ozmin (min_lo c l1) (min_lo c l2).
Proof.
  induction l1 as [|s t IH]; cbn [min_lo app]; [reflexivity|].
  destruct (String.eqb (chrom s) c); [|exact IH]. rewrite IH. apply ozmin_assoc.
Qed.
Lemma max_hi_app c l1 l2 : max_hi c (l1 ++ l2) = ozmax (max_hi c l1) (max_hi c l2).
Proof.
  induction l1 as [|s t IH]; cbn [max_hi app]; [reflexivity|].
  destruct (String.eqb (chrom s) c); [|exact IH]. rewrite IH. apply ozmax_assoc.
Qed.

Lemma min_lo_none c l : Forall (fun s => String.eqb (chrom s) c = false) l -> min_lo c l = None.
Proof. induction 1 as [|s t Hs _ IH]; cbn [min_lo]; [reflexivity|]. rewrite Hs. exact IH. Qed.
Lemma max_hi_none c l : Forall (fun s => String.eqb (chrom s) c = false) l -> max_hi c l = None.
Proof. induction 1 as [|s t Hs _ IH]; cbn [max_hi]; [reflexivity|]. rewrite Hs. exact IH. Qed.

Lemma min_lo_ge c z l : Forall (fun s => z <= lo s) l ->
  match min_lo c l with Some m => z <= m | None => True end.
Proof.
  induction 1 as [|s t Hs _ IH]; cbn [min_lo]; [exact I|].
  destruct (String.eqb (chrom s) c); [|exact IH].
  destruct (min_lo c t); cbn; lia.
Qed.
Lemma max_hi_le c z l : Forall (fun s => hi s <= z) l ->
  match max_hi c l with Some m => m <= z | None => True end.
Proof.
  induction 1 as [|s t Hs _ IH]; cbn [max_hi]; [exact I|].
  destruct (String.eqb (chrom s) c); [|exact IH].
  destruct (max_hi c t); cbn; lia.
Qed.

Lemma adj_tail {A} (P : A -> A -> Prop) a l : AdjForall P (a :: l) -> AdjForall P l.
Proof. intros H. inversion H; subst; [constructor|assumption]. Qed.

Lemma adj_app_l {A} (P : A -> A -> Prop) l1 l2 : AdjForall P (l1 ++ l2) -> AdjForall P l1.
Proof.
  induction l1 as [|a [|b t] IH]; intros H; try constructor.
  - cbn in H. inversion H; subst. assumption.
  - apply IH. apply (adj_tail P a). exact H.
Qed.
Lemma adj_app_r {A} (P : A -> A -> Prop) l1 l2 : AdjForall P (l1 ++ l2) -> AdjForall P l2.
Proof.
  induction l1 as [|a t IH]; intros H; [exact H|].
  apply IH. cbn [app] in H. apply (adj_tail P a). exact H.
Qed.

Lemma in_concat_split {A} (r : list A) rs : In r rs -> exists pre post, concat rs = pre ++ r ++ post.
Proof.
  intros H. apply in_split in H. destruct H as (l1 & l2 & ->).
  exists (concat l1), (concat l2). rewrite concat_app. cbn. reflexivity.
Qed.

Lemma chain_head {A} (R : A -> A -> Prop) :
  (forall x y z, R x y -> R y z -> R x z) ->
  forall l a, AdjForall R (a :: l) -> Forall (R a) l.
Proof.
  intros Rt. induction l as [|b t IH]; intros a H; constructor; inversion H; subst.
  - assumption.
  - specialize (IH b ltac:(assumption)). eapply Forall_impl; [|exact IH].
    intros z Hz. eapply Rt; eassumption.
Qed.

Lemma last_indep {A} (l : list A) d d' : l <> [] -> last l d = last l d'.
Proof.
  induction l as [|a t IH]; intros NE; [contradiction NE; reflexivity|].
  destruct t as [|b t']; [reflexivity|].
  change (last (b :: t') d = last (b :: t') d'). apply IH. discriminate.
Qed.

Lemma last_in {A} (l : list A) d : l <> [] -> In (last l d) l.
Proof.
  induction l as [|a t IH]; intros NE; [contradiction NE; reflexivity|].
  destruct t as [|b t']; [left; reflexivity|].
  right. change (In (last (b :: t') d) (b :: t')). apply IH. discriminate.
Qed.

Lemma chain_last {A} (R : A -> A -> Prop) :
  (forall x, R x x) -> (forall x y z, R x y -> R y z -> R x z) ->
  forall l a, AdjForall R (a :: l) -> Forall (fun x => R x (last (a :: l) a)) (a :: l).
Proof.
  intros Rr Rt. induction l as [|b t IH]; intros a H.
  - cbn. constructor; [apply Rr|constructor].
  - inversion H as [| |? ? ? Hab Hbt]; subst. specialize (IH b Hbt).
    assert (E : last (a :: b :: t) a = last (b :: t) b).
    { change (last (b :: t) a = last (b :: t) b). apply last_indep. discriminate. }
    rewrite E. constructor; [|exact IH].
    inversion IH; subst. eapply Rt; eassumption.
Qed.

Definition run_coords_ok (r : list seg) : Prop :=
  match r with
  | [] => False
  | s0 :: r' =>
      Forall (fun s => chrom s = chrom s0) r' /\
      Forall (fun s => lo s0 <= lo s) r' /\
      Forall (fun s => hi s <= hi (last r s0)) r
  end.

Lemma min_lo_run c r : run_coords_ok r -> min_lo c r = min_lo c [squash_region r].
Proof.
  destruct r as [|s0 r']; [intros []|]. intros (Hc & Hl & _).
  cbn [squash_region min_lo chrom lo].
  destruct (String.eqb (chrom s0) c) eqn:E.
  - pose proof (min_lo_ge c (lo s0) r' Hl) as G.
    destruct (min_lo c r'); cbn; [f_equal; lia|reflexivity].
  - apply min_lo_none. eapply Forall_impl; [|exact Hc]. intros s Hs. cbn in Hs. rewrite Hs. exact E.
Qed.

Lemma max_hi_run c r : run_coords_ok r -> max_hi c r = max_hi c [squash_region r].
Proof.
  destruct r as [|s0 r']; [intros []|]. intros (Hc & _ & Hh).
  set (r := s0 :: r') in *.
  assert (Hsq : chrom (squash_region r) = chrom s0 /\ hi (squash_region r) = hi (last r s0)) by (split; reflexivity).
  destruct Hsq as (Hq1 & Hq2).
  cbn [max_hi]. rewrite Hq1, Hq2.
  destruct (String.eqb (chrom s0) c) eqn:E.
  - (* every row of the run is on c; the maximum is reached by the last row *)
    assert (In (last r s0) r) as Hin.
    { apply last_in. unfold r. discriminate. }
    assert (Hall : Forall (fun s => String.eqb (chrom s) c = true) r).
    { unfold r. constructor; [exact E|]. eapply Forall_impl; [|exact Hc]. intros s Hs. cbn in Hs. rewrite Hs. exact E. }
    clear Hc E Hq1 Hq2. revert Hin Hh Hall. generalize (last r s0) as z. generalize r as l. clear.
    induction l as [|s t IH]; intros z Hin Hh Hall; [contradiction|].
    inversion Hh as [|? ? Hs Ht]; subst. inversion Hall as [|? ? As At]; subst.
    cbn [max_hi]. rewrite As.
    destruct Hin as [->|Hin].
    + pose proof (max_hi_le c (hi z) t Ht) as G. destruct (max_hi c t); cbn; [f_equal; lia|reflexivity].
    + rewrite (IH z Hin Ht At). cbn. f_equal. lia.
  - unfold r. cbn [max_hi]. rewrite E. apply max_hi_none.
    eapply Forall_impl; [|exact Hc]. intros s Hs. cbn in Hs. rewrite Hs. exact E.
Qed.

Lemma min_lo_squash c rs : Forall run_coords_ok rs -> min_lo c (map squash_region rs) = min_lo c (concat rs).
Proof.
  induction 1 as [|r rs Hr _ IH]; [reflexivity|].
  cbn [map concat]. rewrite min_lo_app, <- IH, (min_lo_run c r Hr).
  change (squash_region r :: map squash_region rs) with ([squash_region r] ++ map squash_region rs).
  rewrite min_lo_app. reflexivity.
Qed.

Lemma max_hi_squash c rs : Forall run_coords_ok rs -> max_hi c (map squash_region rs) = max_hi c (concat rs).
Proof.
  induction 1 as [|r rs Hr _ IH]; [reflexivity|].
  cbn [map concat]. rewrite max_hi_app, <- IH, (max_hi_run c r Hr).
  change (squash_region r :: map squash_region rs) with ([squash_region r] ++ map squash_region rs).
  rewrite max_hi_app. reflexivity.
Qed.

Lemma same_full_chrom f a b : same_full f a b = true -> chrom a = chrom b.
Proof.
  unfold same_full, same_plain. rewrite !andb_true_iff. intros (((H & _) & _) & _).
  apply String.eqb_eq. exact H.
Qed.

Lemma runs_coords_ok f t : coords_sorted t -> Forall run_coords_ok (level_runs f t).
Proof.
  intros S. destruct (level_runs_max f t) as (Ec & NE & Alike & _).
  apply Forall_forall. intros r Hr.
  rewrite Forall_forall in NE. specialize (NE r Hr).
  rewrite Forall_forall in Alike. specialize (Alike r Hr).
  destruct (in_concat_split r _ Hr) as (pre & post & Esplit). rewrite Ec in Esplit.
  unfold coords_sorted in S. rewrite Esplit in S.
  apply adj_app_r, adj_app_l in S.
  destruct r as [|s0 r']; [contradiction NE; reflexivity|].
  assert (Hc : forall s, In s (s0 :: r') -> chrom s = chrom s0).
  { intros s Hs. apply (same_full_chrom f). apply Alike; [exact Hs|left; reflexivity]. }
  (* inside the run every neighbouring pair is ordered *)
  assert (S' : AdjForall (fun a b => lo a <= lo b /\ hi a <= hi b) (s0 :: r')).
  { clear - S Hc. revert s0 S Hc. induction r' as [|b t IH]; intros a S Hc; constructor.
    - inversion S; subst. match goal with h : chrom a = chrom b -> _ |- _ => apply h end.
      rewrite (Hc b) by (right; left; reflexivity). symmetry. apply Hc. left. reflexivity.
    - inversion S; subst. apply IH; [assumption|].
      intros s Hs. rewrite (Hc s) by (right; exact Hs). symmetry. apply Hc. right. left. reflexivity. }
  repeat split.
  - apply Forall_forall. intros s Hs. apply Hc. right. exact Hs.
  - assert (L : AdjForall (fun a b => lo a <= lo b) (s0 :: r')).
    { clear - S'. induction S'; constructor; tauto. }
    apply (chain_head (fun a b => lo a <= lo b)); [intros; lia|exact L].
  - assert (L : AdjForall (fun a b => hi a <= hi b) (s0 :: r')).
    { clear - S'. induction S'; constructor; tauto. }
    apply (chain_last (fun a b => hi a <= hi b)); [intros; lia|intros; lia|exact L].
Qed.

(* ------------------------------------------- weighted median stays in a convex set *)

Section Convex.
Variable P : Q -> Prop.
Hypothesis P_proper : forall a b, (a == b)%Q -> P a -> P b.
Hypothesis P_mean : forall a b, P a -> P b -> P ((a + b) / 2)%Q.

Lemma P_mean2 a b : P a -> P b -> P (mean2 a b).
Proof.
  intros Ha Hb. unfold mean2. apply P_proper with ((a + b) / 2)%Q.
  - symmetry. apply Qred_correct.
  - apply P_mean; assumption.
Qed.

Lemma P_nth l d i : Forall P l -> P d -> P (nth i l d).
Proof.
  intros Hl Hd. destruct (nth_in_or_default i l d) as [H|H].
  - rewrite Forall_forall in Hl. apply Hl. exact H.
  - rewrite H. exact Hd.
Qed.

Let Pf (p : Q * Q) : Prop := P (fst p).

Lemma Forall_pins x l : Pf x -> Forall Pf l -> Forall Pf (Descriptives.pins x l).
Proof.
  intros Hx. induction 1 as [|y t Hy Ht IH]; cbn [Descriptives.pins]; [repeat constructor; exact Hx|].
  destruct (QNum.qle_b (fst x) (fst y)); repeat constructor; assumption.
Qed.

Lemma Forall_psort l : Forall Pf l -> Forall Pf (Descriptives.psort l).
Proof.
  induction 1 as [|y t Hy Ht IH]; cbn [Descriptives.psort fold_right]; [constructor|].
  apply Forall_pins; assumption.
Qed.

Lemma pins_nonempty x l : Descriptives.pins x l <> [].
Proof. destruct l as [|y t]; cbn [Descriptives.pins]; [discriminate|]. destruct (QNum.qle_b (fst x) (fst y)); discriminate. Qed.

Lemma argmax_from_P best ps : Pf best -> Forall Pf ps -> Pf (Descriptives.argmax_from best ps).
Proof.
  intros Hb H. revert best Hb. induction H as [|p t Hp Ht IH]; intros best Hb; cbn [Descriptives.argmax_from]; [exact Hb|].
  destruct (QNum.qlt_b (snd best) (snd p)); apply IH; assumption.
Qed.

Lemma wmed_walk_d_P mid tol : forall ps acc d, Forall Pf ps -> P d -> P (wmed_walk_d mid tol acc ps d).
Proof.
  induction ps as [|[v w] rest IH]; intros acc d H Hd; cbn [wmed_walk_d]; [exact Hd|].
  inversion H as [|? ? Hv Hrest]; subst. cbn [Pf fst] in Hv.
  destruct (QNum.qle_b _ _).
  - destruct rest as [|[v2 w2] rest']; [exact Hv|].
    destruct (QNum.qle_b _ _); [|exact Hv].
    inversion Hrest as [|? ? Hv2 _]; subst. cbn [Pf fst] in Hv2.
    unfold QNum.qdiv, QNum.qadd. apply P_proper with ((v + v2) / 2)%Q.
    + rewrite !Qred_correct. reflexivity.
    + apply P_mean; assumption.
  - apply IH; assumption.
Qed.

Lemma wmedian_sorted_P ps : ps <> [] -> Forall Pf ps -> P (wmedian_sorted ps).
Proof.
  intros NE H. unfold wmedian_sorted.
  destruct ps as [|p t]; [contradiction NE; reflexivity|].
  inversion H as [|? ? Hp Ht]; subst.
  destruct (existsb _ _).
  - apply (argmax_from_P p t Hp Ht).
  - apply wmed_walk_d_P; [exact H|]. cbn [map hd]. exact Hp.
Qed.

Lemma wmedian_pairs_P ps m : Forall Pf ps -> wmedian_pairs ps = Some m -> P m.
Proof.
  intros H E. destruct ps as [|[a w] [|q t]]; cbn [wmedian_pairs] in E.
  - discriminate.
  - injection E as <-. inversion H; subst. assumption.
  - injection E as <-. apply (wmedian_sorted_P (Descriptives.psort ((a, w) :: q :: t))).
    + cbn [Descriptives.psort fold_right]. apply pins_nonempty.
    + apply (Forall_psort ((a, w) :: q :: t)). exact H.
Qed.

Lemma wmedian_pairs_some ps : ps <> [] -> exists m, wmedian_pairs ps = Some m.
Proof.
  destruct ps as [|[a w] [|q t]]; intros NE; [contradiction NE; reflexivity| |]; eexists; reflexivity.
Qed.

Lemma Forall_combine_fst (vals ws : list Q) : Forall P vals -> Forall Pf (combine vals ws).
Proof.
  intros H. revert ws. induction H as [|v t Hv Ht IH]; intros [|w ws]; cbn [combine]; constructor; auto.
Qed.

Lemma wmedian_P vals ws : combine vals ws <> [] -> Forall P vals -> P (wmedian vals ws).
Proof.
  intros NE H. unfold wmedian.
  destruct (wmedian_pairs_some _ NE) as (m & E). rewrite E.
  eapply wmedian_pairs_P; [|exact E]. apply Forall_combine_fst. exact H.
Qed.

Lemma median_P l : l <> [] -> Forall P l -> P (median l).
Proof.
  intros NE H. unfold median, QNum.median.
  assert (Hs : Forall P (QNum.qsort l)).
  { eapply Permutation_Forall; [apply Permutation_sym, QNumLemmas.qsort_perm|exact H]. }
  assert (Len : length (QNum.qsort l) = length l) by apply QNumLemmas.qsort_length.
  assert (Pos : (0 < length l)%nat) by (destruct l; [contradiction NE; reflexivity|cbn; lia]).
  assert (Nth : forall i, (i < length (QNum.qsort l))%nat -> P (QNum.nthq i (QNum.qsort l))).
  { intros i Hi. unfold QNum.nthq. rewrite Forall_forall in Hs. apply Hs. apply nth_In. exact Hi. }
  unfold QNum.median_sorted. rewrite Len.
  destruct (Nat.even (length l)) eqn:Ev.
  - pose proof (QNumLemmas.even_half_true _ Ev) as E2.
    apply P_proper with ((QNum.nthq (length l / 2 - 1) (QNum.qsort l) + QNum.nthq (length l / 2) (QNum.qsort l)) / 2)%Q.
    + symmetry. apply Qred_correct.
    + apply P_mean; apply Nth; rewrite Len; lia.
  - pose proof (QNumLemmas.even_half_false _ Ev) as E2. apply Nth. rewrite Len. lia.
Qed.

(* the cn of the row that replaces a non-empty run *)
Lemma cn_squash_P r : r <> [] -> Forall (fun s => P (cn s)) r -> P (cn (squash_region r)).
Proof.
  intros NE H. destruct r as [|s0 r']; [contradiction NE; reflexivity|].
  rewrite squash_cn. set (r := s0 :: r') in *.
  assert (Hv : Forall P (map cn r)) by (rewrite Forall_map; exact H).
  destruct (Qltb _ _).
  - apply wmedian_P; [unfold r; cbn; discriminate|exact Hv].
  - apply median_P; [unfold r; cbn; discriminate|exact Hv].
Qed.

Lemma drop_none_somes (vals : list (option Q)) (ws : list Q) :
  Forall (fun v => exists x, v = Some x /\ P x) vals ->
  Forall Pf (drop_none (combine vals ws)) /\ length (drop_none (combine vals ws)) = length (combine vals ws).
Proof.
  intros H. revert ws. induction H as [|v t (x & -> & Hx) Ht IH]; intros [|w ws]; cbn [combine drop_none length];
    try (split; [constructor|reflexivity]).
  destruct (IH ws) as (I1 & I2). split; [constructor; [exact Hx|exact I1]|]. rewrite I2. reflexivity.
Qed.

Lemma all_some_somes (vals : list (option Q)) :
  Forall (fun v => exists x, v = Some x /\ P x) vals ->
  exists l, all_some vals = Some l /\ Forall P l /\ length l = length vals.
Proof.
  induction 1 as [|v t (x & -> & Hx) Ht (l & E & Hl & Len)]; cbn [all_some].
  - exists []. repeat split; constructor.
  - rewrite E. exists (x :: l). repeat split; [constructor; assumption|cbn; lia].
Qed.

Lemma cn1_squash_some r : r <> [] ->
  Forall (fun s => exists x, cn1 s = Some x /\ P x) r ->
  exists m, cn1 (squash_region r) = Some m /\ P m.
Proof.
  intros NE H. destruct r as [|s0 r']; [contradiction NE; reflexivity|].
  rewrite squash_cn1. set (r := s0 :: r') in *.
  assert (Hv : Forall (fun v => exists x, v = Some x /\ P x) (map cn1 r)) by (rewrite Forall_map; exact H).
  destruct (Qltb _ _).
  - unfold wmedian_opt.
    destruct (drop_none_somes (map cn1 r) (map weight r) Hv) as (D1 & D2).
    destruct (wmedian_pairs_some (drop_none (combine (map cn1 r) (map weight r)))) as (m & E).
    { intros E0. rewrite E0 in D2. unfold r in D2. cbn in D2. discriminate. }
    exists m. split; [exact E|]. eapply wmedian_pairs_P; eassumption.
  - unfold median_opt. destruct (all_some_somes _ Hv) as (l & E & Hl & Len). rewrite E.
    destruct l as [|x t]; [unfold r in Len; cbn in Len; discriminate|].
    eexists. split; [reflexivity|]. apply median_P; [discriminate|exact Hl].
Qed.

End Convex.

Lemma cn1_squash_none r : r <> [] -> Forall (fun s => cn1 s = None) r -> cn1 (squash_region r) = None.
Proof.
  intros NE H. destruct r as [|s0 r']; [contradiction NE; reflexivity|].
  rewrite squash_cn1. set (r := s0 :: r') in *.
  assert (Hv : Forall (fun v => v = None) (map cn1 r)) by (rewrite Forall_map; exact H).
  destruct (Qltb _ _).
  - unfold wmedian_opt.
    assert (E : forall vals ws, Forall (fun v : option Q => v = None) vals -> drop_none (combine vals ws) = []).
    { intros vals ws Hn. revert ws. induction Hn as [|v t -> _ IH]; intros [|w ws]; cbn; auto. }
    rewrite (E _ _ Hv). reflexivity.
  - unfold median_opt. unfold r in *. cbn [map] in *. inversion Hv as [|? ? E0 _]; subst.
    rewrite E0. reflexivity.
Qed.

(* run cn = the common cn (cn filter) *)
Lemma cn_common (t : list seg) r s :
  In r (level_runs Fcn t) -> In s r ->
  (cn (squash_region r) == cn s)%Q /\ oq_eqb (cn1 (squash_region r)) (cn1 s) = true.
Proof.
  intros Hr Hs. destruct (level_runs_max Fcn t) as (_ & NE & Alike & _).
  rewrite Forall_forall in NE, Alike. specialize (NE r Hr). specialize (Alike r Hr).
  assert (Hall : forall x, In x r -> (cn x == cn s)%Q /\ oq_eqb (cn1 x) (cn1 s) = true).
  { intros x Hx. specialize (Alike x s Hx Hs). unfold same_full, same_plain in Alike.
    rewrite !andb_true_iff in Alike. destruct Alike as (((_ & A2) & A3) & _).
    cbn [spec_level] in A2. apply Qeq_bool_iff in A2. split; assumption. }
  split.
  - apply (cn_squash_P (fun x => (x == cn s)%Q)).
    + intros a b E Ha. rewrite <- E. exact Ha.
    + intros a b Ha Hb. rewrite Ha, Hb. field.
    + exact NE.
    + apply Forall_forall. intros x Hx. apply Hall. exact Hx.
  - destruct (cn1 s) as [c|] eqn:Ec.
    + destruct (cn1_squash_some (fun x => (x == c)%Q)) with (r := r) as (m & Em & Pm).
      * intros a b E Ha. rewrite <- E. exact Ha.
      * intros a b Ha Hb. rewrite Ha, Hb. field.
      * exact NE.
      * apply Forall_forall. intros x Hx. destruct (Hall x Hx) as (_ & H1).
        destruct (cn1 x) as [y|]; cbn in H1; [|discriminate]. exists y. split; [reflexivity|].
        apply Qeq_bool_iff. exact H1.
      * rewrite Em. cbn. apply Qeq_bool_iff. exact Pm.
    + rewrite cn1_squash_none; [reflexivity|exact NE|].
      apply Forall_forall. intros x Hx. destruct (Hall x Hx) as (_ & H1).
      destruct (cn1 x); cbn in H1; [discriminate|reflexivity].
Qed.

Theorem filter_conserve : forall (f : filt) (t : list seg),
  Contig (map chrom t) ->
  total_probes (squashed f t) = total_probes t /\
  (total_weight (squashed f t) == total_weight t)%Q /\
  (coords_sorted t -> forall c,
      min_lo c (squashed f t) = min_lo c t /\ max_hi c (squashed f t) = max_hi c t) /\
  (forall r, In r (level_runs f t) ->
      ((0 < total_weight r)%Q -> (log2 (squash_region r) == wavg_log2 r)%Q) /\
      (~ (0 < total_weight r)%Q -> (log2 (squash_region r) == avg_log2 r)%Q)) /\
  (forall r s, In r (level_runs Fcn t) -> In s r ->
      (cn (squash_region r) == cn s)%Q /\ oq_eqb (cn1 (squash_region r)) (cn1 s) = true).
Proof.
  intros f t C. rewrite (squashed_runs f t C).
  destruct (level_runs_max f t) as (Ec & NE & _ & _).
  split; [|split; [|split; [|split]]].
  - rewrite total_probes_squash, Ec. reflexivity.
  - rewrite total_weight_squash, Ec. reflexivity.
  - intros S c. pose proof (runs_coords_ok f t S) as Ok. split.
    + rewrite min_lo_squash by exact Ok. rewrite Ec. reflexivity.
    + rewrite max_hi_squash by exact Ok. rewrite Ec. reflexivity.
  - intros r Hr. apply log2_squash. rewrite Forall_forall in NE. apply NE. exact Hr.
  - intros r s. apply cn_common.
Qed.
