(* C04_perm_invariance: permuting the rows of the target, the antitarget or the reference table
   leaves the output of do_fix unchanged (every correction; the sample is brought into genomic
   order first and the reference is consulted by coordinate only). *)
From CNV Require Import Base.Prelude Base.Str Base.QNum Model.Chromsort Proofs.ChromsortLemmas
  Proofs.QNumLemmas Model.Smoothing Model.Fix Spec.Fix Proofs.FixLib Proofs.FixBins
  Gen.Params Gen.FixDefaults Gen.DescDefaults.

Lemma match_ref_perm ref ref' samp : Permutation ref ref' -> match_ref ref' samp = match_ref ref samp.
Proof.
  intros P. unfold match_ref.
  rewrite (has_dup_perm (map rkey3 ref') (map rkey3 ref)) by (apply Permutation_map, Permutation_sym, P).
  destruct (has_dup (map skey samp)); auto.
  destruct (has_dup (map rkey3 ref)) eqn:D; auto.
  apply has_dup_false_iff in D.
  rewrite (map_ext (fun s => lookup ref' (skey s)) (fun s => lookup ref (skey s))); auto.
  intros s. now apply lookup_perm.
Qed.

Lemma presort_perm samp samp' :
  Permutation samp samp' -> NoDup (map rk (map skey samp)) -> presort samp' = presort samp.
Proof.
  intros P ND. rewrite !presort_eq. symmetry. apply sort_regions_perm_eq; auto.
  now rewrite map_map in ND.
Qed.

Lemma load_adjust_perm c ref ref' k perm wing samp samp' :
  Permutation samp samp' -> Permutation ref ref' -> NoDup (map rk (map skey samp)) ->
  load_adjust c ref' k perm wing samp' = load_adjust c ref k perm wing samp.
Proof.
  intros Ps Pr ND. unfold load_adjust.
  destruct samp as [|s t], samp' as [|s' t']; auto.
  - apply Permutation_nil in Ps. discriminate.
  - apply Permutation_sym, Permutation_nil in Ps. discriminate.
  - rewrite (presort_perm (s :: t) (s' :: t') Ps ND). now rewrite (match_ref_perm ref ref' _ Pr).
Qed.

Theorem perm_invariance_thm bmv2 c o sq target target' anti anti' ref ref' :
  Permutation target target' -> Permutation anti anti' -> Permutation ref ref' ->
  distinct_bins (map skey target) -> distinct_bins (map skey anti) ->
  do_fix_gen bmv2 c o sq target' anti' ref' = do_fix_gen bmv2 c o sq target anti ref.
Proof.
  intros Pt Pa Pr Nt Na. unfold do_fix_gen, fix_pre.
  rewrite (load_adjust_perm c ref ref' true (perm_t o) (wing_t o) target target' Pt Pr Nt).
  rewrite (load_adjust_perm c ref ref' false (perm_a o) (wing_a o) anti anti' Pa Pr Na).
  reflexivity.
Qed.
