(* C04_weight_range and C04_weight_mono: every weight lies in [1/10000, 1]; within one class
   (on-/off-target) a larger bin never gets a smaller weight and a larger reference spread
   never a larger weight.  Needs of sqrt only: positive on positive sizes, monotone. *)
From CNV Require Import Base.Prelude Base.Str Base.QNum Model.Chromsort Proofs.ChromsortLemmas
  Proofs.QNumLemmas Model.Smoothing Model.Descriptives Model.Fix Spec.Fix Proofs.FixLib
  Gen.Params Gen.FixDefaults Gen.DescDefaults.
From Coq Require Import Qround Qabs Setoid Morphisms Psatz.
Local Open Scope Q_scope.
Local Opaque Qred.

Lemma eps_bounds : 1 # 10000 <= weight_epsilon /\ weight_epsilon <= 1.
Proof. split; apply Qle_alt; vm_compute; discriminate. Qed.

Lemma blend_bounds : 0 <= weight_blend_x /\ weight_blend_x <= 1.
Proof. split; apply Qle_alt; vm_compute; discriminate. Qed.

Ltac qb H := first [apply qlt_b_iff in H | apply qlt_b_false in H].

Lemma clip_range lo hi v : lo <= hi -> lo <= clip lo hi v <= hi.
Proof.
  intros H. unfold clip.
  destruct (qlt_b v lo) eqn:E1; qb E1; destruct (qlt_b hi v) eqn:E2; qb E2; lra.
Qed.

Lemma clip_mono lo hi v v' : lo <= hi -> v <= v' -> clip lo hi v <= clip lo hi v'.
Proof.
  intros H Hv. unfold clip.
  destruct (qlt_b v lo) eqn:E1; qb E1; destruct (qlt_b v' lo) eqn:E2; qb E2;
  destruct (qlt_b hi v) eqn:E3; qb E3; destruct (qlt_b hi v') eqn:E4; qb E4; lra.
Qed.

Lemma bin_weight_range pooled var sz m sp :
  1 # 10000 <= bin_weight pooled var sz m sp <= 1.
Proof.
  unfold bin_weight. rewrite Qred_correct. destruct eps_bounds as [E1 E2].
  pose proof (clip_range weight_epsilon 1 (if pooled
     then weight_blend_x * (1 - sp * sp) + (1 - weight_blend_x) * (1 - var / (sz / m))
     else 1 - var / (sz / m)) E2). lra.
Qed.

Lemma Qdiv_antimono a x x' : 0 <= a -> 0 < x -> x <= x' -> a / x' <= a / x.
Proof.
  intros Ha Hx Hxx.
  assert (Q0 : 0 <= a / x) by (apply Qle_shift_div_l; lra).
  assert (Q1 : a / x * x == a) by (field; lra).
  apply Qle_shift_div_r; [lra|]. nra.
Qed.

Lemma bin_weight_mono_size pooled var sz sz' m sp sp' :
  0 <= var -> 0 < sz -> sz <= sz' -> 0 < m -> sp == sp' ->
  bin_weight pooled var sz m sp <= bin_weight pooled var sz' m sp'.
Proof.
  intros Hv Hs Hss Hm Esp. unfold bin_weight. rewrite !Qred_correct.
  destruct eps_bounds as [_ E2]. destruct blend_bounds as [B1 B2].
  apply clip_mono; auto.
  assert (X0 : 0 < sz / m) by (apply Qlt_shift_div_l; lra).
  assert (X1 : sz / m <= sz' / m).
  { unfold Qdiv. apply Qmult_le_compat_r; auto. apply Qinv_le_0_compat. lra. }
  pose proof (Qdiv_antimono var (sz / m) (sz' / m) Hv X0 X1) as D.
  destruct pooled; rewrite ?Esp; nra.
Qed.

Lemma bin_weight_mono_spread pooled var sz sz' m sp sp' :
  sz == sz' -> 0 <= sp -> sp <= sp' ->
  bin_weight pooled var sz' m sp' <= bin_weight pooled var sz m sp.
Proof.
  intros Es H0 Hsp. unfold bin_weight. rewrite !Qred_correct.
  destruct eps_bounds as [_ E2]. destruct blend_bounds as [B1 B2].
  apply clip_mono; auto.
  destruct pooled; rewrite Es; [|lra].
  assert (sp * sp <= sp' * sp') by nra. nra.
Qed.

(* ------------------------------------------------------------------------ *)

Section Out.
  Variable sq : Z -> Q.
  Variables vt va : Q.

  Definition wfun (l : list brow) (b : brow) : Q :=
    let anti := is_anti_gene b in
    bin_weight (pooled_ref l) (if anti then va else vt) (sq (bsize b))
               (if anti then class_mean_sz sq true l else class_mean_sz sq false l) (r_spread (snd b)).

  Lemma apply_weights_eq l : apply_weights sq vt va l = map (fun b => (b, wfun l b)) l.
  Proof. reflexivity. Qed.

  Lemma class_mean_pos l b :
    (forall z, (0 < z)%Z -> 0 < sq z) -> (forall x, In x l -> (0 < bsize x)%Z) -> In b l ->
    0 < class_mean_sz sq (is_anti_gene b) l.
  Proof.
    intros Hsq Hsz Hb. unfold class_mean_sz.
    set (vals := map (fun b0 => sq (bsize b0)) (filter (fun b0 => Bool.eqb (is_anti_gene b0) (is_anti_gene b)) l)).
    assert (N : vals <> []).
    { unfold vals. assert (Hin : In b (filter (fun b0 => Bool.eqb (is_anti_gene b0) (is_anti_gene b)) l)).
      { apply filter_In. split; auto. apply Bool.eqb_reflx. }
      intro Z. apply map_eq_nil in Z. rewrite Z in Hin. contradiction. }
    pose proof (qmean_min_max vals N) as [M1 _].
    pose proof (qmin_In vals N) as Hm. unfold vals in Hm at 2. apply in_map_iff in Hm as (x & Ex & Hx).
    apply filter_In in Hx as [Hx _].
    assert (0 < qmin vals) by (rewrite <- Ex; apply Hsq, Hsz, Hx). lra.
  Qed.
End Out.

Theorem weight_range_thm bmv2 c o sq target anti ref out :
  do_fix_gen bmv2 c o sq target anti ref = inr out ->
  forall p, In p out -> 1 # 10000 <= snd p <= 1.
Proof.
  unfold do_fix_gen. destruct (fix_pre c o target anti ref) as [e|l] eqn:F; [discriminate|].
  intros E; injection E as <-. intros p Hp. unfold fix_post in Hp. rewrite apply_weights_eq in Hp.
  apply in_map_iff in Hp as (b & <- & Hb). cbn [snd]. apply bin_weight_range.
Qed.

Theorem weight_mono_thm bmv2 c o sq target anti ref out :
  variance_contract bmv2 -> sqrt_contract sq ->
  do_fix_gen bmv2 c o sq target anti ref = inr out ->
  (forall p, In p out -> (0 < bsize (fst p))%Z) ->
  forall p q, In p out -> In q out -> is_anti_gene (fst p) = is_anti_gene (fst q) ->
    ((bsize (fst p) <= bsize (fst q))%Z -> r_spread (snd (fst p)) == r_spread (snd (fst q)) -> snd p <= snd q) /\
    (bsize (fst p) = bsize (fst q) -> 0 <= r_spread (snd (fst p)) -> r_spread (snd (fst p)) <= r_spread (snd (fst q)) ->
     snd q <= snd p).
Proof.
  intros Hvar [Sq1 Sq2]. unfold do_fix_gen. destruct (fix_pre c o target anti ref) as [e|l] eqn:F; [discriminate|].
  intros E; injection E as <-. unfold fix_post. rewrite apply_weights_eq.
  set (l' := center_all c true l). set (vt := bmv2 _). set (va := bmv2 _).
  intros Hsz p q Hp Hq Ecls.
  apply in_map_iff in Hp as (bp & <- & Hbp). apply in_map_iff in Hq as (bq & <- & Hbq). cbn [fst snd] in *.
  assert (Hsz' : forall x, In x l' -> (0 < bsize x)%Z).
  { intros x Hx. apply (Hsz (x, wfun sq vt va l' x)). apply in_map_iff. exists x. auto. }
  pose proof (class_mean_pos sq l' bp Sq1 Hsz' Hbp) as Mp.
  unfold wfun. rewrite <- Ecls.
  assert (Vn : 0 <= (if is_anti_gene bp then va else vt)) by (destruct (is_anti_gene bp); apply Hvar).
  assert (Mp' : 0 < (if is_anti_gene bp then class_mean_sz sq true l' else class_mean_sz sq false l')).
  { destruct (is_anti_gene bp); exact Mp. }
  split.
  - intros Hle Esp. apply bin_weight_mono_size; auto.
  - intros Hsize H0 Hle. apply bin_weight_mono_spread; auto. rewrite Hsize. reflexivity.
Qed.

(* the variance the model itself computes is a square *)
Lemma qpow4_nonneg x : 0 <= qpow x 4.
Proof.
  cbn [qpow]. unfold qmul. rewrite !Qred_correct. nra.
Qed.

Lemma fix_bivar_sq_nonneg a : 0 <= fix_bivar_sq a.
Proof.
  unfold fix_bivar_sq. cbv zeta.
  destruct (forallb _ _); [apply qsq_nonneg|].
  rewrite qdiv_spec. unfold Qdiv. apply Qmult_le_0_compat; [|apply Qinv_le_0_compat, qsq_nonneg].
  rewrite qmul_spec. apply Qmult_le_0_compat; [apply qofnat_nonneg|].
  apply qsum_nonneg. intros x Hx. apply in_map_iff in Hx as (p & <- & _).
  rewrite qmul_spec. apply Qmult_le_0_compat; [apply qsq_nonneg|].
  change (Z.to_nat BIVAR_NUM_POW) with 4%nat. apply qpow4_nonneg.
Qed.

Lemma var_of_nonneg : variance_contract var_of.
Proof.
  intros a. unfold var_of. destruct a as [|x [|y t]];
    [apply Qle_refl|apply qsq_nonneg|apply fix_bivar_sq_nonneg].
Qed.

(* the same, stated on the inputs on which the code itself yields a number (see Props/C04.v) *)
Theorem weight_range_usable_thm bmv2 c o sq target anti ref out :
  (exists s, In s target /\ usable c ref s) ->
  ((exists s, In s anti /\ kept_b c ref (skey s) = true) -> exists s, In s anti /\ usable c ref s) ->
  do_fix_gen bmv2 c o sq target anti ref = inr out ->
  forall p, In p out -> 1 # 10000 <= snd p <= 1.
Proof. intros _ _. apply weight_range_thm. Qed.
