(* Proofs for C09: the interval arithmetic of the coverage model equals the
   per-position specification sums (double counting), filtered reads change
   nothing, the two algorithms agree on reads without D/N, any split of the
   BED into consecutive chunks gives the same table. *)
From CNV Require Import Base.Prelude Base.Str Gen.Params Gen.CoverageDefaults
  Model.Coverage Spec.Coverage.

Definition b2z (b : bool) : Z := if b then 1 else 0.

(* ---------------------------------------------------------------------- *)
(* sums over ranges of positions                                           *)

Lemma sum_from_ext f g lo n :
  (forall x, lo <= x < lo + Z.of_nat n -> f x = g x) ->
  sum_from f lo n = sum_from g lo n.
Proof.
  revert lo; induction n as [|n IH]; intros lo H; cbn [sum_from]; [reflexivity|].
  rewrite (H lo) by lia. rewrite (IH (lo + 1)); [reflexivity|].
  intros x Hx. apply H. lia.
Qed.

Lemma sum_from_plus f g lo n :
  sum_from (fun x => f x + g x) lo n = sum_from f lo n + sum_from g lo n.
Proof.
  revert lo; induction n as [|n IH]; intros lo; cbn [sum_from]; [reflexivity|].
  rewrite IH. lia.
Qed.

Lemma sum_from_zero lo n : sum_from (fun _ => 0) lo n = 0.
Proof. revert lo; induction n as [|n IH]; intros lo; cbn [sum_from]; [reflexivity|]. rewrite IH. reflexivity. Qed.

Lemma sum_from_sumZ {A} (f : A -> Z -> Z) (l : list A) lo n :
  sum_from (fun x => sumZ (map (fun a => f a x) l)) lo n
  = sumZ (map (fun a => sum_from (f a) lo n) l).
Proof.
  induction l as [|a t IH]; cbn [map sumZ].
  - apply sum_from_zero.
  - rewrite sum_from_plus, IH. reflexivity.
Qed.

Lemma sum_from_nonneg f lo n :
  (forall x, lo <= x < lo + Z.of_nat n -> 0 <= f x) -> 0 <= sum_from f lo n.
Proof.
  revert lo; induction n as [|n IH]; intros lo H; cbn [sum_from]; [lia|].
  assert (0 <= f lo) by (apply H; lia).
  assert (0 <= sum_from f (lo + 1) n) by (apply IH; intros x Hx; apply H; lia).
  lia.
Qed.

Lemma sum_from_zero_inv f lo n :
  (forall x, lo <= x < lo + Z.of_nat n -> 0 <= f x) ->
  sum_from f lo n = 0 ->
  forall x, lo <= x < lo + Z.of_nat n -> f x = 0.
Proof.
  revert lo; induction n as [|n IH]; intros lo Hpos Hsum x Hx; [lia|].
  cbn [sum_from] in Hsum.
  assert (H0 : 0 <= f lo) by (apply Hpos; lia).
  assert (H1 : 0 <= sum_from f (lo + 1) n) by (apply sum_from_nonneg; intros y Hy; apply Hpos; lia).
  destruct (Z.eq_dec x lo) as [->|Hne]; [lia|].
  apply (IH (lo + 1)); [intros y Hy; apply Hpos; lia | lia | lia].
Qed.

Lemma in_block_true x b : in_block x b = true <-> fst b <= x < snd b.
Proof. unfold in_block. rewrite andb_true_iff, Z.leb_le, Z.ltb_lt. tauto. Qed.

Lemma sum_from_block b lo n :
  sum_from (fun x => b2z (in_block x b)) lo n = ovl lo (lo + Z.of_nat n) b.
Proof.
  revert lo; induction n as [|n IH]; intros lo; cbn [sum_from].
  - unfold ovl. lia.
  - rewrite IH. unfold ovl, in_block, b2z.
    destruct (fst b <=? lo) eqn:E1; destruct (lo <? snd b) eqn:E2; cbn [andb]; lia.
Qed.

Lemma sum_range_block b lo hi :
  sum_range (fun x => b2z (in_block x b)) lo hi = ovl lo hi b.
Proof.
  unfold sum_range. rewrite sum_from_block.
  destruct (Z.le_gt_cases hi lo) as [H|H].
  - replace (Z.to_nat (hi - lo)) with 0%nat by lia. unfold ovl. lia.
  - replace (lo + Z.of_nat (Z.to_nat (hi - lo))) with hi by lia. reflexivity.
Qed.

Lemma ovl_nonneg lo hi b : 0 <= ovl lo hi b.
Proof. unfold ovl. lia. Qed.

(* ---------------------------------------------------------------------- *)
(* filters as indicator sums                                               *)

Lemma length_filter_sum {A} (p : A -> bool) (l : list A) :
  Z.of_nat (length (filter p l)) = sumZ (map (fun a => b2z (p a)) l).
Proof.
  induction l as [|a t IH]; cbn [filter map sumZ]; [reflexivity|].
  destruct (p a); cbn [length b2z]; lia.
Qed.

Lemma sumZ_map_filter {A} (p : A -> bool) (f : A -> Z) (l : list A) :
  sumZ (map f (filter p l)) = sumZ (map (fun a => if p a then f a else 0) l).
Proof.
  induction l as [|a t IH]; cbn [filter map sumZ]; [reflexivity|].
  destruct (p a); cbn [map sumZ]; lia.
Qed.

Lemma sumZ_map_ext {A} (f g : A -> Z) (l : list A) :
  (forall a, In a l -> f a = g a) -> sumZ (map f l) = sumZ (map g l).
Proof.
  induction l as [|a t IH]; intros H; cbn [map sumZ]; [reflexivity|].
  rewrite (H a) by (left; reflexivity). rewrite IH; [reflexivity|].
  intros b Hb. apply H. right. exact Hb.
Qed.

Lemma sumZ_nonneg (l : list Z) : Forall (fun z => 0 <= z) l -> 0 <= sumZ l.
Proof. induction 1; cbn [sumZ]; lia. Qed.

(* the double-counting lemma: summing the per-base depth over the positions of
   the bin = summing, over the selected reads, the number of bin positions the
   read covers *)
Lemma spec_bases_by_read cov cut c lo hi reads :
  spec_bases cov cut c lo hi reads
  = sumZ (map (fun r => sum_range (fun x => b2z (cov r x)) lo hi)
              (filter (fun r => on_contig c r && counted cut r) reads)).
Proof.
  unfold spec_bases, sum_range.
  set (n := Z.to_nat (hi - lo)).
  set (p := fun r => on_contig c r && counted cut r).
  set (F := fun r x => if p r then b2z (cov r x) else 0).
  transitivity (sum_from (fun x => sumZ (map (fun r => F r x) reads)) lo n).
  - apply sum_from_ext. intros x _. unfold depth_at.
    rewrite length_filter_sum. apply sumZ_map_ext. intros r _. unfold F, p.
    destruct (on_contig c r && counted cut r); reflexivity.
  - rewrite sum_from_sumZ, sumZ_map_filter.
    apply sumZ_map_ext. intros r _. unfold F. fold (p r).
    destruct (p r).
    + apply sum_from_ext. reflexivity.
    + apply sum_from_zero.
Qed.

(* ---------------------------------------------------------------------- *)
(* cigar blocks                                                            *)

Definition wf_cigar (ops : list (Z * Z)) : Prop := Forall (fun p => 0 <= snd p) ops.

Lemma ref_len_nonneg ops : wf_cigar ops -> 0 <= ref_len ops.
Proof.
  induction 1 as [|[op n] t Hn Ht IH]; cbn [ref_len]; [lia|].
  cbn [snd] in Hn. destruct (op_aligned op || op_refonly op); lia.
Qed.

(* every block starts at or after pos *)
Lemma blocks_before x pos ops :
  wf_cigar ops -> x < pos -> existsb (in_block x) (blocks_of_cigar pos ops) = false.
Proof.
  intros H; revert pos; induction H as [|[op n] t Hn Ht IH]; intros pos Hx; cbn [blocks_of_cigar]; [reflexivity|].
  cbn [snd] in Hn.
  destruct (op_aligned op).
  - cbn [existsb]. rewrite IH by lia.
    unfold in_block; cbn [fst snd]. destruct (pos <=? x) eqn:E; [lia|reflexivity].
  - destruct (op_refonly op); apply IH; lia.
Qed.

(* blocks are disjoint: a position lies in at most one of them *)
Lemma aligned_indicator x pos ops :
  wf_cigar ops ->
  b2z (existsb (in_block x) (blocks_of_cigar pos ops))
  = sumZ (map (fun b => b2z (in_block x b)) (blocks_of_cigar pos ops)).
Proof.
  intros H; revert pos; induction H as [|[op n] t Hn Ht IH]; intros pos; cbn [blocks_of_cigar]; [reflexivity|].
  cbn [snd] in Hn.
  destruct (op_aligned op).
  - cbn [existsb map sumZ]. rewrite <- IH.
    destruct (in_block x (pos, pos + n)) eqn:E; cbn [orb b2z].
    + apply in_block_true in E; cbn [fst snd] in E.
      rewrite blocks_before by (assumption || lia). reflexivity.
    + lia.
  - destruct (op_refonly op); apply IH.
Qed.

Lemma read_count_spec lo hi r :
  wf_cigar (r_cigar r) ->
  sum_range (fun x => b2z (aligned_at r x)) lo hi = read_bases_count lo hi r.
Proof.
  intros H. unfold read_bases_count, aligned_at, read_blocks, sum_range.
  transitivity (sum_from (fun x => sumZ (map (fun b => b2z (in_block x b))
                                             (blocks_of_cigar (r_pos r) (r_cigar r)))) lo (Z.to_nat (hi - lo))).
  - apply sum_from_ext. intros x _. apply aligned_indicator. exact H.
  - rewrite sum_from_sumZ. apply sumZ_map_ext. intros b _. apply sum_range_block.
Qed.

Lemma read_pileup_spec lo hi r :
  sum_range (fun x => b2z (spanned_at r x)) lo hi = read_bases_pileup lo hi r.
Proof. unfold spanned_at, read_bases_pileup. apply sum_range_block. Qed.

Lemma wf_read_cigar r : wf_read r -> wf_cigar (r_cigar r).
Proof. intros [H _]. exact H. Qed.

(* the model's base counts are the per-position sums *)
Lemma bases_count_spec cut c lo hi reads :
  Forall wf_read reads ->
  bases_count cut c lo hi reads = spec_bases aligned_at cut c lo hi reads.
Proof.
  intros H. rewrite spec_bases_by_read. unfold bases_count.
  apply sumZ_map_ext. intros r Hr. symmetry. apply read_count_spec.
  apply filter_In in Hr as [Hr _]. rewrite Forall_forall in H. apply wf_read_cigar, H, Hr.
Qed.

Lemma bases_pileup_spec cut c lo hi reads :
  bases_pileup cut c lo hi reads = spec_bases spanned_at (pileup_cut cut) c lo hi reads.
Proof.
  rewrite spec_bases_by_read. unfold bases_pileup.
  apply sumZ_map_ext. intros r _. symmetry. apply read_pileup_spec.
Qed.

Lemma bases_count_nonneg cut c lo hi reads : 0 <= bases_count cut c lo hi reads.
Proof.
  unfold bases_count. apply sumZ_nonneg. rewrite Forall_map. apply Forall_forall. intros r _.
  unfold read_bases_count. apply sumZ_nonneg. rewrite Forall_map. apply Forall_forall. intros b _.
  apply ovl_nonneg.
Qed.

Lemma bases_pileup_nonneg cut c lo hi reads : 0 <= bases_pileup cut c lo hi reads.
Proof.
  unfold bases_pileup. apply sumZ_nonneg. rewrite Forall_map. apply Forall_forall. intros r _.
  apply ovl_nonneg.
Qed.

(* ---------------------------------------------------------------------- *)
(* the filter                                                              *)

Lemma counted_iff cut r : counted cut r = true <-> is_counted cut r.
Proof.
  unfold counted, is_counted, flag_excluded.
  rewrite andb_true_iff, negb_true_iff, !orb_false_iff, !negb_false_iff, !Z.eqb_eq, Z.leb_le.
  tauto.
Qed.

Lemma pileup_cut_eq cut : pileup_cut cut = Z.max 0 cut.
Proof. unfold pileup_cut, BEDCOV_MAPQ_OPTION_CUT. destruct (0 <? cut) eqn:E; lia. Qed.

Lemma counted_pileup_cut cut r : 0 <= r_mapq r -> counted (pileup_cut cut) r = counted cut r.
Proof.
  intros H. rewrite pileup_cut_eq. unfold counted. f_equal.
  destruct (cut <=? r_mapq r) eqn:E; lia.
Qed.

Lemma on_contig_iff c r : on_contig c r = true <-> r_contig r = c.
Proof. unfold on_contig. rewrite String.eqb_eq. split; congruence. Qed.

Lemma filtered_out_not_counted cut r : filtered_out cut r -> counted cut r = false.
Proof.
  intros H. destruct (counted cut r) eqn:E; [|reflexivity].
  apply counted_iff in E. unfold is_counted in E. unfold filtered_out in H. lia.
Qed.

Lemma filtered_out_pileup cut r : filtered_out cut r -> filtered_out (pileup_cut cut) r.
Proof. unfold filtered_out. rewrite pileup_cut_eq. intros H. lia. Qed.

Lemma filter_drop {A} (p : A -> bool) l1 a l2 :
  p a = false -> filter p (l1 ++ a :: l2) = filter p (l1 ++ l2).
Proof. intros H. rewrite !filter_app. cbn [filter]. rewrite H. reflexivity. Qed.

Lemma bases_count_drop cut c lo hi l1 r l2 :
  counted cut r = false ->
  bases_count cut c lo hi (l1 ++ r :: l2) = bases_count cut c lo hi (l1 ++ l2).
Proof. intros H. unfold bases_count. rewrite filter_drop; [reflexivity|]. rewrite H. apply andb_false_r. Qed.

Lemma bases_pileup_drop cut c lo hi l1 r l2 :
  counted (pileup_cut cut) r = false ->
  bases_pileup cut c lo hi (l1 ++ r :: l2) = bases_pileup cut c lo hi (l1 ++ l2).
Proof. intros H. unfold bases_pileup. rewrite filter_drop; [reflexivity|]. rewrite H. apply andb_false_r. Qed.

Lemma coverage_drop log2o alg cut l1 r l2 bins :
  filtered_out cut r ->
  coverage log2o alg cut (l1 ++ r :: l2) bins = coverage log2o alg cut (l1 ++ l2) bins.
Proof.
  intros H. unfold coverage. apply map_ext. intros [[[c lo] hi] rest]. unfold row_of.
  destruct alg.
  - rewrite bases_count_drop by (apply filtered_out_not_counted, H). reflexivity.
  - rewrite bases_pileup_drop by (apply filtered_out_not_counted, filtered_out_pileup, H). reflexivity.
Qed.

(* ---------------------------------------------------------------------- *)
(* the two algorithms on reads without D/N                                 *)

Definition no_refskip_cigar (ops : list (Z * Z)) : Prop :=
  Forall (fun p => op_refonly (fst p) = false) ops.

(* without D/N the aligned blocks tile the span of the read *)
Lemma blocks_tile_span lo hi pos ops :
  wf_cigar ops -> no_refskip_cigar ops ->
  sumZ (map (ovl lo hi) (blocks_of_cigar pos ops)) = ovl lo hi (pos, pos + ref_len ops).
Proof.
  intros H; revert pos; induction H as [|[op n] t Hn Ht IH]; intros pos Hs; cbn [blocks_of_cigar ref_len map sumZ].
  - unfold ovl; cbn [fst snd]. lia.
  - cbn [snd] in Hn. inversion Hs as [|? ? Hop Hs']; subst. cbn [fst] in Hop. rewrite Hop.
    pose proof (ref_len_nonneg t Ht) as HR.
    destruct (op_aligned op); cbn [orb map sumZ].
    + rewrite IH by assumption. unfold ovl; cbn [fst snd]. lia.
    + apply IH; assumption.
Qed.

Lemma aligned_is_spanned x pos ops :
  wf_cigar ops -> no_refskip_cigar ops ->
  existsb (in_block x) (blocks_of_cigar pos ops) = in_block x (pos, pos + ref_len ops).
Proof.
  intros H; revert pos; induction H as [|[op n] t Hn Ht IH]; intros pos Hs; cbn [blocks_of_cigar ref_len existsb].
  - unfold in_block; cbn [fst snd]. destruct (pos <=? x) eqn:E1; destruct (x <? pos + 0) eqn:E2; cbn [andb]; lia.
  - cbn [snd] in Hn. inversion Hs as [|? ? Hop Hs']; subst. cbn [fst] in Hop. rewrite Hop.
    pose proof (ref_len_nonneg t Ht) as HR.
    destruct (op_aligned op); cbn [orb existsb].
    + rewrite IH by assumption. unfold in_block; cbn [fst snd].
      destruct (pos <=? x) eqn:E1; destruct (x <? pos + n) eqn:E2; destruct (pos + n <=? x) eqn:E3;
        destruct (x <? pos + n + ref_len t) eqn:E4; destruct (x <? pos + (n + ref_len t)) eqn:E5; cbn [andb orb]; lia.
    + apply IH; assumption.
Qed.

Lemma read_bases_agree lo hi r :
  wf_cigar (r_cigar r) -> no_refskip_cigar (r_cigar r) ->
  read_bases_count lo hi r = read_bases_pileup lo hi r.
Proof. intros H1 H2. unfold read_bases_count, read_bases_pileup, read_blocks, read_span. apply blocks_tile_span; assumption. Qed.

Lemma filter_ext_in' {A} (p q : A -> bool) l :
  (forall a, In a l -> p a = q a) -> filter p l = filter q l.
Proof.
  induction l as [|a t IH]; intros H; cbn [filter]; [reflexivity|].
  rewrite (H a) by (left; reflexivity). rewrite IH; [reflexivity|]. intros b Hb; apply H; right; exact Hb.
Qed.

Lemma bases_agree cut c lo hi reads :
  Forall wf_read reads -> Forall no_refskip reads ->
  bases_pileup cut c lo hi reads = bases_count cut c lo hi reads.
Proof.
  intros Hw Hs. unfold bases_pileup, bases_count.
  rewrite (filter_ext_in' (fun r => on_contig c r && counted (pileup_cut cut) r)
                          (fun r => on_contig c r && counted cut r)).
  - apply sumZ_map_ext. intros r Hr. apply filter_In in Hr as [Hr _].
    rewrite Forall_forall in Hw, Hs. symmetry. apply read_bases_agree.
    + apply wf_read_cigar, Hw, Hr.
    + apply Hs, Hr.
  - intros r Hr. rewrite Forall_forall in Hw. destruct (Hw r Hr) as [_ Hq].
    rewrite counted_pileup_cut by exact Hq. reflexivity.
Qed.

(* ---------------------------------------------------------------------- *)
(* depth and log2                                                          *)

Lemma ratio_eq bases span : ratio bases span == inject_Z bases / inject_Z span.
Proof. unfold ratio. apply Qred_correct. Qed.

Lemma ratio_nonneg bases span : 0 <= bases -> 0 < span -> (0 <= ratio bases span)%Q.
Proof.
  intros Hb Hs. rewrite ratio_eq. apply Qle_shift_div_l.
  - replace 0%Q with (inject_Z 0) by reflexivity. rewrite <- Zlt_Qlt. exact Hs.
  - rewrite Qmult_0_l. replace 0%Q with (inject_Z 0) by reflexivity. rewrite <- Zle_Qle. exact Hb.
Qed.

Lemma ratio_zero_iff bases span : 0 < span -> (ratio bases span == 0 <-> bases = 0).
Proof.
  intros Hs. rewrite ratio_eq. destruct span as [|p|p]; try lia.
  rewrite <- Qmake_Qdiv. unfold Qeq; cbn [Qnum Qden]. lia.
Qed.

Lemma count_depth_eq bases lo hi : lo < hi ->
  count_depth bases lo hi == inject_Z bases / inject_Z (hi - lo).
Proof. intros H. unfold count_depth. destruct (lo <? hi) eqn:E; [apply ratio_eq|lia]. Qed.

Lemma pileup_depth_count_depth bases lo hi : pileup_depth bases lo hi = count_depth bases lo hi.
Proof.
  unfold pileup_depth, count_depth, PILEUP_SPAN_CUT, PILEUP_ZERO_DEPTH, COUNT_ZERO_DEPTH.
  destruct (0 <? hi - lo) eqn:E1; destruct (lo <? hi) eqn:E2; try reflexivity; lia.
Qed.

Lemma count_depth_nonneg bases lo hi : 0 <= bases -> (0 <= count_depth bases lo hi)%Q.
Proof.
  intros H. unfold count_depth, COUNT_ZERO_DEPTH. destruct (lo <? hi) eqn:E.
  - apply ratio_nonneg; lia.
  - apply Qle_refl.
Qed.

Lemma count_depth_zero_iff bases lo hi : lo < hi -> (count_depth bases lo hi == 0 <-> bases = 0).
Proof. intros H. unfold count_depth. destruct (lo <? hi) eqn:E; [|lia]. apply ratio_zero_iff. lia. Qed.

Lemma count_depth_zero_width bases lo hi : hi <= lo -> count_depth bases lo hi = 0%Q.
Proof. intros H. unfold count_depth, COUNT_ZERO_DEPTH. destruct (lo <? hi) eqn:E; [lia|reflexivity]. Qed.

Lemma pileup_log2_count_log2 log2o d : (0 <= d)%Q -> pileup_log2 log2o d = count_log2 log2o d.
Proof.
  intros H. unfold pileup_log2, count_log2, PILEUP_DEPTH_CUT.
  destruct (Qle_bool d (inject_Z 0)) eqn:E1; destruct (Qeq_bool d 0) eqn:E2; try reflexivity.
  - apply Qle_bool_iff in E1. exfalso.
    assert (E : d == 0) by (apply Qle_antisym; assumption).
    apply Qeq_bool_iff in E. congruence.
  - apply Qeq_bool_iff in E2. exfalso.
    assert (E : Qle_bool d (inject_Z 0) = true) by (apply Qle_bool_iff; rewrite E2; apply Qle_refl).
    congruence.
Qed.

Lemma count_log2_spec log2o d :
  count_log2 log2o d = if Qeq_bool d 0 then (-20 # 1) else log2o d.
Proof. reflexivity. Qed.

(* rows of the two algorithms coincide on reads without D/N *)
Lemma coverage_agree log2o cut reads bins :
  Forall wf_read reads -> Forall no_refskip reads ->
  coverage log2o Pileup cut reads bins = coverage log2o Count cut reads bins.
Proof.
  intros Hw Hs. unfold coverage. apply map_ext. intros [[[c lo] hi] rest]. unfold row_of.
  rewrite bases_agree by assumption. rewrite pileup_depth_count_depth.
  rewrite pileup_log2_count_log2; [reflexivity|].
  apply count_depth_nonneg, bases_count_nonneg.
Qed.

(* ---------------------------------------------------------------------- *)
(* chunks                                                                  *)

Lemma concat_chunks_fuel {A} (fuel k : nat) (l : list A) :
  (1 <= k)%nat -> (length l <= fuel)%nat -> concat (chunks_fuel fuel k l) = l.
Proof.
  intros Hk. revert l; induction fuel as [|f IH]; intros l Hl; cbn [chunks_fuel].
  - destruct l; [reflexivity|cbn [length] in Hl; lia].
  - destruct l as [|a t]; [reflexivity|].
    cbn [concat]. rewrite IH.
    + apply firstn_skipn.
    + rewrite skipn_length. cbn [length] in *. lia.
Qed.

Lemma concat_chunks {A} (k : nat) (l : list A) : (1 <= k)%nat -> concat (chunks k l) = l.
Proof. intros Hk. unfold chunks. apply concat_chunks_fuel; [exact Hk|lia]. Qed.

Lemma coverage_split_concat log2o alg cut reads parts :
  coverage_split log2o alg cut reads parts = coverage log2o alg cut reads (concat parts).
Proof. unfold coverage_split, coverage. rewrite concat_map. reflexivity. Qed.

Lemma coverage_chunks_eq log2o k alg cut reads bins :
  (1 <= k)%nat -> coverage_chunks log2o k alg cut reads bins = coverage log2o alg cut reads bins.
Proof. intros Hk. unfold coverage_chunks. rewrite coverage_split_concat, concat_chunks by exact Hk. reflexivity. Qed.

Lemma chunks_fuel_size {A} (fuel k : nat) (l : list A) :
  Forall (fun ch => (length ch <= k)%nat) (chunks_fuel fuel k l).
Proof.
  revert l; induction fuel as [|f IH]; intros l; cbn [chunks_fuel]; [constructor|].
  destruct l as [|a t]; [constructor|]. constructor; [|apply IH].
  rewrite firstn_length. lia.
Qed.

Lemma row_key_of log2o alg cut reads b : row_key (row_of log2o alg cut reads b) = bin_key b.
Proof. destruct b as [[[c lo] hi] rest]. unfold row_of. destruct alg; reflexivity. Qed.

Lemma coverage_keys log2o alg cut reads bins :
  map row_key (coverage log2o alg cut reads bins) = map bin_key bins.
Proof. unfold coverage. rewrite map_map. apply map_ext. intros b. apply row_key_of. Qed.

(* ---------------------------------------------------------------------- *)
(* the statements used by Props/C09.v                                      *)

Lemma spec_bases_pileup_cut cov cut c lo hi reads :
  Forall wf_read reads ->
  spec_bases cov (pileup_cut cut) c lo hi reads = spec_bases cov cut c lo hi reads.
Proof.
  intros Hw. rewrite !spec_bases_by_read. do 2 f_equal. apply filter_ext_in'. intros r Hr.
  rewrite Forall_forall in Hw. destruct (Hw r Hr) as [_ Hq].
  rewrite counted_pileup_cut by exact Hq. reflexivity.
Qed.

Definition model_bases (alg : algo) (cut : Z) (c : string) (lo hi : Z) (reads : list read) : Z :=
  match alg with
  | Count => bases_count cut c lo hi reads
  | Pileup => bases_pileup cut c lo hi reads
  end.

Lemma model_bases_spec alg cut c lo hi reads :
  Forall wf_read reads ->
  model_bases alg cut c lo hi reads = spec_bases (cov_of alg) cut c lo hi reads.
Proof.
  intros Hw. destruct alg; cbn [model_bases cov_of].
  - apply bases_count_spec, Hw.
  - rewrite bases_pileup_spec. apply spec_bases_pileup_cut, Hw.
Qed.

Lemma model_bases_nonneg alg cut c lo hi reads : 0 <= model_bases alg cut c lo hi reads.
Proof. destruct alg; [apply bases_count_nonneg|apply bases_pileup_nonneg]. Qed.

(* a row in terms of count_depth / count_log2 only *)
Lemma row_of_normal log2o alg cut reads c lo hi rest :
  row_of log2o alg cut reads (c, lo, hi, rest)
  = (c, lo, hi, bin_name rest,
     count_depth (model_bases alg cut c lo hi reads) lo hi,
     count_log2 log2o (count_depth (model_bases alg cut c lo hi reads) lo hi)).
Proof.
  unfold row_of. destruct alg; cbn [model_bases]; [reflexivity|].
  rewrite pileup_depth_count_depth, pileup_log2_count_log2; [reflexivity|].
  apply count_depth_nonneg, bases_pileup_nonneg.
Qed.

Lemma depth_clause log2o alg cut reads c lo hi rest :
  Forall wf_read reads -> lo < hi ->
  let r := row_of log2o alg cut reads (c, lo, hi, rest) in
  (row_depth r == inject_Z (spec_bases (cov_of alg) cut c lo hi reads) / inject_Z (hi - lo))%Q /\
  row_log2 r = (if Qeq_bool (row_depth r) 0 then (-20 # 1)%Q else log2o (row_depth r)).
Proof.
  intros Hw Hlt. cbv zeta. rewrite row_of_normal. cbn [row_depth row_log2]. split.
  - rewrite count_depth_eq by exact Hlt. rewrite model_bases_spec by exact Hw. reflexivity.
  - apply count_log2_spec.
Qed.

Lemma zero_width_clause log2o alg cut reads c lo hi rest :
  hi <= lo ->
  let r := row_of log2o alg cut reads (c, lo, hi, rest) in
  row_depth r = 0%Q /\ row_log2 r = (-20 # 1)%Q.
Proof.
  intros Hle. cbv zeta. rewrite row_of_normal. cbn [row_depth row_log2].
  rewrite count_depth_zero_width by exact Hle. split; reflexivity.
Qed.

(* on reads without D/N "spanned" and "aligned" are the same positions *)
Lemma spanned_is_aligned r x :
  wf_read r -> no_refskip r -> spanned_at r x = aligned_at r x.
Proof.
  intros Hw Hs. unfold spanned_at, aligned_at, read_span, read_blocks. symmetry.
  apply aligned_is_spanned; [apply wf_read_cigar, Hw | exact Hs].
Qed.

Lemma spec_bases_pileup_aligned cut c lo hi reads :
  Forall wf_read reads -> Forall no_refskip reads ->
  spec_bases spanned_at cut c lo hi reads = spec_bases aligned_at cut c lo hi reads.
Proof.
  intros Hw Hs. rewrite <- (model_bases_spec Pileup) by exact Hw.
  rewrite <- (model_bases_spec Count) by exact Hw. cbn [model_bases]. apply bases_agree; assumption.
Qed.

(* -- empty bins -- *)

Lemma filter_nil_iff {A} (p : A -> bool) (l : list A) :
  filter p l = [] <-> forall a, In a l -> p a = false.
Proof.
  induction l as [|a t IH]; cbn [filter].
  - split; [intros _ a []|reflexivity].
  - destruct (p a) eqn:E.
    + split; [discriminate|]. intros H. rewrite (H a) in E by (left; reflexivity). discriminate.
    + rewrite IH. split.
      * intros H b [<-|Hb]; [exact E|apply H, Hb].
      * intros H b Hb. apply H. right. exact Hb.
Qed.

Lemma depth_at_zero_iff cov cut c reads x :
  depth_at cov cut c reads x = 0 <->
  forall rd, In rd reads -> r_contig rd = c -> is_counted cut rd -> cov rd x = false.
Proof.
  unfold depth_at. split.
  - intros H rd Hin Hc Hcnt.
    assert (E : filter (fun r => on_contig c r && counted cut r && cov r x) reads = []).
    { destruct (filter _ reads); [reflexivity|cbn [length] in H; lia]. }
    rewrite filter_nil_iff in E. specialize (E rd Hin).
    apply on_contig_iff in Hc. apply counted_iff in Hcnt. rewrite Hc, Hcnt in E. exact E.
  - intros H.
    assert (E : filter (fun r => on_contig c r && counted cut r && cov r x) reads = []).
    { apply filter_nil_iff. intros rd Hin.
      destruct (on_contig c rd) eqn:E1; [|reflexivity].
      destruct (counted cut rd) eqn:E2; [|reflexivity]. cbn [andb].
      apply H; [exact Hin | apply on_contig_iff, E1 | apply counted_iff, E2]. }
    rewrite E. reflexivity.
Qed.

Lemma spec_bases_zero_iff cov cut c lo hi reads :
  spec_bases cov cut c lo hi reads = 0 <-> no_base_in_bin cov cut c lo hi reads.
Proof.
  unfold spec_bases, sum_range, no_base_in_bin. split.
  - intros H rd x Hin Hc Hcnt Hx.
    assert (Hd : depth_at cov cut c reads x = 0).
    { apply (sum_from_zero_inv _ lo (Z.to_nat (hi - lo))); [|exact H|lia].
      intros y _. unfold depth_at. lia. }
    rewrite depth_at_zero_iff in Hd. apply Hd; assumption.
  - intros H. rewrite (sum_from_ext _ (fun _ => 0)); [apply sum_from_zero|].
    intros x Hx. apply depth_at_zero_iff. intros rd Hin Hc Hcnt. apply (H rd x); try assumption. lia.
Qed.

Lemma empty_clause log2o alg cut reads c lo hi rest :
  Forall wf_read reads ->
  let r := row_of log2o alg cut reads (c, lo, hi, rest) in
  ((row_depth r == 0)%Q /\ row_log2 r = (-20 # 1)%Q) <-> no_base_in_bin (cov_of alg) cut c lo hi reads.
Proof.
  intros Hw. cbv zeta. rewrite row_of_normal. cbn [row_depth row_log2].
  rewrite <- spec_bases_zero_iff, <- model_bases_spec by exact Hw.
  destruct (Z.lt_ge_cases lo hi) as [Hlt|Hge].
  - rewrite count_depth_zero_iff by exact Hlt. split; [tauto|].
    intros E. split; [exact E|].
    unfold count_log2. assert (Hz : Qeq_bool (count_depth (model_bases alg cut c lo hi reads) lo hi) 0 = true).
    { apply Qeq_bool_iff. apply count_depth_zero_iff; assumption. }
    rewrite Hz. reflexivity.
  - rewrite count_depth_zero_width by lia. split.
    + intros _. rewrite model_bases_spec by exact Hw. apply spec_bases_zero_iff.
      intros rd x _ _ _ Hx. lia.
    + intros _. split; reflexivity.
Qed.

(* ====================================================================== *)
(* Text layer of the pileup path                                            *)

From Coq Require Import Permutation Sorting.Sorted.
From CNV Require Import Model.Decimal Model.Chromsort Proofs.ChromsortLemmas Proofs.CoverageLib.

Lemma TABC_is_SEPC : TABC = SEPC.
Proof. reflexivity. Qed.

Lemma SEPC_not_eol : is_eol SEPC = false.
Proof. reflexivity. Qed.

Lemma EOLC_is_eol : is_eol EOLC = true.
Proof. reflexivity. Qed.

Lemma forallb_impl {A} (p q : A -> bool) l :
  (forall x, p x = true -> q x = true) -> forallb p l = true -> forallb q l = true.
Proof.
  intros H. induction l as [|x t IH]; cbn; [reflexivity|].
  intros E. apply andb_prop in E. destruct E as [Ex Et]. now rewrite (H x Ex), (IH Et).
Qed.

Lemma plain_char_props c :
  negb (Ascii.eqb c "009"%char || Ascii.eqb c "010"%char || Ascii.eqb c "013"%char) = true ->
  negb (is_char SEPC c) = true /\ negb (is_eol c) = true.
Proof. destruct c as [[] [] [] [] [] [] [] []]; vm_compute; intros H; try discriminate; split; reflexivity. Qed.

Lemma numchar_props c :
  numchar c = true -> negb (is_char SEPC c) = true /\ negb (is_eol c) = true /\ is_char QUOTEC c = false.
Proof. destruct c as [[] [] [] [] [] [] [] []]; vm_compute; intros H; try discriminate; repeat split; reflexivity. Qed.

Lemma plain_field_clean s :
  plain_field s -> clean (is_char SEPC) (chars s) /\ clean is_eol (chars s).
Proof.
  unfold plain_field, clean. intros H. split.
  - revert H. apply forallb_impl. intros c Hc. now apply plain_char_props in Hc.
  - revert H. apply forallb_impl. intros c Hc. now apply plain_char_props in Hc.
Qed.

Lemma print_clean z :
  clean (is_char SEPC) (chars (print_Z z)) /\ clean is_eol (chars (print_Z z)).
Proof.
  pose proof (cl_print_numchars z) as H. unfold clean. split.
  - revert H. apply forallb_impl. intros c Hc. now apply numchar_props in Hc.
  - revert H. apply forallb_impl. intros c Hc. now apply numchar_props in Hc.
Qed.

Lemma print_unquoted q z : unquote_field q (chars (print_Z z)) = Some (chars (print_Z z)).
Proof.
  unfold unquote_field. destruct (q =? 3); [reflexivity|].
  pose proof (cl_print_numchars z) as H.
  destruct (chars (print_Z z)) as [|c t]; [reflexivity|].
  cbn in H. apply andb_prop in H. destruct H as [Hc _].
  apply numchar_props in Hc. destruct Hc as [_ [_ Hq]]. now rewrite Hq.
Qed.

Lemma wf_field_unquoted q s : wf_field q s -> unquote_field q (chars s) = Some (chars s).
Proof.
  intros [_ [Hq|Hu]]; unfold unquote_field.
  - subst q. reflexivity.
  - destruct (q =? 3); [reflexivity|]. unfold unquoted_field in Hu.
    destruct (chars s) as [|c t]; [reflexivity|].
    change (is_char QUOTEC c) with (Ascii.eqb c """"%char). now rewrite Hu.
Qed.

Lemma clean_join p sep fs :
  p sep = false -> Forall (clean p) fs -> clean p (join_chars sep fs).
Proof.
  intros Hs. induction fs as [|f t IH]; intros H; [reflexivity|].
  inversion H as [|? ? Hf Ht]; subst. destruct t as [|g t'].
  - exact Hf.
  - change (join_chars sep (f :: g :: t')) with (f ++ sep :: join_chars sep (g :: t')).
    unfold clean in *. rewrite forallb_app. cbn [forallb]. rewrite Hf, Hs. cbn. now apply IH.
Qed.

Lemma join_two_nonempty sep f g t : join_chars sep (f :: g :: t) <> [].
Proof.
  change (join_chars sep (f :: g :: t)) with (f ++ sep :: join_chars sep (g :: t)).
  destruct f; discriminate.
Qed.

(* the fields of one bedcov record, as character lists *)
Definition rec_fields (bn : bedline * Z) : list (list ascii) :=
  map chars (bed_fields (fst bn) ++ [print_Z (snd bn)]).

Definition rec_chars (bn : bedline * Z) : list ascii := join_chars SEPC (rec_fields bn).

Lemma bedcov_line_rec bn : bedcov_line bn = rec_chars bn ++ [EOLC].
Proof. reflexivity. Qed.

Lemma rec_fields_length (b : bedline) n : length (rec_fields (b, n)) = (4 + length (snd b))%nat.
Proof.
  destruct b as [[[c lo] hi] rest]. unfold rec_fields, bed_fields. cbn [fst snd].
  rewrite map_length, app_length. cbn. lia.
Qed.

Lemma rec_fields_clean q ncols b n :
  wf_bedline q ncols b ->
  Forall (clean (is_char SEPC)) (rec_fields (b, n)) /\ Forall (clean is_eol) (rec_fields (b, n)).
Proof.
  destruct b as [[[c lo] hi] rest]. intros [_ Hf].
  unfold rec_fields, bed_fields. cbn [fst snd].
  assert (Hplain : Forall plain_field (c :: rest)).
  { eapply Forall_impl; [|exact Hf]. intros s Hs. apply Hs. }
  inversion Hplain as [|? ? Hc Hr]; subst.
  split.
  - cbn [map app]. constructor; [apply plain_field_clean, Hc|].
    constructor; [apply print_clean|]. constructor; [apply print_clean|].
    rewrite map_app. apply Forall_app. split.
    + apply Forall_map. eapply Forall_impl; [|exact Hr]. intros s Hs. now apply plain_field_clean.
    + cbn. constructor; [apply print_clean|constructor].
  - cbn [map app]. constructor; [apply plain_field_clean, Hc|].
    constructor; [apply print_clean|]. constructor; [apply print_clean|].
    rewrite map_app. apply Forall_app. split.
    + apply Forall_map. eapply Forall_impl; [|exact Hr]. intros s Hs. now apply plain_field_clean.
    + cbn. constructor; [apply print_clean|constructor].
Qed.

Lemma rec_fields_unquoted q ncols b n :
  wf_bedline q ncols b ->
  all_some (map (unquote_field q) (rec_fields (b, n))) = Some (rec_fields (b, n)).
Proof.
  destruct b as [[[c lo] hi] rest]. intros [_ Hf].
  rewrite <- (map_id (rec_fields _)) at 2. apply all_some_map_some.
  unfold rec_fields, bed_fields. cbn [fst snd]. intros x Hx.
  apply in_map_iff in Hx. destruct Hx as [s [<- Hs]].
  cbn [app] in Hs. destruct Hs as [<-|[<-|[<-|Hs]]].
  - apply wf_field_unquoted. now inversion Hf.
  - apply print_unquoted.
  - apply print_unquoted.
  - apply in_app_or in Hs. destruct Hs as [Hs|[<-|[]]].
    + apply wf_field_unquoted. inversion Hf as [|? ? _ Hr]; subst.
      rewrite Forall_forall in Hr. now apply Hr.
    + apply print_unquoted.
Qed.

Lemma rec_chars_props q ncols b n :
  wf_bedline q ncols b ->
  clean is_eol (rec_chars (b, n)) /\ rec_chars (b, n) <> [] /\
  count_char TABC (rec_chars (b, n)) = Z.of_nat ncols /\
  split_chars (is_char SEPC) (rec_chars (b, n)) = rec_fields (b, n).
Proof.
  intros Hwf. destruct (rec_fields_clean q ncols b n Hwf) as [Hsep Heol].
  pose proof (rec_fields_length b n) as Hlen.
  assert (Hn : (3 + length (snd b))%nat = ncols) by (destruct b as [[[c lo] hi] rest]; apply Hwf).
  unfold rec_chars. set (fl := rec_fields (b, n)) in *.
  assert (Hne : fl <> []) by (intros E; rewrite E in Hlen; cbn in Hlen; lia).
  repeat split.
  - apply clean_join; [apply SEPC_not_eol|exact Heol].
  - destruct fl as [|f [|g t]]; cbn [length] in Hlen; try lia. apply join_two_nonempty.
  - rewrite TABC_is_SEPC, count_char_join by assumption. rewrite Hlen. lia.
  - now apply split_join.
Qed.

(* the column names detect_bedcov_columns returns for a k-column BED *)
Definition detect_for (ncols : nat) : list string :=
  match lookup_cols (Z.of_nat ncols) BEDCOV_COLS_BY_TABS with
  | Some cols => cols
  | None => BEDCOV_COLS_HEAD ++ filler_names (Z.of_nat ncols) ++ BEDCOV_COLS_TAIL
  end.

Lemma detect_record first rest ncols :
  clean is_eol first -> count_char TABC first = Z.of_nat ncols -> (3 <= ncols)%nat ->
  detect_bedcov_columns (first ++ EOLC :: rest) = DetectCols (detect_for ncols).
Proof.
  intros Hc Ht Hn. unfold detect_bedcov_columns.
  rewrite before_char_app.
  - rewrite Ht. replace (Z.of_nat ncols <? BEDCOV_MIN_TABS) with false
      by (symmetry; apply Z.ltb_ge; unfold BEDCOV_MIN_TABS; lia).
    unfold detect_for. destruct (lookup_cols (Z.of_nat ncols) BEDCOV_COLS_BY_TABS); reflexivity.
  - revert Hc. unfold clean. apply forallb_impl. intros c. unfold is_eol.
    destruct (is_char EOLC c); [discriminate|reflexivity].
Qed.

Lemma z_range_length a b : length (z_range a b) = Z.to_nat (b - a).
Proof. unfold z_range. now rewrite map_length, seq_length. Qed.

Lemma filler_not_name name n :
  (match name with String c _ => Ascii.eqb "_"%char c = false | EmptyString => True end) ->
  Forall (fun c => String.eqb c name = false) (filler_names n).
Proof.
  intros Hname. unfold filler_names. apply Forall_map. apply Forall_forall. intros i _.
  change (BEDCOV_FILLER_PREFIX ++ print_Z i)%string with (String "_"%char (print_Z i)).
  destruct name as [|c t]; [reflexivity|].
  change (String.eqb (String "_"%char (print_Z i)) (String c t))
    with (if Ascii.eqb "_"%char c then String.eqb (print_Z i) t else false).
  now rewrite Hname.
Qed.

Lemma names_verbatim_true : names_verbatim = true.
Proof. reflexivity. Qed.

Lemma as_name_id s : as_name s = s.
Proof. unfold as_name. now rewrite names_verbatim_true. Qed.

Lemma parse_fields_record c lo hi rest n :
  parse_fields (detect_for (3 + length rest))
               (c :: print_Z lo :: print_Z hi :: rest ++ [print_Z n])
  = Some (c, lo, hi, hd_opt rest, n).
Proof.
  destruct rest as [|g [|x more]].
  - (* 3 columns *)
    cbn. rewrite !cl_parse_print, ?as_name_id. reflexivity.
  - (* 4 columns *)
    cbn. rewrite !cl_parse_print, ?as_name_id. reflexivity.
  - (* 5 and more: chromosome start end gene _1 .. basecount *)
    set (k := (3 + length (g :: x :: more))%nat).
    assert (Hk : Z.of_nat k = 5 + Z.of_nat (length more)) by (unfold k; cbn [length]; lia).
    assert (Hd : detect_for k = (BEDCOV_COLS_HEAD ++ filler_names (Z.of_nat k)) ++ BEDCOV_COLS_TAIL).
    { unfold detect_for, BEDCOV_COLS_BY_TABS. cbn [lookup_cols].
      replace (Z.of_nat k =? 3) with false by (symmetry; apply Z.eqb_neq; lia).
      replace (Z.of_nat k =? 4) with false by (symmetry; apply Z.eqb_neq; lia).
      now rewrite app_assoc. }
    assert (Hfl : length (filler_names (Z.of_nat k)) = S (length more)).
    { unfold filler_names. rewrite map_length, z_range_length.
      unfold BEDCOV_FILLER_FROM, BEDCOV_FILLER_STOP_MINUS. lia. }
    unfold parse_fields.
    replace (length (c :: print_Z lo :: print_Z hi :: (g :: x :: more) ++ [print_Z n]) =? length (detect_for k))%nat
      with true.
    2:{ symmetry. apply Nat.eqb_eq. rewrite Hd. cbn [length]. rewrite !app_length, Hfl. cbn. lia. }
    cbn [negb].
    assert (Hbase : assoc_field COL_BASECOUNT (detect_for k)
                      (c :: print_Z lo :: print_Z hi :: (g :: x :: more) ++ [print_Z n]) = Some (print_Z n)).
    { rewrite Hd.
      change (c :: print_Z lo :: print_Z hi :: (g :: x :: more) ++ [print_Z n])
        with ((c :: print_Z lo :: print_Z hi :: g :: x :: more) ++ [print_Z n]).
      apply assoc_field_last.
      - rewrite app_length, Hfl. cbn. lia.
      - apply Forall_app. split; [repeat constructor|]. now apply filler_not_name. }
    rewrite Hbase. rewrite Hd. cbn -[filler_names].
    rewrite !cl_parse_print, ?as_name_id. reflexivity.
Qed.

Lemma parse_line_record q ncols b n :
  wf_bedline q ncols b ->
  parse_line_q q (detect_for ncols) (rec_chars (b, n)) = Some (parsed_of (b, n)).
Proof.
  intros Hwf. unfold parse_line_q.
  destruct (rec_chars_props q ncols b n Hwf) as [_ [_ [_ Hsplit]]].
  rewrite Hsplit, (rec_fields_unquoted q ncols b n Hwf).
  unfold rec_fields. rewrite cl_map_unchars_chars.
  destruct b as [[[c lo] hi] rest]. destruct Hwf as [<- _].
  cbn [fst snd bed_fields app]. apply parse_fields_record.
Qed.

Lemma bedcov_text_chars bins counts :
  chars (bedcov_text bins counts) = concat (map (fun l => l ++ [EOLC]) (map rec_chars (combine bins counts))).
Proof. unfold bedcov_text. rewrite cl_chars_unchars, map_map. reflexivity. Qed.

Lemma combine_wf {q ncols} bins (counts : list Z) :
  Forall (wf_bedline q ncols) bins -> Forall (fun bn => wf_bedline q ncols (fst bn)) (combine bins counts).
Proof.
  intros H. apply Forall_forall. intros [b n] Hin. apply in_combine_l in Hin.
  rewrite Forall_forall in H. now apply H.
Qed.

(* C09_bedcov_parse *)
Lemma bedcov_parse_ok q ncols bins counts :
  bins <> [] -> length counts = length bins -> Forall (wf_bedline q ncols) bins ->
  parse_bedcov_q q (bedcov_text bins counts) = Some (map parsed_of (combine bins counts)).
Proof.
  intros Hne Hlen Hwf. unfold parse_bedcov_q. rewrite bedcov_text_chars.
  pose proof (combine_wf bins counts Hwf) as Hall.
  set (bns := combine bins counts) in *.
  assert (Hcl : Forall (clean is_eol) (map rec_chars bns)).
  { apply Forall_map. eapply Forall_impl; [|exact Hall]. intros [b n] H. now apply (rec_chars_props q ncols b n). }
  assert (Hnn : Forall (fun l : list ascii => l <> []) (map rec_chars bns)).
  { apply Forall_map. eapply Forall_impl; [|exact Hall]. intros [b n] H. now apply (rec_chars_props q ncols b n). }
  (* the first record gives the columns *)
  destruct bns as [|[b0 n0] rest] eqn:E.
  { destruct bins; [congruence|]. destruct counts; [discriminate|]. discriminate. }
  assert (H0 : wf_bedline q ncols b0) by (inversion Hall; assumption).
  assert (Hn3 : (3 <= ncols)%nat). { destruct b0 as [[[c lo] hi] r]. destruct H0 as [<- _]. lia. }
  destruct (rec_chars_props q ncols b0 n0 H0) as [Hc0 [_ [Ht0 _]]].
  assert (Hdet : detect_bedcov_columns (concat (map (fun l => l ++ [EOLC]) (map rec_chars ((b0, n0) :: rest))))
                 = DetectCols (detect_for ncols)).
  { cbn [map concat]. rewrite <- app_assoc. cbn [app]. now apply detect_record. }
  rewrite Hdet. unfold text_lines.
  rewrite (split_records is_eol EOLC _ EOLC_is_eol Hcl), (filter_nonempty_records _ Hnn).
  rewrite map_map. apply all_some_map_some. intros [b n] Hin.
  apply parse_line_record. rewrite Forall_forall in Hall. now apply (Hall (b, n)).
Qed.

(* the table assembled from a parsed record is the model's pileup row of the bin *)
Lemma pileup_row_of_parsed_of log2o cut reads b :
  pileup_row_of_parsed log2o
    (parsed_of (b, let '(c, lo, hi, _) := b in bases_pileup cut c lo hi reads))
  = row_of log2o Pileup cut reads b.
Proof. destruct b as [[[c lo] hi] [|g rest]]; reflexivity. Qed.

Lemma combine_map_self {A B} (f : A -> B) (l : list A) : combine l (map f l) = map (fun x => (x, f x)) l.
Proof. induction l as [|x t IH]; cbn; [reflexivity|]. now rewrite IH. Qed.

(* samtools' text for the bins of one part, parsed and assembled, is the pileup table of the part *)
Lemma pileup_table_of_bedcov log2o cut reads ncols bins :
  bins <> [] -> Forall (wf_bedline BEDCOV_QUOTING ncols) bins ->
  pileup_table_of_text log2o (bedcov_of cut reads bins) = Some (coverage log2o Pileup cut reads bins).
Proof.
  intros Hne Hwf. unfold pileup_table_of_text, bedcov_of, parse_bedcov.
  rewrite (bedcov_parse_ok BEDCOV_QUOTING ncols); [|exact Hne|now rewrite map_length|exact Hwf].
  cbn [option_map]. f_equal. rewrite combine_map_self, !map_map. unfold coverage.
  apply map_ext. intros b. apply pileup_row_of_parsed_of.
Qed.

(* C09_pileup_text: the whole pileup path through text, over any split into non-empty
   parts of well-formed lines, is the pileup table of the concatenated regions *)
Lemma pileup_via_text_ok log2o cut reads ncols parts :
  Forall (fun part => part <> [] /\ Forall (wf_bedline BEDCOV_QUOTING ncols) part) parts ->
  pileup_via_text log2o cut reads parts = Some (coverage log2o Pileup cut reads (concat parts)).
Proof.
  intros H. unfold pileup_via_text.
  rewrite (all_some_map_some _ (coverage log2o Pileup cut reads)).
  - cbn [option_map]. f_equal. rewrite <- coverage_split_concat. reflexivity.
  - intros part Hin. rewrite Forall_forall in H. destruct (H part Hin) as [Hne Hwf].
    now apply (pileup_table_of_bedcov log2o cut reads ncols).
Qed.

Lemma chunks_parts_wf {A} (P : A -> Prop) k (l : list A) :
  (1 <= k)%nat -> Forall P l -> Forall (fun part => part <> [] /\ Forall P part) (chunks k l).
Proof.
  intros Hk Hl. pose proof (chunks_fuel_nonempty (length l) k l Hk) as Hne.
  assert (Hin : forall part, In part (chunks k l) -> Forall P part).
  { intros part Hp. apply Forall_forall. intros x Hx. rewrite Forall_forall in Hl. apply Hl.
    rewrite <- (concat_chunks k l Hk). apply in_concat. exists part. now split. }
  apply Forall_forall. intros part Hp. split; [|now apply Hin].
  rewrite Forall_forall in Hne. now apply Hne.
Qed.

(* ... in particular over the chunks of k lines *)
Lemma pileup_via_text_chunks log2o cut reads ncols k bins :
  (1 <= k)%nat -> Forall (wf_bedline BEDCOV_QUOTING ncols) bins ->
  pileup_via_text log2o cut reads (chunks k bins) = Some (coverage log2o Pileup cut reads bins).
Proof.
  intros Hk Hwf. rewrite (pileup_via_text_ok log2o cut reads ncols).
  - now rewrite concat_chunks.
  - now apply chunks_parts_wf.
Qed.

(* a name that starts with a double quote does not survive pandas' default quoting *)
Lemma quoted_name_refuted :
  exists b n, Forall plain_field (bed_chrom b :: match b with (_, _, _, rest) => rest end) /\
              parse_bedcov_q 0 (bedcov_text [b] [n]) <> Some [parsed_of (b, n)].
Proof.
  exists ("chr1", 100, 150, [String """"%char (String "T"%char (String """"%char EmptyString))])%string, 80.
  split; [repeat constructor|]. vm_compute. discriminate.
Qed.

(* with csv.QUOTE_NONE no condition on quotes is needed *)
Lemma wf_quote_none ncols b : plain_bedline ncols b -> wf_bedline 3 ncols b.
Proof.
  destruct b as [[[c lo] hi] rest]. intros [Hn Hp]. split; [exact Hn|].
  eapply Forall_impl; [|exact Hp]. intros s Hs. split; [exact Hs|now left].
Qed.

(* ... and that is the mode the code uses (quoting=3 in bedcov's read_csv, /repo 0ba5218) *)
Lemma plain_wf ncols b : plain_bedline ncols b -> wf_bedline BEDCOV_QUOTING ncols b.
Proof. exact (wf_quote_none ncols b). Qed.

Lemma plain_wf_all ncols bins :
  Forall (plain_bedline ncols) bins -> Forall (wf_bedline BEDCOV_QUOTING ncols) bins.
Proof. apply Forall_impl. apply plain_wf. Qed.

Lemma bedcov_parse_verbatim ncols bins counts :
  bins <> [] -> length counts = length bins -> Forall (plain_bedline ncols) bins ->
  parse_bedcov (bedcov_text bins counts) = Some (map parsed_of (combine bins counts)).
Proof.
  intros Hne Hl Hp. unfold parse_bedcov.
  apply (bedcov_parse_ok BEDCOV_QUOTING ncols); auto using plain_wf_all.
Qed.

Lemma pileup_via_text_verbatim log2o cut reads ncols parts :
  Forall (fun part => part <> [] /\ Forall (plain_bedline ncols) part) parts ->
  pileup_via_text log2o cut reads parts = Some (coverage log2o Pileup cut reads (concat parts)).
Proof.
  intros H. apply (pileup_via_text_ok log2o cut reads ncols).
  eapply Forall_impl; [|exact H]. intros part [Hne Hp]. split; [exact Hne|now apply plain_wf_all].
Qed.

Lemma pileup_via_text_chunks_verbatim log2o cut reads ncols k bins :
  (1 <= k)%nat -> Forall (plain_bedline ncols) bins ->
  pileup_via_text log2o cut reads (chunks k bins) = Some (coverage log2o Pileup cut reads bins).
Proof. intros Hk Hp. apply (pileup_via_text_chunks log2o cut reads ncols); auto using plain_wf_all. Qed.

(* ====================================================================== *)
(* parallel.to_chunks on the lines of the regions file                      *)

Lemma to_chunks_concat k lines :
  (1 <= k)%nat -> concat (to_chunks_lines k lines) = filter keep_line lines.
Proof. intros Hk. unfold to_chunks_lines. now apply concat_chunks. Qed.

Lemma to_chunks_sizes k lines :
  (1 <= k)%nat ->
  Forall (fun piece => (1 <= length piece <= k)%nat) (to_chunks_lines k lines) /\
  Forall (fun piece => length piece = k) (removelast (to_chunks_lines k lines)).
Proof.
  intros Hk. unfold to_chunks_lines, chunks. split.
  - pose proof (chunks_fuel_le (length (filter keep_line lines)) k (filter keep_line lines)) as Hle.
    pose proof (chunks_fuel_nonempty (length (filter keep_line lines)) k (filter keep_line lines) Hk) as Hne.
    rewrite Forall_forall in *. intros piece Hp. specialize (Hle piece Hp). specialize (Hne piece Hp).
    destruct piece; [congruence|cbn [length] in *; lia].
  - apply chunks_fuel_full; [exact Hk|lia].
Qed.

(* a comment line is a line whose first character is "#" *)
Lemma keep_line_hash l : keep_line l = false <-> exists t, l = String "#"%char t.
Proof.
  destruct l as [|c t]; cbn.
  - split; [discriminate|intros [t H]; discriminate].
  - change CHUNK_COMMENT_PREFIX with (String "#"%char EmptyString).
    change (String.eqb (String c EmptyString) (String "#"%char EmptyString))
      with (if Ascii.eqb c "#"%char then true else false).
    destruct (Ascii.eqb_spec c "#"%char) as [->|Hne]; cbn.
    + split; [intros _; now exists t|reflexivity].
    + split; [discriminate|]. intros [t' H]. injection H as H1 H2. congruence.
Qed.

Section PileupFile.
Variable log2o : Q -> Q.
Variable bed_of_line : string -> option bedline.
(* samtools skips the lines to_chunks drops *)
Hypothesis comments_skipped : forall l, keep_line l = false -> bed_of_line l = None.

Lemma bins_of_lines_app l1 l2 :
  bins_of_lines bed_of_line (l1 ++ l2) = bins_of_lines bed_of_line l1 ++ bins_of_lines bed_of_line l2.
Proof. unfold bins_of_lines. apply flat_map_app. Qed.

Lemma bins_of_lines_concat parts :
  bins_of_lines bed_of_line (concat parts) = concat (map (bins_of_lines bed_of_line) parts).
Proof.
  induction parts as [|p t IH]; [reflexivity|]. cbn [concat map]. now rewrite bins_of_lines_app, IH.
Qed.

Lemma bins_of_lines_filter lines :
  bins_of_lines bed_of_line (filter keep_line lines) = bins_of_lines bed_of_line lines.
Proof.
  induction lines as [|l t IH]; [reflexivity|]. cbn [filter].
  destruct (keep_line l) eqn:E.
  - change (l :: filter keep_line t) with ([l] ++ filter keep_line t).
    change (l :: t) with ([l] ++ t). now rewrite !bins_of_lines_app, IH.
  - change (l :: t) with ([l] ++ t). rewrite bins_of_lines_app, IH.
    unfold bins_of_lines at 2. cbn [flat_map]. now rewrite (comments_skipped l E).
Qed.

(* C09_pileup_order / the file-level form of C09_chunks *)
Lemma pileup_file_chunked_eq k cut reads lines :
  (1 <= k)%nat ->
  pileup_file_chunked log2o bed_of_line k cut reads lines = pileup_file log2o bed_of_line cut reads lines.
Proof.
  intros Hk. unfold pileup_file_chunked, pileup_file.
  rewrite <- (bins_of_lines_filter lines), <- (to_chunks_concat k lines Hk), bins_of_lines_concat.
  rewrite <- (coverage_split_concat log2o Pileup cut reads). unfold coverage_split. now rewrite map_map.
Qed.

Lemma pileup_file_order cut reads lines :
  map row_key (pileup_file log2o bed_of_line cut reads lines) = map bin_key (bins_of_lines bed_of_line lines).
Proof. unfold pileup_file. apply coverage_keys. Qed.

End PileupFile.

(* ====================================================================== *)
(* row order of the --count table                                           *)

Lemma same_chrom_refl x : same_chrom x x = true.
Proof. unfold same_chrom. apply String.eqb_refl. Qed.

Lemma same_chrom_eq x y : same_chrom x y = true <-> bed_chrom x = bed_chrom y.
Proof. unfold same_chrom. apply String.eqb_eq. Qed.

Lemma group_fuel_perm fuel l : (length l <= fuel)%nat -> Permutation (group_fuel fuel l) l.
Proof.
  revert l. induction fuel as [|f IH]; intros l Hl.
  - destruct l; [constructor|cbn in Hl; lia].
  - destruct l as [|x t]; [constructor|]. cbn [group_fuel].
    change ((x :: filter (same_chrom x) t) ++ group_fuel f (filter (fun y => negb (same_chrom x y)) t))
      with (x :: (filter (same_chrom x) t ++ group_fuel f (filter (fun y => negb (same_chrom x y)) t))).
    constructor.
    transitivity (filter (same_chrom x) t ++ filter (fun y => negb (same_chrom x y)) t).
    + apply Permutation_app_head. apply IH.
      pose proof (filter_length_le (fun y => negb (same_chrom x y)) t). cbn [length] in Hl. lia.
    + apply filter_partition_perm.
Qed.

(* the rows of every chromosome keep their order *)
Lemma group_fuel_rows_of_chrom c fuel l :
  (length l <= fuel)%nat -> rows_of_chrom c (group_fuel fuel l) = rows_of_chrom c l.
Proof.
  unfold rows_of_chrom. revert l. induction fuel as [|f IH]; intros l Hl.
  - destruct l; [reflexivity|cbn in Hl; lia].
  - destruct l as [|x t]; [reflexivity|]. cbn [group_fuel].
    rewrite filter_app. rewrite IH
      by (pose proof (filter_length_le (fun y => negb (same_chrom x y)) t); cbn [length] in Hl; lia).
    cbn [filter]. destruct (String.eqb c (bed_chrom x)) eqn:E.
    + apply String.eqb_eq in E. subst c.
      change (fun b => String.eqb (bed_chrom x) (bed_chrom b)) with (same_chrom x).
      rewrite filter_filter_same.
      rewrite (filter_none (same_chrom x) (filter (fun y => negb (same_chrom x y)) t)).
      * now rewrite app_nil_r.
      * intros y Hy. apply filter_In in Hy. destruct Hy as [_ Hy]. now destruct (same_chrom x y).
    + rewrite (filter_none _ (filter (same_chrom x) t)).
      * cbn [app]. rewrite filter_filter_comm. apply filter_all.
        intros y Hy. apply filter_In in Hy. destruct Hy as [_ Hy].
        destruct (same_chrom x y) eqn:Es; [|reflexivity].
        apply same_chrom_eq in Es. rewrite <- Es, E in Hy. discriminate.
      * intros y Hy. apply filter_In in Hy. destruct Hy as [_ Hy].
        apply same_chrom_eq in Hy. now rewrite <- Hy.
Qed.

(* a table whose rows of one chromosome come before all others splits as such *)
Lemma filter_split_downward {A} (p : A -> bool) (t : list A) :
  (forall l1 y l2, t = l1 ++ y :: l2 -> p y = true -> forall z, In z l1 -> p z = true) ->
  t = filter p t ++ filter (fun y => negb (p y)) t.
Proof.
  induction t as [|y t IH]; intros H; [reflexivity|]. cbn [filter].
  destruct (p y) eqn:E; cbn [negb app].
  - f_equal. apply IH. intros l1 z l2 Ht Hz w Hw.
    apply (H (y :: l1) z l2); [now rewrite Ht|exact Hz|now right].
  - (* no later row satisfies p *)
    assert (Hnone : forall z, In z t -> p z = false).
    { intros z Hz. destruct (p z) eqn:Ez; [|reflexivity].
      apply in_split in Hz. destruct Hz as [l1 [l2 ->]].
      rewrite <- E. symmetry. apply (H (y :: l1) z l2); [reflexivity|exact Ez|now left]. }
    rewrite (filter_none p t Hnone). cbn [app]. f_equal. symmetry. apply filter_all.
    intros z Hz. now rewrite (Hnone z Hz).
Qed.

Lemma region_leb_ckey a b :
  region_leb bed_region a b = true -> ckey_leb (chrom_key (bed_chrom a)) (chrom_key (bed_chrom b)) = true.
Proof.
  destruct a as [[[ca la] ha] ra], b as [[[cb lb] hb] rb].
  unfold region_leb, bed_region, rkey_of, rkey_leb, rkey_compare, ckey_leb. cbn [bed_chrom].
  destruct (ckey_compare (chrom_key ca) (chrom_key cb)); congruence.
Qed.

Lemma strongly_sorted_filter {A} (R : A -> A -> Prop) (p : A -> bool) l :
  StronglySorted R l -> StronglySorted R (filter p l).
Proof.
  induction 1 as [|x t Hs IH Hx]; cbn; [constructor|].
  destruct (p x); [|exact IH]. constructor; [exact IH|].
  apply Forall_forall. intros y Hy. apply filter_In in Hy. rewrite Forall_forall in Hx. now apply Hx.
Qed.

Lemma strongly_sorted_app_inv {A} (R : A -> A -> Prop) l1 y l2 :
  StronglySorted R (l1 ++ y :: l2) -> forall z, In z l1 -> R z y.
Proof.
  induction l1 as [|a t IH]; intros H z Hz; [destruct Hz|].
  cbn in H. inversion H as [|? ? Hs Ha]; subst. destruct Hz as [<-|Hz].
  - rewrite Forall_forall in Ha. apply Ha. apply in_or_app. right. now left.
  - now apply IH.
Qed.

(* on a sorted table whose chromosome names have separate keys the grouping changes nothing *)
Lemma group_fuel_sorted_id fuel l :
  (length l <= fuel)%nat -> region_sorted l -> keys_separate_names l -> group_fuel fuel l = l.
Proof.
  revert l. induction fuel as [|f IH]; intros l Hl Hs Hk.
  - destruct l; [reflexivity|cbn in Hl; lia].
  - destruct l as [|x t]; [reflexivity|]. cbn [group_fuel].
    inversion Hs as [|? ? Hst Hx]; subst.
    assert (Hsplit : t = filter (same_chrom x) t ++ filter (fun y => negb (same_chrom x y)) t).
    { apply filter_split_downward. intros l1 y l2 Ht Hy z Hz.
      apply same_chrom_eq. apply same_chrom_eq in Hy.
      apply Hk; [now left|right; rewrite Ht; apply in_or_app; now left|].
      (* key x <= key z <= key y = key x *)
      apply ckey_leb_antisym.
      - apply region_leb_ckey. rewrite Forall_forall in Hx. apply Hx. rewrite Ht. apply in_or_app. now left.
      - rewrite Hy. apply region_leb_ckey. rewrite Ht in Hst.
        now apply (strongly_sorted_app_inv _ l1 y l2 Hst). }
    rewrite IH.
    + cbn [app]. f_equal. now rewrite <- Hsplit.
    + pose proof (filter_length_le (fun y => negb (same_chrom x y)) t). cbn [length] in Hl. lia.
    + now apply strongly_sorted_filter.
    + intros a b Ha Hb. apply filter_In in Ha. apply filter_In in Hb.
      apply Hk; right; tauto.
Qed.

Lemma sort_regions_region_sorted bins : region_sorted (sort_regions bed_region bins).
Proof. apply sort_regions_sorted. Qed.

(* C09_count_order, general form: the --count table holds every region once, the rows of
   each chromosome are those of the sorted table (by start, end; stable), in that order *)
Lemma count_order_perm bins : Permutation (count_order bins) bins.
Proof.
  unfold count_order, group_by_chrom.
  transitivity (sort_regions bed_region bins).
  - apply group_fuel_perm. lia.
  - apply Permutation_sym. apply sort_regions_perm.
Qed.

Lemma count_order_rows_of_chrom c bins :
  rows_of_chrom c (count_order bins) = rows_of_chrom c (sort_regions bed_region bins).
Proof. unfold count_order, group_by_chrom. apply group_fuel_rows_of_chrom. lia. Qed.

Lemma keys_separate_perm l1 l2 : Permutation l1 l2 -> keys_separate_names l1 -> keys_separate_names l2.
Proof.
  intros Hp H a b Ha Hb. apply H; eapply Permutation_in; try eassumption; now apply Permutation_sym.
Qed.

(* ... and when distinct chromosome names have distinct keys it IS the sorted table *)
Lemma count_order_sorted bins :
  keys_separate_names bins -> count_order bins = sort_regions bed_region bins.
Proof.
  intros Hk. unfold count_order, group_by_chrom. apply group_fuel_sorted_id.
  - lia.
  - apply sort_regions_region_sorted.
  - eapply keys_separate_perm; [apply sort_regions_perm|exact Hk].
Qed.

Lemma count_order_fast_eq bins : count_order_fast bins = count_order bins.
Proof. unfold count_order_fast, count_order. now rewrite sort_regions_fast_eq. Qed.

Lemma count_table_keys log2o cut reads bins :
  map row_key (coverage_count_table log2o cut reads bins) = map bin_key (count_order bins).
Proof. unfold coverage_count_table. apply coverage_keys. Qed.

(* ====================================================================== *)
(* min_mapq across both algorithms                                          *)

Lemma min_mapq_zero r :
  0 <= r_mapq r ->
  counted 0 r = negb (flag_excluded (r_flag r)) /\ counted (pileup_cut 0) r = negb (flag_excluded (r_flag r)).
Proof.
  intros Hq. rewrite counted_pileup_cut by exact Hq. unfold counted.
  replace (0 <=? r_mapq r) with true by (symmetry; apply Z.leb_le; exact Hq).
  now rewrite andb_true_r.
Qed.

Lemma min_mapq_positive q r :
  0 < q ->
  counted q r = negb (flag_excluded (r_flag r)) && (q <=? r_mapq r) /\
  counted (pileup_cut q) r = negb (flag_excluded (r_flag r)) && (q <=? r_mapq r).
Proof.
  intros Hq. unfold pileup_cut, BEDCOV_MAPQ_OPTION_CUT.
  replace (0 <? q) with true by (symmetry; apply Z.ltb_lt; exact Hq). now split.
Qed.

(* the -Q option is given exactly for min_mapq > 0 *)
Lemma pileup_cut_option q : pileup_cut q = if 0 <? q then q else 0.
Proof. reflexivity. Qed.

(* ---- the statements of Props/C09.v that combine several of the lemmas above ---- *)

Lemma to_chunks_clause : forall k lines,
  (1 <= k)%nat ->
  concat (to_chunks_lines k lines) = filter keep_line lines /\
  Forall (fun piece => (1 <= length piece <= k)%nat) (to_chunks_lines k lines) /\
  Forall (fun piece => length piece = k) (removelast (to_chunks_lines k lines)).
Proof.
  intros k lines Hk. split; [now apply to_chunks_concat|]. now apply to_chunks_sizes.
Qed.

Lemma pileup_order_clause : forall (log2o : Q -> Q) (bed_of_line : string -> option bedline) k cut reads lines,
  (forall l, keep_line l = false -> bed_of_line l = None) -> (1 <= k)%nat ->
  pileup_file_chunked log2o bed_of_line k cut reads lines = pileup_file log2o bed_of_line cut reads lines /\
  map row_key (pileup_file log2o bed_of_line cut reads lines) = map bin_key (bins_of_lines bed_of_line lines).
Proof.
  intros log2o bol k cut reads lines Hc Hk. split.
  - now apply pileup_file_chunked_eq.
  - apply pileup_file_order.
Qed.

Lemma count_order_clause : forall (log2o : Q -> Q) cut reads bins,
  Permutation (count_order bins) bins /\
  (forall c, rows_of_chrom c (count_order bins) = rows_of_chrom c (sort_regions bed_region bins)) /\
  region_sorted (sort_regions bed_region bins) /\
  map row_key (coverage_count_table log2o cut reads bins) = map bin_key (count_order bins).
Proof.
  intros log2o cut reads bins. split; [apply count_order_perm|].
  split; [intros c; apply count_order_rows_of_chrom|].
  split; [apply sort_regions_region_sorted|apply count_table_keys].
Qed.

Lemma count_order_sorted_clause : forall bins,
  keys_separate_names bins ->
  count_order bins = sort_regions bed_region bins /\ region_sorted (count_order bins).
Proof.
  intros bins Hk. rewrite (count_order_sorted bins Hk). split; [reflexivity|apply sort_regions_region_sorted].
Qed.

Lemma min_mapq_clause : forall q r,
  0 <= r_mapq r ->
  (q = 0 -> counted q r = negb (flag_excluded (r_flag r)) /\
            counted (pileup_cut q) r = negb (flag_excluded (r_flag r))) /\
  (0 < q -> counted q r = negb (flag_excluded (r_flag r)) && (q <=? r_mapq r) /\
            counted (pileup_cut q) r = negb (flag_excluded (r_flag r)) && (q <=? r_mapq r)) /\
  pileup_cut q = (if 0 <? q then q else 0).
Proof.
  intros q r Hq. split; [intros ->; now apply min_mapq_zero|]. split; [apply min_mapq_positive|apply pileup_cut_option].
Qed.

(* on reads without D/N the --count table is the pileup table of the same regions, rows
   taken in the --count table's order *)
Lemma count_table_is_pileup : forall (log2o : Q -> Q) cut reads bins,
  Forall wf_read reads -> Forall no_refskip reads ->
  coverage_count_table log2o cut reads bins = coverage log2o Pileup cut reads (count_order bins).
Proof.
  intros log2o cut reads bins Hw Hn. unfold coverage_count_table. symmetry. now apply coverage_agree.
Qed.
