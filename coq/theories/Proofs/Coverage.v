(* Proofs for C09: the interval arithmetic of the coverage model equals the
   per-position specification sums (double counting), filtered reads change
   nothing, the two algorithms agree on reads without D/N, any split of the
   BED into consecutive chunks gives the same table. *)
From CNV Require Import Base.Prelude Base.Str Gen.Params Gen.CoverageDefaults
  Model.Coverage Spec.Coverage.

Definition b2z (b : bool) : Z := if b then 1 else 0.

(* ---------------------------------------------------------------------- *)
(* sums over ranges of positions                                           *)

Lemma sum_from_ext f g lo n :
  (forall x, lo <= x < lo + Z.of_nat n -> f x = g x) ->
  sum_from f lo n = sum_from g lo n.
Proof.
  revert lo; induction n as [|n IH]; intros lo H; cbn [sum_from]; [reflexivity|].
  rewrite (H lo) by lia. rewrite (IH (lo + 1)); [reflexivity|].
  intros x Hx. apply H. lia.
Qed.

Lemma sum_from_plus f g lo n :
  sum_from (fun x => f x + g x) lo n = sum_from f lo n + sum_from g lo n.
Proof.
  revert lo; induction n as [|n IH]; intros lo; cbn [sum_from]; [reflexivity|].
  rewrite IH. lia.
Qed.

Lemma sum_from_zero lo n : sum_from (fun _ => 0) lo n = 0.
Proof. revert lo; induction n as [|n IH]; intros lo; cbn [sum_from]; [reflexivity|]. rewrite IH. reflexivity. Qed.

Lemma sum_from_sumZ {A} (f : A -> Z -> Z) (l : list A) lo n :
  sum_from (fun x => sumZ (map (fun a => f a x) l)) lo n
  = sumZ (map (fun a => sum_from (f a) lo n) l).
Proof.
  induction l as [|a t IH]; cbn [map sumZ].
  - apply sum_from_zero.
  - rewrite sum_from_plus, IH. reflexivity.
Qed.

Lemma sum_from_nonneg f lo n :
  (forall x, lo <= x < lo + Z.of_nat n -> 0 <= f x) -> 0 <= sum_from f lo n.
Proof.
  revert lo; induction n as [|n IH]; intros lo H; cbn [sum_from]; [lia|].
  assert (0 <= f lo) by (apply H; lia).
  assert (0 <= sum_from f (lo + 1) n) by (apply IH; intros x Hx; apply H; lia).
  lia.
Qed.

Lemma sum_from_zero_inv f lo n :
  (forall x, lo <= x < lo + Z.of_nat n -> 0 <= f x) ->
  sum_from f lo n = 0 ->
  forall x, lo <= x < lo + Z.of_nat n -> f x = 0.
Proof.
  revert lo; induction n as [|n IH]; intros lo Hpos Hsum x Hx; [lia|].
  cbn [sum_from] in Hsum.
  assert (H0 : 0 <= f lo) by (apply Hpos; lia).
  assert (H1 : 0 <= sum_from f (lo + 1) n) by (apply sum_from_nonneg; intros y Hy; apply Hpos; lia).
  destruct (Z.eq_dec x lo) as [->|Hne]; [lia|].
  apply (IH (lo + 1)); [intros y Hy; apply Hpos; lia | lia | lia].
Qed.

Lemma in_block_true x b : in_block x b = true <-> fst b <= x < snd b.
Proof. unfold in_block. rewrite andb_true_iff, Z.leb_le, Z.ltb_lt. tauto. Qed.

Lemma sum_from_block b lo n :
  sum_from (fun x => b2z (in_block x b)) lo n = ovl lo (lo + Z.of_nat n) b.
Proof.
  revert lo; induction n as [|n IH]; intros lo; cbn [sum_from].
  - unfold ovl. lia.
  - rewrite IH. unfold ovl, in_block, b2z.
    destruct (fst b <=? lo) eqn:E1; destruct (lo <? snd b) eqn:E2; cbn [andb]; lia.
Qed.

Lemma sum_range_block b lo hi :
  sum_range (fun x => b2z (in_block x b)) lo hi = ovl lo hi b.
Proof.
  unfold sum_range. rewrite sum_from_block.
  destruct (Z.le_gt_cases hi lo) as [H|H].
  - replace (Z.to_nat (hi - lo)) with 0%nat by lia. unfold ovl. lia.
  - replace (lo + Z.of_nat (Z.to_nat (hi - lo))) with hi by lia. reflexivity.
Qed.

Lemma ovl_nonneg lo hi b : 0 <= ovl lo hi b.
Proof. unfold ovl. lia. Qed.

(* ---------------------------------------------------------------------- *)
(* filters as indicator sums                                               *)

Lemma length_filter_sum {A} (p : A -> bool) (l : list A) :
  Z.of_nat (length (filter p l)) = sumZ (map (fun a => b2z (p a)) l).
Proof.
  induction l as [|a t IH]; cbn [filter map sumZ]; [reflexivity|].
  destruct (p a); cbn [length b2z]; lia.
Qed.

Lemma sumZ_map_filter {A} (p : A -> bool) (f : A -> Z) (l : list A) :
  sumZ (map f (filter p l)) = sumZ (map (fun a => if p a then f a else 0) l).
Proof.
  induction l as [|a t IH]; cbn [filter map sumZ]; [reflexivity|].
  destruct (p a); cbn [map sumZ]; lia.
Qed.

Lemma sumZ_map_ext {A} (f g : A -> Z) (l : list A) :
  (forall a, In a l -> f a = g a) -> sumZ (map f l) = sumZ (map g l).
Proof.
  induction l as [|a t IH]; intros H; cbn [map sumZ]; [reflexivity|].
  rewrite (H a) by (left; reflexivity). rewrite IH; [reflexivity|].
  intros b Hb. apply H. right. exact Hb.
Qed.

Lemma sumZ_nonneg (l : list Z) : Forall (fun z => 0 <= z) l -> 0 <= sumZ l.
Proof. induction 1; cbn [sumZ]; lia. Qed.

(* the double-counting lemma: summing the per-base depth over the positions of
   the bin = summing, over the selected reads, the number of bin positions the
   read covers *)
Lemma spec_bases_by_read cov cut c lo hi reads :
  spec_bases cov cut c lo hi reads
  = sumZ (map (fun r => sum_range (fun x => b2z (cov r x)) lo hi)
              (filter (fun r => on_contig c r && counted cut r) reads)).
Proof.
  unfold spec_bases, sum_range.
  set (n := Z.to_nat (hi - lo)).
  set (p := fun r => on_contig c r && counted cut r).
  set (F := fun r x => if p r then b2z (cov r x) else 0).
  transitivity (sum_from (fun x => sumZ (map (fun r => F r x) reads)) lo n).
  - apply sum_from_ext. intros x _. unfold depth_at.
    rewrite length_filter_sum. apply sumZ_map_ext. intros r _. unfold F, p.
    destruct (on_contig c r && counted cut r); reflexivity.
  - rewrite sum_from_sumZ, sumZ_map_filter.
    apply sumZ_map_ext. intros r _. unfold F. fold (p r).
    destruct (p r).
    + apply sum_from_ext. reflexivity.
    + apply sum_from_zero.
Qed.

(* ---------------------------------------------------------------------- *)
(* cigar blocks                                                            *)

Definition wf_cigar (ops : list (Z * Z)) : Prop := Forall (fun p => 0 <= snd p) ops.

Lemma ref_len_nonneg ops : wf_cigar ops -> 0 <= ref_len ops.
Proof.
  induction 1 as [|[op n] t Hn Ht IH]; cbn [ref_len]; [lia|].
  cbn [snd] in Hn. destruct (op_aligned op || op_refonly op); lia.
Qed.

(* every block starts at or after pos *)
Lemma blocks_before x pos ops :
  wf_cigar ops -> x < pos -> existsb (in_block x) (blocks_of_cigar pos ops) = false.
Proof.
  intros H; revert pos; induction H as [|[op n] t Hn Ht IH]; intros pos Hx; cbn [blocks_of_cigar]; [reflexivity|].
  cbn [snd] in Hn.
  destruct (op_aligned op).
  - cbn [existsb]. rewrite IH by lia.
    unfold in_block; cbn [fst snd]. destruct (pos <=? x) eqn:E; [lia|reflexivity].
  - destruct (op_refonly op); apply IH; lia.
Qed.

(* blocks are disjoint: a position lies in at most one of them *)
Lemma aligned_indicator x pos ops :
  wf_cigar ops ->
  b2z (existsb (in_block x) (blocks_of_cigar pos ops))
  = sumZ (map (fun b => b2z (in_block x b)) (blocks_of_cigar pos ops)).
Proof.
  intros H; revert pos; induction H as [|[op n] t Hn Ht IH]; intros pos; cbn [blocks_of_cigar]; [reflexivity|].
  cbn [snd] in Hn.
  destruct (op_aligned op).
  - cbn [existsb map sumZ]. rewrite <- IH.
    destruct (in_block x (pos, pos + n)) eqn:E; cbn [orb b2z].
    + apply in_block_true in E; cbn [fst snd] in E.
      rewrite blocks_before by (assumption || lia). reflexivity.
    + lia.
  - destruct (op_refonly op); apply IH.
Qed.

Lemma read_count_spec lo hi r :
  wf_cigar (r_cigar r) ->
  sum_range (fun x => b2z (aligned_at r x)) lo hi = read_bases_count lo hi r.
Proof.
  intros H. unfold read_bases_count, aligned_at, read_blocks, sum_range.
  transitivity (sum_from (fun x => sumZ (map (fun b => b2z (in_block x b))
                                             (blocks_of_cigar (r_pos r) (r_cigar r)))) lo (Z.to_nat (hi - lo))).
  - apply sum_from_ext. intros x _. apply aligned_indicator. exact H.
  - rewrite sum_from_sumZ. apply sumZ_map_ext. intros b _. apply sum_range_block.
Qed.

Lemma read_pileup_spec lo hi r :
  sum_range (fun x => b2z (spanned_at r x)) lo hi = read_bases_pileup lo hi r.
Proof. unfold spanned_at, read_bases_pileup. apply sum_range_block. Qed.

Lemma wf_read_cigar r : wf_read r -> wf_cigar (r_cigar r).
Proof. intros [H _]. exact H. Qed.

(* the model's base counts are the per-position sums *)
Lemma bases_count_spec cut c lo hi reads :
  Forall wf_read reads ->
  bases_count cut c lo hi reads = spec_bases aligned_at cut c lo hi reads.
Proof.
  intros H. rewrite spec_bases_by_read. unfold bases_count.
  apply sumZ_map_ext. intros r Hr. symmetry. apply read_count_spec.
  apply filter_In in Hr as [Hr _]. rewrite Forall_forall in H. apply wf_read_cigar, H, Hr.
Qed.

Lemma bases_pileup_spec cut c lo hi reads :
  bases_pileup cut c lo hi reads = spec_bases spanned_at (pileup_cut cut) c lo hi reads.
Proof.
  rewrite spec_bases_by_read. unfold bases_pileup.
  apply sumZ_map_ext. intros r _. symmetry. apply read_pileup_spec.
Qed.

Lemma bases_count_nonneg cut c lo hi reads : 0 <= bases_count cut c lo hi reads.
Proof.
  unfold bases_count. apply sumZ_nonneg. rewrite Forall_map. apply Forall_forall. intros r _.
  unfold read_bases_count. apply sumZ_nonneg. rewrite Forall_map. apply Forall_forall. intros b _.
  apply ovl_nonneg.
Qed.

Lemma bases_pileup_nonneg cut c lo hi reads : 0 <= bases_pileup cut c lo hi reads.
Proof.
  unfold bases_pileup. apply sumZ_nonneg. rewrite Forall_map. apply Forall_forall. intros r _.
  apply ovl_nonneg.
Qed.

(* ---------------------------------------------------------------------- *)
(* the filter                                                              *)

Lemma counted_iff cut r : counted cut r = true <-> is_counted cut r.
Proof.
  unfold counted, is_counted, flag_excluded.
  rewrite andb_true_iff, negb_true_iff, !orb_false_iff, !negb_false_iff, !Z.eqb_eq, Z.leb_le.
  tauto.
Qed.

Lemma pileup_cut_eq cut : pileup_cut cut = Z.max 0 cut.
Proof. unfold pileup_cut, BEDCOV_MAPQ_OPTION_CUT. destruct (0 <? cut) eqn:E; lia. Qed.

Lemma counted_pileup_cut cut r : 0 <= r_mapq r -> counted (pileup_cut cut) r = counted cut r.
Proof.
  intros H. rewrite pileup_cut_eq. unfold counted. f_equal.
  destruct (cut <=? r_mapq r) eqn:E; lia.
Qed.

Lemma on_contig_iff c r : on_contig c r = true <-> r_contig r = c.
Proof. unfold on_contig. rewrite String.eqb_eq. split; congruence. Qed.

Lemma filtered_out_not_counted cut r : filtered_out cut r -> counted cut r = false.
Proof.
  intros H. destruct (counted cut r) eqn:E; [|reflexivity].
  apply counted_iff in E. unfold is_counted in E. unfold filtered_out in H. lia.
Qed.

Lemma filtered_out_pileup cut r : filtered_out cut r -> filtered_out (pileup_cut cut) r.
Proof. unfold filtered_out. rewrite pileup_cut_eq. intros H. lia. Qed.

Lemma filter_drop {A} (p : A -> bool) l1 a l2 :
  p a = false -> filter p (l1 ++ a :: l2) = filter p (l1 ++ l2).
Proof. intros H. rewrite !filter_app. cbn [filter]. rewrite H. reflexivity. Qed.

Lemma bases_count_drop cut c lo hi l1 r l2 :
  counted cut r = false ->
  bases_count cut c lo hi (l1 ++ r :: l2) = bases_count cut c lo hi (l1 ++ l2).
Proof. intros H. unfold bases_count. rewrite filter_drop; [reflexivity|]. rewrite H. apply andb_false_r. Qed.

Lemma bases_pileup_drop cut c lo hi l1 r l2 :
  counted (pileup_cut cut) r = false ->
  bases_pileup cut c lo hi (l1 ++ r :: l2) = bases_pileup cut c lo hi (l1 ++ l2).
Proof. intros H. unfold bases_pileup. rewrite filter_drop; [reflexivity|]. rewrite H. apply andb_false_r. Qed.

Lemma coverage_drop log2o alg cut l1 r l2 bins :
  filtered_out cut r ->
  coverage log2o alg cut (l1 ++ r :: l2) bins = coverage log2o alg cut (l1 ++ l2) bins.
Proof.
  intros H. unfold coverage. apply map_ext. intros [[[c lo] hi] rest]. unfold row_of.
  destruct alg.
  - rewrite bases_count_drop by (apply filtered_out_not_counted, H). reflexivity.
  - rewrite bases_pileup_drop by (apply filtered_out_not_counted, filtered_out_pileup, H). reflexivity.
Qed.

(* ---------------------------------------------------------------------- *)
(* the two algorithms on reads without D/N                                 *)

Definition no_refskip_cigar (ops : list (Z * Z)) : Prop :=
  Forall (fun p => op_refonly (fst p) = false) ops.

(* without D/N the aligned blocks tile the span of the read *)
Lemma blocks_tile_span lo hi pos ops :
  wf_cigar ops -> no_refskip_cigar ops ->
  sumZ (map (ovl lo hi) (blocks_of_cigar pos ops)) = ovl lo hi (pos, pos + ref_len ops).
Proof.
  intros H; revert pos; induction H as [|[op n] t Hn Ht IH]; intros pos Hs; cbn [blocks_of_cigar ref_len map sumZ].
  - unfold ovl; cbn [fst snd]. lia.
  - cbn [snd] in Hn. inversion Hs as [|? ? Hop Hs']; subst. cbn [fst] in Hop. rewrite Hop.
    pose proof (ref_len_nonneg t Ht) as HR.
    destruct (op_aligned op); cbn [orb map sumZ].
    + rewrite IH by assumption. unfold ovl; cbn [fst snd]. lia.
    + apply IH; assumption.
Qed.

Lemma aligned_is_spanned x pos ops :
  wf_cigar ops -> no_refskip_cigar ops ->
  existsb (in_block x) (blocks_of_cigar pos ops) = in_block x (pos, pos + ref_len ops).
Proof.
  intros H; revert pos; induction H as [|[op n] t Hn Ht IH]; intros pos Hs; cbn [blocks_of_cigar ref_len existsb].
  - unfold in_block; cbn [fst snd]. destruct (pos <=? x) eqn:E1; destruct (x <? pos + 0) eqn:E2; cbn [andb]; lia.
  - cbn [snd] in Hn. inversion Hs as [|? ? Hop Hs']; subst. cbn [fst] in Hop. rewrite Hop.
    pose proof (ref_len_nonneg t Ht) as HR.
    destruct (op_aligned op); cbn [orb existsb].
    + rewrite IH by assumption. unfold in_block; cbn [fst snd].
      destruct (pos <=? x) eqn:E1; destruct (x <? pos + n) eqn:E2; destruct (pos + n <=? x) eqn:E3;
        destruct (x <? pos + n + ref_len t) eqn:E4; destruct (x <? pos + (n + ref_len t)) eqn:E5; cbn [andb orb]; lia.
    + apply IH; assumption.
Qed.

Lemma read_bases_agree lo hi r :
  wf_cigar (r_cigar r) -> no_refskip_cigar (r_cigar r) ->
  read_bases_count lo hi r = read_bases_pileup lo hi r.
Proof. intros H1 H2. unfold read_bases_count, read_bases_pileup, read_blocks, read_span. apply blocks_tile_span; assumption. Qed.

Lemma filter_ext_in' {A} (p q : A -> bool) l :
  (forall a, In a l -> p a = q a) -> filter p l = filter q l.
Proof.
  induction l as [|a t IH]; intros H; cbn [filter]; [reflexivity|].
  rewrite (H a) by (left; reflexivity). rewrite IH; [reflexivity|]. intros b Hb; apply H; right; exact Hb.
Qed.

Lemma bases_agree cut c lo hi reads :
  Forall wf_read reads -> Forall no_refskip reads ->
  bases_pileup cut c lo hi reads = bases_count cut c lo hi reads.
Proof.
  intros Hw Hs. unfold bases_pileup, bases_count.
  rewrite (filter_ext_in' (fun r => on_contig c r && counted (pileup_cut cut) r)
                          (fun r => on_contig c r && counted cut r)).
  - apply sumZ_map_ext. intros r Hr. apply filter_In in Hr as [Hr _].
    rewrite Forall_forall in Hw, Hs. symmetry. apply read_bases_agree.
    + apply wf_read_cigar, Hw, Hr.
    + apply Hs, Hr.
  - intros r Hr. rewrite Forall_forall in Hw. destruct (Hw r Hr) as [_ Hq].
    rewrite counted_pileup_cut by exact Hq. reflexivity.
Qed.

(* ---------------------------------------------------------------------- *)
(* depth and log2                                                          *)

Lemma ratio_eq bases span : ratio bases span == inject_Z bases / inject_Z span.
Proof. unfold ratio. apply Qred_correct. Qed.

Lemma ratio_nonneg bases span : 0 <= bases -> 0 < span -> (0 <= ratio bases span)%Q.
Proof.
  intros Hb Hs. rewrite ratio_eq. apply Qle_shift_div_l.
  - replace 0%Q with (inject_Z 0) by reflexivity. rewrite <- Zlt_Qlt. exact Hs.
  - rewrite Qmult_0_l. replace 0%Q with (inject_Z 0) by reflexivity. rewrite <- Zle_Qle. exact Hb.
Qed.

Lemma ratio_zero_iff bases span : 0 < span -> (ratio bases span == 0 <-> bases = 0).
Proof.
  intros Hs. rewrite ratio_eq. destruct span as [|p|p]; try lia.
  rewrite <- Qmake_Qdiv. unfold Qeq; cbn [Qnum Qden]. lia.
Qed.

Lemma count_depth_eq bases lo hi : lo < hi ->
  count_depth bases lo hi == inject_Z bases / inject_Z (hi - lo).
Proof. intros H. unfold count_depth. destruct (lo <? hi) eqn:E; [apply ratio_eq|lia]. Qed.

Lemma pileup_depth_count_depth bases lo hi : pileup_depth bases lo hi = count_depth bases lo hi.
Proof.
  unfold pileup_depth, count_depth, PILEUP_SPAN_CUT, PILEUP_ZERO_DEPTH, COUNT_ZERO_DEPTH.
  destruct (0 <? hi - lo) eqn:E1; destruct (lo <? hi) eqn:E2; try reflexivity; lia.
Qed.

Lemma count_depth_nonneg bases lo hi : 0 <= bases -> (0 <= count_depth bases lo hi)%Q.
Proof.
  intros H. unfold count_depth, COUNT_ZERO_DEPTH. destruct (lo <? hi) eqn:E.
  - apply ratio_nonneg; lia.
  - apply Qle_refl.
Qed.

Lemma count_depth_zero_iff bases lo hi : lo < hi -> (count_depth bases lo hi == 0 <-> bases = 0).
Proof. intros H. unfold count_depth. destruct (lo <? hi) eqn:E; [|lia]. apply ratio_zero_iff. lia. Qed.

Lemma count_depth_zero_width bases lo hi : hi <= lo -> count_depth bases lo hi = 0%Q.
Proof. intros H. unfold count_depth, COUNT_ZERO_DEPTH. destruct (lo <? hi) eqn:E; [lia|reflexivity]. Qed.

Lemma pileup_log2_count_log2 log2o d : (0 <= d)%Q -> pileup_log2 log2o d = count_log2 log2o d.
Proof.
  intros H. unfold pileup_log2, count_log2, PILEUP_DEPTH_CUT.
  destruct (Qle_bool d (inject_Z 0)) eqn:E1; destruct (Qeq_bool d 0) eqn:E2; try reflexivity.
  - apply Qle_bool_iff in E1. exfalso.
    assert (E : d == 0) by (apply Qle_antisym; assumption).
    apply Qeq_bool_iff in E. congruence.
  - apply Qeq_bool_iff in E2. exfalso.
    assert (E : Qle_bool d (inject_Z 0) = true) by (apply Qle_bool_iff; rewrite E2; apply Qle_refl).
    congruence.
Qed.

Lemma count_log2_spec log2o d :
  count_log2 log2o d = if Qeq_bool d 0 then (-20 # 1) else log2o d.
Proof. reflexivity. Qed.

(* rows of the two algorithms coincide on reads without D/N *)
Lemma coverage_agree log2o cut reads bins :
  Forall wf_read reads -> Forall no_refskip reads ->
  coverage log2o Pileup cut reads bins = coverage log2o Count cut reads bins.
Proof.
  intros Hw Hs. unfold coverage. apply map_ext. intros [[[c lo] hi] rest]. unfold row_of.
  rewrite bases_agree by assumption. rewrite pileup_depth_count_depth.
  rewrite pileup_log2_count_log2; [reflexivity|].
  apply count_depth_nonneg, bases_count_nonneg.
Qed.

(* ---------------------------------------------------------------------- *)
(* chunks                                                                  *)

Lemma concat_chunks_fuel {A} (fuel k : nat) (l : list A) :
  (1 <= k)%nat -> (length l <= fuel)%nat -> concat (chunks_fuel fuel k l) = l.
Proof.
  intros Hk. revert l; induction fuel as [|f IH]; intros l Hl; cbn [chunks_fuel].
  - destruct l; [reflexivity|cbn [length] in Hl; lia].
  - destruct l as [|a t]; [reflexivity|].
    cbn [concat]. rewrite IH.
    + apply firstn_skipn.
    + rewrite skipn_length. cbn [length] in *. lia.
Qed.

Lemma concat_chunks {A} (k : nat) (l : list A) : (1 <= k)%nat -> concat (chunks k l) = l.
Proof. intros Hk. unfold chunks. apply concat_chunks_fuel; [exact Hk|lia]. Qed.

Lemma coverage_split_concat log2o alg cut reads parts :
  coverage_split log2o alg cut reads parts = coverage log2o alg cut reads (concat parts).
Proof. unfold coverage_split, coverage. rewrite concat_map. reflexivity. Qed.

Lemma coverage_chunks_eq log2o k alg cut reads bins :
  (1 <= k)%nat -> coverage_chunks log2o k alg cut reads bins = coverage log2o alg cut reads bins.
Proof. intros Hk. unfold coverage_chunks. rewrite coverage_split_concat, concat_chunks by exact Hk. reflexivity. Qed.

Lemma chunks_fuel_size {A} (fuel k : nat) (l : list A) :
  Forall (fun ch => (length ch <= k)%nat) (chunks_fuel fuel k l).
Proof.
  revert l; induction fuel as [|f IH]; intros l; cbn [chunks_fuel]; [constructor|].
  destruct l as [|a t]; [constructor|]. constructor; [|apply IH].
  rewrite firstn_length. lia.
Qed.

Lemma row_key_of log2o alg cut reads b : row_key (row_of log2o alg cut reads b) = bin_key b.
Proof. destruct b as [[[c lo] hi] rest]. unfold row_of. destruct alg; reflexivity. Qed.

Lemma coverage_keys log2o alg cut reads bins :
  map row_key (coverage log2o alg cut reads bins) = map bin_key bins.
Proof. unfold coverage. rewrite map_map. apply map_ext. intros b. apply row_key_of. Qed.

(* ---------------------------------------------------------------------- *)
(* the statements used by Props/C09.v                                      *)

Lemma spec_bases_pileup_cut cov cut c lo hi reads :
  Forall wf_read reads ->
  spec_bases cov (pileup_cut cut) c lo hi reads = spec_bases cov cut c lo hi reads.
Proof.
  intros Hw. rewrite !spec_bases_by_read. do 2 f_equal. apply filter_ext_in'. intros r Hr.
  rewrite Forall_forall in Hw. destruct (Hw r Hr) as [_ Hq].
  rewrite counted_pileup_cut by exact Hq. reflexivity.
Qed.

Definition model_bases (alg : algo) (cut : Z) (c : string) (lo hi : Z) (reads : list read) : Z :=
  match alg with
  | Count => bases_count cut c lo hi reads
  | Pileup => bases_pileup cut c lo hi reads
  end.

Lemma model_bases_spec alg cut c lo hi reads :
  Forall wf_read reads ->
  model_bases alg cut c lo hi reads = spec_bases (cov_of alg) cut c lo hi reads.
Proof.
  intros Hw. destruct alg; cbn [model_bases cov_of].
  - apply bases_count_spec, Hw.
  - rewrite bases_pileup_spec. apply spec_bases_pileup_cut, Hw.
Qed.

Lemma model_bases_nonneg alg cut c lo hi reads : 0 <= model_bases alg cut c lo hi reads.
Proof. destruct alg; [apply bases_count_nonneg|apply bases_pileup_nonneg]. Qed.

(* a row in terms of count_depth / count_log2 only *)
Lemma row_of_normal log2o alg cut reads c lo hi rest :
  row_of log2o alg cut reads (c, lo, hi, rest)
  = (c, lo, hi, bin_name rest,
     count_depth (model_bases alg cut c lo hi reads) lo hi,
     count_log2 log2o (count_depth (model_bases alg cut c lo hi reads) lo hi)).
Proof.
  unfold row_of. destruct alg; cbn [model_bases]; [reflexivity|].
  rewrite pileup_depth_count_depth, pileup_log2_count_log2; [reflexivity|].
  apply count_depth_nonneg, bases_pileup_nonneg.
Qed.

Lemma depth_clause log2o alg cut reads c lo hi rest :
  Forall wf_read reads -> lo < hi ->
  let r := row_of log2o alg cut reads (c, lo, hi, rest) in
  (row_depth r == inject_Z (spec_bases (cov_of alg) cut c lo hi reads) / inject_Z (hi - lo))%Q /\
  row_log2 r = (if Qeq_bool (row_depth r) 0 then (-20 # 1)%Q else log2o (row_depth r)).
Proof.
  intros Hw Hlt. cbv zeta. rewrite row_of_normal. cbn [row_depth row_log2]. split.
  - rewrite count_depth_eq by exact Hlt. rewrite model_bases_spec by exact Hw. reflexivity.
  - apply count_log2_spec.
Qed.

Lemma zero_width_clause log2o alg cut reads c lo hi rest :
  hi <= lo ->
  let r := row_of log2o alg cut reads (c, lo, hi, rest) in
  row_depth r = 0%Q /\ row_log2 r = (-20 # 1)%Q.
Proof.
  intros Hle. cbv zeta. rewrite row_of_normal. cbn [row_depth row_log2].
  rewrite count_depth_zero_width by exact Hle. split; reflexivity.
Qed.

(* on reads without D/N "spanned" and "aligned" are the same positions *)
Lemma spanned_is_aligned r x :
  wf_read r -> no_refskip r -> spanned_at r x = aligned_at r x.
Proof.
  intros Hw Hs. unfold spanned_at, aligned_at, read_span, read_blocks. symmetry.
  apply aligned_is_spanned; [apply wf_read_cigar, Hw | exact Hs].
Qed.

Lemma spec_bases_pileup_aligned cut c lo hi reads :
  Forall wf_read reads -> Forall no_refskip reads ->
  spec_bases spanned_at cut c lo hi reads = spec_bases aligned_at cut c lo hi reads.
Proof.
  intros Hw Hs. rewrite <- (model_bases_spec Pileup) by exact Hw.
  rewrite <- (model_bases_spec Count) by exact Hw. cbn [model_bases]. apply bases_agree; assumption.
Qed.

(* -- empty bins -- *)

Lemma filter_nil_iff {A} (p : A -> bool) (l : list A) :
  filter p l = [] <-> forall a, In a l -> p a = false.
Proof.
  induction l as [|a t IH]; cbn [filter].
  - split; [intros _ a []|reflexivity].
  - destruct (p a) eqn:E.
    + split; [discriminate|]. intros H. rewrite (H a) in E by (left; reflexivity). discriminate.
    + rewrite IH. split.
      * intros H b [<-|Hb]; [exact E|apply H, Hb].
      * intros H b Hb. apply H. right. exact Hb.
Qed.

Lemma depth_at_zero_iff cov cut c reads x :
  depth_at cov cut c reads x = 0 <->
  forall rd, In rd reads -> r_contig rd = c -> is_counted cut rd -> cov rd x = false.
Proof.
  unfold depth_at. split.
  - intros H rd Hin Hc Hcnt.
    assert (E : filter (fun r => on_contig c r && counted cut r && cov r x) reads = []).
    { destruct (filter _ reads); [reflexivity|cbn [length] in H; lia]. }
    rewrite filter_nil_iff in E. specialize (E rd Hin).
    apply on_contig_iff in Hc. apply counted_iff in Hcnt. rewrite Hc, Hcnt in E. exact E.
  - intros H.
    assert (E : filter (fun r => on_contig c r && counted cut r && cov r x) reads = []).
    { apply filter_nil_iff. intros rd Hin.
      destruct (on_contig c rd) eqn:E1; [|reflexivity].
      destruct (counted cut rd) eqn:E2; [|reflexivity]. cbn [andb].
      apply H; [exact Hin | apply on_contig_iff, E1 | apply counted_iff, E2]. }
    rewrite E. reflexivity.
Qed.

Lemma spec_bases_zero_iff cov cut c lo hi reads :
  spec_bases cov cut c lo hi reads = 0 <-> no_base_in_bin cov cut c lo hi reads.
Proof.
  unfold spec_bases, sum_range, no_base_in_bin. split.
  - intros H rd x Hin Hc Hcnt Hx.
    assert (Hd : depth_at cov cut c reads x = 0).
    { apply (sum_from_zero_inv _ lo (Z.to_nat (hi - lo))); [|exact H|lia].
      intros y _. unfold depth_at. lia. }
    rewrite depth_at_zero_iff in Hd. apply Hd; assumption.
  - intros H. rewrite (sum_from_ext _ (fun _ => 0)); [apply sum_from_zero|].
    intros x Hx. apply depth_at_zero_iff. intros rd Hin Hc Hcnt. apply (H rd x); try assumption. lia.
Qed.

Lemma empty_clause log2o alg cut reads c lo hi rest :
  Forall wf_read reads ->
  let r := row_of log2o alg cut reads (c, lo, hi, rest) in
  ((row_depth r == 0)%Q /\ row_log2 r = (-20 # 1)%Q) <-> no_base_in_bin (cov_of alg) cut c lo hi reads.
Proof.
  intros Hw. cbv zeta. rewrite row_of_normal. cbn [row_depth row_log2].
  rewrite <- spec_bases_zero_iff, <- model_bases_spec by exact Hw.
  destruct (Z.lt_ge_cases lo hi) as [Hlt|Hge].
  - rewrite count_depth_zero_iff by exact Hlt. split; [tauto|].
    intros E. split; [exact E|].
    unfold count_log2. assert (Hz : Qeq_bool (count_depth (model_bases alg cut c lo hi reads) lo hi) 0 = true).
    { apply Qeq_bool_iff. apply count_depth_zero_iff; assumption. }
    rewrite Hz. reflexivity.
  - rewrite count_depth_zero_width by lia. split.
    + intros _. rewrite model_bases_spec by exact Hw. apply spec_bases_zero_iff.
      intros rd x _ _ _ Hx. lia.
    + intros _. split; reflexivity.
Qed.
