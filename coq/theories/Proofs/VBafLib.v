(* C18 extension: TumorBoost in IEEE arithmetic (edges, range), baf_by_ranges for any summary function,
   where the majority direction is taken, and load_het_snps as one decision table. *)
From CNV Require Import Base.Prelude Model.Vcf Model.VBaf Spec.Vcf Proofs.VcfLib Proofs.Vcf Proofs.VBaf.
From Coq Require Import Qabs Lqa.
Local Open Scope Q_scope.

(* ---- helpers ---------------------------------------------------------------------------------------- *)

Lemma xr_eq_refl a : xr_eq a a.
Proof. destruct a; cbn; try exact I. reflexivity. Qed.

Lemma Qeq_bool_false_neq a b : Qeq_bool a b = false -> ~ a == b.
Proof. intros E H. apply Qeq_bool_iff in H. congruence. Qed.

Lemma Qeq_bool_neq_false a b : ~ a == b -> Qeq_bool a b = false.
Proof. intros H. destruct (Qeq_bool a b) eqn:E; [|reflexivity]. apply Qeq_bool_iff in E. contradiction. Qed.

Lemma Qcompare_0_cases x :
  (Qcompare x 0 = Eq /\ x == 0) \/ (Qcompare x 0 = Lt /\ x < 0) \/ (Qcompare x 0 = Gt /\ 0 < x).
Proof.
  destruct (Qcompare x 0) eqn:E.
  - left. split; [reflexivity|]. apply Qeq_alt. exact E.
  - right. left. split; [reflexivity|]. apply Qlt_alt. exact E.
  - right. right. split; [reflexivity|]. apply Qgt_alt in E. exact E.
Qed.

Lemma half_lit : VcfDefaults.boost_half = 1 # 2. Proof. reflexivity. Qed.
Lemma one_lit : VcfDefaults.boost_one = 1. Proof. reflexivity. Qed.

(* 1 - x in the IEEE reading *)
Lemma xr_sub_fin a b : xr_sub (RFin a) (RFin b) = RFin (qadd a (Qred (- b))).
Proof. reflexivity. Qed.

Lemma qadd_opp a b : qadd a (Qred (- b)) == a - b.
Proof. rewrite qadd_eq, Qred_correct. ring. Qed.

(* ---- boost_ieee on finite inputs --------------------------------------------------------------------- *)

(* t < n (n is not zero): 0.5 t / n *)
Lemma boost_ieee_lt t n :
  t < n -> ~ n == 0 -> xr_eq (boost_ieee (RFin t) (RFin n)) (RFin ((1 # 2) * t / n)).
Proof.
  intros L N0. unfold boost_ieee. cbn [xr_ltb].
  assert (E : Qlt_bool t n = true) by (apply Qlt_bool_iff; exact L).
  rewrite E. cbn [xr_mul xr_div]. rewrite (Qeq_bool_neq_false _ _ N0).
  cbn [xr_eq]. rewrite half_lit, qdiv_eq, qmul_eq. reflexivity.
Qed.

(* t < n = 0 (a negative tumour frequency): 0.5 t / +0 = -inf *)
Lemma boost_ieee_lt_zero t n : t < n -> n == 0 -> boost_ieee (RFin t) (RFin n) = RNInf.
Proof.
  intros L N0. unfold boost_ieee. cbn [xr_ltb].
  assert (E : Qlt_bool t n = true) by (apply Qlt_bool_iff; exact L).
  rewrite E. cbn [xr_mul xr_div].
  assert (Z : Qeq_bool n 0 = true) by (apply Qeq_bool_iff; exact N0). rewrite Z.
  destruct (Qcompare_0_cases (qmul VcfDefaults.boost_half t)) as [[_ H]|[[-> _]|[_ H]]]; [| reflexivity |];
    rewrite qmul_eq, half_lit in H; exfalso; lra.
Qed.

(* otherwise (n <= t), n is not one: 1 - 0.5 (1 - t) / (1 - n) *)
Lemma boost_ieee_ge t n :
  n <= t -> ~ n == 1 ->
  xr_eq (boost_ieee (RFin t) (RFin n)) (RFin (1 - (1 # 2) * (1 - t) / (1 - n))).
Proof.
  intros L N1. unfold boost_ieee. cbn [xr_ltb].
  assert (E : Qlt_bool t n = false) by (apply Qlt_bool_false; exact L).
  rewrite E. rewrite !xr_sub_fin. cbn [xr_mul xr_div].
  assert (D : ~ qadd VcfDefaults.boost_one (Qred (- n)) == 0).
  { rewrite qadd_opp, one_lit. intro H. apply N1. lra. }
  rewrite (Qeq_bool_neq_false _ _ D). rewrite xr_sub_fin. cbn [xr_eq].
  rewrite qadd_opp, qdiv_eq, qmul_eq, !qadd_opp, half_lit, one_lit. reflexivity.
Qed.

(* n = 1 = t: 0.5 * 0 / 0 = NaN *)
Lemma boost_ieee_one_one t n : n == 1 -> t == 1 -> boost_ieee (RFin t) (RFin n) = RNaN.
Proof.
  intros N1 T1. unfold boost_ieee. cbn [xr_ltb].
  assert (E : Qlt_bool t n = false) by (apply Qlt_bool_false; lra).
  rewrite E. rewrite !xr_sub_fin. cbn [xr_mul xr_div].
  assert (D : Qeq_bool (qadd VcfDefaults.boost_one (Qred (- n))) 0 = true).
  { apply Qeq_bool_iff. rewrite qadd_opp, one_lit. lra. }
  rewrite D.
  destruct (Qcompare_0_cases (qmul VcfDefaults.boost_half (qadd VcfDefaults.boost_one (Qred (- t)))))
    as [[-> _]|[[_ H]|[_ H]]]; [reflexivity | |];
    rewrite qmul_eq, qadd_opp, half_lit, one_lit in H; exfalso; lra.
Qed.

(* n = 1 < t: 1 - (negative / +0) = +inf *)
Lemma boost_ieee_one_above t n : n == 1 -> 1 < t -> boost_ieee (RFin t) (RFin n) = RPInf.
Proof.
  intros N1 T1. unfold boost_ieee. cbn [xr_ltb].
  assert (E : Qlt_bool t n = false) by (apply Qlt_bool_false; lra).
  rewrite E. rewrite !xr_sub_fin. cbn [xr_mul xr_div].
  assert (D : Qeq_bool (qadd VcfDefaults.boost_one (Qred (- n))) 0 = true).
  { apply Qeq_bool_iff. rewrite qadd_opp, one_lit. lra. }
  rewrite D.
  destruct (Qcompare_0_cases (qmul VcfDefaults.boost_half (qadd VcfDefaults.boost_one (Qred (- t)))))
    as [[_ H]|[[-> _]|[_ H]]]; [| reflexivity |];
    rewrite qmul_eq, qadd_opp, half_lit, one_lit in H; exfalso; lra.
Qed.

(* the model's boost_q IS the IEEE result on finite inputs (the only exception: a negative tumour
   frequency over a normal frequency of zero, where Coq's x / 0 = 0 stands in boost_q for numpy's -inf) *)
Lemma boost_ieee_finite t n :
  ~ (t < n /\ n == 0) -> xr_eq (boost_ieee (RFin t) (RFin n)) (xr_of_xq (boost_q t n)).
Proof.
  intros H. destruct (Qlt_le_dec t n) as [L|L].
  - assert (N0 : ~ n == 0) by tauto.
    destruct (boost_formula t n (or_introl L)) as (q & -> & Hq). cbn [xr_of_xq].
    pose proof (boost_ieee_lt t n L N0) as B. destruct (boost_ieee (RFin t) (RFin n)); cbn in *; try contradiction.
    rewrite B, Hq. unfold boost_spec.
    assert (E : Qlt_bool t n = true) by (apply Qlt_bool_iff; exact L). rewrite E. reflexivity.
  - destruct (Qeq_dec n 1) as [N1|N1].
    + unfold boost_q.
      assert (E : Qlt_bool t n = false) by (apply Qlt_bool_false; exact L). rewrite E.
      assert (D : Qeq_bool (qsub VcfDefaults.boost_one n) 0 = true).
      { apply Qeq_bool_iff. rewrite qsub_eq, one_lit. lra. }
      rewrite D.
      destruct (Qeq_bool (qsub VcfDefaults.boost_one t) 0) eqn:T.
      * apply Qeq_bool_iff in T. rewrite qsub_eq, one_lit in T.
        rewrite boost_ieee_one_one; [exact I | exact N1 | lra].
      * apply Qeq_bool_false_neq in T. rewrite qsub_eq, one_lit in T.
        rewrite boost_ieee_one_above; [exact I | exact N1 | lra].
    + destruct (boost_formula t n (or_intror N1)) as (q & -> & Hq). cbn [xr_of_xq].
      pose proof (boost_ieee_ge t n L N1) as B.
      destruct (boost_ieee (RFin t) (RFin n)); cbn in *; try contradiction.
      rewrite B, Hq. unfold boost_spec.
      assert (E : Qlt_bool t n = false) by (apply Qlt_bool_false; exact L). rewrite E. reflexivity.
Qed.

(* ---- C18_boost_edges ---------------------------------------------------------------------------------- *)

(* normal frequency exactly 0: (1 + t) / 2 for a tumour frequency >= 0 *)
Lemma boost_edge_n0 t n : n == 0 -> 0 <= t -> xr_eq (boost_ieee (RFin t) (RFin n)) (RFin ((1 + t) / 2)).
Proof.
  intros N0 T. assert (N1 : ~ n == 1) by lra. assert (L : n <= t) by lra.
  pose proof (boost_ieee_ge t n L N1) as B.
  destruct (boost_ieee (RFin t) (RFin n)); cbn in *; try contradiction.
  rewrite B, N0. field.
Qed.

(* normal frequency exactly 1, tumour below: t / 2 *)
Lemma boost_edge_n1_below t n : n == 1 -> t < 1 -> xr_eq (boost_ieee (RFin t) (RFin n)) (RFin (t / 2)).
Proof.
  intros N1 T. assert (N0 : ~ n == 0) by lra. assert (L : t < n) by lra.
  pose proof (boost_ieee_lt t n L N0) as B.
  destruct (boost_ieee (RFin t) (RFin n)); cbn in *; try contradiction.
  rewrite B, N1. field.
Qed.

(* t = n (not 1): exactly 1/2 *)
Lemma boost_edge_same t n : t == n -> ~ n == 1 -> xr_eq (boost_ieee (RFin t) (RFin n)) (RFin (1 # 2)).
Proof.
  intros TN N1. assert (L : n <= t) by lra.
  pose proof (boost_ieee_ge t n L N1) as B.
  destruct (boost_ieee (RFin t) (RFin n)); cbn in *; try contradiction.
  rewrite B, TN. field. lra.
Qed.

(* a missing tumour or normal frequency: NaN *)
Lemma boost_edge_nan x : boost_ieee RNaN x = RNaN /\ boost_ieee x RNaN = RNaN.
Proof.
  split.
  - unfold boost_ieee. cbn [xr_ltb]. cbn [xr_sub xr_opp xr_add]. destruct x; reflexivity.
  - unfold boost_ieee. destruct x; reflexivity.
Qed.

(* an infinite tumour frequency (alt count > 0 at depth 0) *)
Lemma boost_edge_tinf n :
  (n < 1 -> boost_ieee RPInf (RFin n) = RPInf) /\
  (n == 1 -> boost_ieee RPInf (RFin n) = RPInf) /\
  (1 < n -> boost_ieee RPInf (RFin n) = RNInf) /\
  boost_ieee RPInf RPInf = RNaN.
Proof.
  unfold boost_ieee. cbn [xr_ltb]. rewrite (xr_sub_fin VcfDefaults.boost_one n).
  cbn [xr_sub xr_opp xr_add xr_mul xr_sign sign_mul].
  rewrite half_lit. change (Qcompare (1 # 2) 0) with Gt. cbn [sign_mul xr_div].
  set (d := qadd VcfDefaults.boost_one (Qred (- n))).
  assert (Hd : d == 1 - n) by (unfold d; rewrite qadd_opp, one_lit; reflexivity).
  repeat split.
  - intros L. destruct (Qcompare_0_cases d) as [[-> _]|[[_ H]|[-> _]]]; [reflexivity | exfalso; lra | reflexivity].
  - intros L. destruct (Qcompare_0_cases d) as [[-> _]|[[_ H]|[-> _]]]; [reflexivity | exfalso; lra | reflexivity].
  - intros L. destruct (Qcompare_0_cases d) as [[_ H]|[[-> _]|[_ H]]]; [exfalso; lra | reflexivity | exfalso; lra].
Qed.

(* an infinite normal frequency: a finite tumour frequency is below it, 0.5 t / inf = 0 *)
Lemma boost_edge_ninf t : xr_eq (boost_ieee (RFin t) RPInf) (RFin 0).
Proof. unfold boost_ieee. cbn. reflexivity. Qed.

(* ---- C18_boost_range --------------------------------------------------------------------------------- *)

Lemma boost_range t n :
  0 <= t -> t <= 1 -> 0 < n -> n < 1 ->
  exists q, boost_q t n = Fin q /\ 0 <= q /\ q <= 1 /\ (q == 1 # 2 <-> t == n).
Proof.
  intros T0 T1 N0 N1.
  destruct (boost_formula t n (or_intror (fun H : n == 1 => Qlt_not_eq _ _ N1 H))) as (q & E & Hq).
  exists q. split; [exact E|]. unfold boost_spec in Hq.
  destruct (Qlt_bool t n) eqn:L.
  - apply Qlt_bool_iff in L.
    set (w := (1 # 2) * t / n) in *.
    assert (W : w * n == (1 # 2) * t) by (unfold w; field; lra).
    assert (W0 : 0 <= w) by nra. assert (W1 : w < 1 # 2) by nra.
    rewrite Hq. repeat split; try lra.
  - apply Qlt_bool_false in L.
    set (w := (1 # 2) * (1 - t) / (1 - n)) in *.
    assert (W : w * (1 - n) == (1 # 2) * (1 - t)) by (unfold w; field; lra).
    assert (W0 : 0 <= w) by nra. assert (W1 : w <= 1 # 2) by nra.
    rewrite Hq. repeat split; try lra.
    + intros H. assert (w == 1 # 2) by lra. nra.
    + intros H. assert (w == 1 # 2) by nra. lra.
Qed.

(* ---- any summary function ------------------------------------------------------------------------------ *)

Lemma finite_of_mirror_x b hits : finite_of (map (mirror_x b) hits) = map (mirror b) (finite_of hits).
Proof.
  induction hits as [|x t IH]; [reflexivity|]. destruct x; cbn; rewrite ?IH; reflexivity.
Qed.

Lemma summary_gen hits : summary hits = s2v_gen nanmedian_x hits.
Proof. destruct hits as [|x [|y t]]; reflexivity. Qed.

Lemma summary_majority_gen hits : summary_majority hits = s2v_gen (summarize_gen nanmedian_x) hits.
Proof.
  destruct hits as [|x [|y t]]; try reflexivity.
  unfold summary_majority, s2v_gen, summarize_gen, nanmedian_x.
  rewrite finite_of_mirror_x. reflexivity.
Qed.

(* the default summary function (np.nanmedian) is an instance of the general form *)
Lemma baf_by_ranges_general paired rows ranges ah boost :
  baf_by_ranges paired rows ranges ah boost = baf_by_ranges_gen nanmedian_x paired rows ranges ah boost.
Proof.
  unfold baf_by_ranges, baf_by_ranges_gen. destruct ranges as [|r0 rt]; [reflexivity|].
  destruct ah as [b|].
  - apply f_equal. apply map_ext. intros rg. apply summary_gen.
  - apply f_equal. apply map_ext. intros rg. apply summary_majority_gen.
Qed.

(* the value of one range for summary function f *)
Definition gen_value (f : list xq -> xq) (ah : option bool) (hits : list xq) : xq :=
  match ah with
  | Some b => s2v_gen f (map (mirror_x b) hits)
  | None => s2v_gen (summarize_gen f) hits
  end.

Lemma baf_by_ranges_gen_shape f paired rows ranges ah boost :
  ranges <> [] ->
  baf_by_ranges_gen f paired rows ranges ah boost =
    Some (map (fun rg => gen_value f ah (hits_of (baf_source paired rows boost) rg)) ranges).
Proof.
  intros Hr. unfold baf_by_ranges_gen, baf_source, gen_value.
  destruct ranges as [|r0 rt]; [congruence|].
  destruct ah as [b|]; [|reflexivity].
  f_equal. apply map_ext. intros rg. rewrite hits_of_mirror_assign. reflexivity.
Qed.

(* whatever the summary function: no hit -> missing; one hit -> that frequency, mirrored to the requested
   side when one was requested and as it is otherwise (f is not called); more -> f of the mirrored hits *)
Lemma gen_value_cases f ah :
  gen_value f ah [] = XNaN /\
  (forall x, gen_value f ah [x] = match ah with Some b => mirror_x b x | None => x end) /\
  (forall x y t, gen_value f ah (x :: y :: t) =
     f (map (mirror_x (match ah with Some b => b | None => majority_above (finite_of (x :: y :: t)) end))
            (x :: y :: t))).
Proof. destruct ah as [b|]; repeat split. Qed.

Lemma nanmean_x_Fin qs :
  qs <> [] -> exists m, nanmean_x (map Fin qs) = Fin m /\ m == qsum qs / inject_Z (Z.of_nat (length qs)).
Proof.
  intros H. unfold nanmean_x. rewrite finite_of_Fin. destruct qs as [|x t]; [congruence|].
  eexists. split; [reflexivity|]. apply qdiv_eq.
Qed.

Lemma fold_qmin2_le t : forall x, fold_left qmin2 t x <= x /\ Forall (fun y => fold_left qmin2 t x <= y) t.
Proof.
  induction t as [|a t IH]; intros x; cbn; [split; [apply Qle_refl | constructor]|].
  destruct (IH (qmin2 x a)) as [H1 H2].
  assert (M : qmin2 x a <= x /\ qmin2 x a <= a).
  { unfold qmin2. destruct (Qle_bool x a) eqn:E.
    - apply Qle_bool_iff in E. split; [apply Qle_refl | exact E].
    - apply Qle_bool_false in E. split; [lra | apply Qle_refl]. }
  split; [lra|]. constructor; [lra | exact H2].
Qed.

Lemma fold_qmax2_ge t : forall x, x <= fold_left qmax2 t x /\ Forall (fun y => y <= fold_left qmax2 t x) t.
Proof.
  induction t as [|a t IH]; intros x; cbn; [split; [apply Qle_refl | constructor]|].
  destruct (IH (qmax2 x a)) as [H1 H2].
  assert (M : x <= qmax2 x a /\ a <= qmax2 x a).
  { unfold qmax2. destruct (Qle_bool x a) eqn:E.
    - apply Qle_bool_iff in E. split; [exact E | apply Qle_refl].
    - apply Qle_bool_false in E. split; [apply Qle_refl | lra]. }
  split; [lra|]. constructor; [lra | exact H2].
Qed.

(* np.nanmin / np.nanmax: a lower / upper bound of the values *)
Lemma nanmin_x_Fin qs :
  qs <> [] -> exists m, nanmin_x (map Fin qs) = Fin m /\ Forall (fun y => m <= y) qs.
Proof.
  intros H. unfold nanmin_x. rewrite finite_of_Fin. destruct qs as [|x t]; [congruence|].
  eexists. split; [reflexivity|]. destruct (fold_qmin2_le t x) as [A B]. constructor; assumption.
Qed.

Lemma nanmax_x_Fin qs :
  qs <> [] -> exists m, nanmax_x (map Fin qs) = Fin m /\ Forall (fun y => y <= m) qs.
Proof.
  intros H. unfold nanmax_x. rewrite finite_of_Fin. destruct qs as [|x t]; [congruence|].
  eexists. split; [reflexivity|]. destruct (fold_qmax2_ge t x) as [A B]. constructor; assumption.
Qed.

(* ---- where the majority direction is taken ---------------------------------------------------------------- *)

(* baf_by_ranges(above_half=None): per RANGE, from the heterozygous frequencies of that range alone *)
Lemma baf_majority_per_range paired rows ranges boost :
  ranges <> [] ->
  baf_by_ranges paired rows ranges None boost =
    Some (map (fun rg => majority_value (hits_of (baf_source paired rows boost) rg)) ranges).
Proof.
  intros Hr. rewrite baf_by_ranges_shape by exact Hr. f_equal. apply map_ext. intros rg.
  cbn [series2value]. rewrite summary_majority_gen.
  destruct (hits_of (baf_source paired rows boost) rg) as [|x [|y t]]; reflexivity.
Qed.

(* VariantArray.mirrored_baf(above_half=None): ONE direction for the whole table, from the median of
   all its frequencies *)
Lemma mirrored_baf_whole_table paired rows boost :
  let vals := if boost && paired then map (fun lr => boost_row (snd lr)) rows
              else map (fun lr => g_freq (v_t (snd lr))) rows in
  mirrored_baf paired rows None boost = map (mirror_x (majority_above (finite_of vals))) vals.
Proof. reflexivity. Qed.

(* a table on which the two differ: two ranges of one chromosome, frequencies 1/5, 3/10 in the first and
   7/10, 4/5 in the second (whole-table median exactly 1/2: not above) *)
Definition dir_row (start : Z) (f : Q) : lrow :=
  (start, {| v_chrom := "chr1"; v_ckey := 0%Z; v_start := start; v_end := (start + 1)%Z; v_ref := "A"; v_alt := "G";
             v_somatic := false;
             v_t := {| g_zyg := 1 # 2; g_depth := 40%Z; g_count := 0%Z; g_freq := Fin f |}; v_n := None |}).

Definition dir_rows : list lrow := [dir_row 10 (1 # 5); dir_row 20 (3 # 10); dir_row 110 (7 # 10); dir_row 120 (4 # 5)].

Lemma majority_direction_witness :
  baf_by_ranges false dir_rows [("chr1"%string, 0%Z, 50%Z); ("chr1"%string, 100%Z, 150%Z)] None false
    = Some [Fin (1 # 4); Fin (3 # 4)] /\
  mirrored_baf false dir_rows None false = [Fin (1 # 5); Fin (3 # 10); Fin (3 # 10); Fin (1 # 5)].
Proof. split; vm_compute; reflexivity. Qed.

(* ---- load_het_snps as a decision table ----------------------------------------------------------------- *)

Lemma Qle_bool_morph a a' b b' : a == a' -> b == b' -> Qle_bool a b = Qle_bool a' b'.
Proof.
  intros Ha Hb. destruct (Qle_bool a' b') eqn:E.
  - apply Qle_bool_iff. apply Qle_bool_iff in E. lra.
  - destruct (Qle_bool a b) eqn:E2; [|reflexivity]. apply Qle_bool_iff in E2.
    assert (a' <= b') by lra. apply Qle_bool_iff in H. congruence.
Qed.

Lemma zyg_from_freq_regeno f x : zyg_from_freq f (qsub 1 f) x = zyg_from_freq_spec f (1 - f) x.
Proof.
  rewrite zyg_from_freq_eq. destruct x as [q| |]; try reflexivity. unfold zyg_from_freq_spec.
  rewrite (Qle_bool_morph (qsub 1 f) (1 - f) q q); [reflexivity | apply qsub_eq | reflexivity].
Qed.

Lemma rezyg_regenotype f r : rezyg f (qsub 1 f) r = regenotype f r.
Proof.
  unfold rezyg, regenotype, rezyg_g, regeno_g. rewrite zyg_from_freq_regeno.
  f_equal. destruct (v_n r) as [n|]; cbn; [|reflexivity]. rewrite zyg_from_freq_regeno. reflexivity.
Qed.

Lemma zfreq_ok_half f : zfreq_ok f (qsub 1 f) = Qle_bool 0 f && Qle_bool f (1 # 2).
Proof.
  unfold zfreq_ok. change VcfDefaults.zfreq_het_default with 0. change VcfDefaults.zfreq_hom_default with 1.
  destruct (Qle_bool 0 f) eqn:A; cbn [andb]; [|reflexivity].
  apply Qle_bool_iff in A.
  destruct (Qle_bool f (1 # 2)) eqn:B.
  - apply Qle_bool_iff in B.
    assert (C1 : Qle_bool f (qsub 1 f) = true) by (apply Qle_bool_iff; rewrite qsub_eq; lra).
    assert (C2 : Qle_bool (qsub 1 f) 1 = true) by (apply Qle_bool_iff; rewrite qsub_eq; lra).
    rewrite C1, C2. reflexivity.
  - apply Qle_bool_false in B.
    assert (C1 : Qle_bool f (qsub 1 f) = false).
    { destruct (Qle_bool f (qsub 1 f)) eqn:C; [|reflexivity]. apply Qle_bool_iff in C. rewrite qsub_eq in C. lra. }
    rewrite C1. reflexivity.
Qed.

Lemma load_het_finish_eq (paired boost : bool) (rows1 : list vrow) :
  ((let lab := label_from 0 rows1 in
    let lab2 := if paired then filter (fun lr => negb (inferred_somatic (snd lr))) lab else lab in
    let lab3 := heterozygous lab2 in
    if boost then (if paired then Ok (boost_assign lab3) else Fail "ValueError"%string) else Ok lab3)
   : res (list lrow))
  = load_het_finish paired boost rows1.
Proof. reflexivity. Qed.

(* C18_load_het_table *)
Lemma load_het_core_table paired zf boost rows :
  load_het_core paired zf boost rows = load_het_table paired zf boost rows.
Proof.
  unfold load_het_core, load_het_table.
  change (effective_zfreq paired zf rows) with (zfreq_in_force paired zf rows).
  destruct (zfreq_in_force paired zf rows) as [f|].
  - rewrite zfreq_ok_half. destruct (Qle_bool 0 f && Qle_bool f (1 # 2)); [|reflexivity].
    rewrite <- load_het_finish_eq. cbv zeta.
    rewrite (map_ext (rezyg f (qsub 1 f)) (regenotype f) (rezyg_regenotype f)). reflexivity.
  - rewrite <- load_het_finish_eq. reflexivity.
Qed.

(* the cases of the table, one by one *)
Lemma load_het_bad_freq paired boost rows f :
  ~ (0 <= f /\ f <= 1 # 2) -> load_het_core paired (Some f) boost rows = Fail "AssertionError"%string.
Proof.
  intros H. rewrite load_het_core_table. unfold load_het_table, zfreq_in_force.
  destruct (Qle_bool 0 f) eqn:A; cbn [andb]; [|reflexivity].
  destruct (Qle_bool f (1 # 2)) eqn:B; [|reflexivity].
  apply Qle_bool_iff in A, B. tauto.
Qed.

Lemma load_het_auto_quarter boost rows :
  normal_all_ref rows = true ->
  load_het_core true None boost rows = load_het_core true (Some (1 # 4)) boost rows.
Proof. intros H. rewrite !load_het_core_table. unfold load_het_table, zfreq_in_force. rewrite H. reflexivity. Qed.

Lemma load_het_genotypes_kept paired boost rows :
  paired && normal_all_ref rows = false ->
  load_het_core paired None boost rows = load_het_finish paired boost rows.
Proof. intros H. rewrite load_het_core_table. unfold load_het_table, zfreq_in_force. rewrite H. reflexivity. Qed.

Lemma load_het_boost_unpaired zf rows :
  (forall f, zf = Some f -> 0 <= f /\ f <= 1 # 2) ->
  load_het_core false zf true rows = Fail "ValueError"%string.
Proof.
  intros H. rewrite load_het_core_table. unfold load_het_table, zfreq_in_force.
  destruct zf as [f|]; cbn [andb]; [|reflexivity].
  destruct (H f eq_refl) as [A B]. apply Qle_bool_iff in A, B. rewrite A, B. reflexivity.
Qed.

(* the interplay: the genotypes are recomputed BEFORE the T/N somatic drop.  Tumour 0/1 at 1/2, normal
   called 0/0 but carrying the allele at 2/5, next to a heterozygous normal (so no automatic 1/4):
   by the file's genotypes the first record is dropped as somatic; with zygosity_freq 1/4 the normal's
   genotype becomes 1/2 first and the record is kept *)
Definition order_row (start : Z) (tz nz tf nf : Q) : vrow :=
  {| v_chrom := "chr1"; v_ckey := 0%Z; v_start := start; v_end := (start + 1)%Z; v_ref := "A"; v_alt := "G";
     v_somatic := false;
     v_t := {| g_zyg := tz; g_depth := 40%Z; g_count := 20%Z; g_freq := Fin tf |};
     v_n := Some {| g_zyg := nz; g_depth := 40%Z; g_count := 16%Z; g_freq := Fin nf |} |}.

Definition order_rows : list vrow :=
  [order_row 10 (1 # 2) 0 (1 # 2) (2 # 5); order_row 20 (1 # 2) (1 # 2) (1 # 2) (1 # 2)].

Lemma load_het_order_witness :
  match load_het_core true None false order_rows, load_het_core true (Some (1 # 4)) false order_rows with
  | Ok a, Ok b => map fst a = [1%Z] /\ map fst b = [0%Z; 1%Z]
  | _, _ => False
  end.
Proof. vm_compute. split; reflexivity. Qed.

(* load_het_snps = the reader with min_variant_depth, no FILTER test, SOMATIC records skipped, then the table *)
Lemma load_het_snps_table h recs ssel nsel md zf boost :
  load_het_snps h recs ssel nsel md zf boost =
  match read_vcf h recs ssel nsel md false true with
  | Fail e => Fail e
  | Ok t => match load_het_table (t_paired t) zf boost (t_rows t) with
            | Fail e => Fail e
            | Ok rows => Ok {| ht_paired := t_paired t; ht_rows := rows |}
            end
  end.
Proof.
  unfold load_het_snps. change VcfDefaults.het_skip_somatic with true.
  destruct (read_vcf h recs ssel nsel md false true) as [t|e]; [|reflexivity].
  rewrite load_het_core_table. reflexivity.
Qed.

(* min_variant_depth is applied to the NORMAL's depth when there is a normal: every kept record reaches it *)
Definition same_depths (a b : vrow) : Prop :=
  g_depth (v_t a) = g_depth (v_t b) /\ option_map g_depth (v_n a) = option_map g_depth (v_n b).

Lemma same_depths_filter a b : same_depths a b -> filter_depth a = filter_depth b.
Proof.
  unfold same_depths, filter_depth. intros [Ht Hn].
  destruct (v_n a), (v_n b); cbn in Hn; try discriminate; [injection Hn as Hn; exact Hn | exact Ht].
Qed.

Lemma load_het_finish_rows paired boost rows1 out lr :
  load_het_finish paired boost rows1 = Ok out -> In lr out ->
  exists r, In r rows1 /\ same_depths (snd lr) r.
Proof.
  unfold load_het_finish.
  set (lab := label_from 0 rows1).
  set (kept := if paired then filter (fun lr => negb (tn_somatic (snd lr))) lab else lab).
  set (het := filter (fun lr => het_by_zygosity (snd lr)) kept).
  set (o := match het with [] => kept | _ => het end).
  assert (Ho : forall x, In x o -> In (snd x) rows1).
  { intros x Hx.
    assert (Hk : In x kept).
    { unfold o in Hx. destruct het eqn:F; [exact Hx|]. rewrite <- F in Hx. unfold het in Hx.
      apply filter_In in Hx. tauto. }
    assert (Hl : In x lab).
    { unfold kept in Hk. destruct paired; [apply filter_In in Hk; tauto | exact Hk]. }
    eapply label_from_in, Hl. }
  destruct boost.
  - destruct paired; [|discriminate]. intros H Hin. injection H as <-.
    unfold boost_assign in Hin. apply in_map_iff in Hin as (x & <- & Hx).
    exists (snd x). split; [apply Ho, Hx|]. cbn. split; reflexivity.
  - intros H Hin. injection H as <-. exists (snd lr). split; [apply Ho, Hin | split; reflexivity].
Qed.

Lemma regenotype_same_depths f r : same_depths (regenotype f r) r.
Proof. unfold same_depths, regenotype. cbn. split; [reflexivity|]. destruct (v_n r); reflexivity. Qed.

Lemma load_het_table_rows paired zf boost rows out lr :
  load_het_table paired zf boost rows = Ok out -> In lr out ->
  exists r, In r rows /\ same_depths (snd lr) r.
Proof.
  unfold load_het_table. destruct (zfreq_in_force paired zf rows) as [f|].
  - destruct (Qle_bool 0 f && Qle_bool f (1 # 2)); [|discriminate].
    intros H Hin. destruct (load_het_finish_rows _ _ _ _ _ H Hin) as (r1 & Hr1 & Hs).
    apply in_map_iff in Hr1 as (r & <- & Hr). exists r. split; [exact Hr|].
    destruct Hs as [A B]. destruct (regenotype_same_depths f r) as [C D]. split; congruence.
  - apply load_het_finish_rows.
Qed.

Lemma load_het_snps_depth h recs ssel nsel m zf boost t :
  load_het_snps h recs ssel nsel (Some m) zf boost = Ok t -> m <> 0%Z ->
  (exists lr, In lr (ht_rows t) /\ g_depth (v_t (snd lr)) <> 0%Z) ->
  Forall (fun lr => (m <= filter_depth (snd lr))%Z) (ht_rows t).
Proof.
  rewrite load_het_snps_table.
  destruct (read_vcf h recs ssel nsel (Some m) false true) as [t0|e] eqn:R; [|discriminate].
  destruct (load_het_table (t_paired t0) zf boost (t_rows t0)) as [rows|e] eqn:T; [|discriminate].
  intros H Hm (lr0 & Hin0 & Hd0). injection H as <-. cbn [ht_rows] in *.
  destruct (read_filters_forall _ _ _ _ _ _ _ _ R) as [_ HF].
  assert (Hex : existsb (fun r => negb (g_depth (v_t r) =? 0)%Z) (t_rows t0) = true).
  { destruct (load_het_table_rows _ _ _ _ _ _ T Hin0) as (r & Hr & [A _]).
    apply existsb_exists. exists r. split; [exact Hr|]. rewrite <- A.
    apply negb_true_iff. apply Z.eqb_neq. exact Hd0. }
  specialize (HF m eq_refl Hm Hex). rewrite Forall_forall in HF.
  apply Forall_forall. intros lr Hin.
  destruct (load_het_table_rows _ _ _ _ _ _ T Hin) as (r & Hr & Hs).
  rewrite (same_depths_filter _ _ Hs). apply HF, Hr.
Qed.

(* ---- the IEEE layer agrees with the finite model where both speak ---------------------------------------- *)

Lemma qabs_morph a b : a == b -> qabs a == qabs b.
Proof. intros H. rewrite !qabs_Qabs. rewrite H. reflexivity. Qed.

Lemma mirror_ieee_fin above v : xr_eq (mirror_ieee above (RFin v)) (xr_of_xq (mirror_x above (Fin v))).
Proof.
  unfold mirror_ieee, mirror_x, mirror. cbv zeta. rewrite xr_sub_fin. cbn [xr_abs xr_of_xq].
  assert (S : qabs (qadd v (Qred (- VcfDefaults.mirror_center))) == qabs (qsub v VcfDefaults.mirror_center)).
  { apply qabs_morph. rewrite qadd_opp, qsub_eq. reflexivity. }
  destruct above.
  - cbn [xr_add xr_eq].
    rewrite (qadd_eq VcfDefaults.mirror_center (qabs (qadd v (Qred (- VcfDefaults.mirror_center))))), S.
    symmetry. apply qadd_eq.
  - rewrite xr_sub_fin. cbn [xr_eq]. rewrite qadd_opp, S. symmetry. apply qsub_eq.
Qed.

Lemma insert_sorted_RFin x s :
  insert_sorted xr_leb (RFin x) (map RFin s) = map RFin (insert_sorted Qle_bool x s).
Proof.
  induction s as [|y t IH]; [reflexivity|]. cbn [map insert_sorted xr_leb].
  destruct (Qle_bool x y); [reflexivity|]. cbn [map]. rewrite IH. reflexivity.
Qed.

Lemma isort_RFin l : isort xr_leb (map RFin l) = map RFin (isort Qle_bool l).
Proof.
  induction l as [|x t IH]; [reflexivity|]. cbn [map isort fold_right].
  change (fold_right (insert_sorted xr_leb) [] (map RFin t)) with (isort xr_leb (map RFin t)).
  rewrite IH. apply insert_sorted_RFin.
Qed.

Lemma non_nan_RFin l : non_nan (map RFin l) = map RFin l.
Proof. induction l as [|x t IH]; [reflexivity|]. cbn. rewrite IH. reflexivity. Qed.

Lemma nth_map_RFin k s : (k < length s)%nat -> nth k (map RFin s) RNaN = RFin (nth k s 0).
Proof.
  revert k. induction s as [|x t IH]; intros k H; [cbn in H; lia|].
  destruct k; [reflexivity|]. cbn. apply IH. cbn in H. lia.
Qed.

(* Series.median of finite values is the model's median *)
Lemma median_r_RFin l :
  median_r (map RFin l) = match median l with Some m => RFin m | None => RNaN end.
Proof.
  unfold median_r, median. rewrite non_nan_RFin, isort_RFin, map_length. cbv zeta.
  change (isort Qle_bool l) with (qsort l).
  set (s := qsort l). destruct (length s) as [|n] eqn:L; [reflexivity|].
  assert (H2 : (S n / 2 < length s)%nat).
  { rewrite L. apply Nat.div_lt; lia. }
  assert (H1 : (S n / 2 - 1 < length s)%nat) by lia.
  destruct (Nat.even (S n)).
  - rewrite !nth_map_RFin by assumption. reflexivity.
  - rewrite nth_map_RFin by assumption. reflexivity.
Qed.

Lemma Forall2_map_xr_eq (f : xr -> xr) (g : Q -> Q) (qs : list Q) :
  (forall q, xr_eq (f (RFin q)) (RFin (g q))) ->
  Forall2 xr_eq (map f (map RFin qs)) (map RFin (map g qs)).
Proof. intros H. induction qs as [|q t IH]; cbn; constructor; [apply H | exact IH]. Qed.

(* a table without infinite frequencies, no TumorBoost: mirrored_baf over IEEE cells IS mirrored_baf *)
Lemma mirrored_baf_r_finite paired rows ah qs :
  map (fun lr => g_freq (v_t (snd lr))) rows = map Fin qs ->
  Forall2 xr_eq (mirrored_baf_r paired rows ah false) (map xr_of_xq (mirrored_baf paired rows ah false)).
Proof.
  intros E. unfold mirrored_baf_r, mirrored_baf. cbn [andb]. cbv zeta.
  assert (E' : map (fun lr => xr_of_xq (g_freq (v_t (snd lr)))) rows = map RFin qs).
  { rewrite <- (map_map (fun lr => g_freq (v_t (snd lr))) xr_of_xq), E, map_map. reflexivity. }
  rewrite E, E', finite_of_Fin.
  assert (D : (match ah with
               | Some b => b
               | None => xr_ltb (RFin VcfDefaults.mirror_center) (median_r (map RFin qs))
               end) = direction ah qs).
  { destruct ah as [b|]; [reflexivity|]. cbn [direction]. unfold majority_above.
    rewrite median_r_RFin. destruct (median qs); reflexivity. }
  rewrite D. generalize (direction ah qs) as d. intros d. clear.
  induction qs as [|q t IH]; cbn [map]; constructor; [apply mirror_ieee_fin | exact IH].
Qed.

(* ---- the edge table as one statement -------------------------------------------------------------------- *)

Lemma boost_edges :
  (* normal frequency exactly 0 *)
  (forall t n, n == 0 -> 0 <= t -> xr_eq (boost_ieee (RFin t) (RFin n)) (RFin ((1 + t) / 2))) /\
  (forall t n, n == 0 -> t < 0 -> boost_ieee (RFin t) (RFin n) = RNInf) /\
  (* normal frequency exactly 1 *)
  (forall t n, n == 1 -> t < 1 -> xr_eq (boost_ieee (RFin t) (RFin n)) (RFin (t / 2))) /\
  (forall t n, n == 1 -> t == 1 -> boost_ieee (RFin t) (RFin n) = RNaN) /\
  (forall t n, n == 1 -> 1 < t -> boost_ieee (RFin t) (RFin n) = RPInf) /\
  (* t = n *)
  (forall t n, t == n -> ~ n == 1 -> xr_eq (boost_ieee (RFin t) (RFin n)) (RFin (1 # 2))) /\
  (* t or n missing *)
  (forall x, boost_ieee RNaN x = RNaN /\ boost_ieee x RNaN = RNaN) /\
  (* t or n infinite *)
  (forall n, (n <= 1 -> boost_ieee RPInf (RFin n) = RPInf) /\ (1 < n -> boost_ieee RPInf (RFin n) = RNInf)) /\
  boost_ieee RPInf RPInf = RNaN /\
  (forall t, xr_eq (boost_ieee (RFin t) RPInf) (RFin 0)).
Proof.
  split; [exact boost_edge_n0|]. split.
  { intros t n N0 T. apply boost_ieee_lt_zero; [lra | exact N0]. }
  split; [exact boost_edge_n1_below|]. split; [exact boost_ieee_one_one|].
  split; [exact boost_ieee_one_above|]. split; [exact boost_edge_same|]. split; [exact boost_edge_nan|].
  split.
  { intros n. destruct (boost_edge_tinf n) as (A & B & C & _). split; [|exact C].
    intros L. destruct (Qlt_le_dec n 1) as [L1|L1]; [apply A, L1 | apply B; lra]. }
  split; [apply (boost_edge_tinf 0)|]. exact boost_edge_ninf.
Qed.
