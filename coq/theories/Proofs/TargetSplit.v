(* C12: what subdivide with a rational average does to one merged region
   (split_row_q), and to a sorted, separated list of merged regions:
   number of bins, tiling, sizes, cover, order, size bounds. *)
From CNV Require Import Base.Prelude Base.Str Model.IvRow Model.Intervals Model.Target Spec.Cover Spec.Bins.
From CNV Require Import Proofs.IvCover Proofs.IvMerge Proofs.IvSubdivide Proofs.TargetLib.

(* ---- split_row_q ------------------------------------------------------------ *)

Lemma nbins_q_max avg span : 0 < Qnum avg -> 0 <= span ->
  nbins_q avg span = Z.max 1 (round_div (span * Zpos (Qden avg)) (Qnum avg)).
Proof. intros Ha Hs. unfold nbins_q. apply nbins_max; [exact Ha | nia]. Qed.

Lemma nbins_q_is_nbins avg span : 0 < Qnum avg -> 0 <= span -> is_nbins span avg (nbins_q avg span).
Proof.
  intros Ha Hs. exists (round_div (span * Zpos (Qden avg)) (Qnum avg)). split.
  - apply round_div_half_even. exact Ha.
  - apply nbins_q_max; assumption.
Qed.

(* an integral average: the C06 model *)
Lemma split_row_q_int {A} (a mn : Z) cut (r : @row A) : split_row_q (inject_Z a) mn cut r = split_row a mn cut r.
Proof.
  unfold split_row_q, split_row, nbins_q. cbn [inject_Z Qnum Qden]. rewrite Z.mul_1_r. reflexivity.
Qed.

Lemma split_row_q_spec {A} (avg : Q) (mn : Z) (cut : Z -> Z -> Z -> Z) (r : @row A) :
  0 < Qnum avg -> lo r < hi r ->
  (forall span n, cut_contract span n (cut span n)) ->
  let span := hi r - lo r in
  let n := nbins_q avg span in
  is_nbins span avg n /\
  (span < mn -> split_row_q avg mn cut r = []) /\
  (mn <= span -> equal_bins (lo r) (hi r) n (pay r) (split_row_q avg mn cut r)) /\
  (mn <= span -> n = 1 -> split_row_q avg mn cut r = [r]).
Proof.
  intros Ha Hr Hc span n. unfold split_row_q. fold span. fold n.
  assert (Hn1 : 1 <= n) by (unfold n; rewrite nbins_q_max by (unfold span; lia); lia).
  split; [apply nbins_q_is_nbins; unfold span; lia|].
  split; [|split].
  - intros Hlt. apply Z.ltb_lt in Hlt. rewrite Hlt. reflexivity.
  - intros Hge. apply Z.ltb_ge in Hge. rewrite Hge. unfold equal_bins.
    destruct (n =? 1) eqn:En.
    + apply Z.eqb_eq in En. split; [cbn; lia|]. split; [cbn; auto|].
      constructor; [|constructor]. split; [reflexivity|]. fold span. lia.
    + apply Z.eqb_neq in En. assert (Hn : 2 <= n) by lia.
      destruct (bins_from_spec (cut span n) (lo r) (hi r) (pay r) (Z.to_nat (n - 1)) 1 (lo r))
        as [Hl [Ht Hp]].
      split; [rewrite Hl; lia|]. split; [exact Ht|].
      pose proof (bins_sizes (cut span n) (lo r) (hi r) (pay r) n Hn (Hc span n)) as Hs.
      rewrite Forall_forall in *. intros b Hb. split; auto.
  - intros Hge En. apply Z.ltb_ge in Hge. rewrite Hge. apply Z.eqb_eq in En. rewrite En. reflexivity.
Qed.

(* ---- tilings with possibly empty bins ------------------------------------------ *)

Definition weakly_valid {A} (t : list (@row A)) : Prop := Forall (fun b => lo b <= hi b) t.

Lemma tiles_le_weak {A} (s e : Z) (t : list (@row A)) : tiles s e t -> weakly_valid t -> s <= e.
Proof.
  revert s. induction t as [|r t IH]; intros s Ht Hv; cbn [tiles] in Ht; [lia|].
  destruct Ht as [Hlo Ht]. inversion Hv as [|? ? Hr Hv']; subst. specialize (IH _ Ht Hv'). lia.
Qed.

Lemma tiles_covers_weak {A} (s e : Z) (t : list (@row A)) :
  tiles s e t -> weakly_valid t -> forall x, covers t x <-> s <= x < e.
Proof.
  revert s. induction t as [|r t IH]; intros s Ht Hv x; cbn [tiles] in Ht.
  - split; [intros H; destruct (covers_nil _ H) | lia].
  - destruct Ht as [Hlo Ht]. inversion Hv as [|? ? Hr Hv']; subst.
    pose proof (tiles_le_weak _ _ _ Ht Hv') as Hle.
    rewrite covers_cons, (IH _ Ht Hv'). lia.
Qed.

Lemma tiles_within {A} (s e : Z) (t : list (@row A)) :
  tiles s e t -> weakly_valid t -> Forall (fun b => s <= lo b /\ hi b <= e) t.
Proof.
  revert s. induction t as [|r t IH]; intros s Ht Hv; [constructor|]. cbn [tiles] in Ht.
  destruct Ht as [Hlo Ht]. inversion Hv as [|? ? Hr Hv']; subst.
  pose proof (tiles_le_weak _ _ _ Ht Hv') as Hle. constructor; [lia|].
  specialize (IH _ Ht Hv'). rewrite Forall_forall in *. intros b Hb. specialize (IH b Hb). lia.
Qed.

Lemma tiles_sorted_disjoint {A} (s e : Z) (t : list (@row A)) : tiles s e t -> sorted_disjoint t.
Proof.
  revert s. induction t as [|r t IH]; intros s Ht; [exact I|]. cbn [tiles] in Ht. destruct Ht as [_ Ht].
  unfold sorted_disjoint. cbn [chain]. split; [|exact (IH _ Ht)].
  destruct t as [|b t']; [exact I|]. cbn [tiles] in Ht. lia.
Qed.

Lemma equal_bins_weakly_valid {A} s e n (p : A) out : s < e -> 1 <= n -> equal_bins s e n p out -> weakly_valid out.
Proof.
  intros Hse Hn (_ & _ & Hs). unfold weakly_valid. rewrite Forall_forall in *. intros b Hb.
  destruct (Hs b Hb) as [_ [H1 _]]. nia.
Qed.

(* ---- rows of a separated list and maximal stretches of its cover ---------------- *)

Section Stretch.
Context {A : Type}.
Notation row := (@row A).

(* later rows of a separated list start after the end of the head *)
Lemma separated_head_all (a : row) (t : list row) :
  sorted_separated (a :: t) -> valid (a :: t) -> Forall (fun b => hi a < lo b) t.
Proof.
  revert a. induction t as [|b t IH]; intros a Hs Hv; constructor.
  - destruct Hs as [H _]. exact H.
  - destruct Hs as [Hab Hs]. apply valid_cons in Hv as [Ha Hv].
    pose proof (valid_cons b t) as Hb. apply Hb in Hv as [Hb1 Hv2].
    assert (Hvb : valid (b :: t)) by (apply valid_cons; split; assumption).
    specialize (IH b Hs Hvb). rewrite Forall_forall in *. intros z Hz. specialize (IH z Hz). lia.
Qed.

(* every row of a sorted, separated, valid list is a maximal stretch of the cover, and conversely *)
Lemma row_is_stretch (m : list row) r : sorted_separated m -> valid m -> In r m -> stretch (covers m) (lo r) (hi r).
Proof.
  induction m as [|a m IH]; intros Hs Hv Hr; [destruct Hr|].
  pose proof Hv as Hv0. apply valid_cons in Hv as [Ha Hv].
  pose proof (separated_head_all a m Hs Hv0) as Hsep. rewrite Forall_forall in Hsep.
  assert (Hs' : sorted_separated m) by (eapply chain_tail; exact Hs).
  destruct Hr as [->|Hr].
  - split; [exact Ha|]. split; [|split].
    + intros x Hx. exists r. split; [left; reflexivity | exact Hx].
    + intros [q [[<-|Hq] Hx]]; [lia|]. specialize (Hsep q Hq). lia.
    + intros [q [[<-|Hq] Hx]]; [lia|]. specialize (Hsep q Hq). lia.
  - destruct (IH Hs' Hv Hr) as (H1 & H2 & H3 & H4). specialize (Hsep r Hr).
    split; [exact H1|]. split; [|split].
    + intros x Hx. apply covers_cons. right. apply H2. exact Hx.
    + intros Hc. apply covers_cons in Hc as [Hc|Hc]; [lia | exact (H3 Hc)].
    + intros Hc. apply covers_cons in Hc as [Hc|Hc]; [lia | exact (H4 Hc)].
Qed.

Lemma stretch_is_row (m : list row) s e : sorted_separated m -> valid m -> stretch (covers m) s e ->
  exists r, In r m /\ lo r = s /\ hi r = e.
Proof.
  intros Hs Hv (Hse & Hall & Hpre & Hpost).
  destruct (Hall s ltac:(lia)) as [r [Hr Hx]]. exists r. split; [exact Hr|].
  destruct (row_is_stretch m r Hs Hv Hr) as (_ & Hin & _ & Hend).
  split.
  - destruct (Z.eq_dec (lo r) s) as [E|E]; [exact E|]. exfalso. apply Hpre. exists r. split; [exact Hr | lia].
  - destruct (Z.lt_trichotomy (hi r) e) as [H|[H|H]]; [|exact H|].
    + exfalso. apply Hend. apply Hall. lia.
    + exfalso. apply Hpost. exists r. split; [exact Hr | lia].
Qed.

End Stretch.

(* ---- a list of merged regions -------------------------------------------------- *)

Section Regions.
Context {A : Type} (avg : Q) (mn : Z) (cut : Z -> Z -> Z -> Z).
Hypothesis Havg : 0 < Qnum avg.
Hypothesis Hcut : forall span n, cut_contract span n (cut span n).
Notation row := (@row A).
Notation split := (split_row_q avg mn cut).

Lemma nbins_q_ge1 span : 0 <= span -> 1 <= nbins_q avg span.
Proof. intros Hs. rewrite nbins_q_max by assumption. lia. Qed.

Lemma split_weakly_valid (r : row) : lo r < hi r -> weakly_valid (split r).
Proof.
  intros Hr. destruct (split_row_q_spec avg mn cut r Havg Hr Hcut) as (_ & Hlt & Hge & _).
  destruct (Z.lt_ge_cases (hi r - lo r) mn) as [H|H].
  - rewrite (Hlt H). constructor.
  - eapply equal_bins_weakly_valid; [exact Hr | | exact (Hge H)]. apply nbins_q_ge1. lia.
Qed.

Lemma split_covers (r : row) x : lo r < hi r ->
  covers (split r) x <-> mn <= hi r - lo r /\ lo r <= x < hi r.
Proof.
  intros Hr. destruct (split_row_q_spec avg mn cut r Havg Hr Hcut) as (_ & Hlt & Hge & _).
  destruct (Z.lt_ge_cases (hi r - lo r) mn) as [H|H].
  - rewrite (Hlt H). split; [intros Hc; destruct (covers_nil _ Hc) | lia].
  - destruct (Hge H) as (_ & Ht & _).
    rewrite (tiles_covers_weak _ _ _ Ht (split_weakly_valid r Hr)). lia.
Qed.

Lemma split_within (r : row) : lo r < hi r -> Forall (fun b => lo r <= lo b /\ hi b <= hi r) (split r).
Proof.
  intros Hr. destruct (split_row_q_spec avg mn cut r Havg Hr Hcut) as (_ & Hlt & Hge & _).
  destruct (Z.lt_ge_cases (hi r - lo r) mn) as [H|H].
  - rewrite (Hlt H). constructor.
  - destruct (Hge H) as (_ & Ht & _). apply tiles_within; [exact Ht | apply split_weakly_valid; exact Hr].
Qed.

Lemma split_sorted (r : row) : lo r < hi r -> sorted_disjoint (split r).
Proof.
  intros Hr. destruct (split_row_q_spec avg mn cut r Havg Hr Hcut) as (_ & Hlt & Hge & _).
  destruct (Z.lt_ge_cases (hi r - lo r) mn) as [H|H].
  - rewrite (Hlt H). exact I.
  - destruct (Hge H) as (_ & Ht & _). eapply tiles_sorted_disjoint. exact Ht.
Qed.

Lemma flat_split_covers (m : list row) x : valid m ->
  covers (flat_map split m) x <-> exists r, In r m /\ mn <= hi r - lo r /\ lo r <= x < hi r.
Proof.
  intros Hv. rewrite covers_flat_map. split; intros [r [Hr H]]; exists r; (split; [exact Hr|]);
    apply (split_covers r x (valid_in _ _ Hv Hr)); exact H.
Qed.

Lemma flat_split_sorted (m : list row) : sorted_separated m -> valid m -> sorted_disjoint (flat_map split m).
Proof.
  induction m as [|r m IH]; intros Hs Hv; [exact I|]. cbn [flat_map].
  pose proof Hv as Hv0. apply valid_cons in Hv as [Hr Hv].
  apply chain_app.
  - apply split_sorted. exact Hr.
  - apply IH; [eapply chain_tail; exact Hs | exact Hv].
  - intros a b Ha Hb.
    assert (Hina : In a (split r)).
    { clear -Ha. induction (split r) as [|x l IHl]; [discriminate|]. destruct l as [|y l'].
      - cbn in Ha. injection Ha as ->. left; reflexivity.
      - right. apply IHl. exact Ha. }
    assert (Hinb : In b (flat_map split m)).
    { destruct (flat_map split m); [discriminate|]. cbn in Hb. injection Hb as ->. left; reflexivity. }
    pose proof (split_within r Hr) as Hw. rewrite Forall_forall in Hw. specialize (Hw a Hina).
    apply in_flat_map in Hinb as [r' [Hr' Hb']].
    pose proof (split_within r' (valid_in _ _ Hv Hr')) as Hw'. rewrite Forall_forall in Hw'. specialize (Hw' b Hb').
    pose proof (separated_head_all r m Hs Hv0) as Hsep. rewrite Forall_forall in Hsep. specialize (Hsep r' Hr'). lia.
Qed.

Lemma flat_split_weakly_valid (m : list row) : valid m -> weakly_valid (flat_map split m).
Proof.
  intros Hv. unfold weakly_valid. rewrite Forall_forall. intros b Hb. apply in_flat_map in Hb as [r [Hr Hb]].
  pose proof (split_weakly_valid r (valid_in _ _ Hv Hr)) as H. unfold weakly_valid in H. rewrite Forall_forall in H. auto.
Qed.

End Regions.

(* ---- size bounds ------------------------------------------------------------------ *)

(* the bins of one region of at least the minimum size: each at least min under the guard
   min <= 0 or min <= 3/4 avg - 1, and at most 3/2 avg when avg >= 4 *)
Lemma equal_bins_sizes {A} (avg : Q) (mn : Z) s e n (p : A) out b :
  0 < Qnum avg -> s < e -> mn <= e - s -> is_nbins (e - s) avg n -> equal_bins s e n p out -> In b out ->
  (mn <= 0 \/ 4 * mn * Zpos (Qden avg) <= 3 * Qnum avg - 4 * Zpos (Qden avg) -> mn <= hi b - lo b) /\
  (4 * Zpos (Qden avg) <= Qnum avg -> 2 * (hi b - lo b) * Zpos (Qden avg) <= 3 * Qnum avg).
Proof.
  intros Ha Hse Hmn (k & (Hk1 & _) & Hn) (Hlen & Htiles & Hsz) Hb.
  set (d := Zpos (Qden avg)) in *. set (a := Qnum avg) in *. assert (Hd : 0 < d) by (unfold d; lia).
  rewrite Forall_forall in Hsz. destruct (Hsz b Hb) as [_ [Hlow Hup]].
  set (sz := hi b - lo b) in *. set (span := e - s) in *.
  destruct (Z.eq_dec n 1) as [En|En].
  - (* one bin: it is the region itself *)
    assert (Esz : sz = span).
    { destruct out as [|b0 out']; [destruct Hb|]. destruct out' as [|b1 out'']; [|cbn in Hlen; lia].
      destruct Hb as [<-|[]]. cbn [tiles] in Htiles. unfold sz, span. lia. }
    split; [intros _; lia|]. intros H4. rewrite Esz.
    assert (Hk : k <= 1) by lia.
    assert (Hb2 : 2 * (span * d - k * a) <= a) by lia.
    nia.
  - assert (Hn2 : 2 <= n) by lia. assert (Ek : k = n) by lia. subst k.
    assert (H1 : 2 * (n * a - span * d) <= a) by lia.
    assert (H2 : 2 * (span * d - n * a) <= a) by lia.
    split.
    + intros [Hm|Hm].
      * assert (0 <= sz) by nia. lia.
      * apply (Z.mul_le_mono_pos_r _ _ (4 * n * d)); [nia|].
        assert (E1 : 4 * d * (n * sz) >= 4 * d * (span - n)) by nia.
        assert (E2 : n * (4 * mn * d) <= n * (3 * a - 4 * d)) by nia.
        assert (E3 : n * a >= 2 * a) by nia.
        lia.
    + intros H4.
      apply (Z.mul_le_mono_pos_r _ _ n); [lia|].
      assert (E1 : 2 * d * (n * sz) <= 2 * d * (span + n)) by nia.
      assert (E2 : (n - 1) * a >= (n - 1) * (4 * d)) by nia.
      assert (E3 : n * d >= 2 * d) by nia.
      lia.
Qed.
