(* C15, centring: center_all is a uniform shift; the chosen estimator of the result's autosomal
   bins is 0; which bins are autosomal. *)
From CNV Require Import Base.Prelude Base.Str Base.QNum Proofs.QNumLemmas Gen.CenterDefaults
  Model.Center Spec.Center Proofs.CenterLib.
From Coq Require Import Qabs Setoid Morphisms Psatz.
Local Open Scope Q_scope.

(* ---- uniform shift ----------------------------------------------------------- *)
Lemma add_log2_same c b : same_but_log2 c b (add_log2 c b).
Proof. unfold same_but_log2, add_log2, set_log2; simpl. repeat split; try reflexivity. apply qadd_spec. Qed.

Lemma map_add_uniform c t : uniform_shift c t (map (add_log2 c) t).
Proof. induction t; simpl; constructor; auto using add_log2_same. Qed.

Lemma uniform_shift_refl t : uniform_shift 0 t t.
Proof.
  induction t; constructor; auto. unfold same_but_log2. repeat split; try reflexivity. ring.
Qed.

Lemma center_all_uniform est by_chrom skip_low build t :
  exists c, uniform_shift c t (center_all est by_chrom skip_low build t) /\
            (c == match center_shift est by_chrom skip_low build t with Some s => s | None => 0 end).
Proof.
  unfold center_all. destruct (center_shift est by_chrom skip_low build t) as [s|].
  - exists s. split; [apply map_add_uniform|reflexivity].
  - exists 0. split; [apply uniform_shift_refl|reflexivity].
Qed.

Lemma uniform_shift_length c t t' : uniform_shift c t t' -> length t' = length t.
Proof. induction 1; simpl; congruence. Qed.

(* differences between bins are untouched *)
Lemma uniform_shift_nth c t t' : uniform_shift c t t' ->
  forall i d, (i < length t)%nat -> b_log2 (nth i t' d) == b_log2 (nth i t d) + c.
Proof.
  intros H. induction H as [|b b' t t' Hb H IH]; intros i d Hi; simpl in Hi; [lia|].
  destruct i; simpl; [apply Hb|]. apply IH. lia.
Qed.

Lemma uniform_shift_diff c t t' : uniform_shift c t t' ->
  forall i j d, (i < length t)%nat -> (j < length t)%nat ->
    b_log2 (nth i t' d) - b_log2 (nth j t' d) == b_log2 (nth i t d) - b_log2 (nth j t d).
Proof.
  intros H i j d Hi Hj. rewrite (uniform_shift_nth c t t' H i d Hi), (uniform_shift_nth c t t' H j d Hj). ring.
Qed.

(* ---- null-coverage bins -------------------------------------------------------- *)
Lemma min_cvg_literal : min_cvg = -15.
Proof. reflexivity. Qed.

Lemma is_low_spec b : is_low b = null_coverage_b b.
Proof. unfold is_low, null_coverage_b. rewrite min_cvg_literal. reflexivity. Qed.

Lemma null_coverage_b_iff b : null_coverage_b b = true <-> null_coverage b.
Proof.
  unfold null_coverage_b, null_coverage. rewrite orb_true_iff, qlt_b_iff. split.
  - intros [H|H]; [left; exact H|right]. destruct (b_depth b) as [d|]; [|discriminate].
    exists d. split; [reflexivity|]. apply qeq_b_iff. exact H.
  - intros [H|[d [Hd H]]]; [left; exact H|right]. rewrite Hd. apply qeq_b_iff. exact H.
Qed.

Lemma kept_rows_shift skip_low c t :
  kept_rows skip_low t (map (add_log2 c) t) = map (add_log2 c) (if skip_low then drop_low t else t).
Proof.
  destruct skip_low; simpl.
  - unfold drop_low. induction t as [|b t IH]; simpl; [reflexivity|].
    rewrite <- is_low_spec. destruct (is_low b); simpl; rewrite IH; reflexivity.
  - induction t as [|b t IH]; simpl; [reflexivity|]. rewrite IH. reflexivity.
Qed.

(* ---- autosome selection commutes with the shift (it reads names and coordinates only) ------- *)
Lemma x_label_shift c t : x_label (map (add_log2 c) t) = x_label t.
Proof. destruct t; reflexivity. Qed.

Lemma auto_sel_shift c t build b : auto_sel (map (add_log2 c) t) build (add_log2 c b) = auto_sel t build b.
Proof.
  unfold auto_sel, parx_filter. rewrite x_label_shift. destruct build; reflexivity.
Qed.

Lemma autosomes_shift c t build : autosomes (map (add_log2 c) t) build = map (add_log2 c) (autosomes t build).
Proof.
  unfold autosomes. rewrite (existsb_map_comm (add_log2 c) is_auto_bin t) by reflexivity.
  destruct (existsb is_auto_bin t); [|reflexivity].
  apply filter_map_comm. intros b. apply auto_sel_shift.
Qed.

(* ---- the estimator of the result's autosomal bins is 0 ----------------------------------------- *)
Lemma center_zero est by_chrom skip_low build t s :
  translation_equivariant est ->
  center_shift est by_chrom skip_low build t = Some s ->
  center_stat est by_chrom
    (autosomes (kept_rows skip_low t (center_all est by_chrom skip_low build t)) build) == 0.
Proof.
  intros Hte Hs. unfold center_all. rewrite Hs. rewrite kept_rows_shift, autosomes_shift.
  fold (center_selection skip_low build t).
  unfold center_shift in Hs.
  destruct (center_selection skip_low build t) as [|b sel] eqn:E; [discriminate|].
  injection Hs as Hs. rewrite center_stat_shift; [|exact Hte|discriminate].
  rewrite <- Hs. rewrite qneg_spec. ring.
Qed.

(* when nothing is selected the table is returned as it is *)
Lemma center_nothing est by_chrom skip_low build t :
  center_shift est by_chrom skip_low build t = None -> center_all est by_chrom skip_low build t = t.
Proof. intros H. unfold center_all. rewrite H. reflexivity. Qed.

Lemma center_shift_some_iff est by_chrom skip_low build t :
  (exists s, center_shift est by_chrom skip_low build t = Some s) <-> center_selection skip_low build t <> [].
Proof.
  unfold center_shift. destruct (center_selection skip_low build t); split.
  - intros [s H]. discriminate.
  - intros H. contradiction.
  - intros _. discriminate.
  - intros _. eexists. reflexivity.
Qed.

(* ---- which bins are autosomal ------------------------------------------------------------------ *)
Lemma all_digits_spec l : all_digits l = true <-> l <> [] /\ Forall (fun a => is_digit a = true) l.
Proof.
  unfold all_digits. destruct l as [|a l].
  - split; [discriminate|]. intros [H _]. contradiction.
  - rewrite forallb_forall, Forall_forall. split.
    + intros H. split; [discriminate|exact H].
    + intros [_ H]. exact H.
Qed.

Definition chr3 : list ascii := ["c"%char; "h"%char; "r"%char].

Lemma is_auto_chars_eq l :
  is_auto_chars l = if prefixb chr3 l then all_digits (skipn 3 l) else all_digits l.
Proof.
  destruct l as [|a [|b [|c r]]]; try reflexivity.
  - destruct a as [a0 a1 a2 a3 a4 a5 a6 a7].
    destruct a0; try reflexivity; destruct a1; try reflexivity; destruct a2; try reflexivity;
    destruct a3; try reflexivity; destruct a4; try reflexivity; destruct a5; try reflexivity;
    destruct a6; try reflexivity; destruct a7; try reflexivity.
  - destruct a as [a0 a1 a2 a3 a4 a5 a6 a7].
    destruct a0; try reflexivity; destruct a1; try reflexivity; destruct a2; try reflexivity;
    destruct a3; try reflexivity; destruct a4; try reflexivity; destruct a5; try reflexivity;
    destruct a6; try reflexivity; destruct a7; try reflexivity.
    destruct b as [a0 a1 a2 a3 a4 a5 a6 a7].
    destruct a0; try reflexivity; destruct a1; try reflexivity; destruct a2; try reflexivity;
    destruct a3; try reflexivity; destruct a4; try reflexivity; destruct a5; try reflexivity;
    destruct a6; try reflexivity; destruct a7; try reflexivity.
  - destruct a as [a0 a1 a2 a3 a4 a5 a6 a7].
    destruct a0; try reflexivity; destruct a1; try reflexivity; destruct a2; try reflexivity;
    destruct a3; try reflexivity; destruct a4; try reflexivity; destruct a5; try reflexivity;
    destruct a6; try reflexivity; destruct a7; try reflexivity.
    destruct b as [a0 a1 a2 a3 a4 a5 a6 a7].
    destruct a0; try reflexivity; destruct a1; try reflexivity; destruct a2; try reflexivity;
    destruct a3; try reflexivity; destruct a4; try reflexivity; destruct a5; try reflexivity;
    destruct a6; try reflexivity; destruct a7; try reflexivity.
    destruct c as [a0 a1 a2 a3 a4 a5 a6 a7].
    destruct a0; try reflexivity; destruct a1; try reflexivity; destruct a2; try reflexivity;
    destruct a3; try reflexivity; destruct a4; try reflexivity; destruct a5; try reflexivity;
    destruct a6; try reflexivity; destruct a7; try reflexivity.
Qed.

Lemma prefixb_chr3 l : prefixb chr3 l = true <-> exists r, l = chr3 ++ r.
Proof.
  generalize chr3 as p. intros p. revert l.
  induction p as [|a p IH]; intros l.
  - split; [intros _; exists l; reflexivity|reflexivity].
  - destruct l as [|b l].
    + split; [discriminate|]. intros [r Hr]. discriminate.
    + cbn [prefixb]. rewrite andb_true_iff, Ascii.eqb_eq, IH. split.
      * intros [Hab [r Hr]]. subst. exists r. reflexivity.
      * intros [r Hr]. injection Hr as Hab Hr. subst. split; [reflexivity|exists r; reflexivity].
Qed.

Lemma is_auto_name_spec s : is_auto_name s = true <-> numeric_name s.
Proof.
  unfold is_auto_name, numeric_name. rewrite is_auto_chars_eq.
  change (chars "chr") with chr3.
  destruct (prefixb chr3 (chars s)) eqn:P.
  - apply prefixb_chr3 in P. destruct P as [r Hr]. rewrite Hr. change (skipn 3 (chr3 ++ r)) with r.
    rewrite all_digits_spec. split.
    + intros [Hn Hd]. exists r. repeat split; auto.
    + intros [ds [Hn [Hd [E|E]]]].
      * exfalso. rewrite <- E in Hd. inversion Hd as [|? ? Hc _]. discriminate Hc.
      * apply app_inv_head in E. subst. split; assumption.
  - rewrite all_digits_spec. split.
    + intros [Hn Hd]. exists (chars s). repeat split; auto.
    + intros [ds [Hn [Hd [E|E]]]].
      * rewrite E. split; assumption.
      * exfalso. assert (K : prefixb chr3 (chars s) = true) by (apply prefixb_chr3; exists ds; exact E). congruence.
Qed.

(* no numerically named chromosome among the (usable) rows: every (usable) row is used *)
Lemma autosomes_none t build :
  (forall b, In b t -> is_auto_name (b_chrom b) = false) -> autosomes t build = t.
Proof.
  intros H. unfold autosomes.
  assert (E : existsb is_auto_bin t = false).
  { apply not_true_is_false. intro K. apply existsb_exists in K. destruct K as [b [Hb K]].
    unfold is_auto_bin in K. rewrite (H b Hb) in K. discriminate. }
  rewrite E. reflexivity.
Qed.

Lemma drop_low_In t b : In b (drop_low t) -> In b t.
Proof. unfold drop_low. intros H. apply filter_In in H. tauto. Qed.

Lemma center_selection_none skip_low build t :
  (forall b, In b t -> ~ numeric_name (b_chrom b)) ->
  center_selection skip_low build t = if skip_low then drop_low t else t.
Proof.
  intros H. unfold center_selection. apply autosomes_none. intros b Hb.
  apply not_true_is_false. intro K. apply is_auto_name_spec in K.
  apply (H b); [|exact K]. destruct skip_low; [apply drop_low_In|]; exact Hb.
Qed.

(* some numerically named chromosome: exactly the numerically named rows, plus PAR-X with a build *)
Lemma autosomes_some t build :
  (exists b, In b t /\ is_auto_name (b_chrom b) = true) ->
  autosomes t build = filter (fun b => is_auto_name (b_chrom b) ||
                                       match build with Some p => parx_filter t p b | None => false end) t.
Proof.
  intros [b [Hb K]]. unfold autosomes.
  assert (E : existsb is_auto_bin t = true) by (apply existsb_exists; exists b; split; assumption).
  rewrite E. reflexivity.
Qed.

(* the selection keeps the table's row order and takes rows of the table only *)
Lemma center_selection_incl skip_low build t b : In b (center_selection skip_low build t) -> In b t.
Proof.
  unfold center_selection, autosomes. intros H.
  assert (K : In b (if skip_low then drop_low t else t)).
  { destruct (existsb is_auto_bin (if skip_low then drop_low t else t)); [|exact H].
    apply filter_In in H. tauto. }
  destruct skip_low; [apply drop_low_In|]; exact K.
Qed.

Lemma center_selection_not_low build t b : In b (center_selection true build t) -> null_coverage_b b = false.
Proof.
  unfold center_selection, autosomes. intros H.
  assert (K : In b (drop_low t)).
  { destruct (existsb is_auto_bin (drop_low t)); [|exact H]. apply filter_In in H. tauto. }
  unfold drop_low in K. apply filter_In in K. destruct K as [_ K]. rewrite is_low_spec in K.
  apply negb_true_iff. exact K.
Qed.

(* ---- the statements Props/C15.v exports ---------------------------------------------------------- *)
Lemma center_zero_named kde e : e <> EMode -> forall by_chrom skip_low build t s,
  center_shift (est_fun kde e) by_chrom skip_low build t = Some s ->
  center_stat (est_fun kde e) by_chrom
    (autosomes (kept_rows skip_low t (center_all (est_fun kde e) by_chrom skip_low build t)) build) == 0.
Proof.
  intros He by_chrom skip_low build t s. apply center_zero. apply est_fun_te_no_oracle. exact He.
Qed.

Lemma center_zero_mode kde : kde_contract kde -> forall by_chrom skip_low build t s,
  center_shift (mode_of kde) by_chrom skip_low build t = Some s ->
  center_stat (mode_of kde) by_chrom
    (autosomes (kept_rows skip_low t (center_all (mode_of kde) by_chrom skip_low build t)) build) == 0.
Proof. intros Hk by_chrom skip_low build t s. apply center_zero. apply mode_te. exact Hk. Qed.

Lemma center_zero_any est : translation_equivariant est -> forall by_chrom skip_low build t s,
  center_shift est by_chrom skip_low build t = Some s ->
  center_stat est by_chrom (autosomes (kept_rows skip_low t (center_all est by_chrom skip_low build t)) build) == 0.
Proof. intros H by_chrom skip_low build t s. apply center_zero. exact H. Qed.

Lemma is_low_iff b : is_low b = true <-> null_coverage b.
Proof. rewrite is_low_spec. apply null_coverage_b_iff. Qed.

Lemma center_selection_skips_low build t b :
  In b (center_selection true build t) -> In b t /\ ~ null_coverage b.
Proof.
  intros H. split; [apply (center_selection_incl true build t b H)|].
  intro K. apply null_coverage_b_iff in K. rewrite (center_selection_not_low build t b H) in K. discriminate.
Qed.
