(* C18 loop tie of vcfio._parse_records:

       cnt_reject = 0
       for record in records:
           if (skip_reject and record.filter and len(record.filter) > 0
                   and len(set(record.filter) - {".", "PASS", "KEEP"})):
               cnt_reject += 1
               continue
           if record.samples: ... try: depth, zygosity, alt_count = _extract_genotype(sample, record) ...
           else: ... INFO DP / AF ...
           is_som = "SOMATIC" in record.info and bool(record.info.get("SOMATIC"))
           start = record.start
           if record.alts:
               for alt in record.alts:
                   if alt == "<NON_REF>":
                       continue
                   end = _get_end(start, alt, record.info)
                   row = (record.chrom, start, end, record.ref, alt, is_som, zygosity, depth, alt_count)
                   if normal_id:
                       row += (n_zygosity, n_depth, n_alt_count)
                   yield row

   Gen/FnVcfRecords.v, regenerated from the Python source on every run, holds
     fn_parse_step : ONE ITERATION of the outer loop -- cnt_reject after it and the rows it yields; the
                     genotype block (a try statement; tied through Proofs/FnVcfGenotype.v) and the inner
                     loop are opaque ranges whose declared effects are parameters;
     fn_alt_step   : ONE ITERATION of the inner loop -- the <NON_REF> skip; the row tuple is an opaque
                     range yielding the row's id;
     fn_info_geno  : the genotype columns of a record WITHOUT samples (INFO DP, INFO AF) as a fragment.
   Here: the steps iterated ARE Model/Vcf.v all_rows / real_alts / geno_info. *)
From CNV Require Import Base.Prelude Base.Str Base.QNum Gen.VcfDefaults Gen.FnVcfRecords Model.Vcf Proofs.FnVcfGenotype.

Local Open Scope Z_scope.

Definition is_nil {B} (l : list B) : bool := match l with [] => true | _ => false end.

(* ---- the inner loop ---------------------------------------------------------------------------- *)

Lemma source_alt_step alt s e (id : Z) :
  fn_alt_step alt s e id = if String.eqb alt VcfDefaults.non_ref_alt then [] else [id].
Proof. unfold fn_alt_step. change VcfDefaults.non_ref_alt with "<NON_REF>"%string.
  destruct (String.eqb alt "<NON_REF>"); reflexivity. Qed.

(* the alleles that get a row: the generated step run over record.alts *)
Theorem source_real_alts r s e :
  real_alts r = flat_map (fun alt => map (fun _ => alt) (fn_alt_step alt s (e alt) 0)) (r_alts r).
Proof.
  unfold real_alts. induction (r_alts r) as [|a t IH]; [reflexivity|].
  cbn [filter flat_map]. rewrite source_alt_step, IH.
  destruct (String.eqb a VcfDefaults.non_ref_alt); reflexivity.
Qed.

(* ---- a record without samples ------------------------------------------------------------------ *)

Theorem source_info_geno r af :
  let '(d, z, a) := fn_info_geno (is_some (r_info_dp r)) (inject_Z (fillZ (r_info_dp r))) false af in
  d = inject_Z (g_depth (geno_info r)) /\ z = g_zyg (geno_info r) /\ a = g_count (geno_info r).
Proof.
  unfold fn_info_geno, geno_info. cbn [g_depth g_zyg g_count].
  destruct (r_info_dp r); repeat split; reflexivity.
Qed.

(* with an AF field (not produced by the model's inputs): count = round(AF * depth), zygosity by 0.25 / 0.75 *)
Lemma source_info_geno_af dp af :
  let '(_, z, a) := fn_info_geno true dp true af in
  a = round_half_even (af * dp)%Q /\
  z = (if negb (Qle_bool (1 # 4) af) then 0%Q else if negb (Qle_bool (3 # 4) af) then (1 # 2)%Q else 1%Q).
Proof.
  unfold fn_info_geno. split; [reflexivity|].
  destruct (negb (Qle_bool (1 # 4) af)); [reflexivity|]. destruct (negb (Qle_bool (3 # 4) af)); reflexivity.
Qed.

(* ---- the outer loop ---------------------------------------------------------------------------- *)

Section Parse.
(* len(set(record.filter) - {".", "PASS", "KEEP"}): an opaque input; all that is used of it is whether it is 0 *)
Variable n_bad : vrec -> Z.
Hypothesis n_bad_spec : forall r, n_bad r <> 0 <-> rejected r = true.

Definition step_on (cnt : Z) (skip_reject : bool) (r : vrec) (rows : list Z) : Z * list Z :=
  fn_parse_step cnt skip_reject (negb (is_nil (r_filter r))) (Z.of_nat (length (r_filter r))) (n_bad r)
                (r_somatic r) true (r_pos r - 1) (negb (is_nil (r_alts r))) rows 0.

Lemma source_parse_step cnt skip_reject r rows :
  step_on cnt skip_reject r rows
  = if skip_reject && rejected r then (cnt + 1, [])
    else (cnt, if is_nil (r_alts r) then [] else rows).
Proof.
  unfold step_on, fn_parse_step.
  assert (B := n_bad_spec r).
  destruct (rejected r) eqn:R.
  - assert (N : n_bad r <> 0) by (apply B; reflexivity).
    unfold rejected in R. destruct (r_filter r) as [|f t]; [discriminate|].
    cbn [is_nil negb length]. destruct (Z.ltb_spec 0 (Z.of_nat (S (length t)))); [|lia].
    destruct (Z.eqb_spec (n_bad r) 0); [contradiction|].
    destruct skip_reject; cbn [andb negb]; [reflexivity|].
    destruct (is_nil (r_alts r)); reflexivity.
  - assert (N : n_bad r = 0).
    { destruct (Z.eq_dec (n_bad r) 0) as [E|E]; [exact E|]. apply B in E. discriminate. }
    rewrite N. cbn [Z.eqb negb]. rewrite !andb_false_r.
    destruct (is_nil (r_alts r)); reflexivity.
Qed.

(* Python's generator over the step: a rejected record is skipped before its genotypes are read; otherwise the
   genotype block runs (record_rows = None: it raised) and the rows are those the step lets through *)
Fixpoint py_all_rows (sidx nidx : option nat) (skip_reject : bool) (cnt : Z) (recs : list vrec)
  : option (list vrow) * Z :=
  match recs with
  | [] => (Some [], cnt)
  | r :: t =>
      let '(cnt', ys) := step_on cnt skip_reject r [0] in
      let rest := py_all_rows sidx nidx skip_reject cnt' t in
      if cnt' =? cnt then
        (match record_rows sidx nidx r, fst rest with
         | Some a, Some b => Some (flat_map (fun _ => a) ys ++ b)
         | _, _ => None
         end, snd rest)
      else rest
  end.

Lemma record_rows_no_alts sidx nidx r a :
  record_rows sidx nidx r = Some a -> r_alts r = [] -> a = [].
Proof.
  intros H E. unfold record_rows in H.
  assert (R : forall t n, rows_of r t n = []) by (intros; unfold rows_of, real_alts; rewrite E; reflexivity).
  destruct sidx as [i|]; [|rewrite R in H; congruence].
  destruct (nth_error (r_calls r) i); [|discriminate].
  destruct nidx as [j|]; [|rewrite R in H; congruence].
  destruct (nth_error (r_calls r) j); [|discriminate]. rewrite R in H. congruence.
Qed.

Theorem source_parse_records sidx nidx skip_reject recs : forall cnt,
  fst (py_all_rows sidx nidx skip_reject cnt recs) = all_rows sidx nidx skip_reject recs.
Proof.
  induction recs as [|r t IH]; intro cnt; [reflexivity|].
  cbn [py_all_rows all_rows]. rewrite source_parse_step.
  destruct (skip_reject && rejected r).
  - destruct (Z.eqb_spec (cnt + 1) cnt); [lia|]. apply IH.
  - rewrite Z.eqb_refl. cbn [fst]. rewrite IH.
    destruct (record_rows sidx nidx r) as [a|] eqn:RR; [|reflexivity].
    destruct (all_rows sidx nidx skip_reject t); [|reflexivity].
    destruct (r_alts r) as [|x0 xs0] eqn:E; cbn [is_nil flat_map].
    + rewrite (record_rows_no_alts _ _ _ _ RR E). reflexivity.
    + rewrite app_nil_r. reflexivity.
Qed.

(* the counter logged at the end: the number of rejected records *)
Theorem source_parse_count sidx nidx skip_reject recs : forall cnt,
  snd (py_all_rows sidx nidx skip_reject cnt recs)
  = cnt + Z.of_nat (length (filter (fun r => skip_reject && rejected r) recs)).
Proof.
  induction recs as [|r t IH]; intro cnt; [cbn; lia|].
  cbn [py_all_rows filter]. rewrite source_parse_step.
  destruct (skip_reject && rejected r).
  - destruct (Z.eqb_spec (cnt + 1) cnt); [lia|]. rewrite IH. cbn [length]. lia.
  - rewrite Z.eqb_refl. cbn [snd]. apply IH.
Qed.

End Parse.
