(* C19 -- the weighted median of STRICTLY POSITIVE weights is a function of the multiset of
   (value, weight) pairs, away from near-ties: [wm_determined] (Spec/Stats.v) has at most one
   solution, and the package's search returns it on every arrangement sorted by value.
   Consequences: invariance under the arrangement of equal values, equivariance under every
   rescaling (also negative), and the weighted MAD's shift / rescaling laws.  With a zero
   weight on the tie all of this fails (C19_wmedian_perm_refuted, wmad_scale_neg_refuted). *)
From CNV Require Import Base.Prelude Base.QNum Proofs.QNumLemmas Gen.DescDefaults
  Model.Descriptives Spec.Stats Proofs.DescriptivesWMedian Proofs.DescriptivesWMedianTop
  Proofs.DescriptivesShift Proofs.DescriptivesScale Proofs.DescriptivesMore.
From Coq Require Import Qabs Qround Psatz Setoid Morphisms.
Local Open Scope Q_scope.

Lemma pos_nonneg ps : pos_weights ps -> nonneg_weights ps.
Proof. intros H p Hp. apply Qlt_le_weak, H, Hp. Qed.

Lemma pos_cons p t : pos_weights (p :: t) -> 0 < snd p /\ pos_weights t.
Proof. intro H; split; [apply H; now left|intros q Hq; apply H; now right]. Qed.

Lemma wtotal_pos ps : pos_weights ps -> ps <> [] -> 0 < wtotal ps.
Proof.
  intros H N. destruct ps as [|p t]; [congruence|]. apply pos_cons in H as [H1 H2].
  rewrite wtotal_cons. pose proof (wtotal_nonneg _ (pos_nonneg _ H2)). lra.
Qed.

(* ========================================================================== *)
(** * Weight counting *)

Lemma wabove_all m ps : (forall p, In p ps -> m < fst p) -> wabove m ps == wtotal ps.
Proof.
  induction ps as [|p t IH]; intro H; [reflexivity|].
  rewrite wabove_cons, wtotal_cons, IH by (intros; apply H; now right).
  assert (E : qlt_b m (fst p) = true) by (apply qlt_b_iff, H; now left). rewrite E. reflexivity.
Qed.

Lemma wabove_anti m m' ps : m <= m' -> nonneg_weights ps -> wabove m' ps <= wabove m ps.
Proof.
  intros Hm. induction ps as [|p t IH]; intro H; [unfold wabove; cbn; lra|].
  apply nonneg_cons in H as [H1 H2]. rewrite !wabove_cons. specialize (IH H2).
  destruct (qlt_b m' (fst p)) eqn:A, (qlt_b m (fst p)) eqn:B; try lra.
  apply qlt_b_iff in A. apply qlt_b_false in B. lra.
Qed.

Lemma wbelow_mono m m' ps : m <= m' -> nonneg_weights ps -> wbelow m ps <= wbelow m' ps.
Proof.
  intros Hm. induction ps as [|p t IH]; intro H; [unfold wbelow; cbn; lra|].
  apply nonneg_cons in H as [H1 H2]. rewrite !wbelow_cons. specialize (IH H2).
  destruct (qlt_b (fst p) m) eqn:A, (qlt_b (fst p) m') eqn:B; try lra.
  apply qlt_b_iff in A. apply qlt_b_false in B. lra.
Qed.

(* every pair is below v' or above v when v < v' *)
Lemma wcover v v' ps : v < v' -> nonneg_weights ps -> wtotal ps <= wbelow v' ps + wabove v ps.
Proof.
  intros Hv. induction ps as [|p t IH]; intro H; [unfold wtotal, wbelow, wabove; cbn; lra|].
  apply nonneg_cons in H as [H1 H2]. rewrite wtotal_cons, wbelow_cons, wabove_cons. specialize (IH H2).
  destruct (qlt_b (fst p) v') eqn:A, (qlt_b v (fst p)) eqn:B; try lra.
  apply qlt_b_false in A. apply qlt_b_false in B. lra.
Qed.

(* ... and a pair strictly between them is counted twice *)
Lemma wcover_mid v v' ps p : v < fst p -> fst p < v' -> In p ps -> nonneg_weights ps ->
  wtotal ps + snd p <= wbelow v' ps + wabove v ps.
Proof.
  intros Hv Hv'. induction ps as [|a t IH]; intros Hin H; [destruct Hin|].
  apply nonneg_cons in H as [H1 H2]. rewrite wtotal_cons, wbelow_cons, wabove_cons.
  destruct Hin as [->|Hin].
  - assert (A : qlt_b (fst p) v' = true) by now apply qlt_b_iff.
    assert (B : qlt_b v (fst p) = true) by now apply qlt_b_iff.
    rewrite A, B. pose proof (wcover v v' t ltac:(lra) H2). lra.
  - specialize (IH Hin H2).
    destruct (qlt_b (fst a) v') eqn:A, (qlt_b v (fst a)) eqn:B; try lra.
    apply qlt_b_false in A. apply qlt_b_false in B. lra.
Qed.

Lemma wabove_step u u' ps p : u < u' -> fst p == u' -> In p ps -> nonneg_weights ps ->
  wabove u' ps + snd p <= wabove u ps.
Proof.
  intros Hu Hp. induction ps as [|a t IH]; intros Hin H; [destruct Hin|].
  apply nonneg_cons in H as [H1 H2]. rewrite !wabove_cons.
  destruct Hin as [->|Hin].
  - assert (A : qlt_b u' (fst p) = false) by (apply qlt_b_false; lra).
    assert (B : qlt_b u (fst p) = true) by (apply qlt_b_iff; lra).
    rewrite A, B. pose proof (wabove_anti u u' t ltac:(lra) H2). lra.
  - specialize (IH Hin H2).
    destruct (qlt_b u' (fst a)) eqn:A, (qlt_b u (fst a)) eqn:B; try lra.
    apply qlt_b_iff in A. apply qlt_b_false in B. lra.
Qed.

Lemma wbelow_step u u' ps p : u < u' -> fst p == u -> In p ps -> nonneg_weights ps ->
  wbelow u ps + snd p <= wbelow u' ps.
Proof.
  intros Hu Hp. induction ps as [|a t IH]; intros Hin H; [destruct Hin|].
  apply nonneg_cons in H as [H1 H2]. rewrite !wbelow_cons.
  destruct Hin as [->|Hin].
  - assert (A : qlt_b (fst p) u = false) by (apply qlt_b_false; lra).
    assert (B : qlt_b (fst p) u' = true) by (apply qlt_b_iff; lra).
    rewrite A, B. pose proof (wbelow_mono u u' t ltac:(lra) H2). lra.
  - specialize (IH Hin H2).
    destruct (qlt_b (fst a) u) eqn:A, (qlt_b (fst a) u') eqn:B; try lra.
    apply qlt_b_iff in A. apply qlt_b_false in B. lra.
Qed.

(* ========================================================================== *)
(** * At most one solution *)

Theorem wm_determined_unique ps m m' :
  pos_weights ps -> wm_determined m ps -> wm_determined m' ps -> m == m'.
Proof.
  intros Hpos D D'. pose proof (pos_nonneg _ Hpos) as Hnn.
  set (h := wtotal ps / 2) in *. assert (HW : wtotal ps == 2 * h) by (unfold h; field).
  assert (SS : forall a b, wm_strict a ps -> wm_strict b ps -> a < b -> False).
  { intros a b (p & Hp & Ea & Ba & Aa) (q & Hq & Eb & Bb & Ab) L. fold h in Ba, Aa, Bb, Ab.
    pose proof (wcover a b ps L Hnn). lra. }
  assert (SP : forall a b, wm_strict a ps -> wm_split b ps -> False).
  { intros a b (p & Hp & Ea & Ba & Aa) (u & u2 & Hu & Hu2 & Lu & Eb & Bu2 & Au). fold h in Ba, Aa, Bu2, Au.
    destruct (Qlt_le_dec (fst u) a) as [L1|L1].
    - destruct (Qlt_le_dec a (fst u2)) as [L2|L2].
      + pose proof (wcover_mid (fst u) (fst u2) ps p ltac:(lra) ltac:(lra) Hp Hnn).
        pose proof (Hpos p Hp). lra.
      + pose proof (wbelow_mono (fst u2) a ps L2 Hnn). lra.
    - pose proof (wabove_anti a (fst u) ps L1 Hnn). lra. }
  assert (PP : forall a b, wm_split a ps -> wm_split b ps -> a == b).
  { intros a b (u & u2 & Hu & Hu2 & Lu & Ea & Bu2 & Au) (v & v2 & Hv & Hv2 & Lv & Eb & Bv2 & Av).
    fold h in Bu2, Au, Bv2, Av.
    assert (E1 : fst u == fst v).
    { destruct (Q_dec (fst u) (fst v)) as [[L|L]|E]; [| |exact E]; exfalso.
      - pose proof (wabove_step (fst u) (fst v) ps v L (Qeq_refl _) Hv Hnn). pose proof (Hpos v Hv). lra.
      - pose proof (wabove_step (fst v) (fst u) ps u L (Qeq_refl _) Hu Hnn). pose proof (Hpos u Hu). lra. }
    assert (E2 : fst u2 == fst v2).
    { destruct (Q_dec (fst u2) (fst v2)) as [[L|L]|E]; [| |exact E]; exfalso.
      - pose proof (wbelow_step (fst u2) (fst v2) ps u2 L (Qeq_refl _) Hu2 Hnn). pose proof (Hpos u2 Hu2). lra.
      - pose proof (wbelow_step (fst v2) (fst u2) ps v2 L (Qeq_refl _) Hv2 Hnn). pose proof (Hpos v2 Hv2). lra. }
    rewrite Ea, Eb, E1, E2. reflexivity. }
  destruct D as [S|P], D' as [S'|P'].
  - destruct (Q_dec m m') as [[L|L]|E]; [exfalso; exact (SS m m' S S' L)|exfalso; exact (SS m' m S' S L)|exact E].
  - exfalso; exact (SP m m' S P').
  - exfalso; exact (SP m' m S' P).
  - now apply PP.
Qed.

Lemma wm_determined_perm m ps ps' : Permutation ps ps' -> wm_determined m ps -> wm_determined m ps'.
Proof.
  intros P [(p & Hp & E & B & A)|(p & q & Hp & Hq & L & E & B & A)].
  - left. exists p. rewrite <- (wbelow_perm _ _ _ P), <- (wabove_perm _ _ _ P), <- (wtotal_perm _ _ P).
    repeat split; auto. eapply Permutation_in; eauto.
  - right. exists p, q. rewrite <- (wbelow_perm _ _ _ P), <- (wabove_perm _ _ _ P), <- (wtotal_perm _ _ P).
    repeat split; auto; eapply Permutation_in; eauto.
Qed.

(* ========================================================================== *)
(** * The search finds it *)

Lemma walk_pos mid tol : 0 <= tol -> forall cur acc,
  psorted cur -> pos_weights cur -> cur <> [] ->
  2 * mid == acc + wtotal cur -> 0 <= acc -> acc < mid ->
  (forall c, In c (qcumsum_from acc (map snd cur)) -> Qabs (c - mid) <= tol -> c == mid) ->
  (exists p, In p cur /\ wmed_walk mid tol acc cur == fst p /\
             acc + wbelow (wmed_walk mid tol acc cur) cur < mid /\ wabove (wmed_walk mid tol acc cur) cur < mid) \/
  (exists p q, In p cur /\ In q cur /\ fst p < fst q /\ wmed_walk mid tol acc cur == (fst p + fst q) / 2 /\
               acc + wbelow (fst q) cur == mid /\ wabove (fst p) cur == mid).
Proof.
  intros Htol cur.
  induction cur as [|[v w] rest IH]; intros acc Hsort Hpos Hne Hmid Hacc0 Hacc Hguard; [congruence|].
  cbn [wmed_walk].
  assert (Hc : qadd acc w == acc + w) by apply qadd_spec.
  apply pos_cons in Hpos as [Hw Hpos']. cbn [snd] in Hw.
  pose proof (pos_nonneg _ Hpos') as Hnn'.
  apply StronglySorted_inv in Hsort as [Hsort Hall]. rewrite Forall_forall in Hall. cbn [fst] in Hall.
  rewrite wtotal_cons in Hmid. cbn [snd] in Hmid.
  assert (Hfirst : In (qadd acc w) (qcumsum_from acc (map snd ((v, w) :: rest)))).
  { cbn [map snd qcumsum_from]. left. reflexivity. }
  assert (Evv : qlt_b v v = false) by (apply qlt_b_false; lra).
  destruct (qle_b (qsub mid tol) (qadd acc w)) eqn:E.
  - apply qle_b_iff in E. rewrite qsub_spec, Hc in E.
    destruct rest as [|[v2 w2] rest'].
    + (* the last pair *)
      unfold wtotal in Hmid; cbn [map sumQ] in Hmid.
      left. exists (v, w). split; [now left|]. split; [reflexivity|].
      rewrite wbelow_cons, wabove_cons. cbn [fst snd]. rewrite Evv.
      unfold wbelow, wabove; cbn [filter map sumQ]. split; lra.
    + assert (Hv2 : v <= v2) by (apply (Hall (v2, w2)); now left).
      assert (Hrest_ge : forall p, In p ((v2, w2) :: rest') -> v2 <= fst p).
      { intros p [<-|Hp]; [cbn; lra|]. apply StronglySorted_inv in Hsort as [_ Hall2].
        rewrite Forall_forall in Hall2. now apply Hall2. }
      assert (Hw2 : 0 < w2) by (apply (Hpos' (v2, w2)); now left).
      pose proof (wtotal_nonneg _ Hnn') as Hrest0.
      assert (B0 : wbelow v ((v, w) :: (v2, w2) :: rest') == 0).
      { apply wbelow_zero. intros p [<-|Hp]; [cbn; lra|]. specialize (Hrest_ge p Hp). lra. }
      assert (A0 : wabove v ((v, w) :: (v2, w2) :: rest') == wabove v ((v2, w2) :: rest')).
      { rewrite wabove_cons. cbn [fst snd]. rewrite Evv. ring. }
      destruct (qle_b (qabs (qsub (qadd acc w) mid)) tol) eqn:T.
      * (* the running sum is the half *)
        apply qle_b_iff in T. unfold qabs in T. rewrite qsub_spec in T.
        pose proof (Hguard _ Hfirst T) as G. rewrite Hc in G.
        set (m := qdiv (qadd v v2) 2).
        assert (Hm : m == (v + v2) * (1 # 2)).
        { unfold m. rewrite qdiv_spec, qadd_spec. field. }
        destruct (Qlt_le_dec v v2) as [Lt|Ge].
        -- right. exists (v, w), (v2, w2). cbn [fst].
           split; [now left|]. split; [right; now left|]. split; [exact Lt|].
           split; [rewrite Hm; field|]. split.
           ++ rewrite wbelow_cons. cbn [fst snd].
              assert (E1 : qlt_b v v2 = true) by now apply qlt_b_iff. rewrite E1.
              rewrite (wbelow_zero v2 ((v2, w2) :: rest')) by (intros p Hp; now apply Hrest_ge). lra.
           ++ rewrite A0, wabove_all; [lra|]. intros p Hp. specialize (Hrest_ge p Hp). lra.
        -- left. exists (v, w). cbn [fst]. split; [now left|].
           assert (Emv : m == v) by (rewrite Hm; lra).
           split; [exact Emv|].
           rewrite (wbelow_wd _ _ _ Emv), (wabove_wd _ _ _ Emv), B0, A0.
           pose proof (wabove_le_without v ((v2, w2) :: rest') (v2, w2) Hnn' ltac:(now left) Ge) as WA.
           cbn [snd] in WA. split; lra.
      * (* the first running sum beyond the half *)
        apply qle_b_false in T. unfold qabs in T.
        assert (Hbeyond : tol < acc + w - mid).
        { apply Qnot_le_lt. intro H. apply (Qlt_not_le _ _ T).
          rewrite qsub_spec, Hc. apply Qabs_Qle_condition. split; lra. }
        pose proof (wabove_bounds v _ Hnn') as A1.
        left. exists (v, w). cbn [fst]. split; [now left|]. split; [reflexivity|].
        rewrite B0, A0. split; lra.
  - (* not yet at the half *)
    apply qle_b_false in E. rewrite qsub_spec, Hc in E.
    assert (Hne' : rest <> []).
    { intro R; subst rest. unfold wtotal in Hmid; cbn [map sumQ] in Hmid. lra. }
    assert (Hguard' : forall c, In c (qcumsum_from (qadd acc w) (map snd rest)) -> Qabs (c - mid) <= tol -> c == mid).
    { intros c Hcin. apply Hguard. cbn [map snd qcumsum_from]. right. exact Hcin. }
    assert (Hmid' : 2 * mid == qadd acc w + wtotal rest) by (rewrite Hc; lra).
    assert (Hacc0' : 0 <= qadd acc w) by (rewrite Hc; lra).
    assert (Hacc' : qadd acc w < mid) by (rewrite Hc; lra).
    destruct (IH (qadd acc w) Hsort Hpos' Hne' Hmid' Hacc0' Hacc' Hguard')
      as [(p & Hp & Em & IA & IB)|(p & q & Hp & Hq & Lt & Em & IA & IB)].
    + set (m := wmed_walk mid tol (qadd acc w) rest) in *.
      assert (Hvm : v <= m) by (specialize (Hall p Hp); lra).
      left. exists p. split; [now right|]. split; [exact Em|].
      rewrite wbelow_cons, wabove_cons. cbn [fst snd].
      assert (E1 : qlt_b m v = false) by now apply qlt_b_false. rewrite E1.
      rewrite Hc in IA. split; [destruct (qlt_b v m); lra|lra].
    + right. exists p, q. split; [now right|]. split; [now right|]. split; [exact Lt|]. split; [exact Em|].
      rewrite wbelow_cons, wabove_cons. cbn [fst snd].
      assert (Hvp : v <= fst p) by (apply Hall; exact Hp).
      assert (E1 : qlt_b v (fst q) = true) by (apply qlt_b_iff; lra).
      assert (E2 : qlt_b (fst p) v = false) by (apply qlt_b_false; lra).
      rewrite E1, E2. rewrite Hc in IA. split; lra.
Qed.

Theorem wmedian_sorted_determined ps :
  psorted ps -> pos_weights ps -> ps <> [] -> wm_no_near_tie ps -> wm_determined (wmedian_sorted ps) ps.
Proof.
  intros Hsort Hpos Hne Hg. pose proof (pos_nonneg _ Hpos) as Hnn.
  pose proof (wtotal_pos _ Hpos Hne) as HW. unfold wmedian_sorted, wm_determined, wm_strict, wm_split.
  set (h := wtotal ps / 2) in *.
  assert (Hh : 2 * h == wtotal ps) by (unfold h; field).
  assert (Hmid : qmul WMEDIAN_HALF (qsum (map snd ps)) == h).
  { rewrite qmul_spec, qsum_map_snd. unfold WMEDIAN_HALF, h. field. }
  destruct (existsb _ ps) eqn:Ex.
  - apply existsb_exists in Ex as (p0 & Hp0 & Hlt). apply qlt_b_iff in Hlt. rewrite Hmid in Hlt.
    destruct ps as [|p t]; [congruence|].
    destruct (argmax_from_spec p t) as (I1 & I2 & I3).
    set (b := argmax_from p t) in *.
    assert (Hb : h < snd b).
    { destruct Hp0 as [<-|Hp0]; [lra|]. specialize (I3 _ Hp0). lra. }
    left. exists b. split; [exact I1|]. split; [reflexivity|].
    pose proof (wbelow_le_without (fst b) (p :: t) b Hnn I1 (Qle_refl _)).
    pose proof (wabove_le_without (fst b) (p :: t) b Hnn I1 (Qle_refl _)). split; lra.
  - set (mid := qmul WMEDIAN_HALF (qsum (map snd ps))) in *.
    assert (Hm2 : 2 * mid == 0 + wtotal ps) by (rewrite Hmid; lra).
    assert (Hgd : forall c, In c (qcumsum_from 0 (map snd ps)) -> Qabs (c - mid) <= wmed_tol ps -> c == mid).
    { intros c Hc Habs. rewrite Hmid. apply Hg; [exact Hc|]. fold h.
      setoid_replace (c - h) with (c - mid) by (rewrite Hmid; reflexivity). exact Habs. }
    destruct (walk_pos mid (wmed_tol ps) (wmed_tol_nonneg _ Hnn) ps 0 Hsort Hpos Hne Hm2 (Qle_refl 0)
                ltac:(rewrite Hmid; lra) Hgd)
      as [(p & Hp & Em & A & B)|(p & q & Hp & Hq & Lt & Em & A & B)].
    + left. exists p. repeat split; auto; lra.
    + right. exists p, q. repeat split; auto; lra.
Qed.

(* ========================================================================== *)
(** * Invariance under the arrangement of equal values *)

Theorem wmedian_perm_positive ps r r' :
  Permutation r ps -> Permutation r' ps -> sorted_by_value r -> sorted_by_value r' ->
  pos_weights ps -> ps <> [] -> wm_no_near_tie r -> wm_no_near_tie r' ->
  wmedian_sorted r == wmedian_sorted r'.
Proof.
  intros P P' S S' Hpos Hne G G'.
  assert (Hr : pos_weights r) by (intros p Hp; apply Hpos; exact (Permutation_in _ P Hp)).
  assert (Hr' : pos_weights r') by (intros p Hp; apply Hpos; exact (Permutation_in _ P' Hp)).
  assert (Nr : r <> []) by (intro E; apply Hne, Permutation_nil; rewrite <- E; exact P).
  assert (Nr' : r' <> []) by (intro E; apply Hne, Permutation_nil; rewrite <- E; exact P').
  apply (wm_determined_unique ps); [exact Hpos| |].
  - apply (wm_determined_perm _ r ps P). now apply wmedian_sorted_determined.
  - apply (wm_determined_perm _ r' ps P'). now apply wmedian_sorted_determined.
Qed.

(* ========================================================================== *)
(** * Rescaling the values *)

Lemma scale_values_In k ps p : In p ps -> In (k * fst p, snd p) (scale_values k ps).
Proof. intro H. unfold scale_values. apply in_map_iff. exists p. split; [reflexivity|exact H]. Qed.

Lemma wbelow_scale_pos k m ps : 0 < k -> wbelow (k * m) (scale_values k ps) == wbelow m ps.
Proof.
  intro K. induction ps as [|p t IH]; [reflexivity|]. unfold scale_values in *. cbn [map].
  rewrite !wbelow_cons, IH. cbn [fst snd].
  assert (B : qlt_b (k * fst p) (k * m) = qlt_b (fst p) m).
  { destruct (qlt_b (fst p) m) eqn:A; [apply qlt_b_iff in A; apply qlt_b_iff; nra|
                                         apply qlt_b_false in A; apply qlt_b_false; nra]. }
  rewrite B. reflexivity.
Qed.
Lemma wabove_scale_pos k m ps : 0 < k -> wabove (k * m) (scale_values k ps) == wabove m ps.
Proof.
  intro K. induction ps as [|p t IH]; [reflexivity|]. unfold scale_values in *. cbn [map].
  rewrite !wabove_cons, IH. cbn [fst snd].
  assert (B : qlt_b (k * m) (k * fst p) = qlt_b m (fst p)).
  { destruct (qlt_b m (fst p)) eqn:A; [apply qlt_b_iff in A; apply qlt_b_iff; nra|
                                         apply qlt_b_false in A; apply qlt_b_false; nra]. }
  rewrite B. reflexivity.
Qed.
Lemma wbelow_scale_neg k m ps : k < 0 -> wbelow (k * m) (scale_values k ps) == wabove m ps.
Proof.
  intro K. induction ps as [|p t IH]; [reflexivity|]. unfold scale_values in *. cbn [map].
  rewrite wbelow_cons, wabove_cons, IH. cbn [fst snd].
  assert (B : qlt_b (k * fst p) (k * m) = qlt_b m (fst p)).
  { destruct (qlt_b m (fst p)) eqn:A; [apply qlt_b_iff in A; apply qlt_b_iff; nra|
                                         apply qlt_b_false in A; apply qlt_b_false; nra]. }
  rewrite B. reflexivity.
Qed.
Lemma wabove_scale_neg k m ps : k < 0 -> wabove (k * m) (scale_values k ps) == wbelow m ps.
Proof.
  intro K. induction ps as [|p t IH]; [reflexivity|]. unfold scale_values in *. cbn [map].
  rewrite wbelow_cons, wabove_cons, IH. cbn [fst snd].
  assert (B : qlt_b (k * m) (k * fst p) = qlt_b (fst p) m).
  { destruct (qlt_b (fst p) m) eqn:A; [apply qlt_b_iff in A; apply qlt_b_iff; nra|
                                         apply qlt_b_false in A; apply qlt_b_false; nra]. }
  rewrite B. reflexivity.
Qed.

Lemma wm_determined_scale k m ps : ~ k == 0 -> wm_determined m ps -> wm_determined (k * m) (scale_values k ps).
Proof.
  intros K D. destruct (Q_dec k 0) as [[Kn|Kp]|E]; [| |contradiction].
  - destruct D as [(p & Hp & E & B & A)|(p & q & Hp & Hq & L & E & B & A)].
    + left. exists (k * fst p, snd p). cbn [fst].
      rewrite wbelow_scale_neg, wabove_scale_neg, wtotal_scale by exact Kn.
      repeat split; auto using scale_values_In. now rewrite E.
    + right. exists (k * fst q, snd q), (k * fst p, snd p). cbn [fst].
      rewrite wbelow_scale_neg, wabove_scale_neg, wtotal_scale by exact Kn.
      repeat split; auto using scale_values_In; [nra|]. rewrite E. field.
  - destruct D as [(p & Hp & E & B & A)|(p & q & Hp & Hq & L & E & B & A)].
    + left. exists (k * fst p, snd p). cbn [fst].
      rewrite wbelow_scale_pos, wabove_scale_pos, wtotal_scale by exact Kp.
      repeat split; auto using scale_values_In. now rewrite E.
    + right. exists (k * fst p, snd p), (k * fst q, snd q). cbn [fst].
      rewrite wbelow_scale_pos, wabove_scale_pos, wtotal_scale by exact Kp.
      repeat split; auto using scale_values_In; [nra|]. rewrite E. field.
Qed.

Lemma scale_values_pos k ps : pos_weights ps -> pos_weights (scale_values k ps).
Proof. intros H p Hp. unfold scale_values in Hp. apply in_map_iff in Hp as (q & <- & Hq). cbn [snd]. now apply H. Qed.

Lemma scale_values_nonnil k ps : ps <> [] -> scale_values k ps <> [].
Proof. destruct ps; [congruence|discriminate]. Qed.

(* the weighted median of the model's own arrangement, positive weights, no near-tie: the solution *)
Lemma psort_determined ps : pos_weights ps -> ps <> [] -> wm_no_near_tie (psort ps) ->
  wm_determined (wmedian_sorted (psort ps)) ps.
Proof.
  intros Hpos Hne G. apply (wm_determined_perm _ (psort ps) ps (psort_perm ps)).
  apply wmedian_sorted_determined; auto using psort_sorted, psort_nonnil.
  intros p Hp. apply Hpos. eapply Permutation_in; [apply psort_perm|exact Hp].
Qed.

(* equivariant under EVERY non-zero rescaling, negative ones included *)
Theorem wmedian_psort_scale k ps : ~ k == 0 -> pos_weights ps -> ps <> [] ->
  wm_no_near_tie (psort ps) -> wm_no_near_tie (psort (scale_values k ps)) ->
  wmedian_sorted (psort (scale_values k ps)) == k * wmedian_sorted (psort ps).
Proof.
  intros K Hpos Hne G G'. apply (wm_determined_unique (scale_values k ps)).
  - now apply scale_values_pos.
  - apply psort_determined; auto using scale_values_pos, scale_values_nonnil.
  - apply wm_determined_scale; [exact K|]. now apply psort_determined.
Qed.

(* ========================================================================== *)
(** * Pairs equal up to == *)

Definition pair_eq (p q : Q * Q) : Prop := fst p == fst q /\ snd p == snd q.
Notation pairs_eq := (Forall2 pair_eq).

Lemma pairs_eq_refl l : pairs_eq l l.
Proof. induction l; constructor; auto. split; reflexivity. Qed.

Lemma pairs_eq_length l l' : pairs_eq l l' -> length l = length l'.
Proof. induction 1; cbn; congruence. Qed.

Lemma pairs_eq_snd l l' : pairs_eq l l' -> eqQ (map snd l) (map snd l').
Proof. induction 1 as [|p q l l' [_ E] H IH]; cbn; constructor; auto. Qed.

Lemma pins_pe p p' l l' : pair_eq p p' -> pairs_eq l l' -> pairs_eq (pins p l) (pins p' l').
Proof.
  intros Hp H. induction H as [|q q' l l' Hq H IH]; cbn [pins]; [constructor; [exact Hp|constructor]|].
  assert (B : qle_b (fst p) (fst q) = qle_b (fst p') (fst q')).
  { destruct Hp as [Hp _], Hq as [Hq _]. unfold qle_b.
    destruct (Qle_bool (fst p) (fst q)) eqn:A, (Qle_bool (fst p') (fst q')) eqn:A'; auto.
    - apply Qle_bool_iff in A. rewrite Hp, Hq in A. apply Qle_bool_iff in A. congruence.
    - apply Qle_bool_iff in A'. rewrite <- Hp, <- Hq in A'. apply Qle_bool_iff in A'. congruence. }
  rewrite B. destruct (qle_b (fst p') (fst q')).
  - constructor; [exact Hp|]. constructor; assumption.
  - constructor; assumption.
Qed.

Lemma psort_pe l l' : pairs_eq l l' -> pairs_eq (psort l) (psort l').
Proof. induction 1 as [|p q l l' Hp H IH]; cbn [psort fold_right]; [constructor|]. now apply pins_pe. Qed.

Lemma qlt_b_wd2 a a' b b' : a == a' -> b == b' -> qlt_b a b = qlt_b a' b'.
Proof.
  intros Ha Hb. destruct (qlt_b a b) eqn:A, (qlt_b a' b') eqn:A'; auto.
  - apply qlt_b_iff in A. apply qlt_b_false in A'. rewrite Ha, Hb in A. lra.
  - apply qlt_b_iff in A'. apply qlt_b_false in A. rewrite Ha, Hb in A. lra.
Qed.
Lemma qle_b_wd2 a a' b b' : a == a' -> b == b' -> qle_b a b = qle_b a' b'.
Proof.
  intros Ha Hb. destruct (qle_b a b) eqn:A, (qle_b a' b') eqn:A'; auto.
  - apply qle_b_iff in A. apply qle_b_false in A'. rewrite Ha, Hb in A. lra.
  - apply qle_b_iff in A'. apply qle_b_false in A. rewrite Ha, Hb in A. lra.
Qed.

Lemma argmax_from_pe b b' l l' : pair_eq b b' -> pairs_eq l l' -> pair_eq (argmax_from b l) (argmax_from b' l').
Proof.
  intros Hb H. revert b b' Hb. induction H as [|p q l l' Hp H IH]; intros b b' Hb; cbn [argmax_from]; [exact Hb|].
  rewrite (qlt_b_wd2 (snd b) (snd b') (snd p) (snd q) (proj2 Hb) (proj2 Hp)).
  destruct (qlt_b (snd b') (snd q)); now apply IH.
Qed.

Lemma walk_pe mid mid' tol tol' : mid == mid' -> tol == tol' ->
  forall l l', pairs_eq l l' -> forall acc acc', acc == acc' ->
  wmed_walk mid tol acc l == wmed_walk mid' tol' acc' l'.
Proof.
  intros Hm Ht l l' H. induction H as [|[v w] [v' w'] l l' [Hv Hw] H IH]; intros acc acc' Ha; [reflexivity|].
  cbn [fst snd] in Hv, Hw. cbn [wmed_walk].
  assert (Hc : qadd acc w == qadd acc' w') by (rewrite !qadd_spec, Ha, Hw; reflexivity).
  rewrite (qle_b_wd2 (qsub mid tol) (qsub mid' tol') (qadd acc w) (qadd acc' w'))
    by (rewrite ?qsub_spec, ?Hm, ?Ht; auto; reflexivity).
  destruct (qle_b (qsub mid' tol') (qadd acc' w')).
  - destruct H as [|[v2 w2] [v2' w2'] r r' [Hv2 _] _]; [exact Hv|]. cbn [fst] in Hv2.
    assert (B : qle_b (qabs (qsub (qadd acc w) mid)) tol = qle_b (qabs (qsub (qadd acc' w') mid')) tol').
    { apply qle_b_wd2; [|exact Ht]. unfold qabs. apply Qabs_wd. rewrite !qsub_spec, Hc, Hm. reflexivity. }
    rewrite B. destruct (qle_b _ tol'); [|exact Hv].
    rewrite !qdiv_spec, !qadd_spec, Hv, Hv2. reflexivity.
  - now apply IH.
Qed.

Lemma existsb_heavy_pe a b l l' : a == b -> pairs_eq l l' ->
  existsb (fun p => qlt_b a (snd p)) l = existsb (fun p => qlt_b b (snd p)) l'.
Proof.
  intros Eab H. induction H as [|p q r r' Hp H IH]; cbn [existsb]; [reflexivity|].
  rewrite IH, (qlt_b_wd2 a b (snd p) (snd q) Eab (proj2 Hp)). reflexivity.
Qed.

Theorem wmedian_sorted_pe l l' : pairs_eq l l' -> wmedian_sorted l == wmedian_sorted l'.
Proof.
  intro H. unfold wmedian_sorted.
  assert (Es : qsum (map snd l) == qsum (map snd l')) by (apply qsum_eqQ, pairs_eq_snd, H).
  assert (Em : qmul WMEDIAN_HALF (qsum (map snd l)) == qmul WMEDIAN_HALF (qsum (map snd l')))
    by (rewrite !qmul_spec, Es; reflexivity).
  rewrite (existsb_heavy_pe _ _ l l' Em H). destruct (existsb _ l').
  - destruct H as [|p q r r' Hp H]; [reflexivity|]. apply (argmax_from_pe p q r r' Hp H).
  - apply walk_pe; [exact Em| |exact H|reflexivity].
    unfold wmed_tol. rewrite !qmul_spec, Es, (pairs_eq_length _ _ H). reflexivity.
Qed.

Lemma wm_running_pe l l' : pairs_eq l l' -> eqQ (wm_running l) (wm_running l').
Proof.
  intro H. unfold wm_running, qcumsum. apply pairs_eq_snd in H.
  assert (G : forall a b, a == b -> eqQ (qcumsum_from a (map snd l)) (qcumsum_from b (map snd l'))).
  { induction H as [|x y r r' E H IH]; intros a b Eab; cbn [qcumsum_from]; constructor.
    - rewrite !Qred_correct, Eab, E. reflexivity.
    - apply IH. rewrite !Qred_correct, Eab, E. reflexivity. }
  apply G. reflexivity.
Qed.

(* ========================================================================== *)
(** * Sorting commutes with order-preserving maps of the values *)

Lemma pins_map_values (f : Q -> Q) p l :
  (forall a b, qle_b (f a) (f b) = qle_b a b) ->
  pins (f (fst p), snd p) (map_values f l) = map_values f (pins p l).
Proof.
  intro Hf. induction l as [|q t IH]; [reflexivity|].
  cbn [map_values map pins fst]. fold (map_values f t). rewrite Hf.
  destruct (qle_b (fst p) (fst q)); [reflexivity|]. cbn [map_values map]. fold (map_values f (pins p t)).
  f_equal. exact IH.
Qed.

Lemma psort_map_values (f : Q -> Q) l :
  (forall a b, qle_b (f a) (f b) = qle_b a b) -> psort (map_values f l) = map_values f (psort l).
Proof.
  intro Hf. induction l as [|p t IH]; [reflexivity|].
  cbn [map_values map psort fold_right]. fold (map_values f t). fold (psort (map_values f t)). fold (psort t).
  rewrite IH. now apply pins_map_values.
Qed.

Lemma qle_b_shift c a b : qle_b (a + c) (b + c) = qle_b a b.
Proof.
  destruct (qle_b a b) eqn:A; [apply qle_b_iff in A; apply qle_b_iff; lra|
                                apply qle_b_false in A; apply qle_b_false; lra].
Qed.
Lemma qle_b_scale k a b : 0 < k -> qle_b (k * a) (k * b) = qle_b a b.
Proof.
  intro K. destruct (qle_b a b) eqn:A; [apply qle_b_iff in A; apply qle_b_iff; nra|
                                         apply qle_b_false in A; apply qle_b_false; nra].
Qed.

(* ========================================================================== *)
(** * Weighted MAD: unchanged by a shift, proportional under rescaling *)

(* the deviations of transformed data from a transformed centre *)
Lemma wmad_devs_rel (f g : Q -> Q) m m' ps :
  (forall x, Qabs (f x - m') == g (Qabs (x - m))) -> Proper (Qeq ==> Qeq) g ->
  pairs_eq (wmad_devs m' (map_values f ps)) (map_values g (wmad_devs m ps)).
Proof.
  intros Hg Pg. induction ps as [|p t IH]; cbn [wmad_devs map_values map]; [constructor|].
  constructor; [|exact IH]. split; cbn [fst snd]; [|reflexivity].
  unfold qabs. rewrite (Qabs_wd _ _ (qsub_spec (f (fst p)) m')), Hg.
  apply Pg. apply Qabs_wd. symmetry. apply qsub_spec.
Qed.

Lemma wmad_devs_nonnil m ps : ps <> [] -> wmad_devs m ps <> [].
Proof. destruct ps; [congruence|discriminate]. Qed.

Lemma wmad_scale_mul s k x : wmad_scale s (k * x) == k * wmad_scale s x.
Proof. unfold wmad_scale. destruct s; [rewrite !qmul_spec; ring|reflexivity]. Qed.

Lemma wmad_scale_wd s x y : x == y -> wmad_scale s x == wmad_scale s y.
Proof. intro E. unfold wmad_scale. destruct s; [rewrite !qmul_spec, E; reflexivity|exact E]. Qed.

(* if the transformed data's deviations from ITS weighted median are c times the original
   deviations (c > 0), the weighted MAD is multiplied by c *)
Lemma wmad_core_transfer c (f : Q -> Q) ps s : 0 < c -> ps <> [] -> nonneg_weights ps ->
  (forall x, Qabs (f x - wmedian_sorted (psort (map_values f ps))) == c * Qabs (x - wmedian_sorted (psort ps))) ->
  weighted_mad_core (map_values f ps) s == c * weighted_mad_core ps s.
Proof.
  intros C N H Hd. unfold weighted_mad_core.
  set (m := wmedian_sorted (psort ps)) in *. set (m' := wmedian_sorted (psort (map_values f ps))) in *.
  rewrite <- wmad_scale_mul. apply wmad_scale_wd.
  assert (Pg : Proper (Qeq ==> Qeq) (fun d => c * d)) by (intros a b E; now rewrite E).
  rewrite (wmedian_sorted_pe _ _ (psort_pe _ _ (wmad_devs_rel f (fun d => c * d) m m' ps Hd Pg))).
  rewrite (psort_map_values (fun d => c * d)) by (intros; now apply qle_b_scale).
  apply wmedian_sorted_scale.
  - apply psort_nonnil, wmad_devs_nonnil, N.
  - eapply nonneg_perm; [apply Permutation_sym, psort_perm|]. now apply wmad_devs_weights.
Qed.

Theorem weighted_mad_core_shift c ps s : ps <> [] -> nonneg_weights ps ->
  weighted_mad_core (shift_values c ps) s == weighted_mad_core ps s.
Proof.
  intros N H. change (shift_values c ps) with (map_values (fun x => x + c) ps).
  rewrite (wmad_core_transfer 1 (fun x => x + c) ps s ltac:(lra) N H); [ring|].
  intro x. rewrite (psort_map_values (fun x => x + c)) by (intros; apply qle_b_shift).
  rewrite wmedian_sorted_shift.
  - rewrite Qmult_1_l. apply Qabs_wd. ring.
  - now apply psort_nonnil.
  - eapply nonneg_perm; [apply Permutation_sym, psort_perm|exact H].
Qed.

Theorem weighted_mad_core_scale_nonneg k ps s : 0 <= k -> ps <> [] -> nonneg_weights ps ->
  weighted_mad_core (scale_values k ps) s == k * weighted_mad_core ps s.
Proof.
  intros K N H. destruct (Qlt_le_dec 0 k) as [Kp|K0].
  - change (scale_values k ps) with (map_values (fun x => k * x) ps).
    apply (wmad_core_transfer k (fun x => k * x) ps s Kp N H).
    intro x. rewrite (psort_map_values (fun x => k * x)) by (intros; now apply qle_b_scale).
    rewrite wmedian_sorted_scale.
    + setoid_replace (k * x - k * wmedian_sorted (psort ps)) with (k * (x - wmedian_sorted (psort ps))) by ring.
      rewrite Qabs_Qmult, (Qabs_pos k) by lra. reflexivity.
    + now apply psort_nonnil.
    + eapply nonneg_perm; [apply Permutation_sym, psort_perm|exact H].
  - assert (Ek : k == 0) by lra.
    rewrite (weighted_mad_core_const (scale_values k ps) s 0).
    + rewrite Ek. ring.
    + destruct ps; [congruence|discriminate].
    + intros p Hp. unfold scale_values in Hp. apply in_map_iff in Hp as (q & <- & Hq). cbn [snd]. now apply H.
    + intros p Hp. unfold scale_values in Hp. apply in_map_iff in Hp as (q & <- & Hq). cbn [fst]. rewrite Ek. ring.
Qed.

(* every factor, for strictly positive weights away from near-ties of the two weighted medians *)
Theorem weighted_mad_core_scale_positive k ps s : pos_weights ps -> ps <> [] ->
  wm_no_near_tie (psort ps) -> wm_no_near_tie (psort (scale_values k ps)) ->
  weighted_mad_core (scale_values k ps) s == Qabs k * weighted_mad_core ps s.
Proof.
  intros Hpos N G G'. pose proof (pos_nonneg _ Hpos) as H.
  destruct (Qlt_le_dec k 0) as [Kn|Kp].
  - rewrite Qabs_neg by lra.
    change (scale_values k ps) with (map_values (fun x => k * x) ps).
    apply (wmad_core_transfer (- k) (fun x => k * x) ps s ltac:(lra) N H).
    intro x. change (map_values (fun x => k * x) ps) with (scale_values k ps).
    rewrite (wmedian_psort_scale k ps ltac:(lra) Hpos N G G').
    setoid_replace (k * x - k * wmedian_sorted (psort ps)) with (k * (x - wmedian_sorted (psort ps))) by ring.
    rewrite Qabs_Qmult, (Qabs_neg k) by lra. reflexivity.
  - rewrite Qabs_pos by exact Kp. now apply weighted_mad_core_scale_nonneg.
Qed.

(* ... and it is NOT proportional under a negative factor when a zero weight sits on the tie
   (confirmed on the real code: weighted_mad([0,0,1,2],[2,0,2,0]) = 0.0,
   weighted_mad([0,0,-1,-2],[2,0,2,0]) = 0.7413) *)
Lemma wmad_scale_neg_refuted :
  exists ps, nonneg_weights ps /\ 0 < wtotal ps /\
             ~ weighted_mad_core (scale_values (-1) ps) false == Qabs (-1) * weighted_mad_core ps false.
Proof.
  exists [(0, 2); (0, 0); (1, 2); (2, 0)]. split; [|split].
  - intros p [<-|[<-|[<-|[<-|[]]]]]; unfold Qle; cbn; lia.
  - reflexivity.
  - vm_compute. discriminate.
Qed.
