(* C18 tie of intersect.into_ranges.series2value (the per-range step of baf_by_ranges and
   het_frac_by_ranges), translated as a whole function and regenerated from the Python source on every
   run as Gen/FnVarySeries.v:

       def series2value(ser):
           if len(ser) == 0:
               return default
           if len(ser) == 1:
               return ser.iat[0]
           return summary_func(ser)

   The three values it chooses between are opaque inputs (closure variables default / summary_func, the
   first element).  Here: Model/VBaf.v's per-range functions make the same choice -- s2v_gen f for any
   summary function, hence summary (np.nanmedian) and summary_majority (nanmedian o _mirrored_baf) --
   read through enc (a finite value is itself; +inf and NaN are both None, as in the translator's
   optional numbers). *)
From CNV Require Import Base.Prelude Base.Str Gen.FnVarySeries Model.Vcf Model.VBaf.

Local Open Scope Z_scope.

Definition enc (x : xq) : option Q := match x with Fin q => Some q | _ => None end.

(* for ANY encoding of the values: the choice is structural *)
Theorem source_series2value {A} (e : xq -> A) (f : list xq -> xq) (hits : list xq)
  (step : Z -> A -> A -> A -> A) :
  (forall n d x s, step n d x s = if n =? 0 then d else if n =? 1 then x else s) ->
  e (s2v_gen f hits)
  = step (Z.of_nat (length hits)) (e XNaN) (e (hd XNaN hits)) (e (f hits)).
Proof.
  intro H. rewrite H. destruct hits as [|x [|y t]]; try reflexivity.
  cbn [length]. destruct (Z.eqb_spec (Z.of_nat (S (S (length t)))) 0); [lia|].
  destruct (Z.eqb_spec (Z.of_nat (S (S (length t)))) 1); [lia|]. reflexivity.
Qed.

Lemma fn_series2value_unfold n d x s :
  fn_series2value n d x s = if n =? 0 then d else if n =? 1 then x else s.
Proof. reflexivity. Qed.

Theorem source_s2v_gen f hits :
  enc (s2v_gen f hits)
  = fn_series2value (Z.of_nat (length hits)) None (enc (hd XNaN hits)) (enc (f hits)).
Proof. exact (source_series2value enc f hits fn_series2value fn_series2value_unfold). Qed.

(* summary = s2v_gen nanmedian_x ; summary_majority = s2v_gen (nanmedian o mirror by majority) *)
Lemma summary_s2v hits : summary hits = s2v_gen nanmedian_x hits.
Proof. destruct hits as [|x [|y t]]; reflexivity. Qed.

Theorem source_summary hits :
  enc (summary hits)
  = fn_series2value (Z.of_nat (length hits)) None (enc (hd XNaN hits)) (enc (nanmedian_x hits)).
Proof. rewrite summary_s2v. apply source_s2v_gen. Qed.
