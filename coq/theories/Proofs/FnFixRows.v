(* C04 per-row ties of cnvlib/fix.py (regenerated from the Python source on every run):

     Gen/FnFixRows.v    fn_window_sub  center_by_window:  df["log2"] -= biases                       (per row)
                        fn_ref_sub     do_fix:            cnarr.data["log2"] -= ref_matched[log2_key] (per row)
     Gen/FnFixClassWt.v fn_store_tgt / fn_store_anti  apply_weights:
                            simple_wt = np.zeros(len(cnarr))
                            simple_wt[~is_anti] = tgt_simple_wts
                            simple_wt[is_anti] = anti_simple_wts                                      (per row)

   Here: Model/Fix.v's center_by_window and fix_pre apply exactly these subtractions to every row, and the
   model's per-bin weight is the generated weight arithmetic (Gen/FnFixWeights.v, C04_source_weights) applied to
   the value the two generated stores leave in simple_wt -- the off-target formula with the off-target variance
   and mean size for an Antitarget-named bin, the on-target one otherwise. *)
From Coq Require Import Qabs Lqa.
From CNV Require Import Base.Prelude Base.Str Base.QNum Model.Chromsort Gen.Params Gen.FixDefaults Gen.FnFixWeights Gen.FnFixRows
  Gen.FnFixClassWt Model.Fix Proofs.FnFix2.

Local Open Scope Q_scope.

(* ---- center_by_window ----------------------------------------------------------------------------------------- *)

Definition py_window_row (p : brow * Q) : brow :=
  bset_log2 (Qred (fn_window_sub (blog2 (fst p)) (snd p))) (fst p).

Theorem source_window_rows perm wing keys l :
  center_by_window perm wing keys l
  = let sorted := map snd (stable_sort key_leb (pick (combine keys l) perm)) in
    sort_brows (map py_window_row (combine sorted (rolling wing (map blog2 sorted)))).
Proof. reflexivity. Qed.

(* ---- do_fix: subtract the reference ----------------------------------------------------------------------------- *)

Definition py_ref_row (b : brow) : brow := bset_log2 (Qred (fn_ref_sub (blog2 b) (r_log2 (snd b)))) b.

Theorem source_subtract_reference c o target anti ref :
  fix_pre c o target anti ref
  = match load_adjust c ref true (perm_t o) (wing_t o) target with
    | inl e => inl e
    | inr t =>
      match load_adjust c ref false (perm_a o) (wing_a o) anti with
      | inl e => inl e
      | inr a => inr (map py_ref_row (match a with [] => t | _ => sort_brows (t ++ a) end))
      end
    end.
Proof. reflexivity. Qed.

(* ---- apply_weights: the class dispatch ------------------------------------------------------------------------ *)

(* simple_wt of a row after the two masked stores (zeros before them) *)
Definition py_simple_wt (anti : bool) (tgt_wt anti_wt : Q) : Q :=
  fn_store_anti (fn_store_tgt 0 anti tgt_wt) anti anti_wt.

Lemma py_simple_wt_eq anti t a : py_simple_wt anti t a = if anti then a else t.
Proof. destruct anti; reflexivity. Qed.

Theorem source_class_weights pooled anti var_t var_a sz mt ma spread :
  let simple := py_simple_wt anti (fn_tgt_simple_wt var_t sz mt) (fn_anti_simple_wt var_a sz ma) in
  bin_weight pooled (if anti then var_a else var_t) sz (if anti then ma else mt) spread
  == (if pooled then fn_weight_pooled spread simple weight_epsilon else fn_weight_flat simple weight_epsilon).
Proof.
  cbv zeta. rewrite py_simple_wt_eq, fn_bin_weight_eq. unfold fn_bin_weight. cbv zeta.
  destruct anti; reflexivity.
Qed.

(* on the model's table: every bin's weight *)
Corollary source_apply_weights sqrtZ var_t var_a l :
  Forall2 (fun b bw =>
             fst bw = b /\
             let anti := is_anti_gene b in
             let sz := sqrtZ (bsize b) in
             let simple := py_simple_wt anti (fn_tgt_simple_wt var_t sz (class_mean_sz sqrtZ false l))
                                             (fn_anti_simple_wt var_a sz (class_mean_sz sqrtZ true l)) in
             snd bw == (if pooled_ref l then fn_weight_pooled (r_spread (snd b)) simple weight_epsilon
                        else fn_weight_flat simple weight_epsilon))
          l (apply_weights sqrtZ var_t var_a l).
Proof.
  unfold apply_weights. cbv zeta.
  generalize (pooled_ref l) (class_mean_sz sqrtZ false l) (class_mean_sz sqrtZ true l). intros pooled mt ma.
  induction l as [|b t IH]; [constructor|].
  cbn [map]. constructor; [|exact IH]. split; [reflexivity|]. cbn [snd].
  apply source_class_weights.
Qed.
