(* C15 function-body tie of the WHOLE drop_low_coverage (cnvlib/cnary.py), translated on every run (Gen/FnCnaryDropLow.v)
   and read per row as "the row is in the returned table":

       min_cvg = params.NULL_LOG2_COVERAGE - params.MIN_REF_COVERAGE
       drop_idx = self.data["log2"] < min_cvg
       if "depth" in self: drop_idx |= self.data["depth"] == 0
       if verbose and drop_idx.any(): logging.info(...)
       return self[~drop_idx]

   Model/Center.v's drop_low IS the filter by the generated row function. *)
From CNV Require Import Base.Prelude Base.Str Base.QNum Proofs.QNumLemmas Gen.CenterDefaults Model.Center
  Proofs.FnCnary Gen.FnCnaryDropLow.
Local Open Scope Q_scope.

Lemma fn_drop_low_keep_eq b verbose :
  negb (is_low b) = fn_drop_low_keep (b_log2 b) (has_depth_of b) (depth_of b) verbose null_log2_coverage min_ref_coverage.
Proof.
  unfold is_low, fn_drop_low_keep, min_cvg, qsub, qlt_b, qeq_b, has_depth_of, depth_of. cbv zeta.
  rewrite (Qleb_comp _ _ (Qred_correct _) (b_log2 b) (b_log2 b) (Qeq_refl _)).
  destruct (b_depth b); rewrite ?orb_false_r; reflexivity.
Qed.

Theorem fn_drop_low_eq t verbose :
  drop_low t =
  filter (fun b => fn_drop_low_keep (b_log2 b) (has_depth_of b) (depth_of b) verbose null_log2_coverage min_ref_coverage) t.
Proof. unfold drop_low. apply filter_ext. intros b. apply fn_drop_low_keep_eq. Qed.
