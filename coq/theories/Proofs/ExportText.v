(* C20 proofs, the VCF text layer: the header lines, the column line and the record lines the
   model emits are the literal texts of Spec/Export.v; the CIPOS / CIEND texts when every
   segment has a bin. *)
From CNV Require Import Base.Prelude Base.Str Model.Decimal Gen.CallDefaults Gen.ExportDefaults.
From CNV Require Import Model.Call Spec.Call Proofs.Call Model.Export Spec.Export Proofs.ExportLib Proofs.ExportBed.
From CNV Require Import Proofs.ExportCi.
From CNV Require Import Model.Ranges Spec.RangeQuery.

Local Open Scope Z_scope.

(* ---------------------------------------------------------------- header and column line *)

Lemma vcf_header_spec (date version : string) :
  vcf_header_lines date version =
  ["##fileformat=VCFv4.2";
   "##fileDate=" ++ date;
   "##source=CNVkit v" ++ version;
   "##INFO=<ID=CIEND,Number=2,Type=Integer,Description=""Confidence interval around END for imprecise variants"">";
   "##INFO=<ID=CIPOS,Number=2,Type=Integer,Description=""Confidence interval around POS for imprecise variants"">";
   "##INFO=<ID=END,Number=1,Type=Integer,Description=""End position of the variant described in this record"">";
   "##INFO=<ID=IMPRECISE,Number=0,Type=Flag,Description=""Imprecise structural variation"">";
   "##INFO=<ID=SVLEN,Number=1,Type=Integer,Description=""Difference in length between REF and ALT alleles"">";
   "##INFO=<ID=SVTYPE,Number=1,Type=String,Description=""Type of structural variant"">";
   "##INFO=<ID=FOLD_CHANGE,Number=1,Type=Float,Description=""Fold change"">";
   "##INFO=<ID=FOLD_CHANGE_LOG,Number=1,Type=Float,Description=""Log fold change"">";
   "##INFO=<ID=PROBES,Number=1,Type=Integer,Description=""Number of probes in CNV"">";
   "##ALT=<ID=DEL,Description=""Deletion"">";
   "##ALT=<ID=DUP,Description=""Duplication"">";
   "##ALT=<ID=CNV,Description=""Copy number variable region"">";
   "##FORMAT=<ID=GT,Number=1,Type=String,Description=""Genotype"">";
   "##FORMAT=<ID=GQ,Number=1,Type=Float,Description=""Genotype quality"">";
   "##FORMAT=<ID=CN,Number=1,Type=Integer,Description=""Copy number genotype for imprecise events"">";
   "##FORMAT=<ID=CNQ,Number=1,Type=Float,Description=""Copy number genotype quality for imprecise events"">"]%string.
Proof. reflexivity. Qed.

Lemma vcf_column_line_spec (sid : string) :
  String.concat tab (vcf_columns ++ [sid]) = sp_vcf_column_line sid.
Proof. reflexivity. Qed.

(* the first body line is the column line with the sample id, whatever the table *)
Lemma vcf_text_columns c sample_id table_id rows bins toks body :
  export_vcf_text c sample_id table_id rows bins toks = TextOk body ->
  hd_error body = Some (sp_vcf_column_line (match sample_id with
                                             | Some s => if String.eqb s "" then table_id else s
                                             | None => table_id
                                             end)).
Proof.
  change (match sample_id with
          | Some s => if String.eqb s "" then table_id else s
          | None => table_id
          end) with (vcf_sample_id sample_id table_id).
  unfold export_vcf_text, export_vcf.
  destruct (segments2vcf c rows (vcf_ci_source bins rows)); try discriminate.
  intro H. injection H as <-. reflexivity.
Qed.

(* ---------------------------------------------------------------- record lines *)

Lemma append_nil_r (s : string) : (s ++ "")%string = s.
Proof. induction s as [|a s IH]; [reflexivity|]. cbn [append]. now rewrite IH. Qed.

Lemma vcf_one_info s n x l d ci p tok cit :
  info_text (vcf_one s n x l d ci p) tok cit = sp_info (vcf_one s n x l d ci p) tok cit.
Proof.
  unfold info_text, sp_info, vcf_one. cbn [v_svtype v_end v_svlen v_probes].
  destruct l, cit as [[a b]|]; rewrite ?append_nil_r; reflexivity.
Qed.

Lemma vcf_one_line s n x l d ci p tok cit :
  vcf_line (vcf_one s n x l d ci p) tok cit = sp_vcf_line (vcf_one s n x l d ci p) tok cit.
Proof.
  unfold vcf_line, sp_vcf_line. rewrite vcf_one_info. unfold vcf_one.
  cbn [v_chrom v_pos v_id v_ref v_alt v_qual v_filter v_svtype v_format v_sample].
  destruct l; reflexivity.
Qed.

Lemma vcf_loop_shape (l : list seg) :
  forall nc ex losses svlen cis r,
    In r (vcf_loop l nc ex losses svlen cis) ->
    exists s n x lo d ci p, r = vcf_one s n x lo d ci p.
Proof.
  induction l as [|s t IH]; intros [|n nc] [|x ex] [|lo losses] [|d svlen] [|ci cis] r; cbn [vcf_loop In]; try tauto.
  destruct (n =? x).
  - intro H. eapply IH. exact H.
  - destruct (probes_digit s) as [p|].
    + intros [<-|H]; [now exists s, n, x, lo, d, ci, p | eapply IH; exact H].
    + intro H. eapply IH. exact H.
Qed.

(* every record line: chrom, POS, ".", "N", <SVTYPE>, ".", ".", INFO, FORMAT, sample, tab-separated,
   INFO = IMPRECISE;SVTYPE=..;END=..;SVLEN=..;FOLD_CHANGE=..;FOLD_CHANGE_LOG=..;PROBES=..[;CIPOS=..;CIEND=..] *)
Lemma vcf_text_line c rows ci recs :
  segments2vcf c rows ci = VcfOk recs ->
  forall r, In r recs -> forall tok cit, vcf_line r tok cit = sp_vcf_line r tok cit.
Proof.
  unfold segments2vcf. destruct (build_fails c); [discriminate|].
  intros H r Hr tok cit.
  assert (S : exists s n x lo d ci' p, r = vcf_one s n x lo d ci' p).
  { destruct ci as [cols|].
    - destruct (negb (length cols =? length rows)%nat); [discriminate|].
      destruct (ci_columns rows cols); [|discriminate].
      injection H as <-. eapply vcf_loop_shape. exact Hr.
    - injection H as <-. eapply vcf_loop_shape. exact Hr. }
  destruct S as [s [n [x [lo [d [ci' [p ->]]]]]]]. apply vcf_one_line.
Qed.

(* ---------------------------------------------------------------- CIPOS / CIEND texts *)

Lemma num_text_int (v : option Z) : num_text false false v = sp_margin_text v.
Proof. destruct v; reflexivity. Qed.

Lemma num_text_int_neg (v : option Z) : num_text false true v = sp_margin_text (oneg v).
Proof. destruct v; reflexivity. Qed.

Local Transparent zip4.

Lemma text_zip4 (A B C D : list (option Z)) :
  map2 (fun a b => (a, b))
       (map2 (ci_field info_cipos) (map sp_margin_text A) (map sp_margin_text B))
       (map2 (ci_field info_ciend) (map sp_margin_text C) (map sp_margin_text D))
  = map sp_ci_text (zip4 A B C D).
Proof.
  revert B C D. induction A as [|a A IH]; intros [|b B] [|c C] [|d D]; cbn [map map2 zip4]; try reflexivity;
    try (destruct (map2 (ci_field info_cipos) (map sp_margin_text A) (map sp_margin_text B)); reflexivity).
  rewrite IH. reflexivity.
Qed.
Local Opaque zip4.

(* no missing margin anywhere: both CI columns are integer columns *)
Lemma ci_text_columns_int rows cols quads :
  existsb (fun c : option Z * option Z => is_none (fst c)) cols = false ->
  existsb (fun c : option Z * option Z => is_none (snd c)) cols = false ->
  ci_columns rows cols = Some (map Some quads) ->
  ci_text_columns rows cols = map sp_ci_text quads.
Proof.
  intros FL FR HC. unfold ci_text_columns. rewrite FL, FR.
  unfold ci_columns in HC. destruct rows as [|s0 t0] eqn:E; [discriminate|]. rewrite <- E in *.
  injection HC as HC.
  assert (Inj : forall (l1 l2 : list ciquad), map Some l1 = map Some l2 -> l1 = l2).
  { induction l1 as [|x l1 IH]; intros [|y l2] H; cbn in H; try discriminate; [reflexivity|].
    injection H as -> H. f_equal. now apply IH. }
  apply Inj in HC. rewrite <- HC.
  set (lm := map2 (fun s c => osub (fst c) (s_lo s)) rows cols).
  set (rm := map2 (fun s c => rsub (s_hi s) (snd c)) rows cols).
  rewrite <- text_zip4.
  assert (PL : num_text false false (Some ci_edge) :: map (num_text false true) (removelast rm)
               = map sp_margin_text (Some ci_edge :: map oneg (removelast rm))).
  { cbn [map]. rewrite num_text_int. apply f_equal. rewrite map_map. apply map_ext. intro v. apply num_text_int_neg. }
  assert (ER : map (num_text false false) (tl lm) ++ [num_text false false (Some ci_edge)]
               = map sp_margin_text (tl lm ++ [Some ci_edge])).
  { rewrite map_app. cbn [map]. rewrite num_text_int. apply f_equal2; [|reflexivity]. apply map_ext. apply num_text_int. }
  assert (M : forall l, map (num_text false false) l = map sp_margin_text l).
  { intro l. apply map_ext. apply num_text_int. }
  rewrite PL, ER. reflexivity.
Qed.

Lemma existsb_map_false {A B} (p : B -> bool) (f : A -> B) (l : list A) :
  (forall a, In a l -> p (f a) = false) -> existsb p (map f l) = false.
Proof.
  induction l as [|a t IH]; intro H; [reflexivity|]. cbn [map existsb].
  rewrite (H a (or_introl eq_refl)), IH; [reflexivity|]. intros b Hb. apply H. now right.
Qed.

Section Texts.
  Variables (st : style) (c : cfg) (rows : list seg).
  Hypothesis Hcons : consistent st (seg_first rows).
  Hypothesis Hbuild : build_ok (c_build c).

  Let lb := lower_build (c_build c).
  Let keeps (s : seg) : bool := sp_variant st lb (c_k c) (c_hapx c) (c_female c) (c_has_cn c) s && sp_numeric s.

  (* the CI texts of the records: CIPOS=(a,b) / CIEND=(c,d) of the specification's margins,
     printed as integers, when every segment of the table has a bin *)
  Lemma vcf_ci_texts_spec bins :
    bins <> [] -> rows <> [] ->
    table_ok (to_trows 0 bins) -> grouped (to_trows 0 (map seg_region rows)) ->
    Forall (fun s => sp_bins_in bins s <> []) rows ->
    vcf_ci_texts c rows (vcf_ci_source (Some bins) rows)
    = map (fun i => Some (sp_ci_text (sp_ci bins rows i)))
          (filter (fun i => keeps (nth i rows dflt_seg)) (seq 0 (length rows))).
  Proof.
    intros NE NEr Hok Hg Hall. unfold vcf_ci_source.
    destruct bins as [|b0 bt] eqn:EB; [congruence|]. rewrite <- EB in *.
    rewrite (assign_ci_spec bins rows Hok Hg). unfold vcf_ci_texts. cbv zeta.
    assert (HC := ci_columns_spec bins rows NEr).
    rewrite <- (map_map (sp_ci bins rows) Some) in HC.
    assert (FL : existsb (fun c0 : option Z * option Z => is_none (fst c0)) (map (sp_ci_pair bins) rows) = false).
    { apply existsb_map_false. intros s Hs. rewrite Forall_forall in Hall. specialize (Hall s Hs).
      unfold sp_ci_pair, ci_of_pairs. destruct (sp_bins_in bins s); [congruence | reflexivity]. }
    assert (FR : existsb (fun c0 : option Z * option Z => is_none (snd c0)) (map (sp_ci_pair bins) rows) = false).
    { apply existsb_map_false. intros s Hs. rewrite Forall_forall in Hall. specialize (Hall s Hs).
      unfold sp_ci_pair, ci_of_pairs. destruct (sp_bins_in bins s); [congruence | reflexivity]. }
    rewrite (ci_text_columns_int rows _ _ FL FR HC).
    rewrite (ncopies_col_map c (seg_first rows)).
    assert (EN : map (m_ncopies c (seg_first rows)) rows
                 = map (sp_ncopies st lb (c_k c) (c_hapx c) (c_female c) (c_has_cn c)) rows).
    { apply map_ext. intro s. now apply m_ncopies_spec. }
    assert (EX : (if c_has_cn c then absolute_expect c (seg_first rows) rows
                  else expect_col c (c_hapx c) (seg_first rows) rows)
                 = map (sp_expect st lb (c_k c) (c_hapx c) (c_female c)) rows).
    { destruct (c_has_cn c); apply map_ext; intro s; now apply m_exp_spec. }
    rewrite EN, EX. unfold lb. rewrite (vcf_keep_spec st c rows).
    rewrite (map_map (sp_ci bins rows) sp_ci_text).
    change (fun s : seg => sp_variant st (lower_build (c_build c)) (c_k c) (c_hapx c) (c_female c) (c_has_cn c) s && sp_numeric s)
      with keeps.
    rewrite (select_seq keeps (fun i => sp_ci_text (sp_ci bins rows i)) rows).
    rewrite map_map. reflexivity.
  Qed.
End Texts.
