(* C15 function-body tie of the WHOLE expect_flat_log2 (cnvlib/cnary.py), translated on every run (Gen/FnCnaryFlatWhole.v):
   at its head

       if is_haploid_x_reference is None:
           is_haploid_x_reference = not self.guess_xx(diploid_parx_genome=diploid_parx_genome, verbose=False)

   then the masks and the masked store -1.0.  Model/Sex.v's expect_flat / expect_flat_guess are the generated function per
   bin, with the reference sex given / left out (then the guess, run with the default diploid-reference shifts, decides, and
   a missing guess reads as a haploid reference). *)
From CNV Require Import Base.Prelude Base.Str Base.QNum Gen.CenterDefaults Model.Center Model.Sex Gen.FnCnaryFlatWhole.
Local Open Scope Q_scope.

Theorem fn_expect_flat_whole_given hap build t g :
  expect_flat hap build t =
  map (fun b => fn_expect_flat_whole (Some hap) g 0 (chr_x_filter t build b) (chr_y_filter t build b) (chr_y_filter t None b)) t.
Proof.
  unfold expect_flat. apply map_ext. intros b. unfold fn_expect_flat_whole. cbv zeta.
  destruct hap, (chr_x_filter t build b), (chr_y_filter t build b), (chr_y_filter t None b); reflexivity.
Qed.

Theorem fn_expect_flat_whole_guess gstat build t :
  expect_flat_guess gstat build t =
  map (fun b => fn_expect_flat_whole None (guess_xx gstat false build t) 0
                                     (chr_x_filter t build b) (chr_y_filter t build b) (chr_y_filter t None b)) t.
Proof.
  unfold expect_flat_guess, expect_flat. apply map_ext. intros b. unfold fn_expect_flat_whole. cbv zeta.
  destruct (guess_xx gstat false build t) as [[|]|];
    destruct (chr_x_filter t build b), (chr_y_filter t build b), (chr_y_filter t None b); reflexivity.
Qed.
