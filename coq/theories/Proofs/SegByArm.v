(* C03 proofs, part 7: GenomicArray.by_arm exactly -- the arms are the rows in order;
   the chromosome is cut iff some gap that keeps the margin max(50, r) to both ends is
   >= 100000, and then in front of the FIRST row with the largest such gap.  r is the
   rounded 10 % share (an oracle with the contract share_ok; the exact round-half-even
   meets it, and it is forced whenever n <> 5 mod 10). *)
From CNV Require Import Base.Prelude Gen.SegDefaults Model.Arms Spec.Segments.

(* ---- numpy argmax ---------------------------------------------------------------- *)

Lemma argmax_from_spec l : forall bi bv i,
  exists ri rv, argmax_from bi bv i l = (ri, rv) /\
  ((ri = bi /\ rv = bv /\ Forall (fun x => x <= bv) l) \/
   (exists k, (k < length l)%nat /\ ri = i + Z.of_nat k /\ rv = nth k l 0 /\ bv < rv /\
      Forall (fun x => x <= rv) l /\ forall k', (k' < k)%nat -> nth k' l 0 < rv)).
Proof.
  induction l as [|x t IH]; intros bi bv i.
  - exists bi, bv. split; [reflexivity|]. left. repeat split. constructor.
  - cbn [argmax_from]. destruct (bv <? x) eqn:E.
    + apply Z.ltb_lt in E. destruct (IH i x (i + 1)) as (ri & rv & Heq & Hc).
      exists ri, rv. split; [exact Heq|]. right.
      destruct Hc as [(H1 & H2 & H3)|(k & Hk & H1 & H2 & H3 & H4 & H5)].
      * exists 0%nat. subst ri rv. cbn [length nth]. repeat split; try lia.
        constructor; [lia|exact H3].
      * exists (S k). cbn [length nth]. repeat split; try lia.
        -- constructor; [lia|exact H4].
        -- intros k' Hk'. destruct k' as [|k'']; [lia|]. apply H5. lia.
    + apply Z.ltb_ge in E. destruct (IH bi bv (i + 1)) as (ri & rv & Heq & Hc).
      exists ri, rv. split; [exact Heq|].
      destruct Hc as [(H1 & H2 & H3)|(k & Hk & H1 & H2 & H3 & H4 & H5)].
      * left. repeat split; try assumption. constructor; [lia|exact H3].
      * right. exists (S k). cbn [length nth]. repeat split; try lia.
        -- constructor; [lia|exact H4].
        -- intros k' Hk'. destruct k' as [|k'']; [lia|]. apply H5. lia.
Qed.

(* index and value of the FIRST maximum *)
Lemma argmax_first_spec g i v : argmax_first g = Some (i, v) ->
  exists k, i = Z.of_nat k /\ (k < length g)%nat /\ v = nth k g 0 /\
            Forall (fun x => x <= v) g /\ forall k', (k' < k)%nat -> nth k' g 0 < v.
Proof.
  destruct g as [|x t]; [discriminate|]. cbn [argmax_first]. intros H.
  destruct (argmax_from_spec t 0 x 1) as (ri & rv & Heq & Hc). rewrite Heq in H.
  injection H as <- <-.
  destruct Hc as [(H1 & H2 & H3)|(k & Hk & H1 & H2 & H3 & H4 & H5)].
  - exists 0%nat. subst. cbn [length nth]. repeat split; try lia. constructor; [lia|exact H3].
  - exists (S k). cbn [length nth]. repeat split; try lia.
    + constructor; [lia|exact H4].
    + intros k' Hk'. destruct k' as [|k'']; [lia|]. apply H5. lia.
Qed.

Lemma argmax_first_some g : g <> [] -> exists i v, argmax_first g = Some (i, v).
Proof.
  destruct g as [|x t]; [congruence|]. intros _. cbn. destruct (argmax_from 0 x 1 t) as (i, v). eauto.
Qed.

(* ---- list plumbing ----------------------------------------------------------------- *)

Lemma nth_firstn_lt {B} (d : B) : forall a k (l : list B), (k < a)%nat -> nth k (firstn a l) d = nth k l d.
Proof.
  induction a as [|a IH]; intros k l H; [lia|]. destruct l as [|x t]; [destruct k; reflexivity|].
  destruct k as [|k]; [reflexivity|]. cbn. apply IH. lia.
Qed.

Lemma nth_skipn_add {B} (d : B) : forall b k (l : list B), nth k (skipn b l) d = nth (b + k) l d.
Proof.
  induction b as [|b IH]; intros k l; [reflexivity|]. destruct l as [|x t]; [destruct k; reflexivity|].
  cbn. apply IH.
Qed.

Section ByArm.
Context {A : Type} (lo hi : A -> Z).

Lemma gaps_length (l : list A) : length (gaps_of lo hi l) = (length l - 1)%nat.
Proof.
  induction l as [|a t IH]; [reflexivity|]. destruct t as [|b t']; [reflexivity|].
  cbn [gaps_of length] in *. rewrite IH. lia.
Qed.

(* entry j of the gap vector is the gap in front of row j + 1 *)
Lemma gaps_nth' (l : list A) : forall j, (S j < length l)%nat ->
  nth j (gaps_of lo hi l) 0 =
  match nth_error l (S j), nth_error l j with Some b, Some a => lo b - hi a | _, _ => 0 end.
Proof.
  induction l as [|a t IH]; intros j Hj; [cbn in Hj; lia|].
  destruct t as [|b t']; [cbn in Hj; lia|].
  change (gaps_of lo hi (a :: b :: t')) with ((lo b - hi a) :: gaps_of lo hi (b :: t')).
  destruct j as [|j]; [reflexivity|].
  change (nth (S j) ((lo b - hi a) :: gaps_of lo hi (b :: t')) 0) with (nth j (gaps_of lo hi (b :: t')) 0).
  change (nth_error (a :: b :: t') (S (S j))) with (nth_error (b :: t') (S j)).
  change (nth_error (a :: b :: t') (S j)) with (nth_error (b :: t') j).
  apply IH. cbn [length] in *. lia.
Qed.

Lemma gaps_nth (l : list A) : forall j, (1 <= j < length l)%nat ->
  nth (j - 1) (gaps_of lo hi l) 0 = gap_before lo hi l (Z.of_nat j).
Proof.
  intros j Hj. unfold gap_before. replace (Z.to_nat (Z.of_nat j)) with (S (j - 1)) by lia.
  replace (Z.to_nat (Z.of_nat j - 1)) with (j - 1)%nat by lia. apply gaps_nth'. lia.
Qed.

Definition window (m : Z) (l : list A) : list Z :=
  let n := Z.of_nat (length l) in
  firstn (Z.to_nat (n - 2 * m - 1)) (skipn (Z.to_nat m) (gaps_of lo hi l)).

Lemma window_length m l : 0 <= m -> 2 * m + 1 < Z.of_nat (length l) ->
  length (window m l) = Z.to_nat (Z.of_nat (length l) - 2 * m - 1).
Proof.
  intros Hm Hn. unfold window. cbv zeta. rewrite firstn_length, skipn_length, gaps_length. lia.
Qed.

(* entry k of the window is the gap in front of row m + 1 + k *)
Lemma window_nth m l k : 0 <= m -> 2 * m + 1 < Z.of_nat (length l) ->
  (k < length (window m l))%nat ->
  nth k (window m l) 0 = gap_before lo hi l (m + 1 + Z.of_nat k).
Proof.
  intros Hm Hn Hk. rewrite (window_length m l Hm Hn) in Hk. unfold window. cbv zeta.
  rewrite nth_firstn_lt by lia. rewrite nth_skipn_add.
  replace (m + 1 + Z.of_nat k) with (Z.of_nat (Z.to_nat m + k + 1)) by lia.
  rewrite <- gaps_nth by lia. f_equal. lia.
Qed.

Lemma margin_nonneg r : 0 <= Z.max 50 r. Proof. lia. Qed.

Lemma arm_margin_literal r : arm_margin_with r = Z.max 50 r.
Proof. reflexivity. Qed.

(* the cut, if any: in front of the first row carrying the largest interior gap, which is >= 100000 *)
Lemma arm_cut_some r l j : arm_cut_with lo hi r l = Some j ->
  let n := Z.of_nat (length l) in
  let m := Z.max 50 r in
  interior n m j /\ 100000 <= gap_before lo hi l j /\
  (forall i, interior n m i -> gap_before lo hi l i <= gap_before lo hi l j) /\
  (forall i, interior n m i -> i < j -> gap_before lo hi l i < gap_before lo hi l j).
Proof.
  unfold arm_cut_with. cbv zeta. rewrite arm_margin_literal. set (m := Z.max 50 r). set (n := Z.of_nat (length l)).
  destruct (2 * m + 1 <? n) eqn:En; [|discriminate]. apply Z.ltb_lt in En.
  change (firstn (Z.to_nat (n - 2 * m - 1)) (skipn (Z.to_nat m) (gaps_of lo hi l))) with (window m l).
  destruct (argmax_first (window m l)) as [(i, v)|] eqn:Ea; [|discriminate].
  change by_arm_min_gap_size with 100000.
  destruct (100000 <=? v) eqn:Ev; [|discriminate]. apply Z.leb_le in Ev. intros H. injection H as <-.
  assert (Hm : 0 <= m) by (unfold m; lia).
  destruct (argmax_first_spec _ _ _ Ea) as (k & -> & Hk & Hv & Hall & Hfirst).
  pose proof (window_length m l Hm En) as Hlen.
  assert (Hg : forall k', (k' < length (window m l))%nat ->
               nth k' (window m l) 0 = gap_before lo hi l (m + 1 + Z.of_nat k')).
  { intros k' Hk'. apply window_nth; assumption. }
  replace (Z.of_nat k + m + 1) with (m + 1 + Z.of_nat k) by lia. rewrite <- (Hg k Hk), <- Hv.
  unfold interior. repeat split; try lia.
  - intros i Hi. replace i with (m + 1 + Z.of_nat (Z.to_nat (i - m - 1))) by lia.
    rewrite <- Hg by lia. rewrite Forall_forall in Hall. apply Hall. apply nth_In. lia.
  - intros i Hi Hlt. replace i with (m + 1 + Z.of_nat (Z.to_nat (i - m - 1))) by lia.
    rewrite <- Hg by lia. apply Hfirst. lia.
Qed.

(* no cut: no interior gap reaches 100000 *)
Lemma arm_cut_none r l : arm_cut_with lo hi r l = None ->
  forall j, interior (Z.of_nat (length l)) (Z.max 50 r) j -> gap_before lo hi l j < 100000.
Proof.
  unfold arm_cut_with. cbv zeta. rewrite arm_margin_literal. set (m := Z.max 50 r). set (n := Z.of_nat (length l)).
  intros H j Hj. unfold interior in Hj.
  assert (En : 2 * m + 1 < n) by lia. assert (Hm : 0 <= m) by (unfold m; lia).
  destruct (2 * m + 1 <? n) eqn:En'; [|apply Z.ltb_ge in En'; lia].
  change (firstn (Z.to_nat (n - 2 * m - 1)) (skipn (Z.to_nat m) (gaps_of lo hi l))) with (window m l) in H.
  pose proof (window_length m l Hm En) as Hlen.
  destruct (argmax_first (window m l)) as [(i, v)|] eqn:Ea.
  - change by_arm_min_gap_size with 100000 in H.
    destruct (100000 <=? v) eqn:Ev; [discriminate|]. apply Z.leb_gt in Ev.
    destruct (argmax_first_spec _ _ _ Ea) as (k & -> & Hk & Hv & Hall & Hfirst).
    replace j with (m + 1 + Z.of_nat (Z.to_nat (j - m - 1))) by lia.
    rewrite <- (window_nth m l _ Hm En) by lia.
    rewrite Forall_forall in Hall. assert (Hin : In (nth (Z.to_nat (j - m - 1)) (window m l) 0) (window m l)).
    { apply nth_In. lia. }
    specialize (Hall _ Hin). lia.
  - destruct (argmax_first_some (window m l)) as (i & v & Hs); [|congruence].
    intros Hnil. rewrite Hnil in Hlen. change (@length Z []) with 0%nat in Hlen. subst n. lia.
Qed.

Theorem arm_split_spec r l : arms_spec lo hi r l (arm_split_with lo hi r l).
Proof.
  unfold arm_split_with. destruct l as [|x t].
  - constructor; cbn; try reflexivity; try lia; [constructor| |intros p q H; discriminate].
    split; [discriminate|]. intros (j & Hj & _). unfold interior in Hj. cbn in Hj. lia.
  - remember (x :: t) as l eqn:El. destruct (arm_cut_with lo hi r l) as [j|] eqn:Ec.
    + pose proof (arm_cut_some r l j Ec) as Hs. cbv zeta in Hs. destruct Hs as (Hi & Hg & Hmax & Hfirst).
      assert (Hlen : Z.of_nat (length (firstn (Z.to_nat j) l)) = j).
      { rewrite firstn_length. unfold interior in Hi. lia. }
      constructor.
      * cbn [concat]. rewrite app_nil_r. apply firstn_skipn.
      * unfold interior in Hi. constructor; [|constructor; [|constructor]].
        -- intros Hn. rewrite Hn in Hlen. cbn in Hlen. lia.
        -- intros Hn. assert (Hl : length (skipn (Z.to_nat j) l) = 0%nat) by (rewrite Hn; reflexivity).
           rewrite skipn_length in Hl. lia.
      * cbn. lia.
      * split; [intros _; exists j; split; assumption|reflexivity].
      * intros p q Hpq. injection Hpq as <- <-. cbv zeta. rewrite Hlen.
        exact (conj Hi (conj Hg (conj Hmax Hfirst))).
    + constructor.
      * cbn [concat]. apply app_nil_r.
      * constructor; [subst l; discriminate|constructor].
      * cbn. lia.
      * split; [discriminate|]. intros (j & Hj & Hg). pose proof (arm_cut_none r l Ec j Hj). lia.
      * intros p q H. discriminate.
Qed.

End ByArm.

(* ---- the rounded share ---------------------------------------------------------------- *)

Lemma round_contract_literal n r : round_contract n r <-> share_ok n r.
Proof. unfold round_contract, share_ok. change (snd by_arm_frac) with 10. change (fst by_arm_frac) with 1. lia. Qed.

Lemma round_contract_b_spec n r : round_contract_b n r = true <-> round_contract n r.
Proof. unfold round_contract_b, round_contract. apply Z.leb_le. Qed.

(* exact round-half-even is a correctly rounded share *)
Lemma round_share_ok n : share_ok n (round_share n).
Proof.
  unfold share_ok, round_share, round_he_div. change (snd by_arm_frac) with 10. change (fst by_arm_frac) with 1.
  rewrite Z.mul_1_r. pose proof (Z.div_mod n 10 ltac:(lia)) as Hd. pose proof (Z.mod_pos_bound n 10 ltac:(lia)) as Hb.
  destruct (2 * (n mod 10) <? 10) eqn:E1; [apply Z.ltb_lt in E1; lia|apply Z.ltb_ge in E1].
  destruct (10 <? 2 * (n mod 10)) eqn:E2; [apply Z.ltb_lt in E2; lia|apply Z.ltb_ge in E2].
  destruct (Z.even (n / 10)); lia.
Qed.

(* away from the tie there is exactly one correctly rounded share *)
Lemma share_unique n r : share_ok n r -> n mod 10 <> 5 -> r = round_share n.
Proof.
  intros H Hn. pose proof (round_share_ok n) as H'. unfold share_ok in *.
  pose proof (Z.div_mod n 10 ltac:(lia)) as Hd. pose proof (Z.mod_pos_bound n 10 ltac:(lia)) as Hb. lia.
Qed.

(* at the tie it is one of the two neighbours *)
Lemma share_tie n r : share_ok n r -> n mod 10 = 5 -> r = n / 10 \/ r = n / 10 + 1.
Proof.
  intros H Hn. unfold share_ok in H. pose proof (Z.div_mod n 10 ltac:(lia)) as Hd. lia.
Qed.

(* up to 504 rows the margin is the 50-row minimum, however the share is rounded *)
Lemma margin_small n r : share_ok n r -> n <= 504 -> Z.max 50 r = 50.
Proof. unfold share_ok. lia. Qed.

Lemma arm_split_is_with {A} (lo hi : A -> Z) l :
  arm_split lo hi l = arm_split_with lo hi (round_share (Z.of_nat (length l))) l.
Proof. reflexivity. Qed.

(* any correctly rounded share gives the same arms on chromosomes of at most 504 rows *)
Lemma arm_split_small {A} (lo hi : A -> Z) l r :
  share_ok (Z.of_nat (length l)) r -> Z.of_nat (length l) <= 504 ->
  arm_split_with lo hi r l = arm_split lo hi l.
Proof.
  intros H Hn. unfold arm_split, arm_split_with, arm_cut_with, arm_margin_with. cbv zeta.
  change by_arm_min_arm_bins with 50.
  rewrite (margin_small _ _ H Hn), (margin_small _ _ (round_share_ok _) Hn). reflexivity.
Qed.
