(* C07 source tie of intersect.into_ranges' per-range summary, the inner function

       def series2value(ser):
           if len(ser) == 0:
               return default
           if len(ser) == 1:
               return ser.iat[0]
           return summary_func(ser)

   regenerated from the Python source on every run as Gen/FnRangesInto.v (fn_series2value; len(ser),
   the closure variable `default`, ser.iat[0] and summary_func(ser) are inputs; values are strings, the
   gene column cnvkit's callers summarise).  Here: Model/Into.v series2value -- what into_ranges puts
   into each range from the hits the range selects -- IS the generated function: the default for no
   hit, the single value for one hit, and otherwise whatever the summary function answers (a summary
   function that fails makes the model answer None). *)
From CNV Require Import Base.Prelude Model.Ranges Model.Into.
From CNV Require Gen.FnRangesInto.

Local Open Scope Z_scope.

Lemma source_series2value_fn (n : Z) (d single summary : string) :
  FnRangesInto.fn_series2value n d single summary =
  if n =? 0 then d else if n =? 1 then single else summary.
Proof. reflexivity. Qed.

(* ser.iat[0] *)
Definition first_value (d : string) (hits : list (Z * string)) : string :=
  match hits with (_, v) :: _ => v | [] => d end.

Theorem source_series2value (d : string) (f : list (Z * string) -> option string) (hits : list (Z * string)) :
  series2value d f hits =
  option_map (FnRangesInto.fn_series2value (zlen hits) d (first_value d hits))
             (if zlen hits <=? 1 then Some d else f hits).
Proof.
  destruct hits as [|[l v] [|h2 t]].
  - reflexivity.
  - reflexivity.
  - unfold series2value.
    replace (zlen ((l, v) :: h2 :: t) <=? 1) with false by (unfold zlen; cbn [length]; lia).
    destruct (f ((l, v) :: h2 :: t)) as [s|]; [|reflexivity].
    cbn [option_map]. rewrite source_series2value_fn.
    replace (zlen ((l, v) :: h2 :: t) =? 0) with false by (unfold zlen; cbn [length]; lia).
    replace (zlen ((l, v) :: h2 :: t) =? 1) with false by (unfold zlen; cbn [length]; lia).
    reflexivity.
Qed.
