(* C19 -- Savitzky-Golay with weights (weighted convolution D/N): one output per
   input, and every finite output on a constant signal is that constant, for ANY
   window and weights (the ratio cancels them).  Non-finite outputs ([None]: a
   normaliser that is exactly zero) are the open finding
   savgol-weighted-zero-window. *)
From CNV Require Import Base.Prelude Base.QNum Proofs.QNumLemmas Gen.DescDefaults
  Model.Smoothing Spec.Stats Proofs.DescriptivesWMedian Proofs.Smoothing.
From Coq Require Import Qabs Qround Psatz Setoid Morphisms.
Local Open Scope Q_scope.

Definition all_eq_opt (c : Q) (l : list (option Q)) : Prop := forall v, In (Some v) l -> v == c.

(* ---- lengths ---------------------------------------------------------------------- *)
Lemma conv_same_opt_length win y : length (conv_same_opt win y) = length y.
Proof. unfold conv_same_opt, windows_g. now rewrite !map_length, seq_length. Qed.

Lemma mul_opt_length w y : length (mul_opt w y) = Nat.min (length w) (length y).
Proof.
  revert y; induction w as [|a w' IH]; intros [|[b|] y']; cbn [mul_opt length]; try reflexivity; now rewrite IH.
Qed.
Lemma div_opt_length d n : length (div_opt d n) = Nat.min (length d) (length n).
Proof.
  revert n; induction d as [|[x|] d' IH]; intros [|y n']; cbn [div_opt length]; try reflexivity; now rewrite IH.
Qed.
Lemma mul_lists_length a b : length (mul_lists a b) = Nat.min (length a) (length b).
Proof. revert b; induction a as [|x a' IH]; intros [|y b']; cbn [mul_lists length]; try reflexivity; now rewrite IH. Qed.

Lemma iter_lengths n win : forall y w, length y = length w ->
  length (fst (convolve_weighted_iter n win y w)) = length w /\
  length (snd (convolve_weighted_iter n win y w)) = length w.
Proof.
  induction n as [|k IH]; intros y w L; cbn [convolve_weighted_iter]; [cbn; auto|].
  destruct (IH (div_opt (conv_same_opt win (mul_opt w y)) (conv_same win w)) (conv_same win w)) as [I1 I2].
  - rewrite div_opt_length, conv_same_opt_length, mul_opt_length, conv_same_length. lia.
  - rewrite conv_same_length in I1, I2. auto.
Qed.

Lemma rolloff_length wing : length (rolloff wing) = wing.
Proof. unfold rolloff. now rewrite map_length, seq_length. Qed.

Lemma pad_weights_length w wing : (wing <= length w)%nat ->
  length (pad_weights w wing) = (length w + 2 * wing)%nat.
Proof.
  intro H. unfold pad_weights. pose proof (pad_array_length w wing H) as Lp.
  rewrite !app_length, !mul_lists_length, !firstn_length, !skipn_length, rev_length, rolloff_length, Lp. lia.
Qed.

(* ---- the ratio on a constant signal -------------------------------------------------- *)
Definition rel_c (c : Q) (o : option Q) (v : Q) : Prop :=
  match o with Some d => d == c * v | None => True end.

Lemma Forall2_firstn {A B} (R : A -> B -> Prop) k l l' : Forall2 R l l' -> Forall2 R (firstn k l) (firstn k l').
Proof. intro H; revert k; induction H; intros [|k]; cbn; constructor; auto. Qed.
Lemma Forall2_skipn {A B} (R : A -> B -> Prop) k l l' : Forall2 R l l' -> Forall2 R (skipn k l) (skipn k l').
Proof. intro H; revert k; induction H; intros [|k]; cbn; try constructor; auto. Qed.

Lemma rel_mul_opt c w y : length y = length w -> all_eq_opt c y -> Forall2 (rel_c c) (mul_opt w y) w.
Proof.
  revert y; induction w as [|a w' IH]; intros [|[b|] y'] L H; cbn in L; try discriminate; cbn [mul_opt]; constructor.
  - unfold rel_c. rewrite qmul_spec, (H b) by now left. ring.
  - apply IH; [lia|]. intros v Hv. apply H. now right.
  - exact I.
  - apply IH; [lia|]. intros v Hv. apply H. now right.
Qed.

Lemma rel_repeat c k : Forall2 (rel_c c) (repeat (Some 0) k) (repeat 0 k).
Proof. induction k; cbn [repeat]; constructor; auto. unfold rel_c. ring. Qed.

Lemma qdot_rel c rw : forall seg s segw, all_some seg = Some s -> Forall2 (rel_c c) seg segw ->
  qdot rw s == c * qdot rw segw.
Proof.
  induction rw as [|r rw' IH]; intros seg s segw Hs HR.
  - rewrite !qdot_nil_l. ring.
  - destruct HR as [|o v seg' segw' Hov HR'].
    + cbn in Hs. injection Hs as <-. rewrite !qdot_nil_r. ring.
    + cbn [all_some] in Hs. destruct o as [d|]; [|discriminate].
      destruct (all_some seg') as [s'|] eqn:E; [|discriminate]. injection Hs as <-.
      rewrite !qdot_cons, (IH seg' s' segw' E HR'). cbn in Hov. rewrite Hov. ring.
Qed.

Lemma div_opt_map {A} (f : A -> option Q) (g : A -> Q) l :
  div_opt (map f l) (map g l) =
  map (fun i => match f i with Some x => if qeq_b (g i) 0 then None else Some (qdiv x (g i)) | None => None end) l.
Proof. induction l as [|i t IH]; cbn [map div_opt]; [reflexivity|]. destruct (f i); now rewrite IH. Qed.

Lemma iteration_const c win y w : length y = length w -> all_eq_opt c y ->
  all_eq_opt c (div_opt (conv_same_opt win (mul_opt w y)) (conv_same win w)).
Proof.
  intros L H v Hv. unfold conv_same_opt, conv_same, windows_g, windows in Hv.
  rewrite mul_opt_length, L, Nat.min_id in Hv. rewrite !map_map in Hv.
  rewrite div_opt_map in Hv. apply in_map_iff in Hv as (i & Hi & _).
  set (m := length win) in *. set (off := Nat.div m 2) in *.
  set (segD := firstn m (skipn i (repeat (Some 0) (m - 1 - off) ++ mul_opt w y ++ repeat (Some 0) off))) in *.
  set (segW := firstn m (skipn i (repeat 0 (m - 1 - off) ++ w ++ repeat 0 off))) in *.
  assert (HR : Forall2 (rel_c c) segD segW).
  { apply Forall2_firstn, Forall2_skipn. apply Forall2_app; [apply rel_repeat|].
    apply Forall2_app; [now apply rel_mul_opt|apply rel_repeat]. }
  destruct (all_some segD) as [s|] eqn:E; [|discriminate].
  destruct (qeq_b (qdot (rev win) segW) 0) eqn:Z; [discriminate|]. injection Hi as <-.
  apply qeq_b_false in Z. rewrite qdiv_spec, (qdot_rel c (rev win) segD s segW E HR). now field.
Qed.

Lemma iter_const c n win : forall y w, length y = length w -> all_eq_opt c y ->
  all_eq_opt c (fst (convolve_weighted_iter n win y w)).
Proof.
  induction n as [|k IH]; intros y w L H; cbn [convolve_weighted_iter]; [exact H|].
  apply IH.
  - rewrite div_opt_length, conv_same_opt_length, mul_opt_length, conv_same_length. lia.
  - now apply iteration_const.
Qed.

(* ---- savgol with weights ------------------------------------------------------------------ *)
Lemma savgol_w_cases x w tw fo ww ord it coeffs y :
  savgol_w x w tw fo ww ord it coeffs = inl y ->
  y = map Some x \/ exists wing n_iter, (1 <= wing <= Z.of_nat (length x) - 1)%Z /\ length x = length w /\
                       y = savgol_weighted x w (Z.to_nat wing) n_iter coeffs.
Proof.
  unfold savgol_w. destruct (Z.of_nat (length x) <? SAVGOL_MIN_LEN)%Z; intro H.
  - left. now injection H.
  - unfold savgol_plan in H. destruct (width2wing _ _ fo) as [wg| | |] eqn:E; try discriminate.
    destruct (Z.eqb _ _ && Nat.eqb _ _) eqn:C; [|discriminate].
    apply andb_true_iff in C as [_ C2]. apply Nat.eqb_eq in C2. apply width2wing_ok in E.
    right. exists wg, (Z.to_nat (sg_iter (savgol_params wg ww ord))).
    split; [exact E|]. split; [exact C2|]. injection H as <-. reflexivity.
Qed.

Theorem savgol_w_length x w tw fo ww ord it coeffs y :
  savgol_w x w tw fo ww ord it coeffs = inl y -> length y = length x.
Proof.
  intro H. apply savgol_w_cases in H as [->|(wing & n & Hw & L & ->)]; [apply map_length|].
  unfold savgol_weighted, convolve_weighted. rewrite unpad_length.
  destruct (iter_lengths n (normalize coeffs) (map Some (pad_array x (Z.to_nat wing))) (pad_weights w (Z.to_nat wing))) as [I1 _].
  - rewrite map_length, pad_array_length, pad_weights_length by lia. lia.
  - rewrite I1, pad_weights_length by lia. lia.
Qed.

Theorem savgol_w_const x w tw fo ww ord it coeffs y c :
  savgol_w x w tw fo ww ord it coeffs = inl y -> all_eq c x -> all_eq_opt c y.
Proof.
  intros H Hx. apply savgol_w_cases in H as [->|(wing & n & Hw & L & ->)].
  - intros v Hv. apply in_map_iff in Hv as (x0 & E & Hx0). injection E as <-. now apply Hx.
  - unfold savgol_weighted, convolve_weighted. intros v Hv. apply In_unpad in Hv. revert v Hv.
    apply iter_const.
    + rewrite map_length, pad_array_length, pad_weights_length by lia. lia.
    + intros v Hv. apply in_map_iff in Hv as (x0 & E & Hx0). injection E as <-.
      apply Hx. now apply In_pad_array in Hx0.
Qed.
