(* C19 -- Tukey's biweight location: the model loop of Model/Descriptives.v is the
   published iteration of Spec/Stats.v; it stays within the data range, moves
   with the data, does not depend on the order of the data, and returns the
   constant on constant data.  REUSABLE statements (C15 centring, C04, C05):

     [biweight_location_core_spec]   model == published iteration
     [biweight_location_core_shift]  est (x + c) == est x + c
     [biweight_location_core_perm]   Permutation a a' -> est a == est a'
     [biweight_location_core_range]  qmin a <= est a <= qmax a
     [biweight_location_core_const]  all x == c -> est == c
     [biweight_location_core_eqQ]    pointwise == data -> == estimate *)
From CNV Require Import Base.Prelude Base.QNum Proofs.QNumLemmas Gen.DescDefaults
  Model.Descriptives Spec.Stats Proofs.DescriptivesWMedian Proofs.DescriptivesWMedianTop
  Proofs.DescriptivesScale.
From Coq Require Import Qabs Qround Psatz Setoid Morphisms.
Local Open Scope Q_scope.

(* ---- booleans respect == ---------------------------------------------------- *)
Lemma qlt_b_wd a a' b b' : a == a' -> b == b' -> qlt_b a b = qlt_b a' b'.
Proof.
  intros Ea Eb. destruct (qlt_b a b) eqn:A, (qlt_b a' b') eqn:B; auto.
  - apply qlt_b_iff in A. apply qlt_b_false in B. rewrite Ea, Eb in A. lra.
  - apply qlt_b_iff in B. apply qlt_b_false in A. rewrite Ea, Eb in A. lra.
Qed.
Lemma qle_b_wd a a' b b' : a == a' -> b == b' -> qle_b a b = qle_b a' b'.
Proof.
  intros Ea Eb. destruct (qle_b a b) eqn:A, (qle_b a' b') eqn:B; auto.
  - apply qle_b_iff in A. apply qle_b_false in B. rewrite Ea, Eb in A. lra.
  - apply qle_b_iff in B. apply qle_b_false in A. rewrite Ea, Eb in A. lra.
Qed.
Lemma Qeq_bool_wd a a' b b' : a == a' -> b == b' -> Qeq_bool a b = Qeq_bool a' b'.
Proof.
  intros Ea Eb. destruct (Qeq_bool a b) eqn:A, (Qeq_bool a' b') eqn:B; auto.
  - apply Qeq_bool_iff in A. apply Qeq_bool_neq in B. exfalso. apply B. now rewrite <- Ea, <- Eb.
  - apply Qeq_bool_iff in B. apply Qeq_bool_neq in A. exfalso. apply A. now rewrite Ea, Eb.
Qed.

Lemma Qmax2_wd a a' b b' : a == a' -> b == b' -> Qmax2 a b == Qmax2 a' b'.
Proof.
  intros Ea Eb. unfold Qmax2. fold (qle_b a b). fold (qle_b a' b'). rewrite (qle_b_wd _ _ _ _ Ea Eb).
  destruct (qle_b a' b'); assumption.
Qed.
Lemma Qmax2_ge_r a b : b <= Qmax2 a b.
Proof.
  unfold Qmax2. destruct (Qle_bool a b) eqn:E; [lra|].
  assert (b < a) by (apply (qle_b_false a b); exact E). lra.
Qed.

Lemma combine_map {A B C} (f : A -> B) (g : A -> C) l : combine (map f l) (map g l) = map (fun x => (f x, g x)) l.
Proof. induction l as [|x t IH]; cbn; [reflexivity|]. now rewrite IH. Qed.

Lemma filter_map_comm {A B} (p : B -> bool) (g : A -> B) l : filter p (map g l) = map g (filter (fun x => p (g x)) l).
Proof. induction l as [|x t IH]; cbn; [reflexivity|]. destruct (p (g x)); cbn; now rewrite IH. Qed.

Lemma qdot_map2 (f g : Q -> Q) l : qdot (map f l) (map g l) == sumQ (map (fun x => f x * g x) l).
Proof. induction l as [|x t IH]; [reflexivity|]. cbn [map sumQ]. rewrite qdot_cons, IH. reflexivity. Qed.

(* ---- the step, as a function of scale, centre and the kept points ------------- *)
Definition step_core (s M : Q) (kept : list Q) : Q :=
  let W := sumQ (map (bw_weight s M) kept) in
  if Qeq_bool W 0 then M
  else M + sumQ (map (fun x => (x - M) * bw_weight s M x) kept) / W.

Lemma biweight_stepQ_core c eps a M :
  biweight_stepQ c eps a M = step_core (bw_scale c eps M a) M (bw_kept (bw_scale c eps M a) M a).
Proof. reflexivity. Qed.

Lemma bw_u_wd s s' M M' x x' : s == s' -> M == M' -> x == x' -> bw_u s M x == bw_u s' M' x'.
Proof. intros Es Em Ex. unfold bw_u. now rewrite Es, Em, Ex. Qed.
Lemma bw_weight_wd s s' M M' x x' : s == s' -> M == M' -> x == x' -> bw_weight s M x == bw_weight s' M' x'.
Proof. intros Es Em Ex. unfold bw_weight. now rewrite (bw_u_wd _ _ _ _ _ _ Es Em Ex). Qed.

Lemma bw_scale_wd c eps M M' a : M == M' -> bw_scale c eps M a == bw_scale c eps M' a.
Proof.
  intro E. unfold bw_scale. apply Qmax2_wd; [|reflexivity].
  apply Qmult_comp; [reflexivity|]. apply median_map_ext. intros x _. now rewrite E.
Qed.

Lemma bw_kept_ext s s' M M' a : s == s' -> M == M' -> bw_kept s M a = bw_kept s' M' a.
Proof.
  intros Es Em. unfold bw_kept. apply filter_ext. intro x.
  apply qlt_b_wd; [|reflexivity]. apply Qabs_wd. apply bw_u_wd; auto. reflexivity.
Qed.

Lemma step_core_wd s s' M M' k k' : s == s' -> M == M' -> eqQ k k' -> step_core s M k == step_core s' M' k'.
Proof.
  intros Es Em Ek. unfold step_core.
  assert (EW : sumQ (map (bw_weight s M) k) == sumQ (map (bw_weight s' M') k')).
  { apply sumQ_eqQ, eqQ_map; [|exact Ek]. intros x y E. now apply bw_weight_wd. }
  assert (ES : sumQ (map (fun x => (x - M) * bw_weight s M x) k) == sumQ (map (fun x => (x - M') * bw_weight s' M' x) k')).
  { apply sumQ_eqQ, eqQ_map; [|exact Ek]. intros x y E. rewrite (bw_weight_wd _ _ _ _ _ _ Es Em E), Em, E. reflexivity. }
  rewrite (Qeq_bool_wd _ _ 0 0 EW (Qeq_refl 0)).
  destruct (Qeq_bool (sumQ (map (bw_weight s' M') k')) 0); [exact Em|].
  apply Qplus_comp; [exact Em|]. unfold Qdiv. apply Qmult_comp; [exact ES|]. apply Qinv_comp; exact EW.
Qed.

Lemma biweight_stepQ_wd c eps a M M' : M == M' -> biweight_stepQ c eps a M == biweight_stepQ c eps a M'.
Proof.
  intro E. rewrite !biweight_stepQ_core. pose proof (bw_scale_wd c eps M M' a E) as Es.
  rewrite (bw_kept_ext _ _ _ _ a Es E). apply step_core_wd; auto. reflexivity.
Qed.

(* ---- model step = published step ----------------------------------------------- *)
Lemma qmax2_is_Qmax2 a b : qmax2 a b = Qmax2 a b.
Proof. reflexivity. Qed.

Lemma biloc_scale_spec c eps a i :
  qmax2 (qmul c (median (abs_all (sub_all i a)))) eps == bw_scale c eps i a.
Proof.
  rewrite qmax2_is_Qmax2. unfold bw_scale. apply Qmax2_wd; [|reflexivity].
  rewrite qmul_spec. apply Qmult_comp; [reflexivity|]. apply median_eqQ, devs_spec.
Qed.

Lemma biloc_iter_spec c eps a i : biloc_iter c eps a i == biweight_stepQ c eps a i.
Proof.
  unfold biloc_iter, biloc_masked. cbv zeta. rewrite biweight_stepQ_core.
  pose proof (biloc_scale_spec c eps a i) as Es.
  set (sc := qmax2 (qmul c (median (abs_all (sub_all i a)))) eps) in *.
  set (s := bw_scale c eps i a) in *.
  unfold sub_all. rewrite (map_map (fun x => qsub x i) (fun di => qdiv di sc) a), combine_map, filter_map_comm. cbn [snd fst].
  assert (Ek : filter (fun x => qlt_b (qabs (qdiv (qsub x i) sc)) BILOC_MASK_BOUND) a = bw_kept s i a).
  { unfold bw_kept. apply filter_ext. intro x. apply qlt_b_wd; [|reflexivity].
    unfold qabs, bw_u. apply Qabs_wd. now rewrite qdiv_spec, qsub_spec, Es. }
  rewrite Ek. set (kept := bw_kept s i a). rewrite !map_map. cbn [fst snd].
  assert (Ew : forall x, qsq (qsub 1 (qsq (qdiv (qsub x i) sc))) == bw_weight s i x).
  { intro x. unfold bw_weight, bw_u. now rewrite qsq_spec, qsub_spec, qsq_spec, qdiv_spec, qsub_spec, Es. }
  assert (EW : qsum (map (fun x => qsq (qsub 1 (qsq (qdiv (qsub x i) sc)))) kept) == sumQ (map (bw_weight s i) kept)).
  { rewrite qsum_sumQ. apply sumQ_eqQ, eqQ_map_ext. intros x _. apply Ew. }
  unfold step_core. unfold qeq_b. rewrite (Qeq_bool_wd _ _ 0 0 EW (Qeq_refl 0)).
  destruct (Qeq_bool (sumQ (map (bw_weight s i) kept)) 0); [reflexivity|].
  rewrite qadd_spec, qdiv_spec, EW. apply Qplus_comp; [reflexivity|]. apply Qmult_comp; [|reflexivity].
  rewrite (qdot_map2 (fun x => qsub x i) (fun x => qsq (qsub 1 (qsq (qdiv (qsub x i) sc)))) kept).
  apply sumQ_eqQ, eqQ_map_ext. intros x _. now rewrite Ew, qsub_spec.
Qed.

(* ---- the loops ---------------------------------------------------------------------- *)
Lemma biloc_loop_spec fuel c eps a :
  forall i i' l l', i == i' -> l == l' ->
  biloc_loop fuel c eps a i l == biweight_iterQ fuel c eps a i' l'.
Proof.
  induction fuel as [|k IH]; intros i i' l l' Ei El; cbn [biloc_loop biweight_iterQ]; [exact El|].
  assert (Er : biloc_iter c eps a i == biweight_stepQ c eps a i').
  { rewrite biloc_iter_spec. now apply biweight_stepQ_wd. }
  assert (Eb : qle_b (qabs (qsub (biloc_iter c eps a i) i)) eps = Qle_bool (Qabs (biweight_stepQ c eps a i' - i')) eps).
  { apply qle_b_wd; [|reflexivity]. unfold qabs. apply Qabs_wd. now rewrite qsub_spec, Er, Ei. }
  rewrite Eb; clear Eb. destruct (Qle_bool _ eps); [exact Er|]. apply IH; exact Er.
Qed.

Lemma biweight_iterQ_wd fuel c eps a :
  forall M M' l l', M == M' -> l == l' -> biweight_iterQ fuel c eps a M l == biweight_iterQ fuel c eps a M' l'.
Proof.
  induction fuel as [|k IH]; intros M M' l l' Em El; cbn [biweight_iterQ]; [exact El|].
  pose proof (biweight_stepQ_wd c eps a M M' Em) as Er.
  assert (Eb : Qle_bool (Qabs (biweight_stepQ c eps a M - M)) eps = Qle_bool (Qabs (biweight_stepQ c eps a M' - M')) eps).
  { apply (qle_b_wd _ _ eps eps); [|reflexivity]. apply Qabs_wd. now rewrite Er, Em. }
  rewrite Eb; clear Eb. destruct (Qle_bool _ eps); [exact Er|]. apply IH; exact Er.
Qed.

Theorem biweight_location_core_spec a :
  biweight_location_core a None == biweight_locationQ (Z.to_nat BILOC_MAX_ITER) BILOC_C BILOC_EPS a.
Proof. unfold biweight_location_core, biweight_locationQ. apply biloc_loop_spec; reflexivity. Qed.

(* ---- order of the data ---------------------------------------------------------------- *)
Lemma step_core_perm s M k k' : Permutation k k' -> step_core s M k == step_core s M k'.
Proof.
  intro P. unfold step_core.
  pose proof (sumQ_perm _ _ (Permutation_map (bw_weight s M) P)) as EW.
  pose proof (sumQ_perm _ _ (Permutation_map (fun x => (x - M) * bw_weight s M x) P)) as ES.
  rewrite (Qeq_bool_wd _ _ 0 0 EW (Qeq_refl 0)).
  destruct (Qeq_bool (sumQ (map (bw_weight s M) k')) 0); [reflexivity|].
  apply Qplus_comp; [reflexivity|]. unfold Qdiv. apply Qmult_comp; [exact ES|]. apply Qinv_comp; exact EW.
Qed.

Lemma bw_scale_perm c eps M a a' : Permutation a a' -> bw_scale c eps M a == bw_scale c eps M a'.
Proof.
  intro P. unfold bw_scale. apply Qmax2_wd; [|reflexivity]. apply Qmult_comp; [reflexivity|].
  apply median_perm, Permutation_map, P.
Qed.

Lemma biweight_stepQ_perm c eps a a' M : Permutation a a' -> biweight_stepQ c eps a M == biweight_stepQ c eps a' M.
Proof.
  intro P. rewrite !biweight_stepQ_core. pose proof (bw_scale_perm c eps M a a' P) as Es.
  rewrite (bw_kept_ext _ _ M M a Es (Qeq_refl M)).
  rewrite (step_core_wd _ _ M M (bw_kept (bw_scale c eps M a') M a) (bw_kept (bw_scale c eps M a') M a) Es (Qeq_refl M) (eqQ_refl _)).
  apply step_core_perm. unfold bw_kept. apply filter_perm, P.
Qed.

Lemma biweight_iterQ_perm fuel c eps a a' : Permutation a a' ->
  forall M M' l l', M == M' -> l == l' -> biweight_iterQ fuel c eps a M l == biweight_iterQ fuel c eps a' M' l'.
Proof.
  intro P. induction fuel as [|k IH]; intros M M' l l' Em El; cbn [biweight_iterQ]; [exact El|].
  assert (Er : biweight_stepQ c eps a M == biweight_stepQ c eps a' M').
  { rewrite (biweight_stepQ_perm c eps a a' M P). now apply biweight_stepQ_wd. }
  assert (Eb : Qle_bool (Qabs (biweight_stepQ c eps a M - M)) eps = Qle_bool (Qabs (biweight_stepQ c eps a' M' - M')) eps).
  { apply (qle_b_wd _ _ eps eps); [|reflexivity]. apply Qabs_wd. now rewrite Er, Em. }
  rewrite Eb; clear Eb. destruct (Qle_bool _ eps); [exact Er|]. apply IH; exact Er.
Qed.

Theorem biweight_locationQ_perm n c eps a a' : Permutation a a' ->
  biweight_locationQ n c eps a == biweight_locationQ n c eps a'.
Proof. intro P. unfold biweight_locationQ. apply biweight_iterQ_perm; auto; apply median_perm, P. Qed.

Theorem biweight_location_core_perm a a' : Permutation a a' ->
  biweight_location_core a None == biweight_location_core a' None.
Proof. intro P. rewrite !biweight_location_core_spec. now apply biweight_locationQ_perm. Qed.

(* ---- adding a constant ------------------------------------------------------------------- *)
Lemma bw_scale_shift c eps M a k : bw_scale c eps (M + k) (map (fun x => x + k) a) == bw_scale c eps M a.
Proof.
  unfold bw_scale. apply Qmax2_wd; [|reflexivity]. apply Qmult_comp; [reflexivity|].
  rewrite map_map. apply median_map_ext. intros x _. apply Qabs_wd. ring.
Qed.

Lemma bw_u_shift s M x k : bw_u s (M + k) (x + k) == bw_u s M x.
Proof. unfold bw_u. apply Qmult_comp; [ring|reflexivity]. Qed.

Lemma bw_kept_shift s M a k : bw_kept s (M + k) (map (fun x => x + k) a) = map (fun x => x + k) (bw_kept s M a).
Proof.
  unfold bw_kept. rewrite filter_map_comm. f_equal. apply filter_ext. intro x.
  apply qlt_b_wd; [|reflexivity]. apply Qabs_wd, bw_u_shift.
Qed.

Lemma step_core_shift s M kept k :
  step_core s (M + k) (map (fun x => x + k) kept) == step_core s M kept + k.
Proof.
  unfold step_core. rewrite !map_map.
  assert (EW : sumQ (map (fun x => bw_weight s (M + k) (x + k)) kept) == sumQ (map (bw_weight s M) kept)).
  { apply sumQ_eqQ, eqQ_map_ext. intros x _. unfold bw_weight. now rewrite bw_u_shift. }
  assert (ES : sumQ (map (fun x => (x + k - (M + k)) * bw_weight s (M + k) (x + k)) kept) ==
               sumQ (map (fun x => (x - M) * bw_weight s M x) kept)).
  { apply sumQ_eqQ, eqQ_map_ext. intros x _. unfold bw_weight. rewrite bw_u_shift. ring. }
  rewrite (Qeq_bool_wd _ _ 0 0 EW (Qeq_refl 0)).
  destruct (Qeq_bool (sumQ (map (bw_weight s M) kept)) 0); [reflexivity|].
  rewrite ES, EW. ring.
Qed.

Lemma biweight_stepQ_shift c eps a M k :
  biweight_stepQ c eps (map (fun x => x + k) a) (M + k) == biweight_stepQ c eps a M + k.
Proof.
  rewrite !biweight_stepQ_core. pose proof (bw_scale_shift c eps M a k) as Es.
  rewrite (bw_kept_ext _ _ (M + k) (M + k) _ Es (Qeq_refl _)), bw_kept_shift.
  rewrite (step_core_wd _ _ (M + k) (M + k) _ _ Es (Qeq_refl _) (eqQ_refl _)).
  apply step_core_shift.
Qed.

Lemma biweight_iterQ_shift fuel c eps a k :
  forall M M' l l', M' == M + k -> l' == l + k ->
  biweight_iterQ fuel c eps (map (fun x => x + k) a) M' l' == biweight_iterQ fuel c eps a M l + k.
Proof.
  induction fuel as [|n IH]; intros M M' l l' Em El; cbn [biweight_iterQ]; [exact El|].
  assert (Er : biweight_stepQ c eps (map (fun x => x + k) a) M' == biweight_stepQ c eps a M + k).
  { rewrite (biweight_stepQ_wd c eps _ M' (M + k) Em). apply biweight_stepQ_shift. }
  assert (Eb : Qle_bool (Qabs (biweight_stepQ c eps (map (fun x => x + k) a) M' - M')) eps =
               Qle_bool (Qabs (biweight_stepQ c eps a M - M)) eps).
  { apply (qle_b_wd _ _ eps eps); [|reflexivity]. apply Qabs_wd. rewrite Er, Em. ring. }
  rewrite Eb; clear Eb. destruct (Qle_bool _ eps); [exact Er|]. apply IH; exact Er.
Qed.

Theorem biweight_locationQ_shift n c eps a k : a <> [] ->
  biweight_locationQ n c eps (map (fun x => x + k) a) == biweight_locationQ n c eps a + k.
Proof. intro N. unfold biweight_locationQ. apply biweight_iterQ_shift; apply median_shift, N. Qed.

Theorem biweight_location_core_shift a k : a <> [] ->
  biweight_location_core (map (fun x => x + k) a) None == biweight_location_core a None + k.
Proof. intro N. rewrite !biweight_location_core_spec. now apply biweight_locationQ_shift. Qed.

(* ---- pointwise == data ---------------------------------------------------------------------- *)
Lemma bw_kept_eqQ s M a a' : eqQ a a' -> eqQ (bw_kept s M a) (bw_kept s M a').
Proof.
  unfold bw_kept. induction 1 as [|x y l l' E _ IH]; cbn [filter]; [constructor|].
  rewrite (qlt_b_wd (Qabs (bw_u s M x)) (Qabs (bw_u s M y)) 1 1); [|apply Qabs_wd, bw_u_wd; auto; reflexivity|reflexivity].
  destruct (qlt_b (Qabs (bw_u s M y)) 1); [constructor; assumption|exact IH].
Qed.

Lemma biweight_stepQ_eqQ c eps a a' M : eqQ a a' -> biweight_stepQ c eps a M == biweight_stepQ c eps a' M.
Proof.
  intro E. rewrite !biweight_stepQ_core.
  assert (Es : bw_scale c eps M a == bw_scale c eps M a').
  { unfold bw_scale. apply Qmax2_wd; [|reflexivity]. apply Qmult_comp; [reflexivity|].
    apply median_eqQ, eqQ_map; [|exact E]. intros x y Exy. now rewrite Exy. }
  rewrite (bw_kept_ext _ _ M M a Es (Qeq_refl M)).
  apply step_core_wd; [exact Es|reflexivity|]. now apply bw_kept_eqQ.
Qed.

Lemma biweight_iterQ_eqQ fuel c eps a a' : eqQ a a' ->
  forall M M' l l', M == M' -> l == l' -> biweight_iterQ fuel c eps a M l == biweight_iterQ fuel c eps a' M' l'.
Proof.
  intro P. induction fuel as [|k IH]; intros M M' l l' Em El; cbn [biweight_iterQ]; [exact El|].
  assert (Er : biweight_stepQ c eps a M == biweight_stepQ c eps a' M').
  { rewrite (biweight_stepQ_eqQ c eps a a' M P). now apply biweight_stepQ_wd. }
  assert (Eb : Qle_bool (Qabs (biweight_stepQ c eps a M - M)) eps = Qle_bool (Qabs (biweight_stepQ c eps a' M' - M')) eps).
  { apply (qle_b_wd _ _ eps eps); [|reflexivity]. apply Qabs_wd. now rewrite Er, Em. }
  rewrite Eb; clear Eb. destruct (Qle_bool _ eps); [exact Er|]. apply IH; exact Er.
Qed.

Theorem biweight_location_core_eqQ a a' : eqQ a a' ->
  biweight_location_core a None == biweight_location_core a' None.
Proof.
  intro E. rewrite !biweight_location_core_spec. unfold biweight_locationQ.
  apply biweight_iterQ_eqQ; auto; now apply median_eqQ.
Qed.

(* ---- range ------------------------------------------------------------------------------------ *)
Lemma bw_weight_nonneg s M x : 0 <= bw_weight s M x.
Proof. unfold bw_weight. set (t := 1 - bw_u s M x * bw_u s M x). nra. Qed.

Lemma wsum_bounds s M kept lo hi : (forall x, In x kept -> lo <= x <= hi) ->
  (lo - M) * sumQ (map (bw_weight s M) kept) <= sumQ (map (fun x => (x - M) * bw_weight s M x) kept) /\
  sumQ (map (fun x => (x - M) * bw_weight s M x) kept) <= (hi - M) * sumQ (map (bw_weight s M) kept).
Proof.
  induction kept as [|x t IH]; intro H; cbn [map sumQ]; [lra|].
  destruct IH as [I1 I2]; [intros; apply H; now right|].
  destruct (H x (or_introl eq_refl)) as [H1 H2]. pose proof (bw_weight_nonneg s M x) as Hw.
  set (w := bw_weight s M x) in *. set (W := sumQ (map (bw_weight s M) t)) in *.
  set (S := sumQ (map (fun x0 => (x0 - M) * bw_weight s M x0) t)) in *.
  split; nra.
Qed.

Lemma step_core_range s M kept lo hi : (forall x, In x kept -> lo <= x <= hi) -> lo <= M <= hi ->
  lo <= step_core s M kept <= hi.
Proof.
  intros H HM. unfold step_core.
  destruct (Qeq_bool (sumQ (map (bw_weight s M) kept)) 0) eqn:E; [exact HM|].
  apply Qeq_bool_neq in E.
  assert (HW0 : 0 <= sumQ (map (bw_weight s M) kept)).
  { apply sumQ_nonneg. intros y Hy. apply in_map_iff in Hy as (x & <- & _). apply bw_weight_nonneg. }
  assert (HW : 0 < sumQ (map (bw_weight s M) kept)).
  { destruct (Qlt_le_dec 0 (sumQ (map (bw_weight s M) kept))) as [L|L]; [exact L|]. exfalso. apply E. lra. }
  destruct (wsum_bounds s M kept lo hi H) as [B1 B2].
  set (W := sumQ (map (bw_weight s M) kept)) in *.
  set (S := sumQ (map (fun x => (x - M) * bw_weight s M x) kept)) in *.
  assert (lo - M <= S / W) by (apply Qle_shift_div_l; assumption).
  assert (S / W <= hi - M) by (apply Qle_shift_div_r; assumption).
  split; lra.
Qed.

Lemma biweight_stepQ_range c eps a M lo hi : (forall x, In x a -> lo <= x <= hi) -> lo <= M <= hi ->
  lo <= biweight_stepQ c eps a M <= hi.
Proof.
  intros H HM. rewrite biweight_stepQ_core. apply step_core_range; [|exact HM].
  intros x Hx. apply H. unfold bw_kept in Hx. apply filter_In in Hx. apply Hx.
Qed.

Lemma biweight_iterQ_range fuel c eps a lo hi : (forall x, In x a -> lo <= x <= hi) ->
  forall M l, lo <= M <= hi -> lo <= l <= hi -> lo <= biweight_iterQ fuel c eps a M l <= hi.
Proof.
  intro H. induction fuel as [|k IH]; intros M l HM Hl; cbn [biweight_iterQ]; [exact Hl|].
  pose proof (biweight_stepQ_range c eps a M lo hi H HM) as Hr.
  destruct (Qle_bool _ eps); [exact Hr|]. apply IH; exact Hr.
Qed.

Theorem biweight_locationQ_range n c eps a : a <> [] ->
  qmin a <= biweight_locationQ n c eps a <= qmax a.
Proof.
  intro N. unfold biweight_locationQ.
  apply biweight_iterQ_range; try apply (median_min_max a N).
  intros x Hx. split; [now apply qmin_le|now apply qmax_ge].
Qed.

Theorem biweight_location_core_range a : a <> [] ->
  qmin a <= biweight_location_core a None <= qmax a.
Proof. intro N. rewrite biweight_location_core_spec. now apply biweight_locationQ_range. Qed.

(* ---- constant data -------------------------------------------------------------------------------- *)
Lemma step_core_fixed s M kept : (forall x, In x kept -> x == M) -> step_core s M kept == M.
Proof.
  intro H. unfold step_core. destruct (Qeq_bool _ 0); [reflexivity|].
  assert (E : sumQ (map (fun x => (x - M) * bw_weight s M x) kept) == 0).
  { clear -H. induction kept as [|x t IH]; [reflexivity|]. cbn [map sumQ].
    assert (E0 : x - M == 0) by (rewrite (H x (or_introl eq_refl)); ring).
    rewrite IH by (intros; apply H; now right). rewrite E0. ring. }
  rewrite E. unfold Qdiv. ring.
Qed.

Lemma biweight_stepQ_const c eps a M : (forall x, In x a -> x == M) -> biweight_stepQ c eps a M == M.
Proof.
  intro H. rewrite biweight_stepQ_core. apply step_core_fixed.
  intros x Hx. apply H. unfold bw_kept in Hx. apply filter_In in Hx. apply Hx.
Qed.

Lemma biweight_iterQ_const fuel c eps a v : 0 <= eps -> (forall x, In x a -> x == v) ->
  forall M l, M == v -> l == v -> biweight_iterQ fuel c eps a M l == v.
Proof.
  intros He H. destruct fuel as [|k]; intros M l Em El; cbn [biweight_iterQ]; [exact El|].
  assert (Er : biweight_stepQ c eps a M == M).
  { apply biweight_stepQ_const. intros x Hx. now rewrite (H x Hx), Em. }
  assert (Eb : Qle_bool (Qabs (biweight_stepQ c eps a M - M)) eps = true).
  { apply Qle_bool_iff. rewrite Er. setoid_replace (M - M) with 0 by ring. exact He. }
  rewrite Eb. now rewrite Er.
Qed.

Theorem biweight_locationQ_const n c eps a v : 0 <= eps -> a <> [] -> (forall x, In x a -> x == v) ->
  biweight_locationQ n c eps a == v.
Proof.
  intros He N H. unfold biweight_locationQ.
  apply biweight_iterQ_const; auto; now apply median_const.
Qed.

Lemma BILOC_EPS_pos : 0 < BILOC_EPS. Proof. reflexivity. Qed.

Theorem biweight_location_core_const a v : a <> [] -> (forall x, In x a -> x == v) ->
  biweight_location_core a None == v.
Proof.
  intros N H. rewrite biweight_location_core_spec. apply biweight_locationQ_const; auto.
  pose proof BILOC_EPS_pos. lra.
Qed.
