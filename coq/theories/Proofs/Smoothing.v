(* C19 -- smoothers: one output per input, constants reproduced by any window
   summing to 1, rolling median and non-negative windows stay within the input
   range, the wing never exceeds the signal. *)
From CNV Require Import Base.Prelude Base.QNum Proofs.QNumLemmas Gen.DescDefaults
  Model.Smoothing Spec.Stats Proofs.DescriptivesWMedian.
From Coq Require Import Qabs Qround Psatz Setoid Morphisms.
Local Open Scope Q_scope.

(* ========================================================================== *)
(** * The wing *)

Lemma wing_clamp_ok n w0 w : wing_clamp n w0 = WingOk w -> (1 <= w <= n - 1)%Z.
Proof.
  unfold wing_clamp, WING_ASSERT_MIN, MIN_WING. intro H.
  destruct (1 <=? Z.min (Z.max w0 3) (n - 1))%Z eqn:E; [|discriminate].
  injection H as <-. lia.
Qed.

Theorem width2wing_ok n width fo w : width2wing n width fo = WingOk w -> (1 <= w <= n - 1)%Z.
Proof.
  unfold width2wing. intro H.
  destruct (qlt_b 0 width && qlt_b width 1).
  - destruct (Z.abs (fo - wing_exact_frac n width) <=? 1)%Z; [|discriminate]. now apply wing_clamp_ok in H.
  - destruct (qle_b WIDTH_INT_MIN width && is_integer_q width); [|discriminate]. now apply wing_clamp_ok in H.
Qed.

(* ========================================================================== *)
(** * Padding *)

Lemma lastn_length {A} k (l : list A) : (k <= length l)%nat -> length (lastn k l) = k.
Proof. intro H. unfold lastn. rewrite skipn_length. lia. Qed.

Lemma pad_array_length {A} (x : list A) wing : (wing <= length x)%nat ->
  length (pad_array x wing) = (length x + 2 * wing)%nat.
Proof.
  intro H. unfold pad_array. rewrite !app_length, !rev_length, firstn_length, lastn_length by exact H. lia.
Qed.

Lemma In_lastn {A} k (l : list A) y : In y (lastn k l) -> In y l.
Proof. unfold lastn. intro H. rewrite <- (firstn_skipn (length l - k) l). apply in_or_app. now right. Qed.
Lemma In_firstn {A} k (l : list A) y : In y (firstn k l) -> In y l.
Proof. intro H. rewrite <- (firstn_skipn k l). apply in_or_app. now left. Qed.
Lemma In_skipn {A} k (l : list A) y : In y (skipn k l) -> In y l.
Proof. intro H. rewrite <- (firstn_skipn k l). apply in_or_app. now right. Qed.

Lemma In_pad_array {A} (x : list A) wing y : In y (pad_array x wing) -> In y x.
Proof.
  unfold pad_array. intro H. apply in_app_or in H as [H|H]; [|apply in_app_or in H as [H|H]].
  - apply in_rev in H. now apply In_firstn in H.
  - exact H.
  - apply in_rev in H. now apply In_lastn in H.
Qed.

Lemma unpad_length {A} (y : list A) wing : length (unpad y wing) = (length y - wing - wing)%nat.
Proof. unfold unpad. rewrite firstn_length, skipn_length. lia. Qed.

Lemma In_unpad {A} (y : list A) wing v : In v (unpad y wing) -> In v y.
Proof. unfold unpad. intro H. apply In_firstn in H. now apply In_skipn in H. Qed.

(* ========================================================================== *)
(** * Rolling median *)

Lemma windows_length k y count : length (windows k y count) = count.
Proof. unfold windows. now rewrite map_length, seq_length. Qed.

Lemma rolling_median_wing_length x wing : length (rolling_median_wing x wing) = length x.
Proof. unfold rolling_median_wing. now rewrite map_length, windows_length. Qed.

(* every window is a non-empty piece of the padded signal *)
Lemma window_nonempty {A} k (y : list A) i : (0 < k)%nat -> (i < length y)%nat -> firstn k (skipn i y) <> [].
Proof.
  intros Hk Hi E. apply (f_equal (@length A)) in E. rewrite firstn_length, skipn_length in E. cbn in E. lia.
Qed.

Lemma rolling_median_wing_within x wing lo hi : (wing <= length x)%nat ->
  within lo hi x -> within lo hi (rolling_median_wing x wing).
Proof.
  intros Hw H y Hy. unfold rolling_median_wing, windows in Hy. rewrite map_map in Hy.
  apply in_map_iff in Hy as (i & <- & Hi). apply in_seq in Hi.
  apply median_bounds.
  - apply window_nonempty; [lia|]. rewrite pad_array_length by exact Hw. lia.
  - intros v Hv. apply H. apply In_firstn in Hv. apply In_skipn in Hv. now apply In_pad_array in Hv.
Qed.

Lemma rolling_median_wing_const x wing c : (wing <= length x)%nat ->
  all_eq c x -> all_eq c (rolling_median_wing x wing).
Proof.
  intros Hw H y Hy. unfold rolling_median_wing, windows in Hy. rewrite map_map in Hy.
  apply in_map_iff in Hy as (i & <- & Hi). apply in_seq in Hi.
  apply median_const.
  - apply window_nonempty; [lia|]. rewrite pad_array_length by exact Hw. lia.
  - intros v Hv. apply H. apply In_firstn in Hv. apply In_skipn in Hv. now apply In_pad_array in Hv.
Qed.

(* the function with its guards *)
Lemma rolling_median_cases x width fo y : rolling_median x width fo = inl y ->
  y = x \/ exists w, (1 <= w <= Z.of_nat (length x) - 1)%Z /\ y = rolling_median_wing x (Z.to_nat w).
Proof.
  unfold rolling_median. destruct (Z.of_nat (length x) <? ROLLING_MIN_LEN)%Z; intro H.
  - left. now injection H.
  - destruct (width2wing _ width fo) as [w| | |] eqn:E; try discriminate.
    right. exists w. split; [now apply width2wing_ok in E|]. now injection H.
Qed.

Theorem rolling_median_length x width fo y : rolling_median x width fo = inl y -> length y = length x.
Proof.
  intro H. apply rolling_median_cases in H as [->|(w & _ & ->)]; [reflexivity|apply rolling_median_wing_length].
Qed.

Theorem rolling_median_within x width fo y lo hi : rolling_median x width fo = inl y ->
  within lo hi x -> within lo hi y.
Proof.
  intros H Hx. apply rolling_median_cases in H as [->|(w & Hw & ->)]; [exact Hx|].
  apply rolling_median_wing_within; [lia|exact Hx].
Qed.

Theorem rolling_median_const x width fo y c : rolling_median x width fo = inl y ->
  all_eq c x -> all_eq c y.
Proof.
  intros H Hx. apply rolling_median_cases in H as [->|(w & Hw & ->)]; [exact Hx|].
  apply rolling_median_wing_const; [lia|exact Hx].
Qed.

(* ========================================================================== *)
(** * Convolution with a window of odd length 2w+1, then un-padding *)

Lemma qdot_comm a w : qdot a w == qdot w a.
Proof.
  revert w; induction a as [|x t IH]; intros [|y w']; try reflexivity.
  rewrite !qdot_cons, IH. ring.
Qed.

Lemma qdot_const c w seg : length seg = length w -> (forall x, In x seg -> x == c) ->
  qdot w seg == c * qsum w.
Proof.
  revert seg; induction w as [|y w' IH]; intros [|x seg'] L H; cbn in L; try discriminate.
  - rewrite qsum_nil. cbn. ring.
  - rewrite qdot_cons, qsum_cons, IH by (try lia; intros; apply H; now right).
    rewrite (H x) by now left. ring.
Qed.

Lemma conv_same_length win y : length (conv_same win y) = length y.
Proof. unfold conv_same. now rewrite map_length, windows_length. Qed.

Lemma skipn_map_seq {A} (f : nat -> A) k a n : skipn k (map f (seq a n)) = map f (seq (a + k) (n - k)).
Proof.
  revert a n; induction k as [|k IH]; intros a n; [now rewrite Nat.add_0_r, Nat.sub_0_r|].
  destruct n as [|n]; [reflexivity|]. cbn [seq map skipn]. rewrite IH. f_equal. f_equal; lia.
Qed.
Lemma firstn_map_seq {A} (f : nat -> A) k a n : (k <= n)%nat -> firstn k (map f (seq a n)) = map f (seq a k).
Proof.
  revert a n; induction k as [|k IH]; intros a n H; [reflexivity|].
  destruct n as [|n]; [lia|]. cbn [seq map firstn]. rewrite IH by lia. reflexivity.
Qed.

Lemma skipn_repeat_app {A} (z : A) k (l : list A) j : skipn (k + j) (repeat z k ++ l) = skipn j l.
Proof.
  rewrite skipn_app, repeat_length. replace (k + j - k)%nat with j by lia.
  rewrite skipn_all2 by (rewrite repeat_length; lia). reflexivity.
Qed.

Lemma seq_shift_k k a n : seq (a + k) n = map (fun i => (i + k)%nat) (seq a n).
Proof.
  revert a; induction n as [|n IH]; intro a; [reflexivity|]. cbn [seq map]. f_equal. apply (IH (S a)).
Qed.

(* the interior of a "same" convolution is the plain sliding dot product *)
Lemma unpad_conv_same win y w : length win = (2 * w + 1)%nat -> (2 * w <= length y)%nat ->
  unpad (conv_same win y) w =
  map (fun j => qdot (rev win) (firstn (2 * w + 1) (skipn j y))) (seq 0 (length y - 2 * w)).
Proof.
  intros Lw Ly. unfold unpad, conv_same, windows. rewrite map_map, map_length, seq_length.
  rewrite Lw. replace ((2 * w + 1) / 2)%nat with w by lia.
  replace (2 * w + 1 - 1 - w)%nat with w by lia.
  rewrite skipn_map_seq, firstn_map_seq by lia.
  replace (length y - w - w)%nat with (length y - 2 * w)%nat by lia.
  rewrite (seq_shift_k w 0), map_map.
  apply map_ext_in. intros j Hj. apply in_seq in Hj. f_equal.
  replace (j + w)%nat with (w + j)%nat by lia. rewrite skipn_repeat_app.
  rewrite skipn_app. rewrite firstn_app.
  replace (2 * w + 1 - length (skipn j y))%nat with 0%nat by (rewrite skipn_length; lia).
  cbn [firstn]. now rewrite app_nil_r.
Qed.

Lemma In_interior_window (y : list Q) w j v : In v (firstn (2 * w + 1) (skipn j y)) -> In v y.
Proof. intro H. apply In_firstn in H. now apply In_skipn in H. Qed.

Lemma interior_window_length (y : list Q) w j : (j < length y - 2 * w)%nat ->
  length (firstn (2 * w + 1) (skipn j y)) = (2 * w + 1)%nat.
Proof. intro H. rewrite firstn_length, skipn_length. lia. Qed.

(* a window summing to 1 (after the code's own normalisation: any window whose sum is not 0) *)
Lemma normalize_sum win : ~ qsum win == 0 -> qsum (normalize win) == 1.
Proof.
  intro H. unfold normalize. set (s := qsum win) in *.
  assert (E : qsum (map (fun c => qdiv c s) win) == qsum win / s).
  { clearbody s. induction win as [|c t IH]; [cbn; unfold Qdiv; ring|].
    cbn [map]. rewrite !qsum_cons, IH, qdiv_spec. now field. }
  rewrite E. unfold s. now field.
Qed.

Lemma normalize_length win : length (normalize win) = length win.
Proof. unfold normalize. apply map_length. Qed.

Lemma normalize_nonneg win : 0 < qsum win -> (forall c, In c win -> 0 <= c) ->
  forall c, In c (normalize win) -> 0 <= c.
Proof.
  intros Hs H c Hc. unfold normalize in Hc. apply in_map_iff in Hc as (c0 & <- & Hc0).
  rewrite qdiv_spec. apply Qle_shift_div_l; [exact Hs|]. rewrite Qmult_0_l. now apply H.
Qed.

Lemma qsum_rev_eq l : qsum (rev l) == qsum l. Proof. apply qsum_rev. Qed.

(* constants are reproduced by any window whose coefficients sum to 1 *)
Lemma unpad_conv_const win y w c : length win = (2 * w + 1)%nat -> (2 * w <= length y)%nat ->
  qsum win == 1 -> all_eq c y -> all_eq c (unpad (conv_same win y) w).
Proof.
  intros Lw Ly Hs H v Hv. rewrite (unpad_conv_same win y w Lw Ly) in Hv.
  apply in_map_iff in Hv as (j & <- & Hj). apply in_seq in Hj.
  rewrite (qdot_const c).
  - rewrite qsum_rev, Hs. ring.
  - rewrite rev_length, Lw. apply interior_window_length. lia.
  - intros x Hx. apply H. now apply In_interior_window in Hx.
Qed.

(* non-negative coefficients summing to 1: a convex combination *)
Lemma unpad_conv_within win y w lo hi : length win = (2 * w + 1)%nat -> (2 * w <= length y)%nat ->
  qsum win == 1 -> (forall c, In c win -> 0 <= c) -> within lo hi y ->
  within lo hi (unpad (conv_same win y) w).
Proof.
  intros Lw Ly Hs Hnn H v Hv. rewrite (unpad_conv_same win y w Lw Ly) in Hv.
  apply in_map_iff in Hv as (j & <- & Hj). apply in_seq in Hj.
  set (seg := firstn (2 * w + 1) (skipn j y)).
  assert (Lseg : length seg = length (rev win)).
  { unfold seg. rewrite rev_length, Lw. apply interior_window_length. lia. }
  rewrite qdot_comm.
  pose proof (qdot_bounds seg (rev win) lo hi Lseg) as B.
  rewrite qsum_rev, Hs in B. rewrite !Qmult_1_r in B. apply B.
  intros x c Hxc. split.
  - apply Hnn. apply in_rev. eapply in_combine_r; eauto.
  - intros _. apply H. apply (In_interior_window y w j). eapply in_combine_l; eauto.
Qed.

(* ========================================================================== *)
(** * Kaiser (unweighted) *)

Lemma kaiser_unweighted_eq x wing window :
  kaiser_unweighted x wing window = unpad (conv_same (normalize window) (pad_array x wing)) wing.
Proof. reflexivity. Qed.

Lemma kaiser_unweighted_length x wing window : (wing <= length x)%nat ->
  length (kaiser_unweighted x wing window) = length x.
Proof.
  intro H. rewrite kaiser_unweighted_eq, unpad_length, conv_same_length, pad_array_length by exact H. lia.
Qed.

Lemma kaiser_cases x width fo window y : kaiser x width fo window = inl y ->
  y = x \/ exists w, (1 <= w <= Z.of_nat (length x) - 1)%Z /\ length window = (2 * Z.to_nat w + 1)%nat /\
                     y = kaiser_unweighted x (Z.to_nat w) window.
Proof.
  unfold kaiser. destruct (Z.of_nat (length x) <? KAISER_MIN_LEN)%Z; intro H.
  - left. now injection H.
  - destruct (width2wing _ width fo) as [w| | |] eqn:E; try discriminate.
    destruct (Nat.eqb (length window) (2 * Z.to_nat w + 1)) eqn:L; [|discriminate].
    right. exists w. apply Nat.eqb_eq in L. repeat split; [now apply width2wing_ok in E|now apply width2wing_ok in E|exact L|now injection H].
Qed.

Theorem kaiser_length x width fo window y : kaiser x width fo window = inl y -> length y = length x.
Proof.
  intro H. apply kaiser_cases in H as [->|(w & Hw & _ & ->)]; [reflexivity|].
  apply kaiser_unweighted_length. lia.
Qed.

Theorem kaiser_const x width fo window y c : kaiser x width fo window = inl y ->
  ~ qsum window == 0 -> all_eq c x -> all_eq c y.
Proof.
  intros H Hs Hx. apply kaiser_cases in H as [->|(w & Hw & Lw & ->)]; [exact Hx|].
  rewrite kaiser_unweighted_eq. apply unpad_conv_const.
  - now rewrite normalize_length.
  - rewrite pad_array_length by lia. lia.
  - now apply normalize_sum.
  - intros v Hv. apply Hx. now apply In_pad_array in Hv.
Qed.

Theorem kaiser_within x width fo window y lo hi : kaiser x width fo window = inl y ->
  0 < qsum window -> (forall c, In c window -> 0 <= c) -> within lo hi x -> within lo hi y.
Proof.
  intros H Hs Hnn Hx. apply kaiser_cases in H as [->|(w & Hw & Lw & ->)]; [exact Hx|].
  rewrite kaiser_unweighted_eq. apply unpad_conv_within.
  - now rewrite normalize_length.
  - rewrite pad_array_length by lia. lia.
  - apply normalize_sum. lra.
  - now apply normalize_nonneg.
  - intros v Hv. apply Hx. now apply In_pad_array in Hv.
Qed.
