(* C03 source tie of transfer_fields' endpoint stretch:

       if segments.chromosome.iat[0] == bins_chrom:
           segments.data.iloc[0, segments.data.columns.get_loc("start")] = bins_start
       if segments.chromosome.iat[-1] == cnarr.chromosome.iat[-1]:
           segments.data.iloc[-1, segments.data.columns.get_loc("end")] = bins_end

   is regenerated from the Python source on every run as Gen/FnSegStretch.v (fn_stretch: the first row's start and
   the last row's end afterwards, as a function of the four chromosome names, the bins' first start / last end and
   the two cells before).  Here: writing the two generated cells back into the rows is the model's
   raw_stretch_lo / raw_stretch_hi (Model/Segment.v), each applied exactly when its chromosome test holds; on a piece
   within one chromosome (what the per-arm methods hand over) it is the stretch `transfer` performs. *)
From CNV Require Import Base.Prelude Base.Str Gen.FnSegStretch Model.Segment.

(* the rows after the two cell stores: cell (0, start) and cell (-1, end) take the generated values *)
Definition code_stretch (sc0 bc0 scl bcl : string) (bs be : Z) (ws : list raw) : list raw :=
  match ws with
  | [] => []
  | w :: t =>
      let r := fn_stretch sc0 bc0 scl bcl bs be (w_lo w) (w_hi (last t w)) in
      raw_stretch_hi (snd r) (raw_stretch_lo (fst r) ws)
  end.

Lemma raw_set_lo_same w : raw_set_lo (w_lo w) w = w.
Proof. destruct w; reflexivity. Qed.

Lemma raw_set_hi_same w : raw_set_hi (w_hi w) w = w.
Proof. destruct w; reflexivity. Qed.

Lemma last_cons_default {A} (t : list A) x w : last (x :: t) w = last t x.
Proof.
  revert x w. induction t as [|y t IH]; intros x w; [reflexivity|].
  change (last (x :: y :: t) w) with (last (y :: t) w). rewrite (IH y w), (IH y x). reflexivity.
Qed.

Lemma last_default_hi t w w' : w_hi w = w_hi w' -> w_hi (last t w) = w_hi (last t w').
Proof. intro H. destruct t as [|y t]; [exact H|]. rewrite !last_cons_default. reflexivity. Qed.

Lemma raw_stretch_hi_cons v w x t : raw_stretch_hi v (w :: x :: t) = w :: raw_stretch_hi v (x :: t).
Proof. reflexivity. Qed.

Lemma raw_stretch_hi_same w t : raw_stretch_hi (w_hi (last t w)) (w :: t) = w :: t.
Proof.
  revert w. induction t as [|x t IH]; intro w.
  - cbn. rewrite raw_set_hi_same. reflexivity.
  - rewrite raw_stretch_hi_cons.
    rewrite last_cons_default, IH. reflexivity.
Qed.

Lemma source_stretch_rows sc0 bc0 scl bcl bs be w t :
  code_stretch sc0 bc0 scl bcl bs be (w :: t)
  = (if String.eqb scl bcl then raw_stretch_hi be else (fun l => l))
      ((if String.eqb sc0 bc0 then raw_stretch_lo bs else (fun l => l)) (w :: t)).
Proof.
  unfold code_stretch, fn_stretch. cbn [fst snd].
  destruct (String.eqb sc0 bc0), (String.eqb scl bcl); try reflexivity.
  - (* start stretched, end kept *)
    cbn [raw_stretch_lo].
    rewrite (last_default_hi t w (raw_set_lo bs w)) by reflexivity.
    apply raw_stretch_hi_same.
  - cbn [raw_stretch_lo]. rewrite raw_set_lo_same. reflexivity.
  - cbn [raw_stretch_lo]. rewrite raw_set_lo_same. apply raw_stretch_hi_same.
Qed.

(* a piece within one chromosome (the per-arm methods): both tests hold, and transfer_fields continues with
   exactly the rows the model's `transfer` aggregates over *)
Lemma source_stretch_transfer c cl (b : bin) bt ws :
  transfer c (b :: bt) ws
  = aggregate c (b :: bt) (code_stretch c c cl cl (b_lo b) (b_hi (last bt b)) ws).
Proof.
  unfold transfer. destruct ws as [|w t]; [reflexivity|].
  rewrite source_stretch_rows, !String.eqb_refl. reflexivity.
Qed.

(* the whole-table methods: a first / last row on another chromosome than the bins' first / last is left alone *)
Lemma source_stretch_other sc0 bc0 scl bcl bs be ws :
  String.eqb sc0 bc0 = false -> String.eqb scl bcl = false ->
  code_stretch sc0 bc0 scl bcl bs be ws = ws.
Proof.
  intros H0 H1. destruct ws as [|w t]; [reflexivity|].
  rewrite source_stretch_rows, H0, H1. reflexivity.
Qed.
