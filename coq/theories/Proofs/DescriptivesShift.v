(* C19 -- REUSABLE equivariance lemmas for the location estimators of
   cnvlib/descriptives.py (for C15 centring, C04 fix, C05 reference ...):

     median        : [median_shift], [median_scale], [median_affine], [median_perm]   (Proofs/QNumLemmas.v)
     mean          : [qmean_shift], [qmean_scale], [qmean_PermQ]                      (Proofs/QNumLemmas.v)
     weighted mean : [wmean_shift], [wmean_scale], [wmean_weights_scale]              (Proofs/QNumLemmas.v)
     weighted median (this file, on any arrangement of the pairs by value):
        [wmedian_sorted_map]    f midpoint-affine  ->  wmedian (f values) == f (wmedian values)
        [wmedian_sorted_shift]  values + c         ->  result + c
        [wmedian_sorted_scale]  k * values         ->  k * result          (every k; for k < 0 the arrangement is reversed by the caller)
        [wmedian_sorted_affine]
     biweight location / midvariance: Proofs/DescriptivesBiweight.v
        [biweight_location_shift], [biweight_location_perm], [biweight_location_range],
        [bivar_sq_shift], [bivar_sq_perm]

   All statements are about exact rational arithmetic ([==] on Q). *)
From CNV Require Import Base.Prelude Base.QNum Proofs.QNumLemmas Gen.DescDefaults
  Model.Descriptives Spec.Stats Proofs.DescriptivesWMedian.
From Coq Require Import Qabs Qround Psatz Setoid Morphisms.
Local Open Scope Q_scope.

(* apply f to the values, keep the weights *)
Definition map_values (f : Q -> Q) (ps : list (Q * Q)) : list (Q * Q) :=
  map (fun p => (f (fst p), snd p)) ps.

Lemma map_values_snd f ps : map snd (map_values f ps) = map snd ps.
Proof. unfold map_values. rewrite map_map. apply map_ext. reflexivity. Qed.

Lemma map_values_length f ps : length (map_values f ps) = length ps.
Proof. apply map_length. Qed.

Lemma argmax_from_map f best ps :
  argmax_from (f (fst best), snd best) (map_values f ps) =
  (f (fst (argmax_from best ps)), snd (argmax_from best ps)).
Proof.
  revert best; induction ps as [|p t IH]; intro best; cbn [map_values map argmax_from]; [reflexivity|].
  fold (map_values f t). cbn [snd]. destruct (qlt_b (snd best) (snd p)); apply IH.
Qed.

Lemma existsb_map_values f g ps :
  existsb (fun p => g (snd p)) (map_values f ps) = existsb (fun p => g (snd p)) ps.
Proof. induction ps as [|p t IH]; cbn; [reflexivity|]. now rewrite <- IH. Qed.

(* the search only looks at the weights: it commutes with every map of the values
   that respects == and midpoints *)
Lemma walk_map (f : Q -> Q) mid tol :
  Proper (Qeq ==> Qeq) f -> midpoint_hom f ->
  forall cur acc, cur <> [] -> mid - tol <= acc + wtotal cur ->
  wmed_walk mid tol acc (map_values f cur) == f (wmed_walk mid tol acc cur).
Proof.
  intros Hf Hmidf cur. induction cur as [|[v w] rest IH]; intros acc Hne Hreach; [congruence|].
  cbn [map_values map wmed_walk fst snd]. fold (map_values f rest).
  assert (Hc : qadd acc w == acc + w) by apply qadd_spec.
  destruct (qle_b (qsub mid tol) (qadd acc w)) eqn:E.
  - destruct rest as [|[v2 w2] rest']; [reflexivity|]. cbn [map_values map fst snd].
    destruct (qle_b (qabs (qsub (qadd acc w) mid)) tol); [|reflexivity].
    rewrite !qdiv_spec, !qadd_spec. symmetry. apply Hmidf.
  - apply qle_b_false in E. rewrite qsub_spec, Hc in E.
    assert (Hne' : rest <> []).
    { intro R; subst rest. rewrite wtotal_cons in Hreach. unfold wtotal in Hreach; cbn [map sumQ snd] in Hreach. lra. }
    apply IH; [exact Hne'|]. rewrite Hc. rewrite wtotal_cons in Hreach. cbn [snd] in Hreach. lra.
Qed.

Lemma wmedian_sorted_map (f : Q -> Q) ps :
  Proper (Qeq ==> Qeq) f -> midpoint_hom f -> ps <> [] -> nonneg_weights ps ->
  wmedian_sorted (map_values f ps) == f (wmedian_sorted ps).
Proof.
  intros Hf Hmidf Hne Hnn. unfold wmedian_sorted, wmed_tol.
  rewrite map_values_snd, map_values_length.
  rewrite (existsb_map_values f (fun y => qlt_b (qmul WMEDIAN_HALF (qsum (map snd ps))) y)).
  destruct (existsb _ ps).
  - destruct ps as [|p t]; [congruence|]. cbn [map_values map]. fold (map_values f t).
    rewrite argmax_from_map. reflexivity.
  - apply walk_map; try assumption.
    pose proof (wtotal_nonneg _ Hnn) as HW. pose proof (wmed_tol_nonneg _ Hnn) as HT.
    unfold wmed_tol in HT.
    set (T := qmul (qmul (qofnat (length ps)) WMEDIAN_TOL_EPS) (qsum (map snd ps))) in *.
    rewrite (qmul_spec WMEDIAN_HALF), qsum_map_snd. unfold WMEDIAN_HALF. lra.
Qed.

Lemma midpoint_hom_affine k c : midpoint_hom (fun x => k * x + c).
Proof. intros a b. field. Qed.
Lemma proper_affine k c : Proper (Qeq ==> Qeq) (fun x => k * x + c).
Proof. intros a b E. now rewrite E. Qed.

Theorem wmedian_sorted_affine k c ps : ps <> [] -> nonneg_weights ps ->
  wmedian_sorted (map_values (fun x => k * x + c) ps) == k * wmedian_sorted ps + c.
Proof. intros. apply (wmedian_sorted_map (fun x => k * x + c)); auto using midpoint_hom_affine, proper_affine. Qed.

Theorem wmedian_sorted_shift c ps : ps <> [] -> nonneg_weights ps ->
  wmedian_sorted (map_values (fun x => x + c) ps) == wmedian_sorted ps + c.
Proof.
  intros. apply (wmedian_sorted_map (fun x => x + c)); auto.
  - intros a b E. now rewrite E.
  - intros a b. field.
Qed.

Theorem wmedian_sorted_scale k ps : ps <> [] -> nonneg_weights ps ->
  wmedian_sorted (map_values (fun x => k * x) ps) == k * wmedian_sorted ps.
Proof.
  intros. apply (wmedian_sorted_map (fun x => k * x)); auto.
  - intros a b E. now rewrite E.
  - intros a b. field.
Qed.

(* the arrangement by value survives a monotone map of the values *)
Lemma map_values_sorted (f : Q -> Q) ps :
  (forall a b, a <= b -> f a <= f b) -> sorted_by_value ps -> sorted_by_value (map_values f ps).
Proof.
  intros Hf. unfold sorted_by_value. induction 1 as [|p t S IH F]; cbn [map_values map]; constructor.
  - exact IH.
  - rewrite Forall_forall in *. intros q Hq. apply in_map_iff in Hq as (q0 & <- & Hq0). cbn [fst].
    apply Hf. now apply F.
Qed.

Lemma map_values_nonneg f ps : nonneg_weights ps -> nonneg_weights (map_values f ps).
Proof. intros H q Hq. apply in_map_iff in Hq as (q0 & <- & Hq0). cbn [snd]. now apply H. Qed.
