(* C19 -- weighted median with equal positive weights is the ordinary median
   (as long as the rounding allowance n^2 * 2^-52 stays below half a weight,
   i.e. for fewer than 2^25.5 values). *)
From CNV Require Import Base.Prelude Base.QNum Proofs.QNumLemmas Gen.DescDefaults
  Model.Descriptives Spec.Stats Proofs.DescriptivesWMedian.
From Coq Require Import Qabs Qround Psatz Setoid Morphisms ZifyNat.
Local Open Scope Q_scope.

Definition eqw (w : Q) (s : list Q) : list (Q * Q) := map (fun v => (v, w)) s.

Lemma eqw_length w s : length (eqw w s) = length s.
Proof. apply map_length. Qed.

Lemma wtotal_eqw w s : wtotal (eqw w s) == qofnat (length s) * w.
Proof.
  induction s as [|v t IH]; [unfold wtotal; cbn [eqw map sumQ length]; rewrite qofnat_0; ring|].
  cbn [eqw map]. rewrite wtotal_cons. cbn [snd length]. fold (eqw w t). rewrite IH, qofnat_S. ring.
Qed.

Lemma scale_lt a b w : 0 < w -> a < b -> a * w < b * w.
Proof. intros Hw H. apply Qmult_lt_compat_r; assumption. Qed.
Lemma scale_le a b w : 0 < w -> a <= b -> a * w <= b * w.
Proof. intros Hw H. apply Qmult_le_compat_r; [assumption|lra]. Qed.

Lemma qofnat_lt_S j k : (S j <= k)%nat -> qofnat j + 1 <= qofnat k.
Proof. intro H. rewrite <- qofnat_S. now apply qofnat_le. Qed.

Section Equal.
  Variable w : Q.
  Hypothesis Hw : 0 < w.

  (* n = 2k values: the search stops at the k-th running sum, which is exactly the half *)
  Lemma walk_equal_even mid tol k t :
    0 <= t -> t < 1 -> tol == t * w -> mid == qofnat k * w ->
    forall rest j acc, (j < k)%nat -> length rest = (2 * k - j)%nat -> acc == qofnat j * w ->
    wmed_walk mid tol acc (eqw w rest) == (nthq (k - 1 - j) rest + nthq (k - j) rest) * (1 # 2).
  Proof.
    intros Ht0 Ht1 Htol Hmid rest.
    induction rest as [|v r IH]; intros j acc Hj Hlen Hacc; [cbn in Hlen; lia|].
    cbn [eqw map wmed_walk]. fold (eqw w r).
    assert (Hc : qadd acc w == (qofnat j + 1) * w) by (rewrite qadd_spec, Hacc; ring).
    assert (Htw : 0 <= t * w) by (apply Qmult_le_0_compat; lra).
    destruct (Nat.eq_dec (S j) k) as [Ejk|Njk].
    - (* the k-th running sum *)
      assert (HcK : qadd acc w == mid).
      { rewrite Hc, Hmid, <- Ejk, qofnat_S. reflexivity. }
      assert (E : qle_b (qsub mid tol) (qadd acc w) = true).
      { apply qle_b_iff. rewrite qsub_spec, HcK, Htol. lra. }
      rewrite E.
      destruct r as [|v2 r']; [cbn in Hlen; lia|]. cbn [eqw map].
      assert (T : qle_b (qabs (qsub (qadd acc w) mid)) tol = true).
      { apply qle_b_iff. unfold qabs. rewrite qsub_spec, HcK.
        setoid_replace (mid - mid) with 0 by ring. cbn [Qabs Z.abs]. rewrite Htol. exact Htw. }
      rewrite T. rewrite qdiv_spec, qadd_spec.
      replace (k - 1 - j)%nat with 0%nat by lia. replace (k - j)%nat with 1%nat by lia.
      cbn [nthq nth]. field.
    - assert (Hlt : (S (S j) <= k)%nat) by lia.
      assert (E : qle_b (qsub mid tol) (qadd acc w) = false).
      { apply qle_b_false. rewrite qsub_spec, Hc, Hmid, Htol.
        setoid_replace (qofnat k * w - t * w) with ((qofnat k - t) * w) by ring.
        apply scale_lt; [exact Hw|]. pose proof (qofnat_lt_S (S j) k Hlt) as H. rewrite qofnat_S in H. lra. }
      rewrite E.
      rewrite (IH (S j) (qadd acc w)); [|lia|cbn in Hlen; lia|rewrite Hc, qofnat_S; reflexivity].
      replace (k - 1 - j)%nat with (S (k - 1 - S j)) by lia.
      replace (k - j)%nat with (S (k - S j)) by lia.
      cbn [nthq nth]. reflexivity.
  Qed.

  (* n = 2k+1 values: the search stops at the (k+1)-th running sum, half a weight beyond the half *)
  Lemma walk_equal_odd mid tol k t :
    0 <= t -> t < 1 # 2 -> tol == t * w -> mid == (qofnat k + (1 # 2)) * w ->
    forall rest j acc, (j <= k)%nat -> length rest = (2 * k + 1 - j)%nat -> acc == qofnat j * w ->
    wmed_walk mid tol acc (eqw w rest) == nthq (k - j) rest.
  Proof.
    intros Ht0 Ht1 Htol Hmid rest.
    induction rest as [|v r IH]; intros j acc Hj Hlen Hacc; [cbn in Hlen; lia|].
    cbn [eqw map wmed_walk]. fold (eqw w r).
    assert (Hc : qadd acc w == (qofnat j + 1) * w) by (rewrite qadd_spec, Hacc; ring).
    assert (Htw : 0 <= t * w) by (apply Qmult_le_0_compat; lra).
    destruct (Nat.eq_dec j k) as [Ejk|Njk].
    - subst j.
      assert (E : qle_b (qsub mid tol) (qadd acc w) = true).
      { apply qle_b_iff. rewrite qsub_spec, Hc, Hmid, Htol.
        setoid_replace ((qofnat k + (1 # 2)) * w - t * w) with ((qofnat k + (1 # 2) - t) * w) by ring.
        apply scale_le; [exact Hw|lra]. }
      rewrite E. replace (k - k)%nat with 0%nat by lia.
      destruct r as [|v2 r']; [reflexivity|]. cbn [eqw map].
      assert (T : qle_b (qabs (qsub (qadd acc w) mid)) tol = false).
      { apply qle_b_false. unfold qabs. rewrite qsub_spec, Hc, Hmid, Htol.
        setoid_replace ((qofnat k + 1) * w - (qofnat k + (1 # 2)) * w) with ((1 # 2) * w) by ring.
        rewrite Qabs_pos by (apply Qmult_le_0_compat; lra).
        apply scale_lt; [exact Hw|exact Ht1]. }
      rewrite T. reflexivity.
    - assert (Hlt : (S j <= k)%nat) by lia.
      assert (E : qle_b (qsub mid tol) (qadd acc w) = false).
      { apply qle_b_false. rewrite qsub_spec, Hc, Hmid, Htol.
        setoid_replace ((qofnat k + (1 # 2)) * w - t * w) with ((qofnat k + (1 # 2) - t) * w) by ring.
        apply scale_lt; [exact Hw|]. pose proof (qofnat_lt_S j k Hlt). lra. }
      rewrite E.
      rewrite (IH (S j) (qadd acc w)); [|lia|cbn in Hlen; lia|rewrite Hc, qofnat_S; reflexivity].
      replace (k - j)%nat with (S (k - S j)) by lia. cbn [nthq nth]. reflexivity.
  Qed.

  Lemma existsb_eqw_false mid s : w <= mid -> existsb (fun p => qlt_b mid (snd p)) (eqw w s) = false.
  Proof.
    intro H. destruct (existsb _ (eqw w s)) eqn:E; [|reflexivity].
    apply existsb_exists in E as (p & Hp & Hlt). unfold eqw in Hp. apply in_map_iff in Hp as (v & <- & _).
    cbn [snd] in Hlt. apply qlt_b_iff in Hlt. lra.
  Qed.

  (* the rounding allowance, as a multiple of one weight *)
  Definition tol_units (n : nat) : Q := qofnat n * qofnat n * WMEDIAN_TOL_EPS.

  Lemma wmed_tol_eqw s : wmed_tol (eqw w s) == tol_units (length s) * w.
  Proof. rewrite wmed_tol_spec, eqw_length, wtotal_eqw. unfold tol_units. ring. Qed.

  Lemma tol_units_nonneg n : 0 <= tol_units n.
  Proof.
    unfold tol_units. pose proof (qofnat_nonneg n).
    assert (0 <= WMEDIAN_TOL_EPS) by (unfold WMEDIAN_TOL_EPS, Qle; cbn; lia).
    apply Qmult_le_0_compat; [apply Qmult_le_0_compat|]; assumption.
  Qed.

  Theorem wmedian_equal_weights s :
    s <> [] -> tol_units (length s) < 1 # 2 ->
    wmedian_sorted (eqw w s) == median_sorted s.
  Proof.
    intros Hne Hn. unfold wmedian_sorted.
    assert (Hmid : qmul WMEDIAN_HALF (qsum (map snd (eqw w s))) == qofnat (length s) * w * (1 # 2)).
    { rewrite qmul_spec, qsum_map_snd, wtotal_eqw. unfold WMEDIAN_HALF. ring. }
    destruct s as [|v [|v2 r]]; [congruence| |].
    - (* a single value holds all the weight *)
      cbn [eqw map existsb snd length] in *.
      assert (E : qlt_b (qmul WMEDIAN_HALF (qsum [w])) w = true).
      { apply qlt_b_iff. rewrite Hmid. change (qofnat 1) with 1. lra. }
      rewrite E. cbn. reflexivity.
    - set (s := v :: v2 :: r) in *.
      assert (Hlen2 : (2 <= length s)%nat) by (unfold s; cbn; lia).
      rewrite existsb_eqw_false.
      2:{ rewrite Hmid. setoid_replace (qofnat (length s) * w * (1 # 2)) with ((qofnat (length s) * (1 # 2)) * w) by ring.
          setoid_replace w with (1 * w) at 1 by ring. apply scale_le; [exact Hw|].
          pose proof (qofnat_le 2 (length s) Hlen2) as H2. change (qofnat 2) with 2 in H2. lra. }
      pose proof (tol_units_nonneg (length s)) as Ht0.
      destruct (Nat.even (length s)) eqn:Ev.
      + pose proof (even_half_true _ Ev) as Hk. set (k := (length s / 2)%nat) in *.
        assert (HQ : qofnat (length s) == 2 * qofnat k).
        { unfold qofnat. replace (Z.of_nat (length s)) with (2 * Z.of_nat k)%Z by lia.
          rewrite inject_Z_mult. reflexivity. }
        assert (HM : qmul WMEDIAN_HALF (qsum (map snd (eqw w s))) == qofnat k * w) by (rewrite Hmid, HQ; ring).
        assert (H1 : tol_units (length s) < 1) by lra.
        assert (Hj : (0 < k)%nat) by lia.
        assert (Hl : length s = (2 * k - 0)%nat) by lia.
        assert (Ha : 0 == qofnat 0 * w) by (rewrite qofnat_0; ring).
        rewrite (walk_equal_even _ _ k (tol_units (length s)) Ht0 H1 (wmed_tol_eqw s) HM s 0%nat 0 Hj Hl Ha).
        rewrite median_sorted_even by exact Ev. fold k. rewrite !Nat.sub_0_r. field.
      + pose proof (even_half_false _ Ev) as Hk. set (k := (length s / 2)%nat) in *.
        assert (HQ : qofnat (length s) == 2 * qofnat k + 1).
        { unfold qofnat. replace (Z.of_nat (length s)) with (2 * Z.of_nat k + 1)%Z by lia.
          rewrite inject_Z_plus, inject_Z_mult. reflexivity. }
        assert (HM : qmul WMEDIAN_HALF (qsum (map snd (eqw w s))) == (qofnat k + (1 # 2)) * w) by (rewrite Hmid, HQ; ring).
        assert (Hj : (0 <= k)%nat) by lia.
        assert (Hl : length s = (2 * k + 1 - 0)%nat) by lia.
        assert (Ha : 0 == qofnat 0 * w) by (rewrite qofnat_0; ring).
        rewrite (walk_equal_odd _ _ k (tol_units (length s)) Ht0 Hn (wmed_tol_eqw s) HM s 0%nat 0 Hj Hl Ha).
        rewrite median_sorted_odd by exact Ev. fold k. rewrite Nat.sub_0_r. reflexivity.
  Qed.
End Equal.

(* n^2 * 2^-52 < 1/2 holds for every n < 2^25.5; in particular for the property's n <= 400 *)
Lemma tol_units_small n : (Z.of_nat n * Z.of_nat n < 2 ^ 51)%Z -> tol_units n < 1 # 2.
Proof.
  intro H. unfold tol_units, WMEDIAN_TOL_EPS, qofnat, Qlt, Qmult, inject_Z; cbn [Qnum Qden].
  change (Z.pos 4503599627370496) with (2 ^ 52)%Z. nia.
Qed.
