(* C20 proofs, merge_samples / CDT / JTV / nexus-basic: one row per bin with its label and each
   sample's log2 in its own column; samples whose bins (labels) differ, or a duplicate sample
   id, are refused. *)
From CNV Require Import Base.Prelude Base.Str Model.Decimal Gen.ExportDefaults.
From CNV Require Import Model.Export Spec.Export Proofs.ExportLib.
From CNV Require Model.Formats Gen.Formats.

Local Open Scope Z_scope.

Lemma bin_label_spec b : bin_label b = sp_label b.
Proof. unfold bin_label, sp_label. change label_start_off with 0. now rewrite Z.add_0_r. Qed.

Lemma map_bin_label l : map bin_label l = map sp_label l.
Proof. apply map_ext. exact bin_label_spec. Qed.

Lemma reserved_spec : merge_reserved = sp_reserved.
Proof. reflexivity. Qed.

Definition col_of (s : string * list bin) : string * list Q := (fst s, map b_v (snd s)).

(* ---------------------------------------------------------------- merge_rest inverted *)

Lemma merge_rest_ok rest : forall m k,
  Forall (fun s : string * list bin => map sp_label (snd s) = m_labels m) rest ->
  NoDup (map fst (m_cols m) ++ map fst rest) ->
  Forall (fun s : string * list bin => ~ In (fst s) sp_reserved) rest ->
  merge_rest m k rest = MergeOk (mkMerged (m_labels m) (m_cols m ++ map col_of rest)).
Proof.
  induction rest as [|[sid bins] rest IH]; intros m k HL ND HR; cbn [merge_rest map].
  - rewrite app_nil_r. destruct m; reflexivity.
  - inversion HL as [|? ? HL1 HL2]; subst. inversion HR as [|? ? HR1 HR2]; subst. cbn [fst snd] in *.
    rewrite map_bin_label, HL1.
    assert (E1 : (length bins =? length (m_labels m))%nat = true).
    { apply Nat.eqb_eq. rewrite <- HL1. now rewrite map_length. }
    assert (E2 : list_eqb String.eqb (m_labels m) (m_labels m) = true) by now apply list_eqb_eq.
    rewrite E1, E2. cbn [andb negb].
    assert (E3 : mem_string sid (column_names m) = false).
    { apply mem_string_false. unfold column_names. rewrite reserved_spec. intro H. apply in_app_or in H.
      destruct H as [H|H]; [now apply HR1|].
      apply NoDup_remove_2 in ND. apply ND. apply in_or_app. now left. }
    rewrite E3.
    rewrite (IH (mkMerged (m_labels m) (m_cols m ++ [(sid, map b_v bins)])) (S k)); cbn [m_labels m_cols].
    + rewrite <- app_assoc. reflexivity.
    + exact HL2.
    + rewrite map_app. cbn [map fst]. rewrite <- app_assoc. exact ND.
    + exact HR2.
Qed.

Lemma merge_rest_inv rest : forall m k m',
  merge_rest m k rest = MergeOk m' ->
  Forall (fun s : string * list bin => map sp_label (snd s) = m_labels m) rest /\
  (NoDup (map fst (m_cols m)) -> NoDup (map fst (m_cols m) ++ map fst rest)) /\
  Forall (fun s : string * list bin => ~ In (fst s) sp_reserved) rest /\
  m' = mkMerged (m_labels m) (m_cols m ++ map col_of rest).
Proof.
  induction rest as [|[sid bins] rest IH]; intros m k m' H; cbn [merge_rest] in H.
  - injection H as <-. repeat split; try constructor. + now rewrite app_nil_r. + rewrite app_nil_r. now destruct m.
  - destruct (negb _) eqn:C in H; [discriminate|].
    apply negb_false_iff, andb_true_iff in C. destruct C as [_ C]. apply list_eqb_eq in C.
    destruct (mem_string sid (column_names m)) eqn:M in H; [discriminate|].
    apply mem_string_false in M.
    apply IH in H. cbn [m_labels m_cols] in H. destruct H as (HL & HN & HR & ->).
    rewrite map_bin_label in C.
    assert (Hsid : ~ In sid sp_reserved /\ ~ In sid (map fst (m_cols m))).
    { unfold column_names in M. rewrite reserved_spec in M. split; intro K; apply M; apply in_or_app; auto. }
    repeat split.
    + constructor; [exact C | exact HL].
    + intro ND. cbn [map fst]. rewrite map_app in HN. cbn [map fst] in HN. rewrite <- app_assoc in HN.
      apply HN. apply NoDup_app_snoc; tauto.
    + constructor; [tauto | exact HR].
    + cbn [map]. rewrite <- app_assoc. reflexivity.
Qed.

(* ---------------------------------------------------------------- merge_samples decided *)

Definition merged_of (samples : list (string * list bin)) : merged :=
  mkMerged (match samples with (_, bins0) :: _ => map sp_label bins0 | [] => [] end) (map col_of samples).

Lemma merge_samples_ok samples :
  samples <> [] -> sp_same_bins samples -> sp_ids_ok samples ->
  merge_samples samples = MergeOk (merged_of samples).
Proof.
  destruct samples as [|[sid0 bins0] rest]; [congruence|]. intros _ HS [ND HR].
  unfold merge_samples. inversion HR as [|? ? HR1 HR2]; subst. cbn [fst] in HR1.
  assert (M : mem_string sid0 merge_reserved = false) by (apply mem_string_false; now rewrite reserved_spec).
  rewrite M, map_bin_label.
  rewrite (merge_rest_ok rest (mkMerged (map sp_label bins0) [(sid0, map b_v bins0)]) 1%nat); cbn [m_labels m_cols].
  - reflexivity.
  - exact HS.
  - exact ND.
  - exact HR2.
Qed.

Lemma merge_samples_inv samples m :
  merge_samples samples = MergeOk m ->
  samples <> [] /\ sp_same_bins samples /\ sp_ids_ok samples /\ m = merged_of samples.
Proof.
  destruct samples as [|[sid0 bins0] rest]; [discriminate|]. unfold merge_samples.
  destruct (mem_string sid0 merge_reserved) eqn:M; [discriminate|].
  apply mem_string_false in M. rewrite reserved_spec in M.
  intro H. apply merge_rest_inv in H. cbn [m_labels m_cols] in H. destruct H as (HL & HN & HR & ->).
  rewrite map_bin_label in *.
  split; [congruence|]. split; [exact HL|]. split; [|reflexivity].
  split.
  - apply (HN (NoDup_cons sid0 (fun K : In sid0 [] => K) (NoDup_nil _))).
  - constructor; [exact M | exact HR].
Qed.

(* refusal: bins that differ, or ids that repeat / collide with a table column *)
Lemma merge_samples_refuses samples :
  ~ (sp_same_bins samples /\ sp_ids_ok samples) -> forall m, merge_samples samples <> MergeOk m.
Proof. intros H m K. apply merge_samples_inv in K. tauto. Qed.

(* ---------------------------------------------------------------- rows of the matrix *)

Lemma nth_tl {A} (l : list A) i d : nth i (tl l) d = nth (S i) l d.
Proof. destruct l; [destruct i|]; reflexivity. Qed.

Lemma matrix_rows_seq labels : forall cols,
  matrix_rows labels cols
  = map (fun i => (nth i labels ""%string, map (fun col => nth i col 0%Q) cols)) (seq 0 (length labels)).
Proof.
  induction labels as [|l ls IH]; intro cols; [reflexivity|].
  cbn [matrix_rows length seq map nth]. f_equal.
  - f_equal. apply map_ext. intros [|? ?]; reflexivity.
  - rewrite IH, map_seq_shift. apply map_ext. intro i. cbn [nth]. f_equal.
    rewrite map_map. apply map_ext. intro col. apply nth_tl.
Qed.

Lemma merged_rows_spec samples :
  merged_rows (merged_of samples) = sp_matrix samples.
Proof.
  destruct samples as [|[sid0 bins0] rest]; [reflexivity|].
  unfold merged_rows, merged_of, sp_matrix. cbn [m_labels m_cols].
  rewrite matrix_rows_seq, map_length. apply map_ext_in. intros i Hi. apply in_seq in Hi.
  f_equal.
  - rewrite (nth_indep (map sp_label bins0) ""%string (sp_label dflt_bin)) by (rewrite map_length; lia).
    apply map_nth.
  - rewrite !map_map. apply map_ext. intros [sid bins]. unfold col_of. cbn [fst snd].
    change 0%Q with (b_v dflt_bin). apply map_nth.
Qed.

Lemma matrix_ok samples :
  samples <> [] -> sp_same_bins samples -> sp_ids_ok samples ->
  merge_samples samples = MergeOk (merged_of samples) /\
  map fst (m_cols (merged_of samples)) = map fst samples /\
  merged_rows (merged_of samples) = sp_matrix samples.
Proof.
  intros H1 H2 H3. split; [now apply merge_samples_ok|]. split; [|apply merged_rows_spec].
  unfold merged_of. cbn [m_cols]. rewrite map_map. reflexivity.
Qed.

(* ---------------------------------------------------------------- CDT / JTV / nexus *)

Lemma cdt_rows_spec rows : forall k,
  cdt_rows (Z.of_nat k) rows
  = map (fun p : nat * (string * list Q) => sp_cdt_row (fst p) (snd p)) (combine (seq k (length rows)) rows).
Proof.
  induction rows as [|[l vs] t IH]; intro k; [reflexivity|].
  cbn [cdt_rows length seq combine map fst snd].
  replace (Z.of_nat k + 1) with (Z.of_nat (S k)) by lia. rewrite IH. reflexivity.
Qed.

Lemma arry_ids_spec ids : forall k,
  arry_ids (Z.of_nat k) ids
  = map (fun i => ("ARRY" ++ zfill 3 (print_Z (Z.of_nat i)) ++ "X")%string) (seq k (length ids)).
Proof.
  induction ids as [|x t IH]; intro k; [reflexivity|].
  cbn [arry_ids length seq map].
  replace (Z.of_nat k + 1) with (Z.of_nat (S k)) by lia. rewrite IH. reflexivity.
Qed.

Lemma fmt_cdt_spec ids m :
  fmt_cdt ids m =
  ((["GID"; "CLID"; "NAME"; "GWEIGHT"]%string ++ ids),
   ((["AID"; ""; ""; ""]%string
     ++ map (fun i => ("ARRY" ++ zfill 3 (print_Z (Z.of_nat i)) ++ "X")%string) (seq 0 (length ids))),
    (["EWEIGHT"; ""; ""; ""]%string ++ map (fun _ => "1"%string) ids)),
   map (fun p : nat * (string * list Q) => sp_cdt_row (fst p) (snd p))
       (combine (seq 0 (length (merged_rows m))) (merged_rows m))).
Proof.
  unfold fmt_cdt. rewrite <- (cdt_rows_spec (merged_rows m) 0), <- (arry_ids_spec ids 0). reflexivity.
Qed.

Lemma fmt_jtv_spec ids m :
  fmt_jtv ids m = ((["CloneID"; "Name"]%string ++ ids),
                   map (fun r : string * list Q => ("IMAGE:"%string, fst r, snd r)) (merged_rows m)).
Proof. reflexivity. Qed.

Lemma nexus_spec bins : export_nexus_basic bins = map sp_nexus_row bins.
Proof.
  unfold export_nexus_basic. apply map_ext. intro b. unfold sp_nexus_row, Formats.to_label.
  change Gen.Formats.off_to_label with 1. reflexivity.
Qed.
