(* C03 proofs, part 10: the haar path end to end.  The table segment_haar / one_chrom builds
   from the haarSeg result (Model/Haar.v, the C11 core) is the table of `groups_of_breaks` for
   the breakpoints that core computes (piece by piece, shifted to the arm, plus the piece
   boundaries of haar's own by_arm), and its log2 column is SegmentByPeaks' mean of the
   piece's (smoothed) signal over the segment's index range.  The facts about the breakpoints
   (strictly increasing, inside 1 .. n-2) are IMPORTED from Props/C11.v (C11_sizes). *)
From Coq Require Import QArith.Qabs.
From CNV Require Import Base.Prelude Base.Str Gen.SegDefaults Model.Arms Model.Segment Spec.Segments
  Proofs.SegTiles Proofs.SegArm Proofs.SegByArm.
From CNV Require Model.Haar Spec.Haar Props.C11.

Module H := CNV.Model.Haar.
Module SH := CNV.Spec.Haar.

(* ---- list plumbing ----------------------------------------------------------------------- *)

Lemma last_as_nth {A} (d : A) : forall r x, last r x = nth (length r) (x :: r) d.
Proof.
  induction r as [|y r' IH]; intros x; [reflexivity|].
  rewrite last_cons. rewrite IH. reflexivity.
Qed.

Lemma combine_map_same {A B C} (f : A -> B) (g : A -> C) (l : list A) :
  combine (map f l) (map g l) = map (fun x => (f x, g x)) l.
Proof. induction l as [|x t IH]; [reflexivity|]. cbn [map combine]. rewrite IH. reflexivity. Qed.

Lemma skipn_skipn_add {A} : forall a b (l : list A), skipn a (skipn b l) = skipn (b + a) l.
Proof.
  intros a b; revert a; induction b as [|b IH]; intros a l; [reflexivity|].
  destruct l as [|x t]; [rewrite !skipn_nil; reflexivity|]. cbn [skipn plus]. apply IH.
Qed.

(* ---- SegmentByPeaks: the value written at the start of every segment ------------------------- *)

Lemma fill_from_length segs : forall j s e v, length (H.fill_from segs j s e v) = length segs.
Proof. induction segs as [|x t IH]; intros j s e v; [reflexivity|]. cbn [H.fill_from length]. rewrite IH. reflexivity. Qed.

Lemma fill_from_nth segs : forall j s e v k, (k < length segs)%nat ->
  nth k (H.fill_from segs j s e v) 0%Q =
  if (s <=? j + Z.of_nat k) && (j + Z.of_nat k <? e) then v else nth k segs 0%Q.
Proof.
  induction segs as [|x t IH]; intros j s e v k Hk; [cbn in Hk; lia|].
  cbn [H.fill_from]. destruct k as [|k].
  - cbn [nth]. replace (j + Z.of_nat 0) with j by lia. reflexivity.
  - cbn [nth]. rewrite IH by (cbn in Hk; lia). replace (j + 1 + Z.of_nat k) with (j + Z.of_nat (S k)) by lia. reflexivity.
Qed.

Section Means.
Variables (data : list Q) (wt : option (list Q)).

Definition fillF (segs : list Q) (se : Z * Z) : list Q :=
  H.fill_from segs 0 (fst se) (snd se) (H.seg_mean data wt (fst se) (snd se)).

Lemma fold_fill_length bounds : forall segs, length (fold_left fillF bounds segs) = length segs.
Proof.
  induction bounds as [|se t IH]; intros segs; [reflexivity|]. cbn [fold_left]. rewrite IH. apply fill_from_length.
Qed.

Lemma fold_fill_outside bounds : forall segs i,
  0 <= i < Z.of_nat (length segs) ->
  (forall se, In se bounds -> i < fst se \/ snd se <= i) ->
  H.qnth (fold_left fillF bounds segs) i = H.qnth segs i.
Proof.
  induction bounds as [|se t IH]; intros segs i Hi Hout; [reflexivity|].
  cbn [fold_left]. rewrite IH.
  - unfold H.qnth, fillF. rewrite fill_from_nth by lia. rewrite Z2Nat.id by lia. cbn [Z.add].
    destruct (Hout se (or_introl eq_refl)) as [Hl|Hr].
    + replace (fst se <=? i) with false by (symmetry; apply Z.leb_gt; lia). reflexivity.
    + replace (i <? snd se) with false by (symmetry; apply Z.ltb_ge; lia). rewrite Bool.andb_false_r. reflexivity.
  - unfold fillF. rewrite fill_from_length. exact Hi.
  - intros se' Hin. apply Hout. right. exact Hin.
Qed.

Lemma seg_bounds_ge n : forall peaks prev se,
  SH.ssorted (prev :: peaks) -> In se (H.seg_bounds prev peaks n) -> prev <= fst se.
Proof.
  induction peaks as [|p t IH]; intros prev se Hs Hin.
  - cbn in Hin. destruct Hin as [<-|[]]. cbn. lia.
  - cbn [H.seg_bounds In] in Hin. destruct Hin as [<-|Hin]; [cbn; lia|].
    unfold SH.ssorted in Hs. inversion Hs as [|? ? Hs' Hall]; subst. inversion Hall as [|? ? Hp _]; subst.
    specialize (IH p se Hs' Hin). lia.
Qed.

(* the value at the first position of each segment is that segment's mean *)
Lemma means_spec n : forall peaks prev segs,
  Z.of_nat (length segs) = n -> 0 <= prev -> SH.ssorted (prev :: peaks) -> Forall (fun p => p < n) (prev :: peaks) ->
  map (H.qnth (fold_left fillF (H.seg_bounds prev peaks n) segs)) (prev :: peaks) =
  map (fun se => H.seg_mean data wt (fst se) (snd se)) (H.seg_bounds prev peaks n).
Proof.
  induction peaks as [|p t IH]; intros prev segs Hn H0 Hs Hlt.
  - cbn [H.seg_bounds fold_left map fst snd]. f_equal.
    inversion Hlt as [|? ? Hp _]; subst.
    unfold H.qnth, fillF. cbn [fst snd]. rewrite fill_from_nth by lia. rewrite Z2Nat.id by lia. cbn [Z.add].
    replace (prev <=? prev) with true by (symmetry; apply Z.leb_le; lia).
    replace (prev <? Z.of_nat (length segs)) with true by (symmetry; apply Z.ltb_lt; lia). reflexivity.
  - unfold SH.ssorted in Hs. inversion Hs as [|? ? Hs' Hall]; subst. inversion Hall as [|? ? Hp Hall']; subst.
    inversion Hlt as [|? ? Hprev Hlt']; subst.
    change (H.seg_bounds prev (p :: t) (Z.of_nat (length segs)))
      with ((prev, p) :: H.seg_bounds p t (Z.of_nat (length segs))).
    cbn [fold_left]. cbn [map]. f_equal.
    + rewrite fold_fill_outside.
      * unfold H.qnth, fillF. cbn [fst snd]. rewrite fill_from_nth by lia. rewrite Z2Nat.id by lia. cbn [Z.add].
        replace (prev <=? prev) with true by (symmetry; apply Z.leb_le; lia).
        replace (prev <? p) with true by (symmetry; apply Z.ltb_lt; lia). reflexivity.
      * unfold fillF. rewrite fill_from_length. lia.
      * intros se Hin. left. pose proof (seg_bounds_ge _ _ _ _ Hs' Hin). lia.
    + replace (Z.of_nat (length segs)) with (Z.of_nat (length (fillF segs (prev, p)))) at 1 2
        by (unfold fillF; rewrite fill_from_length; reflexivity).
      assert (Hl : Z.of_nat (length (fillF segs (prev, p))) = Z.of_nat (length segs))
        by (unfold fillF; rewrite fill_from_length; reflexivity).
      rewrite Hl. apply IH; [exact Hl|lia|exact Hs'|exact Hlt'].
Qed.

End Means.

Lemma seg_bounds_fst n : forall peaks prev, map fst (H.seg_bounds prev peaks n) = prev :: peaks.
Proof. induction peaks as [|p t IH]; intros prev; [reflexivity|]. cbn [H.seg_bounds map fst]. rewrite IH. reflexivity. Qed.

Lemma seg_bounds_snd n : forall peaks prev, map snd (H.seg_bounds prev peaks n) = peaks ++ [n].
Proof. induction peaks as [|p t IH]; intros prev; [reflexivity|]. cbn [H.seg_bounds map snd app]. rewrite IH. reflexivity. Qed.

(* ---- one piece: one_chrom's table from the haarSeg result ------------------------------------- *)

(* the row of the segment covering positions s .. e-1 of the piece *)
Definition bound_row (surv : list bin) (sg : list Q) (wt : option (list Q)) (se : Z * Z) : raw :=
  mkRaw (b_lo (bin_at surv (fst se))) (b_hi (bin_at surv (snd se - 1))) (snd se - fst se)
        (Some (H.seg_mean sg wt (fst se) (snd se))).

Lemma haar_table_bounds surv sg wt bps :
  let n := Z.of_nat (length sg) in
  0 < n -> SH.ssorted (0 :: bps) -> Forall (fun p => p < n) bps ->
  haar_table surv (H.haar_result_of sg wt bps) = map (bound_row surv sg wt) (H.seg_bounds 0 bps n).
Proof.
  intros n Hn Hs Hlt. unfold haar_table, H.haar_result_of. cbv zeta.
  cbn [H.hr_start H.hr_end H.hr_size H.hr_mean]. change (Zlength_nat sg) with n.
  set (bounds := H.seg_bounds 0 bps n).
  assert (Est : 0 :: bps = map fst bounds) by (unfold bounds; rewrite seg_bounds_fst; reflexivity).
  assert (Eed : bps ++ [n] = map snd bounds) by (unfold bounds; rewrite seg_bounds_snd; reflexivity).
  assert (Emean : map (H.qnth (H.segment_by_peaks sg bps wt)) (0 :: bps) =
                  map (fun se => H.seg_mean sg wt (fst se) (snd se)) bounds).
  { unfold H.segment_by_peaks. change (Zlength_nat sg) with n. fold (fillF sg wt).
    apply (means_spec sg wt n bps 0).
    - rewrite map_length. reflexivity.
    - lia.
    - exact Hs.
    - constructor; [exact Hn|exact Hlt]. }
  rewrite Emean, Eed, Est. rewrite map_map. rewrite (combine_map_same fst snd).
  rewrite map_map. rewrite (combine_map_same fst (fun x => snd x - 1)).
  rewrite combine_map_same. rewrite combine_map_same. rewrite map_map.
  apply map_ext. intros (s, e). reflexivity.
Qed.

(* against groups_from: the coordinates and the probe counts *)
Definition raw_coords (w : raw) : Z * Z * Z := (w_lo w, w_hi w, w_probes w).
Definition group_coords (g : group) : Z * Z * Z :=
  (r_lo (seg_of_group g), r_hi (seg_of_group g), Z.of_nat (length (group_bins g))).

Lemma firstn_last_nth (l : list bin) k x r :
  firstn k l = x :: r -> (k <= length l)%nat ->
  x = nth 0 l dummy_bin /\ last r x = nth (k - 1) l dummy_bin /\ length (x :: r) = k.
Proof.
  intros Hf Hk. assert (Hlen : length (x :: r) = k) by (rewrite <- Hf, firstn_length; lia).
  split; [|split; [|exact Hlen]].
  - destruct l as [|y t]; [destruct k; discriminate|]. destruct k; [discriminate|]. cbn in Hf. injection Hf as -> _. reflexivity.
  - rewrite (last_as_nth dummy_bin). rewrite <- Hf. cbn [length] in Hlen.
    rewrite nth_firstn_lt by lia. f_equal. lia.
Qed.

Lemma bounds_groups (l : list bin) sg wt : let n := Z.of_nat (length l) in
  forall bps pos, 0 <= pos < n -> SH.ssorted (pos :: bps) -> Forall (fun p => p < n) bps ->
  map raw_coords (map (bound_row l sg wt) (H.seg_bounds pos bps n)) =
  map group_coords (groups_from pos bps (skipn (Z.to_nat pos) l)).
Proof.
  intros n. induction bps as [|b t IH]; intros pos Hpos Hs Hlt.
  - cbn [H.seg_bounds map groups_from].
    destruct (skipn (Z.to_nat pos) l) as [|x r] eqn:Esk.
    { assert (Hl : length (skipn (Z.to_nat pos) l) = 0%nat) by (rewrite Esk; reflexivity). rewrite skipn_length in Hl. lia. }
    cbn [map]. f_equal. unfold raw_coords, bound_row, group_coords, seg_of_group, group_bins, bin_at.
    cbn [w_lo w_hi w_probes r_lo r_hi fst snd r_group].
    assert (Hx : x = nth (Z.to_nat pos) l dummy_bin).
    { pose proof (nth_skipn_add dummy_bin (Z.to_nat pos) 0 l) as Hn. rewrite Esk, Nat.add_0_r in Hn. exact Hn. }
    assert (Hlen : length (x :: r) = (length l - Z.to_nat pos)%nat) by (rewrite <- Esk; apply skipn_length).
    assert (Hlast : last r x = nth (Z.to_nat (n - 1)) l dummy_bin).
    { rewrite (last_as_nth dummy_bin). rewrite <- Esk. rewrite nth_skipn_add. f_equal. cbn [length] in Hlen. lia. }
    rewrite Hlast, Hx. repeat f_equal. cbn [length] in *. lia.
  - unfold SH.ssorted in Hs. inversion Hs as [|? ? Hs' Hall]; subst. inversion Hall as [|? ? Hb Hall']; subst.
    inversion Hlt as [|? ? Hbn Hlt']; subst.
    change (H.seg_bounds pos (b :: t) n) with ((pos, b) :: H.seg_bounds b t n).
    cbn [groups_from]. set (k := Z.to_nat (b - pos)).
    assert (Hk : (1 <= k <= length (skipn (Z.to_nat pos) l))%nat) by (rewrite skipn_length; lia).
    destruct (firstn k (skipn (Z.to_nat pos) l)) as [|x r] eqn:Ef.
    { assert (Hl : length (firstn k (skipn (Z.to_nat pos) l)) = 0%nat) by (rewrite Ef; reflexivity).
      rewrite firstn_length in Hl. lia. }
    destruct (firstn_last_nth _ _ _ _ Ef (proj2 Hk)) as (Hx & Hlast & Hlen).
    rewrite skipn_skipn_add. replace (Z.to_nat pos + k)%nat with (Z.to_nat b) by lia.
    cbn [map]. f_equal; [|apply IH; [lia|exact Hs'|exact Hlt']].
    unfold raw_coords, bound_row, group_coords, seg_of_group, group_bins, bin_at.
    cbn [w_lo w_hi w_probes r_lo r_hi fst snd r_group].
    rewrite Hlast, Hlen, Hx, !nth_skipn_add.
    replace (Z.to_nat pos + 0)%nat with (Z.to_nat pos) by lia.
    replace (Z.to_nat pos + (k - 1))%nat with (Z.to_nat (b - 1)) by lia.
    repeat f_equal. lia.
Qed.

(* ---- the pieces of an arm ------------------------------------------------------------------ *)

Lemma groups_from_shift d : forall bps pos l,
  groups_from (pos + d) (map (Z.add d) bps) l = groups_from pos bps l.
Proof.
  induction bps as [|b t IH]; intros pos l; [reflexivity|].
  cbn [map groups_from]. replace (d + b - (pos + d)) with (b - pos) by lia.
  rewrite (Z.add_comm d b). rewrite IH. reflexivity.
Qed.

Lemma groups_from_app : forall bps1 pos (l1 l2 : list bin) rest,
  l1 <> [] -> SH.ssorted (pos :: bps1) -> Forall (fun p => p < pos + Z.of_nat (length l1)) bps1 ->
  groups_from pos (bps1 ++ (pos + Z.of_nat (length l1)) :: rest) (l1 ++ l2) =
  groups_from pos bps1 l1 ++ groups_from (pos + Z.of_nat (length l1)) rest l2.
Proof.
  induction bps1 as [|b t IH]; intros pos l1 l2 rest Hne Hs Hlt.
  - cbn [app groups_from]. replace (Z.to_nat (pos + Z.of_nat (length l1) - pos)) with (length l1) by lia.
    rewrite firstn_app, Nat.sub_diag, firstn_all, skipn_app, Nat.sub_diag, skipn_all. cbn [firstn skipn app].
    rewrite app_nil_r. destruct l1 as [|x r]; [congruence|]. reflexivity.
  - unfold SH.ssorted in Hs. inversion Hs as [|? ? Hs' Hall]; subst. inversion Hall as [|? ? Hb Hall']; subst.
    inversion Hlt as [|? ? Hbn Hlt']; subst.
    cbn [app groups_from]. set (k := Z.to_nat (b - pos)).
    assert (Hk : (1 <= k < length l1)%nat) by lia.
    rewrite firstn_app, skipn_app. replace (k - length l1)%nat with 0%nat by lia. cbn [firstn skipn]. rewrite app_nil_r.
    assert (Hrec : groups_from b (t ++ (pos + Z.of_nat (length l1)) :: rest) (skipn k l1 ++ l2) =
                   groups_from b t (skipn k l1) ++ groups_from (pos + Z.of_nat (length l1)) rest l2).
    { replace (pos + Z.of_nat (length l1)) with (b + Z.of_nat (length (skipn k l1))) by (rewrite skipn_length; lia).
      apply IH.
      - intros Hn. assert (Hl : length (skipn k l1) = 0%nat) by (rewrite Hn; reflexivity). rewrite skipn_length in Hl. lia.
      - exact Hs'.
      - rewrite skipn_length. eapply Forall_impl; [|exact Hlt']. cbn. intros p Hp. lia. }
    rewrite Hrec. destruct (firstn k l1); reflexivity.
Qed.

Lemma ssorted_shift off bps : SH.ssorted bps -> (forall b, In b bps -> 1 <= b) ->
  SH.ssorted (off :: map (Z.add off) bps).
Proof.
  unfold SH.ssorted. intros Hs H1. constructor.
  - induction Hs as [|b t Hs IH Hall]; cbn [map]; constructor.
    + apply IH. intros x Hx. apply H1. right. exact Hx.
    + apply Forall_map. eapply Forall_impl; [|exact Hall]. cbn. intros x Hx. lia.
  - apply Forall_map. apply Forall_forall. intros b Hb. specialize (H1 b Hb). lia.
Qed.

Section HaarArm.
Variables (su sw : Z -> Q) (q : Q).

Definition piece_breaks (s : list bin) (o : haar_oracle) : list Z := H.hr_breaks (haar_one su sw q s o).

(* the breakpoints of the arm: every piece's own breakpoints moved to the piece's offset,
   and the boundaries between the pieces *)
Fixpoint haar_arm_bps (off : Z) (subs : list (list bin)) (os : list haar_oracle) : list Z :=
  match subs with
  | [] => []
  | s :: st =>
      map (Z.add off) (piece_breaks s (hd empty_oracle os)) ++
      match st with
      | [] => []
      | _ => (off + Z.of_nat (length s)) :: haar_arm_bps (off + Z.of_nat (length s)) st (tl os)
      end
  end.

(* the oracle contract: one smoothed signal per piece, of the piece's length *)
Fixpoint oracle_fits (subs : list (list bin)) (os : list haar_oracle) : Prop :=
  match subs with
  | [] => True
  | s :: st => length (ho_signal (hd empty_oracle os)) = length s /\ oracle_fits st (tl os)
  end.

(* one piece: the table of one_chrom, row by row; the breakpoints are the C11 ones *)
Theorem haar_piece_rows s o :
  s <> [] -> length (ho_signal o) = length s ->
  let bps := piece_breaks s o in
  let n := Z.of_nat (length s) in
  SH.ssorted bps /\ (forall b, In b bps -> 1 <= b <= n - 2) /\
  haar_table s (haar_one su sw q s o) = map (bound_row s (ho_signal o) (Some (map wt0 s))) (H.seg_bounds 0 bps n) /\
  map raw_coords (haar_table s (haar_one su sw q s o)) = map group_coords (groups_from 0 bps s).
Proof.
  intros Hne Hlen bps n.
  assert (Hsg : ho_signal o <> []) by (intros E; rewrite E in Hlen; destruct s; [congruence|discriminate]).
  pose proof (C11.C11_sizes su sw (by_level [] (ho_pvals o)) (by_level false (ho_absorb o))
                (ho_signal o) (Some (map wt0 s)) q Hsg) as Hc.
  cbv zeta in Hc. fold (haar_one su sw q s o) in Hc. fold (piece_breaks s o) in Hc. fold bps in Hc.
  destruct Hc as (Hs & Hr & _). unfold Zlength_nat in Hr. rewrite Hlen in Hr. fold n in Hr.
  assert (Hn : 0 < n) by (unfold n; destruct s; [congruence|cbn [length]; lia]).
  assert (Hs0 : SH.ssorted (0 :: bps)).
  { unfold SH.ssorted. constructor; [exact Hs|]. apply Forall_forall. intros b Hb. specialize (Hr b Hb). lia. }
  assert (Hlt : Forall (fun p => p < n) bps).
  { apply Forall_forall. intros b Hb. specialize (Hr b Hb). lia. }
  assert (Ht : haar_table s (haar_one su sw q s o) =
               map (bound_row s (ho_signal o) (Some (map wt0 s))) (H.seg_bounds 0 bps n)).
  { pose proof (haar_table_bounds s (ho_signal o) (Some (map wt0 s)) bps) as Hb. cbv zeta in Hb.
    rewrite Hlen in Hb. exact (Hb Hn Hs0 Hlt). }
  split; [exact Hs|]. split; [exact Hr|]. split; [exact Ht|].
  rewrite Ht. exact (bounds_groups s (ho_signal o) (Some (map wt0 s)) bps 0 ltac:(fold n; lia) Hs0 Hlt).
Qed.

Lemma pieces_coords : forall subs os off,
  Forall (fun s => s <> []) subs -> oracle_fits subs os ->
  map raw_coords (haar_pieces su sw q subs os) =
  map group_coords (groups_from off (haar_arm_bps off subs os) (concat subs)).
Proof.
  induction subs as [|s st IH]; intros os off Hne Hfit.
  - reflexivity.
  - inversion Hne as [|? ? Hs Hst]; subst. cbn [oracle_fits] in Hfit. destruct Hfit as (Hlen & Hfit).
    cbn [haar_pieces haar_arm_bps concat]. rewrite map_app.
    destruct (haar_piece_rows s (hd empty_oracle os) Hs Hlen) as (Hsort & Hrange & _ & Hcoords).
    rewrite Hcoords. destruct st as [|s2 st'].
    + cbn [haar_pieces map concat]. rewrite !app_nil_r.
      rewrite <- (groups_from_shift off (piece_breaks s (hd empty_oracle os)) 0 s). reflexivity.
    + rewrite groups_from_app.
      * rewrite map_app. f_equal.
        -- rewrite <- (groups_from_shift off (piece_breaks s (hd empty_oracle os)) 0 s). reflexivity.
        -- apply IH; assumption.
      * exact Hs.
      * apply ssorted_shift; [exact Hsort|]. intros b Hb. specialize (Hrange b Hb). lia.
      * apply Forall_map. apply Forall_forall. intros b Hb. specialize (Hrange b Hb). lia.
Qed.

(* the arm: segment_haar's rows are the rows of `groups_of_breaks` at the computed breakpoints *)
Theorem haar_rows_spec surv os :
  oracle_fits (arm_split b_lo b_hi surv) os ->
  map raw_coords (segment_haar su sw q surv os) =
  map raw_coords (method_rows (AGiven MHaar (haar_arm_bps 0 (arm_split b_lo b_hi surv) os)) surv).
Proof.
  intros Hfit. unfold segment_haar, method_rows, groups_of_breaks.
  pose proof (arm_split_spec b_lo b_hi (round_share (Z.of_nat (length surv))) surv) as Hspec.
  change (arm_split_with b_lo b_hi (round_share (Z.of_nat (length surv))) surv) with (arm_split b_lo b_hi surv) in Hspec.
  rewrite (pieces_coords _ os 0 (as_nonempty _ _ _ _ _ Hspec) Hfit).
  rewrite (as_partition _ _ _ _ _ Hspec). rewrite !map_map. apply map_ext. intros g. reflexivity.
Qed.

End HaarArm.

(* ---- SegmentByPeaks' mean: the weight-averaged signal over the segment ------------------------ *)

Lemma hqsum_spec l : (H.qsum l == fold_right Qplus 0 l)%Q.
Proof. induction l as [|x t IH]; [reflexivity|]. cbn [H.qsum fold_right]. rewrite Qred_correct, IH. reflexivity. Qed.

(* weights given and their sum over the range positive: sum(d*w)/sum(w); otherwise the plain mean *)
Theorem seg_mean_spec data w s e :
  let d := H.slice data s e in
  let ws := H.slice w s e in
  ((0 < fold_right Qplus 0 ws)%Q ->
     (H.seg_mean data (Some w) s e == fold_right Qplus 0 (H.qmul2 d ws) / fold_right Qplus 0 ws)%Q) /\
  (~ (0 < fold_right Qplus 0 ws)%Q ->
     (H.seg_mean data (Some w) s e == fold_right Qplus 0 d / inject_Z (Z.of_nat (length d)))%Q).
Proof.
  cbv zeta. unfold H.seg_mean. cbv zeta. unfold H.Qltb.
  destruct (Qle_bool (H.qsum (H.slice w s e)) 0) eqn:E; cbn [negb].
  - apply Qle_bool_iff in E. rewrite hqsum_spec in E. split.
    + intros Hp. exfalso. apply (Qlt_not_le _ _ Hp). exact E.
    + intros _. rewrite Qred_correct, hqsum_spec. reflexivity.
  - split.
    + intros _. rewrite Qred_correct, !hqsum_spec. reflexivity.
    + intros Hn. exfalso. apply Hn. apply Qnot_le_lt. intros Hle.
      assert (Ht : Qle_bool (H.qsum (H.slice w s e)) 0 = true) by (apply Qle_bool_iff; rewrite hqsum_spec; exact Hle).
      congruence.
Qed.

(* ---- transfer_fields does not look at the log2 column -------------------------------------------- *)

Definition strip (s : seg) : Z * Z * Z * string * option Q * Q :=
  (s_lo s, s_hi s, s_probes s, s_gene s, s_weight s, s_depth s).

Lemma fill_rows_coords : forall ws ws' sl,
  map raw_coords ws = map raw_coords ws' -> map strip (fill_rows ws sl) = map strip (fill_rows ws' sl).
Proof.
  induction ws as [|w t IH]; intros ws' sl Hc; destruct ws' as [|w' t']; try discriminate; [reflexivity|].
  cbn [map] in Hc. unfold raw_coords in Hc. injection Hc as Hlo Hhi Hpr Ht. fold raw_coords in Ht.
  destruct sl as [|sp st]; cbn [fill_rows map]; f_equal; try (apply IH; exact Ht);
    unfold strip, fill; cbn; rewrite Hlo, Hhi, Hpr; reflexivity.
Qed.

Lemma stretch_lo_coords v ws ws' :
  map raw_coords ws = map raw_coords ws' -> map raw_coords (raw_stretch_lo v ws) = map raw_coords (raw_stretch_lo v ws').
Proof.
  destruct ws as [|w t]; destruct ws' as [|w' t']; try discriminate; [reflexivity|].
  cbn [map raw_stretch_lo]. intros Hc. unfold raw_coords in Hc. injection Hc as Hlo Hhi Hpr Ht. fold raw_coords in Ht.
  f_equal; [|exact Ht]. unfold raw_coords, raw_set_lo. cbn. rewrite Hhi, Hpr. reflexivity.
Qed.

Lemma stretch_hi_coords v : forall ws ws',
  map raw_coords ws = map raw_coords ws' -> map raw_coords (raw_stretch_hi v ws) = map raw_coords (raw_stretch_hi v ws').
Proof.
  induction ws as [|w t IH]; intros ws' Hc; destruct ws' as [|w' t']; try discriminate; [reflexivity|].
  cbn [map] in Hc. unfold raw_coords in Hc. injection Hc as Hlo Hhi Hpr Ht. fold raw_coords in Ht.
  destruct t as [|w2 t2]; destruct t' as [|w2' t2']; try discriminate.
  - cbn. unfold raw_coords, raw_set_hi. cbn. rewrite Hlo, Hpr. reflexivity.
  - change (raw_stretch_hi v (w :: w2 :: t2)) with (w :: raw_stretch_hi v (w2 :: t2)).
    change (raw_stretch_hi v (w' :: w2' :: t2')) with (w' :: raw_stretch_hi v (w2' :: t2')).
    cbn [map]. f_equal; [unfold raw_coords; rewrite Hlo, Hhi, Hpr; reflexivity|]. apply IH. exact Ht.
Qed.

Lemma coords_range ws ws' : map raw_coords ws = map raw_coords ws' -> map raw_range ws = map raw_range ws'.
Proof.
  revert ws'; induction ws as [|w t IH]; intros ws' Hc; destruct ws' as [|w' t']; try discriminate; [reflexivity|].
  cbn [map] in *. unfold raw_coords in Hc. injection Hc as Hlo Hhi Hpr Ht. fold raw_coords in Ht.
  f_equal; [unfold raw_range; rewrite Hlo, Hhi; reflexivity|apply IH; exact Ht].
Qed.

Theorem transfer_coords c bins ws ws' :
  map raw_coords ws = map raw_coords ws' -> map strip (transfer c bins ws) = map strip (transfer c bins ws').
Proof.
  intros Hc. unfold transfer. destruct bins as [|b t]; [reflexivity|]. unfold aggregate.
  pose proof (stretch_hi_coords (b_hi (last t b)) _ _ (stretch_lo_coords (b_lo b) _ _ Hc)) as Hs.
  rewrite (coords_range _ _ Hs). apply fill_rows_coords. exact Hs.
Qed.
