(* C17 source tie [loop ties e2]: _smooth_samples_by_weight

       k = len(values)
       bw = k ** (-1 / 4)                                            (general power: an opaque input keyed by its text)
       samples = [(v + (bw * np.sqrt(1 - w) * np.random.randn(k)), w) for v, w in samples]

   read for one resample (v, w) and one of its elements, regenerated from the Python source on every run
   (Gen/FnSegSmooth.v fn_smooth_item: the item's new components; np.sqrt is the oracle, the normal draw an input).
   Here: the first component is Model/Segmetrics.v smooth_elem (for a sqrt oracle that respects ==), the weight is kept. *)
From CNV Require Import Base.Prelude Base.QNum Proofs.QNumLemmas Gen.SegmetricsDefaults Gen.FnSegSmooth
  Model.Ranges Model.Segmetrics.
Local Open Scope Q_scope.

Theorem source_smooth_item (sqrtf : Q -> Q) k bw v w z :
  (forall a b, a == b -> sqrtf a == sqrtf b) ->
  smooth_elem sqrtf bw v w z == fst (fn_smooth_item sqrtf k bw v w z) /\
  snd (fn_smooth_item sqrtf k bw v w z) = w.
Proof.
  intro P. unfold fn_smooth_item, smooth_elem, sm_one. cbn [fst snd]. split; [|reflexivity].
  rewrite qadd_spec, !qmul_spec. rewrite (P (qsub (1 # 1) w) (inject_Z 1 - w)) by apply qsub_spec. reflexivity.
Qed.
