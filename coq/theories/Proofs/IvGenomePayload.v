(* Payload of merge / flatten at genome level with the default combiners of
   skgenome/combiners.py (Model/IvCombine.v: comb_cols false): for every row of
   GenomicArray.merge() / flatten() on a table over several chromosomes, the other fields
   are the combination (`cols_of`) of exactly the input rows of its own chromosome that it
   covers (merge: lying inside it; flatten: containing it), taken in (start, end) order. *)
From CNV Require Import Base.Prelude Base.QNum Model.IvRow Model.IvCombine Model.Intervals Spec.Cover.
From CNV Require Import Proofs.IvCover Proofs.IvMerge Proofs.IvFlatten Proofs.IvLib2 Proofs.IvGenome Proofs.IvPayload.
From CNV Require Gen.IvDefaults Gen.IvCombiners.

Notation frow := (g_row pcols).
Definition f_cols (r : frow) : pcols := snd (pay r).

Lemma hd_of_hd_error {X} (d f : X) l : hd_error l = Some f -> hd d l = f.
Proof. destruct l; cbn; congruence. Qed.

Lemma in_own_chrom {A} (o : g_row A) (m : list (g_row A)) : In o m -> In o (filter (g_on (g_chrom o)) m).
Proof. intros H. apply filter_In. split; [exact H | now apply g_on_true]. Qed.

Lemma separated_disjoint {A} (t : list (@row A)) : sorted_separated t -> sorted_disjoint t.
Proof. apply chain_impl. intros a b; lia. Qed.

Theorem g_merge_payload (t : list frow) : valid t ->
  Forall (fun o =>
    let cov := filter (iv_within o) (sort_rows (filter (g_on (g_chrom o)) t)) in
    cov <> [] /\ cols_of (f_cols o) (f_cols (hd o cov)) (map f_cols cov))
    (g_merge (comb_cols false) 0 t).
Proof.
  intros Hv. apply Forall_forall. intros o Ho. cbv zeta.
  apply in_own_chrom in Ho. rewrite g_merge_chrom in Ho.
  set (u := filter (g_on (g_chrom o)) t) in *.
  assert (Hvu : valid u) by (apply valid_filter; exact Hv).
  unfold merge_sel in Ho. destruct u as [|u0 u'] eqn:Eu; [destruct Ho|]. rewrite <- Eu in *.
  assert (Hself : In o u -> sorted_disjoint u ->
                  filter (iv_within o) (sort_rows u) <> [] /\
                  cols_of (f_cols o) (f_cols (hd o (filter (iv_within o) (sort_rows u))))
                          (map f_cols (filter (iv_within o) (sort_rows u)))).
  { intros Hin Hd. destruct (disjoint_self u o Hd Hvu Hin) as [E _]. rewrite E.
    split; [discriminate | apply cols_of_single]. }
  destruct (all_gaps 0 t) eqn:Ef.
  - apply Hself; [exact Ho|]. apply separated_disjoint, overlap_below_0_separated, all_gaps_chain.
    unfold u. now apply all_gaps_filter.
  - pose proof (merge_slow_payload (g_comb (comb_cols false)) u Hvu) as Hp.
    rewrite Forall_forall in Hp. destruct (Hp o Ho) as (f & Hhd & _ & Hcase).
    set (cov := filter (iv_within o) (sort_rows u)) in *.
    split; [intros Hnil; rewrite Hnil in Hhd; discriminate|].
    rewrite (hd_of_hd_error o f cov Hhd).
    destruct Hcase as [Hc|Hc].
    + rewrite Hc in Hhd |- *. injection Hhd as <-. apply cols_of_single.
    + unfold f_cols at 1. rewrite Hc. unfold g_comb. cbn [snd].
      rewrite map_map. apply cols_of_comb.
Qed.

Theorem g_flatten_payload (t : list frow) : valid t ->
  Forall (fun p =>
    let u := filter (g_on (g_chrom p)) t in
    let cov := filter (iv_contains p) (sort_rows u) in
    cov <> [] /\
    exists first, cols_of (f_cols p) first (map f_cols cov) /\
      (no_overlap t = true -> first = f_cols p) /\
      (no_overlap t = false ->
         exists g f, In g (groups 0 (sort_rows u)) /\ hd_error g = Some f /\
                     In p (flatten_group (g_comb (comb_cols false)) g) /\ first = f_cols f))
    (g_flatten (comb_cols false) t).
Proof.
  intros Hv. apply Forall_forall. intros p Hp. cbv zeta.
  apply in_own_chrom in Hp. rewrite g_flatten_chrom in Hp.
  set (u := filter (g_on (g_chrom p)) t) in *.
  assert (Hvu : valid u) by (apply valid_filter; exact Hv).
  unfold flatten_sel in Hp. destruct u as [|u0 u'] eqn:Eu; [destruct Hp|]. rewrite <- Eu in *.
  destruct (no_overlap t) eqn:Ef.
  - assert (Hd : sorted_disjoint u) by (apply no_overlap_chain; unfold u; now apply no_overlap_filter).
    destruct (disjoint_self u p Hd Hvu Hp) as [_ E]. rewrite E.
    split; [discriminate|]. exists (f_cols p). split; [apply cols_of_single|].
    split; [reflexivity | discriminate].
  - pose proof (flatten_slow_payload (g_comb (comb_cols false)) u Hvu) as Hpay.
    rewrite Forall_forall in Hpay. destruct (Hpay p Hp) as (Hne & g & f & Hg & Hhd & Hin & Hcase).
    split; [exact Hne|].
    exists (f_cols f). split; [|split; [discriminate|]].
    + destruct Hcase as [[Hg1 Hc]|Hc].
      * rewrite Hc. rewrite Hg1 in Hhd. injection Hhd as <-. apply cols_of_single.
      * unfold f_cols at 1. rewrite Hc. unfold g_comb. cbn [snd]. rewrite map_map. apply cols_of_comb.
    + intros _. exists g, f. repeat split; assumption.
Qed.
