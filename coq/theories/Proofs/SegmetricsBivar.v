(* C17 -- the `bivar` column is the biweight midvariance formula of Spec/Stats17.v
   (tuning constant 9, sample size = number of points inside the cut-off) about the
   location it is given, with the MAD * 1.4826 fallback when no deviation is left. *)
From CNV Require Import Base.Prelude Base.QNum Proofs.QNumLemmas
  Gen.SegmetricsDefaults Gen.DescDefaults Model.Ranges Model.Descriptives Model.Segmetrics
  Spec.Stats17 Proofs.SegmetricsLib Proofs.Segmetrics.
From Coq Require Import Qround Qabs Setoid Morphisms Psatz.
Local Open Scope Q_scope.

Lemma sumQ_map_ext {A} (f g : A -> Q) l : (forall x, In x l -> f x == g x) ->
  sumQ (map f l) == sumQ (map g l).
Proof.
  induction l as [|x t IH]; intro H; [reflexivity|]. cbn [map sumQ].
  rewrite (H x) by now left. rewrite IH; [reflexivity|]. intros y Hy. apply H. now right.
Qed.

Lemma Qle_bool_eq a a' b b' : a == a' -> b == b' -> Qle_bool a b = Qle_bool a' b'.
Proof.
  intros Ha Hb. destruct (Qle_bool a b) eqn:E1, (Qle_bool a' b') eqn:E2; try reflexivity.
  - apply Qle_bool_iff in E1. rewrite Ha, Hb in E1. apply Qle_bool_iff in E1. congruence.
  - apply Qle_bool_iff in E2. rewrite <- Ha, <- Hb in E2. apply Qle_bool_iff in E2. congruence.
Qed.

Lemma combine_map_pair {A B} (g : A -> B) (l : list A) : combine l (map g l) = map (fun x => (x, g x)) l.
Proof. induction l as [|x t IH]; [reflexivity|]. cbn. now rewrite IH. Qed.

Lemma filter_map_q {A B} (f : A -> B) p l :
  filter p (map f l) = map f (filter (fun x => p (f x)) l).
Proof.
  induction l as [|x t IH]; [reflexivity|]. cbn. destruct (p (f x)); cbn; now rewrite IH.
Qed.

Section Bivar.
  Variable loc : Q.
  Variable d : list Q.
  Let mad := median (abs_all (sub_all loc d)).
  Let S := qmax2 (qmul BIVAR_C mad) BIVAR_EPS.
  Hypothesis scale_ok : BIVAR_EPS <= 9 * mad.

  Let mad_pos : 0 < mad.
  Proof. unfold BIVAR_EPS in scale_ok. lra. Qed.

  Let S_eq : S == 9 * mad.
  Proof.
    unfold S. destruct (qmax2_spec (qmul BIVAR_C mad) BIVAR_EPS) as (H1 & H2 & H3).
    pose proof (qmul_spec BIVAR_C mad) as M. unfold BIVAR_C in *.
    destruct H3 as [H3|H3]; rewrite H3 in *.
    - exact M.
    - rewrite M in H1. lra.
  Qed.

  Definition G (x : Q) : Q * Q := (qsub x loc, qdiv (qsub x loc) S).

  Let u_eq x : snd (G x) == bw_u 9 loc mad x.
  Proof. unfold G, bw_u. cbn [snd]. rewrite qdiv_spec, qsub_spec, S_eq. reflexivity. Qed.

  Let d_eq x : fst (G x) == x - loc.
  Proof. apply qsub_spec. Qed.

  Lemma masked_kept : bivar_masked d loc = map G (bw_kept 9 loc mad d).
  Proof.
    unfold bivar_masked. fold mad. fold S. rewrite combine_map_pair, filter_map_q.
    unfold sub_all. rewrite filter_map_q, map_map. unfold bw_kept, G. f_equal.
    apply filter_ext. intro x. cbn [snd]. unfold qlt_b, qabs, BIVAR_MASK_BOUND. f_equal.
    apply Qle_bool_eq; [reflexivity|]. apply Qabs_wd. apply (u_eq x).
  Qed.

  Lemma num_eq : bivar_num (map G (bw_kept 9 loc mad d)) ==
    sumQ (map (fun x => (x - loc) * (x - loc) * pow4 (1 - bw_u 9 loc mad x * bw_u 9 loc mad x))
             (bw_kept 9 loc mad d)).
  Proof.
    unfold bivar_num. rewrite qsum_sumQ, map_map. apply sumQ_map_ext. intros x _.
    change (Z.to_nat BIVAR_NUM_POW) with 4%nat. cbn [qpow]. cbv beta.
    repeat (progress (rewrite ?qmul_spec, ?qsq_spec, ?qsub_spec)).
    rewrite (u_eq x), (d_eq x). unfold pow4. ring.
  Qed.

  Lemma den_eq : bivar_den (map G (bw_kept 9 loc mad d)) ==
    sumQ (map (fun x => (1 - bw_u 9 loc mad x * bw_u 9 loc mad x)
                        * (1 - 5 * (bw_u 9 loc mad x * bw_u 9 loc mad x))) (bw_kept 9 loc mad d)).
  Proof.
    unfold bivar_den. rewrite qsum_sumQ, map_map. apply sumQ_map_ext. intros x _.
    cbv beta. repeat (progress (rewrite ?qmul_spec, ?qsq_spec, ?qsub_spec)).
    rewrite (u_eq x). unfold BIVAR_DEN_COEF. ring.
  Qed.

  Theorem bivar_sq_at_def v : bivar_sq_at d loc = Some v ->
    is_median mad (map (fun x => Qabs (x - loc)) d) /\
    (((forall x, In x (bw_kept 9 loc mad d) -> x == loc) /\
      v == (mad * BIVAR_MAD_SCALE) * (mad * BIVAR_MAD_SCALE))
     \/ v == bivar_sq_formula 9 loc mad d).
  Proof.
    intro H. split.
    { unfold mad. apply median_is_median. unfold abs_all, sub_all. rewrite map_map.
      apply eqQ_map_ext. intros x _. unfold qabs. now rewrite qsub_spec. }
    unfold bivar_sq_at in H. rewrite masked_kept in H. fold mad in H.
    destruct (forallb _ _) eqn:F.
    - left. injection H as <-. split; [|rewrite qsq_spec, qmul_spec; reflexivity].
      intros x Hx. rewrite forallb_forall in F. specialize (F (G x) (in_map G _ x Hx)).
      apply qeq_b_iff in F. rewrite (u_eq x) in F. unfold bw_u in F.
      assert (E : x - loc == (x - loc) / (9 * mad) * (9 * mad)) by (field; lra).
      rewrite F in E. lra.
    - right. destruct (qeq_b _ 0) eqn:D; [discriminate|]. injection H as <-.
      rewrite qdiv_spec, qmul_spec, qsq_spec, num_eq, den_eq, map_length.
      unfold bivar_sq_formula. cbv zeta. rewrite <- lenQ_qofnat. reflexivity.
  Qed.
End Bivar.

Theorem st_bivar_def loc d v : (2 <= length d)%nat ->
  BIVAR_EPS <= 9 * median (abs_all (sub_all loc d)) ->
  st_bivar_sq loc d = Some v ->
  (exists mad, is_median mad (map (fun x => Qabs (x - loc)) d) /\
     (forall x, In x (bw_kept 9 loc mad d) -> x == loc) /\
     v == (mad * BIVAR_MAD_SCALE) * (mad * BIVAR_MAD_SCALE))
  \/ is_bivar_sq 9 loc v d.
Proof.
  intros L Hs H. unfold st_bivar_sq in H. rewrite on_array_two in H by exact L.
  destruct (bivar_sq_at_def loc d Hs v H) as [M [[K V]|V]].
  - left. eexists. split; [exact M|]. split; assumption.
  - right. eexists. split; [exact M|exact V].
Qed.
