(* Proofs for C07, part 2: on a table sorted by start, both index paths of
   idx_ranges (_irange_simple: two binary searches and a slice; _irange_nested:
   a boolean mask) select exactly the filter of the specification; trimming is
   clipping; None bounds. *)
From CNV Require Import Base.Prelude Model.Ranges Spec.RangeQuery Proofs.RangesLib.

Definition sel_spec (im : imode) (qs qe : Z) (t : list row) : list row :=
  match im with Outer => outer_spec qs qe t | Inner => inner_spec qs qe t end.

(* ---- sortedness of the coordinate columns --------------------------------- *)
Lemma sorted_key_map (f : row -> Z) t :
  Sorted (fun a b => f a <= f b) t -> StronglySorted Z.le (map f t).
Proof.
  intros H. apply Sorted_StronglySorted in H; [|intros x y z; lia].
  induction H as [|a l HS IH Hall]; cbn [map]; constructor; [exact IH|].
  rewrite Forall_map. exact Hall.
Qed.

Lemma sorted_lo_map t : sorted_lo t -> StronglySorted Z.le (map r_lo t).
Proof. apply sorted_key_map. Qed.
Lemma sorted_hi_map t : sorted_hi t -> StronglySorted Z.le (map r_hi t).
Proof. apply sorted_key_map. Qed.

Lemma monotonic_sorted_hi t : is_monotonic (map r_hi t) = true -> sorted_hi t.
Proof.
  intros H. unfold sorted_hi.
  induction t as [|a l IH]; [constructor|].
  destruct l as [|b l'].
  - constructor; constructor.
  - change (is_monotonic (map r_hi (a :: b :: l')))
      with ((r_hi a <=? r_hi b) && is_monotonic (map r_hi (b :: l'))) in H.
    apply andb_true_iff in H as [Hab Hl].
    constructor; [apply IH; exact Hl|]. constructor. lia.
Qed.

Lemma sorted_lex_lo t : sorted_lex t -> sorted_lo t.
Proof.
  unfold sorted_lex, sorted_lo. induction 1 as [|a l HS IH Hhd]; constructor; [exact IH|].
  destruct Hhd; constructor. lia.
Qed.

Lemma row_lo_index t key k r : sorted_lo t -> nth_error t k = Some r ->
  (r_lo r <? key) = (Z.of_nat k <? count_side SLeft (map r_lo t) key).
Proof.
  intros HS Hk.
  exact (nth_count SLeft (map r_lo t) key (sorted_lo_map t HS) k (r_lo r) (map_nth_error r_lo k t Hk)).
Qed.

Lemma row_hi_index t key k r : sorted_hi t -> nth_error t k = Some r ->
  (r_hi r <=? key) = (Z.of_nat k <? count_side SRight (map r_hi t) key).
Proof.
  intros HS Hk.
  exact (nth_count SRight (map r_hi t) key (sorted_hi_map t HS) k (r_hi r) (map_nth_error r_hi k t Hk)).
Qed.

(* ---- the slice of the simple path ----------------------------------------- *)
Definition simple_i (im : imode) (t : list row) (qs : Z) : Z :=
  match im with
  | Inner => count_side SLeft (map r_lo t) qs
  | Outer => count_side SRight (map r_hi t) qs
  end.
Definition simple_j (im : imode) (t : list row) (qe : Z) : Z :=
  match im with
  | Inner => count_side SRight (map r_hi t) qe
  | Outer => count_side SLeft (map r_lo t) qe
  end.

Lemma slice_spec im t qs qe : sorted_lo t -> sorted_hi t ->
  apply_sel (SelSlice (simple_i im t qs) (simple_j im t qe)) t = sel_spec im qs qe t.
Proof.
  intros Hlo Hhi. cbn [apply_sel].
  destruct im; cbn [simple_i simple_j sel_spec]; unfold inner_spec, outer_spec;
    apply select_pos_filter; intros k r Hk; replace (0 + Z.of_nat k) with (Z.of_nat k) by lia.
  - pose proof (row_lo_index t qs k r Hlo Hk) as H1.
    pose proof (row_hi_index t qe k r Hhi Hk) as H2.
    unfold contained. rewrite H2.
    destruct (Z.of_nat k <? count_side SLeft (map r_lo t) qs) eqn:E; lia.
  - pose proof (row_lo_index t qe k r Hlo Hk) as H1.
    pose proof (row_hi_index t qs k r Hhi Hk) as H2.
    unfold overlaps. rewrite H1.
    destruct (Z.of_nat k <? count_side SRight (map r_hi t) qs) eqn:E; lia.
Qed.

Lemma zip_simple_map (f g : Z -> Z) (qs : list (Z * Z)) :
  zip_simple (map f (map fst qs)) (map fst qs) (map g (map snd qs)) (map Some (map snd qs)) =
  map (fun q => (SelSlice (f (fst q)) (g (snd q)), Some (fst q), Some (snd q))) qs.
Proof. induction qs as [|q t IH]; [reflexivity|]. cbn. rewrite IH. reflexivity. Qed.

Lemma given_map_nonempty {A} (f : A -> Z) (qs : list A) :
  qs <> [] -> given (Some (map f qs)) = Some (map f qs).
Proof. destruct qs; [congruence|reflexivity]. Qed.

Lemma irange_simple_eq im t (qs : list (Z * Z)) : sorted_lo t -> sorted_hi t -> qs <> [] ->
  irange_simple t (Some (map fst qs)) (Some (map snd qs)) im =
  map (fun q => (SelSlice (simple_i im t (fst q)) (simple_j im t (snd q)), Some (fst q), Some (snd q))) qs.
Proof.
  intros Hlo Hhi Hne. unfold irange_simple.
  rewrite !given_map_nonempty by assumption.
  pose proof (sorted_lo_map t Hlo) as Sl. pose proof (sorted_hi_map t Hhi) as Sh.
  destruct im; rewrite !searchsorted_sorted by assumption; apply zip_simple_map.
Qed.

(* ---- the mask of the nested path ------------------------------------------- *)
Lemma ones_map t : ones t = map (fun _ : row => true) t.
Proof. reflexivity. Qed.

Lemma nested_mask_spec im t qs qe : sorted_lo t -> Forall valid_row t ->
  mask_select (nested_mask t im qs (Some qe)) t = sel_spec im qs qe t.
Proof.
  intros Hlo Hv. rewrite Forall_forall in Hv.
  pose proof (sorted_lo_map t Hlo) as Sl.
  destruct im; cbn [nested_mask sel_spec]; unfold inner_spec, outer_spec.
  - (* inner *)
    assert (Hm0 : (if truthyZ qs
                   then mask_idx (fun k => searchsorted1 SLeft (map r_lo t) qs <=? k) 0 (ones t)
                   else ones t) = map (fun r => qs <=? r_lo r) t).
    { unfold truthyZ. destruct (qs =? 0) eqn:E0; cbn [negb].
      - unfold ones. apply map_ext_in. intros r Hr. specialize (Hv r Hr). unfold valid_row in Hv. lia.
      - rewrite searchsorted1_sorted by assumption. unfold ones.
        apply mask_idx_map. intros k r Hk. replace (0 + Z.of_nat k) with (Z.of_nat k) by lia.
        pose proof (row_lo_index t qs k r Hlo Hk) as H1. cbn [andb].
        destruct (Z.of_nat k <? count_side SLeft (map r_lo t) qs) eqn:E; lia. }
    rewrite Hm0, mask_and_map, mask_select_map. reflexivity.
  - (* outer *)
    rewrite searchsorted1_sorted by assumption.
    assert (Hm0 : (if truthyZ qs then map (fun r => qs <? r_hi r) t else ones t)
                  = map (fun r => qs <? r_hi r) t).
    { unfold truthyZ. destruct (qs =? 0) eqn:E0; cbn [negb]; [|reflexivity].
      unfold ones. apply map_ext_in. intros r Hr. specialize (Hv r Hr). unfold valid_row in Hv. lia. }
    rewrite Hm0.
    rewrite (mask_idx_map _ (fun r => qs <? r_hi r) (overlaps qs qe) t 0).
    + apply mask_select_map.
    + intros k r Hk. replace (0 + Z.of_nat k) with (Z.of_nat k) by lia.
      pose proof (row_lo_index t qe k r Hlo Hk) as H1. unfold overlaps. rewrite H1.
      apply andb_comm.
Qed.

(* an open upper bound: only the start side of the mask *)
Definition open_spec (im : imode) (qs : Z) (t : list row) : list row :=
  match im with
  | Outer => filter (fun r => qs <? r_hi r) t
  | Inner => filter (fun r => qs <=? r_lo r) t
  end.

Lemma nested_mask_open im t qs : sorted_lo t -> Forall valid_row t ->
  mask_select (nested_mask t im qs None) t = open_spec im qs t.
Proof.
  intros Hlo Hv. rewrite Forall_forall in Hv.
  pose proof (sorted_lo_map t Hlo) as Sl.
  destruct im; cbn [nested_mask open_spec].
  - assert (Hm0 : (if truthyZ qs
                   then mask_idx (fun k => searchsorted1 SLeft (map r_lo t) qs <=? k) 0 (ones t)
                   else ones t) = map (fun r => qs <=? r_lo r) t).
    { unfold truthyZ. destruct (qs =? 0) eqn:E0; cbn [negb].
      - unfold ones. apply map_ext_in. intros r Hr. specialize (Hv r Hr). unfold valid_row in Hv. lia.
      - rewrite searchsorted1_sorted by assumption. unfold ones.
        apply mask_idx_map. intros k r Hk. replace (0 + Z.of_nat k) with (Z.of_nat k) by lia.
        pose proof (row_lo_index t qs k r Hlo Hk) as H1. cbn [andb].
        destruct (Z.of_nat k <? count_side SLeft (map r_lo t) qs) eqn:E; lia. }
    rewrite Hm0. apply mask_select_map.
  - assert (Hm0 : (if truthyZ qs then map (fun r => qs <? r_hi r) t else ones t)
                  = map (fun r => qs <? r_hi r) t).
    { unfold truthyZ. destruct (qs =? 0) eqn:E0; cbn [negb]; [|reflexivity].
      unfold ones. apply map_ext_in. intros r Hr. specialize (Hv r Hr). unfold valid_row in Hv. lia. }
    rewrite Hm0. apply mask_select_map.
Qed.

Lemma irange_nested_eq im t (qs : list (Z * Z)) :
  irange_nested t (map fst qs) (map Some (map snd qs)) im =
  map (fun q => (SelMask (nested_mask t im (fst q) (Some (snd q))), Some (fst q), Some (snd q))) qs.
Proof.
  unfold irange_nested. induction qs as [|[a b] l IH]; [reflexivity|].
  cbn [map combine fst snd]. cbn [map combine fst snd] in IH. rewrite IH. reflexivity.
Qed.

(* ---- idx_ranges: whichever path is taken, the selection is the spec -------- *)
Definition path_sel (im : imode) (t : list row) (q : Z * Z) : sel :=
  if negb (is_monotonic (map r_hi t)) then SelMask (nested_mask t im (fst q) (Some (snd q)))
  else SelSlice (simple_i im t (fst q)) (simple_j im t (snd q)).

Lemma idx_ranges_eq im t (qs : list (Z * Z)) : sorted_lo t -> t <> [] -> qs <> [] ->
  idx_ranges t (Some (map fst qs)) (Some (map snd qs)) im =
  map (fun q => (path_sel im t q, Some (fst q), Some (snd q))) qs.
Proof.
  intros Hlo Ht Hq. unfold idx_ranges, path_sel.
  destruct t as [|r0 t0]; [congruence|].
  destruct (negb (is_monotonic (map r_hi (r0 :: t0)))) eqn:Em.
  - rewrite !given_map_nonempty by assumption. apply irange_nested_eq.
  - apply irange_simple_eq; try assumption.
    apply monotonic_sorted_hi. destruct (is_monotonic (map r_hi (r0 :: t0))); [reflexivity|discriminate].
Qed.

Lemma path_sel_spec im t q : sorted_lo t -> Forall valid_row t ->
  apply_sel (path_sel im t q) t = sel_spec im (fst q) (snd q) t.
Proof.
  intros Hlo Hv. unfold path_sel.
  destruct (negb (is_monotonic (map r_hi t))) eqn:Em.
  - cbn [apply_sel]. apply nested_mask_spec; assumption.
  - apply slice_spec; [assumption|].
    apply monotonic_sorted_hi. destruct (is_monotonic (map r_hi t)); [reflexivity|discriminate].
Qed.

(* ---- trimming is clipping --------------------------------------------------- *)
Lemma trim_rows_spec t qs qe : Forall valid_row t ->
  trim_rows (Some qs) (Some qe) (outer_spec qs qe t) = trim_spec qs qe t.
Proof.
  intros Hv. rewrite Forall_forall in Hv. unfold trim_rows, trim_spec.
  assert (Hin : forall r, In r (outer_spec qs qe t) -> valid_row r /\ r_lo r < qe).
  { intros r Hr. unfold outer_spec in Hr. apply filter_In in Hr as [Hr Ho].
    split; [apply Hv; exact Hr|]. unfold overlaps in Ho. lia. }
  set (sub := outer_spec qs qe t) in *.
  assert (H1 : (if truthyZ qs then map (clip_lo qs) sub else sub) = map (clip_lo qs) sub).
  { unfold truthyZ. destruct (qs =? 0) eqn:E; cbn [negb]; [|reflexivity].
    rewrite <- (map_id sub) at 1. apply map_ext_in. intros r Hr.
    destruct (Hin r Hr) as [[Hr0 _] _]. unfold clip_lo. destruct r as [i a b]; cbn in *. f_equal. lia. }
  rewrite H1.
  assert (H2 : (if truthyZ qe then map (clip_hi qe) (map (clip_lo qs) sub) else map (clip_lo qs) sub)
               = map (clip_hi qe) (map (clip_lo qs) sub)).
  { unfold truthyZ. destruct (qe =? 0) eqn:E; cbn [negb]; [|reflexivity].
    destruct sub as [|r l]; [reflexivity|].
    destruct (Hin r (or_introl eq_refl)) as [[Hr0 _] Hr1]. lia. }
  rewrite H2, map_map. apply map_ext. intros r. reflexivity.
Qed.

(* ---- iter_ranges ------------------------------------------------------------- *)
Theorem iter_ranges_spec m t (qs : list (Z * Z)) :
  sorted_lo t -> Forall valid_row t -> t <> [] -> qs <> [] ->
  iter_ranges t (Some (map fst qs)) (Some (map snd qs)) m =
  map (fun q => select_spec m (fst q) (snd q) t) qs.
Proof.
  intros Hlo Hv Ht Hq. unfold iter_ranges.
  rewrite idx_ranges_eq by assumption. rewrite map_map.
  apply map_ext. intros q.
  rewrite path_sel_spec by assumption.
  destruct m; cbn [imode_of sel_spec select_spec]; try reflexivity.
  apply trim_rows_spec. exact Hv.
Qed.

(* the two paths agree wherever both apply (the switch does not matter) *)
Theorem paths_agree im t (qs : list (Z * Z)) :
  sorted_lo t -> sorted_hi t -> Forall valid_row t -> qs <> [] ->
  map (fun x => apply_sel (fst (fst x)) t) (irange_simple t (Some (map fst qs)) (Some (map snd qs)) im) =
  map (fun x => apply_sel (fst (fst x)) t) (irange_nested t (map fst qs) (map Some (map snd qs)) im).
Proof.
  intros Hlo Hhi Hv Hq.
  rewrite irange_simple_eq, irange_nested_eq by assumption. rewrite !map_map.
  apply map_ext. intros q. cbn [fst apply_sel].
  rewrite nested_mask_spec by assumption.
  exact (slice_spec im t (fst q) (snd q) Hlo Hhi).
Qed.

Theorem simple_path_spec im t (qs : list (Z * Z)) :
  sorted_lo t -> sorted_hi t -> qs <> [] ->
  map (fun x => apply_sel (fst (fst x)) t) (irange_simple t (Some (map fst qs)) (Some (map snd qs)) im) =
  map (fun q => sel_spec im (fst q) (snd q) t) qs.
Proof.
  intros Hlo Hhi Hq. rewrite irange_simple_eq by assumption. rewrite map_map.
  apply map_ext. intros q. cbn [fst]. apply slice_spec; assumption.
Qed.

Theorem nested_path_spec im t (qs : list (Z * Z)) :
  sorted_lo t -> Forall valid_row t ->
  map (fun x => apply_sel (fst (fst x)) t) (irange_nested t (map fst qs) (map Some (map snd qs)) im) =
  map (fun q => sel_spec im (fst q) (snd q) t) qs.
Proof.
  intros Hlo Hv. rewrite irange_nested_eq. rewrite map_map.
  apply map_ext. intros q. cbn [fst apply_sel]. apply nested_mask_spec; assumption.
Qed.
