(* Source ties for cnvlib/coverage.py region_depth_count (Gen/FnCoverage.v is regenerated from
   the Python source on every run).

   * filter_read: the translated predicate is the model's `counted`, with pysam's flag
     properties read off the SAM flag bits (is_unmapped 0x4, is_secondary 0x100,
     is_qcfail 0x200, is_duplicate 0x400).
   * the scalar tail, translated as a fragment of the function (spec: tools/fnspecs/coverage.py):
       depth = bases / (end - start) if end > start else 0
       row[4] = math.log(depth, 2) if depth else NULL_LOG2_COVERAGE
     fn_region_tail bases start end log2_depth NULL = (depth, row[4]) is the model's
     count_depth and count_log2 (the logarithm being the oracle, NULL_LOG2_COVERAGE the
     generated constant of cnvlib/params.py). *)
From CNV Require Import Base.Prelude Gen.Params Gen.CoverageDefaults Gen.FnCoverage Model.Coverage.

Local Open Scope Z_scope.

Definition flag_bit (f b : Z) : bool := negb (Z.land f b =? 0).

Lemma fn_filter_read_eq (cut : Z) (r : read) :
  fn_filter_read (flag_bit (r_flag r) 1024) (flag_bit (r_flag r) 256) (flag_bit (r_flag r) 4)
                 (flag_bit (r_flag r) 512) (r_mapq r) cut
  = counted cut r.
Proof.
  unfold fn_filter_read, counted, flag_excluded, flag_bit.
  destruct (Z.land (r_flag r) 1024 =? 0), (Z.land (r_flag r) 256 =? 0),
           (Z.land (r_flag r) 4 =? 0), (Z.land (r_flag r) 512 =? 0); cbn [negb orb andb];
    try reflexivity;
    destruct (r_mapq r <? cut) eqn:E1, (cut <=? r_mapq r) eqn:E2; cbn [negb orb andb]; try reflexivity; lia.
Qed.

(* the depth the code computes: first component of the translated tail (it does not depend
   on the logarithm's value or on the null constant) *)
Definition fn_region_depth (bases lo hi : Z) : Q := fst (fn_region_tail bases lo hi 0 0).

Lemma fn_region_tail_fst bases lo hi l n : fst (fn_region_tail bases lo hi l n) = fn_region_depth bases lo hi.
Proof. reflexivity. Qed.

(* depth = bases / (end - start) if end > start else 0 *)
Lemma fn_region_depth_eq (bases lo hi : Z) :
  (fn_region_depth bases lo hi == count_depth bases lo hi)%Q.
Proof.
  unfold fn_region_depth, fn_region_tail, count_depth, ratio, COUNT_ZERO_DEPTH. cbn [fst].
  destruct (lo <? hi).
  - now rewrite Qred_correct.
  - reflexivity.
Qed.

(* the same value as an exact fraction: bases / (end - start) for a proper bin *)
Lemma fn_region_depth_value (bases lo hi : Z) :
  lo < hi -> (fn_region_depth bases lo hi == inject_Z bases / inject_Z (hi - lo))%Q.
Proof.
  intros H. unfold fn_region_depth, fn_region_tail. cbn [fst].
  replace (lo <? hi) with true by (symmetry; apply Z.ltb_lt; exact H). reflexivity.
Qed.

(* the row's log2: math.log(depth, 2) if depth else NULL_LOG2_COVERAGE, on the code's own depth *)
Lemma fn_region_log2_eq (log2o : Q -> Q) (bases lo hi : Z) :
  let d := fn_region_depth bases lo hi in
  snd (fn_region_tail bases lo hi (log2o d) NULL_LOG2_COVERAGE) = count_log2 log2o d.
Proof.
  cbv zeta. unfold fn_region_tail, count_log2, fn_region_depth, fn_region_tail. cbn [fst snd].
  match goal with |- context [Qeq_bool ?d 0] => destruct (Qeq_bool d 0) end; reflexivity.
Qed.

Lemma fn_region_log2_clause : forall (log2o : Q -> Q) bases lo hi,
  let d := fn_region_depth bases lo hi in
  snd (fn_region_tail bases lo hi (log2o d) NULL_LOG2_COVERAGE) = count_log2 log2o d /\
  fst (fn_region_tail bases lo hi (log2o d) NULL_LOG2_COVERAGE) = d.
Proof. intros log2o bases lo hi. split; [exact (fn_region_log2_eq log2o bases lo hi)|reflexivity]. Qed.

(* the guard sees the same zero whether or not the fraction is reduced *)
Lemma fn_region_guard_eq (bases lo hi : Z) :
  Qeq_bool (fn_region_depth bases lo hi) 0 = Qeq_bool (count_depth bases lo hi) 0.
Proof.
  pose proof (fn_region_depth_eq bases lo hi) as H.
  destruct (Qeq_bool (fn_region_depth bases lo hi) 0) eqn:E1, (Qeq_bool (count_depth bases lo hi) 0) eqn:E2;
    try reflexivity.
  - apply Qeq_bool_iff in E1. rewrite H in E1. apply Qeq_bool_iff in E1. congruence.
  - apply Qeq_bool_iff in E2. rewrite <- H in E2. apply Qeq_bool_iff in E2. congruence.
Qed.

Lemma fn_region_depth_clause : forall bases lo hi,
  (fn_region_depth bases lo hi == count_depth bases lo hi)%Q /\
  (lo < hi -> (fn_region_depth bases lo hi == inject_Z bases / inject_Z (hi - lo))%Q) /\
  (hi <= lo -> fn_region_depth bases lo hi = 0%Q) /\
  Qeq_bool (fn_region_depth bases lo hi) 0 = Qeq_bool (count_depth bases lo hi) 0.
Proof.
  intros bases lo hi. split; [apply fn_region_depth_eq|]. split; [apply fn_region_depth_value|].
  split; [|apply fn_region_guard_eq].
  intros H. unfold fn_region_depth, fn_region_tail. cbn [fst].
  replace (lo <? hi) with false by (symmetry; apply Z.ltb_ge; exact H). reflexivity.
Qed.
