(* Source tie for cnvlib/coverage.py region_depth_count.filter_read: the predicate
   regenerated from the Python source on every run (Gen/FnCoverage.v) is the model's
   `counted`, with pysam's flag properties read off the SAM flag bits
   (is_unmapped 0x4, is_secondary 0x100, is_qcfail 0x200, is_duplicate 0x400). *)
From CNV Require Import Base.Prelude Gen.FnCoverage Model.Coverage.

Local Open Scope Z_scope.

Definition flag_bit (f b : Z) : bool := negb (Z.land f b =? 0).

Lemma fn_filter_read_eq (cut : Z) (r : read) :
  fn_filter_read (flag_bit (r_flag r) 1024) (flag_bit (r_flag r) 256) (flag_bit (r_flag r) 4)
                 (flag_bit (r_flag r) 512) (r_mapq r) cut
  = counted cut r.
Proof.
  unfold fn_filter_read, counted, flag_excluded, flag_bit.
  destruct (Z.land (r_flag r) 1024 =? 0), (Z.land (r_flag r) 256 =? 0),
           (Z.land (r_flag r) 4 =? 0), (Z.land (r_flag r) 512 =? 0); cbn [negb orb andb];
    try reflexivity;
    destruct (r_mapq r <? cut) eqn:E1, (cut <=? r_mapq r) eqn:E2; cbn [negb orb andb]; try reflexivity; lia.
Qed.
