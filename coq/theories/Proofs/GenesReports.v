(* Proofs for C16, part 3: genemetrics and squash_genes report each gene on exactly its
   own bins. *)
From Coq Require Import Qabs.
From CNV Require Import Base.Prelude Base.Str Gen.Params Gen.GenesDefaults
  Model.Genes Spec.Genes Proofs.GenesMap Proofs.Genes.

Local Open Scope nat_scope.

(* ---- labels of the walk ----------------------------------------------------------------- *)

Lemma walk_label ign rows m : forall prev g grp,
  In (g, grp) (walk ign rows prev m) -> g = "Antitarget"%string \/ mem_string g ign = false.
Proof.
  induction m as [|[[h f] l] t IH]; intros prev g grp Hin; cbn [walk] in Hin.
  - destruct (Nat.ltb prev (length rows)); [|destruct Hin].
    destruct Hin as [Heq|[]]. inversion Heq. left. reflexivity.
  - destruct (mem_string h ign) eqn:Eh; [eapply IH; eassumption|].
    apply in_app_iff in Hin as [Hin|[Heq|Hin]].
    + destruct (Nat.ltb prev f); [|destruct Hin].
      destruct Hin as [Heq|[]]. inversion Heq. left. reflexivity.
    + inversion Heq; subst. right. exact Eh.
    + eapply IH; eassumption.
Qed.

Lemma by_chromosome_iff rows c l :
  In (c, l) (by_chromosome rows) <-> l = chrom_rows c rows /\ l <> [].
Proof.
  split; [apply by_chromosome_rows|]. intros [-> Hne].
  destruct (chrom_rows c rows) as [|x r] eqn:E; [congruence|].
  assert (Hx : In x (chrom_rows c rows)) by (rewrite E; left; reflexivity).
  unfold chrom_rows in Hx. apply filter_In in Hx as [Hx Hc]. apply String.eqb_eq in Hc.
  destruct (by_chromosome_cover _ _ Hx) as [l' Hl']. rewrite Hc in Hl'.
  destruct (by_chromosome_rows _ _ _ Hl') as [Heq _]. rewrite <- E, <- Heq. exact Hl'.
Qed.

(* a gene-labelled group of by_gene is a real gene of one chromosome with exactly its bins *)
Lemma by_gene_gene_groups ignore rows g grp :
  g <> "Antitarget"%string ->
  (In (g, grp) (by_gene ignore rows) <->
   mem_string g (full_ignore ignore) = false /\
   exists c f l, gene_span (chrom_rows c rows) g f l /\ grp = slice (chrom_rows c rows) f (S l)).
Proof.
  intros Hne. unfold by_gene. rewrite in_flat_map. split.
  - intros ([c crows] & Hc & Hin). cbn [snd] in Hin.
    apply by_chromosome_iff in Hc as [-> _].
    assert (Hreal : mem_string g (full_ignore ignore) = false).
    { destruct (walk_label _ _ _ _ _ _ Hin) as [H|H]; [contradiction | exact H]. }
    split; [exact Hreal|]. exists c.
    apply (by_gene_chrom_gene_groups _ _ _ _ Hreal). auto.
  - intros (Hreal & c & f & l & Hsp & ->).
    exists (c, chrom_rows c rows). split.
    + apply by_chromosome_iff. split; [reflexivity|].
      destruct Hsp as ((b & Hn & _) & _). intros E. rewrite E in Hn. destruct f; discriminate.
    + cbn [snd]. apply (by_gene_chrom_gene_groups _ _ _ _ Hreal). split; [assumption|]. eauto.
Qed.

(* ---- group rows ---------------------------------------------------------------------------- *)

Lemma min_cvg_value : min_cvg = (-15 # 1)%Q.
Proof. reflexivity. Qed.

Lemma existsb_negb_forallb {A} (p : A -> bool) l :
  existsb (fun x => negb (p x)) l = negb (forallb p l).
Proof.
  induction l as [|x t IH]; [reflexivity|]. cbn [existsb forallb]. rewrite IH.
  destruct (p x); reflexivity.
Qed.

Lemma drop_low_usable own : drop_low own = usable true own.
Proof. reflexivity. Qed.

Lemma segment_mean_spec skip_low own : segment_mean skip_low own = gene_mean skip_low own.
Proof.
  unfold segment_mean, gene_mean.
  assert (Hu : (if skip_low then drop_low own else own) = usable skip_low own)
    by (destruct skip_low; reflexivity).
  rewrite Hu. destruct (usable skip_low own) as [|x u] eqn:E; [reflexivity|].
  rewrite existsb_negb_forallb.
  destruct (forallb (fun b => Qeq_bool (b_weight b) 0) (x :: u)); reflexivity.
Qed.

Lemma group_row_spec skip_low g own : group_row skip_low g own = gene_stats skip_low g own.
Proof.
  unfold group_row, gene_stats. destruct own as [|b0 t]; [reflexivity|].
  rewrite segment_mean_spec. reflexivity.
Qed.

Lemma named_gene_iff g :
  named_gene g <->
  mem_string g (full_ignore IGNORE_GENE_NAMES) = false /\ mem_string g group_ignore = false.
Proof.
  unfold named_gene. rewrite !mem_string_notIn. cbn. tauto.
Qed.

Lemma named_not_anti g : named_gene g -> g <> "Antitarget"%string /\ g <> ""%string.
Proof.
  unfold named_gene. rewrite mem_string_notIn. cbn. intros H. split; intros ->; tauto.
Qed.

Lemma gene_stats_fields skip_low g own r :
  gene_stats skip_low g own = Some r ->
  r_gene r = g /\ r_probes r = Z.of_nat (length own) /\ r_segp r = None.
Proof.
  unfold gene_stats. destruct own as [|b0 t]; [discriminate|].
  intros H. inversion H; subst. cbn. auto.
Qed.

(* the rows of group_by_genes: one per named gene of a chromosome, on exactly its bins *)
Lemma group_by_genes_in skip_low rows r :
  In r (group_by_genes skip_low rows) <->
  exists c g f l,
    named_gene g /\ gene_span (chrom_rows c rows) g f l /\
    gene_stats skip_low g (slice (chrom_rows c rows) f (S l)) = Some r.
Proof.
  unfold group_by_genes. rewrite in_flat_map. split.
  - intros ([g grp] & Hin & Hr). unfold group_rows_of in Hr. cbn [fst snd] in Hr.
    destruct (mem_string g group_ignore) eqn:Eg; [destruct Hr|].
    rewrite group_row_spec in Hr.
    destruct (gene_stats skip_low g grp) as [r'|] eqn:Es; [|destruct Hr].
    destruct Hr as [<-|[]].
    assert (Hne : g <> "Antitarget"%string).
    { intros ->. vm_compute in Eg. discriminate. }
    apply (by_gene_gene_groups _ _ _ _ Hne) in Hin as (Hreal & c & f & l & Hsp & ->).
    exists c, g, f, l. split; [apply named_gene_iff; auto|]. auto.
  - intros (c & g & f & l & Hnamed & Hsp & Hst).
    apply named_gene_iff in Hnamed as Hn. destruct Hn as [Hreal Hgi].
    destruct (named_not_anti _ Hnamed) as [Hne _].
    exists (g, slice (chrom_rows c rows) f (S l)). split.
    + apply (by_gene_gene_groups _ _ _ _ Hne). split; [exact Hreal|]. eauto.
    + unfold group_rows_of. cbn [fst snd]. rewrite Hgi, group_row_spec, Hst. left. reflexivity.
Qed.

Lemma gene_metrics_by_gene_in threshold skip_low rows r :
  In r (gene_metrics_by_gene threshold skip_low rows) <->
  exists c g f l,
    named_gene g /\ gene_span (chrom_rows c rows) g f l /\
    gene_stats skip_low g (slice (chrom_rows c rows) f (S l)) = Some r /\
    reaches threshold (r_log2 r) = true.
Proof.
  unfold gene_metrics_by_gene. rewrite filter_In, group_by_genes_in. split.
  - intros [(c & g & f & l & Hn & Hsp & Hst) Hp]. apply andb_true_iff in Hp as [Hp _].
    exists c, g, f, l. auto.
  - intros (c & g & f & l & Hn & Hsp & Hst & Hp). split; [eauto 8|].
    rewrite Hp. cbn [andb]. apply negb_true_iff. apply String.eqb_neq.
    destruct (gene_stats_fields _ _ _ _ Hst) as (-> & _). apply (named_not_anti _ Hn).
Qed.

Lemma do_genemetrics_by_gene rows threshold min_probes skip_low hx fem r :
  In r (do_genemetrics rows None threshold min_probes skip_low hx fem) <->
  genemetrics_row (shift_xx hx fem rows) threshold min_probes skip_low r.
Proof.
  unfold do_genemetrics, genemetrics_row.
  set (rows' := shift_xx hx fem rows).
  assert (Hlen : forall c g f l, gene_span (chrom_rows c rows') g f l ->
            gene_stats skip_low g (slice (chrom_rows c rows') f (S l)) = Some r ->
            n_probes r = Z.of_nat (S l - f)).
  { intros c g f l Hsp Hst. destruct (gene_stats_fields _ _ _ _ Hst) as (_ & Hp & Hs).
    unfold n_probes. rewrite Hs, Hp. f_equal. apply slice_length.
    destruct (gene_span_bounds _ _ _ _ Hsp). lia. }
  destruct (Z.eqb min_probes 0) eqn:E0.
  - apply Z.eqb_eq in E0. subst min_probes. rewrite gene_metrics_by_gene_in. split.
    + intros (c & g & f & l & Hn & Hsp & Hst & Hp). exists c, g, f, l. split; [exact Hn|]. split; [exact Hsp|]. split; [exact Hst|]. split; [exact Hp|]. lia.
    + intros (c & g & f & l & Hn & Hsp & Hst & Hp & _). exists c, g, f, l. auto.
  - rewrite filter_In, gene_metrics_by_gene_in. split.
    + intros [(c & g & f & l & Hn & Hsp & Hst & Hp) Hmp]. exists c, g, f, l. split; [exact Hn|]. split; [exact Hsp|]. split; [exact Hst|]. split; [exact Hp|].
      rewrite (Hlen _ _ _ _ Hsp Hst) in Hmp. apply Z.leb_le in Hmp. exact Hmp.
    + intros (c & g & f & l & Hn & Hsp & Hst & Hp & Hmp). split; [eauto 10|].
      rewrite (Hlen _ _ _ _ Hsp Hst). apply Z.leb_le. exact Hmp.
Qed.

(* ---- the reduced statistics are the textbook ones ------------------------------------------ *)

Lemma sumQ_textbook l : (sumQ l == sum_q l)%Q.
Proof.
  induction l as [|x t IH]; cbn [sumQ sum_q]; [reflexivity|].
  rewrite Qred_correct, IH. reflexivity.
Qed.

Lemma dotQ_textbook xs : forall ws, (dotQ xs ws == dot_q xs ws)%Q.
Proof.
  induction xs as [|x xt IH]; intros ws; cbn [dotQ dot_q]; [reflexivity|].
  destruct ws as [|w wt]; [reflexivity|]. rewrite Qred_correct, IH. reflexivity.
Qed.

Lemma wavg_textbook xs ws : (wavg xs ws == weighted_mean xs ws)%Q.
Proof.
  unfold wavg, weighted_mean. rewrite Qred_correct, dotQ_textbook, sumQ_textbook. reflexivity.
Qed.

(* ---- squash_genes -------------------------------------------------------------------------- *)

Lemma nth_error_last {A} (l : list A) d :
  l <> [] -> nth_error l (length l - 1) = Some (last l d).
Proof.
  induction l as [|x t IH]; intros Hne; [congruence|].
  destruct t as [|y t']; [reflexivity|].
  cbn [length]. replace (S (S (length t')) - 1) with (S (length (y :: t') - 1)) by (cbn; lia).
  cbn [nth_error]. rewrite IH by discriminate. reflexivity.
Qed.

Lemma slice_first_last (rows : list bin) f l bf bl :
  f <= l -> nth_error rows f = Some bf -> nth_error rows l = Some bl ->
  exists t, slice rows f (S l) = bf :: t /\ last (bf :: t) bf = bl /\ (f < l -> t <> []).
Proof.
  intros Hfl Hf Hl.
  assert (Hlen : l < length rows) by (apply nth_error_Some; congruence).
  assert (Hsl : length (slice rows f (S l)) = S l - f) by (apply slice_length; lia).
  destruct (slice rows f (S l)) as [|x t] eqn:E; [cbn [length] in Hsl; lia|].
  assert (Hx : nth_error (slice rows f (S l)) 0 = Some bf).
  { rewrite nth_error_slice by lia. rewrite Nat.add_0_r. exact Hf. }
  rewrite E in Hx. cbn in Hx. inversion Hx; subst x.
  exists t. split; [reflexivity|]. split.
  - assert (Hlast : nth_error (slice rows f (S l)) (S l - f - 1) = Some bl).
    { rewrite nth_error_slice by lia. replace (f + (S l - f - 1)) with l by lia. exact Hl. }
    rewrite E in Hlast. rewrite <- Hsl in Hlast.
    rewrite (nth_error_last (bf :: t) bf) in Hlast by discriminate. congruence.
  - intros Hlt ->. cbn [length] in Hsl. lia.
Qed.

Lemma squash_group_gap sa gr :
  fst gr = "Antitarget"%string -> sa = false ->
  squash_group sa gr = map srow_of_bin (snd gr).
Proof.
  intros Hl ->. unfold squash_group. destruct (snd gr) as [|b0 rest]; [reflexivity|].
  rewrite Hl. reflexivity.
Qed.

Lemma squash_group_gene sa ign rows g f l :
  mem_string "Antitarget" ign = true -> mem_string "Background" ign = true ->
  real ign g -> gene_span rows g f l ->
  exists bf bl row,
    nth_error rows f = Some bf /\ nth_error rows l = Some bl /\
    squash_group sa (g, slice rows f (S l)) = [row] /\
    s_chr row = b_chr bf /\ s_start row = b_start bf /\ s_end row = b_end bl /\
    s_probes row = sumZ (map b_probes (slice rows f (S l))) /\
    (f < l -> s_gene row = g) /\ (f = l -> s_gene row = b_gene bf).
Proof.
  intros Ha Hb Hg Hsp.
  destruct (gene_span_bounds _ _ _ _ Hsp) as [Hfl Hln].
  destruct Hsp as ((bf & Hf & _) & (bl & Hl & _) & _).
  destruct (slice_first_last _ _ _ _ _ Hfl Hf Hl) as (t & Hs & Hlast & Ht).
  assert (Hal : mem_string g ANTITARGET_ALIASES = false).
  { apply mem_string_notIn. cbn. intros [<-|[<-|[]]]; unfold real in Hg; congruence. }
  exists bf, bl. unfold squash_group. cbn [fst snd]. rewrite Hs, Hal. cbn [andb].
  destruct t as [|b1 t'].
  - exists (srow_of_bin bf). cbn in Hlast. subst bl.
    repeat split; try reflexivity; try assumption.
    + cbn. lia.
    + intros Hlt. exfalso. apply (Ht Hlt). reflexivity.
  - eexists. split; [exact Hf|]. split; [exact Hl|]. split; [reflexivity|].
    cbn [s_chr s_start s_end s_probes s_gene]. rewrite Hlast.
    repeat split; try reflexivity.
    intros ->. exfalso.
    assert (Hlen : length (slice rows l (S l)) = S l - l) by (apply slice_length; lia).
    rewrite Hs in Hlen. cbn [length] in Hlen. lia.
Qed.

Lemma flat_map_flat_map {A B C} (f : A -> list B) (g : B -> list C) l :
  flat_map g (flat_map f l) = flat_map (fun x => flat_map g (f x)) l.
Proof.
  induction l as [|x t IH]; [reflexivity|]. cbn [flat_map]. rewrite flat_map_app, IH. reflexivity.
Qed.

Lemma squash_genes_blocks ignore sa blocks :
  chrom_blocks blocks ->
  squash_genes ignore sa (concat (map snd blocks)) =
  flat_map (fun cb => flat_map (squash_group sa) (by_gene_chrom (full_ignore ignore) (snd cb))) blocks.
Proof.
  intros Hb. unfold squash_genes, by_gene. rewrite (by_chromosome_blocks blocks Hb).
  apply flat_map_flat_map.
Qed.

Lemma full_ignore_background ignore : mem_string "Background" (full_ignore ignore) = true.
Proof.
  apply mem_string_In. unfold full_ignore. apply in_app_iff. right. right. left. reflexivity.
Qed.

(* squash_genes of a table = per chromosome, per group of by_gene (characterised by
   C16_partition): a gene group becomes one row from the start of the gene's first bin
   to the end of its last bin, an Antitarget stretch is kept bin by bin *)
Lemma squash_genes_spec ignore sa blocks :
  chrom_blocks blocks ->
  squash_genes ignore sa (concat (map snd blocks)) =
    flat_map (fun cb => flat_map (squash_group sa) (by_gene_chrom (full_ignore ignore) (snd cb))) blocks
  /\ (forall gr, fst gr = "Antitarget"%string -> sa = false ->
        squash_group sa gr = map srow_of_bin (snd gr))
  /\ (forall rows g f l, real (full_ignore ignore) g -> gene_span rows g f l ->
        exists bf bl row,
          nth_error rows f = Some bf /\ nth_error rows l = Some bl /\
          squash_group sa (g, slice rows f (S l)) = [row] /\
          s_chr row = b_chr bf /\ s_start row = b_start bf /\ s_end row = b_end bl /\
          s_probes row = sumZ (map b_probes (slice rows f (S l))) /\
          (f < l -> s_gene row = g) /\ (f = l -> s_gene row = b_gene bf)).
Proof.
  intros Hb. split; [apply squash_genes_blocks; assumption|]. split.
  - intros gr. apply squash_group_gap.
  - intros rows g f l. apply squash_group_gene; [apply full_ignore_anti | apply full_ignore_background].
Qed.

(* ---- genemetrics with segments ----------------------------------------------------------------- *)

Lemma filter_none {A} (p : A -> bool) l : (forall x, In x l -> p x = false) -> filter p l = [].
Proof.
  induction l as [|x t IH]; intros H; [reflexivity|]. cbn [filter].
  rewrite (H x (or_introl eq_refl)). apply IH. intros y Hy. apply H. right. exact Hy.
Qed.

Lemma countb_none {A} (p : A -> bool) l : (forall x, In x l -> p x = false) -> countb p l = 0.
Proof. intros H. unfold countb. rewrite filter_none by assumption. reflexivity. Qed.

Lemma countb_cons {A} (p : A -> bool) x l :
  countb p (x :: l) = if p x then S (countb p l) else countb p l.
Proof. unfold countb. cbn [filter]. destruct (p x); reflexivity. Qed.

Lemma sorted_tail_false {A} (R : A -> A -> Prop) (p : A -> bool) x t :
  (forall a b, R a b -> p b = true -> p a = true) ->
  Forall (R x) t -> p x = false -> forall y, In y t -> p y = false.
Proof.
  intros Hmono HF Hx y Hy. rewrite Forall_forall in HF.
  destruct (p y) eqn:E; [|reflexivity]. rewrite (Hmono x y (HF y Hy) E) in Hx. discriminate.
Qed.

Lemma sorted_prefix {A} (R : A -> A -> Prop) (p : A -> bool) l :
  StronglySorted R l -> (forall a b, R a b -> p b = true -> p a = true) ->
  firstn (countb p l) l = filter p l.
Proof.
  intros Hs Hmono. induction l as [|x t IH]; [reflexivity|].
  inversion Hs as [|? ? Ht Hx]; subst. rewrite countb_cons. cbn [filter].
  destruct (p x) eqn:E.
  - cbn [firstn]. f_equal. apply IH. assumption.
  - pose proof (sorted_tail_false R p x t Hmono Hx E) as Hf.
    rewrite (countb_none p t Hf), (filter_none p t Hf). reflexivity.
Qed.

Lemma sorted_window {A} (R1 R2 : A -> A -> Prop) (p1 p2 : A -> bool) l :
  StronglySorted R1 l -> StronglySorted R2 l ->
  (forall a b, R1 a b -> p1 b = true -> p1 a = true) ->
  (forall a b, R2 a b -> p2 b = true -> p2 a = true) ->
  slice l (countb p1 l) (countb p2 l) = filter (fun x => negb (p1 x) && p2 x) l.
Proof.
  intros Hs1 Hs2 Hm1 Hm2. induction l as [|x t IH]; [reflexivity|].
  inversion Hs1 as [|? ? Ht1 Hx1]; subst. inversion Hs2 as [|? ? Ht2 Hx2]; subst.
  rewrite !countb_cons. cbn [filter].
  destruct (p1 x) eqn:E1, (p2 x) eqn:E2; cbn [negb andb].
  - unfold slice. cbn [skipn]. replace (S (countb p2 t) - S (countb p1 t)) with (countb p2 t - countb p1 t) by lia.
    apply IH; assumption.
  - pose proof (sorted_tail_false R2 p2 x t Hm2 Hx2 E2) as Hf.
    rewrite (countb_none p2 t Hf). unfold slice. cbn [Nat.sub firstn].
    symmetry. apply filter_none. intros y Hy. rewrite (Hf y Hy). apply andb_false_r.
  - pose proof (sorted_tail_false R1 p1 x t Hm1 Hx1 E1) as Hf.
    rewrite (countb_none p1 t Hf). unfold slice. cbn [skipn]. rewrite Nat.sub_0_r. cbn [firstn]. f_equal.
    rewrite (sorted_prefix R2 p2 t Ht2 Hm2).
    apply filter_ext_in. intros y Hy. rewrite (Hf y Hy). reflexivity.
  - pose proof (sorted_tail_false R1 p1 x t Hm1 Hx1 E1) as Hf1.
    pose proof (sorted_tail_false R2 p2 x t Hm2 Hx2 E2) as Hf2.
    rewrite (countb_none p1 t Hf1), (countb_none p2 t Hf2). unfold slice. cbn [Nat.sub firstn].
    symmetry. apply filter_none. intros y Hy. rewrite (Hf2 y Hy). apply andb_false_r.
Qed.

Lemma seg_bins_overlaps crows s :
  bins_sorted crows -> seg_bins crows s = filter (overlaps s) crows.
Proof.
  intros [He Hs]. unfold seg_bins.
  rewrite (sorted_window (fun a b => (b_end a <= b_end b)%Z) (fun a b => (b_start a <= b_start b)%Z)
             (fun b => (b_end b <=? b_start s)%Z) (fun b => (b_start b <? b_end s)%Z) crows He Hs).
  - apply filter_ext. intros b. unfold overlaps. f_equal.
    destruct (b_end b <=? b_start s)%Z eqn:E1, (b_start s <? b_end b)%Z eqn:E2; cbn [negb]; try reflexivity; lia.
  - intros a b Hab Hb. apply Z.leb_le in Hb. apply Z.leb_le. lia.
  - intros a b Hab Hb. apply Z.ltb_lt in Hb. apply Z.ltb_lt. lia.
Qed.

Lemma assoc_chrom_some c m l : assoc_chrom c m = Some l -> In (c, l) m.
Proof.
  induction m as [|[c' l'] t IH]; cbn [assoc_chrom]; [discriminate|].
  destruct (String.eqb c c') eqn:E.
  - apply String.eqb_eq in E. intros H. inversion H; subst. left. reflexivity.
  - intros H. right. apply IH. exact H.
Qed.

Lemma assoc_chrom_none c m : assoc_chrom c m = None -> ~ In c (map fst m).
Proof.
  induction m as [|[c' l'] t IH]; cbn [assoc_chrom map fst]; [intros _ []|].
  destruct (String.eqb c c') eqn:E; [discriminate|].
  apply String.eqb_neq in E. intros H [Heq|Hin]; [congruence | exact (IH H Hin)].
Qed.

Lemma assoc_chrom_rows c rows :
  match assoc_chrom c (by_chromosome rows) with
  | Some l => l = chrom_rows c rows
  | None => chrom_rows c rows = []
  end.
Proof.
  destruct (assoc_chrom c (by_chromosome rows)) as [l|] eqn:E.
  - apply assoc_chrom_some in E. apply by_chromosome_rows in E as [-> _]. reflexivity.
  - apply assoc_chrom_none in E.
    destruct (chrom_rows c rows) as [|x r] eqn:Er; [reflexivity|]. exfalso. apply E.
    apply in_map_iff. exists (c, chrom_rows c rows). split; [reflexivity|].
    apply by_chromosome_iff. split; [reflexivity|]. rewrite Er. discriminate.
Qed.

Lemma seg_bins_nil s : seg_bins [] s = [].
Proof. reflexivity. Qed.

Lemma by_ranges_in rows segs s sub :
  In (s, sub) (by_ranges rows segs) <->
  In s segs /\ sub = seg_bins (chrom_rows (b_chr s) rows) s.
Proof.
  unfold by_ranges. rewrite in_flat_map. split.
  - intros ([c srows] & Hc & Hin). cbn [fst snd] in Hin.
    apply by_chromosome_rows in Hc as [-> _].
    pose proof (assoc_chrom_rows c rows) as Ha.
    assert (Hs : forall x, In x (chrom_rows c segs) -> In x segs /\ b_chr x = c).
    { intros x Hx. unfold chrom_rows in Hx. apply filter_In in Hx as [Hx Hc].
      apply String.eqb_eq in Hc. auto. }
    destruct (assoc_chrom c (by_chromosome rows)) as [crows|].
    + apply in_map_iff in Hin as (s' & Heq & Hs'). inversion Heq; subst.
      destruct (Hs _ Hs') as [Hin Hc]. rewrite Hc. auto.
    + apply in_map_iff in Hin as (s' & Heq & Hs'). inversion Heq; subst.
      destruct (Hs _ Hs') as [Hin Hc]. rewrite Hc, Ha. auto.
  - intros [Hin ->]. exists (b_chr s, chrom_rows (b_chr s) segs).
    assert (Hs : In s (chrom_rows (b_chr s) segs)).
    { unfold chrom_rows. apply filter_In. split; [assumption | apply String.eqb_refl]. }
    split.
    + apply by_chromosome_iff. split; [reflexivity|]. intros E. rewrite E in Hs. destruct Hs.
    + cbn [fst snd]. pose proof (assoc_chrom_rows (b_chr s) rows) as Ha.
      destruct (assoc_chrom (b_chr s) (by_chromosome rows)) as [crows|].
      * subst crows. apply in_map_iff. exists s. auto.
      * rewrite Ha. apply in_map_iff. exists s. auto.
Qed.

Lemma gene_metrics_by_segment_in threshold skip_low rows segs r :
  In r (gene_metrics_by_segment threshold skip_low rows segs) <->
  exists s, In s segs /\ Qle_bool threshold (Qabs (b_log2 s)) = true /\
            segment_gene_row s (seg_bins (chrom_rows (b_chr s) rows) s) skip_low r.
Proof.
  unfold gene_metrics_by_segment, segment_gene_row. rewrite in_flat_map. split.
  - intros ([s sub] & Hin & Hr). cbn [fst snd] in Hr.
    apply by_ranges_in in Hin as [Hs ->].
    destruct (Qle_bool threshold (Qabs (b_log2 s))) eqn:E; [|destruct Hr].
    apply in_map_iff in Hr as (r0 & <- & Hr0).
    apply group_by_genes_in in Hr0 as (c & g & f & l & Hn & Hsp & Hst).
    exists s. split; [assumption|]. split; [assumption|]. exists c, g, f, l, r0. auto.
  - intros (s & Hs & Hth & c & g & f & l & r0 & Hn & Hsp & Hst & ->).
    exists (s, seg_bins (chrom_rows (b_chr s) rows) s). split.
    + apply by_ranges_in. auto.
    + cbn [fst snd]. rewrite Hth. apply in_map. apply group_by_genes_in. eauto 8.
Qed.

Lemma do_genemetrics_by_segment rows segs threshold min_probes skip_low hx fem r :
  segs <> [] ->
  (forall c, bins_sorted (chrom_rows c (shift_xx hx fem rows))) ->
  (In r (do_genemetrics rows (Some segs) threshold min_probes skip_low hx fem) <->
   exists s, In s (shift_xx hx fem segs) /\
             Qle_bool threshold (Qabs (b_log2 s)) = true /\
             (min_probes = 0 \/ min_probes <= b_probes s)%Z /\
             segment_gene_row s (bins_of_segment (shift_xx hx fem rows) s) skip_low r).
Proof.
  intros Hne Hsorted. unfold do_genemetrics, bins_of_segment.
  destruct segs as [|s0 sg]; [congruence|].
  set (rows' := shift_xx hx fem rows). set (segs' := shift_xx hx fem (s0 :: sg)).
  assert (Hnp : forall s, segment_gene_row s (seg_bins (chrom_rows (b_chr s) rows') s) skip_low r ->
                          n_probes r = b_probes s).
  { intros s (c & g & f & l & r0 & _ & _ & _ & ->). reflexivity. }
  destruct (Z.eqb min_probes 0) eqn:E0.
  - apply Z.eqb_eq in E0. rewrite gene_metrics_by_segment_in. split.
    + intros (s & Hs & Hth & Hrow). exists s. rewrite <- seg_bins_overlaps by apply Hsorted. auto.
    + intros (s & Hs & Hth & _ & Hrow). exists s. rewrite <- seg_bins_overlaps in Hrow by apply Hsorted. auto.
  - apply Z.eqb_neq in E0. rewrite filter_In, gene_metrics_by_segment_in. split.
    + intros [(s & Hs & Hth & Hrow) Hmp]. exists s.
      rewrite (Hnp _ Hrow) in Hmp. apply Z.leb_le in Hmp.
      rewrite <- seg_bins_overlaps by apply Hsorted. auto.
    + intros (s & Hs & Hth & Hmp & Hrow). rewrite <- seg_bins_overlaps in Hrow by apply Hsorted.
      split; [eauto|]. rewrite (Hnp _ Hrow). apply Z.leb_le. destruct Hmp; [contradiction | assumption].
Qed.

(* a gene's group begins and ends with a bin of the gene (so the Antitarget stretches
   next to it cannot be extended: they are maximal) *)
Lemma gene_group_ends (rows : list bin) g f l :
  gene_span rows g f l ->
  exists bf bl t, slice rows f (S l) = bf :: t /\ last (bf :: t) bf = bl /\
                  In g (genes_of bf) /\ In g (genes_of bl).
Proof.
  intros Hsp. destruct (gene_span_bounds _ _ _ _ Hsp) as [Hfl _].
  destruct Hsp as ((bf & Hf & Hgf) & (bl & Hl & Hgl) & _).
  destruct (slice_first_last _ _ _ _ _ Hfl Hf Hl) as (t & Hs & Hlast & _).
  exists bf, bl, t. auto.
Qed.
