(* C14, part 8: the run theorems restated for tables as GenomicArray.sort leaves
   them (the contiguity precondition discharged), and small facts about the
   specification functions (satisfiability / sanity). *)
From Coq Require Import QArith.Qabs.
From CNV Require Import Base.Prelude Base.Str Gen.SegfilterDefaults Model.Segfilters Spec.Segfilters.
From CNV Require Model.Chromsort Proofs.ChromsortLemmas.
From CNV Require Import Proofs.SegfiltersRuns Proofs.SegfiltersKeys Proofs.SegfiltersConserve
  Proofs.SegfiltersOrder Proofs.SegfiltersLib Proofs.SegfiltersFields Proofs.SegfiltersSorted.

Theorem filter_runs_sorted : forall (f : filt) (t : list seg),
  genome_sorted t -> names_separable t ->
  squashed f t = map squash_region (level_runs f t) /\
  (f <> Fampdel -> apply_filter f t = map squash_region (level_runs f t)) /\
  is_max_runs (same_full f) t (level_runs f t) /\
  Forall2 merged_row (level_runs f t) (squashed f t) /\
  total_probes (squashed f t) = total_probes t /\
  (total_weight (squashed f t) == total_weight t)%Q.
Proof.
  intros f t S N. pose proof (sorted_contig t S N) as C.
  destruct (filter_runs f t C) as (A & B & M & _).
  destruct (filter_merged_fields f t C) as (F & _).
  destruct (filter_conserve f t C) as (P & W & _).
  split; [exact A|]. split; [exact B|]. split; [exact M|]. split; [exact F|]. split; [exact P|exact W].
Qed.

(* the distinct names: no repetition, the same names as the run's, in the run's order *)
Lemma nodup_uniq_str l : NoDup (uniq_str l).
Proof.
  induction l as [|x t IH]; cbn [uniq_str]; constructor.
  - rewrite filter_In. intros [_ H]. rewrite String.eqb_refl in H. discriminate.
  - apply NoDup_filter. exact IH.
Qed.

Theorem first_occurrences_spec l :
  NoDup (first_occurrences l) /\ (forall x, In x (first_occurrences l) <-> In x l) /\
  Subseq (first_occurrences l) l.
Proof.
  rewrite <- uniq_str_first_occurrences. split; [apply nodup_uniq_str|]. split; [apply in_uniq_str|].
  induction l as [|x t IH]; cbn [uniq_str]; constructor.
  eapply subseq_trans; [apply subseq_filter|exact IH].
Qed.
