(* C02: the literal transcription of absolute_threshold's for/else loop (Model/Threshold.v:
   scan_loop / scan_row) computes what the model's first_le / scale_cn / thr_cn compute.

   The one place where Python leaves exact arithmetic is `int(cnum * ref_copies / ploidy)`:
   the product is an exact int, `/` is float division of two ints (correctly rounded), int()
   truncates.  fdiv_contract states what a correctly rounded quotient guarantees (exact on
   exact quotients, relative error <= 2^-53 otherwise); under it the truncation of the float
   quotient IS the integer quotient whenever the dividend is below 2^53 -- always the case
   for cnum < len(thresholds), ref_copies, ploidy small non-negative integers. *)
From Coq Require Import Qround Qabs.
From CNV Require Import Base.Prelude Base.Str Gen.CallDefaults Model.Call Model.Threshold
  Spec.CallThreshold Proofs.CallNum Proofs.Call Proofs.CallThreshold.
From Coq Require Import Lqa.   (* after Prelude: `lra` over Q *)

Local Open Scope Z_scope.

Definition two53 : Z := 9007199254740992.     (* 2^53 *)

Lemma two53_pow : two53 = 2 ^ 53.
Proof. reflexivity. Qed.

(* Python's a / b on ints 0 <= a, 0 < b: the exact quotient when it is an integer (then it
   is a double below 2^53 in the cases used), else within relative error 2^-53 of it *)
Definition fdiv_contract (fdiv : Z -> Z -> Q) : Prop :=
  forall a b, 0 <= a -> 0 < b ->
    ((exists m, a = m * b) -> (fdiv a b == inject_Z a / inject_Z b)%Q) /\
    (Qabs (fdiv a b - inject_Z a / inject_Z b) <= (inject_Z a / inject_Z b) * (1 # 9007199254740992))%Q.

(* ---------------------------------------------------------------- truncation *)

Lemma trunc_Q_Z (z : Z) : trunc_Q (inject_Z z) = z.
Proof. unfold trunc_Q. destruct (Qle_bool 0 (inject_Z z)); [apply Qfloor_Z | apply Qceiling_Z]. Qed.

Lemma trunc_Q_nonneg q : (0 <= q)%Q -> trunc_Q q = Qfloor q.
Proof. intro H. unfold trunc_Q. apply Qle_bool_iff in H. rewrite H. reflexivity. Qed.

Lemma Qpos_cancel_r (y b : Q) : (0 < b)%Q -> (0 <= y * b)%Q -> (0 <= y)%Q.
Proof. intros Hb H. nra. Qed.

Lemma Qpos_cancel_lt_r (y b : Q) : (0 < b)%Q -> (0 < y * b)%Q -> (0 < y)%Q.
Proof. intros Hb H. nra. Qed.

(* the float quotient truncates to the integer quotient *)
Lemma fdiv_trunc fdiv a b :
  fdiv_contract fdiv -> 0 <= a -> a < two53 -> 0 < b -> trunc_Q (fdiv a b) = a / b.
Proof.
  intros Hc Ha Ha53 Hb. destruct (Hc a b Ha Hb) as [Hex Herr].
  assert (Hbn : b <> 0) by (intro E0; rewrite E0 in Hb; apply (Z.lt_irrefl 0 Hb)).
  pose proof (Z.div_mod a b Hbn) as Hdm.
  pose proof (Z.mod_pos_bound a b Hb) as Hmod.
  pose proof (Z.div_pos a b Ha Hb) as Hq0.
  set (m := a / b) in *. set (rm := a mod b) in *.
  pose proof (inject_Z_pos b Hb) as HB.
  destruct (Z.eq_dec rm 0) as [R0 | Rn].
  - (* exact quotient *)
    assert (E : (fdiv a b == inject_Z m)%Q).
    { assert (Ea : a = m * b) by (rewrite Hdm at 1; rewrite R0; ring).
      rewrite (Hex (ex_intro _ m Ea)). rewrite Ea at 1. rewrite inject_Z_mult. field. intro H0; lra. }
    rewrite trunc_Q_nonneg.
    + rewrite (Qfloor_comp _ _ E). apply Qfloor_Z.
    + rewrite E. apply inject_Z_nonneg. exact Hq0.
  - (* m + 1/b <= a/b <= m + 1 - 1/b and a * 2^-53 < 1 *)
    set (x := (inject_Z a / inject_Z b)%Q) in *.
    assert (Hx : (x * inject_Z b == inject_Z a)%Q) by (unfold x; field; intro H0; lra).
    assert (EA : (inject_Z a == inject_Z b * inject_Z m + inject_Z rm)%Q).
    { rewrite <- inject_Z_mult, <- inject_Z_plus. rewrite <- Hdm. reflexivity. }
    assert (R1 : (1 <= inject_Z rm)%Q).
    { change 1%Q with (inject_Z 1). apply (proj1 (inject_Z_le _ _)). lia. }
    assert (R2 : (inject_Z rm <= inject_Z b - 1)%Q).
    { change 1%Q with (inject_Z 1). unfold Qminus. rewrite <- inject_Z_opp, <- inject_Z_plus.
      apply (proj1 (inject_Z_le _ _)). lia. }
    assert (A53 : (inject_Z a * (1 # 9007199254740992) < 1)%Q).
    { assert (L : (inject_Z a <= inject_Z (two53 - 1))%Q) by (apply (proj1 (inject_Z_le _ _)); lia).
      unfold two53 in L. cbn in L. change (inject_Z 9007199254740991) with (9007199254740991 # 1)%Q in L. lra. }
    assert (A0 : (0 <= inject_Z a)%Q) by (apply inject_Z_nonneg; exact Ha).
    apply Qabs_Qle_condition in Herr. destruct Herr as [Hlo Hhi].
    assert (X0 : (0 <= x)%Q).
    { apply (Qpos_cancel_r x (inject_Z b) HB). rewrite Hx. exact A0. }
    (* x - x*eps >= m *)
    assert (Lo : (inject_Z m <= x - x * (1 # 9007199254740992))%Q).
    { assert (G : (0 <= (x - x * (1 # 9007199254740992) - inject_Z m) * inject_Z b)%Q).
      { assert (E : ((x - x * (1 # 9007199254740992) - inject_Z m) * inject_Z b
                     == inject_Z rm - inject_Z a * (1 # 9007199254740992))%Q).
        { setoid_replace ((x - x * (1 # 9007199254740992) - inject_Z m) * inject_Z b)%Q
            with (x * inject_Z b - (x * inject_Z b) * (1 # 9007199254740992) - inject_Z b * inject_Z m)%Q by ring.
          rewrite Hx, EA. ring. }
        rewrite E. lra. }
      apply Qpos_cancel_r in G; [lra | exact HB]. }
    (* x + x*eps < m + 1 *)
    assert (Hi : (x + x * (1 # 9007199254740992) < inject_Z m + 1)%Q).
    { assert (G : (0 < (inject_Z m + 1 - x - x * (1 # 9007199254740992)) * inject_Z b)%Q).
      { assert (E : ((inject_Z m + 1 - x - x * (1 # 9007199254740992)) * inject_Z b
                     == inject_Z b - inject_Z rm - inject_Z a * (1 # 9007199254740992))%Q).
        { setoid_replace ((inject_Z m + 1 - x - x * (1 # 9007199254740992)) * inject_Z b)%Q
            with (inject_Z b * inject_Z m + inject_Z b - x * inject_Z b - (x * inject_Z b) * (1 # 9007199254740992))%Q by ring.
          rewrite Hx, EA. ring. }
        rewrite E. lra. }
      apply Qpos_cancel_lt_r in G; [lra | exact HB]. }
    assert (M0 : (0 <= inject_Z m)%Q) by (apply inject_Z_nonneg; exact Hq0).
    rewrite trunc_Q_nonneg by lra.
    apply Qfloor_unique; lra.
Qed.

(* the exact quotient meets the contract (it is not vacuous), and truncates exactly for every size *)
Lemma exact_div_eq a b : (exact_div a b == inject_Z a / inject_Z b)%Q.
Proof. unfold exact_div. apply Qred_correct. Qed.

Lemma exact_div_contract : fdiv_contract exact_div.
Proof.
  intros a b Ha Hb. split.
  - intros _. apply exact_div_eq.
  - pose proof (inject_Z_pos b Hb) as HB. pose proof (inject_Z_nonneg a Ha) as HA.
    assert (X0 : (0 <= inject_Z a / inject_Z b)%Q).
    { apply Qle_shift_div_l; [exact HB | lra]. }
    assert (E : (exact_div a b - inject_Z a / inject_Z b == 0)%Q) by (rewrite exact_div_eq; ring).
    rewrite E. cbn [Qabs]. change (Qabs 0) with 0%Q.
    apply Qmult_le_0_compat; [exact X0 | discriminate].
Qed.

Lemma exact_div_trunc a b : 0 <= a -> 0 < b -> trunc_Q (exact_div a b) = a / b.
Proof.
  intros Ha Hb. pose proof (inject_Z_pos b Hb) as HB. pose proof (inject_Z_nonneg a Ha) as HA.
  rewrite trunc_Q_nonneg.
  - rewrite (Qfloor_comp _ _ (exact_div_eq a b)). apply Qfloor_div. exact Hb.
  - rewrite exact_div_eq. apply Qle_shift_div_l; [exact HB | lra].
Qed.

(* ---------------------------------------------------------------- the walk *)

Lemma scale_cn_div i r k : 0 <= i -> 0 <= r -> 0 < k ->
  scale_cn i r k = if r =? k then i else (i * r) / k.
Proof.
  intros Hi Hr Hk. unfold scale_cn. destruct (r =? k); [reflexivity|].
  apply Z.quot_div_nonneg; nia.
Qed.

(* generic in how the quotient is truncated: `tr` holds on every index the walk can reach *)
Lemma scan_loop_first_le fdiv v e k r :
  0 <= r -> 0 < k ->
  forall ts i0, 0 <= i0 ->
    (forall i, i0 <= i < i0 + Z.of_nat (length ts) -> trunc_Q (fdiv (i * r) k) = (i * r) / k) ->
    scan_loop fdiv v e k r (enumerate_from i0 ts)
    = match first_le v ts i0 with
      | Some i => scale_cn i r k
      | None => Qceiling (inject_Z r * e)
      end.
Proof.
  intros Hr Hk. induction ts as [|t rest IH]; intros i0 Hi0 Htr.
  - cbn [enumerate_from scan_loop first_le]. rewrite trunc_Q_Z.
    apply Qceiling_comp. apply abs_pure_eq.
  - cbn [enumerate_from scan_loop first_le]. destruct (Qle_bool v t).
    + rewrite (scale_cn_div i0 r k Hi0 Hr Hk). destruct (r =? k); cbn [negb]; [reflexivity|].
      apply Htr. cbn [length]. lia.
    + apply IH; [lia|]. intros i Hi. apply Htr. cbn [length]. lia.
Qed.

(* the loop of absolute_threshold is the model's thr_cn: float quotient under its contract *)
Theorem scan_equiv fdiv :
  fdiv_contract fdiv ->
  forall v e ts k r, 0 <= r -> 0 < k -> Z.of_nat (length ts) * r <= two53 ->
    scan_row fdiv v e ts k r = thr_cn v e ts k r.
Proof.
  intros Hc v e ts k r Hr Hk Hsz. destruct v as [v|]; [|reflexivity].
  unfold scan_row, thr_cn. apply scan_loop_first_le; [exact Hr | exact Hk | lia |].
  intros i Hi. apply fdiv_trunc; [exact Hc | nia | | exact Hk].
  assert (i * r <= (Z.of_nat (length ts) - 1) * r) by nia.
  destruct (Z.eq_dec r 0) as [-> | Rn]; [unfold two53; lia | nia].
Qed.

(* ... and with the exact quotient, for every size *)
Theorem scan_equiv_exact v e ts k r : 0 <= r -> 0 < k ->
  scan_row exact_div v e ts k r = thr_cn v e ts k r.
Proof.
  intros Hr Hk. destruct v as [v|]; [|reflexivity].
  unfold scan_row, thr_cn. apply scan_loop_first_le; [exact Hr | exact Hk | lia |].
  intros i Hi. apply exact_div_trunc; [nia | exact Hk].
Qed.

(* hence the walk is the property's step function *)
Theorem scan_spec fdiv :
  fdiv_contract fdiv ->
  forall v e ts k r, strictly_increasing ts -> 0 <= r -> 0 < k -> Z.of_nat (length ts) * r <= two53 ->
    scan_row fdiv (Some v) e ts k r = spec_thr v e ts k r.
Proof.
  intros Hc v e ts k r Hs Hr Hk Hsz. rewrite (scan_equiv fdiv Hc (Some v) e ts k r Hr Hk Hsz).
  apply thr_spec; assumption.
Qed.

(* ---------------------------------------------------------------- statements with 2^53 spelled out *)

Lemma float_quotient fdiv a b :
  fdiv_contract fdiv -> 0 <= a -> a < 2 ^ 53 -> 0 < b ->
  trunc_Q (fdiv a b) = a / b /\ a / b = Z.quot a b.
Proof.
  intros Hc Ha Ha53 Hb. split.
  - apply fdiv_trunc; [exact Hc | exact Ha | rewrite two53_pow; exact Ha53 | exact Hb].
  - symmetry. apply Z.quot_div_nonneg; [exact Ha | exact Hb].
Qed.

Lemma scan_equiv_pow fdiv :
  fdiv_contract fdiv ->
  forall v e ts k r, 0 <= r -> 0 < k -> Z.of_nat (length ts) * r <= 2 ^ 53 ->
    scan_row fdiv v e ts k r = thr_cn v e ts k r.
Proof.
  intros Hc v e ts k r Hr Hk Hsz.
  apply scan_equiv; [exact Hc | exact Hr | exact Hk | rewrite two53_pow; exact Hsz].
Qed.

Lemma scan_equiv_exact_all :
  fdiv_contract exact_div /\
  forall v e ts k r, 0 <= r -> 0 < k -> scan_row exact_div v e ts k r = thr_cn v e ts k r.
Proof. exact (conj exact_div_contract scan_equiv_exact). Qed.

Lemma scan_spec_pow fdiv :
  fdiv_contract fdiv ->
  forall v e ts k r, strictly_increasing ts -> 0 <= r -> 0 < k -> Z.of_nat (length ts) * r <= 2 ^ 53 ->
    scan_row fdiv (Some v) e ts k r = spec_thr v e ts k r.
Proof.
  intros Hc v e ts k r Hs Hr Hk Hsz.
  apply scan_spec; [exact Hc | exact Hs | exact Hr | exact Hk | rewrite two53_pow; exact Hsz].
Qed.
