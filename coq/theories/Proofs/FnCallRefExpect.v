(* C01 source tie of get_as_dframe_and_set_reference_and_expect_copies: the per-row reading of its
   column code (two np.repeat defaults, six masked .loc stores) is regenerated from the Python source on
   every run (Gen/FnCallRefExpect.v fn_ref_expect).  Here: with the row's mask bits -- chr_x_filter
   selects exactly class ChrX, chr_y_filter class ChrY, pary_filter class ParY (cnary.py; a ParY row
   exists only when a PAR build is given) -- it IS Model/Call.v ref_expect, for every class. *)
From CNV Require Import Base.Prelude Base.Str Gen.Params Gen.CallDefaults Gen.FnCallRefExpect Model.Call.

Local Open Scope Z_scope.

Definition is_x (c : cls) : bool := match c with ChrX => true | _ => false end.
Definition is_y (c : cls) : bool := match c with ChrY => true | _ => false end.
Definition is_pary (c : cls) : bool := match c with ParY => true | _ => false end.

Lemma source_ref_expect k hapx female has_build c :
  (c = ParY -> has_build = true) ->
  fn_ref_expect k k hapx female (is_x c) (is_y c) has_build (is_pary c) = ref_expect k hapx female c.
Proof.
  intro H. unfold fn_ref_expect, ref_expect, half, half_div, y_female_expect, pary_copies.
  destruct c; cbn [is_x is_y is_pary]; try (destruct has_build; reflexivity).
  rewrite (H eq_refl). reflexivity.
Qed.
