(* Proofs for C07, part 3: whole tables.  Chromosome pairing (by_shared_chroms with
   its single-chromosome shortcut), by_ranges / iter_slices give one answer per
   query row in query order, missing chromosomes, keep_empty; intersection,
   iter_ranges_of; in_range / in_ranges with None bounds. *)
From CNV Require Import Base.Prelude Model.Ranges Spec.RangeQuery Proofs.RangesLib Proofs.Ranges.
From CNV Require Gen.RangeDefaults.

Definition answer_of (m : qmode) (table : list trow) (b : trow) : trow * list row :=
  (b, select_spec m (r_lo (snd b)) (r_hi (snd b)) (rows_of (fst b) table)).

Lemma answers_map m table other : answers m table other = map (answer_of m table) other.
Proof. reflexivity. Qed.

Definition keep (ke : bool) (x : trow * list row) : bool := ke || nonempty_sel x.
Definition keep_rows (ke : bool) (sub : list row) : bool :=
  match sub with [] => ke | _ => true end.

Lemma keep_keep_rows ke x : keep ke x = keep_rows ke (snd x).
Proof. unfold keep, nonempty_sel, keep_rows. destruct (snd x), ke; reflexivity. Qed.

(* ---- distinct chromosomes --------------------------------------------------- *)
Lemma In_distinct l x : In x (distinct l) <-> In x l.
Proof.
  induction l as [|y t IH]; [reflexivity|].
  cbn [distinct In]. rewrite filter_In, IH.
  split.
  - intros [H|[H _]]; auto.
  - intros [H|H]; [left; exact H|].
    destruct (String.eqb x y) eqn:E.
    + left. apply String.eqb_eq in E. congruence.
    + right. split; [exact H|]. reflexivity.
Qed.

Lemma distinct_single l c : distinct l = [c] -> forall x, In x l -> x = c.
Proof.
  destruct l as [|y t]; [discriminate|].
  cbn [distinct]. intros H x Hx. inversion H as [[Hy Hf]]. subst y.
  destruct Hx as [Hx|Hx]; [congruence|].
  destruct (String.eqb x c) eqn:E; [apply String.eqb_eq; exact E|].
  assert (In x (filter (fun y => negb (String.eqb y c)) (distinct t))) as Hin.
  { apply filter_In. split; [apply In_distinct; exact Hx|]. cbv beta. rewrite E. reflexivity. }
  rewrite Hf in Hin. destruct Hin.
Qed.

Lemma chroms_single t c : chroms t = [c] -> forall x, In x t -> fst x = c.
Proof.
  intros H x Hx. apply (distinct_single (map fst t) c H). apply in_map. exact Hx.
Qed.

Lemma In_chroms t c : In c (chroms t) <-> exists x, In x t /\ fst x = c.
Proof.
  unfold chroms. rewrite In_distinct, in_map_iff. split; intros [x [H1 H2]]; exists x; auto.
Qed.

Lemma of_chrom_all t c : (forall x, In x t -> fst x = c) -> of_chrom c t = t.
Proof.
  intros H. apply filter_all_true. intros x Hx. rewrite (H x Hx). apply String.eqb_refl.
Qed.

Lemma of_chrom_In t c x : In x (of_chrom c t) -> fst x = c.
Proof. intros H. apply filter_In in H as [_ H]. apply String.eqb_eq. exact H. Qed.

Lemma has_chrom_false t c : has_chrom c t = false -> of_chrom c t = [].
Proof.
  intros H. apply filter_all_false. intros x Hx.
  unfold has_chrom in H.
  destruct (String.eqb (fst x) c) eqn:E; [|reflexivity].
  assert (existsb (fun x0 => String.eqb (fst x0) c) t = true) as Ht.
  { apply existsb_exists. exists x. auto. }
  congruence.
Qed.

Lemma has_chrom_true t c : has_chrom c t = true -> of_chrom c t <> [].
Proof.
  intros H. apply existsb_exists in H as [x [Hx E]].
  intros Hn. assert (In x (of_chrom c t)) as Hin by (apply filter_In; auto).
  rewrite Hn in Hin. destruct Hin.
Qed.

Lemma of_chrom_nonempty t c : In c (chroms t) -> of_chrom c t <> [].
Proof.
  intros H. apply In_chroms in H as [x [Hx E]].
  intros Hn. assert (In x (of_chrom c t)) as Hin.
  { apply filter_In. split; [exact Hx|]. rewrite E. apply String.eqb_refl. }
  rewrite Hn in Hin. destruct Hin.
Qed.

Lemma same_single_chrom_inv a b : same_single_chrom a b = true ->
  exists c, chroms a = [c] /\ chroms b = [c].
Proof.
  unfold same_single_chrom.
  destruct (chroms a) as [|c [|? ?]]; try discriminate.
  destruct (chroms b) as [|c' [|? ?]]; try discriminate.
  intros H. apply String.eqb_eq in H. subst. exists c'. auto.
Qed.

(* ---- regrouping by chromosome ------------------------------------------------ *)
Lemma group_concat_regroup {B} (k : B -> bool) (f : trow -> B) (X : string -> list B) other :
  (forall c, In c (chroms other) -> X c = filter k (map f (of_chrom c other))) ->
  concat (map X (chroms other)) = filter k (map f (regroup other)).
Proof.
  intros HX. unfold regroup.
  rewrite concat_map, map_map, <- concat_filter_map, map_map.
  f_equal. apply map_ext_in. exact HX.
Qed.

Lemma grouped_regroup other : grouped other -> regroup other = other.
Proof. intros H. exact H. Qed.

Lemma group_concat {B} (k : B -> bool) (f : trow -> B) (X : string -> list B) other :
  grouped other ->
  (forall c, In c (chroms other) -> X c = filter k (map f (of_chrom c other))) ->
  concat (map X (chroms other)) = filter k (map f other).
Proof.
  intros Hg HX. rewrite (group_concat_regroup k f X other HX), (grouped_regroup other Hg). reflexivity.
Qed.

Lemma single_chrom_grouped other c : chroms other = [c] -> grouped other.
Proof.
  intros H. unfold grouped. rewrite H. cbn [map concat]. rewrite app_nil_r.
  apply of_chrom_all. exact (chroms_single other c H).
Qed.

Lemma concat_map_concat {A B} (G : A -> list B) (L : list (list A)) :
  concat (map G (concat L)) = concat (map (fun l => concat (map G l)) L).
Proof.
  induction L as [|l t IH]; [reflexivity|].
  cbn [concat map]. rewrite map_app, concat_app, IH. reflexivity.
Qed.

(* ---- one chromosome's group --------------------------------------------------- *)
Definition query_of (b : trow) : Z * Z := (r_lo (snd b), r_hi (snd b)).

Lemma starts_of_queries bins : starts_of bins = map fst (map query_of bins).
Proof. unfold starts_of. rewrite map_map. reflexivity. Qed.
Lemma ends_of_queries bins : ends_of bins = map snd (map query_of bins).
Proof. unfold ends_of. rewrite map_map. reflexivity. Qed.

Lemma combine_map_self {A B} (g : A -> B) (l : list A) : combine l (map g l) = map (fun x => (x, g x)) l.
Proof. induction l as [|x t IH]; [reflexivity|]. cbn. rewrite IH. reflexivity. Qed.

Lemma table_ok_rows table c : table_ok table ->
  sorted_lo (rows_of c table) /\ Forall valid_row (rows_of c table).
Proof. intros H. apply H. Qed.

Lemma group_iter_ranges m table c bins :
  table_ok table -> rows_of c table <> [] -> bins <> [] ->
  iter_ranges (rows_of c table) (Some (starts_of bins)) (Some (ends_of bins)) m =
  map (fun b => select_spec m (r_lo (snd b)) (r_hi (snd b)) (rows_of c table)) bins.
Proof.
  intros Hok Hr Hb. destruct (table_ok_rows table c Hok) as [Hs Hv].
  rewrite starts_of_queries, ends_of_queries.
  rewrite iter_ranges_spec; try assumption.
  - rewrite map_map. reflexivity.
  - destruct bins; [congruence|discriminate].
Qed.

Lemma group_answers m table c bins :
  table_ok table -> rows_of c table <> [] -> bins <> [] -> (forall b, In b bins -> fst b = c) ->
  combine bins (iter_ranges (rows_of c table) (Some (starts_of bins)) (Some (ends_of bins)) m) =
  map (answer_of m table) bins.
Proof.
  intros Hok Hr Hb Hc. rewrite group_iter_ranges by assumption.
  rewrite combine_map_self. apply map_ext_in. intros b Hin. unfold answer_of.
  rewrite (Hc b Hin). reflexivity.
Qed.

Lemma rows_of_nonempty table c : of_chrom c table <> [] -> rows_of c table <> [].
Proof. unfold rows_of. destruct (of_chrom c table); [congruence|discriminate]. Qed.

Lemma select_spec_nil m qs qe : select_spec m qs qe [] = [].
Proof. destruct m; reflexivity. Qed.

Lemma answers_missing m table c bins :
  has_chrom c table = false -> (forall b, In b bins -> fst b = c) ->
  map (answer_of m table) bins = map (fun b => (b, [])) bins.
Proof.
  intros Hh Hc. apply map_ext_in. intros b Hin. unfold answer_of, rows_of.
  rewrite (Hc b Hin), (has_chrom_false table c Hh). cbn [map]. rewrite select_spec_nil. reflexivity.
Qed.

(* ---- GenomicArray.by_ranges ---------------------------------------------------- *)
Lemma keep_false_empty (bins : list trow) : filter (keep false) (map (fun b => (b, [])) bins) = [].
Proof. apply filter_all_false. intros x Hx. apply in_map_iff in Hx as [b [<- _]]. reflexivity. Qed.

Theorem ga_by_ranges_regroup table other m ke :
  table_ok table ->
  ga_by_ranges table other m ke = filter (keep ke) (answers m table (regroup other)).
Proof.
  intros Hok. unfold ga_by_ranges.
  rewrite (filter_ext _ (keep ke)) by (intros [b sub]; rewrite keep_keep_rows; reflexivity).
  rewrite answers_map. unfold by_ranges, by_shared_chroms.
  destruct (same_single_chrom other table) eqn:Es.
  - (* single-chromosome shortcut *)
    destruct (same_single_chrom_inv _ _ Es) as [c [Ho Ht]].
    rewrite (grouped_regroup other (single_chrom_grouped other c Ho)).
    cbn [map concat]. rewrite app_nil_r. f_equal.
    assert (Hrows : map snd table = rows_of c table).
    { unfold rows_of. rewrite (of_chrom_all table c (chroms_single table c Ht)). reflexivity. }
    rewrite Hrows. apply group_answers; try assumption.
    + rewrite <- Hrows. destruct table; [discriminate|discriminate].
    + destruct other; [discriminate|discriminate].
    + exact (chroms_single other c Ho).
  - (* general case *)
    unfold shared_groups. rewrite concat_map_concat, map_map, <- concat_filter_map, map_map.
    apply group_concat_regroup. intros c Hc.
    pose proof (of_chrom_nonempty other c Hc) as Hbins.
    pose proof (of_chrom_In other c) as Hfst.
    destruct (has_chrom c table) eqn:Eh.
    + cbn [map concat]. rewrite app_nil_r. f_equal. unfold rows_of in *.
      apply (group_answers m table c (of_chrom c other)); try assumption.
      apply rows_of_nonempty. apply has_chrom_true. exact Eh.
    + rewrite (answers_missing m table c _ Eh Hfst).
      destruct ke; cbn [map concat]; [rewrite app_nil_r; reflexivity|].
      rewrite keep_false_empty. reflexivity.
Qed.

Theorem ga_by_ranges_answers table other m ke :
  table_ok table -> grouped other ->
  ga_by_ranges table other m ke = filter (keep ke) (answers m table other).
Proof.
  intros Hok Hg. rewrite ga_by_ranges_regroup by assumption.
  rewrite (grouped_regroup other Hg). reflexivity.
Qed.

Theorem missing_chrom_spec table other m ke :
  table_ok table -> grouped other ->
  (forall b sub, In (b, sub) (ga_by_ranges table other m ke) ->
     In b other /\ (has_chrom (fst b) table = false -> sub = [] /\ ke = true)) /\
  (forall b, In b other -> has_chrom (fst b) table = false ->
     ke = true -> In (b, []) (ga_by_ranges table other m ke)).
Proof.
  intros Hok Hg. rewrite ga_by_ranges_answers by assumption. rewrite answers_map. split.
  - intros b sub Hin. apply filter_In in Hin as [Hin Hk].
    apply in_map_iff in Hin as [b' [Hb' Hin]]. unfold answer_of in Hb'.
    inversion Hb'; subst b'. split; [exact Hin|].
    intros Hh. unfold rows_of in *. rewrite (has_chrom_false table (fst b) Hh) in *.
    cbn [map] in *. rewrite select_spec_nil in *. subst sub. split; [reflexivity|].
    unfold keep, nonempty_sel in Hk. cbn [snd] in Hk. destruct ke; [reflexivity|discriminate].
  - intros b Hin Hh Hke. apply filter_In. split.
    + apply in_map_iff. exists b. split; [|exact Hin].
      unfold answer_of, rows_of. rewrite (has_chrom_false table (fst b) Hh). cbn [map].
      rewrite select_spec_nil. reflexivity.
    + subst ke. reflexivity.
Qed.

(* ---- iter_slices ---------------------------------------------------------------- *)
Definition qm_of (im : imode) : qmode := match im with Inner => QInner | Outer => QOuter end.

Lemma imode_qm im : imode_of (qm_of im) = im.
Proof. destruct im; reflexivity. Qed.

Lemma iter_ranges_untrimmed t starts ends im :
  map (fun '(s, _, _) => apply_sel s t) (idx_ranges t starts ends im) =
  iter_ranges t starts ends (qm_of im).
Proof.
  unfold iter_ranges. rewrite imode_qm. apply map_ext. intros [[s sv] ev].
  destruct im; reflexivity.
Qed.

Lemma map_snd_filter_keep ke (l : list (trow * list row)) :
  map snd (filter (keep ke) l) = filter (keep_rows ke) (map snd l).
Proof.
  induction l as [|x t IH]; [reflexivity|].
  cbn [filter map]. rewrite keep_keep_rows. destruct (keep_rows ke (snd x)); cbn [map]; rewrite IH; reflexivity.
Qed.

Theorem iter_slices_answers table other im ke :
  table_ok table -> grouped other ->
  iter_slices table other im ke = map snd (filter (keep ke) (answers (qm_of im) table other)).
Proof.
  intros Hok Hg. rewrite map_snd_filter_keep, answers_map, map_map.
  unfold iter_slices, by_shared_chroms.
  destruct (same_single_chrom other table) eqn:Es.
  - destruct (same_single_chrom_inv _ _ Es) as [c [Ho Ht]].
    cbn [map concat]. rewrite app_nil_r.
    rewrite (filter_ext _ (keep_rows ke)) by (intros []; reflexivity).
    f_equal. rewrite iter_ranges_untrimmed.
    assert (Hrows : map snd table = rows_of c table).
    { unfold rows_of. rewrite (of_chrom_all table c (chroms_single table c Ht)). reflexivity. }
    rewrite Hrows. rewrite group_iter_ranges; try assumption.
    + apply map_ext_in. intros b Hin. cbn [answer_of snd].
      rewrite (chroms_single other c Ho b Hin). reflexivity.
    + rewrite <- Hrows. destruct table; discriminate.
    + destruct other; discriminate.
  - unfold shared_groups. rewrite concat_map_concat, map_map.
    apply (group_concat (keep_rows ke) (fun b => snd (answer_of (qm_of im) table b))); [exact Hg|].
    intros c Hc.
    pose proof (of_chrom_nonempty other c Hc) as Hbins.
    pose proof (of_chrom_In other c) as Hfst.
    destruct (has_chrom c table) eqn:Eh.
    + cbn [map concat]. rewrite app_nil_r.
      rewrite (filter_ext _ (keep_rows ke)) by (intros []; reflexivity).
      f_equal. rewrite iter_ranges_untrimmed.
      change (map snd (of_chrom c table)) with (rows_of c table).
      rewrite group_iter_ranges; try assumption.
      * apply map_ext_in. intros b Hin. cbn [answer_of snd]. rewrite (Hfst b Hin). reflexivity.
      * apply rows_of_nonempty. apply has_chrom_true. exact Eh.
    + assert (Hmiss : map (fun b => snd (answer_of (qm_of im) table b)) (of_chrom c other)
                      = map (fun _ => []) (of_chrom c other)).
      { apply map_ext_in. intros b Hin. cbn [answer_of snd]. unfold rows_of.
        rewrite (Hfst b Hin), (has_chrom_false table c Eh). cbn [map]. apply select_spec_nil. }
      rewrite Hmiss.
      destruct ke; cbn [map concat].
      * rewrite app_nil_r. symmetry. apply filter_all_true.
        intros x Hx. apply in_map_iff in Hx as [b [<- _]]. reflexivity.
      * symmetry. apply filter_all_false.
        intros x Hx. apply in_map_iff in Hx as [b [<- _]]. reflexivity.
Qed.

(* ---- intersection, iter_ranges_of ------------------------------------------------ *)
Lemma qm_imode m : m <> QTrim -> qm_of (imode_of m) = m.
Proof. destruct m; try reflexivity. congruence. Qed.

Theorem intersection_answers table other m :
  table_ok table -> grouped other ->
  intersection table other m = concat (map snd (answers m table other)).
Proof.
  intros Hok Hg.
  assert (Hc : forall l : list (trow * list row),
             concat (map snd (filter (keep false) l)) = concat (map snd l)).
  { induction l as [|[b sub] l IH]; [reflexivity|].
    cbn [filter map concat]. destruct sub as [|r sub'].
    - cbn [keep nonempty_sel snd orb app]. exact IH.
    - cbn [keep nonempty_sel snd orb map concat]. rewrite IH. reflexivity. }
  unfold intersection.
  (* the literals of GenomicArray.intersection, as generated from the source *)
  change RangeDefaults.intersection_slices_keep_empty with false.
  change RangeDefaults.intersection_trim_keep_empty with false.
  destruct m.
  - rewrite iter_slices_answers by assumption. cbn [imode_of qm_of]. apply Hc.
  - rewrite iter_slices_answers by assumption. cbn [imode_of qm_of]. apply Hc.
  - rewrite ga_by_ranges_answers by assumption. apply Hc.
Qed.

Theorem iter_ranges_of_answers table other m ke :
  table_ok table -> grouped other ->
  iter_ranges_of table other m ke = map snd (filter (keep ke) (answers m table other)).
Proof.
  intros Hok Hg. unfold iter_ranges_of.
  destruct m.
  - rewrite iter_slices_answers by assumption. reflexivity.
  - rewrite iter_slices_answers by assumption. reflexivity.
  - rewrite ga_by_ranges_answers by assumption. reflexivity.
Qed.

(* ---- in_range / in_ranges, None bounds --------------------------------------------- *)
Lemma filter_true {A} (l : list A) : filter (fun _ => true) l = l.
Proof. apply filter_all_true. reflexivity. Qed.

Lemma trim_clip_hi (e : Z) (sub : list row) :
  (forall r, In r sub -> valid_row r /\ r_lo r < e) ->
  (if truthyZ e then map (clip_hi e) sub else sub) = map (clip_opt None (Some e)) sub.
Proof.
  intros H. unfold truthyZ. destruct (e =? 0) eqn:E; cbn [negb].
  - destruct sub as [|r l]; [reflexivity|].
    destruct (H r (or_introl eq_refl)) as [[Hr _] Hr']. lia.
  - apply map_ext. intros r. reflexivity.
Qed.

Lemma trim_clip_lo (s : Z) (sub : list row) :
  (forall r, In r sub -> valid_row r) ->
  (if truthyZ s then map (clip_lo s) sub else sub) = map (clip_opt (Some s) None) sub.
Proof.
  intros H. unfold truthyZ. destruct (s =? 0) eqn:E; cbn [negb].
  - rewrite <- (map_id sub) at 1. apply map_ext_in. intros r Hr.
    destruct (H r Hr) as [Hr0 _]. unfold clip_opt. destruct r as [i a b]; cbn in *. f_equal. lia.
  - apply map_ext. intros r. reflexivity.
Qed.

Lemma spec_opt_from0 m e rows : Forall valid_row rows ->
  select_spec m 0 e rows = select_spec_opt m None (Some e) rows.
Proof.
  intros Hv. rewrite Forall_forall in Hv.
  assert (Ho : filter (overlaps 0 e) rows = filter (fun r => below (Some e) (r_lo r) && above None (r_hi r)) rows).
  { apply filter_ext_in'. intros r Hr. specialize (Hv r Hr). unfold valid_row in Hv.
    unfold overlaps, above, below. lia. }
  destruct m; cbn [select_spec select_spec_opt]; unfold inner_spec, trim_spec, outer_spec.
  - apply filter_ext_in'. intros r Hr. specialize (Hv r Hr). unfold valid_row in Hv.
    unfold contained, above_eq, below_eq. lia.
  - exact Ho.
  - rewrite Ho. apply map_ext_in. intros r Hr. apply filter_In in Hr as [Hr _].
    specialize (Hv r Hr). unfold valid_row in Hv. unfold clip, clip_opt. f_equal. lia.
Qed.

Theorem in_range_rows_spec rows qs qe m :
  sorted_lo rows -> Forall valid_row rows ->
  hd [] (iter_ranges rows (match qs with Some s => Some [s] | None => None end)
                          (match qe with Some e => Some [e] | None => None end) m) =
  select_spec_opt m qs qe rows.
Proof.
  intros Hlo Hv.
  pose proof Hv as Hv'. rewrite Forall_forall in Hv'.
  destruct rows as [|r0 rest] eqn:Erows.
  { (* empty table: slice(None) *)
    unfold iter_ranges, idx_ranges. cbn [map hd apply_sel].
    destruct m; cbn [trim_rows select_spec_opt filter map]; reflexivity. }
  rewrite <- Erows in *. assert (Hne : rows <> []) by (rewrite Erows; discriminate).
  clear Erows r0 rest.
  destruct qs as [s|], qe as [e|].
  - (* both given: the general theorem with one query *)
    change (Some [s]) with (Some (map fst [(s, e)])).
    change (Some [e]) with (Some (map snd [(s, e)])).
    rewrite iter_ranges_spec by (assumption || discriminate).
    cbn [map hd fst snd].
    destruct m; cbn [select_spec select_spec_opt]; unfold inner_spec, outer_spec, trim_spec, outer_spec;
      cbn [above below above_eq below_eq]; reflexivity.
  - (* end = None *)
    destruct (is_monotonic (map r_hi rows)) eqn:Em.
    2:{ (* rows nest: the mask path with ends = [None] *)
      assert (Hidx : idx_ranges rows (Some [s]) None (imode_of m) =
                     [(SelMask (nested_mask rows (imode_of m) s None), Some s, None)]).
      { unfold idx_ranges. destruct rows; [congruence|]. rewrite Em. reflexivity. }
      unfold iter_ranges. rewrite Hidx. cbn [map hd apply_sel].
      rewrite nested_mask_open by assumption.
      destruct m; cbn [imode_of open_spec select_spec_opt above below above_eq below_eq andb].
      - apply filter_ext. intros r. rewrite andb_true_r. reflexivity.
      - reflexivity.
      - unfold trim_rows. apply trim_clip_lo.
        intros r Hr. apply filter_In in Hr as [Hr _]. apply Hv'. exact Hr. }
    pose proof (monotonic_sorted_hi rows Em) as Hhi.
    assert (Hidx : idx_ranges rows (Some [s]) None (imode_of m) =
                   irange_simple rows (Some [s]) None (imode_of m)).
    { unfold idx_ranges. destruct rows; [congruence|]. rewrite Em. reflexivity. }
    unfold iter_ranges. rewrite Hidx. unfold irange_simple. cbn [given length repeat].
    pose proof (sorted_lo_map rows Hlo) as Sl.
    pose proof (sorted_hi_map rows Hhi) as Sh.
    destruct m; cbn [imode_of].
    + rewrite searchsorted_sorted by assumption. cbn [map zip_simple hd apply_sel select_spec_opt].
      unfold above_eq, below_eq.
      apply select_pos_filter. intros k r Hk. replace (0 + Z.of_nat k) with (Z.of_nat k) by lia.
      pose proof (row_lo_index rows s k r Hlo Hk) as H1.
      pose proof (nth_error_lt_zlen rows k r Hk) as H2.
      destruct (Z.of_nat k <? count_side SLeft (map r_lo rows) s) eqn:E; lia.
    + rewrite searchsorted_sorted by assumption. cbn [map zip_simple hd apply_sel select_spec_opt].
      unfold above, below.
      apply select_pos_filter. intros k r Hk. replace (0 + Z.of_nat k) with (Z.of_nat k) by lia.
      pose proof (row_hi_index rows s k r Hhi Hk) as H1.
      pose proof (nth_error_lt_zlen rows k r Hk) as H2.
      destruct (Z.of_nat k <? count_side SRight (map r_hi rows) s) eqn:E; lia.
    + rewrite searchsorted_sorted by assumption. cbn [map zip_simple hd apply_sel select_spec_opt].
      unfold trim_rows.
      assert (Hsel : select_pos (fun k => (count_side SRight (map r_hi rows) s <=? k) && (k <? zlen rows)) 0 rows
                     = filter (fun r => below None (r_lo r) && above (Some s) (r_hi r)) rows).
      { unfold above, below.
        apply select_pos_filter. intros k r Hk. replace (0 + Z.of_nat k) with (Z.of_nat k) by lia.
        pose proof (row_hi_index rows s k r Hhi Hk) as H1.
        pose proof (nth_error_lt_zlen rows k r Hk) as H2.
        destruct (Z.of_nat k <? count_side SRight (map r_hi rows) s) eqn:E; lia. }
      rewrite Hsel. apply trim_clip_lo.
      intros r Hr. apply filter_In in Hr as [Hr _]. apply Hv'. exact Hr.
  - (* start = None *)
    destruct (is_monotonic (map r_hi rows)) eqn:Em.
    2:{ (* rows nest: the mask path with starts = [0] *)
      assert (Hidx : idx_ranges rows None (Some [e]) (imode_of m) =
                     idx_ranges rows (Some (map fst [(0, e)])) (Some (map snd [(0, e)])) (imode_of m)).
      { unfold idx_ranges. destruct rows; [congruence|]. rewrite Em. reflexivity. }
      unfold iter_ranges. rewrite Hidx.
      change (hd [] (iter_ranges rows (Some (map fst [(0, e)])) (Some (map snd [(0, e)])) m)
              = select_spec_opt m None (Some e) rows).
      rewrite iter_ranges_spec by (assumption || discriminate).
      cbn [map hd fst snd]. apply spec_opt_from0. exact Hv. }
    pose proof (monotonic_sorted_hi rows Em) as Hhi.
    assert (Hidx : idx_ranges rows None (Some [e]) (imode_of m) =
                   irange_simple rows None (Some [e]) (imode_of m)).
    { unfold idx_ranges. destruct rows; [congruence|]. rewrite Em. reflexivity. }
    unfold iter_ranges. rewrite Hidx. unfold irange_simple. cbn [given length repeat].
    pose proof (sorted_lo_map rows Hlo) as Sl.
    pose proof (sorted_hi_map rows Hhi) as Sh.
    destruct m; cbn [imode_of].
    + rewrite searchsorted_sorted by assumption. cbn [map zip_simple hd apply_sel select_spec_opt].
      unfold above_eq, below_eq.
      apply select_pos_filter. intros k r Hk. replace (0 + Z.of_nat k) with (Z.of_nat k) by lia.
      pose proof (row_hi_index rows e k r Hhi Hk) as H1.
      destruct (Z.of_nat k <? count_side SRight (map r_hi rows) e) eqn:E; lia.
    + rewrite searchsorted_sorted by assumption. cbn [map zip_simple hd apply_sel select_spec_opt].
      unfold above, below.
      apply select_pos_filter. intros k r Hk. replace (0 + Z.of_nat k) with (Z.of_nat k) by lia.
      pose proof (row_lo_index rows e k r Hlo Hk) as H1.
      destruct (Z.of_nat k <? count_side SLeft (map r_lo rows) e) eqn:E; lia.
    + rewrite searchsorted_sorted by assumption. cbn [map zip_simple hd apply_sel select_spec_opt].
      unfold trim_rows. cbn [truthyZ Z.eqb negb].
      assert (Hsel : select_pos (fun k => (0 <=? k) && (k <? count_side SLeft (map r_lo rows) e)) 0 rows
                     = filter (fun r => below (Some e) (r_lo r) && above None (r_hi r)) rows).
      { unfold above, below.
        apply select_pos_filter. intros k r Hk. replace (0 + Z.of_nat k) with (Z.of_nat k) by lia.
        pose proof (row_lo_index rows e k r Hlo Hk) as H1.
        destruct (Z.of_nat k <? count_side SLeft (map r_lo rows) e) eqn:E; lia. }
      rewrite Hsel. apply trim_clip_hi.
      intros r Hr. apply filter_In in Hr as [Hr Hb]. split; [apply Hv'; exact Hr|].
      unfold below in Hb. lia.
  - (* both None: the whole table *)
    unfold iter_ranges, idx_ranges. destruct rows; [congruence|].
    cbn [map hd apply_sel].
    destruct m; cbn [select_spec_opt above below above_eq below_eq andb];
      rewrite ?filter_true; try reflexivity.
    unfold trim_rows. rewrite <- (map_id (r :: rows)) at 1. apply map_ext. intros [i a b]. reflexivity.
Qed.

Theorem in_range_spec t chrom qs qe m :
  sorted_lo (chrom_filter chrom t) -> Forall valid_row (chrom_filter chrom t) ->
  in_range t chrom qs qe m = select_spec_opt m qs qe (chrom_filter chrom t).
Proof. intros. unfold in_range. apply in_range_rows_spec; assumption. Qed.

(* in_ranges: the concatenation of the per-query selections *)
Theorem in_ranges_spec t chrom (qs : list (Z * Z)) m :
  sorted_lo (chrom_filter chrom t) -> Forall valid_row (chrom_filter chrom t) -> qs <> [] ->
  in_ranges t chrom (Some (map fst qs)) (Some (map snd qs)) m =
  Some (concat (map (fun q => select_spec m (fst q) (snd q) (chrom_filter chrom t)) qs)).
Proof.
  intros Hlo Hv Hq. unfold in_ranges.
  destruct (chrom_filter chrom t) as [|r0 rest] eqn:E.
  - (* chromosome absent: one empty selection *)
    unfold iter_ranges, idx_ranges. cbn [map apply_sel].
    assert (Hnil : concat (map (fun q => select_spec m (fst q) (snd q) []) qs) = []).
    { clear. induction qs as [|q l IH]; [reflexivity|]. cbn [map concat]. rewrite select_spec_nil. exact IH. }
    rewrite Hnil. destruct m; reflexivity.
  - rewrite <- E in *. rewrite iter_ranges_spec; try assumption; [|rewrite E; discriminate].
    destruct qs as [|q l]; [congruence|]. reflexivity.
Qed.
