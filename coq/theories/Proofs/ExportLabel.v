(* C20: the bin label chrom:start-end:gene determines the bin, for chromosome names without
   ':' and non-negative coordinates -- so "same labels" in the merge check means "same bins". *)
From CNV Require Import Base.Prelude Base.Str Model.Decimal Model.Export Spec.Export.
From CNV Require Proofs.FormatsLemmas.

Local Open Scope Z_scope.

(* split at the first element failing p *)
Lemma split_first_unique {A} (p : A -> bool) (l1 l2 : list A) a b r1 r2 :
  forallb p l1 = true -> forallb p l2 = true -> p a = false -> p b = false ->
  l1 ++ a :: r1 = l2 ++ b :: r2 -> l1 = l2 /\ a = b /\ r1 = r2.
Proof.
  revert l2. induction l1 as [|x t IH]; intros [|y u] H1 H2 Ha Hb E; cbn [app forallb] in *.
  - injection E as -> ->. auto.
  - injection E as -> _. apply andb_true_iff in H2. destruct H2 as [H2 _]. congruence.
  - injection E as -> _. apply andb_true_iff in H1. destruct H1 as [H1 _]. congruence.
  - injection E as -> E. apply andb_true_iff in H1, H2. destruct H1 as [_ H1], H2 as [_ H2].
    destruct (IH u H1 H2 Ha Hb E) as (-> & -> & ->). auto.
Qed.

Definition not_colon (c : ascii) : bool := negb (Ascii.eqb c ":"%char).
Definition no_colon (s : string) : Prop := forallb not_colon (chars s) = true.

Lemma chars_inj s1 s2 : chars s1 = chars s2 -> s1 = s2.
Proof. intro H. rewrite <- (FormatsLemmas.unchars_chars s1), <- (FormatsLemmas.unchars_chars s2). now rewrite H. Qed.

Lemma print_Z_inj a b : print_Z a = print_Z b -> a = b.
Proof.
  intro H. pose proof (FormatsLemmas.parse_print a) as Pa. rewrite H, FormatsLemmas.parse_print in Pa. congruence.
Qed.

Lemma chars_cons c s : chars (String c s) = c :: chars s.
Proof. reflexivity. Qed.

Lemma label_chars b :
  chars (sp_label b)
  = chars (b_chrom b) ++ ":"%char :: chars (print_Z (b_lo b)) ++ "-"%char :: chars (print_Z (b_hi b))
    ++ ":"%char :: chars (b_gene b).
Proof.
  unfold sp_label. rewrite !FormatsLemmas.chars_app. cbn [chars list_ascii_of_string app].
  repeat (rewrite <- app_assoc; cbn [app]). reflexivity.
Qed.

Theorem label_injective b1 b2 :
  no_colon (b_chrom b1) -> no_colon (b_chrom b2) ->
  0 <= b_lo b1 -> 0 <= b_hi b1 -> 0 <= b_lo b2 -> 0 <= b_hi b2 ->
  sp_label b1 = sp_label b2 ->
  b_chrom b1 = b_chrom b2 /\ b_lo b1 = b_lo b2 /\ b_hi b1 = b_hi b2 /\ b_gene b1 = b_gene b2.
Proof.
  intros C1 C2 L1 H1 L2 H2 E. apply (f_equal chars) in E. rewrite !label_chars in E.
  destruct (split_first_unique not_colon _ _ ":"%char ":"%char _ _ C1 C2 eq_refl eq_refl E) as (Ec & _ & E1).
  destruct (split_first_unique is_digit _ _ "-"%char "-"%char _ _
              (FormatsLemmas.print_digits _ L1) (FormatsLemmas.print_digits _ L2) eq_refl eq_refl E1) as (El & _ & E2).
  destruct (split_first_unique is_digit _ _ ":"%char ":"%char _ _
              (FormatsLemmas.print_digits _ H1) (FormatsLemmas.print_digits _ H2) eq_refl eq_refl E2) as (Eh & _ & Eg).
  repeat split.
  - now apply chars_inj.
  - apply print_Z_inj. now apply chars_inj.
  - apply print_Z_inj. now apply chars_inj.
  - now apply chars_inj.
Qed.

(* lifted to whole tables *)
Definition bin_key (b : bin) : string * Z * Z * string := (b_chrom b, b_lo b, b_hi b, b_gene b).
Definition bin_ok (b : bin) : Prop := no_colon (b_chrom b) /\ 0 <= b_lo b /\ 0 <= b_hi b.

Theorem labels_injective l1 : forall l2,
  Forall bin_ok l1 -> Forall bin_ok l2 ->
  map sp_label l1 = map sp_label l2 -> map bin_key l1 = map bin_key l2.
Proof.
  induction l1 as [|a t IH]; intros [|b u] F1 F2 E; cbn [map] in *; try discriminate; [reflexivity|].
  injection E as Eh Et. inversion F1 as [|? ? (Ca & La & Ha) F1']; inversion F2 as [|? ? (Cb & Lb & Hb) F2']; subst.
  destruct (label_injective a b Ca Cb La Ha Lb Hb Eh) as (E1 & E2 & E3 & E4).
  unfold bin_key at 1 3. rewrite E1, E2, E3, E4. f_equal. now apply IH.
Qed.
