(* C05 loop tie of do_reference's merge of the two sex calls (cnvlib/reference.py), ONE ITERATION translated on every run
   (Gen/FnRefSexesMerge.v, fn_merge_step):

       for sid, a_is_xx in a_sexes.items():
           t_is_xx = sexes.get(sid)
           if t_is_xx is None: sexes[sid] = a_is_xx
           elif t_is_xx != a_is_xx and a_is_xx is not None: logging.warning(...); sexes[sid] = a_is_xx

   Model/Reference.v's sexes_inferred (target calls, then the antitarget calls appended: the last binding wins) IS the
   dictionary this loop leaves: folding the generated step over the antitarget calls (never None: infer_sexes stores no
   None), starting from the dictionary of the target calls, gives the same lookup for every sample id. *)
From CNV Require Import Base.Prelude Base.Str Base.QNum Model.Center Model.Sex Model.Reference
  Proofs.FnRefSexesLib Gen.FnRefSexesMerge.

(* one iteration on the dictionary f: the entry of sid is what the generated step leaves there (the value read by
   sexes.get(sid) and the entry stored into are the same dict cell) *)
Definition merge_iter (f : lookup) (item : string * bool) : lookup :=
  upd f (fst item) (fn_merge_step (fst item) (Some (snd item)) (f (fst item)) (f (fst item))).

Definition merge_loop (f : lookup) (items : list (string * bool)) : lookup := fold_left merge_iter items f.

(* an antitarget call always ends up in the dictionary: it fills a missing entry, overrides a different one, and an
   equal one is the same value *)
Lemma fn_merge_step_some sid a p : fn_merge_step sid (Some a) p p = Some a.
Proof. unfold fn_merge_step. destruct p as [[|]|], a; reflexivity. Qed.

(* a missing antitarget call changes nothing (the loop never sees one; the step is total all the same) *)
Lemma fn_merge_step_none sid p : fn_merge_step sid None p p = p.
Proof. unfold fn_merge_step. destruct p as [[|]|]; reflexivity. Qed.

Lemma merge_loop_ext items : forall f g, (forall k, f k = g k) -> forall k, merge_loop f items k = merge_loop g items k.
Proof.
  induction items as [|it items IH]; intros f g H k; cbn [merge_loop fold_left].
  - apply H.
  - apply IH. intros k'. unfold merge_iter, upd. rewrite !H. reflexivity.
Qed.

Theorem fn_merge_loop_eq items : forall d k, merge_loop (dict_get d) items k = dict_get (d ++ items) k.
Proof.
  induction items as [|[sid a] items IH]; intros d k.
  - rewrite app_nil_r. reflexivity.
  - change (merge_loop (dict_get d) ((sid, a) :: items) k)
      with (merge_loop (merge_iter (dict_get d) (sid, a)) items k).
    rewrite (merge_loop_ext items _ (dict_get (d ++ [(sid, a)]))).
    + rewrite IH, <- app_assoc. reflexivity.
    + intros k'. unfold merge_iter, upd. cbn [fst snd]. rewrite fn_merge_step_some, dict_get_snoc. reflexivity.
Qed.

Theorem fn_sexes_inferred_eq tids tguess aids aguess k :
  merge_loop (dict_get (infer_dict tids tguess)) (infer_dict aids aguess) k =
  dict_get (sexes_inferred tids tguess aids aguess) k.
Proof. apply fn_merge_loop_eq. Qed.
