(* C12 source tie of antitarget.compare_chrom_names [loop ties e3]:

       a_chroms = set(a_regions.chromosome.unique())
       b_chroms = set(b_regions.chromosome.unique())
       if a_chroms and a_chroms.isdisjoint(b_chroms):
           ...; raise ValueError(msg)
       return a_chroms, b_chroms

   regenerated from the Python source on every run as Gen/FnChromNames.v (fn_chrom_names: the test under which the
   function raises -- located with `ast`, tools/fnspecs/bins_flow.py checks that the branch ends in `raise ValueError`
   and rebinds neither set -- and the two sets it returns; a set of names is the list of its distinct elements, the
   method .isdisjoint a function input).  Here: Model/Target.v compare_chrom_names (used by drop_noncanonical_contigs and
   by do_target's annotation step) IS the generated body: ValueError exactly when the first table has a chromosome and
   shares none with the second. *)
From CNV Require Import Base.Prelude Base.Str Model.IvRow Model.Target.
From CNV Require Gen.FnChromNames.

(* set.isdisjoint on name lists *)
Definition disjoint_names (a b : list string) : bool := negb (existsb (fun c => mem_string c b) a).

Theorem source_compare_chrom_names (a b : list grow) :
  compare_chrom_names a b =
  let '(raises, ac, bc) := Gen.FnChromNames.fn_chrom_names (chroms_of a) (chroms_of b) disjoint_names in
  if raises then None else Some (ac, bc).
Proof.
  unfold compare_chrom_names, Gen.FnChromNames.fn_chrom_names, disjoint_names. cbv zeta.
  destruct (chroms_of a) as [|c t]; [reflexivity|].
  cbn [andb]. destruct (existsb (fun c0 => mem_string c0 (chroms_of b)) (c :: t)); reflexivity.
Qed.
