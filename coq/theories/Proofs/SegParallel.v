(* C03 proofs, part 8: the process pool.  Whatever the number of workers and whichever
   worker gets which arm, reading the futures in submission order gives the per-arm results
   in arm order; so the table does not depend on `processes`. *)
From CNV Require Import Base.Prelude Model.Arms Model.Segment.

Section PoolProofs.
Context {X Y : Type} (f : X -> Y).

Lemma in_combine_seq (l : list X) : forall a i x,
  In (i, x) (combine (seq a (length l)) l) <-> (a <= i)%nat /\ nth_error l (i - a) = Some x.
Proof.
  induction l as [|y t IH]; intros a i x; cbn [length seq combine].
  - split; [intros []|]. intros (_ & H). destruct (i - a)%nat; discriminate.
  - cbn [In]. rewrite IH. split.
    + intros [H|(H1 & H2)].
      * injection H as <- <-. rewrite Nat.sub_diag. split; [lia|reflexivity].
      * split; [lia|]. replace (i - a)%nat with (S (i - S a)) by lia. exact H2.
    + intros (H1 & H2). destruct (Nat.eq_dec a i) as [->|Hne].
      * left. rewrite Nat.sub_diag in H2. cbn in H2. injection H2 as <-. reflexivity.
      * right. split; [lia|]. replace (i - a)%nat with (S (i - S a)) in H2 by lia. exact H2.
Qed.

Definition done_of (p : nat) (assign : nat -> nat) (xs : list X) : list (nat * Y) :=
  concat (map (fun w => worker_results f assign w (combine (seq 0 (length xs)) xs)) (seq 0 p)).

Lemma in_done p assign xs i y :
  In (i, y) (done_of p assign xs) -> exists x, nth_error xs i = Some x /\ y = f x.
Proof.
  unfold done_of. intros H. apply in_concat in H. destruct H as (l & Hl & Hin).
  apply in_map_iff in Hl. destruct Hl as (w & <- & _). unfold worker_results in Hin.
  apply in_map_iff in Hin. destruct Hin as ((i', x) & Heq & Hf). cbn [fst snd] in Heq.
  injection Heq as -> <-. apply filter_In in Hf. destruct Hf as (Hf & _).
  apply in_combine_seq in Hf. destruct Hf as (_ & Hn). rewrite Nat.sub_0_r in Hn. exists x. split; [exact Hn|reflexivity].
Qed.

Lemma done_has p assign xs i x :
  nth_error xs i = Some x -> (assign i < p)%nat -> In (i, f x) (done_of p assign xs).
Proof.
  intros Hn Hp. unfold done_of. apply in_concat.
  exists (worker_results f assign (assign i) (combine (seq 0 (length xs)) xs)). split.
  - apply in_map_iff. exists (assign i). split; [reflexivity|]. apply in_seq. lia.
  - unfold worker_results. apply in_map_iff. exists (i, x). split; [reflexivity|].
    apply filter_In. split; [|cbn [fst]; apply Nat.eqb_refl].
    apply in_combine_seq. rewrite Nat.sub_0_r. split; [lia|exact Hn].
Qed.

Lemma flat_map_seq (g : nat -> list Y) (l : list X) : forall a,
  (forall i x, nth_error l i = Some x -> g (a + i)%nat = [f x]) ->
  flat_map g (seq a (length l)) = map f l.
Proof.
  induction l as [|y t IH]; intros a H; [reflexivity|].
  cbn [length seq flat_map map]. rewrite (IH (S a)).
  - specialize (H 0%nat y eq_refl). rewrite Nat.add_0_r in H. rewrite H. reflexivity.
  - intros i x Hi. specialize (H (S i) x Hi). replace (S a + i)%nat with (a + S i)%nat by lia. exact H.
Qed.

(* the result of the pool is the list of results, in submission order, for ANY number of
   workers p and ANY assignment of the items to them *)
Theorem pool_map_spec p assign xs :
  (forall i, (i < length xs)%nat -> (assign i < p)%nat) ->
  pool_map f p assign xs = map f xs.
Proof.
  intros Hp. unfold pool_map. cbv zeta. fold (done_of p assign xs).
  apply flat_map_seq. intros i x Hn. cbn [plus].
  assert (Hi : (i < length xs)%nat) by (apply nth_error_Some; congruence).
  pose proof (done_has p assign xs i x Hn (Hp i Hi)) as Hin.
  destruct (find (fun iy : nat * Y => Nat.eqb (fst iy) i) (done_of p assign xs)) as [(i', y)|] eqn:Ef.
  - apply find_some in Ef. destruct Ef as (Hd & He). cbn [fst] in He. apply Nat.eqb_eq in He. subst i'.
    destruct (in_done _ _ _ _ _ Hd) as (x' & Hx' & ->). rewrite Hn in Hx'. injection Hx' as <-. reflexivity.
  - pose proof (find_none _ _ Ef _ Hin) as Hc. cbn [fst] in Hc. rewrite Nat.eqb_refl in Hc. discriminate.
Qed.

End PoolProofs.

(* do_segmentation with p processes = the serial table *)
Theorem table_parallel {B} (baf : string -> Z -> Z -> B) p assign tm tbl :
  (forall i, (i < length (table_jobs tm tbl))%nat -> (assign i < p)%nat) ->
  table_segs baf p assign tm tbl = table_segs_serial baf tm tbl.
Proof.
  intros Hp. unfold table_segs, table_segs_serial. rewrite (pool_map_spec (run_job baf) p assign _ Hp). reflexivity.
Qed.

(* the serial table is the sorted concatenation, over the arms of the table in order
   (chromosomes in table order, each cut by by_arm), of the per-arm reports *)
Theorem table_serial_shape {B} (baf : string -> Z -> Z -> B) tm tbl rows :
  table_segs_serial baf tm tbl = Some rows ->
  exists rets, Forall2 (fun j r => run_job baf j = Some r) (table_jobs tm tbl) rets /\
               rows = concat_sorted rets.
Proof.
  unfold table_segs_serial. destruct (all_some (map (run_job baf) (table_jobs tm tbl))) as [rets|] eqn:E; [|discriminate].
  intros H. injection H as <-. exists rets. split; [|reflexivity].
  revert rets E. induction (table_jobs tm tbl) as [|j t IH]; intros rets E; cbn in E.
  - injection E as <-. constructor.
  - destruct (run_job baf j) as [r|] eqn:Ej; [|discriminate].
    destruct (all_some (map (run_job baf) t)) as [rt|] eqn:Et; [|discriminate].
    injection E as <-. constructor; [exact Ej|exact (IH rt eq_refl)].
Qed.

(* the jobs are the arms of every chromosome, in order: their bins concatenate to the table *)
Lemma chrom_jobs_fl tm name arms : forall off bps hos vars states,
  map aj_fl (chrom_jobs tm name arms off bps hos vars states) = arms.
Proof.
  induction arms as [|a t IH]; intros off bps hos vars states; [reflexivity|].
  cbn [chrom_jobs map aj_fl]. rewrite IH. reflexivity.
Qed.

Lemma chrom_jobs_name tm name arms : forall off bps hos vars states,
  Forall (fun j => aj_name j = name) (chrom_jobs tm name arms off bps hos vars states).
Proof.
  induction arms as [|a t IH]; intros off bps hos vars states; [constructor|].
  cbn [chrom_jobs]. constructor; [reflexivity|apply IH].
Qed.

Theorem table_jobs_arms tm tbl :
  map aj_fl (table_jobs tm tbl) = flat_map (fun c => chrom_arms (cj_fl c)) tbl.
Proof.
  unfold table_jobs. induction tbl as [|c t IH]; [reflexivity|].
  cbn [flat_map]. rewrite map_app, IH, chrom_jobs_fl. reflexivity.
Qed.
