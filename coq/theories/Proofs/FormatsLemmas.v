(* Lemmas about Model/Decimal.v and Model/Formats.v: decimal print/parse round
   trip, coordinate conventions per reader, sortedness of every reader's
   result, write-then-read = sort for tab / bed3 / bed4 / interval / text. *)
From Coq Require Import DecimalString DecimalZ DecimalPos.
From CNV Require Import Base.Prelude Base.Str Model.Decimal Model.Chromsort Model.Sniff Model.Formats.
From CNV Require Import Proofs.ChromsortLemmas.
From CNV Require Import Gen.Formats.

(* ------------------------------------------------------------------------ *)
(* decimal                                                                    *)

Lemma parse_print z : parse_Z (print_Z z) = Some z.
Proof.
  unfold parse_Z, print_Z. rewrite NilZero.isi.
  - cbn. now rewrite DecimalZ.of_to.
  - destruct z; cbn; try discriminate.
    intros [= E]. now apply Unsigned.to_uint_nonnil in E.
  - destruct z; cbn; try discriminate.
    intros [= E]. now apply Unsigned.to_uint_nonnil in E.
Qed.

Lemma chars_app s1 s2 : chars (s1 ++ s2)%string = chars s1 ++ chars s2.
Proof. unfold chars. induction s1 as [|c s IH]; cbn; auto. now rewrite IH. Qed.

Lemma unchars_chars s : unchars (chars s) = s.
Proof. apply string_of_list_ascii_of_string. Qed.

Lemma uint_digits d : forallb is_digit (chars (NilEmpty.string_of_uint d)) = true.
Proof. induction d; cbn; auto. Qed.

(* a non-negative integer prints as a non-empty string of digits *)
Lemma print_digits z : 0 <= z -> forallb is_digit (chars (print_Z z)) = true.
Proof.
  intros Hz. unfold print_Z. destruct z as [|p|p]; try lia; [reflexivity|].
  cbn. unfold NilZero.string_of_uint.
  destruct (Pos.to_uint p) eqn:E; try apply uint_digits.
  now apply Unsigned.to_uint_nonnil in E.
Qed.

Lemma print_nonempty z : chars (print_Z z) <> [].
Proof.
  intros E. pose proof (parse_print z) as H.
  assert (print_Z z = EmptyString) as H0.
  { rewrite <- (unchars_chars (print_Z z)), E. reflexivity. }
  rewrite H0 in H. discriminate.
Qed.

(* ------------------------------------------------------------------------ *)
(* generic                                                                    *)

Lemma all_some_map {A B} (f : A -> option B) (g : A -> B) l :
  (forall x, In x l -> f x = Some (g x)) -> all_some (map f l) = Some (map g l).
Proof.
  induction l as [|x t IH]; cbn; intros H; auto.
  rewrite (H x (or_introl eq_refl)), IH; auto.
Qed.

Lemma all_some_map_map {A B C} (w : A -> B) (f : B -> option C) (g : A -> C) l :
  (forall x, In x l -> f (w x) = Some (g x)) -> all_some (map f (map w l)) = Some (map g l).
Proof. intros H. rewrite map_map. now apply all_some_map. Qed.

Lemma filter_id {A} (f : A -> bool) l : (forall x, In x l -> f x = true) -> filter f l = l.
Proof.
  induction l as [|x t IH]; cbn; intros H; auto.
  rewrite (H x (or_introl eq_refl)), IH; auto.
Qed.

Lemma drop_idx_ge {A} (l : list A) i : (3 <= i)%nat -> drop_idx [0; 1; 2]%nat l i = l.
Proof.
  revert i. induction l as [|x t IH]; intros i Hi; cbn; auto.
  destruct i as [|[|[|i]]]; try lia. cbn. now rewrite IH by lia.
Qed.

(* ------------------------------------------------------------------------ *)
(* C08_conventions: what each reader makes of the textual coordinates (s, e)  *)

Lemma conv_bed c s e rest :
  read_bed_line (c :: print_Z s :: print_Z e :: rest)
  = Some ((c, s + 0, e), [rstrip_ws (nth 0 rest "-"%string); rstrip_ws (nth 2 rest "."%string)]).
Proof. unfold read_bed_line. now rewrite !parse_print. Qed.

Lemma conv_tab c s e ex :
  read_tab_row (3 + length ex) 0 1 2 (c :: print_Z s :: print_Z e :: ex) = Some ((c, s + 0, e), ex).
Proof.
  unfold read_tab_row. cbn [length nth]. rewrite Nat.eqb_refl. cbn [negb].
  rewrite !parse_print. cbn. now rewrite drop_idx_ge by lia.
Qed.

Lemma conv_interval c s e strand gene :
  read_interval_line [c; print_Z s; print_Z e; strand; gene]
  = Some ((c, s + -1, e), [if String.eqb gene "" then "-"%string else gene; strand]).
Proof. unfold read_interval_line. now rewrite !parse_print. Qed.

Lemma conv_gff c src ty s e sc st ph at_ :
  read_gff_line [c; src; ty; print_Z s; print_Z e; sc; st; ph; at_] = Some (c, s + -1, e).
Proof. unfold read_gff_line. now rewrite !parse_print. Qed.

Lemma conv_seg sid c s e rest :
  read_seg_line (4 + length rest) (sid :: c :: print_Z s :: print_Z e :: rest)
  = Some (sid, ((c, s + -1, e), rest ++ ["-"%string])).
Proof.
  unfold read_seg_line. cbn [length]. rewrite Nat.eqb_refl. cbn [negb].
  now rewrite !parse_print.
Qed.

Lemma conv_vcf_simple c p rest :
  read_vcf_line off_read_vcf_simple (c :: print_Z p :: rest) = Some (c, p + -1).
Proof. unfold read_vcf_line. now rewrite parse_print. Qed.

Lemma conv_vcf_sites c p rest :
  read_vcf_line off_read_vcf_sites (c :: print_Z p :: rest) = Some (c, p + -1).
Proof. unfold read_vcf_line. now rewrite parse_print. Qed.

Lemma conv_picardhs c s e len name rest :
  read_picardhs_line (c :: print_Z s :: print_Z e :: len :: name :: rest)
  = Some ((c, s + -1, e), [name]).
Proof. unfold read_picardhs_line. now rewrite !parse_print. Qed.

(* ------------------------------------------------------------------------ *)
(* C08_sorted: every reader's result is sorted by (key, start, end)           *)

Definition rows_sorted (t : list row) : Prop := regions_sorted row_region t.

Lemma sort_rows_sorted t : rows_sorted (sort_rows t).
Proof. apply sort_regions_sorted. Qed.

Lemma option_map_sorted {A} (o : option A) (f : A -> list row) t :
  option_map f o = Some t -> (forall a, rows_sorted (f a)) -> rows_sorted t.
Proof. destruct o; cbn; intros [= <-] H; auto. Qed.

Lemma read_bed_sorted ls t : read_bed ls = Some t -> rows_sorted t.
Proof. intros H. eapply option_map_sorted; eauto. intros; apply sort_rows_sorted. Qed.
Lemma read_bed3_sorted ls t : read_bed3 ls = Some t -> rows_sorted t.
Proof. intros H. eapply option_map_sorted; eauto. intros; apply sort_rows_sorted. Qed.
Lemma read_bed4_sorted ls t : read_bed4 ls = Some t -> rows_sorted t.
Proof. intros H. eapply option_map_sorted; eauto. intros; apply sort_rows_sorted. Qed.
Lemma read_interval_sorted ls t : read_interval ls = Some t -> rows_sorted t.
Proof. intros H. eapply option_map_sorted; eauto. intros; apply sort_rows_sorted. Qed.
Lemma read_text_sorted ls t : read_text ls = Some t -> rows_sorted t.
Proof. intros H. eapply option_map_sorted; eauto. intros; apply sort_rows_sorted. Qed.

Lemma read_tab_sorted ls h t : read_tab ls = Some (h, t) -> rows_sorted t.
Proof.
  unfold read_tab. destruct ls as [|hd rows]; [intros [= <- <-]; constructor|].
  destruct (index_of _ hd 0), (index_of "start" hd 0), (index_of "end" hd 0); try discriminate.
  destruct (all_some _); try discriminate. intros [= <- <-]. apply sort_rows_sorted.
Qed.

Lemma read_picardhs_sorted ls t : read_picardhs ls = Some t -> rows_sorted t.
Proof.
  unfold read_picardhs. destruct ls as [|hd body]; [intros [= <-]; constructor|].
  intros H. eapply option_map_sorted; eauto. intros; apply sort_rows_sorted.
Qed.

Lemma import_seg_sorted ls samples :
  import_seg ls = Some samples -> Forall (fun sr => rows_sorted (snd sr)) samples.
Proof.
  unfold import_seg. destruct (parse_seg ls) as [p|]; cbn; intros [= <-].
  apply Forall_forall. intros sr Hin. apply in_map_iff in Hin.
  destruct Hin as (x & <- & _). cbn. apply sort_rows_sorted.
Qed.

Lemma read_seg_first_sorted ls t : read_seg_first ls = Some t -> rows_sorted t.
Proof.
  unfold read_seg_first. destruct (import_seg ls) as [[|s l]|] eqn:E; try discriminate.
  intros [= <-]. apply import_seg_sorted in E. now inversion E.
Qed.

Lemma read_gff_sorted ls t : read_gff ls = Some t -> regions_sorted (fun g => g) t.
Proof.
  unfold read_gff. destruct (all_some _); cbn; intros [= <-]. apply sort_regions_sorted.
Qed.

(* ------------------------------------------------------------------------ *)
(* write-then-read                                                            *)

Definition bed_name_ok (c : string) : bool :=
  negb (str_prefix "track" c) && negb (str_prefix "browser " c).

Lemma until_track_id (ls : list line) :
  Forall (fun f => line_starts "track" f = false) ls -> until_track ls = ls.
Proof.
  induction 1 as [|f t Hf _ IH]; cbn [until_track]; auto. now rewrite Hf, IH.
Qed.

Lemma bed_body_id (ls : list line) :
  Forall (fun f => line_starts "track" f = false /\ line_starts "browser " f = false) ls ->
  bed_body ls = ls.
Proof.
  intros H. unfold bed_body. destruct ls as [|f t]; auto.
  inversion H as [|? ? [Ht Hb] HF]; subst. rewrite Hb, Ht. cbn [app].
  rewrite until_track_id; auto.
  eapply Forall_impl; [|exact HF]. now intros a [? _].
Qed.

Lemma bed_lines_ok (w : row -> line) (t : list row) :
  (forall r, fld 0 (w r) = fst (fst (fst r))) ->
  Forall (fun r => bed_name_ok (fst (fst (fst r))) = true) t ->
  Forall (fun f => line_starts "track" f = false /\ line_starts "browser " f = false) (map w t).
Proof.
  intros Hw H. apply Forall_map. eapply Forall_impl; [|exact H].
  intros r Hr. unfold line_starts. rewrite Hw. unfold bed_name_ok in Hr.
  apply andb_true_iff in Hr. destruct Hr as [H1 H2].
  now rewrite negb_true_iff in H1, H2.
Qed.

Lemma off_bed3_zero s : s + off_write_bed3 + off_read_bed = s.
Proof. unfold off_write_bed3, off_read_bed. lia. Qed.
Lemma off_bed4_zero s : s + off_write_bed4 + off_read_bed = s.
Proof. unfold off_write_bed4, off_read_bed. lia. Qed.
Lemma off_tab_zero s : s + off_write_tab + off_read_tab = s.
Proof. unfold off_write_tab, off_read_tab. lia. Qed.
Lemma off_interval_zero s : s + off_write_interval + off_read_interval = s.
Proof. unfold off_write_interval, off_read_interval. lia. Qed.
Lemma off_text_zero s : s + off_write_text + off_to_label + off_from_label + off_read_text = s.
Proof. unfold off_write_text, off_to_label, off_from_label, off_read_text. lia. Qed.
Lemma off_seg_zero s : s + off_write_seg + off_read_seg = s.
Proof. unfold off_write_seg, off_read_seg. lia. Qed.

Theorem roundtrip_bed3 (t : list row) :
  Forall (fun r => bed_name_ok (fst (fst (fst r))) = true) t ->
  read_bed3 (write_bed3 t) = Some (sort_rows (map (fun r => (fst r, [])) t)).
Proof.
  intros H. unfold read_bed3, write_bed3.
  rewrite bed_body_id by (apply bed_lines_ok; auto; intros [[[c s] e] ex]; reflexivity).
  rewrite (all_some_map_map bed3_line read_bed_line
             (fun r : row => (fst r, [bed_default_gene; bed_default_strand]))).
  - cbn. now rewrite map_map.
  - intros [[[c s] e] ex] _. cbn. rewrite !parse_print. now rewrite off_bed3_zero.
Qed.

(* the name column comes back rstrip()ped: labels must not end in white space *)
Definition bed_gene_ok (r : row) : bool :=
  String.eqb (rstrip_ws (nth 0 (snd r) bed_default_gene)) (nth 0 (snd r) bed_default_gene).

Theorem roundtrip_bed4 (t : list row) :
  Forall (fun r => bed_name_ok (fst (fst (fst r))) = true) t ->
  Forall (fun r => bed_gene_ok r = true) t ->
  read_bed4 (write_bed4 t) = Some (sort_rows (map (fun r => (fst r, [nth 0 (snd r) "-"%string])) t)).
Proof.
  intros H HG. unfold read_bed4, write_bed4.
  rewrite bed_body_id by (apply bed_lines_ok; auto; intros [[[c s] e] ex]; reflexivity).
  rewrite (all_some_map_map bed4_line read_bed_line
             (fun r : row => (fst r, [nth 0 (snd r) bed_default_gene; bed_default_strand]))).
  - cbn. now rewrite map_map.
  - intros [[[c s] e] ex] Hin. rewrite Forall_forall in HG. specialize (HG _ Hin).
    unfold bed_gene_ok in HG. apply String.eqb_eq in HG. cbn [snd] in HG.
    unfold bed4_line, read_bed_line. cbn [coord_fields fst snd app nth]. rewrite !parse_print.
    rewrite HG. now rewrite off_bed4_zero.
Qed.

Theorem roundtrip_tab (h : list string) (t : list row) :
  Forall (fun r => length (snd r) = length h) t ->
  read_tab (write_tab h t) = Some (h, sort_rows t).
Proof.
  intros H. unfold read_tab, write_tab. cbn [required_cols app index_of String.eqb].
  cbn [index_of]. cbn.
  rewrite (drop_idx_ge h 3) by lia.
  rewrite (all_some_map_map tab_line (read_tab_row (S (S (S (length h)))) 0 1 2)
             (fun r : row => r)); [now rewrite map_id|].
  intros [[[c s] e] ex] Hin. rewrite Forall_forall in H. specialize (H _ Hin). cbn in H.
  unfold read_tab_row, tab_line. cbn [coord_fields fst snd app length nth].
  rewrite H, Nat.eqb_refl. cbn [negb]. rewrite !parse_print.
  cbn [drop_idx existsb Nat.eqb orb]. rewrite drop_idx_ge by lia. now rewrite off_tab_zero.
Qed.

Definition interval_gene (r : row) : string := nth 0 (snd r) interval_default_gene.
Definition interval_strand (r : row) : string := nth 1 (snd r) interval_default_strand.
Definition interval_row_ok (r : row) : bool :=
  negb (str_prefix "@" (fst (fst (fst r)))) && negb (String.eqb (interval_gene r) "").

Theorem roundtrip_interval (t : list row) :
  Forall (fun r => interval_row_ok r = true) t ->
  read_interval (write_interval t)
  = Some (sort_rows (map (fun r => (fst r, [interval_gene r; interval_strand r])) t)).
Proof.
  intros H. unfold read_interval, write_interval.
  assert (E : filter (fun f : line => negb (line_starts "@" f)) (map interval_line t)
              = map interval_line t).
  { apply filter_id. intros f Hin. apply in_map_iff in Hin.
    destruct Hin as ([[[c s] e] ex] & <- & Hin). rewrite Forall_forall in H. specialize (H _ Hin).
    unfold interval_row_ok in H. apply andb_true_iff in H. exact (proj1 H). }
  rewrite E.
  rewrite (all_some_map_map interval_line read_interval_line
             (fun r : row => (fst r, [interval_gene r; interval_strand r]))); [reflexivity|].
  intros [[[c s] e] ex] Hin. rewrite Forall_forall in H. specialize (H _ Hin).
  unfold interval_row_ok in H. apply andb_true_iff in H. destruct H as [_ Hg].
  apply negb_true_iff in Hg. unfold interval_line, read_interval_line. cbn [fst snd].
  rewrite !parse_print. unfold interval_gene, interval_strand in *. cbn [snd] in *.
  rewrite Hg. now rewrite off_interval_zero.
Qed.
