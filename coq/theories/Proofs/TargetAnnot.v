(* C12: do_target(..., annotate=...) through the C07 model of into_ranges:
   number and coordinates of the bins are unchanged, only the gene column is rewritten
   (C12_annotate_coords), and the new label of a bin is the C07 summary of the annotation rows
   overlapping it: "-" when there is none, otherwise their distinct names in order of first
   appearance joined by "," (C12_annotate_labels). *)
From CNV Require Import Base.Prelude Base.Str Model.IvRow Model.IvCombine Model.Intervals
  Model.Target Spec.Cover Spec.Bins.
From CNV Require Model.Ranges Model.Into Spec.RangeQuery Proofs.Into.
From CNV Require Import Proofs.TargetLib Proofs.Target.
From CNV Require Proofs.TargetLabels.
From CNV Require Gen.BinsDefaults Gen.RangeDefaults.

(* ---- coordinates ------------------------------------------------------------------------------ *)

Lemma set_genes_length (t : list grow) names : length names = length t -> length (set_genes t names) = length t.
Proof. intros H. unfold set_genes. rewrite map_length, combine_length. lia. Qed.

(* C12_annotate_coords *)
Lemma annotate_coords (annot t t' : list grow) :
  annotate annot t = AnnotRows t' -> length t' = length t /\ map coords t' = map coords t.
Proof.
  unfold annotate. destruct (compare_chrom_names t annot); [|discriminate].
  destruct t as [|r0 t0] eqn:Et; [intros H; injection H as <-; split; reflexivity|]. rewrite <- Et.
  destruct (annot_values annot t) as [vals|]; [|discriminate].
  destruct (Nat.eqb (length vals) (length t)) eqn:El; [|discriminate].
  apply Nat.eqb_eq in El. intros H. injection H as <-.
  assert (Hl : length (map (fun v : option string => match v with Some g => g | None => Gen.BinsDefaults.annotate_default end) vals)
               = length t) by (rewrite map_length; exact El).
  split; [apply set_genes_length; exact Hl | apply set_genes_coords; exact Hl].
Qed.

(* with every option of do_target: split or not, annotated or not, shortened or not *)
Lemma do_target_full_coords pick split avg cut annot short (baits out : list grow) :
  do_target_full pick split avg cut annot short baits = AnnotRows out ->
  map coords out = map coords (do_target split avg cut baits).
Proof.
  unfold do_target_full. set (t := do_target split avg cut baits).
  assert (Hs : forall u, map coords (if short then set_genes u (shorten_labels_pick pick (map gene u)) else u) = map coords u).
  { intros u. destruct short; [|reflexivity]. apply set_genes_coords.
    rewrite Proofs.TargetLabels.shorten_labels_pick_length, map_length. reflexivity. }
  destruct annot as [a|].
  - destruct (annotate a t) as [t'|] eqn:Ea; [|discriminate]. intros H. injection H as <-.
    rewrite Hs. apply annotate_coords in Ea. tauto.
  - intros H. injection H as <-. apply Hs.
Qed.

(* ---- labels ------------------------------------------------------------------------------------- *)

Lemma trows_from_length i (t : list grow) : length (trows_from i t) = length t.
Proof. revert i. induction t as [|r t IH]; intros i; cbn [trows_from length]; [reflexivity | rewrite IH; reflexivity]. Qed.

Lemma gene_at_app (pre suf : list grow) a :
  gene_at (pre ++ a :: suf) (Z.of_nat (length pre)) = gene a.
Proof.
  unfold gene_at. rewrite Nat2Z.id, nth_error_app2 by lia. rewrite Nat.sub_diag. reflexivity.
Qed.

(* the values of the annotation rows that overlap a bin, as the C07 model sees them *)
Lemma hits_overlapping (pre suf : list grow) (c : string) (qs qe : Z) :
  map snd (map (fun r => (Ranges.r_id r, gene_at (pre ++ suf) (Ranges.r_id r)))
               (RangeQuery.outer_spec qs qe (RangeQuery.rows_of c (trows_from (Z.of_nat (length pre)) suf))))
  = map gene (filter (fun a => on c a && ((lo a <? qe) && (qs <? hi a))) suf).
Proof.
  revert pre. induction suf as [|a s IH]; intros pre; [reflexivity|].
  cbn [trows_from]. unfold RangeQuery.rows_of, Ranges.of_chrom. cbn [filter fst].
  specialize (IH (pre ++ [a])). rewrite <- app_assoc in IH. cbn [app] in IH.
  rewrite app_length in IH. cbn [length] in IH.
  replace (Z.of_nat (length pre + 1)) with (Z.of_nat (length pre) + 1) in IH by lia.
  unfold RangeQuery.rows_of, Ranges.of_chrom in IH.
  unfold on at 1. destruct (String.eqb (chrom a) c) eqn:Ec; cbn [andb].
  - cbn [map snd]. unfold RangeQuery.outer_spec. cbn [filter]. unfold RangeQuery.overlaps at 1.
    cbn [Ranges.r_lo Ranges.r_hi].
    destruct ((lo a <? qe) && (qs <? hi a)).
    + cbn [map snd Ranges.r_id]. rewrite gene_at_app. f_equal. exact IH.
    + exact IH.
  - exact IH.
Qed.

Lemma trows_from_shape i (t : list grow) :
  map (fun x => (fst x, Ranges.r_lo (snd x), Ranges.r_hi (snd x))) (trows_from i t) = map coords t.
Proof. revert i. induction t as [|r t IH]; intros i; cbn [trows_from map]; [reflexivity | rewrite IH; reflexivity]. Qed.

(* set_genes with one name per row, computed from the row's coordinates *)
Lemma set_genes_map (f : string * Z * Z -> string) (t : list grow) i :
  set_genes t (map (fun x => f (fst x, Ranges.r_lo (snd x), Ranges.r_hi (snd x))) (trows_from i t))
  = map (fun b => (lo b, hi b, (chrom b, f (coords b)))) t.
Proof.
  unfold set_genes. revert i. induction t as [|r t IH]; intros i; [reflexivity|].
  cbn [trows_from map combine fst snd Ranges.r_lo Ranges.r_hi]. f_equal. apply IH.
Qed.

Definition join_distinct (vs : list string) : string := String.concat Gen.RangeDefaults.join_sep (Ranges.distinct vs).

Lemma summary_label (vals : list string) :
  RangeQuery.summary_spec Gen.BinsDefaults.annotate_default join_distinct vals =
  match vals with [] => "-"%string | _ => String.concat "," (RangeQuery.unique_scan vals) end.
Proof.
  destruct vals as [|v [|w vs]]; [reflexivity | reflexivity|].
  unfold RangeQuery.summary_spec, join_distinct. rewrite Proofs.Into.distinct_unique_scan. reflexivity.
Qed.

(* C12_annotate_labels: on a bin table whose chromosomes are contiguous, annotated from a
   table as the reader leaves it (per chromosome sorted by start, proper intervals) that shares a
   chromosome name with it, every bin keeps its coordinates and gets the label annot_label *)
Lemma annotate_labels (annot t : list grow) :
  RangeQuery.table_ok (trows_of annot) -> RangeQuery.grouped (trows_of t) ->
  compare_chrom_names t annot <> None ->
  annotate annot t = AnnotRows (map (fun b => (lo b, hi b, (chrom b, annot_label annot b))) t).
Proof.
  intros Hok Hg Hc. unfold annotate. destruct (compare_chrom_names t annot); [|congruence].
  destruct t as [|r0 t0] eqn:Et; [reflexivity|]. rewrite <- Et in *.
  assert (Hne : t <> []) by (rewrite Et; discriminate). clear Et.
  unfold annot_values.
  assert (Hd : trows_of t <> []).
  { unfold trows_of. destruct t; [congruence | cbn; discriminate]. }
  change Into.join_strings with (fun h : list (Z * string) => Some (join_distinct (map snd h))).
  rewrite (Proofs.Into.into_ranges_summary (trows_of annot) (trows_of t) (gene_at annot)
             Gen.BinsDefaults.annotate_default join_distinct Hd Hok Hg).
  rewrite map_length.
  replace (length (trows_of t)) with (length t) by (unfold trows_of; rewrite trows_from_length; reflexivity).
  rewrite Nat.eqb_refl.
  f_equal. rewrite map_map.
  set (f := fun cse : string * Z * Z =>
              let '(c, qs, qe) := cse in
              match filter (fun a => on c a && ((lo a <? qe) && (qs <? hi a))) annot with
              | [] => "-"%string
              | hits => String.concat "," (RangeQuery.unique_scan (map gene hits))
              end).
  assert (E : forall x : Ranges.trow,
            match Some (RangeQuery.summary_spec Gen.BinsDefaults.annotate_default join_distinct
                          (map snd (Proofs.Into.hits_of (trows_of annot) (gene_at annot) x))) with
            | Some g => g | None => Gen.BinsDefaults.annotate_default end
            = f (fst x, Ranges.r_lo (snd x), Ranges.r_hi (snd x))).
  { intros x. unfold Proofs.Into.hits_of, trows_of.
    pose proof (hits_overlapping [] annot (fst x) (Ranges.r_lo (snd x)) (Ranges.r_hi (snd x))) as H.
    cbn [app length Z.of_nat] in H. rewrite H, summary_label. unfold f.
    destruct (filter (fun a : grow => on (fst x) a && ((lo a <? Ranges.r_hi (snd x)) && (Ranges.r_lo (snd x) <? hi a))) annot);
      reflexivity. }
  rewrite (map_ext _ _ E). unfold trows_of. rewrite set_genes_map. apply map_ext. intros b. reflexivity.
Qed.

(* the label in words *)
Lemma annot_label_spec (annot : list grow) (b : grow) :
  (overlapping annot b = [] -> annot_label annot b = "-"%string) /\
  (overlapping annot b <> [] ->
   annot_label annot b = String.concat "," (RangeQuery.unique_scan (map gene (overlapping annot b))) /\
   RangeQuery.is_distinct_of (RangeQuery.unique_scan (map gene (overlapping annot b))) (map gene (overlapping annot b))) /\
  (forall a, In a (overlapping annot b) <-> In a annot /\ chrom a = chrom b /\ lo a < hi b /\ lo b < hi a).
Proof.
  unfold annot_label. split; [intros ->; reflexivity|]. split.
  - intros Hne. destruct (overlapping annot b) as [|h hs] eqn:E; [congruence|]. split; [reflexivity|].
    rewrite <- Proofs.Into.distinct_unique_scan. apply Proofs.Into.distinct_spec.
  - intros a. unfold overlapping. rewrite filter_In, !andb_true_iff, on_true, !Z.ltb_lt. tauto.
Qed.

(* table_ok of the annotation follows from per-chromosome order and proper, non-negative rows *)
Lemma rows_of_trows_from c i (t : list grow) :
  map (fun r => (Ranges.r_lo r, Ranges.r_hi r)) (RangeQuery.rows_of c (trows_from i t))
  = map (fun r : grow => (lo r, hi r)) (filter (on c) t).
Proof.
  revert i. induction t as [|a t IH]; intros i; [reflexivity|].
  cbn [trows_from]. unfold RangeQuery.rows_of, Ranges.of_chrom in *. cbn [filter fst]. unfold on at 1.
  destruct (String.eqb (chrom a) c); cbn [map snd]; [f_equal|]; apply IH.
Qed.

Lemma table_ok_trows (annot : list grow) :
  sorted_table annot -> Forall (fun r => 0 <= lo r < hi r) annot -> RangeQuery.table_ok (trows_of annot).
Proof.
  intros Hs Hv c. unfold trows_of. pose proof (rows_of_trows_from c 0 annot) as E.
  specialize (Hs c).
  assert (Hvc : Forall (fun r : grow => 0 <= lo r < hi r) (filter (on c) annot)).
  { rewrite Forall_forall in *. intros r Hr. apply filter_In in Hr as [Hr _]. auto. }
  revert E Hs Hvc. generalize (filter (on c) annot) (RangeQuery.rows_of c (trows_from 0 annot)).
  intros l rows. revert l. induction rows as [|r rows IH]; intros [|a l] E Hs Hvc; try discriminate.
  - split; constructor.
  - cbn [map] in E. injection E as Elo Ehi E. inversion Hvc as [|? ? Ha Hvc']; subst.
    destruct (IH l E (proj2 Hs) Hvc') as [IH1 IH2]. split.
    + constructor; [exact IH1|]. destruct rows as [|r2 rows']; [constructor|].
      destruct l as [|a2 l']; [discriminate|]. cbn [map] in E. injection E as Elo2 _ _.
      constructor. destruct Hs as [H12 _]. cbn in H12. lia.
    + constructor; [|exact IH2]. unfold RangeQuery.valid_row. lia.
Qed.
