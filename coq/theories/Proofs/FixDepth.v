(* C04_depth_invariance: adding one constant to every sample log2 leaves the output of do_fix
   unchanged (through every correction), as long as the shift moves no bin across the
   null-coverage cut-off and some target bin is usable. *)
From CNV Require Import Base.Prelude Base.Str Base.QNum Model.Chromsort Proofs.ChromsortLemmas
  Proofs.QNumLemmas Model.Smoothing Model.Fix Spec.Fix Proofs.FixLib Proofs.FixBins Proofs.FixShift
  Gen.Params Gen.FixDefaults Gen.DescDefaults.
From Coq Require Import Qround Qabs Setoid Morphisms Psatz.
Local Open Scope Q_scope.
Local Opaque Qred.

Lemma existsb_rel {A B} (Rr : A -> B -> Prop) (p : A -> bool) (q : B -> bool) l l' :
  (forall a b, Rr a b -> p a = q b) -> Forall2 Rr l l' -> existsb p l = existsb q l'.
Proof. intros E. induction 1 as [|a b l l' Hab H IH]; cbn; auto. now rewrite (E _ _ Hab), IH. Qed.

Lemma center_sel_false_nil c l : center_sel c false l = [] -> l = [].
Proof.
  unfold center_sel. destruct (existsb is_auto l) eqn:E; auto.
  apply existsb_exists in E as (x & Hx & Px). intros Z.
  assert (Hin : In x (filter is_auto l)) by (apply filter_In; auto). rewrite Z in Hin. contradiction.
Qed.

Lemma center_sel_nonnil c l b : In b l -> low_b c b = false -> center_sel c true l <> [].
Proof.
  intros Hb Lb. unfold center_sel.
  assert (Hbase : In b (filter (fun b => negb (low_b c b)) l)) by (apply filter_In; split; auto; now rewrite Lb).
  destruct (existsb is_auto _) eqn:E.
  - apply existsb_exists in E as (x & Hx & Px). intros Z.
    assert (Hin : In x (filter is_auto (filter (fun b => negb (low_b c b)) l))) by (apply filter_In; auto).
    rewrite Z in Hin. contradiction.
  - intros Z. rewrite Z in Hbase. contradiction.
Qed.

Section Rel.
  Variable d : Q.
  Variable c : cfg.
  Variable R : srow -> srow -> Prop.
  Hypothesis R_shift : forall s s', R s s' -> shifted_row d s s'.

  Definition brel (b b' : brow) : Prop := snd b' = snd b /\ R (fst b) (fst b').

  Lemma R_skey s s' : R s s' -> skey s' = skey s.
  Proof. intros H. destruct (R_shift _ _ H) as (E1 & E2 & E3 & _). unfold skey. now rewrite E1, E2, E3. Qed.

  Lemma rel_keys l l' : Forall2 R l l' -> map skey l' = map skey l.
  Proof. induction 1 as [|s s' l l' Hs H IH]; cbn; auto. now rewrite (R_skey _ _ Hs), IH. Qed.

  Lemma presort_rel l l' : Forall2 R l l' -> Forall2 R (presort l) (presort l').
  Proof.
    intros H. rewrite !presort_eq. unfold sort_regions.
    apply (stable_sort_Forall2 R (region_leb skey) (region_leb skey)); auto.
    intros a b a' b' H1 H2. unfold region_leb. now rewrite (R_skey _ _ H1), (R_skey _ _ H2).
  Qed.

  Lemma match_ref_rel ref l l' : Forall2 R l l' ->
    match match_ref ref l, match_ref ref l' with
    | inl e, inl e' => e = e'
    | inr m, inr m' => Forall2 brel m m'
    | _, _ => False
    end.
  Proof.
    intros H. unfold match_ref. rewrite (rel_keys _ _ H).
    destruct (has_dup (map skey l)); auto. destruct (has_dup (map rkey3 ref)); auto.
    assert (E : map (fun s => lookup ref (skey s)) l' = map (fun s => lookup ref (skey s)) l).
    { rewrite <- !(map_map skey (lookup ref)). now rewrite (rel_keys _ _ H). }
    rewrite E. destruct (Prelude.all_some _) as [rs|]; auto.
    clear E. revert rs. induction H as [|s s' l l' Hs H IH]; intros [|r rs]; cbn [combine]; constructor; auto.
    split; auto.
  Qed.

  Lemma mask_rel m m' : Forall2 brel m m' -> Forall2 brel (mask_bad c m) (mask_bad c m').
  Proof.
    unfold mask_bad. apply Forall2_filter. intros a b [E _]. now rewrite E.
  Qed.

  Lemma brel_cl2 l l' : Forall2 brel l l' -> Forall2 (prel d) (map cl2 l) (map cl2 l').
  Proof.
    induction 1 as [|b b' l l' [E1 E2] H IH]; cbn [map]; constructor; auto.
    destruct (R_shift _ _ E2) as (C1 & _ & _ & _ & _ & V). split; cbn [fst snd cl2]; auto.
  Qed.

  Lemma badd_rel sh sh' b b' : brel b b' -> sh' == sh - d -> badd_log2 sh' b' = badd_log2 sh b.
  Proof.
    intros [E1 E2] Es. destruct (R_shift _ _ E2) as (C1 & C2 & C3 & C4 & C5 & V).
    unfold badd_log2, bset_log2, set_log2, blog2. rewrite E1, C1, C2, C3, C4, C5. f_equal. f_equal.
    apply Qred_complete. rewrite V, Es. ring.
  Qed.

  Section Center.
    Variable k : bool.
    Hypothesis Hlow : k = true -> forall s s', R s s' -> null_cov_b c s' = null_cov_b c s.

    Lemma center_sel_rel l l' : Forall2 brel l l' -> Forall2 brel (center_sel c k l) (center_sel c k l').
    Proof.
      intros H. unfold center_sel.
      set (base := if k then filter (fun b => negb (low_b c b)) l else l).
      set (base' := if k then filter (fun b => negb (low_b c b)) l' else l').
      assert (HB : Forall2 brel base base').
      { unfold base, base'. destruct k; auto. apply Forall2_filter; auto.
        intros a b [_ E2]. rewrite !low_b_null. now rewrite (Hlow eq_refl _ _ E2). }
      assert (EA : forall a b, brel a b -> is_auto a = is_auto b).
      { intros a b [_ E2]. unfold is_auto. destruct (R_shift _ _ E2) as (C1 & _). now rewrite C1. }
      rewrite (existsb_rel brel is_auto is_auto base base' EA HB).
      destruct (existsb is_auto base'); auto. now apply Forall2_filter.
    Qed.

    Lemma center_all_rel l l' :
      (k = true -> l <> [] -> center_sel c k l <> []) ->
      Forall2 brel l l' -> center_all c k l' = center_all c k l.
    Proof.
      intros Hne H. rewrite !center_all_eq. pose proof (center_sel_rel l l' H) as S.
      unfold center_shift.
      destruct (center_sel c k l) as [|x sel] eqn:E1; inversion S as [|x1 x' sel1 sel' Hx HS]; subst.
      - assert (l = []).
        { destruct l as [|b0 l0]; auto. destruct k.
          - exfalso. apply Hne; auto. discriminate.
          - now apply center_sel_false_nil in E1. }
        subst. inversion H. reflexivity.
      - assert (Es : Qred (- cmed (map cl2 (x' :: sel'))) == Qred (- cmed (map cl2 (x :: sel))) - d).
        { rewrite !Qred_correct.
          rewrite (cmed_shift_rel d (map cl2 (x :: sel)) (map cl2 (x' :: sel'))).
          - ring.
          - apply brel_cl2. now constructor.
          - discriminate. }
        clear - H Es R_shift. induction H as [|b b' l l' Hb H IH]; cbn [map]; auto.
        f_equal; auto. now apply badd_rel.
    Qed.
  End Center.

  Lemma load_adjust_rel ref k perm wing l l' :
    (k = true -> forall s s', R s s' -> null_cov_b c s' = null_cov_b c s) ->
    (k = true -> forall m, match_ref ref (presort l) = inr m -> mask_bad c m <> [] ->
                 center_sel c k (mask_bad c m) <> []) ->
    Forall2 R l l' ->
    load_adjust c ref k perm wing l' = load_adjust c ref k perm wing l.
  Proof.
    intros Hlow Hne H. unfold load_adjust.
    destruct H as [|s s' l l' Hs H]; auto.
    assert (H' : Forall2 R (s :: l) (s' :: l')) by now constructor.
    pose proof (match_ref_rel ref _ _ (presort_rel _ _ H')) as MR.
    destruct (match_ref ref (presort (s :: l))) as [e|m] eqn:M1;
      destruct (match_ref ref (presort (s' :: l'))) as [e'|m'] eqn:M2; try contradiction.
    - now subst.
    - assert (CA : center_all c k (mask_bad c m') = center_all c k (mask_bad c m)).
      { apply (center_all_rel k Hlow (mask_bad c m) (mask_bad c m')).
        - intros Ek Nn. exact (Hne Ek m eq_refl Nn).
        - apply mask_rel. exact MR. }
      now rewrite CA.
  Qed.
End Rel.

Lemma usable_sel c ref target m :
  ref_wf c ref -> (exists s, In s target /\ usable c ref s) ->
  match_ref ref (presort target) = inr m -> center_sel c true (mask_bad c m) <> [].
Proof.
  intros W (s & Hs & Hk & Hn) M. apply match_ref_inr in M as (M1 & M2 & _ & _).
  assert (Hs' : In s (presort target)) by (rewrite presort_eq; apply sort_regions_In; exact Hs).
  rewrite <- M1 in Hs'. apply in_map_iff in Hs' as (b & Eb & Hb).
  rewrite Forall_forall in M2. pose proof (M2 b Hb) as Ok. unfold bref_ok in Ok.
  change (bkey b) with (skey (fst b)) in Ok. rewrite Eb in Ok.
  unfold kept_b in Hk. rewrite ref_row_lookup, Ok in Hk.
  apply lookup_Some in Ok as [Hin _]. destruct (W _ Hin) as [W1 W2].
  apply (center_sel_nonnil c (mask_bad c m) b).
  - apply filter_In. split; auto. rewrite bad_bin_lit by auto. now rewrite Hk.
  - rewrite low_b_null, Eb. exact Hn.
Qed.

Theorem depth_invariance_thm bmv2 c o sq target target' anti anti' ref d :
  ref_wf c ref -> (exists s, In s target /\ usable c ref s) ->
  Forall2 (fun s s' => shifted_row d s s' /\ null_cov_b c s' = null_cov_b c s) target target' ->
  Forall2 (shifted_row d) anti anti' ->
  do_fix_gen bmv2 c o sq target' anti' ref = do_fix_gen bmv2 c o sq target anti ref.
Proof.
  intros W U Ht Ha. unfold do_fix_gen, fix_pre.
  rewrite (load_adjust_rel d c (fun s s' => shifted_row d s s' /\ null_cov_b c s' = null_cov_b c s)
             (fun s s' H => proj1 H) ref true (perm_t o) (wing_t o) target target'); auto.
  - rewrite (load_adjust_rel d c (shifted_row d) (fun s s' H => H) ref false (perm_a o) (wing_a o) anti anti'); auto.
    + intros Z; discriminate.
    + intros Z; discriminate.
  - intros _ s s' [_ E]. exact E.
  - intros _ m M _. now apply (usable_sel c ref target m).
Qed.
