(* C09 source tie of detect_bedcov_columns, the WHOLE function:

       firstline = text[: text.index("\n")]
       tabcount = firstline.count("\t")
       if tabcount < 3:  raise RuntimeError(...)
       if tabcount == 3: return ["chromosome", "start", "end", "basecount"]
       if tabcount == 4: return ["chromosome", "start", "end", "gene", "basecount"]
       fillers = [f"_{i}" for i in range(1, tabcount - 3)]
       return ["chromosome", "start", "end", "gene"] + fillers + ["basecount"]

   is regenerated from the Python source on every run as Gen/FnCoverageDetect.v (fn_detect_cols: the column names as a
   function of the first line, its tab count and the filler names; the raise is a recorded guard).  Here: with the
   model's tab count (count_char TABC) and filler names (filler_names) of the text's first line, the generated decision
   IS the model's detect_bedcov_columns (Model/Coverage.v) on every text with a line end and at least 3 tabs -- i.e.
   wherever the code does not raise; below 3 tabs the model reports the RuntimeError the guard records. *)
From CNV Require Import Base.Prelude Base.Str Gen.CoverageDefaults Gen.FnCoverageDetect Model.Coverage.

Lemma source_detect_columns (text first : list ascii) :
  before_char EOLC text = Some first ->
  3 <= count_char TABC first ->
  detect_bedcov_columns text
  = DetectCols (fn_detect_cols (unchars first) (count_char TABC first) (filler_names (count_char TABC first))).
Proof.
  intros Hf Ht. unfold detect_bedcov_columns, fn_detect_cols. rewrite Hf.
  change BEDCOV_MIN_TABS with 3.
  assert (E : count_char TABC first <? 3 = false) by (apply Z.ltb_ge; exact Ht).
  rewrite E. unfold BEDCOV_COLS_BY_TABS, BEDCOV_COLS_HEAD, BEDCOV_COLS_TAIL. cbn [lookup_cols].
  destruct (count_char TABC first =? 3); [reflexivity|].
  destruct (count_char TABC first =? 4); [reflexivity|].
  rewrite <- app_assoc. reflexivity.
Qed.

Lemma source_detect_bad_line (text first : list ascii) :
  before_char EOLC text = Some first ->
  count_char TABC first < 3 ->
  detect_bedcov_columns text = DetectBadLine.
Proof.
  intros Hf Ht. unfold detect_bedcov_columns. rewrite Hf. change BEDCOV_MIN_TABS with 3.
  assert (E : count_char TABC first <? 3 = true) by (apply Z.ltb_lt; exact Ht).
  rewrite E. reflexivity.
Qed.
