(* C06 at genome level: a table over several chromosomes as the public methods see it
   (Model/Intervals.v, second half).  For every operation: restricted to one chromosome
   the result is the per-chromosome operation the theorems of Props/C06.v speak about
   (with the fast path decided on the whole table); a chromosome present in only one
   table behaves as stated (subtract: untouched; intersect: dropped); the chromosome
   blocks of the output come in the order the code produces. *)
From CNV Require Import Base.Prelude Model.IvRow Model.IvCombine Model.Intervals Model.Chromsort Spec.Cover.
From CNV Require Import Proofs.IvCover Proofs.IvMerge Proofs.IvFlatten Proofs.IvLib2 Proofs.ChromsortLemmas.
From CNV Require Gen.IvDefaults.

(* ---- names, order -------------------------------------------------------------------- *)

Lemma g_on_onk {A} c : @g_on A c = onk g_chrom c.
Proof. reflexivity. Qed.

Lemma g_on_true {A} c (r : g_row A) : g_on c r = true <-> g_chrom r = c.
Proof. unfold g_on. apply String.eqb_eq. Qed.

Lemma g_on_filter {A} c (t : list (g_row A)) : Forall (fun r => g_chrom r = c) (filter (g_on c) t).
Proof.
  apply Forall_forall. intros r Hr. apply filter_In in Hr as [_ Hr]. now apply g_on_true.
Qed.

Lemma g_chroms_In {A} (t : list (g_row A)) c : In c (g_chroms t) <-> exists r, In r t /\ g_chrom r = c.
Proof.
  unfold g_chroms. rewrite uniq_In, in_map_iff. split; intros [r [H1 H2]]; exists r; auto.
Qed.

Lemma g_chroms_NoDup {A} (t : list (g_row A)) : NoDup (g_chroms t).
Proof. apply uniq_NoDup. Qed.

Lemma g_chroms_filter_nil {A} (t : list (g_row A)) c : ~ In c (g_chroms t) <-> filter (g_on c) t = [].
Proof.
  rewrite g_chroms_In. split.
  - intros Hn. apply filter_none. intros r Hr.
    destruct (g_on c r) eqn:E; auto. exfalso. apply Hn. exists r. split; auto. now apply g_on_true.
  - intros Hf [r [Hr Hc]].
    assert (In r (filter (g_on c) t)) by (apply filter_In; split; auto; now apply g_on_true).
    rewrite Hf in H. destruct H.
Qed.

Lemma g_key_leb_total a b : g_key_leb a b = true \/ g_key_leb b a = true.
Proof. apply ckey_leb_total. Qed.

Lemma g_key_leb_trans a b c : g_key_leb a b = true -> g_key_leb b c = true -> g_key_leb a c = true.
Proof. apply ckey_leb_trans. Qed.

Lemma g_order_perm {A} (t : list (g_row A)) : Permutation (g_chroms t) (g_order t).
Proof.
  unfold g_order. eapply Permutation_trans; apply stable_sort_perm.
Qed.

Lemma g_order_In {A} (t : list (g_row A)) c : In c (g_order t) <-> In c (g_chroms t).
Proof.
  split; intros H.
  - eapply Permutation_in; [apply Permutation_sym, g_order_perm | exact H].
  - eapply Permutation_in; [apply g_order_perm | exact H].
Qed.

Lemma g_order_NoDup {A} (t : list (g_row A)) : NoDup (g_order t).
Proof. eapply Permutation_NoDup; [apply g_order_perm | apply g_chroms_NoDup]. Qed.

(* the blocks come in sorter_chrom order (names with equal keys: in name order, by stability) *)
Lemma g_order_sorted {A} (t : list (g_row A)) :
  StronglySorted (fun a b => g_key_leb a b = true) (g_order t).
Proof. apply stable_sort_sorted; [apply g_key_leb_total | apply g_key_leb_trans]. Qed.

Section Genome.
Context {A : Type} (comb : A -> list A -> A).
Notation grow := (g_row A).
Implicit Types (t : list grow) (c : string).

(* ---- every row of a per-chromosome result lies on that chromosome ------------------------ *)

Lemma squash_on c (g : list grow) :
  (forall r, In r g -> g_chrom r = c) -> Forall (fun r => g_chrom r = c) (squash (g_comb comb) g).
Proof.
  intros H. destruct g as [|r [|r' g']]; cbn [squash]; repeat constructor.
  - apply H. now left.
  - unfold g_chrom, pay, g_comb. cbn. apply (H r). now left.
Qed.

Lemma merge_slow_on bp c u :
  Forall (fun r => g_chrom r = c) u -> Forall (fun r => g_chrom r = c) (merge_slow (g_comb comb) bp u).
Proof.
  intros Hu. rewrite Forall_forall in Hu. unfold merge_slow. apply Forall_forall. intros q Hq.
  apply in_flat_map in Hq as [g [Hg Hq]].
  pose proof (squash_on c g) as Hs. rewrite Forall_forall in Hs. apply Hs; auto.
  intros r Hr. apply Hu. apply sort_rows_In. eapply groups_In; eauto.
Qed.

Lemma flatten_group_on c (g : list grow) :
  (forall r, In r g -> g_chrom r = c) -> Forall (fun r => g_chrom r = c) (flatten_group (g_comb comb) g).
Proof.
  intros H. destruct g as [|r [|r' g']]; cbn [flatten_group]; repeat constructor.
  - apply H. now left.
  - apply Forall_forall. intros q Hq. apply in_map_iff in Hq as [se [<- _]].
    unfold g_chrom, pay, g_comb. cbn. apply (H r). now left.
Qed.

Lemma flatten_slow_on c u :
  Forall (fun r => g_chrom r = c) u -> Forall (fun r => g_chrom r = c) (flatten_slow (g_comb comb) u).
Proof.
  intros Hu. rewrite Forall_forall in Hu. unfold flatten_slow. apply Forall_forall. intros q Hq.
  apply in_flat_map in Hq as [g [Hg Hq]].
  pose proof (flatten_group_on c g) as Hs. rewrite Forall_forall in Hs. apply Hs; auto.
  intros r Hr. apply Hu. apply sort_rows_In. eapply groups_In; eauto.
Qed.

Lemma merge_slow_nonempty bp u : u <> [] -> merge_slow (g_comb comb) bp u <> [].
Proof.
  intros Hu. unfold merge_slow.
  destruct (groups bp (sort_rows u)) as [|g gs] eqn:E.
  - apply (proj1 (groups_nil_iff _ _)) in E. apply (proj1 (sort_rows_nil_iff _)) in E. contradiction.
  - pose proof (groups_nonempty bp (sort_rows u)) as Hne. rewrite E in Hne.
    inversion Hne as [|? ? Hg _]; subst. cbn [flat_map].
    destruct g as [|r [|r' g']]; [contradiction | discriminate | discriminate].
Qed.

Lemma flatten_slow_nonempty_valid u : valid u -> u <> [] -> flatten_slow (g_comb comb) u <> [].
Proof.
  intros Hv Hu Hnil.
  destruct (flatten_slow_spec (g_comb comb) u Hv) as (Hc & _).
  destruct u as [|r u']; [contradiction|].
  apply valid_cons in Hv as [Hr _].
  assert (covers (flatten_slow (g_comb comb) (r :: u')) (lo r)).
  { apply Hc. exists r. split; [now left | lia]. }
  rewrite Hnil in H. destruct H as [x [[] _]].
Qed.

(* ---- merge --------------------------------------------------------------------------- *)

Lemma g_merge_eq bp t :
  g_merge comb bp t =
  if all_gaps bp t then t
  else flat_map (fun c => merge_slow (g_comb comb) bp (filter (g_on c) t)) (g_order t).
Proof. destruct t; reflexivity. Qed.

(* per chromosome, the genome-level merge is the per-chromosome merge with the fast path
   decided on the whole table *)
Theorem g_merge_chrom bp t c :
  filter (g_on c) (g_merge comb bp t) =
  merge_sel (g_comb comb) bp (all_gaps bp t) (filter (g_on c) t).
Proof.
  rewrite g_merge_eq.
  destruct (all_gaps bp t) eqn:Ef.
  - unfold merge_sel. destruct (filter (g_on c) t); reflexivity.
  - set (f := fun c' => merge_slow (g_comb comb) bp (filter (g_on c') t)).
    assert (Hon : forall c', Forall (fun r => g_chrom r = c') (f c'))
      by (intros c'; apply merge_slow_on, g_on_filter).
    destruct (in_dec string_dec c (g_order t)) as [Hin|Hnin].
    + pose proof (blocks_filter_in g_chrom f Hon c _ (g_order_NoDup t) Hin) as H.
      etransitivity; [exact H|]. unfold f, merge_sel.
      destruct (filter (g_on c) t); reflexivity.
    + pose proof (blocks_filter_notin g_chrom f Hon c _ Hnin) as H.
      etransitivity; [exact H|].
      rewrite g_order_In in Hnin. apply g_chroms_filter_nil in Hnin.
      rewrite Hnin. reflexivity.
Qed.

(* order of the output: the table itself on the fast path; otherwise one block per
   chromosome of the input, ordered by name and then (stably) by sorter_chrom *)
Theorem g_merge_order bp t :
  (all_gaps bp t = true -> g_merge comb bp t = t) /\
  (all_gaps bp t = false ->
     g_chroms (g_merge comb bp t) = g_order t /\
     g_merge comb bp t = flat_map (fun c => filter (g_on c) (g_merge comb bp t)) (g_order t)).
Proof.
  rewrite g_merge_eq.
  split; intros Ef; rewrite Ef; [reflexivity|].
  - set (f := fun c' => merge_slow (g_comb comb) bp (filter (g_on c') t)).
    assert (Hon : forall c', Forall (fun r => g_chrom r = c') (f c'))
      by (intros c'; apply merge_slow_on, g_on_filter).
    split.
    + unfold g_chroms at 1. apply (blocks_keys g_chrom f Hon); [apply g_order_NoDup|].
      intros c' Hc'. apply merge_slow_nonempty.
      apply g_order_In in Hc'. intros Hnil. apply g_chroms_filter_nil in Hnil. contradiction.
    + exact (blocks_grouped g_chrom f Hon _ (g_order_NoDup t)).
Qed.

(* ---- flatten ------------------------------------------------------------------------- *)

Lemma g_flatten_eq t :
  g_flatten comb t =
  if no_overlap t then t
  else flat_map (fun c => flatten_slow (g_comb comb) (filter (g_on c) t)) (g_order t).
Proof. destruct t; reflexivity. Qed.

Theorem g_flatten_chrom t c :
  filter (g_on c) (g_flatten comb t) =
  flatten_sel (g_comb comb) (no_overlap t) (filter (g_on c) t).
Proof.
  rewrite g_flatten_eq.
  destruct (no_overlap t) eqn:Ef.
  - unfold flatten_sel. destruct (filter (g_on c) t); reflexivity.
  - set (f := fun c' => flatten_slow (g_comb comb) (filter (g_on c') t)).
    assert (Hon : forall c', Forall (fun r => g_chrom r = c') (f c'))
      by (intros c'; apply flatten_slow_on, g_on_filter).
    destruct (in_dec string_dec c (g_order t)) as [Hin|Hnin].
    + pose proof (blocks_filter_in g_chrom f Hon c _ (g_order_NoDup t) Hin) as H.
      etransitivity; [exact H|]. unfold f, flatten_sel.
      destruct (filter (g_on c) t); reflexivity.
    + pose proof (blocks_filter_notin g_chrom f Hon c _ Hnin) as H.
      etransitivity; [exact H|].
      rewrite g_order_In in Hnin. apply g_chroms_filter_nil in Hnin.
      rewrite Hnin. reflexivity.
Qed.

Theorem g_flatten_order t :
  (no_overlap t = true -> g_flatten comb t = t) /\
  (no_overlap t = false -> valid t ->
     g_chroms (g_flatten comb t) = g_order t /\
     g_flatten comb t = flat_map (fun c => filter (g_on c) (g_flatten comb t)) (g_order t)).
Proof.
  rewrite g_flatten_eq.
  split; intros Ef; rewrite Ef; [reflexivity|]. intros Hv.
  set (f := fun c' => flatten_slow (g_comb comb) (filter (g_on c') t)).
  assert (Hon : forall c', Forall (fun r => g_chrom r = c') (f c'))
    by (intros c'; apply flatten_slow_on, g_on_filter).
  split.
  - unfold g_chroms at 1. apply (blocks_keys g_chrom f Hon); [apply g_order_NoDup|].
    intros c' Hc'. apply flatten_slow_nonempty_valid; [now apply valid_filter|].
    apply g_order_In in Hc'. intros Hnil. apply g_chroms_filter_nil in Hnil. contradiction.
  - exact (blocks_grouped g_chrom f Hon _ (g_order_NoDup t)).
Qed.

(* ---- subtract ------------------------------------------------------------------------ *)
Section Two.
Context {B : Type}.
Implicit Types (b : list (g_row B)).

Lemma subtract_on c (a : list grow) b :
  Forall (fun r => g_chrom r = c) a -> Forall (fun r => g_chrom r = c) (subtract a b).
Proof. intros H. apply (subtract_pay (fun p => fst p = c)). exact H. Qed.

Lemma intersect_on c (a : list grow) b :
  Forall (fun r => g_chrom r = c) a -> Forall (fun r => g_chrom r = c) (intersect_trim a b).
Proof. intros H. apply (intersect_trim_pay (fun p => fst p = c)). exact H. Qed.

Lemma g_subtract_eq (a : list grow) b :
  b <> [] ->
  g_subtract a b = flat_map (fun c => subtract (filter (g_on c) a) (filter (g_on c) b)) (g_chroms a).
Proof. intros Hb. unfold g_subtract. destruct b; [contradiction | reflexivity]. Qed.

(* an empty `other` gives the table back; otherwise, per chromosome, the per-chromosome
   subtraction; a chromosome `other` lacks is untouched; the chromosomes come in the order
   of their first appearance in the table, every chromosome's rows contiguous *)
Theorem g_subtract_chrom (a : list grow) b c :
  b <> [] ->
  filter (g_on c) (g_subtract a b) = subtract (filter (g_on c) a) (filter (g_on c) b).
Proof.
  intros Hb. rewrite (g_subtract_eq a b Hb).
  set (f := fun c' => subtract (filter (g_on c') a) (filter (g_on c') b)).
  assert (Hon : forall c', Forall (fun r => g_chrom r = c') (f c'))
    by (intros c'; apply subtract_on, g_on_filter).
  destruct (in_dec string_dec c (g_chroms a)) as [Hin|Hnin].
  - exact (blocks_filter_in g_chrom f Hon c _ (g_chroms_NoDup a) Hin).
  - pose proof (blocks_filter_notin g_chrom f Hon c _ Hnin) as H.
    etransitivity; [exact H|]. apply g_chroms_filter_nil in Hnin. rewrite Hnin. reflexivity.
Qed.

Theorem g_subtract_empty (a : list grow) : g_subtract a (@nil (g_row B)) = a.
Proof. reflexivity. Qed.

Theorem g_subtract_untouched (a : list grow) b c :
  ~ In c (g_chroms b) -> filter (g_on c) (g_subtract a b) = filter (g_on c) a.
Proof.
  intros Hc. destruct b as [|b0 b'] eqn:Eb; [reflexivity|]. rewrite <- Eb in *.
  rewrite g_subtract_chrom by (rewrite Eb; discriminate).
  apply g_chroms_filter_nil in Hc. rewrite Hc. apply subtract_nil_r.
Qed.

Lemma flat_map_drop_empty {X Y} (f : X -> list Y) (cs : list X) :
  flat_map f cs = flat_map f (filter (fun k => negb (Nat.eqb (length (f k)) 0)) cs).
Proof.
  induction cs as [|k tl IH]; [reflexivity|]. cbn [flat_map filter].
  destruct (f k) as [|x l] eqn:Ef; cbn [length Nat.eqb negb app].
  - exact IH.
  - cbn [flat_map]. rewrite Ef, IH. reflexivity.
Qed.

Theorem g_subtract_order (a : list grow) b :
  b <> [] ->
  g_subtract a b = flat_map (fun c => filter (g_on c) (g_subtract a b)) (g_chroms a) /\
  g_chroms (g_subtract a b) =
    filter (fun c => negb (Nat.eqb (length (filter (g_on c) (g_subtract a b))) 0)) (g_chroms a).
Proof.
  intros Hb.
  assert (Ec : forall c, filter (g_on c) (g_subtract a b) = subtract (filter (g_on c) a) (filter (g_on c) b))
    by (intros c; now apply g_subtract_chrom).
  split.
  - rewrite (g_subtract_eq a b Hb) at 1. rewrite !flat_map_concat_map. f_equal. apply map_ext. intros c.
    symmetry. apply Ec.
  - rewrite (filter_ext _ (fun c => negb (Nat.eqb (length (subtract (filter (g_on c) a) (filter (g_on c) b))) 0)))
      by (intros c; now rewrite Ec).
    rewrite (g_subtract_eq a b Hb).
    set (f := fun c' => subtract (filter (g_on c') a) (filter (g_on c') b)).
    assert (Hon : forall c', Forall (fun r => g_chrom r = c') (f c'))
      by (intros c'; apply subtract_on, g_on_filter).
    change (g_chroms (flat_map f (g_chroms a)) =
            filter (fun c => negb (Nat.eqb (length (f c)) 0)) (g_chroms a)).
    rewrite (flat_map_drop_empty f). unfold g_chroms at 1.
    apply (blocks_keys g_chrom f Hon).
    + apply NoDup_filter, g_chroms_NoDup.
    + intros c Hc. apply filter_In in Hc as [_ Hc]. intros Hnil. rewrite Hnil in Hc. discriminate.
Qed.

(* ---- intersection(mode="trim") ---------------------------------------------------------- *)

Theorem g_intersect_chrom (a : list grow) b c :
  filter (g_on c) (g_intersect a b) = intersect_trim (filter (g_on c) a) (filter (g_on c) b).
Proof.
  unfold g_intersect.
  set (f := fun c' => intersect_trim (filter (g_on c') a) (filter (g_on c') b)).
  assert (Hon : forall c', Forall (fun r => g_chrom r = c') (f c'))
    by (intros c'; apply intersect_on, g_on_filter).
  destruct (in_dec string_dec c (g_chroms b)) as [Hin|Hnin].
  - exact (blocks_filter_in g_chrom f Hon c _ (g_chroms_NoDup b) Hin).
  - pose proof (blocks_filter_notin g_chrom f Hon c _ Hnin) as H.
    etransitivity; [exact H|]. apply g_chroms_filter_nil in Hnin. rewrite Hnin. reflexivity.
Qed.

(* a chromosome present in only one of the two tables is dropped *)
Theorem g_intersect_dropped (a : list grow) b c :
  ~ In c (g_chroms a) \/ ~ In c (g_chroms b) -> filter (g_on c) (g_intersect a b) = [].
Proof.
  intros H. rewrite g_intersect_chrom. destruct H as [H|H]; apply g_chroms_filter_nil in H; rewrite H.
  - apply intersect_trim_nil_l.
  - reflexivity.
Qed.

Theorem g_intersect_order (a : list grow) b :
  g_intersect a b = flat_map (fun c => filter (g_on c) (g_intersect a b)) (g_chroms b).
Proof.
  unfold g_intersect at 1. rewrite !flat_map_concat_map. f_equal. apply map_ext. intros c.
  symmetry. apply g_intersect_chrom.
Qed.

End Two.

(* ---- subdivide ----------------------------------------------------------------------- *)

Theorem g_subdivide_chrom avg mn cut t c :
  filter (g_on c) (g_subdivide comb avg mn cut t) =
  subdivide_sel (g_comb comb) avg mn cut (all_gaps Gen.IvDefaults.merge_bp_default t) (filter (g_on c) t).
Proof.
  unfold g_subdivide, subdivide_sel. rewrite <- g_merge_chrom.
  apply (filter_flat_map_pay (fun p => String.eqb (fst p) c)).
  intros r. apply split_row_pay.
Qed.

(* ---- resize_ranges ----------------------------------------------------------------------- *)

Theorem g_resize_chrom bp sizes t c :
  filter (g_on c) (g_resize bp sizes t) = resize bp (g_size sizes c) (filter (g_on c) t).
Proof.
  unfold g_resize, resize.
  set (mv := fun r : grow => (clip (g_size sizes (g_chrom r)) (lo r - bp), clip (g_size sizes (g_chrom r)) (hi r + bp), pay r)).
  set (mvc := fun r : grow => (clip (g_size sizes c) (lo r - bp), clip (g_size sizes c) (hi r + bp), pay r)).
  assert (E : filter (g_on c) (map mv t) = map mvc (filter (g_on c) t)).
  { rewrite (filter_map_comm (g_on c) (g_on c) mv) by reflexivity.
    apply map_ext_in. intros r Hr. apply filter_In in Hr as [_ Hr]. apply g_on_true in Hr.
    unfold mv, mvc. now rewrite Hr. }
  destruct (bp <? 0).
  - rewrite filter_comm, E. reflexivity.
  - exact E.
Qed.

(* the rows come in the table's own order: resize_ranges works row by row *)
Theorem g_resize_rowwise bp sizes t :
  g_resize bp sizes t =
  flat_map (fun r => resize bp (g_size sizes (g_chrom r)) [r]) t.
Proof.
  unfold g_resize, resize. destruct (bp <? 0) eqn:Eb.
  - induction t as [|r t IH]; [reflexivity|].
    cbn [map filter]. rewrite IH. cbn [flat_map map filter].
    destruct (0 <? _); reflexivity.
  - induction t as [|r t IH]; [reflexivity|].
    cbn [map]. rewrite IH. reflexivity.
Qed.

End Genome.

(* ---- the single-chromosome shortcut of by_shared_chroms ------------------------------------
   (both tables on one and the same chromosome: the tables are handed over whole) is what the
   genome-level model gives *)
Lemma g_single_filter {A} (t : list (g_row A)) c : (forall r, In r t -> g_chrom r = c) -> filter (g_on c) t = t.
Proof. intros H. apply filter_id. intros r Hr. apply g_on_true. now apply H. Qed.

Lemma g_chroms_single {A} (t : list (g_row A)) c : g_chroms t = [c] -> forall r, In r t -> g_chrom r = c.
Proof.
  intros H r Hr. assert (Hin : In (g_chrom r) (g_chroms t)) by (apply g_chroms_In; exists r; auto).
  rewrite H in Hin. destruct Hin as [<-|[]]. reflexivity.
Qed.

Theorem g_single_chrom {A B} (a : list (g_row A)) (b : list (g_row B)) c :
  g_chroms a = [c] -> g_chroms b = [c] ->
  g_subtract a b = subtract a b /\ g_intersect a b = intersect_trim a b.
Proof.
  intros Ha Hb.
  pose proof (g_single_filter a c (g_chroms_single a c Ha)) as Fa.
  pose proof (g_single_filter b c (g_chroms_single b c Hb)) as Fb.
  split.
  - unfold g_subtract. destruct b as [|b0 b']; [discriminate|].
    rewrite Ha. cbn [flat_map]. rewrite Fa, Fb, app_nil_r. reflexivity.
  - unfold g_intersect. rewrite Hb. cbn [flat_map]. rewrite Fa, Fb, app_nil_r. reflexivity.
Qed.
