(* C11: a constant signal (any length, any positive weights) has zero Haar
   convolution at every level, no peaks, no breakpoints, and is reported as one
   segment whose mean is the constant. *)
From Coq Require Import QArith.Qabs.
From CNV Require Import Base.Prelude Model.Haar Spec.Haar Proofs.HaarConv.
From Coq Require Import Lqa.

Local Open Scope Q_scope.

Definition all_eq (c : Q) (l : list Q) : Prop := Forall (fun x => x == c) l.
Definition all_pos (l : list Q) : Prop := Forall (fun x => 0 < x) l.

(* weights, when present, have the signal's length and are positive *)
Definition weights_ok (sg : list Q) (wt : option (list Q)) : Prop :=
  match wt with
  | Some w => length w = length sg /\ all_pos w
  | None => True
  end.

Lemma nth_Forall (P : Q -> Prop) l i : Forall P l -> (i < length l)%nat -> P (nth i l 0).
Proof. intros H Hi. rewrite Forall_forall in H. apply H, nth_In, Hi. Qed.

Lemma inject_Z_pos z : (0 < z)%Z -> 0 < inject_Z z.
Proof. intros H. unfold Qlt. cbn. lia. Qed.

Lemma padded_Forall (P : Q -> Prop) l h k j :
  Forall P l -> (1 <= h <= Z.of_nat (length l))%Z -> (0 <= k < Z.of_nat (length l))%Z ->
  (k - h <= j < k + h)%Z -> P (padded l j).
Proof.
  intros HP Hh Hk Hj. unfold padded. apply nth_Forall; [exact HP|].
  pose proof (mirror_range _ h k j Hh Hk Hj). lia.
Qed.

Lemma flat_window c sg h k :
  all_eq c sg -> (1 <= h <= Z.of_nat (length sg))%Z -> (0 <= k < Z.of_nat (length sg))%Z ->
  haar_window sg h k == 0.
Proof.
  intros Hc Hh Hk. unfold haar_window.
  rewrite (wsum_const (padded sg) k (Z.to_nat h) c).
  - rewrite (wsum_const (padded sg) (k - h)%Z (Z.to_nat h) c); [ring|].
    intros j Hj. apply (padded_Forall (fun x => x == c) sg h k j Hc Hh Hk). lia.
  - intros j Hj. apply (padded_Forall (fun x => x == c) sg h k j Hc Hh Hk). lia.
Qed.

Lemma flat_window_w c sg w h k :
  all_eq c sg -> length w = length sg -> all_pos w ->
  (1 <= h <= Z.of_nat (length sg))%Z -> (0 <= k < Z.of_nat (length sg))%Z ->
  haar_window_w sg w h k == 0.
Proof.
  intros Hc Hl Hp Hh Hk. unfold haar_window_w.
  assert (Hhw : (1 <= h <= Z.of_nat (length w))%Z) by (rewrite Hl; exact Hh).
  assert (Hkw : (0 <= k < Z.of_nat (length w))%Z) by (rewrite Hl; exact Hk).
  assert (S1 : forall a, (k - h <= a)%Z -> (a + h <= k + h)%Z ->
            wsum (padded_prod sg w) a (Z.to_nat h) == c * wsum (padded w) a (Z.to_nat h)).
  { intros a Ha1 Ha2. rewrite <- wsum_scale. apply wsum_ext. intros j Hj. unfold padded_prod.
    rewrite (padded_Forall (fun x => x == c) sg h k j Hc Hh Hk) by lia. reflexivity. }
  assert (P1 : forall a, (k - h <= a)%Z -> (a + h <= k + h)%Z -> 0 < wsum (padded w) a (Z.to_nat h)).
  { intros a Ha1 Ha2. apply wsum_pos; [lia|]. intros j Hj.
    apply (padded_Forall (fun x => 0 < x) w h k j Hp Hhw Hkw). lia. }
  rewrite (S1 k), (S1 (k - h)%Z) by lia.
  pose proof (P1 k ltac:(lia) ltac:(lia)) as Q1. pose proof (P1 (k - h)%Z ltac:(lia) ltac:(lia)) as Q2.
  field. split; lra.
Qed.

Lemma Forall_qnth0 (l : list Q) :
  (forall k, (0 <= k < Z.of_nat (length l))%Z -> qnth l k == 0) -> Forall (fun x => x == 0) l.
Proof.
  intros H. apply Forall_nth. intros i d Hi.
  rewrite (nth_indep l d 0 Hi). specialize (H (Z.of_nat i) ltac:(lia)).
  unfold qnth in H. rewrite Nat2Z.id in H. exact H.
Qed.

Lemma flat_conv_zero c sg wt h scale :
  all_eq c sg -> weights_ok sg wt -> (1 <= h)%Z ->
  Forall (fun x => x == 0) (haar_conv sg wt h scale).
Proof.
  intros Hc Hw Hh.
  destruct (Z_lt_le_dec (Z.of_nat (length sg)) h) as [Hs|Hs]; [apply haar_conv_short; exact Hs|].
  apply Forall_qnth0. rewrite haar_conv_length. intros k Hk.
  destruct wt as [w|].
  - destruct Hw as [Hl Hp].
    destruct (Z.eq_dec k 0) as [->|Hk0]; [apply haar_conv_0|].
    rewrite haar_conv_w_closed by (try exact Hl; lia).
    rewrite (flat_window_w c) by (try assumption; lia). ring.
  - rewrite haar_conv_u_closed by lia. rewrite (flat_window c) by (try assumption; lia).
    unfold Qdiv. ring.
Qed.

(* ---------- no peaks on an all-zero convolution ---------- *)

Lemma Qltb_zero_l c : c == 0 -> Qltb 0 c = false.
Proof.
  intros H. unfold Qltb. apply negb_false_iff, Qle_bool_iff. lra.
Qed.

Lemma Qltb_zero_r c : c == 0 -> Qltb c 0 = false.
Proof.
  intros H. unfold Qltb. apply negb_false_iff, Qle_bool_iff. lra.
Qed.

Lemma flp_loop_eq p c n t k st :
  flp_loop (p :: c :: n :: t) k st =
  let '(out, st') := flp_step k p c n st in out ++ flp_loop (c :: n :: t) (k + 1) st'.
Proof. reflexivity. Qed.

Lemma flp_zero l : forall k st, Forall (fun x => x == 0) l -> flp_loop l k st = [].
Proof.
  induction l as [|p t IH]; intros k st H; [reflexivity|].
  destruct t as [|c t']; [reflexivity|]. destruct t' as [|n t'']; [reflexivity|].
  rewrite flp_loop_eq.
  assert (Hc : c == 0) by (inversion H as [|? ? _ H2]; inversion H2; assumption).
  unfold flp_step. destruct st as [maxS minS].
  rewrite (Qltb_zero_l c Hc), (Qltb_zero_r c Hc). cbn [app].
  apply IH. inversion H; assumption.
Qed.

Lemma find_local_peaks_zero l : Forall (fun x => x == 0) l -> find_local_peaks l = [].
Proof. intros H. apply flp_zero, H. Qed.

(* ---------- no breakpoints ---------- *)

Section Flat.
Variable scale_u scale_w : Z -> Q.
Variable pvals : Z -> list Q.
Variable absorb : Z -> bool.

Lemma flat_conv_level c sg wt h :
  all_eq c sg -> weights_ok sg wt -> (1 <= h)%Z ->
  Forall (fun x => x == 0) (conv_level scale_u scale_w sg wt h).
Proof. intros. unfold conv_level. eapply flat_conv_zero; eassumption. Qed.

Lemma pow2_ge1 level : (0 <= level)%Z -> (1 <= 2 ^ level)%Z.
Proof. intros H. pose proof (Z.pow_pos_nonneg 2 level ltac:(lia) H). lia. Qed.

Lemma flat_level_peaks c sg wt level :
  all_eq c sg -> weights_ok sg wt -> (0 <= level)%Z ->
  level_peaks scale_u scale_w sg wt level = [].
Proof.
  intros Hc Hw Hl. unfold level_peaks. apply find_local_peaks_zero.
  apply (flat_conv_level c); auto using pow2_ge1.
Qed.

Lemma flat_level_addon c sg wt q level :
  all_eq c sg -> weights_ok sg wt -> (0 <= level)%Z ->
  level_addon scale_u scale_w pvals absorb sg wt q level = [].
Proof.
  intros Hc Hw Hl. unfold level_addon.
  pose proof (flat_level_peaks c sg wt level Hc Hw Hl) as P. unfold level_peaks in P.
  rewrite P. reflexivity.
Qed.

Lemma flat_breakpoints c sg wt q levels :
  all_eq c sg -> weights_ok sg wt -> Forall (fun l => (0 <= l)%Z) levels ->
  haar_breakpoints_over scale_u scale_w pvals absorb levels sg wt q = [].
Proof.
  intros Hc Hw Hl. unfold haar_breakpoints_over.
  induction Hl as [|l ls Hl0 Hls IH]; [reflexivity|].
  cbn [fold_left]. rewrite (flat_level_addon c) by assumption. cbn [unify_levels]. exact IH.
Qed.

(* ---------- one segment whose mean is the constant ---------- *)

Lemma qsum_all_eq c l : all_eq c l -> qsum l == inject_Z (Z.of_nat (length l)) * c.
Proof.
  induction 1 as [|x t Hx Ht IH]; [cbn; ring|].
  cbn [qsum length]. rewrite Qred_correct, IH, Hx.
  rewrite Nat2Z.inj_succ. unfold Z.succ. rewrite inject_Z_plus. ring.
Qed.

Lemma qsum_pos l : all_pos l -> l <> [] -> 0 < qsum l.
Proof.
  intros H Hne. destruct l as [|x t]; [congruence|]. clear Hne.
  revert x H. induction t as [|y t IH]; intros x H; cbn [qsum]; rewrite Qred_correct.
  - inversion H; subst. cbn. lra.
  - inversion H as [|? ? Hx Ht]; subst. specialize (IH y Ht). cbn [qsum] in IH.
    rewrite Qred_correct in IH. rewrite Qred_correct. lra.
Qed.

Lemma qsum_qmul2_all_eq c d w :
  all_eq c d -> length w = length d -> qsum (qmul2 d w) == c * qsum w.
Proof.
  intros H. revert w. induction H as [|x t Hx Ht IH]; intros w Hl.
  - destruct w; [cbn; ring|cbn in Hl; lia].
  - destruct w as [|y u]; [cbn in Hl; lia|].
    cbn [qmul2 qsum]. rewrite !Qred_correct. rewrite IH by (cbn in Hl; lia). rewrite Hx. ring.
Qed.

Lemma slice_all {A} (l : list A) : slice l 0 (Zlength_nat l) = l.
Proof.
  unfold slice, Zlength_nat. rewrite Z.sub_0_r, Nat2Z.id. change (Z.to_nat 0) with 0%nat.
  cbn [skipn]. apply firstn_all.
Qed.

Lemma flat_seg_mean c sg wt :
  all_eq c sg -> weights_ok sg wt -> sg <> [] ->
  seg_mean sg wt 0 (Zlength_nat sg) == c.
Proof.
  intros Hc Hw Hne. unfold seg_mean. rewrite slice_all.
  assert (Hplain : Qred (qsum sg / inject_Z (Zlength_nat sg)) == c).
  { rewrite Qred_correct, (qsum_all_eq c sg Hc). unfold Zlength_nat.
    assert (0 < inject_Z (Z.of_nat (length sg))).
    { apply inject_Z_pos. destruct sg; [congruence|cbn; lia]. }
    field. lra. }
  destruct wt as [w|]; [|exact Hplain].
  destruct Hw as [Hl Hp].
  assert (Hs : slice w 0 (Zlength_nat sg) = w).
  { unfold Zlength_nat. rewrite <- Hl. apply slice_all. }
  rewrite Hs.
  assert (Hq : 0 < qsum w).
  { apply qsum_pos; [exact Hp|]. destruct w; [destruct sg; [congruence|cbn in Hl; lia]|congruence]. }
  assert (Hb : Qltb 0 (qsum w) = true).
  { unfold Qltb. apply negb_true_iff. destruct (Qle_bool (qsum w) 0) eqn:E; [|reflexivity].
    apply Qle_bool_iff in E. lra. }
  rewrite Hb. rewrite Qred_correct, (qsum_qmul2_all_eq c sg w Hc Hl). field. lra.
Qed.

Lemma flat_result c sg wt :
  all_eq c sg -> weights_ok sg wt -> sg <> [] ->
  let n := Zlength_nat sg in
  let r := haar_result_of sg wt [] in
  hr_breaks r = [] /\ hr_start r = [0%Z] /\ hr_end r = [(n - 1)%Z] /\ hr_size r = [n] /\
  exists m, hr_mean r = [m] /\ m == c.
Proof.
  intros Hc Hw Hne n r. unfold r, haar_result_of. cbn [hr_breaks hr_start hr_end hr_size hr_mean app map combine fst snd].
  fold n. rewrite Z.sub_0_r.
  repeat split.
  eexists. split; [reflexivity|].
  unfold segment_by_peaks. cbn [seg_bounds fold_left fst snd].
  destruct sg as [|x rest]; [congruence|].
  cbn [map fill_from]. unfold qnth. change (Z.to_nat 0) with 0%nat. cbn [nth].
  assert (Hn : (0 <? Zlength_nat (x :: rest))%Z = true).
  { unfold Zlength_nat. cbn [length]. lia. }
  rewrite Hn. cbn [Z.leb Z.compare andb].
  apply flat_seg_mean; assumption.
Qed.

Lemma flat_haar_seg c sg wt q :
  all_eq c sg -> weights_ok sg wt -> sg <> [] ->
  let n := Zlength_nat sg in
  let r := haar_seg scale_u scale_w pvals absorb sg wt q in
  (forall h, (1 <= h)%Z -> Forall (fun x => x == 0) (conv_level scale_u scale_w sg wt h)) /\
  (forall level, (0 <= level)%Z -> level_peaks scale_u scale_w sg wt level = []) /\
  hr_breaks r = [] /\ hr_start r = [0%Z] /\ hr_end r = [(n - 1)%Z] /\ hr_size r = [n] /\
  exists m, hr_mean r = [m] /\ m == c.
Proof.
  intros Hc Hw Hne n r.
  split; [intros h Hh; apply (flat_conv_level c); assumption|].
  split; [intros l Hl; apply (flat_level_peaks c); assumption|].
  unfold r, haar_seg.
  rewrite (flat_breakpoints c).
  - apply flat_result; assumption.
  - assumption.
  - assumption.
  - unfold haar_levels. apply Forall_forall. intros l Hl. apply in_map_iff in Hl.
    destruct Hl as [i [<- _]]. unfold Gen.HaarDefaults.haar_start_level. lia.
Qed.

End Flat.
