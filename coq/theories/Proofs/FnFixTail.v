(* C04 source tie of the rest of fix.do_fix, after the two load_adjust_coverages calls [loop ties e3]:

       if len(anti_cnarr):
           cnarr.add(anti_cnarr)
           ref_matched.add(ref_anti)
       log2_key = "log2"
       spread_key = "spread"
       if do_cluster: <choose log2_<k> / spread_<k>>                        (opaque range: its effect are the two keys)
       cnarr.data["log2"] -= ref_matched[log2_key]                         (per row: C04_source_subtract_reference)
       cnarr = apply_weights(cnarr, ref_matched, log2_key, spread_key)
       cnarr.center_all(skip_low=True, diploid_parx_genome=diploid_parx_genome)

   regenerated from the Python source on every run as Gen/FnFixTail.v (fn_do_fix_tail: the id of the returned table, the
   id of the matched reference, the two column keys).  Tables are opaque ids; `.add` and `.center_all` update their object
   in place (`x.m(a)` read as `x = x.m(a)`), apply_weights is a function input.  The subtraction is a column update of the
   table named cnarr between the merge and apply_weights (tools/fnspecs/fix_flow.py checks with `ast` that it stands
   directly before `cnarr = apply_weights(`); in the reading below it is part of what apply_weights sees.

   Here: under EVERY reading of ids as tables of (sample bin, matched reference bin) pairs in which `.add` is gary.add
   (concatenate, sort), apply_weights the model's apply_weights of the table with the reference subtracted (the generated
   per-row subtraction, Proofs/FnFixRows.v py_ref_row) on the columns "log2" / "spread", and `.center_all(skip_low=True)`
   the model's center_all on a weighted table, the generated tail applied to the results of the two
   load_adjust_coverages calls IS Model/Fix.v do_fix_gen: the antitargets are merged exactly when there are any, the
   weights are computed before the final centring (which does not change them), the final centring skips low bins. *)
From Coq Require Import Qabs.
From CNV Require Import Base.Prelude Base.Str Base.QNum Model.Chromsort Gen.Params Gen.FixDefaults Model.Fix
  Proofs.FixWeights Proofs.FnFixRows.
From CNV Require Gen.FnFixTail.

Local Open Scope Z_scope.

(* CopyNumArray.center_all on a table that already carries weights *)
Definition center_w (c : cfg) (skip_low : bool) (w : list (brow * Q)) : list (brow * Q) :=
  match center_sel c skip_low (map fst w) with
  | [] => w
  | sel => let shift := Qred (- cmed (map cl2 sel)) in map (fun p => (badd_log2 shift (fst p), snd p)) w
  end.

Lemma existsb_map_same {A} (f : A -> bool) (g : A -> A) (l : list A) :
  (forall x, f (g x) = f x) -> existsb f (map g l) = existsb f l.
Proof. intro H. induction l as [|x t IH]; [reflexivity|]. cbn. rewrite H, IH. reflexivity. Qed.

Lemma map_filter_map_same {A B} (F : A -> B) (P : A -> bool) (g : A -> A) (l : list A) :
  (forall x, F (g x) = F x) -> (forall x, P (g x) = P x) -> map F (filter P (map g l)) = map F (filter P l).
Proof.
  intros HF HP. induction l as [|x t IH]; [reflexivity|]. cbn. rewrite HP.
  destruct (P x); cbn; rewrite ?HF, IH; reflexivity.
Qed.

(* the weights do not read the sample log2: shifting every log2 leaves every weight as it is *)
Lemma wfun_shift sq vt va s l b : wfun sq vt va (map (badd_log2 s) l) (badd_log2 s b) = wfun sq vt va l b.
Proof.
  unfold wfun. cbv zeta.
  assert (Hp : pooled_ref (map (badd_log2 s) l) = pooled_ref l).
  { unfold pooled_ref. rewrite !existsb_map_same; [reflexivity| |]; intro x; reflexivity. }
  assert (Hm : forall k, class_mean_sz sq k (map (badd_log2 s) l) = class_mean_sz sq k l).
  { intro k. unfold class_mean_sz. f_equal. apply map_filter_map_same; intro x; reflexivity. }
  rewrite Hp, !Hm. reflexivity.
Qed.

Lemma center_w_apply_weights c sq vt va l :
  center_w c true (apply_weights sq vt va l) = apply_weights sq vt va (center_all c true l).
Proof.
  rewrite !apply_weights_eq. unfold center_w, center_all.
  rewrite map_map. cbn [fst]. rewrite map_id.
  destruct (center_sel c true l) as [|b0 sel] eqn:E; [reflexivity|].
  cbv zeta. rewrite !map_map. cbn [fst snd]. apply map_ext. intro b. rewrite wfun_shift. reflexivity.
Qed.

Section Reading.
  Variable c : cfg.
  Variable sq : Z -> Q.
  Variable bmv2 : list Q -> Q.
  Variable tbl : Z -> list brow.              (* a sample table with its matched reference rows *)
  Variable wtbl : Z -> list (brow * Q).       (* ... with the weight column *)
  Variable add_fn : Z -> Z -> Z.
  Variable weights_fn : Z -> Z -> string -> string -> Z.
  Variable center_fn : Z -> bool -> Z -> Z.

  Definition weigh (l : list brow) : list (brow * Q) :=
    apply_weights sq (bmv2 (class_residuals c false l)) (bmv2 (class_residuals c true l)) l.

  Record tail_reading : Prop := {
    rd_add : forall x y, tbl (add_fn x y) = sort_brows (tbl x ++ tbl y);
    (* sample table x and reference table r are the two halves of the same pair table; the log2 column of x has had
       the reference subtracted by the statement before the call *)
    rd_weights : forall x r, tbl x = tbl r ->
      wtbl (weights_fn x r fix_log2_key fix_spread_key) = weigh (map py_ref_row (tbl x));
    rd_center : forall w b, wtbl (center_fn w true b) = center_w c true (wtbl w) }.

  Definition run_tail (cnarr ref anti ref_anti build : Z) (cl2k clsk : string) (rl rr : Q) : Z * Z * string * string :=
    Gen.FnFixTail.fn_do_fix_tail cnarr ref anti ref_anti (Z.of_nat (length (tbl anti))) fix_do_cluster_default build
      cl2k clsk rl rr add_fn weights_fn center_fn.

  Theorem source_do_fix_tail (o : oracles) (target anti : list srow) (ref : list rrow)
      (cnarr_id ref_id anti_id ref_anti_id build : Z) (cl2k clsk : string) (rl rr : Q) :
    tail_reading ->
    load_adjust c ref true (perm_t o) (wing_t o) target = inr (tbl cnarr_id) ->
    load_adjust c ref false (perm_a o) (wing_a o) anti = inr (tbl anti_id) ->
    tbl ref_id = tbl cnarr_id -> tbl ref_anti_id = tbl anti_id ->
    let '(out, _, lk, sk) := run_tail cnarr_id ref_id anti_id ref_anti_id build cl2k clsk rl rr in
    do_fix_gen bmv2 c o sq target anti ref = inr (wtbl out) /\ lk = "log2"%string /\ sk = "spread"%string.
  Proof.
    intros R Ht Ha Er Era. unfold run_tail, Gen.FnFixTail.fn_do_fix_tail. cbv zeta.
    unfold do_fix_gen. rewrite source_subtract_reference, Ht, Ha.
    change fix_do_cluster_default with false. cbv iota.
    destruct (tbl anti_id) as [|a0 arest] eqn:Ea.
    - cbn [length Z.of_nat Z.eqb negb]. split; [|split; reflexivity].
      rewrite (rd_center R), (rd_weights R) by (symmetry; exact Er).
      unfold weigh, fix_post. rewrite center_w_apply_weights. reflexivity.
    - assert (Hn : negb (Z.of_nat (length (a0 :: arest)) =? 0) = true)
        by (cbn [length]; rewrite Nat2Z.inj_succ; apply negb_true_iff, Z.eqb_neq; lia).
      rewrite Hn. split; [|split; reflexivity].
      rewrite (rd_center R), (rd_weights R) by (rewrite !(rd_add R), Er, Era, Ea; reflexivity).
      rewrite (rd_add R), Ea. unfold weigh, fix_post. rewrite center_w_apply_weights. reflexivity.
  Qed.
End Reading.
