(* C05_bins: the pooled reference has exactly the bins of its (equal) inputs, target and
   antitarget blocks concatenated and put in genomic order; files whose bins differ are rejected.
   Also the structure of a loaded block (which values enter each bin's column). *)
From CNV Require Import Base.Prelude Base.Str Base.QNum Model.Chromsort Model.Center Model.Sex
  Model.Reference Proofs.ChromsortLemmas.
Local Open Scope Z_scope.

(* ---- keys ------------------------------------------------------------------------------------- *)
Lemma key_eqb_eq a b : key_eqb a b = true <-> a = b.
Proof.
  destruct a as [[[c1 s1] e1] g1], b as [[[c2 s2] e2] g2]. unfold key_eqb.
  rewrite !andb_true_iff, !String.eqb_eq, !Z.eqb_eq. split.
  - intros (((-> & ->) & ->) & ->). reflexivity.
  - intros H. inversion H. auto.
Qed.

Lemma keys_eqb_eq a b : keys_eqb a b = true <-> a = b.
Proof.
  revert b. induction a as [|x a IH]; intros [|y b]; cbn; try (split; congruence).
  rewrite andb_true_iff, key_eqb_eq, IH. split.
  - intros (-> & ->). reflexivity.
  - intros H. inversion H. auto.
Qed.

(* ---- the first file of a block --------------------------------------------------------------- *)
Definition first_file (files : list sample) : option sample := hd_error (sort_samples files).
Definition block_bins (files : list sample) : list bin :=
  match first_file files with Some f => s_bins f | None => [] end.

Lemma sort_samples_perm files : Permutation files (sort_samples files).
Proof. apply stable_sort_perm. Qed.

Lemma sort_samples_In s files : In s (sort_samples files) <-> In s files.
Proof. apply stable_sort_In. Qed.

(* ---- what load_block returns ------------------------------------------------------------------ *)
Lemma load_block_ok hap build sexes skip files bins logr depths :
  load_block hap build sexes skip files = BlkOk bins logr depths ->
  bins = block_bins files /\
  (bins = [] -> logr = [] /\ depths = []) /\
  (bins <> [] ->
     (forall s, In s files -> keys (s_bins s) = keys bins) /\
     logr = expect_flat hap build bins
              :: map (sample_logr build sexes skip (sex_rows hap build bins)) (sort_samples files) /\
     depths = map s_depth (sort_samples files)).
Proof.
  unfold load_block, block_bins, first_file.
  destruct (sort_samples files) as [|first rest] eqn:Es; [discriminate|]. cbn [hd_error].
  destruct (s_bins first) as [|b0 bs] eqn:Eb.
  - destruct (forallb _ rest); [|discriminate].
    intros H. inversion H; subst. split; [reflexivity|]. split; [auto|congruence].
  - destruct (forallb _ rest) eqn:Ef; [|discriminate].
    intros H. inversion H; subst. split; [reflexivity|]. split; [discriminate|].
    intros _. split; [|split; reflexivity].
    intros s Hs. apply sort_samples_In in Hs. rewrite Es in Hs.
    destruct Hs as [E|Hs]; [subst s; rewrite Eb; reflexivity|].
    rewrite forallb_forall in Ef. specialize (Ef s Hs). apply keys_eqb_eq in Ef.
    symmetry. exact Ef.
Qed.

(* every file of an accepted block has the keys of the block (none, when the first file is empty) *)
Lemma load_block_keys hap build sexes skip files bins logr depths :
  load_block hap build sexes skip files = BlkOk bins logr depths ->
  forall s, In s files -> keys (s_bins s) = keys bins.
Proof.
  intros H. destruct bins as [|b0 bs].
  - revert H. unfold load_block.
    destruct (sort_samples files) as [|first rest] eqn:Es; [discriminate|].
    destruct (s_bins first) as [|b1 bs1] eqn:Eb.
    + destruct (forallb _ rest) eqn:Ef; [|discriminate]. intros _ s Hs.
      apply sort_samples_In in Hs. rewrite Es in Hs. destruct Hs as [E|Hs]; [subst s; now rewrite Eb|].
      rewrite forallb_forall in Ef. specialize (Ef s Hs). destruct (s_bins s); [reflexivity|discriminate].
    + destruct (forallb _ rest); discriminate.
  - destruct (load_block_ok _ _ _ _ _ _ _ _ H) as (_ & _ & Hk). destruct Hk as (Hk & _); [discriminate|]. exact Hk.
Qed.

Lemma load_block_reject hap build sexes skip files f s :
  first_file files = Some f ->
  In s files -> keys (s_bins s) <> keys (s_bins f) ->
  load_block hap build sexes skip files = BlkErr "RuntimeError".
Proof.
  unfold first_file, load_block. intros Hf Hs Hk.
  destruct (sort_samples files) as [|first rest] eqn:Es; [discriminate|].
  cbn in Hf. inversion Hf; subst first.
  apply sort_samples_In in Hs. rewrite Es in Hs.
  destruct (s_bins f) as [|b0 bs] eqn:Eb.
  - destruct (forallb _ rest) eqn:Ef; [|reflexivity].
    exfalso. apply Hk. destruct Hs as [E|Hs]; [subst s; now rewrite Eb|].
    rewrite forallb_forall in Ef. specialize (Ef s Hs). destruct (s_bins s); [reflexivity|discriminate].
  - destruct (forallb _ rest) eqn:Ef; [|reflexivity].
    exfalso. apply Hk.
    destruct Hs as [E|Hs]; [subst s; rewrite Eb; reflexivity|].
    rewrite forallb_forall in Ef. specialize (Ef s Hs). apply keys_eqb_eq in Ef. symmetry. exact Ef.
Qed.

(* ---- columns ------------------------------------------------------------------------------------ *)
Lemma columns_length m n : length (columns m n) = n.
Proof. unfold columns. now rewrite map_length, seq_length. Qed.

Lemma combine_fst {A B} (l : list A) (l' : list B) :
  length l = length l' -> map fst (combine l l') = l.
Proof.
  revert l'. induction l as [|x l IH]; intros [|y l'] H; cbn in *; try congruence.
  now rewrite IH by lia.
Qed.

Definition bc_bin (bc : bincol) : bin := fst (fst bc).
Definition bc_col (bc : bincol) : list Q := snd (fst bc).
Definition bc_dcol (bc : bincol) : list Q := snd bc.

Lemma block_cols_bins bins logr depths : map bc_bin (block_cols bins logr depths) = bins.
Proof.
  assert (E : forall l : list bincol, map bc_bin l = map fst (map fst l))
    by (intros l; rewrite map_map; reflexivity).
  rewrite E. unfold block_cols. cbv zeta.
  rewrite combine_fst by (rewrite combine_length, !columns_length; lia).
  apply combine_fst. now rewrite columns_length.
Qed.

Lemma nth_combine {A B} (l : list A) (l' : list B) i a b :
  length l = length l' -> nth i (combine l l') (a, b) = (nth i l a, nth i l' b).
Proof.
  revert l' i. induction l as [|x l IH]; intros [|y l'] [|i] H; cbn in *; try congruence; auto.
Qed.

Lemma nth_columns m n i : (i < n)%nat -> nth i (columns m n) [] = column m i.
Proof.
  intros Hi. unfold columns.
  rewrite (nth_indep _ [] (column m 0)) by (rewrite map_length, seq_length; exact Hi).
  rewrite (map_nth (column m) (seq 0 n) 0%nat i). now rewrite seq_nth.
Qed.

(* the i-th bin of a block with its two columns *)
Lemma block_cols_nth bins logr depths i d :
  (i < length bins)%nat ->
  nth i (block_cols bins logr depths) (d, [], []) = (nth i bins d, column logr i, column depths i).
Proof.
  intros Hi. unfold block_cols, bincol. cbv zeta.
  rewrite nth_combine by (rewrite combine_length, !columns_length; lia).
  rewrite nth_combine by (now rewrite columns_length).
  now rewrite !nth_columns.
Qed.

Lemma block_cols_length bins logr depths : length (block_cols bins logr depths) = length bins.
Proof. unfold block_cols, bincol. cbv zeta. rewrite !combine_length, !columns_length. lia. Qed.

Lemma In_block_cols bins logr depths bc :
  In bc (block_cols bins logr depths) ->
  exists i, (i < length bins)%nat /\
    bc = (nth i bins (bc_bin bc), column logr i, column depths i).
Proof.
  intros H. destruct (In_nth _ _ (bc_bin bc, [], []) H) as (i & Hi & E).
  rewrite block_cols_length in Hi. exists i. split; [exact Hi|].
  rewrite block_cols_nth in E by exact Hi. now rewrite E.
Qed.

(* ---- the rows of the pooled table ----------------------------------------------------------------- *)
Definition key_proj (k : key) : string * Z * Z := let '(c, s, e, _) := k in (c, s, e).

Lemma consensus_key bc : ref_key (consensus bc) = key_of (bc_bin bc).
Proof. destruct bc as [[b col] dcol]. reflexivity. Qed.

Lemma finish_keys cols rows :
  finish cols = ROk rows ->
  rows = sort_regions ref_proj (map consensus cols) /\
  map ref_key rows = map key_of (sort_regions bin_proj (map bc_bin cols)).
Proof.
  unfold finish. intros H.
  assert (Hr : rows = sort_regions ref_proj (map consensus cols)).
  { destruct cols as [|c cols']; [discriminate|]. injection H as <-. reflexivity. }
  split; [exact Hr|]. rewrite Hr.
  rewrite (sort_regions_map ref_key ref_proj key_proj) by (intros []; reflexivity).
  rewrite (sort_regions_map key_of bin_proj key_proj) by (intros []; reflexivity).
  rewrite !map_map. f_equal. apply map_ext. intros bc. apply consensus_key.
Qed.

(* the column lists of the two blocks, as the model pools them *)
Definition pool_cols (hap : bool) (build : option parb) (sexes : list (string * bool))
  (targets antis : list sample) : list bincol :=
  let blk skip files :=
    match load_block hap build sexes skip files with
    | BlkOk b l d => block_cols b l d
    | BlkErr _ => []
    end in
  match antis with [] => blk true targets | _ => blk true targets ++ blk false antis end.

Definition anti_bins (antis : list sample) : list bin :=
  match antis with [] => [] | _ => block_bins antis end.

Lemma pool_ok hap build sexes targets antis rows :
  pool hap build sexes targets antis = ROk rows ->
  rows = sort_regions ref_proj (map consensus (pool_cols hap build sexes targets antis)) /\
  map bc_bin (pool_cols hap build sexes targets antis) = block_bins targets ++ anti_bins antis /\
  (exists tb tl td, load_block hap build sexes true targets = BlkOk tb tl td) /\
  (antis <> [] -> exists ab al ad, load_block hap build sexes false antis = BlkOk ab al ad).
Proof.
  unfold pool, pool_cols, anti_bins. destruct antis as [|a antis'].
  - destruct (load_block hap build sexes true targets) as [m|tb tl td] eqn:Et; [discriminate|].
    intros H. apply finish_keys in H. destruct H as (H & _).
    split; [exact H|]. split.
    + rewrite block_cols_bins, app_nil_r. now destruct (load_block_ok _ _ _ _ _ _ _ _ Et).
    + split; [eauto|congruence].
  - destruct (negb _); [discriminate|].
    destruct (load_block hap build sexes true targets) as [m|tb tl td] eqn:Et; [discriminate|].
    destruct (load_block hap build sexes false (a :: antis')) as [m|ab al ad] eqn:Ea; [discriminate|].
    intros H. apply finish_keys in H. destruct H as (H & _).
    split; [exact H|]. split.
    + rewrite map_app, !block_cols_bins.
      destruct (load_block_ok _ _ _ _ _ _ _ _ Et) as (-> & _).
      destruct (load_block_ok _ _ _ _ _ _ _ _ Ea) as (-> & _). reflexivity.
    + split; eauto.
Qed.

(* C05_bins, acceptance: the keys, and every file agrees with them *)
Theorem pool_bins hap build sexes targets antis rows :
  pool hap build sexes targets antis = ROk rows ->
  map ref_key rows = map key_of (sort_regions bin_proj (block_bins targets ++ anti_bins antis)) /\
  (forall s, In s targets -> keys (s_bins s) = keys (block_bins targets)) /\
  (forall s, In s antis -> keys (s_bins s) = keys (anti_bins antis)).
Proof.
  intros H. destruct (pool_ok _ _ _ _ _ _ H) as (Hr & Hb & (tb & tl & td & Et) & Ha).
  split.
  - rewrite Hr.
    rewrite (sort_regions_map ref_key ref_proj key_proj) by (intros []; reflexivity).
    rewrite (sort_regions_map key_of bin_proj key_proj) by (intros []; reflexivity).
    rewrite <- Hb, !map_map. f_equal. apply map_ext. intros bc. apply consensus_key.
  - split.
    + intros s Hs. pose proof (load_block_keys _ _ _ _ _ _ _ _ Et s Hs) as Hk.
      destruct (load_block_ok _ _ _ _ _ _ _ _ Et) as (<- & _). exact Hk.
    + unfold anti_bins. destruct antis as [|a antis']; [intros s []|].
      intros s Hs. destruct Ha as (ab & al & ad & Ea); [discriminate|].
      pose proof (load_block_keys _ _ _ _ _ _ _ _ Ea s Hs) as Hk.
      destruct (load_block_ok _ _ _ _ _ _ _ _ Ea) as (<- & _). exact Hk.
Qed.

(* the pooled keys are a sorted rearrangement of the input keys *)
Lemma pool_bins_perm_sorted hap build sexes targets antis rows :
  pool hap build sexes targets antis = ROk rows ->
  Permutation (map key_of (block_bins targets ++ anti_bins antis)) (map ref_key rows) /\
  regions_sorted key_proj (map ref_key rows).
Proof.
  intros H. destruct (pool_bins _ _ _ _ _ _ H) as (Hk & _). rewrite Hk.
  rewrite (sort_regions_map key_of bin_proj key_proj) by (intros []; reflexivity).
  split; [apply sort_regions_perm | apply sort_regions_sorted].
Qed.

(* C05_bins, rejection *)
Theorem pool_rejects_targets hap build sexes targets antis f s :
  first_file targets = Some f ->
  In s targets -> keys (s_bins s) <> keys (s_bins f) ->
  exists m, pool hap build sexes targets antis = RErr m.
Proof.
  intros Hf Hs Hk. unfold pool.
  rewrite (load_block_reject hap build sexes true targets f s Hf Hs Hk).
  destruct antis; [eauto|]. destruct (negb _); eauto.
Qed.

Theorem pool_rejects_antitargets hap build sexes targets antis f s :
  first_file antis = Some f ->
  In s antis -> keys (s_bins s) <> keys (s_bins f) ->
  exists m, pool hap build sexes targets antis = RErr m.
Proof.
  intros Hf Hs Hk. unfold pool.
  destruct antis as [|a antis']; [destruct Hs|].
  destruct (negb _); [eauto|].
  destruct (load_block hap build sexes true targets); [eauto|].
  rewrite (load_block_reject hap build sexes false (a :: antis') f s Hf Hs Hk). eauto.
Qed.

Theorem pool_rejects_unequal_counts hap build sexes targets antis :
  antis <> [] -> length targets <> length antis ->
  pool hap build sexes targets antis = RErr "ValueError".
Proof.
  intros Ha Hl. unfold pool. destruct antis as [|a antis']; [congruence|].
  destruct (Nat.eqb_spec (length targets) (length (a :: antis'))); [congruence|]. reflexivity.
Qed.
