(* C11: SegmentByPeaks -- for ANY breakpoint list the value written to a bin is the (weighted)
   mean of exactly the bins of its segment; the rows of the result table carry these means. *)
From Coq Require Import QArith.Qabs.
From CNV Require Import Base.Prelude Model.Haar Spec.Haar Proofs.HaarConv Proofs.HaarFlat
  Proofs.HaarUnify Proofs.HaarPeaks.
From Coq Require Import Lqa.

Local Open Scope Q_scope.

(* ---------- slices as window sums ---------- *)

Lemma wsum_shift_by f s a m : wsum f (a + s)%Z m == wsum (fun j => f (j + s)%Z) a m.
Proof.
  revert a; induction m as [|m IH]; intros a; cbn [wsum]; [reflexivity|].
  replace (a + s + 1)%Z with (a + 1 + s)%Z by lia. rewrite IH. reflexivity.
Qed.

Lemma nth_skipn_add {A} (l : list A) s j d : nth j (skipn s l) d = nth (s + j) l d.
Proof.
  revert l; induction s as [|s IH]; intros l; [reflexivity|].
  destruct l as [|x t]; [destruct j; reflexivity|]. cbn [skipn plus nth]. apply IH.
Qed.

Lemma nth_firstn_lt {A} (l : list A) m j d : (j < m)%nat -> nth j (firstn m l) d = nth j l d.
Proof.
  revert l j; induction m as [|m IH]; intros l j H; [lia|].
  destruct l as [|x t]; [destruct j; reflexivity|]. destruct j as [|j]; [reflexivity|].
  cbn [firstn nth]. apply IH. lia.
Qed.

Lemma slice_length {A} (l : list A) s e :
  (0 <= s <= e)%Z -> (e <= Z.of_nat (length l))%Z -> length (slice l s e) = Z.to_nat (e - s).
Proof.
  intros H1 H2. unfold slice. rewrite firstn_length, skipn_length. lia.
Qed.

Lemma nth_slice (l : list Q) s e j :
  (0 <= s)%Z -> (j < Z.to_nat (e - s))%nat -> nth j (slice l s e) 0 = nth (Z.to_nat s + j) l 0.
Proof.
  intros Hs Hj. unfold slice. rewrite nth_firstn_lt by exact Hj. apply nth_skipn_add.
Qed.

Lemma qsum_wsum l : qsum l == wsum (at_ l) 0%Z (length l).
Proof.
  rewrite <- (firstn_all l) at 1. rewrite qsum_firstn_wsum by lia. reflexivity.
Qed.

Lemma qsum_slice l s e :
  (0 <= s <= e)%Z -> (e <= Z.of_nat (length l))%Z ->
  qsum (slice l s e) == wsum (at_ l) s (Z.to_nat (e - s)).
Proof.
  intros H1 H2. rewrite qsum_wsum, slice_length by assumption.
  transitivity (wsum (fun j => at_ l (j + s)%Z) 0%Z (Z.to_nat (e - s))).
  - apply wsum_ext. intros j Hj. unfold at_. rewrite nth_slice by lia.
    replace (Z.to_nat (j + s)) with (Z.to_nat s + Z.to_nat j)%nat by lia. reflexivity.
  - symmetry. apply (wsum_shift_by (at_ l) s 0%Z).
Qed.

Lemma qsum_qmul2_slice d w s e :
  (0 <= s <= e)%Z -> (e <= Z.of_nat (length d))%Z -> (e <= Z.of_nat (length w))%Z ->
  qsum (qmul2 (slice d s e) (slice w s e)) == wsum (fun j => at_ d j * at_ w j) s (Z.to_nat (e - s)).
Proof.
  intros H1 H2 H3. rewrite qsum_wsum.
  rewrite qmul2_length by (rewrite !slice_length by assumption; reflexivity).
  rewrite slice_length by assumption.
  transitivity (wsum (fun j => at_ d (j + s)%Z * at_ w (j + s)%Z) 0%Z (Z.to_nat (e - s))).
  - apply wsum_ext. intros j Hj. unfold at_. rewrite nth_qmul2. rewrite !nth_slice by lia.
    replace (Z.to_nat (j + s)) with (Z.to_nat s + Z.to_nat j)%nat by lia. reflexivity.
  - symmetry. apply (wsum_shift_by (fun j => at_ d j * at_ w j) s 0%Z).
Qed.

(* ---------- seg_mean is the (weighted) mean of exactly the bins s .. e-1 ---------- *)

Lemma Qltb_iff x y : Qltb x y = true <-> x < y.
Proof.
  split; [apply Qltb_true|]. intros H. unfold Qltb. apply negb_true_iff.
  destruct (Qle_bool y x) eqn:E; [|reflexivity]. apply Qle_bool_iff in E. lra.
Qed.

Lemma seg_mean_spec d wt s e :
  (0 <= s < e)%Z -> (e <= Z.of_nat (length d))%Z -> wt_len_ok d wt ->
  is_segment_mean d wt s e (seg_mean d wt s e).
Proof.
  intros H1 H2 Hw. unfold seg_mean, is_segment_mean.
  assert (Hplain : Qred (qsum (slice d s e) / inject_Z (Zlength_nat (slice d s e))) == range_mean d s e).
  { rewrite Qred_correct. unfold range_mean, Zlength_nat. rewrite slice_length by lia.
    rewrite qsum_slice by lia. rewrite Z2Nat.id by lia. reflexivity. }
  destruct wt as [w|]; [|exact Hplain]. cbn in Hw.
  assert (Hws : qsum (slice w s e) == range_weight w s e).
  { unfold range_weight. apply qsum_slice; lia. }
  destruct (Qltb 0 (qsum (slice w s e))) eqn:E.
  - apply Qltb_iff in E. split; [|intros C; exfalso; apply C; rewrite <- Hws; exact E].
    intros _. rewrite Qred_correct. unfold range_wmean. rewrite <- Hws.
    rewrite qsum_qmul2_slice by lia. reflexivity.
  - split; [|intros _; exact Hplain].
    intros C. exfalso. rewrite <- Hws in C. apply Qltb_iff in C. congruence.
Qed.

(* ---------- fill_from / the fold of SegmentByPeaks ---------- *)

Lemma fill_from_length segs i s e v : length (fill_from segs i s e v) = length segs.
Proof. revert i; induction segs as [|x t IH]; intros i; cbn [fill_from length]; [reflexivity|]. f_equal. apply IH. Qed.

Lemma fill_from_nth segs i0 s e v j :
  (j < length segs)%nat ->
  nth j (fill_from segs i0 s e v) 0 =
  if ((s <=? i0 + Z.of_nat j) && (i0 + Z.of_nat j <? e))%Z then v else nth j segs 0.
Proof.
  revert i0 j; induction segs as [|x t IH]; intros i0 j Hj; [cbn in Hj; lia|].
  cbn [fill_from]. destruct j as [|j]; cbn [nth].
  - rewrite Z.add_0_r. reflexivity.
  - cbn [length] in Hj. rewrite IH by lia.
    replace (i0 + 1 + Z.of_nat j)%Z with (i0 + Z.of_nat (S j))%Z by lia. reflexivity.
Qed.

Definition sbp_step (data : list Q) (wt : option (list Q)) (segs : list Q) (se : Z * Z) : list Q :=
  fill_from segs 0 (fst se) (snd se) (seg_mean data wt (fst se) (snd se)).

Lemma sbp_fold_length data wt B : forall init, length (fold_left (sbp_step data wt) B init) = length init.
Proof.
  induction B as [|se B IH]; intros init; cbn [fold_left]; [reflexivity|].
  rewrite IH. unfold sbp_step. apply fill_from_length.
Qed.

Lemma sbp_step_nth data wt init s0 e0 i :
  (0 <= i < Z.of_nat (length init))%Z ->
  qnth (sbp_step data wt init (s0, e0)) i =
  if ((s0 <=? i) && (i <? e0))%Z then seg_mean data wt s0 e0 else qnth init i.
Proof.
  intros Hi. unfold sbp_step, qnth. cbn [fst snd]. rewrite fill_from_nth by lia.
  rewrite Z2Nat.id by lia. rewrite Z.add_0_l. reflexivity.
Qed.

Lemma sbp_fold_untouched data wt B : forall init i,
  (0 <= i < Z.of_nat (length init))%Z ->
  (forall s e, In (s, e) B -> ~ (s <= i < e)%Z) ->
  qnth (fold_left (sbp_step data wt) B init) i = qnth init i.
Proof.
  induction B as [|[s0 e0] B IH]; intros init i Hi Hno; cbn [fold_left]; [reflexivity|].
  rewrite IH.
  - rewrite sbp_step_nth by exact Hi.
    specialize (Hno s0 e0 (or_introl eq_refl)).
    destruct ((s0 <=? i) && (i <? e0))%Z eqn:E; [lia|reflexivity].
  - unfold sbp_step. rewrite fill_from_length. exact Hi.
  - intros s e Hin. apply Hno. right. exact Hin.
Qed.

Lemma pairZ_eq_dec (x y : Z * Z) : {x = y} + {x <> y}.
Proof. decide equality; apply Z.eq_dec. Qed.

Lemma sbp_fold_nth data wt B : forall init i s e,
  (0 <= i < Z.of_nat (length init))%Z ->
  In (s, e) B -> (s <= i < e)%Z ->
  (forall s' e', In (s', e') B -> (s' <= i < e')%Z -> (s', e') = (s, e)) ->
  qnth (fold_left (sbp_step data wt) B init) i = seg_mean data wt s e.
Proof.
  induction B as [|[s0 e0] B IH]; intros init i s e Hi Hin Hse Huniq; [destruct Hin|].
  cbn [fold_left].
  assert (Hlen : (0 <= i < Z.of_nat (length (sbp_step data wt init (s0, e0))))%Z).
  { unfold sbp_step. rewrite fill_from_length. exact Hi. }
  destruct (in_dec pairZ_eq_dec (s, e) B) as [HB|HB].
  - apply IH; try assumption. intros s' e' H1 H2. apply Huniq; [right; exact H1|exact H2].
  - destruct Hin as [Heq|Hin]; [|contradiction]. injection Heq as -> ->.
    rewrite sbp_fold_untouched.
    + rewrite sbp_step_nth by exact Hi.
      destruct ((s <=? i) && (i <? e))%Z eqn:E; [reflexivity|lia].
    + exact Hlen.
    + intros s' e' H1 H2. apply HB. rewrite <- (Huniq s' e' (or_intror H1) H2). exact H1.
Qed.

(* ---------- the segments cut by a breakpoint list ---------- *)

Lemma seg_bounds_eq prev peaks n : seg_bounds prev peaks n = segments_of prev peaks n.
Proof. revert prev; induction peaks as [|p t IH]; intros prev; cbn [seg_bounds segments_of]; [reflexivity|]. rewrite IH. reflexivity. Qed.

(* every segment is non-empty and inside prev..n; a position belongs to at most one *)
Lemma segments_of_range n : forall bps prev,
  ssorted bps -> (forall x, In x bps -> (prev < x < n)%Z) -> (prev < n)%Z ->
  forall s e, In (s, e) (segments_of prev bps n) -> (prev <= s < e)%Z /\ (e <= n)%Z.
Proof.
  induction bps as [|p t IH]; intros prev Hs Hr Hn s e Hin.
  - cbn in Hin. destruct Hin as [[= <- <-]|[]]. lia.
  - apply ssorted_inv in Hs. destruct Hs as [Hs Hp].
    pose proof (Hr p (or_introl eq_refl)) as Hp0.
    cbn [segments_of] in Hin. destruct Hin as [[= <- <-]|Hin]; [lia|].
    destruct (IH p Hs) with (s := s) (e := e) as [A B]; try assumption; try lia.
    intros x Hx. specialize (Hp x Hx). specialize (Hr x (or_intror Hx)). lia.
Qed.

Lemma segments_of_unique n : forall bps prev,
  ssorted bps -> (forall x, In x bps -> (prev < x < n)%Z) -> (prev < n)%Z ->
  forall i s e s' e', In (s, e) (segments_of prev bps n) -> In (s', e') (segments_of prev bps n) ->
    (s <= i < e)%Z -> (s' <= i < e')%Z -> (s', e') = (s, e).
Proof.
  induction bps as [|p t IH]; intros prev Hs Hr Hn i s e s' e' H1 H2 Hi Hi'.
  - cbn in H1, H2. destruct H1 as [[= <- <-]|[]]. destruct H2 as [[= <- <-]|[]]. reflexivity.
  - apply ssorted_inv in Hs. destruct Hs as [Hs Hp].
    pose proof (Hr p (or_introl eq_refl)) as Hp0.
    assert (Hr' : forall x, In x t -> (p < x < n)%Z).
    { intros x Hx. specialize (Hp x Hx). specialize (Hr x (or_intror Hx)). lia. }
    cbn [segments_of] in H1, H2.
    destruct H1 as [[= <- <-]|H1], H2 as [[= <- <-]|H2].
    + reflexivity.
    + exfalso. destruct (segments_of_range n t p Hs Hr' ltac:(lia) s' e' H2). lia.
    + exfalso. destruct (segments_of_range n t p Hs Hr' ltac:(lia) s e H1). lia.
    + apply (IH p Hs Hr' ltac:(lia) i); assumption.
Qed.

(* every position prev..n-1 lies in some segment *)
Lemma segments_of_cover n : forall bps prev,
  (forall x, In x bps -> (prev < x < n)%Z) -> ssorted bps ->
  forall i, (prev <= i < n)%Z -> exists s e, In (s, e) (segments_of prev bps n) /\ (s <= i < e)%Z.
Proof.
  induction bps as [|p t IH]; intros prev Hr Hs i Hi.
  - exists prev, n. split; [left; reflexivity|lia].
  - apply ssorted_inv in Hs. destruct Hs as [Hs Hp].
    destruct (Z_lt_le_dec i p) as [L|L].
    + exists prev, p. split; [left; reflexivity|lia].
    + assert (Hr' : forall x, In x t -> (p < x < n)%Z).
      { intros x Hx. specialize (Hp x Hx). specialize (Hr x (or_intror Hx)). lia. }
      destruct (IH p Hr' Hs i ltac:(lia)) as [s [e [A B]]].
      exists s, e. split; [right; exact A|exact B].
Qed.

(* ---------- SegmentByPeaks, any breakpoints ---------- *)

Lemma segment_by_peaks_fold data peaks wt :
  segment_by_peaks data peaks wt =
  fold_left (sbp_step data wt) (segments_of 0 peaks (Zlength_nat data)) (map (fun _ => 0) data).
Proof. unfold segment_by_peaks. rewrite seg_bounds_eq. reflexivity. Qed.

Lemma segment_by_peaks_length data peaks wt : length (segment_by_peaks data peaks wt) = length data.
Proof. rewrite segment_by_peaks_fold, sbp_fold_length. apply map_length. Qed.

Lemma Zlength_pos {A} (l : list A) : l <> [] -> (0 < Zlength_nat l)%Z.
Proof. intros H. unfold Zlength_nat. destruct l; [congruence|cbn [length]; lia]. Qed.

Lemma segment_by_peaks_nth data peaks wt s e i :
  data <> [] -> breaks_in (Zlength_nat data) peaks ->
  In (s, e) (segments_of 0 peaks (Zlength_nat data)) -> (s <= i < e)%Z ->
  qnth (segment_by_peaks data peaks wt) i = seg_mean data wt s e.
Proof.
  intros Hne [Hs Hr] Hin Hi. rewrite segment_by_peaks_fold.
  pose proof (Zlength_pos data Hne) as Hn.
  destruct (segments_of_range _ peaks 0 Hs Hr Hn s e Hin) as [A B].
  apply sbp_fold_nth; try assumption.
  - rewrite map_length. unfold Zlength_nat in *. lia.
  - intros s' e' H1 H2. eapply segments_of_unique; try eassumption.
Qed.

(* the property-level statement: the segments tile 0..n, and every bin of a segment carries the
   segment's own (weighted) mean *)
Lemma segment_by_peaks_means data peaks wt :
  data <> [] -> breaks_in (Zlength_nat data) peaks -> wt_len_ok data wt ->
  let n := Zlength_nat data in
  length (segment_by_peaks data peaks wt) = length data /\
  (forall i, (0 <= i < n)%Z -> exists s e, In (s, e) (segments_of 0 peaks n) /\ (s <= i < e)%Z) /\
  (forall s e, In (s, e) (segments_of 0 peaks n) ->
     (0 <= s < e)%Z /\ (e <= n)%Z /\
     exists m, is_segment_mean data wt s e m /\
               forall i, (s <= i < e)%Z -> qnth (segment_by_peaks data peaks wt) i = m).
Proof.
  intros Hne Hb Hw n. split; [apply segment_by_peaks_length|]. split.
  - intros i Hi. destruct Hb as [Hs Hr]. apply segments_of_cover; assumption.
  - intros s e Hin.
    pose proof (Zlength_pos data Hne) as Hn. fold n in Hn.
    destruct Hb as [Hs Hr].
    destruct (segments_of_range n peaks 0 Hs Hr Hn s e Hin) as [A B].
    split; [exact A|]. split; [exact B|].
    exists (seg_mean data wt s e). split.
    + apply seg_mean_spec; [exact A|exact B|exact Hw].
    + intros i Hi. apply segment_by_peaks_nth; try assumption. split; assumption.
Qed.

(* ---------- the rows of the result table ---------- *)

Lemma rows_gen data wt segs_arr n : forall bps prev,
  (forall s e, In (s, e) (segments_of prev bps n) ->
     is_segment_mean data wt s e (qnth segs_arr s)) ->
  rows_ok data wt (segments_of prev bps n) (prev :: bps) (map (fun e => e - 1)%Z (bps ++ [n]))
    (map (fun se => snd se - fst se)%Z (combine (prev :: bps) (bps ++ [n])))
    (map (qnth segs_arr) (prev :: bps)).
Proof.
  induction bps as [|p t IH]; intros prev H.
  - cbn. repeat split. apply H. left; reflexivity.
  - cbn [segments_of app map combine rows_ok fst snd].
    split; [reflexivity|]. split; [reflexivity|]. split; [reflexivity|].
    split; [apply H; left; reflexivity|].
    apply IH. intros s e Hin. apply H. right. exact Hin.
Qed.

Lemma haar_result_rows data wt bps :
  data <> [] -> breaks_in (Zlength_nat data) bps -> wt_len_ok data wt ->
  let r := haar_result_of data wt bps in
  rows_ok data wt (segments_of 0 bps (Zlength_nat data)) (hr_start r) (hr_end r) (hr_size r) (hr_mean r).
Proof.
  intros Hne Hb Hw r. unfold r, haar_result_of. cbn [hr_start hr_end hr_size hr_mean].
  apply rows_gen. intros s e Hin.
  pose proof (Zlength_pos data Hne) as Hn.
  destruct Hb as [Hs Hr].
  destruct (segments_of_range _ bps 0 Hs Hr Hn s e Hin) as [A B].
  rewrite (segment_by_peaks_nth data bps wt s e s Hne (conj Hs Hr) Hin ltac:(lia)).
  apply seg_mean_spec; [exact A|exact B|exact Hw].
Qed.

(* with haar_seg's own breakpoints (any oracle values) *)
Section Table.
Variable scale_u scale_w : Z -> Q.
Variable pvals : Z -> list Q.
Variable absorb : Z -> bool.

Lemma haar_seg_rows sg wt q :
  sg <> [] -> wt_len_ok sg wt ->
  let r := haar_seg scale_u scale_w pvals absorb sg wt q in
  breaks_in (Zlength_nat sg) (hr_breaks r) /\
  rows_ok sg wt (segments_of 0 (hr_breaks r) (Zlength_nat sg)) (hr_start r) (hr_end r) (hr_size r) (hr_mean r).
Proof.
  intros Hne Hw r.
  destruct (breakpoints_ok scale_u scale_w pvals absorb haar_levels sg wt q) as [S R].
  assert (Hb : breaks_in (Zlength_nat sg) (hr_breaks r)).
  { split; [exact S|]. intros x Hx. specialize (R x Hx). lia. }
  split; [exact Hb|].
  unfold r, haar_seg in *. cbn [hr_breaks haar_result_of] in Hb.
  apply haar_result_rows; assumption.
Qed.

End Table.
