(* C07 loop tie of intersect.iter_slices: ONE ITERATION of

       for slc, _s, _e in idx_ranges(src_rows, bin_rows.start, bin_rows.end, mode):
           indices = src_rows.index[slc].values
           if keep_empty or len(indices):
               yield indices

   regenerated from the Python source on every run as Gen/FnRangesSlices.v (fn_slices_step: the label
   arrays the iteration yields -- one or none; `src_rows.index[slc].values`, the labels of the selected
   rows, is an opaque integer list).  Here: the filter of Model/Ranges.v iter_slices
   (`match sub with [] => keep_empty | _ => true`), seen on the labels it yields (iter_slice_labels),
   IS the generated iteration, selection by selection. *)
From CNV Require Import Base.Prelude Model.Ranges.
From CNV Require Gen.FnRangesSlices.

Local Open Scope Z_scope.

Lemma source_slices_step (keep_empty : bool) (labels : list Z) :
  FnRangesSlices.fn_slices_step keep_empty labels =
  if keep_empty || negb (Z.of_nat (length labels) =? 0) then [labels] else [].
Proof. reflexivity. Qed.

Lemma source_slices_one (keep_empty : bool) (sub : list row) :
  FnRangesSlices.fn_slices_step keep_empty (map r_id sub) =
  if (match sub with [] => keep_empty | _ => true end) then [map r_id sub] else [].
Proof.
  rewrite source_slices_step. destruct sub as [|r t].
  - cbn [map length Z.of_nat Z.eqb negb]. rewrite Bool.orb_false_r. reflexivity.
  - replace (negb (Z.of_nat (length (map r_id (r :: t))) =? 0)) with true by (cbn [map length]; lia).
    rewrite Bool.orb_true_r. reflexivity.
Qed.

Theorem source_slices (keep_empty : bool) (subs : list (list row)) :
  map (map r_id) (filter (fun sub => match sub with [] => keep_empty | _ => true end) subs) =
  flat_map (fun sub => FnRangesSlices.fn_slices_step keep_empty (map r_id sub)) subs.
Proof.
  induction subs as [|sub t IH]; [reflexivity|].
  cbn [filter flat_map]. rewrite source_slices_one.
  destruct (match sub with [] => keep_empty | _ => true end); cbn [map app]; rewrite IH; reflexivity.
Qed.

(* one shared chromosome of iter_slices: the labels yielded are the generated iterations over the
   selections idx_ranges makes *)
Theorem source_slices_chrom (t : list row) (starts ends : option (list Z)) (m : imode) (keep_empty : bool) :
  map (map r_id)
      (filter (fun sub => match sub with [] => keep_empty | _ => true end)
              (map (fun '(s, _, _) => apply_sel s t) (idx_ranges t starts ends m))) =
  flat_map (fun '(s, _, _) => FnRangesSlices.fn_slices_step keep_empty (map r_id (apply_sel s t)))
           (idx_ranges t starts ends m).
Proof.
  rewrite source_slices, flat_map_concat_map, map_map, <- flat_map_concat_map.
  apply flat_map_ext. intros [[s sv] ev]. reflexivity.
Qed.
