(* Local lemmas for C18: insertion sort (permutation, sortedness), filters under
   permutation, the reduced rational operations, median bounds. *)
From CNV Require Import Base.Prelude Model.Vcf Model.VBaf.
From Coq Require Import Qabs Lqa.

(* ---- insertion sort ----------------------------------------------------- *)

Section Isort.
Context {A : Type} (le : A -> A -> bool).

Lemma insert_sorted_perm x l : Permutation (insert_sorted le x l) (x :: l).
Proof.
  induction l as [|y t IH]; cbn [insert_sorted].
  - apply Permutation_refl.
  - destruct (le x y).
    + apply Permutation_refl.
    + eapply Permutation_trans; [apply perm_skip, IH | apply perm_swap].
Qed.

Lemma isort_perm l : Permutation (isort le l) l.
Proof.
  induction l as [|x t IH]; cbn [isort fold_right].
  - apply Permutation_refl.
  - eapply Permutation_trans; [apply insert_sorted_perm | apply perm_skip, IH].
Qed.

Lemma isort_length l : length (isort le l) = length l.
Proof. apply Permutation_length, isort_perm. Qed.

Hypothesis le_total : forall a b, le a b = true \/ le b a = true.

Definition leP (a b : A) : Prop := le a b = true.

Lemma insert_sorted_sorted x l : Sorted leP l -> Sorted leP (insert_sorted le x l).
Proof.
  induction l as [|y t IH]; intros Hs; cbn [insert_sorted].
  - constructor; constructor.
  - destruct (le x y) eqn:E.
    + constructor; [exact Hs | constructor; exact E].
    + inversion Hs as [|? ? Hst Hhd]; subst.
      constructor; [apply IH, Hst|].
      destruct t as [|z t']; cbn [insert_sorted].
      * constructor. destruct (le_total x y) as [H|H]; [congruence | exact H].
      * destruct (le x z).
        -- constructor. destruct (le_total x y) as [H|H]; [congruence | exact H].
        -- inversion Hhd; subst. constructor. assumption.
Qed.

Lemma isort_sorted l : Sorted leP (isort le l).
Proof.
  induction l as [|x t IH]; cbn [isort fold_right].
  - constructor.
  - apply insert_sorted_sorted, IH.
Qed.
End Isort.

(* ---- filters and permutations ------------------------------------------- *)

Lemma filter_true {A} (l : list A) : filter (fun _ => true) l = l.
Proof. induction l as [|x t IH]; cbn; [reflexivity | now rewrite IH]. Qed.

Lemma filter_filter {A} (f g : A -> bool) l :
  filter f (filter g l) = filter (fun x => g x && f x) l.
Proof.
  induction l as [|x t IH]; cbn; [reflexivity|].
  destruct (g x); cbn; [destruct (f x); now rewrite IH | exact IH].
Qed.

Lemma filter_ext_in' {A} (f g : A -> bool) l :
  (forall x, In x l -> f x = g x) -> filter f l = filter g l.
Proof.
  induction l as [|x t IH]; intros H; cbn; [reflexivity|].
  rewrite (H x (or_introl eq_refl)), IH; [reflexivity|].
  intros y Hy; apply H; now right.
Qed.

Lemma perm_filter {A} (f : A -> bool) l l' :
  Permutation l l' -> Permutation (filter f l) (filter f l').
Proof.
  induction 1 as [|x l l' _ IH|x y l|l l' l'' _ IH1 _ IH2]; cbn.
  - constructor.
  - destruct (f x); [now constructor | exact IH].
  - destruct (f x), (f y); try apply Permutation_refl. apply perm_swap.
  - eapply Permutation_trans; eassumption.
Qed.

Lemma perm_existsb {A} (f : A -> bool) l l' :
  Permutation l l' -> existsb f l = existsb f l'.
Proof.
  induction 1 as [|x l l' _ IH|x y l|l l' l'' _ IH1 _ IH2]; cbn.
  - reflexivity.
  - now rewrite IH.
  - destruct (f x), (f y); reflexivity.
  - congruence.
Qed.

Lemma perm_Forall {A} (P : A -> Prop) l l' : Permutation l l' -> Forall P l -> Forall P l'.
Proof.
  intros Hp Hf. rewrite Forall_forall in *. intros x Hx. apply Hf.
  eapply Permutation_in; [apply Permutation_sym, Hp | exact Hx].
Qed.

(* ---- reduced rational operations ---------------------------------------- *)

Lemma qadd_eq a b : qadd a b == a + b.
Proof. unfold qadd. apply Qred_correct. Qed.
Lemma qsub_eq a b : qsub a b == a - b.
Proof. unfold qsub. apply Qred_correct. Qed.
Lemma qmul_eq a b : qmul a b == a * b.
Proof. unfold qmul. apply Qred_correct. Qed.
Lemma qdiv_eq a b : qdiv a b == a / b.
Proof. unfold qdiv. apply Qred_correct. Qed.

Lemma Qlt_bool_iff a b : Qlt_bool a b = true <-> a < b.
Proof.
  unfold Qlt_bool. rewrite negb_true_iff. split.
  - intros H. apply Qnot_le_lt. intros Hle. apply Qle_bool_iff in Hle. congruence.
  - intros H. destruct (Qle_bool b a) eqn:E; [|reflexivity].
    apply Qle_bool_iff in E. exfalso. eapply Qlt_not_le; eassumption.
Qed.

Lemma Qlt_bool_false a b : Qlt_bool a b = false <-> b <= a.
Proof.
  unfold Qlt_bool. rewrite negb_false_iff. apply Qle_bool_iff.
Qed.

Lemma Qle_bool_false a b : Qle_bool a b = false -> b < a.
Proof.
  intros H. apply Qnot_le_lt. intros Hle. apply Qle_bool_iff in Hle. congruence.
Qed.

Lemma Qle_bool_total a b : Qle_bool a b = true \/ Qle_bool b a = true.
Proof.
  destruct (Qlt_le_dec b a) as [H|H].
  - right. apply Qle_bool_iff, Qlt_le_weak, H.
  - left. apply Qle_bool_iff, H.
Qed.

Lemma qabs_nonneg a : 0 <= qabs a.
Proof.
  unfold qabs. destruct (Qle_bool 0 a) eqn:E.
  - apply Qle_bool_iff, E.
  - apply Qle_bool_false in E. rewrite Qred_correct. lra.
Qed.

Lemma qabs_cases a : (0 <= a /\ qabs a == a) \/ (a < 0 /\ qabs a == - a).
Proof.
  unfold qabs. destruct (Qle_bool 0 a) eqn:E.
  - left. split; [apply Qle_bool_iff, E | reflexivity].
  - right. split; [apply Qle_bool_false, E | apply Qred_correct].
Qed.

(* ---- median --------------------------------------------------------------- *)

Lemma qsort_perm l : Permutation (qsort l) l.
Proof. apply isort_perm. Qed.

Lemma qsort_sorted l : Sorted (fun a b => a <= b) (qsort l).
Proof.
  pose proof (isort_sorted Qle_bool Qle_bool_total l) as H.
  unfold qsort. induction H as [|x s Hs IH Hhd]; constructor.
  - exact IH.
  - destruct Hhd as [|y s' Hy]; constructor. apply Qle_bool_iff, Hy.
Qed.

Lemma nth_in_range (lo hi : Q) (s : list Q) (i : nat) :
  Forall (fun x => lo <= x /\ x <= hi) s -> (i < length s)%nat ->
  lo <= nth i s 0%Q /\ nth i s 0%Q <= hi.
Proof.
  intros Hf Hi. rewrite Forall_forall in Hf. apply Hf, nth_In, Hi.
Qed.

Lemma median_none l : median l = None <-> l = [].
Proof.
  unfold median. pose proof (isort_length Qle_bool l) as Hl. fold (qsort l) in Hl.
  destruct l as [|x t].
  - cbn. split; reflexivity.
  - split; [|discriminate]. rewrite Hl. cbn [length].
    destruct (Nat.even (S (length t))); discriminate.
Qed.

Definition median_value (l : list Q) : Q :=
  let s := qsort l in
  let n := length l in
  if Nat.even n
  then qdiv (qadd (nth (n / 2 - 1) s 0%Q) (nth (n / 2) s 0%Q)) (2 # 1)
  else nth (n / 2) s 0%Q.

Lemma median_spec l : l <> [] -> median l = Some (median_value l).
Proof.
  intros Hne. unfold median, median_value.
  pose proof (isort_length Qle_bool l) as Hl. fold (qsort l) in Hl. rewrite Hl.
  destruct l as [|x t]; [congruence|]. cbn [length].
  destruct (Nat.even (S (length t))); reflexivity.
Qed.

Lemma median_in_range (lo hi : Q) l m :
  Forall (fun x => lo <= x /\ x <= hi) l -> median l = Some m -> lo <= m /\ m <= hi.
Proof.
  intros Hf Hm.
  assert (Hne : l <> []) by (intros ->; discriminate).
  rewrite (median_spec l Hne) in Hm. injection Hm as <-.
  assert (Hs : Forall (fun x => lo <= x /\ x <= hi) (qsort l)).
  { eapply perm_Forall; [apply Permutation_sym, qsort_perm | exact Hf]. }
  assert (Hlen : length (qsort l) = length l) by apply isort_length.
  assert (Hn : (0 < length l)%nat) by (destruct l; [congruence | cbn; lia]).
  unfold median_value.
  remember (length l / 2)%nat as i eqn:Ei.
  assert (Hi : (i < length (qsort l))%nat).
  { rewrite Hlen, Ei. apply Nat.div_lt; lia. }
  assert (Hi1 : (i - 1 < length (qsort l))%nat) by lia.
  destruct (nth_in_range lo hi _ _ Hs Hi) as [B1 B2].
  destruct (nth_in_range lo hi _ _ Hs Hi1) as [A1 A2].
  destruct (Nat.even (length l)).
  - rewrite qdiv_eq, qadd_eq.
    remember (nth (i - 1) (qsort l) 0%Q) as a. remember (nth i (qsort l) 0%Q) as b.
    split.
    + apply Qle_shift_div_l; [reflexivity|]. lra.
    + apply Qle_shift_div_r; [reflexivity|]. lra.
  - split; assumption.
Qed.

(* the median lies between two members of the list *)
Lemma median_value_between l :
  l <> [] -> exists a b, In a l /\ In b l /\ a <= median_value l /\ median_value l <= b.
Proof.
  intros Hne.
  assert (Hlen : length (qsort l) = length l) by apply isort_length.
  assert (Hn : (0 < length l)%nat) by (destruct l; [congruence | cbn; lia]).
  unfold median_value.
  remember (length l / 2)%nat as i eqn:Ei.
  assert (Hi : (i < length (qsort l))%nat).
  { rewrite Hlen, Ei. apply Nat.div_lt; lia. }
  assert (Hi1 : (i - 1 < length (qsort l))%nat) by lia.
  assert (Hx : In (nth (i - 1) (qsort l) 0%Q) l).
  { eapply Permutation_in; [apply qsort_perm | apply nth_In, Hi1]. }
  assert (Hy : In (nth i (qsort l) 0%Q) l).
  { eapply Permutation_in; [apply qsort_perm | apply nth_In, Hi]. }
  remember (nth (i - 1) (qsort l) 0%Q) as x. remember (nth i (qsort l) 0%Q) as y.
  destruct (Nat.even (length l)).
  - destruct (Qlt_le_dec x y) as [H|H].
    + exists x, y. repeat split; try assumption; rewrite qdiv_eq, qadd_eq.
      * apply Qle_shift_div_l; [reflexivity|]. lra.
      * apply Qle_shift_div_r; [reflexivity|]. lra.
    + exists y, x. repeat split; try assumption; rewrite qdiv_eq, qadd_eq.
      * apply Qle_shift_div_l; [reflexivity|]. lra.
      * apply Qle_shift_div_r; [reflexivity|]. lra.
  - exists y, y. repeat split; try assumption; apply Qle_refl.
Qed.

Lemma median_value_ge lo l : l <> [] -> Forall (fun x => lo <= x) l -> lo <= median_value l.
Proof.
  intros Hne Hf. destruct (median_value_between l Hne) as (a & b & Ha & _ & Hle & _).
  rewrite Forall_forall in Hf. specialize (Hf a Ha). lra.
Qed.

Lemma median_value_le hi l : l <> [] -> Forall (fun x => x <= hi) l -> median_value l <= hi.
Proof.
  intros Hne Hf. destruct (median_value_between l Hne) as (a & b & _ & Hb & _ & Hle).
  rewrite Forall_forall in Hf. specialize (Hf b Hb). lra.
Qed.
