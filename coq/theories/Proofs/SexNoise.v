(* C15, chromosomal sex under BOUNDED noise: the deterministic part of "sex inferred right for samples whose
   chrX / chrY bins sit at the expected levels with bin noise ...".

   1. the (weighted) median of values within eps of a level is within eps of it; both medians move with a shift;
   2. hence the two differences of medians compare_to_auto computes are |A - (V + shift)| for the centre A of the
      autosomes and the centre V of the chromosome;
   3. one chromosome: which way its "maleness" ratio falls, on the route without a statistic (differences of
      medians) outright and on the route with both statistics under the contract [stat_contract];
   4. the table: the decision, guess_xx, the do_sex label and shift_xx for every eps < 1/4. *)
From CNV Require Import Base.Prelude Base.Str Base.QNum Proofs.QNumLemmas Gen.CenterDefaults Gen.DescDefaults
  Model.Center Model.Sex Spec.Center Spec.Stats Proofs.CenterLib Proofs.Center Proofs.SexLib Proofs.Sex.
From CNV Require Model.Descriptives Proofs.DescriptivesWMedian Proofs.DescriptivesShift Proofs.DescriptivesWMedianPos
  Proofs.DescriptivesWMedianTop.
From Coq Require Import Qabs Setoid Morphisms Psatz.
Local Open Scope Q_scope.

(* ================================================================================================ *)
(* 0. absolute values *)

Lemma Qabs_upper x y : - y <= x <= y -> Qabs x <= y.
Proof. intros H. apply Qabs_Qle_condition. exact H. Qed.

Lemma Qabs_upper_lt x y : - y < x < y -> Qabs x < y.
Proof. intros H. apply Qabs_Qlt_condition. exact H. Qed.

Lemma Qabs_lower x y : y <= x \/ x <= - y -> y <= Qabs x.
Proof.
  intros [H|H].
  - eapply Qle_trans; [exact H|apply Qle_Qabs].
  - rewrite <- Qabs_opp. eapply Qle_trans; [|apply Qle_Qabs]. lra.
Qed.

Lemma near_iff eps c v : near eps c v <-> c - eps <= v <= c + eps.
Proof.
  unfold near. rewrite Qabs_Qle_condition. split; intros [H1 H2]; split; lra.
Qed.

Lemma near_b_iff eps c v : near_b eps c v = true <-> near eps c v.
Proof.
  unfold near_b. rewrite andb_true_iff, !qle_b_iff, qsub_spec, qadd_spec. symmetry. apply near_iff.
Qed.

Lemma near_wd eps c c' v v' : c == c' -> v == v' -> near eps c v -> near eps c' v'.
Proof. unfold near. intros -> ->. trivial. Qed.

Lemma y_near_b_iff eps a female v : y_near_b eps a female v = true <-> y_near eps a female v.
Proof.
  unfold y_near_b, y_near. destruct female; [|apply near_b_iff].
  rewrite qle_b_iff, qadd_spec, qsub_spec. reflexivity.
Qed.

(* ================================================================================================ *)
(* 1. medians of values within bounds; medians under a shift *)

Definition within (lo hi : Q) (l : list Q) : Prop := forall x, In x l -> lo <= x <= hi.

Lemma median_within lo hi l : l <> [] -> within lo hi l -> lo <= median l <= hi.
Proof. intros Hn H. apply median_bounds; assumption. Qed.

(* the median of values within eps of a level is within eps of it (the median is 1-Lipschitz against a constant) *)
Lemma median_near eps c l : l <> [] -> (forall x, In x l -> near eps c x) -> near eps c (median l).
Proof.
  intros Hn H. apply near_iff. apply median_within; [exact Hn|]. intros x Hx. apply near_iff. apply H. exact Hx.
Qed.

Lemma combine_nonnil {A B} (a : list A) (w : list B) : a <> [] -> length w = length a -> combine a w <> [].
Proof. destruct a; [contradiction|]. destruct w; [discriminate|]. discriminate. Qed.

Lemma combine_nonneg (a w : list Q) : (forall x, In x w -> 0 <= x) -> nonneg_weights (combine a w).
Proof. intros H p Hp. destruct p as [v y]. apply in_combine_r in Hp. apply H. exact Hp. Qed.

(* descriptives.weighted_median (C19's model) stays within the range of the values, for any non-negative weights
   (C19's range lemma) *)
Lemma wmed_within lo hi a w : a <> [] -> length w = length a -> (forall x, In x w -> 0 <= x) ->
  within lo hi a -> lo <= wmed a w <= hi.
Proof.
  intros Hn Hl Hw H. unfold wmed, Descriptives.weighted_median.
  destruct (Descriptives.weighted_median_ps (combine a w)) as [m|] eqn:E.
  - destruct (DescriptivesWMedianTop.weighted_median_ps_range _ _ (combine_nonneg a w Hw) E)
      as (p & q & Hp & Hq & H1 & H2).
    destruct p as [pv pw]. destruct q as [qv qw]. apply in_combine_l in Hp. apply in_combine_l in Hq.
    cbn [fst] in H1, H2. pose proof (H pv Hp). pose proof (H qv Hq). lra.
  - exfalso. rewrite (DescriptivesWMedianTop.weighted_median_ps_some _ (combine_nonnil a w Hn Hl)) in E. discriminate.
Qed.

Lemma wmed_near eps c a w : a <> [] -> length w = length a -> (forall x, In x w -> 0 <= x) ->
  (forall x, In x a -> near eps c x) -> near eps c (wmed a w).
Proof.
  intros Hn Hl Hw H. apply near_iff. apply wmed_within; try assumption. intros x Hx. apply near_iff. apply H. exact Hx.
Qed.

(* upper bounds alone *)
Lemma median_upper hi l : l <> [] -> (forall x, In x l -> x <= hi) -> median l <= hi.
Proof.
  intros Hn H. apply (median_within (qmin l) hi l Hn). intros x Hx. split; [apply qmin_le; exact Hx|apply H; exact Hx].
Qed.

Lemma wmed_upper hi a w : a <> [] -> length w = length a -> (forall x, In x w -> 0 <= x) ->
  (forall x, In x a -> x <= hi) -> wmed a w <= hi.
Proof.
  intros Hn Hl Hw H. apply (wmed_within (qmin a) hi a w Hn Hl Hw). intros x Hx.
  split; [apply qmin_le; exact Hx|apply H; exact Hx].
Qed.

(* shifts *)
Lemma median_qadd c l : l <> [] -> median (map (fun x => qadd x c) l) == median l + c.
Proof.
  intros Hn. rewrite (median_map_ext (fun x => qadd x c) (fun x => x + c)).
  - apply median_shift. exact Hn.
  - intros x _. apply qadd_spec.
Qed.

Lemma combine_map_values (f : Q -> Q) a : forall w,
  combine (map f a) w = DescriptivesShift.map_values f (combine a w).
Proof.
  induction a as [|x a IH]; intros w; [reflexivity|]. destruct w as [|y w]; [reflexivity|].
  cbn [map combine DescriptivesShift.map_values fst snd]. f_equal. apply IH.
Qed.

Lemma qadd_proper c : Proper (Qeq ==> Qeq) (fun x => qadd x c).
Proof. intros x y E. rewrite !qadd_spec, E. reflexivity. Qed.

Lemma qadd_midpoint c : midpoint_hom (fun x => qadd x c).
Proof. intros x y. rewrite !qadd_spec. field. Qed.

Lemma qadd_order c x y : qle_b (qadd x c) (qadd y c) = qle_b x y.
Proof.
  destruct (qle_b x y) eqn:E.
  - apply qle_b_iff. apply qle_b_iff in E. rewrite !qadd_spec. lra.
  - apply qle_b_false. apply qle_b_false in E. rewrite !qadd_spec. lra.
Qed.

Lemma wmed_qadd c a w : a <> [] -> length w = length a -> (forall x, In x w -> 0 <= x) ->
  wmed (map (fun x => qadd x c) a) w == wmed a w + c.
Proof.
  intros Hn Hl Hw. unfold wmed, Descriptives.weighted_median. rewrite combine_map_values.
  pose proof (combine_nonnil a w Hn Hl) as Hc. pose proof (combine_nonneg a w Hw) as Hnn.
  set (ps := combine a w) in *. set (f := fun x => qadd x c).
  assert (Hc' : DescriptivesShift.map_values f ps <> []).
  { intro K. apply Hc. unfold DescriptivesShift.map_values in K. apply map_eq_nil in K. exact K. }
  rewrite (DescriptivesWMedianTop.weighted_median_ps_some _ Hc), (DescriptivesWMedianTop.weighted_median_ps_some _ Hc').
  destruct ps as [|p [|q r]] eqn:Eps; [contradiction| |].
  - cbn [DescriptivesShift.map_values map fst]. unfold f. apply qadd_spec.
  - change (DescriptivesShift.map_values f (p :: q :: r)) with
      ((f (fst p), snd p) :: (f (fst q), snd q) :: DescriptivesShift.map_values f r).
    cbv beta iota.
    change ((f (fst p), snd p) :: (f (fst q), snd q) :: DescriptivesShift.map_values f r) with
      (DescriptivesShift.map_values f (p :: q :: r)).
    rewrite (DescriptivesWMedianPos.psort_map_values f (p :: q :: r) (fun x y => qadd_order c x y)).
    rewrite (DescriptivesShift.wmedian_sorted_map f _ (qadd_proper c) (qadd_midpoint c)).
    + unfold f. apply qadd_spec.
    + apply DescriptivesWMedianTop.psort_nonnil. discriminate.
    + eapply DescriptivesWMedianTop.nonneg_perm; [apply Permutation_sym, DescriptivesWMedianTop.psort_perm|exact Hnn].
Qed.

(* ================================================================================================ *)
(* 2. the differences of medians of compare_to_auto *)

(* the centre of the autosomes / of the chromosome that med_diff uses: weighted medians exactly when both weight
   vectors are there (in compare_sex_chromosomes: when the table has a weight column) *)
Definition centre_a (auto_l : list Q) (auto_w w : option (list Q)) : Q :=
  match auto_w, w with Some aw, Some _ => wmed auto_l aw | _, _ => median auto_l end.
Definition centre_v (vals : list Q) (auto_w w : option (list Q)) : Q :=
  match auto_w, w with Some _, Some vw => wmed vals vw | _, _ => median vals end.

Lemma med_diff_shift auto_l auto_w vals w s : vals <> [] -> ok_weights vals w ->
  med_diff auto_l auto_w (map (fun x => qadd x s) vals) w ==
  Qabs (centre_a auto_l auto_w w - (centre_v vals auto_w w + s)).
Proof.
  intros Hn Hw. unfold med_diff, centre_a, centre_v, qabs.
  destruct auto_w as [aw|]; destruct w as [vw|]; rewrite qsub_spec.
  - destruct Hw as [Hl Hp]. rewrite (wmed_qadd s vals vw Hn Hl Hp). reflexivity.
  - rewrite (median_qadd s vals Hn). reflexivity.
  - rewrite (median_qadd s vals Hn). reflexivity.
  - rewrite (median_qadd s vals Hn). reflexivity.
Qed.

Lemma centre_a_near eps c auto_l auto_w w : auto_l <> [] -> ok_weights auto_l auto_w ->
  (forall x, In x auto_l -> near eps c x) -> near eps c (centre_a auto_l auto_w w).
Proof.
  intros Hn Hw H. unfold centre_a. destruct auto_w as [aw|]; [destruct w as [vw|]|].
  - destruct Hw as [Hl Hp]. apply wmed_near; assumption.
  - apply median_near; assumption.
  - apply median_near; assumption.
Qed.

Lemma centre_v_near eps c vals auto_w w : vals <> [] -> ok_weights vals w ->
  (forall x, In x vals -> near eps c x) -> near eps c (centre_v vals auto_w w).
Proof.
  intros Hn Hw H. unfold centre_v. destruct auto_w as [aw|]; [destruct w as [vw|]|].
  - destruct Hw as [Hl Hp]. apply wmed_near; assumption.
  - apply median_near; assumption.
  - apply median_near; assumption.
Qed.

Lemma centre_v_upper hi vals auto_w w : vals <> [] -> ok_weights vals w ->
  (forall x, In x vals -> x <= hi) -> centre_v vals auto_w w <= hi.
Proof.
  intros Hn Hw H. unfold centre_v. destruct auto_w as [aw|]; [destruct w as [vw|]|].
  - destruct Hw as [Hl Hp]. apply wmed_upper; assumption.
  - apply median_upper; assumption.
  - apply median_upper; assumption.
Qed.

(* ================================================================================================ *)
(* 3. one chromosome *)

(* THE CONTRACT on the median-test oracle, at one chromosome of one sample.  Whenever both tests (female shift,
   male shift) yield a statistic f, m: both are non-negative; if the female-shifted chromosome's median is closer to
   the autosomes' than the male-shifted one's (difference of medians as compare_to_auto computes it) then f <= m (not
   f < m: a female sample's chrY lies entirely below the autosomes under either shift, both tests then see the same
   contingency table and f = m); if the male-shifted one is closer then m < f and f is above the floor of the
   denominator.  Nothing is asked when a
   test yields no statistic. *)
Definition stat_contract (gstat : mtable -> Q) (auto_l : list Q) (auto_w : option (list Q))
  (vals : list Q) (w : option (list Q)) (female_shift male_shift : Q) : Prop :=
  forall f m,
    mood_stat gstat auto_l (map (fun x => qadd x female_shift) vals) = Some f ->
    mood_stat gstat auto_l (map (fun x => qadd x male_shift) vals) = Some m ->
    0 <= f /\ 0 <= m /\
    (med_diff auto_l auto_w (map (fun x => qadd x female_shift) vals) w <
     med_diff auto_l auto_w (map (fun x => qadd x male_shift) vals) w -> f <= m) /\
    (med_diff auto_l auto_w (map (fun x => qadd x male_shift) vals) w <
     med_diff auto_l auto_w (map (fun x => qadd x female_shift) vals) w -> m < f /\ lr_denominator_floor < f).

Lemma stat_contract_def gstat auto_l auto_w vals w fs ms :
  stat_contract gstat auto_l auto_w vals w fs ms <->
  (forall f m,
     mood_stat gstat auto_l (map (fun x => qadd x fs) vals) = Some f ->
     mood_stat gstat auto_l (map (fun x => qadd x ms) vals) = Some m ->
     0 <= f /\ 0 <= m /\
     (med_diff auto_l auto_w (map (fun x => qadd x fs) vals) w < med_diff auto_l auto_w (map (fun x => qadd x ms) vals) w ->
      f <= m) /\
     (med_diff auto_l auto_w (map (fun x => qadd x ms) vals) w < med_diff auto_l auto_w (map (fun x => qadd x fs) vals) w ->
      m < f /\ lr_denominator_floor < f)).
Proof. reflexivity. Qed.

(* no statistic for at least one of the two hypotheses: the route of the differences of medians *)
Definition stat_absent (gstat : mtable -> Q) (auto_l vals : list Q) (female_shift male_shift : Q) : Prop :=
  mood_stat gstat auto_l (map (fun x => qadd x female_shift) vals) = None \/
  mood_stat gstat auto_l (map (fun x => qadd x male_shift) vals) = None.

Lemma stat_absent_contract gstat auto_l auto_w vals w fs ms :
  stat_absent gstat auto_l vals fs ms -> stat_contract gstat auto_l auto_w vals w fs ms.
Proof. intros [H|H] f m Ef Em; congruence. Qed.

Lemma stat_contract_b_sound gstat auto_l auto_w vals w fs ms :
  stat_contract_b gstat auto_l auto_w vals w fs ms = true -> stat_contract gstat auto_l auto_w vals w fs ms.
Proof.
  unfold stat_contract_b, stat_contract. intros H f m Ef Em. rewrite Ef, Em in H.
  apply andb_true_iff in H. destruct H as [H H4]. apply andb_true_iff in H. destruct H as [H H3].
  apply andb_true_iff in H. destruct H as [H1 H2]. apply qle_b_iff in H1. apply qle_b_iff in H2.
  split; [exact H1|]. split; [exact H2|]. split.
  - intros K. apply qlt_b_iff in K. rewrite K in H3. cbn [negb orb] in H3. apply qle_b_iff. exact H3.
  - intros K. apply qlt_b_iff in K. rewrite K in H4. cbn [negb orb] in H4. apply andb_true_iff in H4.
    destruct H4 as [A B]. split; apply qlt_b_iff; assumption.
Qed.

Lemma stat_route_absent gstat auto_l vals fs ms :
  stat_route gstat auto_l vals fs ms = 0%Z -> stat_absent gstat auto_l vals fs ms.
Proof.
  unfold stat_route, stat_absent.
  destruct (mood_stat gstat auto_l (map (fun x => qadd x fs) vals)); [|left; reflexivity].
  destruct (mood_stat gstat auto_l (map (fun x => qadd x ms) vals)); [discriminate|right; reflexivity].
Qed.

(* the ratio of two statistics, at most 1 *)
Lemma lr_of_stats_le1 f m fd md : 0 <= f -> f <= m -> lr_of (Some f) (Some m) fd md <= 1.
Proof.
  intros Hf Hfm. cbn [lr_of]. rewrite qdiv_spec. pose proof (qmax2_floor_pos m) as Hp.
  destruct (qmax2_spec m lr_denominator_floor) as [H1 _].
  apply Qle_shift_div_r; [exact Hp|]. lra.
Qed.

Lemma decision_female_le x y : 0 <= x -> x <= 1 -> (match y with Some v => 0 <= v /\ v <= 1 | None => True end) ->
  is_xy_of (score_of x y) = false.
Proof.
  intros Hx0 Hx Hy. apply is_xy_of_false. destruct y as [v|]; cbn [score_of]; [|lra].
  rewrite qmul_spec. nra.
Qed.

(* the ratio of the differences of medians, below 1 *)
Lemma lr_of_diffs_lt1 fs ms fd md : (fs = None \/ ms = None) -> 0 <= fd -> fd < md ->
  0 <= lr_of fs ms fd md /\ lr_of fs ms fd md < 1.
Proof.
  intros Hn H0 Hlt. assert (E : lr_of fs ms fd md = qdiv fd (qmax2 md lr_denominator_floor)).
  { destruct Hn as [->| ->]; [apply lr_of_none_l|apply lr_of_none_r]. }
  rewrite E, qdiv_spec. pose proof (qmax2_floor_pos md) as Hp.
  destruct (qmax2_spec md lr_denominator_floor) as [H1 _]. split.
  - apply Qle_shift_div_l; [exact Hp|]. lra.
  - apply Qlt_shift_div_r; [exact Hp|]. lra.
Qed.

Lemma lr_of_stats_nonneg f m fd md : 0 <= f -> 0 <= lr_of (Some f) (Some m) fd md.
Proof.
  intros Hf. cbn [lr_of]. rewrite qdiv_spec. pose proof (qmax2_floor_pos m) as Hp.
  apply Qle_shift_div_l; [exact Hp|]. lra.
Qed.

Section Chromosome.
  Variable gstat : mtable -> Q.
  Variables (auto_l : list Q) (auto_w : option (list Q)) (vals : list Q) (w : option (list Q)) (fs ms : Q).
  Hypothesis Hvals : vals <> [].
  Hypothesis Hw : ok_weights vals w.
  Hypothesis Hc : stat_contract gstat auto_l auto_w vals w fs ms.

  Let A := centre_a auto_l auto_w w.
  Let V := centre_v vals auto_w w.

  (* the male-shifted chromosome is the closer one, and the other is further than the floor: ratio above 1 *)
  Lemma chrom_speaks_male :
    Qabs (A - (V + ms)) < Qabs (A - (V + fs)) -> lr_denominator_floor < Qabs (A - (V + fs)) ->
    1 < male_lr gstat auto_l auto_w vals w fs ms.
  Proof.
    intros H1 H2. unfold male_lr.
    pose proof (med_diff_shift auto_l auto_w vals w fs Hvals Hw) as Ef.
    pose proof (med_diff_shift auto_l auto_w vals w ms Hvals Hw) as Em.
    fold A V in Ef, Em.
    destruct (mood_stat gstat auto_l (map (fun x => qadd x fs) vals)) as [f|] eqn:Sf;
      destruct (mood_stat gstat auto_l (map (fun x => qadd x ms) vals)) as [m|] eqn:Sm.
    - apply lr_of_stats. destruct (Hc f m Sf Sm) as (_ & _ & _ & K). apply K. rewrite Ef, Em. exact H1.
    - apply lr_of_diffs; [right; reflexivity|]. rewrite Ef, Em. split; assumption.
    - apply lr_of_diffs; [left; reflexivity|]. rewrite Ef, Em. split; assumption.
    - apply lr_of_diffs; [left; reflexivity|]. rewrite Ef, Em. split; assumption.
  Qed.

  (* the female-shifted chromosome is the closer one: ratio in [0, 1] *)
  Lemma chrom_speaks_female :
    Qabs (A - (V + fs)) < Qabs (A - (V + ms)) ->
    0 <= male_lr gstat auto_l auto_w vals w fs ms /\ male_lr gstat auto_l auto_w vals w fs ms <= 1.
  Proof.
    intros H1. unfold male_lr.
    pose proof (med_diff_shift auto_l auto_w vals w fs Hvals Hw) as Ef.
    pose proof (med_diff_shift auto_l auto_w vals w ms Hvals Hw) as Em.
    fold A V in Ef, Em.
    assert (H0 : 0 <= med_diff auto_l auto_w (map (fun x => qadd x fs) vals) w) by (rewrite Ef; apply Qabs_nonneg).
    assert (Hlt : med_diff auto_l auto_w (map (fun x => qadd x fs) vals) w <
                  med_diff auto_l auto_w (map (fun x => qadd x ms) vals) w) by (rewrite Ef, Em; exact H1).
    destruct (mood_stat gstat auto_l (map (fun x => qadd x fs) vals)) as [f|] eqn:Sf;
      destruct (mood_stat gstat auto_l (map (fun x => qadd x ms) vals)) as [m|] eqn:Sm.
    - destruct (Hc f m Sf Sm) as (Hf & _ & K & _). split.
      + apply lr_of_stats_nonneg. exact Hf.
      + apply lr_of_stats_le1; [exact Hf|]. apply K. exact Hlt.
    - destruct (lr_of_diffs_lt1 (Some f) None _ _ (or_intror eq_refl) H0 Hlt) as [P1 P2]. split; [exact P1|lra].
    - destruct (lr_of_diffs_lt1 None (Some m) _ _ (or_introl eq_refl) H0 Hlt) as [P1 P2]. split; [exact P1|lra].
    - destruct (lr_of_diffs_lt1 None None _ _ (or_introl eq_refl) H0 Hlt) as [P1 P2]. split; [exact P1|lra].
  Qed.
End Chromosome.

(* the arithmetic of "levels one apart, centres within eps < 1/4":  the centre A of the autosomes within eps of a, the
   centre V of the chromosome within eps of c, the aligned shift brings c to a, the other shift differs from it by at
   least 1: the aligned difference is below 1/2, the other one above 1/2 *)
Lemma sep_aligned eps a c A V s_al s_o :
  near eps a A -> near eps c V -> c + s_al == a -> (s_o - s_al <= -1 \/ 1 <= s_o - s_al) -> eps < 1 # 4 ->
  Qabs (A - (V + s_al)) < Qabs (A - (V + s_o)) /\ (1 # 2) < Qabs (A - (V + s_o)).
Proof.
  intros HA HV Hal Hk He. apply near_iff in HA. apply near_iff in HV.
  assert (U : Qabs (A - (V + s_al)) <= 2 * eps) by (apply Qabs_upper; lra).
  assert (L : 1 - 2 * eps <= Qabs (A - (V + s_o))).
  { apply Qabs_lower. destruct Hk as [Hk|Hk]; [left|right]; lra. }
  split; lra.
Qed.

(* a female sample's chrY: values at or below a - 3 + eps, female shift +3, male shift 0 *)
Lemma sep_female_y eps a A V :
  near eps a A -> V <= a - 3 + eps -> eps < 1 # 4 ->
  Qabs (A - (V + 3)) < Qabs (A - (V + 0)).
Proof.
  intros HA HV He. apply near_iff in HA.
  assert (U : Qabs (A - (V + 3)) < A - V) by (apply Qabs_upper_lt; lra).
  pose proof (Qle_Qabs (A - (V + 0))) as L. lra.
Qed.

Lemma floor_lt_half : lr_denominator_floor < 1 # 2.
Proof. unfold lr_denominator_floor, Qlt. simpl. lia. Qed.

(* ================================================================================================ *)
(* 4. the table *)

(* the contract at a sample: at its chrX and at its chrY (vacuous there when the sample has no chrY bins) *)
Definition sex_contract (gstat : mtable -> Q) (hap : bool) (build : option parb) (t : list bin) : Prop :=
  let chrx := filter (chr_x_filter t build) t in
  let chry := filter (chr_y_filter t build) t in
  let auto := autosomes t build in
  let use := has_weight t in
  stat_contract gstat (map b_log2 auto) (opt_weights use auto) (map b_log2 chrx) (opt_weights use chrx)
                (fst (x_shifts hap)) (snd (x_shifts hap)) /\
  stat_contract gstat (map b_log2 auto) (opt_weights use auto) (map b_log2 chry) (opt_weights use chry)
                y_shift_female y_shift_male.

(* the route without statistics: on each chromosome at least one of the two tests yields none *)
Definition sex_stat_absent (gstat : mtable -> Q) (hap : bool) (build : option parb) (t : list bin) : Prop :=
  let auto_l := map b_log2 (autosomes t build) in
  stat_absent gstat auto_l (map b_log2 (filter (chr_x_filter t build) t)) (fst (x_shifts hap)) (snd (x_shifts hap)) /\
  stat_absent gstat auto_l (map b_log2 (filter (chr_y_filter t build) t)) y_shift_female y_shift_male.

Lemma sex_stat_absent_contract gstat hap build t : sex_stat_absent gstat hap build t -> sex_contract gstat hap build t.
Proof. intros [H1 H2]. split; apply stat_absent_contract; assumption. Qed.

Lemma sex_contract_b_sound gstat hap build t :
  sex_contract_x_b gstat hap build t = true -> sex_contract_y_b gstat build t = true -> sex_contract gstat hap build t.
Proof. intros H1 H2. split; apply stat_contract_b_sound; assumption. Qed.

Lemma sex_route_absent gstat hap build t :
  sex_route_x gstat hap build t = 0%Z -> sex_route_y gstat build t = 0%Z -> sex_stat_absent gstat hap build t.
Proof. intros H1 H2. split; apply stat_route_absent; assumption. Qed.

Lemma centre_a_sex t auto sub :
  centre_a (map b_log2 auto) (opt_weights (has_weight t) auto) (opt_weights (has_weight t) sub) = sex_centre t auto.
Proof. unfold centre_a, sex_centre, opt_weights. destruct (has_weight t); reflexivity. Qed.

Lemma centre_v_sex t auto sub :
  centre_v (map b_log2 sub) (opt_weights (has_weight t) auto) (opt_weights (has_weight t) sub) = sex_centre t sub.
Proof. unfold centre_v, sex_centre, opt_weights. destruct (has_weight t); reflexivity. Qed.

Lemma filter_sub {A} (p : A -> bool) l x : In x (filter p l) -> In x l.
Proof. intros H. apply filter_In in H. apply H. Qed.

Section CentredNoise.
  Variable gstat : mtable -> Q.
  Variables (eps a : Q) (female hap : bool) (build : option parb) (t : list bin).
  Hypothesis Heps : eps < 1 # 4.
  Hypothesis Hcn : centred_noise (sex_centre t) eps a female hap build t.
  Hypothesis Hc : sex_contract gstat hap build t.

  Let chrx := filter (chr_x_filter t build) t.
  Let chry := filter (chr_y_filter t build) t.
  Let auto := autosomes t build.

  Lemma cn_chrx_nonnil : chrx <> [].
  Proof. destruct (cn_x_exists _ _ _ _ _ _ _ Hcn) as [b [Hb K]]. exact (filter_nonnil _ t b Hb K). Qed.

  Lemma cn_ok_chrx use : ok_weights (map b_log2 chrx) (opt_weights use chrx).
  Proof. apply (opt_weights_ok use chrx t); [intros b Hb; exact (filter_sub _ _ _ Hb)|exact (cn_w _ _ _ _ _ _ _ Hcn)]. Qed.
  Lemma cn_ok_chry use : ok_weights (map b_log2 chry) (opt_weights use chry).
  Proof. apply (opt_weights_ok use chry t); [intros b Hb; exact (filter_sub _ _ _ Hb)|exact (cn_w _ _ _ _ _ _ _ Hcn)]. Qed.

  (* chrX of a male sample speaks for male *)
  Lemma cn_x_lr_male : female = false -> 1 < x_lr_of gstat hap build t.
  Proof.
    intros Hf. unfold x_lr_of. fold chrx. fold auto.
    pose proof (cn_auto _ _ _ _ _ _ _ Hcn) as HA. pose proof (cn_x _ _ _ _ _ _ _ Hcn) as HV.
    fold auto in HA. fold chrx in HV. rewrite Hf in HV.
    apply chrom_speaks_male.
    - exact (map_nonnil _ _ cn_chrx_nonnil).
    - apply cn_ok_chrx.
    - exact (proj1 Hc).
    - rewrite centre_a_sex, centre_v_sex.
      apply (sep_aligned eps a (a + x_offset false hap)); try assumption.
      + unfold x_offset. destruct hap; cbn [andb negb x_shifts fst snd];
          [unfold x_shift_male_hapref|unfold x_shift_male_dipref]; ring.
      + left. destruct hap; cbn [x_shifts fst snd];
          [unfold x_shift_male_hapref, x_shift_female_hapref|unfold x_shift_male_dipref, x_shift_female_dipref]; lra.
    - rewrite centre_a_sex, centre_v_sex.
      eapply Qlt_trans; [apply floor_lt_half|].
      apply (sep_aligned eps a (a + x_offset false hap) _ _ (snd (x_shifts hap))); try assumption.
      + unfold x_offset. destruct hap; cbn [andb negb x_shifts fst snd];
          [unfold x_shift_male_hapref|unfold x_shift_male_dipref]; ring.
      + left. destruct hap; cbn [x_shifts fst snd];
          [unfold x_shift_male_hapref, x_shift_female_hapref|unfold x_shift_male_dipref, x_shift_female_dipref]; lra.
  Qed.

  (* chrX of a female sample does not *)
  Lemma cn_x_lr_female : female = true -> 0 <= x_lr_of gstat hap build t /\ x_lr_of gstat hap build t <= 1.
  Proof.
    intros Hf. unfold x_lr_of. fold chrx. fold auto.
    pose proof (cn_auto _ _ _ _ _ _ _ Hcn) as HA. pose proof (cn_x _ _ _ _ _ _ _ Hcn) as HV.
    fold auto in HA. fold chrx in HV. rewrite Hf in HV.
    apply chrom_speaks_female.
    - exact (map_nonnil _ _ cn_chrx_nonnil).
    - apply cn_ok_chrx.
    - exact (proj1 Hc).
    - rewrite centre_a_sex, centre_v_sex.
      apply (sep_aligned eps a (a + x_offset true hap)); try assumption.
      + unfold x_offset. destruct hap; cbn [andb negb x_shifts fst snd];
          [unfold x_shift_female_hapref|unfold x_shift_female_dipref]; ring.
      + right. destruct hap; cbn [x_shifts fst snd];
          [unfold x_shift_male_hapref, x_shift_female_hapref|unfold x_shift_male_dipref, x_shift_female_dipref]; lra.
  Qed.

  (* chrY, when it has bins: a male sample's speaks for male, a female sample's does not *)
  Lemma cn_y_lr :
    match y_lr_of gstat build t with
    | Some v => if female then 0 <= v /\ v <= 1 else 1 < v
    | None => True
    end.
  Proof.
    unfold y_lr_of. fold chry. fold auto.
    destruct chry as [|by0 ry] eqn:E; [exact I|]. rewrite <- E.
    assert (Hn : chry <> []) by (rewrite E; discriminate).
    pose proof (cn_auto _ _ _ _ _ _ _ Hcn) as HA. pose proof (cn_y _ _ _ _ _ _ _ Hcn Hn) as HV.
    fold auto in HA. fold chry in HV.
    assert (Hcase : female = true \/ female = false) by (destruct female; auto).
    destruct Hcase as [Ef|Ef]; rewrite Ef; rewrite Ef in HV.
    - apply chrom_speaks_female.
      + exact (map_nonnil _ _ Hn).
      + apply cn_ok_chry.
      + exact (proj2 Hc).
      + rewrite centre_a_sex, centre_v_sex. cbn [y_near] in HV.
        change y_shift_female with 3. change y_shift_male with 0.
        apply (sep_female_y eps a); assumption.
    - cbn [y_near] in HV. apply chrom_speaks_male.
      + exact (map_nonnil _ _ Hn).
      + apply cn_ok_chry.
      + exact (proj2 Hc).
      + rewrite centre_a_sex, centre_v_sex.
        apply (sep_aligned eps a a); try assumption.
        * unfold y_shift_male. ring.
        * right. unfold y_shift_female, y_shift_male. lra.
      + rewrite centre_a_sex, centre_v_sex.
        eapply Qlt_trans; [apply floor_lt_half|].
        apply (sep_aligned eps a a _ _ y_shift_male); try assumption.
        * unfold y_shift_male. ring.
        * right. unfold y_shift_female, y_shift_male. lra.
  Qed.

  Theorem centred_noise_decision : sex_decision gstat hap build t = Some (negb female).
  Proof.
    rewrite sex_decision_unfold by exact cn_chrx_nonnil. f_equal.
    pose proof cn_y_lr as Hy.
    assert (Hcase : female = true \/ female = false) by (destruct female; auto).
    destruct Hcase as [Ef|Ef]; rewrite Ef; rewrite Ef in Hy; cbn [negb].
    - destruct (cn_x_lr_female Ef) as [Hx0 Hx1]. apply decision_female_le; [exact Hx0|exact Hx1|].
      destruct (y_lr_of gstat build t) as [v|]; [|exact I]. exact Hy.
    - apply decision_male; [exact (cn_x_lr_male Ef)|].
      destruct (y_lr_of gstat build t) as [v|]; [exact Hy|exact I].
  Qed.

  Theorem centred_noise_guess_xx : guess_xx gstat hap build t = Some female.
  Proof. unfold guess_xx. rewrite centred_noise_decision. rewrite negb_involutive. reflexivity. Qed.

  Theorem centred_noise_do_sex :
    fst (do_sex_row gstat hap build t) = if female then "Female"%string else "Male"%string.
  Proof.
    pose proof centred_noise_decision as H. unfold sex_decision in H. unfold do_sex_row.
    destruct (compare_sex gstat hap build t) as [[is_xy st]|]; [|discriminate].
    injection H as H. rewrite H. generalize female. intros f. destruct f; reflexivity.
  Qed.
End CentredNoise.

Lemma centred_noise_all (gstat : mtable -> Q) eps a female hap build t :
  eps < 1 # 4 -> centred_noise (sex_centre t) eps a female hap build t -> sex_contract gstat hap build t ->
  sex_decision gstat hap build t = Some (negb female) /\
  guess_xx gstat hap build t = Some female /\
  fst (do_sex_row gstat hap build t) = (if female then "Female" else "Male")%string.
Proof.
  intros He H Hc. split; [|split].
  - exact (centred_noise_decision gstat eps a female hap build t He H Hc).
  - exact (centred_noise_guess_xx gstat eps a female hap build t He H Hc).
  - exact (centred_noise_do_sex gstat eps a female hap build t He H Hc).
Qed.

(* ---- every bin within eps of its level => the centres are ---------------------------------------- *)
Lemma sex_centre_near t sub eps c :
  sub <> [] -> (forall b, In b sub -> In b t) -> (forall b w, In b t -> b_weight b = Some w -> 0 <= w) ->
  (forall b, In b sub -> near eps c (b_log2 b)) -> near eps c (sex_centre t sub).
Proof.
  intros Hn Hsub Hw H.
  assert (Hl : forall x, In x (map b_log2 sub) -> near eps c x).
  { intros x Hx. apply in_map_iff in Hx. destruct Hx as [b [<- Hb]]. apply H. exact Hb. }
  unfold sex_centre. destruct (has_weight t).
  - destruct (opt_weights_ok true sub t Hsub Hw) as [L P]. apply wmed_near; try assumption. apply map_nonnil. exact Hn.
  - apply median_near; [apply map_nonnil; exact Hn|exact Hl].
Qed.

Lemma sex_centre_upper t sub hi :
  sub <> [] -> (forall b, In b sub -> In b t) -> (forall b w, In b t -> b_weight b = Some w -> 0 <= w) ->
  (forall b, In b sub -> b_log2 b <= hi) -> sex_centre t sub <= hi.
Proof.
  intros Hn Hsub Hw H.
  assert (Hl : forall x, In x (map b_log2 sub) -> x <= hi).
  { intros x Hx. apply in_map_iff in Hx. destruct Hx as [b [<- Hb]]. apply H. exact Hb. }
  unfold sex_centre. destruct (has_weight t).
  - destruct (opt_weights_ok true sub t Hsub Hw) as [L P]. apply wmed_upper; try assumption. apply map_nonnil. exact Hn.
  - apply median_upper; [apply map_nonnil; exact Hn|exact Hl].
Qed.

Lemma bounded_is_centred eps a female hap build t :
  bounded_noise eps a female hap build t -> centred_noise (sex_centre t) eps a female hap build t.
Proof.
  intros H. pose proof (bn_w _ _ _ _ _ _ H) as Hw. constructor.
  - exact (bn_auto_exists _ _ _ _ _ _ H).
  - exact (bn_x_exists _ _ _ _ _ _ H).
  - rewrite (autosomes_some t build (bn_auto_exists _ _ _ _ _ _ H)).
    apply sex_centre_near; try assumption.
    + destruct (bn_auto_exists _ _ _ _ _ _ H) as [b [Hb K]]. apply (filter_nonnil _ t b Hb). rewrite K. reflexivity.
    + intros b Hb. exact (filter_sub _ _ _ Hb).
    + intros b Hb. apply filter_In in Hb. destruct Hb as [Hb K]. exact (bn_auto _ _ _ _ _ _ H b Hb K).
  - apply sex_centre_near; try assumption.
    + destruct (bn_x_exists _ _ _ _ _ _ H) as [b [Hb K]]. exact (filter_nonnil _ t b Hb K).
    + intros b Hb. exact (filter_sub _ _ _ Hb).
    + intros b Hb. apply filter_In in Hb. destruct Hb as [Hb K]. exact (bn_x _ _ _ _ _ _ H b Hb K).
  - intros Hn.
    assert (Hy : forall b, In b (filter (chr_y_filter t build) t) -> y_near eps a female (b_log2 b)).
    { intros b Hb. apply filter_In in Hb. destruct Hb as [Hb K]. exact (bn_y _ _ _ _ _ _ H b Hb K). }
    destruct female; cbn [y_near] in *.
    + apply sex_centre_upper; try assumption. intros b Hb. exact (filter_sub _ _ _ Hb).
    + apply sex_centre_near; try assumption. intros b Hb. exact (filter_sub _ _ _ Hb).
  - exact Hw.
Qed.

Lemma bounded_noise_all (gstat : mtable -> Q) eps a female hap build t :
  eps < 1 # 4 -> bounded_noise eps a female hap build t -> sex_contract gstat hap build t ->
  sex_decision gstat hap build t = Some (negb female) /\
  guess_xx gstat hap build t = Some female /\
  fst (do_sex_row gstat hap build t) = (if female then "Female" else "Male")%string.
Proof. intros He H Hc. apply (centred_noise_all gstat eps a); [exact He|apply bounded_is_centred; exact H|exact Hc]. Qed.

(* the route on which the oracle returns no statistic needs no contract *)
Lemma bounded_noise_nostat (gstat : mtable -> Q) eps a female hap build t :
  eps < 1 # 4 -> bounded_noise eps a female hap build t -> sex_stat_absent gstat hap build t ->
  sex_decision gstat hap build t = Some (negb female) /\
  guess_xx gstat hap build t = Some female /\
  fst (do_sex_row gstat hap build t) = (if female then "Female" else "Male")%string.
Proof. intros He H Hn. apply (bounded_noise_all gstat eps a); [exact He|exact H|apply sex_stat_absent_contract; exact Hn]. Qed.

(* ---- the deciders --------------------------------------------------------------------------------- *)
Lemma weight_ok_all t : forallb weight_ok_b t = true -> forall b w, In b t -> b_weight b = Some w -> 0 <= w.
Proof.
  intros H b w Hb E. rewrite forallb_forall in H. specialize (H b Hb). unfold weight_ok_b in H. rewrite E in H.
  apply qle_b_iff. exact H.
Qed.

Lemma x_level_wd eps a xo v : near_b eps (qadd a xo) v = true -> near eps (a + xo) v.
Proof. intros H. apply near_b_iff in H. revert H. apply near_wd; [apply qadd_spec|reflexivity]. Qed.

Lemma bounded_noise_b_sound eps a female hap build t :
  bounded_noise_b eps a female hap build t = true -> bounded_noise eps a female hap build t.
Proof.
  unfold bounded_noise_b. intros H. apply andb_true_iff in H. destruct H as [H H3].
  apply andb_true_iff in H. destruct H as [H1 H2].
  apply existsb_exists in H1. apply existsb_exists in H2. rewrite forallb_forall in H3.
  assert (K : forall b, In b t ->
            (auto_sel t build b = true -> near eps a (b_log2 b)) /\
            (chr_x_filter t build b = true -> near eps (a + x_offset female hap) (b_log2 b)) /\
            (chr_y_filter t build b = true -> y_near eps a female (b_log2 b)) /\
            weight_ok_b b = true).
  { intros b Hb. specialize (H3 b Hb). apply andb_true_iff in H3. destruct H3 as [H3 Hd].
    apply andb_true_iff in H3. destruct H3 as [H3 Hc]. apply andb_true_iff in H3. destruct H3 as [Ha Hb'].
    repeat split.
    - intros E. rewrite E in Ha. cbn [negb orb] in Ha. apply near_b_iff. exact Ha.
    - intros E. rewrite E in Hb'. cbn [negb orb] in Hb'. apply x_level_wd. exact Hb'.
    - intros E. rewrite E in Hc. cbn [negb orb] in Hc. apply y_near_b_iff. exact Hc.
    - exact Hd. }
  constructor.
  - exact H1.
  - exact H2.
  - intros b Hb. apply (K b Hb).
  - intros b Hb. apply (K b Hb).
  - intros b Hb. apply (K b Hb).
  - intros b w Hb E. destruct (K b Hb) as (_ & _ & _ & Hd). unfold weight_ok_b in Hd. rewrite E in Hd.
    apply qle_b_iff. exact Hd.
Qed.

Lemma centred_noise_b_sound ctr eps a female hap build t :
  centred_noise_b ctr eps a female hap build t = true -> centred_noise ctr eps a female hap build t.
Proof.
  unfold centred_noise_b. intros H. apply andb_true_iff in H. destruct H as [H H6].
  apply andb_true_iff in H. destruct H as [H H5]. apply andb_true_iff in H. destruct H as [H H4].
  apply andb_true_iff in H. destruct H as [H H3]. apply andb_true_iff in H. destruct H as [H1 H2].
  apply existsb_exists in H1. apply existsb_exists in H2.
  constructor.
  - exact H1.
  - exact H2.
  - apply near_b_iff. exact H3.
  - apply x_level_wd. exact H4.
  - intros Hn. destruct (filter (chr_y_filter t build) t) as [|b0 r]; [contradiction|].
    apply y_near_b_iff. exact H5.
  - apply weight_ok_all. exact H6.
Qed.

(* one executable test whose success puts a sample under the theorem *)
Definition noise_check (gstat : mtable -> Q) (eps a : Q) (female hap : bool) (build : option parb) (t : list bin) : bool :=
  qlt_b eps (1 # 4) && centred_noise_b (sex_centre t) eps a female hap build t &&
  sex_contract_x_b gstat hap build t && sex_contract_y_b gstat build t.

Lemma noise_check_sound gstat eps a female hap build t :
  noise_check gstat eps a female hap build t = true ->
  sex_decision gstat hap build t = Some (negb female) /\
  guess_xx gstat hap build t = Some female /\
  fst (do_sex_row gstat hap build t) = (if female then "Female" else "Male")%string.
Proof.
  unfold noise_check. intros H. apply andb_true_iff in H. destruct H as [H H4].
  apply andb_true_iff in H. destruct H as [H H3]. apply andb_true_iff in H. destruct H as [H1 H2].
  apply (centred_noise_all gstat eps a).
  - apply qlt_b_iff. exact H1.
  - apply centred_noise_b_sound. exact H2.
  - apply sex_contract_b_sound; assumption.
Qed.

Lemma stat_contract_route_eq gstat auto_l auto_w vals w fs ms :
  stat_contract_route gstat auto_l auto_w vals w fs ms =
  (stat_contract_b gstat auto_l auto_w vals w fs ms, stat_route gstat auto_l vals fs ms).
Proof.
  unfold stat_contract_route, stat_contract_b, stat_route.
  destruct (mood_stat gstat auto_l (map (fun x => qadd x fs) vals)); [|reflexivity].
  destruct (mood_stat gstat auto_l (map (fun x => qadd x ms) vals)); reflexivity.
Qed.

Lemma sex_contract_route_eq gstat hap build t :
  sex_contract_route_x gstat hap build t = (sex_contract_x_b gstat hap build t, sex_route_x gstat hap build t) /\
  sex_contract_route_y gstat build t = (sex_contract_y_b gstat build t, sex_route_y gstat build t).
Proof. split; apply stat_contract_route_eq. Qed.

Lemma noise_tests_sound gstat eps a female hap build t :
  (bounded_noise_b eps a female hap build t = true -> bounded_noise eps a female hap build t) /\
  (centred_noise_b (sex_centre t) eps a female hap build t = true -> centred_noise (sex_centre t) eps a female hap build t) /\
  (sex_contract_x_b gstat hap build t = true -> sex_contract_y_b gstat build t = true -> sex_contract gstat hap build t) /\
  (sex_route_x gstat hap build t = 0%Z -> sex_route_y gstat build t = 0%Z -> sex_stat_absent gstat hap build t).
Proof.
  split; [apply bounded_noise_b_sound|]. split; [apply centred_noise_b_sound|].
  split; [apply sex_contract_b_sound|apply sex_route_absent].
Qed.

(* ================================================================================================ *)
(* 5. shift_xx on a bounded-noise sample *)

Lemma x_label_not_auto t : is_auto_name (x_label t) = false.
Proof. destruct t as [|b r]; [reflexivity|]. unfold x_label. destruct (str_prefix "chr" (b_chrom b)); reflexivity. Qed.

(* what counts as autosomal is never what shift_xx moves *)
Lemma auto_sel_not_x t build b : auto_sel t build b = true -> chr_x_filter t build b = false.
Proof.
  unfold auto_sel, chr_x_filter, is_auto_bin. intros H.
  destruct (String.eqb (b_chrom b) (x_label t)) eqn:E; [|reflexivity].
  apply String.eqb_eq in E. rewrite E, x_label_not_auto in H. cbn [orb] in H.
  destruct build as [p|]; [|discriminate]. rewrite H. reflexivity.
Qed.

Lemma auto_sel_same c t build b b' : same_but_log2 c b b' -> auto_sel t build b' = auto_sel t build b.
Proof.
  intros [Hc [Hs [He _]]]. unfold auto_sel, is_auto_bin, parx_filter, in_par. rewrite Hc, Hs, He. reflexivity.
Qed.

(* after shift_xx with the sample's true sex every chrX bin (outside PAR-X) is within eps of the AUTOSOMAL level,
   and the autosomal bins are where they were, within eps of it *)
Lemma bounded_shift_xx eps a female hap build t :
  bounded_noise eps a female hap build t ->
  forall b', In b' (shift_xx hap (Some female) build t) ->
    (chr_x_filter t build b' = true -> near eps a (b_log2 b')) /\
    (auto_sel t build b' = true -> near eps a (b_log2 b')).
Proof.
  intros H b' Hb'. pose proof (shift_xx_spec hap female build t) as S.
  destruct (Forall2_In_r _ _ _ _ S Hb') as [b [Hb K]].
  destruct (chr_x_filter t build b) eqn:E.
  - pose proof (chr_x_filter_same _ t build b b' K) as Ex. pose proof (auto_sel_same _ t build b b' K) as Ea.
    destruct K as (_ & _ & _ & _ & _ & _ & Hl). split.
    + intros _. pose proof (bn_x _ _ _ _ _ _ H b Hb E) as N. apply near_iff in N. apply near_iff. rewrite Hl. lra.
    + intros Ha. rewrite Ea in Ha. apply auto_sel_not_x in Ha. congruence.
  - subst b'. split; [congruence|]. intros Ha. exact (bn_auto _ _ _ _ _ _ H b Hb Ha).
Qed.

(* hence chrX comes within 2 eps of every autosomal bin *)
Lemma bounded_shift_xx_gap eps a female hap build t :
  bounded_noise eps a female hap build t ->
  forall bx ba, In bx (shift_xx hap (Some female) build t) -> In ba (shift_xx hap (Some female) build t) ->
    chr_x_filter t build bx = true -> auto_sel t build ba = true ->
    Qabs (b_log2 bx - b_log2 ba) <= 2 * eps.
Proof.
  intros H bx ba Hx Ha Ex Ea.
  destruct (bounded_shift_xx eps a female hap build t H bx Hx) as [Nx _].
  destruct (bounded_shift_xx eps a female hap build t H ba Ha) as [_ Na].
  specialize (Nx Ex). specialize (Na Ea). apply near_iff in Nx. apply near_iff in Na.
  apply Qabs_upper. lra.
Qed.

(* ... also when shift_xx guesses the sex itself (is_xx=None) *)
Lemma bounded_shift_xx_guessed (gstat : mtable -> Q) eps a female hap build t :
  eps < 1 # 4 -> bounded_noise eps a female hap build t -> sex_contract gstat hap build t ->
  shift_xx hap (guess_xx gstat hap build t) build t = shift_xx hap (Some female) build t /\
  (forall b', In b' (shift_xx hap (guess_xx gstat hap build t) build t) ->
     (chr_x_filter t build b' = true -> near eps a (b_log2 b')) /\
     (auto_sel t build b' = true -> near eps a (b_log2 b'))) /\
  (forall bx ba, In bx (shift_xx hap (guess_xx gstat hap build t) build t) ->
     In ba (shift_xx hap (guess_xx gstat hap build t) build t) ->
     chr_x_filter t build bx = true -> auto_sel t build ba = true -> Qabs (b_log2 bx - b_log2 ba) <= 2 * eps).
Proof.
  intros He H Hc. destruct (bounded_noise_all gstat eps a female hap build t He H Hc) as (_ & G & _).
  rewrite G. split; [reflexivity|]. split.
  - apply (bounded_shift_xx eps a). exact H.
  - apply (bounded_shift_xx_gap eps a). exact H.
Qed.

(* ================================================================================================ *)
(* 6. the property's setting, as far as a deterministic statement goes: every bin within 0.24 of its level *)

Lemma bounded_noise_024 (gstat : mtable -> Q) a female hap build t :
  bounded_noise (24 # 100) a female hap build t -> sex_contract gstat hap build t ->
  sex_decision gstat hap build t = Some (negb female) /\
  guess_xx gstat hap build t = Some female /\
  fst (do_sex_row gstat hap build t) = (if female then "Female" else "Male")%string /\
  (forall bx ba, In bx (shift_xx hap (guess_xx gstat hap build t) build t) ->
     In ba (shift_xx hap (guess_xx gstat hap build t) build t) ->
     chr_x_filter t build bx = true -> auto_sel t build ba = true -> Qabs (b_log2 bx - b_log2 ba) <= 48 # 100).
Proof.
  intros H Hc. assert (He : 24 # 100 < 1 # 4) by (unfold Qlt; simpl; lia).
  destruct (bounded_noise_all gstat _ a female hap build t He H Hc) as (A & B & C).
  split; [exact A|]. split; [exact B|]. split; [exact C|].
  destruct (bounded_shift_xx_guessed gstat _ a female hap build t He H Hc) as (_ & _ & G).
  intros bx ba Hx Ha Ex Ea. specialize (G bx ba Hx Ha Ex Ea).
  eapply Qle_trans; [exact G|]. unfold Qle; simpl; lia.
Qed.

(* ================================================================================================ *)
(* 7. witnesses *)

(* a statistic one can compute in Q: Pearson's chi-square of the 2x2 table (scipy's G statistic needs logarithms) *)
Definition pearson (t : mtable) : Q :=
  let '(a1, a2, b1, b2) := t in
  let n := (a1 + a2 + b1 + b2)%Z in
  let d := (a1 * b2 - a2 * b1)%Z in
  Qred (inject_Z (n * d * d) / inject_Z ((a1 + a2) * (b1 + b2) * (a1 + b1) * (a2 + b2))).

(* (a) the contract is satisfiable on the route WITH statistics: a male sample against a female reference, ten bins
   within 1/8 of their levels; both median tests of chrX yield a statistic (20/3 under the female shift, 0 under the
   male shift), the contract holds, and the decision is male *)
Definition contract_witness : list bin :=
  map (fun v => mkBin "chr1" 0 100 "g" v None None) [-1 # 8; -1 # 16; 0; 1 # 32; 1 # 16; 1 # 8] ++
  map (fun v => mkBin "chrX" 0 100 "g" v None None) [-9 # 8; -33 # 32; -31 # 32; -29 # 32].

Lemma contract_satisfiable :
  bounded_noise (1 # 8) 0 false false None contract_witness /\
  sex_route_x pearson false None contract_witness = 1%Z /\
  sex_contract pearson false None contract_witness /\
  sex_decision pearson false None contract_witness = Some true.
Proof.
  split; [apply bounded_noise_b_sound; vm_compute; reflexivity|].
  split; [vm_compute; reflexivity|].
  split; [apply sex_contract_b_sound; vm_compute; reflexivity|].
  vm_compute. reflexivity.
Qed.

(* (b) the contract cannot be dropped: a male sample (female reference, no chrY) with every bin within 1/16 of its
   level whose autosomal bins all lie slightly above the level and whose chrX bins all lie slightly below theirs.
   Both shifts leave chrX entirely below the autosomes, the two median tests see the SAME contingency table
   (4, 1, 0, 5), so every statistic that is a function of the table gives f = m, the ratio is at most 1 and the sample
   is called female -- whatever the statistic, unless it is 0 on that table (then the medians decide: male). *)
Definition adversarial_witness : list bin :=
  map (fun v => mkBin "chr1" 0 100 "g" v None None) [3 # 64; 4 # 64; 2 # 64; 1 # 64] ++
  map (fun v => mkBin "chrX" 0 100 "g" v None None)
      [-65 # 64; -66 # 64; -67 # 64; -68 # 64; -129 # 128; -131 # 128].

Lemma mood_stat_some gstat s1 s2 T : s1 <> [] -> s2 <> [] -> mood_table s1 s2 = T -> mood_valid T = true ->
  ~ gstat T == 0 -> mood_stat gstat s1 s2 = Some (gstat T).
Proof.
  intros H1 H2 ET HV HS. unfold mood_stat. destruct s1 as [|x1 r1]; [contradiction|]. destruct s2 as [|x2 r2]; [contradiction|].
  rewrite ET, HV. apply qeq_b_false in HS. rewrite HS. reflexivity.
Qed.

Lemma contract_needed :
  bounded_noise (1 # 16) 0 false false None adversarial_witness /\
  forall gstat : mtable -> Q, ~ gstat (4, 1, 0, 5)%Z == 0 ->
    sex_decision gstat false None adversarial_witness = Some false /\
    ~ sex_contract gstat false None adversarial_witness.
Proof.
  split; [apply bounded_noise_b_sound; vm_compute; reflexivity|].
  intros gstat HS.
  set (auto_l := [3 # 64; 4 # 64; 2 # 64; 1 # 64]).
  set (xs := [-65 # 64; -66 # 64; -67 # 64; -68 # 64; -129 # 128; -131 # 128]).
  assert (Ea : map b_log2 (autosomes adversarial_witness None) = auto_l) by (vm_compute; reflexivity).
  assert (Ex : map b_log2 (filter (chr_x_filter adversarial_witness None) adversarial_witness) = xs) by (vm_compute; reflexivity).
  assert (Sf : mood_stat gstat auto_l (map (fun x => qadd x 0) xs) = Some (gstat (4, 1, 0, 5)%Z)).
  { apply mood_stat_some; [discriminate|discriminate|vm_compute; reflexivity|reflexivity|exact HS]. }
  assert (Sm : mood_stat gstat auto_l (map (fun x => qadd x 1) xs) = Some (gstat (4, 1, 0, 5)%Z)).
  { apply mood_stat_some; [discriminate|discriminate|vm_compute; reflexivity|reflexivity|exact HS]. }
  split.
  - rewrite sex_decision_unfold by (vm_compute; discriminate). f_equal.
    assert (Ey : y_lr_of gstat None adversarial_witness = None) by reflexivity.
    rewrite Ey. cbn [score_of]. apply is_xy_of_false.
    unfold x_lr_of. rewrite Ea, Ex. unfold male_lr. cbn [x_shifts fst snd].
    change x_shift_female_dipref with 0. change x_shift_male_dipref with 1. rewrite Sf, Sm.
    cbn [lr_of]. rewrite qdiv_spec. set (s := gstat (4, 1, 0, 5)%Z).
    pose proof (qmax2_floor_pos s) as Hp. destruct (qmax2_spec s lr_denominator_floor) as [H1 _].
    apply Qle_shift_div_r; [exact Hp|]. lra.
  - intros [Cx _]. cbn zeta in Cx. rewrite Ea, Ex in Cx. cbn [x_shifts fst snd] in Cx.
    change x_shift_female_dipref with 0 in Cx. change x_shift_male_dipref with 1 in Cx.
    destruct (Cx _ _ Sf Sm) as (_ & _ & _ & K).
    assert (D : med_diff auto_l (opt_weights (has_weight adversarial_witness) (autosomes adversarial_witness None))
                         (map (fun x => qadd x 1) xs)
                         (opt_weights (has_weight adversarial_witness)
                                      (filter (chr_x_filter adversarial_witness None) adversarial_witness)) <
                med_diff auto_l (opt_weights (has_weight adversarial_witness) (autosomes adversarial_witness None))
                         (map (fun x => qadd x 0) xs)
                         (opt_weights (has_weight adversarial_witness)
                                      (filter (chr_x_filter adversarial_witness None) adversarial_witness)))
      by (vm_compute; reflexivity).
    destruct (K D) as [K1 _]. apply (Qlt_irrefl _ K1).
Qed.

(* (c) the threshold 1/4 is sharp on the route of the differences of medians: a male sample (female reference, 40 chrX
   bins) whose autosomal bins all sit 1/4 below their level and whose chrX bins all sit 1/4 above theirs.  Under either
   shift every value ties with the grand median or lies on one side of it, so neither test yields a statistic; both
   differences of medians are 1/2, the ratio is exactly 1, `> 1` fails, and the sample is called female for EVERY oracle *)
Definition quarter_witness : list bin :=
  map (fun v => mkBin "chr1" 0 100 "g" v None None) (repeat (-1 # 4) 3) ++
  map (fun v => mkBin "chrX" 0 100 "g" v None None) (repeat (-3 # 4) 40).

Lemma quarter_is_sharp :
  bounded_noise (1 # 4) 0 false false None quarter_witness /\
  forall gstat : mtable -> Q, sex_decision gstat false None quarter_witness = Some false.
Proof.
  split; [apply bounded_noise_b_sound; vm_compute; reflexivity|].
  (* both shifts leave one side of the grand median empty: neither test yields a statistic, for any oracle *)
  intros gstat. vm_compute. reflexivity.
Qed.
