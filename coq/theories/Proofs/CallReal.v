(* C01 over the reals: the log2 form of C01_rescaled_log2.  Like Base/RealFacts.v (whose
   exp2 / log2 it uses) this file depends on the standard library's axioms for the reals;
   nothing over Z / Q imports it except the explicitly named corollary in Props/C01.v. *)
From Coq Require Import Reals Lra.
From CNV Require Import Base.RealFacts.

Local Open Scope R_scope.

Lemma Rmax_div_pos a m k : 0 < k -> Rmax (a / k) m = Rmax a (m * k) / k.
Proof.
  intro Hk. unfold Rmax.
  destruct (Rle_dec (a / k) m) as [H|H]; destruct (Rle_dec a (m * k)) as [H'|H'].
  - field. lra.
  - exfalso. apply H'. replace a with (a / k * k) by (field; lra). apply Rmult_le_compat_r; lra.
  - exfalso. apply H. apply Rmult_le_reg_r with k; [exact Hk|].
    replace (a / k * k) with a by (field; lra). exact H'.
  - reflexivity.
Qed.

(* The purity-adjusted path in the property's own terms.  Let the segment's log2 be
   v = log2((p*n + (1-p)*x)/r).  do_call computes a = (r*2^v - x*(1-p))/p, clips it at 0, and
   rewrites log2 to log2(max(a/k, m)) [+ 1 on the rows of the half-ploidy reference].  For a
   reference with r = k copies (no shift) or r = k/2 copies (shift; k even) this is
   log2(max(n, m*k)/r): the log2 ratio a pure sample with n copies shows against that
   reference, n floored at the fraction m (0.001) of the ploidy k. *)
Lemma log2_rescaled (n p r x k m : R) (shift : bool) :
  0 < p -> 0 < r -> 0 < k -> 0 < m -> 0 <= n ->
  0 < (p * n + (1 - p) * x) / r ->
  k = (if shift then 2 * r else r) ->
  log2 (Rmax (Rmax ((r * exp2 (log2 ((p * n + (1 - p) * x) / r)) - x * (1 - p)) / p) 0 / k) m)
    + (if shift then 1 else 0)
  = log2 (Rmax n (m * k) / r).
Proof.
  intros Hp Hr Hk Hm Hn Hy Ek.
  rewrite (log2_inversion n p r x Hp Hr Hy).
  replace (Rmax n 0) with n by (unfold Rmax; destruct (Rle_dec n 0); lra).
  rewrite (Rmax_div_pos n m k Hk).
  assert (Mp : 0 < Rmax n (m * k)).
  { apply Rlt_le_trans with (m * k); [apply Rmult_lt_0_compat; assumption | apply Rmax_r]. }
  destruct shift.
  - rewrite log2_shift by (apply Rdiv_lt_0_compat; assumption).
    f_equal. rewrite Ek. field. lra.
  - rewrite Rplus_0_r, Ek. reflexivity.
Qed.
