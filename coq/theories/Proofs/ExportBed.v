(* C20 proofs, BED and VCF: the column-wise model (Model/Export.v) emits exactly the rows
   the row-wise specification (Spec/Export.v) states, for consistently named tables and
   no / a supported PAR build. *)
From Coq Require Import Qabs.
From CNV Require Import Base.Prelude Base.Str Model.Decimal Gen.CallDefaults Gen.ExportDefaults.
From CNV Require Import Model.Call Spec.Call Proofs.CallNum Proofs.Call Model.Export Spec.Export Proofs.ExportLib.

Local Open Scope Z_scope.

(* ---------------------------------------------------------------- columns as maps *)

Section Columns.
  Variables (c : cfg) (first : string).

  Definition m_ref (hapx : bool) (s : seg) : Z := fst (ref_expect (c_k c) hapx (c_female c) (seg_class c first s)).
  Definition m_exp (hapx : bool) (s : seg) : Z := snd (ref_expect (c_k c) hapx (c_female c) (seg_class c first s)).

  (* the expected copies do not depend on the reference sex *)
  Lemma m_exp_hapx h1 h2 s : m_exp h1 s = m_exp h2 s.
  Proof. unfold m_exp. destruct (seg_class c first s), h1, h2; reflexivity. Qed.

  Lemma use_purity_export : use_purity (Some export_purity) = None.
  Proof. reflexivity. Qed.

  Definition m_ncopies (s : seg) : Z :=
    if c_has_cn c then s_cn s else round_he (abs_pure (s_e s) (m_ref (c_hapx c) s)).

  Lemma absolute_col_map (r x : seg -> Z) rows :
    absolute_col rows (map r rows) (map x rows) = map (fun s => abs_pure (s_e s) (r s)) rows.
  Proof.
    induction rows as [|s t IH]; cbn [map absolute_col]; [reflexivity|].
    unfold absolute_one at 1. rewrite use_purity_export. now rewrite IH.
  Qed.

  Lemma ncopies_col_map rows : ncopies_col c first rows = map m_ncopies rows.
  Proof.
    unfold ncopies_col, m_ncopies, reference_col, expect_col.
    destruct (c_has_cn c); [reflexivity|].
    rewrite (absolute_col_map (m_ref (c_hapx c)) (m_exp (c_hapx c))), map_map. reflexivity.
  Qed.

  Lemma absolute_expect_map rows : absolute_expect c first rows = map (m_exp true) rows.
  Proof. reflexivity. Qed.
End Columns.

(* ---------------------------------------------------------------- the class table *)

Section Table.
  Variables (st : style) (c : cfg) (rows : list seg).
  Hypothesis Hcons : consistent st (seg_first rows).
  Hypothesis Hbuild : build_ok (c_build c).

  Let lb := lower_build (c_build c).
  Let first := seg_first rows.

  Lemma copies_table hapx s :
    ref_expect (c_k c) hapx (c_female c) (seg_class c first s) = sp_copies st lb (c_k c) hapx (c_female c) s.
  Proof. unfold seg_class, sp_copies. now apply class_table. Qed.

  Lemma m_exp_spec hapx s : m_exp c first hapx s = sp_expect st lb (c_k c) (c_hapx c) (c_female c) s.
  Proof.
    rewrite (m_exp_hapx c first hapx (c_hapx c)). unfold m_exp, sp_expect. now rewrite copies_table.
  Qed.

  Lemma m_ncopies_spec s :
    m_ncopies c first s = sp_ncopies st lb (c_k c) (c_hapx c) (c_female c) (c_has_cn c) s.
  Proof.
    unfold m_ncopies, sp_ncopies, m_ref, sp_reference. destruct (c_has_cn c); [reflexivity|].
    rewrite copies_table. apply round_he_comp. apply abs_pure_eq.
  Qed.

  Lemma build_fails_ok : build_fails c = false.
  Proof.
    unfold build_fails. unfold build_ok in Hbuild. destruct (c_build c) as [b|]; [|reflexivity].
    apply build_supported_iff in Hbuild. now rewrite Hbuild.
  Qed.

  (* ------------------------------------------------------------ BED *)

  Let N := sp_ncopies st lb (c_k c) (c_hapx c) (c_female c) (c_has_cn c).
  Let X := sp_expect st lb (c_k c) (c_hapx c) (c_female c).

  Lemma bed_rows_spec label :
    bed_rows label rows (map (m_ncopies c first) rows)
    = map (sp_bed_row st lb (c_k c) (c_hapx c) (c_female c) (c_has_cn c) label) rows.
  Proof.
    unfold bed_rows. rewrite map2_id_map. apply map_ext. intro s.
    unfold sp_bed_row. rewrite m_ncopies_spec. reflexivity.
  Qed.

  Lemma export_bed_shape label shw :
    export_bed c label shw rows =
    Some (match show_of shw with
          | ShowPloidy => select (map (fun s => negb (N s =? c_k c)) rows)
                                 (map (sp_bed_row st lb (c_k c) (c_hapx c) (c_female c) (c_has_cn c) label) rows)
          | ShowVariant => select (map (fun s => negb (N s =? X s)) rows)
                                  (map (sp_bed_row st lb (c_k c) (c_hapx c) (c_female c) (c_has_cn c) label) rows)
          | ShowOther => map (sp_bed_row st lb (c_k c) (c_hapx c) (c_female c) (c_has_cn c) label) rows
          end).
  Proof.
    unfold export_bed. rewrite build_fails_ok, andb_false_r.
    fold first. rewrite (ncopies_col_map c first), (absolute_expect_map c first), bed_rows_spec.
    f_equal. destruct (show_of shw); [| |reflexivity].
    - f_equal. rewrite map_map. apply map_ext. intro s. now rewrite m_ncopies_spec.
    - f_equal. rewrite map2_map_map. apply map_ext. intro s. now rewrite m_ncopies_spec, m_exp_spec.
  Qed.

  Lemma bed_all label :
    export_bed c label "all" rows = Some (sp_bed st lb (c_k c) (c_hapx c) (c_female c) (c_has_cn c) label (fun _ => true) rows).
  Proof.
    rewrite export_bed_shape. change (show_of "all") with ShowOther. unfold sp_bed.
    f_equal. f_equal. clear. induction rows as [|s t IH]; cbn [filter]; [reflexivity | now rewrite <- IH].
  Qed.

  Lemma bed_ploidy label :
    export_bed c label "ploidy" rows
    = Some (sp_bed st lb (c_k c) (c_hapx c) (c_female c) (c_has_cn c) label
                   (sp_off_ploidy st lb (c_k c) (c_hapx c) (c_female c) (c_has_cn c)) rows).
  Proof.
    rewrite export_bed_shape. change (show_of "ploidy") with ShowPloidy. unfold sp_bed.
    now rewrite select_map_map.
  Qed.

  Lemma bed_variant label :
    export_bed c label "variant" rows
    = Some (sp_bed st lb (c_k c) (c_hapx c) (c_female c) (c_has_cn c) label
                   (sp_variant st lb (c_k c) (c_hapx c) (c_female c) (c_has_cn c)) rows).
  Proof.
    rewrite export_bed_shape. change (show_of "variant") with ShowVariant. unfold sp_bed.
    now rewrite select_map_map.
  Qed.

  (* without a cn column the copy number is a nearest integer to r * 2^log2 *)
  Lemma ncopies_nearest s :
    c_has_cn c = false ->
    nearest (N s) (inject_Z (sp_reference st lb (c_k c) (c_hapx c) (c_female c) s) * s_e s).
  Proof.
    intro H. unfold N, sp_ncopies. rewrite H. unfold nearest. apply round_he_nearest.
  Qed.

  (* ------------------------------------------------------------ VCF *)

  Definition sp_fields := vcf_fields st lb (c_k c) (c_hapx c) (c_female c) (c_has_cn c).

  Lemma vcf_one_fields s ci p :
    N s <> X s -> s_probes s = Some p ->
    sp_fields s (vcf_one s (N s) (X s) (N s <? X s)
                         (if N s <? X s then (s_hi s - s_lo s) * svlen_loss_sign else s_hi s - s_lo s) ci p).
  Proof.
    intros Hne Hp.
    constructor; cbn [vcf_one v_chrom v_pos v_end v_svtype v_alt v_svlen v_probes v_format v_sample v_fold v_log2
                              v_id v_ref v_qual v_filter]; fold N X.
    - reflexivity.
    - reflexivity.
    - reflexivity.
    - destruct (N s <? X s) eqn:L; [apply Z.ltb_lt in L | apply Z.ltb_ge in L]; split; intro H;
        try reflexivity; try assumption; try discriminate; lia.
    - destruct (N s <? X s) eqn:L; [apply Z.ltb_lt in L | apply Z.ltb_ge in L]; split; intro H;
        try reflexivity; try discriminate; lia.
    - reflexivity.
    - destruct (N s <? X s); [change svlen_loss_sign with (-1); lia | reflexivity].
    - exact Hp.
    - destruct (N s <? X s); reflexivity.
    - unfold genotype. destruct (N s <? X s) eqn:L.
      + apply Z.ltb_lt in L. assert (G : (X s <? N s) = false) by (apply Z.ltb_ge; lia). rewrite G.
        change gt_hom_at with 0. destruct (N s =? 0); reflexivity.
      + apply Z.ltb_ge in L. assert (G : (X s <? N s) = true) by (apply Z.ltb_lt; lia). rewrite G. reflexivity.
    - split; reflexivity.
    - repeat split; reflexivity.
  Qed.

  Lemma vcf_loop_spec (cis : list (option ciquad)) (l : list seg) :
    length cis = length l ->
    Forall2 sp_fields
            (filter (fun s => sp_variant st lb (c_k c) (c_hapx c) (c_female c) (c_has_cn c) s && sp_numeric s) l)
            (vcf_loop l (map N l) (map X l) (map (fun s => N s <? X s) l)
                      (map (fun s => if N s <? X s then (s_hi s - s_lo s) * svlen_loss_sign else s_hi s - s_lo s) l)
                      cis).
  Proof.
    revert cis. induction l as [|s t IH]; intros [|ci cis] Hl; cbn [length] in Hl; try discriminate;
      cbn [filter map vcf_loop]; [constructor|].
    injection Hl as Hl. specialize (IH cis Hl).
    unfold sp_variant at 1. fold N X.
    destruct (N s =? X s) eqn:E; cbn [negb andb]; [exact IH|].
    apply Z.eqb_neq in E.
    unfold sp_numeric, probes_digit. destruct (s_probes s) as [p|] eqn:P; [|exact IH].
    destruct (0 <=? p); [|exact IH].
    constructor; [|exact IH]. now apply vcf_one_fields.
  Qed.

  Lemma segments2vcf_columns ci :
    segments2vcf c rows ci =
    let loop := vcf_loop rows (map N rows) (map X rows) (map (fun s => N s <? X s) rows)
                  (map (fun s => if N s <? X s then (s_hi s - s_lo s) * svlen_loss_sign else s_hi s - s_lo s) rows) in
    match ci with
    | None => VcfOk (loop (map (fun _ => None) rows))
    | Some cols =>
        if negb (length cols =? length rows)%nat then VcfShape else
        match ci_columns rows cols with
        | Some cis => VcfOk (loop cis)
        | None => VcfShape
        end
    end.
  Proof.
    unfold segments2vcf. rewrite build_fails_ok. fold first.
    rewrite (ncopies_col_map c first), (absolute_expect_map c first).
    assert (EN : map (m_ncopies c first) rows = map N rows) by (apply map_ext; intro s; apply m_ncopies_spec).
    assert (EX : (if c_has_cn c then map (m_exp c first true) rows else expect_col c (c_hapx c) first rows) = map X rows).
    { destruct (c_has_cn c); apply map_ext; intro s; apply m_exp_spec. }
    rewrite EN, EX, map2_map_map, map2_id_map. reflexivity.
  Qed.

  Lemma ci_columns_length cols cis : ci_columns rows cols = Some cis -> length cols = length rows ->
    length cis = length rows.
  Proof.
    unfold ci_columns. intros H L.
    assert (NE : (0 < length rows)%nat) by (destruct rows; [discriminate | cbn; lia]).
    assert (M2 : forall (f : seg -> (option Z * option Z) -> option Z), length (map2 f rows cols) = length rows).
    { intro f. clear -L. revert cols L. induction rows as [|? ? IH]; intros [|? ?] L; cbn in *; try discriminate; try reflexivity.
      f_equal. apply IH. congruence. }
    assert (T : forall (l : list (option Z)), length (tl l) = (length l - 1)%nat) by (intros [|? ?]; cbn; lia).
    destruct rows as [|s0 t0] eqn:R; [discriminate|]. rewrite <- R in *.
    injection H as <-. rewrite map_length.
    apply zip4_length.
    - cbn [length]. rewrite map_length, removelast_length_c20, M2. lia.
    - apply M2.
    - apply M2.
    - rewrite app_length. cbn [length]. rewrite T, M2. lia.
  Qed.

  Lemma vcf_spec ci recs :
    segments2vcf c rows ci = VcfOk recs ->
    Forall2 sp_fields (sp_vcf_rows st lb (c_k c) (c_hapx c) (c_female c) (c_has_cn c) rows) recs.
  Proof.
    rewrite segments2vcf_columns. cbv zeta. unfold sp_vcf_rows.
    destruct ci as [cols|].
    - destruct (negb (length cols =? length rows)%nat) eqn:L; [discriminate|].
      apply negb_false_iff, Nat.eqb_eq in L.
      destruct (ci_columns rows cols) as [cis|] eqn:C; [|discriminate].
      intro H. injection H as <-. apply vcf_loop_spec. now apply (ci_columns_length cols).
    - intro H. injection H as <-. apply vcf_loop_spec. now rewrite map_length.
  Qed.

  Lemma fields_keys l recs :
    Forall2 sp_fields l recs ->
    map (fun r => (v_chrom r, v_end r)) recs = map (fun s => (s_chrom s, s_hi s)) l.
  Proof.
    induction 1 as [|s r l' recs' F _ IH]; [reflexivity|].
    cbn [map]. rewrite IH. destruct F as [-> _ -> _ _ _ _ _ _ _ _ _]. reflexivity.
  Qed.

  Lemma vcf_rows_keys ci recs :
    segments2vcf c rows ci = VcfOk recs ->
    map (fun r => (v_chrom r, v_end r)) recs
    = map (fun s => (s_chrom s, s_hi s)) (sp_vcf_rows st lb (c_k c) (c_hapx c) (c_female c) (c_has_cn c) rows).
  Proof. intro H. apply fields_keys. now apply (vcf_spec ci). Qed.

  Lemma vcf_matches_bed ci recs label bed :
    Forall (fun s => sp_numeric s = true) rows ->
    segments2vcf c rows ci = VcfOk recs -> export_bed c label "variant" rows = Some bed ->
    map (fun r => (v_chrom r, v_end r)) recs = map (fun b : bed_row => let '(ch, _, hi, _, _) := b in (ch, hi)) bed.
  Proof.
    intros Hn Hv Hb. rewrite bed_variant in Hb. injection Hb as <-.
    rewrite (vcf_rows_keys ci recs Hv). unfold sp_vcf_rows, sp_bed. rewrite map_map. cbn [sp_bed_row].
    f_equal. apply filter_ext_in'. intros s Hs. rewrite Forall_forall in Hn. rewrite (Hn s Hs). apply andb_true_r.
  Qed.

  (* without CI columns the export always succeeds *)
  Lemma vcf_total : exists recs, segments2vcf c rows None = VcfOk recs.
  Proof. rewrite segments2vcf_columns. cbv zeta. eexists. reflexivity. Qed.
End Table.
