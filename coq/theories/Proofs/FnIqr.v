(* C19 source tie [loop ties e2]: interquartile_range's body `return np.percentile(a, 75) - np.percentile(a, 25)`
   regenerated from the source on every run (Gen/FnIqr.v fn_iqr; np.percentile is a function-typed input).
   With the model's linear-interpolated percentile for it, this IS Model/Descriptives.v iqr_core. *)
From CNV Require Import Base.Prelude Base.QNum Proofs.QNumLemmas Gen.DescDefaults Gen.FnIqr Model.Descriptives.
Local Open Scope Q_scope.

Theorem source_iqr a : iqr_core a == fn_iqr (fun l p => percentile (inject_Z p) l) a.
Proof. unfold iqr_core, fn_iqr, IQR_HI, IQR_LO. rewrite qsub_spec. reflexivity. Qed.
