(* Second source tie for C04 (DESIGN 9.4): the hand-written per-row functions of Model/Fix.v equal the bodies of
   cnvlib/fix.py mask_bad_bins / apply_weights and cnvlib/cnary.py drop_low_coverage as translated from the source
   on every run (Gen/FnFixMask.v, Gen/FnFixWeights.v, Gen/FnCnaryLow.v). *)
From CNV Require Import Base.Prelude Base.Str Base.QNum Model.Fix Gen.Params Gen.FixDefaults
  Gen.FnFixMask Gen.FnFixWeights Gen.FnCnaryLow.
From Coq Require Import Qabs.
Local Open Scope Q_scope.

(* ---- comparison helpers -------------------------------------------------------------------------------- *)
Lemma qmax2_py_max a b : qmax2 a b == (if Qle_bool b a then a else b).
Proof.
  unfold qmax2. destruct (Qle_bool a b) eqn:E1, (Qle_bool b a) eqn:E2; try reflexivity.
  - apply Qle_bool_iff in E1, E2. apply Qle_antisym; assumption.
  - exfalso. destruct (Qlt_le_dec a b) as [H|H].
    + apply Qlt_le_weak, Qle_bool_iff in H. congruence.
    + apply Qle_bool_iff in H. congruence.
Qed.

Lemma qmin2_py_min a b : qmin2 a b = (if Qle_bool a b then a else b).
Proof. reflexivity. Qed.

(* ---- mask_bad_bins ---------------------------------------------------------------------------------------- *)
(* the bad-bin test of one matched reference row is the translated function: the three comparisons, then the depth
   statement, then -- when the reference has a gc column -- the gc statement *)
Definition fn_mask_bad_bins (has_depth has_gc_col : bool) (log2_ spread depth gc : Q) : bool :=
  let m := fn_mask_depth (fn_mask_cover log2_ spread MIN_REF_COVERAGE MAX_REF_SPREAD) has_depth depth in
  if has_gc_col then fn_mask_gc m gc GC_MIN_FRACTION GC_MAX_FRACTION else m.

Theorem fn_mask_bad_bins_eq c r :
  bad_bin c r = fn_mask_bad_bins (has_rdepth c) (has_gc c) (r_log2 r) (r_spread r) (r_depth r) (r_gc r).
Proof.
  unfold bad_bin, fn_mask_bad_bins, fn_mask_depth, fn_mask_cover, fn_mask_gc, gc_upper, gc_lower, qlt_b, qeq_b.
  cbv zeta. rewrite qmin2_py_min.
  rewrite (Qleb_comp (r_gc r) (r_gc r) (Qeq_refl _) _ _ (qmax2_py_max GC_MIN_FRACTION GC_MAX_FRACTION)).
  destruct (has_rdepth c), (has_gc c); cbn [andb]; rewrite ?orb_false_r; reflexivity.
Qed.

(* ---- drop_low_coverage (cnvlib/cnary.py) as used by fix ---------------------------------------------------- *)
Theorem fn_low_coverage_eq c b :
  low_b c b = fn_drop_idx (blog2 b) (has_sdepth c) (s_depth (fst b)) NULL_LOG2_COVERAGE MIN_REF_COVERAGE.
Proof.
  unfold low_b, fn_drop_idx, low_cut, qlt_b, qeq_b. cbv zeta.
  rewrite (Qleb_comp _ _ (Qred_correct _) (blog2 b) (blog2 b) (Qeq_refl _)).
  destruct (has_sdepth c); cbn [andb]; rewrite ?orb_false_r; reflexivity.
Qed.

(* ---- apply_weights ---------------------------------------------------------------------------------------------- *)
Lemma clip_np_clip w : Qle_bool weight_epsilon 1 = true ->
  clip weight_epsilon 1 w =
  (let c := if Qle_bool weight_epsilon w then w else weight_epsilon in if Qle_bool c 1 then c else 1).
Proof.
  intros H. unfold clip, qlt_b. cbv zeta.
  destruct (Qle_bool weight_epsilon w) eqn:E; cbn [negb].
  - destruct (Qle_bool w 1); reflexivity.
  - rewrite H. reflexivity.
Qed.

(* per bin: the size weight of its class (on-target and off-target statements are the same formula), then the
   0.9/0.1 blend with 1 - spread^2 for a pooled reference, then the clip of the return statement *)
Definition fn_bin_weight (pooled : bool) (var sz mean_sz spread : Q) : Q :=
  let simple := fn_tgt_simple_wt var sz mean_sz in
  if pooled then fn_weight_pooled spread simple weight_epsilon else fn_weight_flat simple weight_epsilon.

Theorem fn_bin_weight_eq pooled var sz mean_sz spread :
  bin_weight pooled var sz mean_sz spread == fn_bin_weight pooled var sz mean_sz spread.
Proof.
  unfold bin_weight, fn_bin_weight. cbv zeta. rewrite Qred_correct.
  rewrite clip_np_clip by reflexivity.
  destruct pooled; reflexivity.
Qed.

Theorem fn_simple_wt_classes var sz mean_sz : fn_anti_simple_wt var sz mean_sz = fn_tgt_simple_wt var sz mean_sz.
Proof. reflexivity. Qed.

(* the pooled-reference condition: `.any()` of the two translated per-row tests *)
Theorem fn_pooled_ref_eq l sw :
  pooled_ref l =
  existsb (fun b => fst (fn_pooled_tests (r_spread (snd b)) (frac1 (r_log2 (snd b))) sw weight_epsilon)) l
  && existsb (fun b => snd (fn_pooled_tests (r_spread (snd b)) (frac1 (r_log2 (snd b))) sw weight_epsilon)) l.
Proof. reflexivity. Qed.

Theorem fn_weights_eq :
  (forall pooled var sz mean_sz spread,
      bin_weight pooled var sz mean_sz spread == fn_bin_weight pooled var sz mean_sz spread) /\
  (forall var sz mean_sz, fn_anti_simple_wt var sz mean_sz = fn_tgt_simple_wt var sz mean_sz) /\
  (forall l sw,
      pooled_ref l =
      existsb (fun b => fst (fn_pooled_tests (r_spread (snd b)) (frac1 (r_log2 (snd b))) sw weight_epsilon)) l
      && existsb (fun b => snd (fn_pooled_tests (r_spread (snd b)) (frac1 (r_log2 (snd b))) sw weight_epsilon)) l).
Proof.
  split; [exact fn_bin_weight_eq|]. split; [exact fn_simple_wt_classes|exact fn_pooled_ref_eq].
Qed.
