(* C16 source tie of do_genemetrics' control flow (cnvlib/reports.py), the statements

       if is_sample_female is None:
           is_sample_female = cnarr.guess_xx(is_haploid_x_reference=..., diploid_parx_genome=...)
       cnarr = cnarr.shift_xx(is_haploid_x_reference, is_sample_female, diploid_parx_genome)
       if segments:
           segments = segments.shift_xx(is_haploid_x_reference, is_sample_female, diploid_parx_genome)
           rows = gene_metrics_by_segment(cnarr, segments, threshold, skip_low)
       else:
           rows = gene_metrics_by_gene(cnarr, threshold, skip_low)

   regenerated from the Python source on every run as Gen/FnGenemetricsFlow.v (fn_gm_dispatch: the rows and the sex used).
   Tables are opaque ids (as in Proofs/FnCnarySelection.v): 1 the bin table, 2 the segment table (0 when it is None or has
   no rows -- the two cases `if segments:` merges); the method .shift_xx sends table i to i + 2 PROVIDED it is given the
   reference flag, the sex and the build of the call (else to 0, no table); gene_metrics_by_gene makes rows 5 from table 3,
   gene_metrics_by_segment rows 6 from tables 3 and 4 (else 0, no rows).  Under that reading ([rows_of]) the rows
   Model/Genes.v do_genemetrics filters ARE the rows of the generated dispatch. *)
From CNV Require Import Base.Prelude Base.Str Gen.Params Gen.GenesDefaults Model.Genes Model.Reports Gen.FnGenemetricsFlow.
From CNV Require Model.Center.

Local Open Scope Z_scope.

Section Flow.
Variables (rows : list bin) (segs : option (list bin)) (th : Q) (sl hap fem : bool) (build : Z).

Definition segs_id : Z := match segs with Some (_ :: _) => 2 | _ => 0 end.

Definition shift_ids (id : Z) (h : bool) (f : option bool) (b : Z) : Z :=
  if Bool.eqb h hap && match f with Some x => Bool.eqb x fem | None => false end && (b =? build)
     && ((id =? 1) || (id =? 2))
  then id + 2 else 0.

Definition by_gene_ids (c : Z) (_ : Q) (s : bool) : Z := if (c =? 3) && Bool.eqb s sl then 5 else 0.
Definition by_segment_ids (c sg : Z) (_ : Q) (s : bool) : Z :=
  if (c =? 3) && (sg =? 4) && Bool.eqb s sl then 6 else 0.

Definition rows_of (id : Z) : list grow :=
  if id =? 5 then gene_metrics_by_gene th sl (shift_xx hap fem rows)
  else if id =? 6 then
    match segs with
    | Some sg => gene_metrics_by_segment th sl (shift_xx hap fem rows) (shift_xx hap fem sg)
    | None => []
    end
  else [].

(* the rows before the closing filter, and the sex they were made with *)
Definition py_dispatch (female guess : option bool) : Z * option bool :=
  fn_gm_dispatch 1 segs_id th sl hap female build guess shift_ids by_segment_ids by_gene_ids.

Definition model_rows : list grow :=
  match segs with
  | Some ((_ :: _) as sg) => gene_metrics_by_segment th sl (shift_xx hap fem rows) (shift_xx hap fem sg)
  | _ => gene_metrics_by_gene th sl (shift_xx hap fem rows)
  end.

Lemma dispatch_known (female guess : option bool) :
  match female with Some f => Some f | None => guess end = Some fem ->
  rows_of (fst (py_dispatch female guess)) = model_rows /\ snd (py_dispatch female guess) = Some fem.
Proof.
  intros E. unfold py_dispatch, fn_gm_dispatch.
  assert (E' : match female with Some _ => female | None => guess end = Some fem).
  { destruct female; exact E. }
  rewrite E'. cbv zeta. unfold shift_ids, by_gene_ids, by_segment_ids, segs_id, model_rows, rows_of.
  rewrite !Bool.eqb_reflx, Z.eqb_refl.
  destruct segs as [[|s sg]|]; cbn; rewrite ?Bool.eqb_reflx; cbn; split; reflexivity.
Qed.

(* the sex is given: the guess plays no role *)
Theorem source_gm_dispatch_given (guess : option bool) :
  rows_of (fst (py_dispatch (Some fem) guess)) = model_rows.
Proof. apply dispatch_known. reflexivity. Qed.

(* the sex is not given: the guess is used *)
Theorem source_gm_dispatch_guess :
  rows_of (fst (py_dispatch None (Some fem))) = model_rows.
Proof. apply dispatch_known. reflexivity. Qed.
End Flow.

(* the model's do_genemetrics = its closing filter on the rows of the generated dispatch *)
Theorem source_gm_dispatch rows segs th mp sl hap fem build guess :
  do_genemetrics rows segs th mp sl hap fem =
  let table := rows_of rows segs th sl hap fem (fst (py_dispatch segs th sl hap fem build (Some fem) guess)) in
  if mp =? 0 then table else filter (fun r => mp <=? n_probes r) table.
Proof.
  cbv zeta. rewrite source_gm_dispatch_given. unfold do_genemetrics, model_rows.
  destruct segs as [[|s sg]|]; reflexivity.
Qed.

(* the sex the bins are shifted with (Model/Reports.v female_for_bins) is the generated one: the given sex, else the guess *)
Theorem source_gm_female gstat (o : gm_opts) rows segs th sl build :
  female_for_bins gstat o rows =
  snd (fn_gm_dispatch 1 segs th sl (o_hap o) (o_female o) build
         (guess_of gstat true true (o_hap o) (o_build o) rows)
         (fun id _ _ _ => id) (fun _ _ _ _ => 0) (fun _ _ _ => 0)).
Proof.
  unfold female_for_bins, fn_gm_dispatch. cbv zeta.
  destruct (o_female o); destruct (negb (segs =? 0)); reflexivity.
Qed.
