(* C01 source tie of the row masks of cnvlib/cnary.py that the purity-adjusted path reads
   (get_as_dframe_and_set_reference_and_expect_copies and log2_ratios call chr_x_filter / chr_y_filter / pary_filter,
   which call parx_filter / pary_filter and compare with chr_x_label / chr_y_label): the six functions, WHOLE, read per
   row, are regenerated from the Python source on every run (Gen/FnCallRowClass.v).  Here: on a non-empty table without
   cached labels the two generated label functions are Model/Call.v x_label / y_label of the first row's chromosome, and
   the generated masks on a row are exactly the class Model/Call.v row_class gives it -- chr_x_filter selects class
   ChrX, chr_y_filter ChrY, parx_filter ParX, pary_filter ParY, none of them Auto.  The PAR bounds the filters look up
   (params.PSEUDO_AUTSOMAL_REGIONS[build][key], opaque inputs of the generated functions) are those of Gen/Params.v
   PAR_TABLE (the data translator's copy of the same dict) for the lower-cased build. *)
From CNV Require Import Base.Prelude Base.Str Gen.Params Gen.CallDefaults Gen.FnCallRowClass Model.Call.
From CNV Require Proofs.Call Gen.FnCallRefExpect Proofs.FnCallRefExpect.
Local Open Scope Z_scope.

(* params.PSEUDO_AUTSOMAL_REGIONS[genome_build.lower()][key] *)
Definition par_bound (b key : string) : Z * Z :=
  match par_lookup PAR_TABLE (lower_str b) key with Some p => p | None => (0, 0) end.

(* the generated label functions on a table of n rows whose meta holds no cached label *)
Definition gen_x_label (n : Z) (first : string) : string := fn_rc_chr_x_label false EmptyString n first.
Definition gen_y_label (n : Z) (first : string) : string := fn_rc_chr_y_label false EmptyString n (gen_x_label n first).

(* the generated PAR filters of a row, the looked-up bounds filled in *)
Definition gen_parx (xl chrom : string) (lo hi : Z) (b : string) : bool :=
  fn_rc_parx_filter chrom lo hi b xl (fst (par_bound b "PAR1X")) (snd (par_bound b "PAR1X"))
                    (fst (par_bound b "PAR2X")) (snd (par_bound b "PAR2X")).
Definition gen_pary (yl chrom : string) (lo hi : Z) (b : string) : bool :=
  fn_rc_pary_filter chrom lo hi b yl (fst (par_bound b "PAR1Y")) (snd (par_bound b "PAR1Y"))
                    (fst (par_bound b "PAR2Y")) (snd (par_bound b "PAR2Y")).

(* chr_x_filter(diploid_parx_genome) / chr_y_filter(diploid_parx_genome) of a row: the PAR filter is only called (and its
   result only read) when a build is given *)
Definition gen_x_mask (build : option string) (xl chrom : string) (lo hi : Z) : bool :=
  match build with
  | Some b => fn_rc_chr_x_filter chrom xl true (gen_parx xl chrom lo hi b)
  | None => fn_rc_chr_x_filter chrom xl false false
  end.
Definition gen_y_mask (build : option string) (yl chrom : string) (lo hi : Z) : bool :=
  match build with
  | Some b => fn_rc_chr_y_filter chrom yl true (gen_pary yl chrom lo hi b)
  | None => fn_rc_chr_y_filter chrom yl false false
  end.
Definition gen_pary_mask (build : option string) (yl chrom : string) (lo hi : Z) : bool :=
  match build with Some b => gen_pary yl chrom lo hi b | None => false end.
Definition gen_parx_mask (build : option string) (xl chrom : string) (lo hi : Z) : bool :=
  match build with Some b => gen_parx xl chrom lo hi b | None => false end.

Lemma source_labels n first : n <> 0 ->
  gen_x_label n first = x_label first /\ gen_y_label n first = y_label first.
Proof.
  intro H. unfold gen_y_label, gen_x_label, fn_rc_chr_x_label, fn_rc_chr_y_label. cbv zeta.
  destruct (Z.eqb_spec n 0) as [E|_]; [contradiction|]. cbn [negb].
  split; reflexivity.
Qed.

(* an empty table has the empty label (outside the model: call_clonal's rows come with a first row) *)
Lemma source_labels_empty first : gen_x_label 0 first = EmptyString /\ gen_y_label 0 first = EmptyString.
Proof. split; reflexivity. Qed.

(* a cached label wins *)
Lemma source_labels_cached cl n first xl :
  fn_rc_chr_x_label true cl n first = cl /\ fn_rc_chr_y_label true cl n xl = cl.
Proof. split; reflexivity. Qed.

Lemma gen_parx_eq b xl chrom lo hi : Call.supported_lower (lower_str b) ->
  gen_parx xl chrom lo hi b = String.eqb chrom xl && in_par b par_keys_x lo hi.
Proof.
  unfold gen_parx, fn_rc_parx_filter, par_bound, in_par. cbv zeta.
  intros [E | E]; rewrite E; cbn [existsb par_keys_x]; rewrite orb_false_r; reflexivity.
Qed.

Lemma gen_pary_eq b yl chrom lo hi : Call.supported_lower (lower_str b) ->
  gen_pary yl chrom lo hi b = String.eqb chrom yl && in_par b par_keys_y lo hi.
Proof.
  unfold gen_pary, fn_rc_pary_filter, par_bound, in_par. cbv zeta.
  intros [E | E]; rewrite E; cbn [existsb par_keys_y]; rewrite orb_false_r; reflexivity.
Qed.

Lemma labels_differ first : String.eqb (y_label first) (x_label first) = false.
Proof.
  unfold y_label, x_label. destruct (str_prefix chr_prefix first); reflexivity.
Qed.

Definition is_parx (c : cls) : bool := match c with ParX => true | _ => false end.

(* the generated masks of a row ARE its class *)
Lemma source_row_class build first chrom lo hi :
  Call.build_ok build ->
  let xl := x_label first in
  let yl := y_label first in
  let c := row_class build first chrom lo hi in
  FnCallRefExpect.is_x c = gen_x_mask build xl chrom lo hi /\
  FnCallRefExpect.is_y c = gen_y_mask build yl chrom lo hi /\
  FnCallRefExpect.is_pary c = gen_pary_mask build yl chrom lo hi /\
  is_parx c = gen_parx_mask build xl chrom lo hi.
Proof.
  intro Hb. cbv zeta.
  unfold row_class, gen_x_mask, gen_y_mask, gen_pary_mask, gen_parx_mask, fn_rc_chr_x_filter, fn_rc_chr_y_filter.
  cbv zeta.
  destruct build as [b|].
  - cbn [Call.build_ok] in Hb. rewrite (gen_parx_eq b _ chrom lo hi Hb), (gen_pary_eq b _ chrom lo hi Hb).
    destruct (String.eqb chrom (x_label first)) eqn:EX.
    + apply String.eqb_eq in EX. subst chrom. rewrite String.eqb_sym, labels_differ.
      destruct (in_par b par_keys_x lo hi); repeat split; reflexivity.
    + destruct (String.eqb chrom (y_label first)).
      * destruct (in_par b par_keys_y lo hi); repeat split; reflexivity.
      * repeat split; reflexivity.
  - destruct (String.eqb chrom (x_label first)) eqn:EX.
    + apply String.eqb_eq in EX. subst chrom. rewrite String.eqb_sym, labels_differ. repeat split; reflexivity.
    + destruct (String.eqb chrom (y_label first)); repeat split; reflexivity.
Qed.

(* every class is decided by the four masks *)
Lemma source_row_class_auto build first chrom lo hi :
  Call.build_ok build ->
  let xl := x_label first in
  let yl := y_label first in
  (row_class build first chrom lo hi = Auto <->
   gen_x_mask build xl chrom lo hi = false /\ gen_y_mask build yl chrom lo hi = false /\
   gen_pary_mask build yl chrom lo hi = false /\ gen_parx_mask build xl chrom lo hi = false).
Proof.
  intro Hb. cbv zeta.
  destruct (source_row_class build first chrom lo hi Hb) as [A [B [C D]]]. cbv zeta in A, B, C, D.
  rewrite <- A, <- B, <- C, <- D.
  destruct (row_class build first chrom lo hi); cbn; split; intro H;
    try reflexivity; try discriminate; try (repeat split; reflexivity);
    destruct H as [H1 [H2 [H3 H4]]]; discriminate.
Qed.

(* composed with FnCallRefExpect: the generated column code of get_as_dframe_and_set_reference_and_expect_copies fed
   with the generated masks of the row gives the (reference, expect) copies the model assigns to the row *)
Lemma source_row_copies k hapx female build first chrom lo hi :
  Call.build_ok build ->
  let xl := x_label first in
  let yl := y_label first in
  Gen.FnCallRefExpect.fn_ref_expect k k hapx female
    (gen_x_mask build xl chrom lo hi) (gen_y_mask build yl chrom lo hi)
    (match build with Some _ => true | None => false end) (gen_pary_mask build yl chrom lo hi)
  = ref_expect k hapx female (row_class build first chrom lo hi).
Proof.
  intro Hb. cbv zeta.
  destruct (source_row_class build first chrom lo hi Hb) as [A [B [C _]]]. cbv zeta in A, B, C.
  rewrite <- A, <- B, <- C.
  apply FnCallRefExpect.source_ref_expect.
  intro E. destruct build as [b|]; [reflexivity|].
  unfold row_class in E. destruct (String.eqb chrom (x_label first)); [discriminate|].
  destruct (String.eqb chrom (y_label first)); discriminate.
Qed.

(* composed with FnCall's log2_ratios: the two masks log2_ratios reads are the generated filters of the row *)
From CNV Require Gen.FnCall Proofs.FnCall.
Lemma source_row_log2 (exp2 log2 : Q -> Q) :
  (forall y, (0 < y)%Q -> (exp2 (log2 y) == y)%Q) ->
  (forall v, (exp2 (v + 1) == 2 * exp2 v)%Q) ->
  forall a k hapx build first chrom lo hi,
    Call.build_ok build ->
    (exp2 (Gen.FnCall.fn_log2_ratios log2 a k hapx min_abs_val false
             (gen_x_mask build (x_label first) chrom lo hi) (gen_y_mask build (y_label first) chrom lo hi))
     == rescaled a k (shifted hapx (row_class build first chrom lo hi)))%Q.
Proof.
  intros H1 H2 a k hapx build first chrom lo hi Hb.
  destruct (source_row_class build first chrom lo hi Hb) as [A [B _]]. cbv zeta in A, B.
  rewrite <- A, <- B.
  exact (FnCall.fn_log2_ratios_eq exp2 log2 H1 H2 a k hapx (row_class build first chrom lo hi)).
Qed.
