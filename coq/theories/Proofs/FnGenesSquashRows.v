(* C16 source tie of squash_rows, the function nested in CopyNumArray.squash_genes (cnvlib/cnary.py):

       start = rows.start.iat[0]
       end = rows.end.iat[-1]
       ...
       for xfield in ("depth", "gc", "rmask", "spread", "weight"):
           if xfield in self:
               outrow.append(summary_func(rows[xfield]))

   regenerated from the Python source on every run as Gen/FnGenesSquashRows.v (fn_squash_rows_span: which of the first /
   last cells -- four distinct inputs -- are taken; fn_squash_xfield_step: the values one iteration appends to outrow).
   Here: Model/Reports.v squash_values (the merged row of a group of two or more bins) takes its start and end through
   the generated choice, and its extra-field cells ARE the generated step over the tuple of field names. *)
From CNV Require Import Base.Prelude Base.Str Gen.Params Gen.GenesDefaults Model.Genes Model.Reports Gen.FnGenesSquashRows.

Local Open Scope Z_scope.

Definition py_xfield_cells (est : list Q -> Q) (ccols : list string) (rows : list bin) (x : string) : list cell :=
  map (fun q => CQ (Some q)) (fn_squash_xfield_step (mem_string x ccols) (est (xfield_values x rows))).

Theorem source_squash_values (est : list Q -> Q) (ccols : list string) (name : string) (b0 : bin) (rows : list bin) :
  let l := last rows b0 in
  let '(s, e) := fn_squash_rows_span (b_start b0) (b_start l) (b_end b0) (b_end l) in
  squash_values est ccols name b0 rows =
  [CS (b_chr b0); CZ s; CZ e; CS name; CQ (Some (est (map b_log2 rows)))]
  ++ flat_map (py_xfield_cells est ccols rows) SQUASH_XFIELDS
  ++ (if mem_string COL_PROBES ccols then [CZ (sumZ (map b_probes rows))] else []).
Proof.
  cbv zeta. unfold fn_squash_rows_span, squash_values. cbv zeta. f_equal. f_equal.
  apply flat_map_ext. intro x. unfold py_xfield_cells, fn_squash_xfield_step.
  destruct (mem_string x ccols); reflexivity.
Qed.
