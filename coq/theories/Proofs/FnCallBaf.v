(* Source tie for the BAF part of cnvlib/call.py (C02): rescale_baf and the allelic split of
   do_call (the statements from `upper_baf = ...` to the NaN masks, read per element), as
   regenerated from the Python source on every run (Gen/FnCall.v), are the model functions
   of Model/Baf.v. *)
From Coq Require Import Qround Qabs.
From CNV Require Import Base.Prelude Base.Str Gen.CallDefaults Gen.FnCallBaf Model.Call Model.Baf.
From CNV Require Base.QNum Proofs.CallNum.
From Coq Require Import Lqa.   (* after Prelude: `lra` over Q *)
Local Open Scope Z_scope.

Lemma normal_baf_lit : normal_baf = (1 # 2)%Q. Proof. reflexivity. Qed.

(* rescale_baf with its default normal_baf *)
Lemma fn_rescale_baf_eq (p b : Q) :
  match rescale_baf p (Some b) with
  | Some t => (fn_rescale_baf p b normal_baf == t)%Q
  | None => False
  end.
Proof.
  unfold rescale_baf, fn_rescale_baf. rewrite Qred_correct.
  change (inject_Z 1) with 1%Q. reflexivity.
Qed.

(* the generated clip in Q of an integer-valued number, truncated, is Z.min / Z.max *)
Lemma gen_clip_trunc (z cn : Z) :
  (let tr := (let clip := (if Qle_bool (inject_Z 0) (inject_Z z) then inject_Z z else inject_Z 0) in
              if Qle_bool clip (inject_Z cn) then clip else inject_Z cn) in
   if Qle_bool 0 tr then QNum.floorQ tr else QNum.ceilQ tr)
  = Z.min (Z.max z 0) cn.
Proof.
  cbv zeta. unfold QNum.floorQ, QNum.ceilQ.
  assert (T : forall w : Z, (if Qle_bool 0 (inject_Z w) then Qfloor (inject_Z w) else Qceiling (inject_Z w)) = w).
  { intro w. destruct (Qle_bool 0 (inject_Z w)); [apply Qfloor_Z | apply Qceiling_Z]. }
  assert (L : forall u w : Z, Qle_bool (inject_Z u) (inject_Z w) = (u <=? w)).
  { intros u w. destruct (u <=? w) eqn:E.
    - apply Qle_bool_iff. rewrite <- Zle_Qle. apply Z.leb_le. exact E.
    - destruct (Qle_bool (inject_Z u) (inject_Z w)) eqn:E2; [|reflexivity].
      apply Qle_bool_iff in E2. rewrite <- Zle_Qle in E2. apply Z.leb_le in E2. congruence. }
  rewrite (L 0 z).
  destruct (0 <=? z) eqn:E0.
  - rewrite (L z cn). destruct (z <=? cn) eqn:E1; rewrite T.
    + apply Z.leb_le in E0, E1. lia.
    + apply Z.leb_le in E0. apply Z.leb_gt in E1. lia.
  - rewrite (L 0 cn). destruct (0 <=? cn) eqn:E1; rewrite T.
    + apply Z.leb_gt in E0. apply Z.leb_le in E1. lia.
    + apply Z.leb_gt in E0, E1. lia.
Qed.

Lemma gen_upper_baf (baf : option Q) :
  ((match (match (match (match baf with Some o => Some (Qminus o (1 # 2)) | None => None end)
                  with Some o => Some (Qabs o) | None => None end)
           with Some o => Some (Qplus o (1 # 2)) | None => None end)
    with Some f => f | None => inject_Z 1 end) == upper_baf baf)%Q.
Proof.
  destruct baf as [b|]; cbn [upper_baf].
  - rewrite Qred_correct. reflexivity.
  - reflexivity.
Qed.

(* the allelic split as written in do_call IS Model/Baf.v's `alleles`, for every input *)
Lemma fn_alleles_eq (baf : option Q) (a : Q) (cn : Z) : fn_alleles baf a cn = alleles a baf cn.
Proof.
  unfold fn_alleles. cbv zeta.
  set (ub := match (match (match (match baf with Some o => Some (Qminus o (1 # 2)) | None => None end)
                            with Some o => Some (Qabs o) | None => None end)
                     with Some o => Some (Qplus o (1 # 2)) | None => None end)
             with Some f => f | None => inject_Z 1 end).
  assert (U : (ub == upper_baf baf)%Q) by apply gen_upper_baf.
  assert (R : QNum.round_half_even (Qmult a ub) = round_he (major_raw a baf)).
  { change (QNum.round_half_even (Qmult a ub)) with (round_he (Qmult a ub)). apply CallNum.round_he_comp.
    unfold major_raw. rewrite Qred_correct, U. reflexivity. }
  rewrite R.
  change (inject_Z 0) with (inject_Z 0).
  pose proof (gen_clip_trunc (round_he (major_raw a baf)) cn) as G. cbv zeta in G. rewrite G.
  unfold alleles, cn1_of, is_missing. change cn1_clip_low with 0. change null_cn_above with 0.
  destruct baf as [b|]; cbn [andb]; [reflexivity|].
  destruct (0 <? cn); reflexivity.
Qed.
