(* flatten: the per-group result (Proofs/IvFlattenGroup.v) lifted over the groups
   of a sorted table, the fast path, and one chromosome of a whole table. *)
From CNV Require Import Base.Prelude Model.IvRow Model.Intervals Spec.Cover.
From CNV Require Import Proofs.IvCover Proofs.IvBreaks Proofs.IvMerge Proofs.IvCount Proofs.IvFlattenGroup.
From CNV Require Gen.IvDefaults.

Section Flatten.
Context {A : Type} (comb : A -> list A -> A).
Notation row := (@row A).
Implicit Types (r f p : row) (t : list row) (gs : list (list row)).

Lemma boundary_app t1 t2 y : boundary (t1 ++ t2) y <-> boundary t1 y \/ boundary t2 y.
Proof.
  unfold boundary. split.
  - intros [r [Hin H]]. apply in_app_or in Hin as [Hin|Hin]; [left|right]; eauto.
  - intros [[r [Hin H]] | [r [Hin H]]]; exists r; split; auto; apply in_or_app; auto.
Qed.

Lemma boundary_perm t1 t2 y : Permutation t1 t2 -> boundary t1 y -> boundary t2 y.
Proof. intros P [r [Hin H]]. exists r. split; auto. eapply Permutation_in; eauto. Qed.

Lemma hd_opt_In {C} (l : list C) x : hd_opt l = Some x -> In x l.
Proof. destruct l; simpl; intros H; inversion H; auto. Qed.

Lemma flatten_groups_spec M gs :
  groups_ok 0 M gs -> valid (concat gs) ->
  let out := flat_map (flatten_group comb) gs in
  (forall z, covers out z <-> covers (concat gs) z) /\
  sorted_disjoint out /\ valid out /\
  Forall (fun p => M < lo p) out /\
  Forall (fun r => M < lo r) (concat gs) /\
  (forall y p, boundary (concat gs) y -> In p out -> ~ (lo p < y < hi p)).
Proof.
  revert M. induction gs as [|grp rest IH]; intros M H Hv.
  - simpl. split; [tauto|]. split; [exact I|]. split; [constructor|].
    split; [constructor|]. split; [constructor|]. intros y p _ [].
  - destruct grp as [|f g']; [destruct H|]. destruct H as (HM & C & G).
    cbn [concat] in Hv. apply valid_app in Hv as [Hvg Hvr].
    destruct (flatten_group_spec comb f g' C Hvg) as (Gc & Gs & Gv & Gb & Gne & Gy).
    set (Mi := maxhi (hi f) g') in *.
    destruct (IH Mi G Hvr) as (Rc & Rs & Rv & Rp & Rr & Ry). clear IH.
    set (pieces := flatten_group comb (f :: g')) in *.
    set (rout := flat_map (flatten_group comb) rest) in *.
    assert (Hf : lo f < hi f) by (apply valid_cons in Hvg; tauto).
    assert (HMi : hi f <= Mi) by apply maxhi_ge.
    rewrite Forall_forall in Gb, Rp, Rr.
    cbn [flat_map concat]. fold pieces rout. cbv zeta.
    split; [|split; [|split; [|split; [|split]]]].
    + intros z. rewrite !covers_app, Gc, Rc, (group_covers f g' z C). tauto.
    + apply chain_app; auto. intros a b Ha Hb.
      apply last_opt_In in Ha. apply hd_opt_In in Hb.
      specialize (Gb a Ha). specialize (Rp b Hb). simpl in *. lia.
    + apply valid_app; auto.
    + apply Forall_app. split; rewrite Forall_forall; intros p Hp.
      * specialize (Gb p Hp). simpl in Gb. lia.
      * specialize (Rp p Hp). simpl in Rp. lia.
    + apply Forall_app. split; rewrite Forall_forall; intros r Hr.
      * destruct Hr as [<-|Hr]; [lia|].
        pose proof (lsorted_all _ _ (connected_lsorted _ _ _ C)) as Hl.
        rewrite Forall_forall in Hl. specialize (Hl r Hr). simpl in Hl. lia.
      * specialize (Rr r Hr). simpl in Rr. lia.
    + intros y p Hy Hp. apply boundary_app in Hy. apply in_app_or in Hp.
      destruct Hy as [Hy|Hy]; destruct Hp as [Hp|Hp].
      * apply Gy; auto.
      * pose proof (group_boundary_bounds f g' y C Hvg Hy) as Hb. fold Mi in Hb.
        specialize (Rp p Hp). simpl in Rp. lia.
      * destruct Hy as [r [Hr Hy]]. specialize (Rr r Hr). simpl in Rr.
        pose proof (valid_in _ _ Hvr Hr). specialize (Gb p Hp). simpl in Gb. lia.
      * apply Ry; auto.
Qed.

Theorem flatten_slow_spec t : valid t ->
  let out := flatten_slow comb t in
  (forall z, covers out z <-> covers t z) /\ sorted_disjoint out /\ valid out /\
  (forall y p, boundary t y -> In p out -> ~ (lo p < y < hi p)).
Proof.
  intros Hv. unfold flatten_slow.
  assert (Hbp : Gen.IvDefaults.flatten_group_bp = 0) by reflexivity. rewrite Hbp.
  destruct t as [|r0 t0] eqn:Et.
  - simpl. split; [tauto|]. split; [exact I|]. split; [constructor|]. intros y p _ [].
  - rewrite <- Et in *. assert (Hne : t <> []) by (rewrite Et; discriminate).
    destruct (groups_struct 0 t) as (M & gs & Eg & G & Ec); [lia | exact Hne |].
    rewrite Eg. cbv zeta.
    assert (Hvs : valid (concat gs)).
    { rewrite Ec. eapply valid_perm; [apply Permutation_sym, sort_rows_perm | exact Hv]. }
    destruct (flatten_groups_spec M gs G Hvs) as (Fc & Fs & Fv & _ & _ & Fy).
    split; [|split; [|split]]; auto.
    + intros z. rewrite Fc, Ec. apply covers_perm, sort_rows_perm.
    + intros y p Hy Hp. apply (Fy y p); auto. rewrite Ec.
      eapply boundary_perm; [apply Permutation_sym, sort_rows_perm | exact Hy].
Qed.

(* ---- the fast path ---------------------------------------------------------------- *)

Lemma no_overlap_from_chain cmax (rest : list row) :
  no_overlap_from cmax rest = true ->
  sorted_disjoint rest /\ (forall q c, hd_opt rest = Some q -> c <= cmax -> c <= lo q).
Proof.
  revert cmax. induction rest as [|r t IH]; intros cmax H.
  - split; [exact I | discriminate].
  - cbn [no_overlap_from] in H. apply andb_prop in H as [H1 H2].
    destruct (IH _ H2) as [IH1 IH2]. split.
    + unfold sorted_disjoint in *. cbn [chain]. split; auto.
      destruct t as [|b t']; auto. apply (IH2 b (hi r) eq_refl). lia.
    + intros q c Hq Hc. inversion Hq; subst. lia.
Qed.

Lemma no_overlap_chain t : no_overlap t = true -> sorted_disjoint t.
Proof.
  destruct t as [|r t]; [intros; exact I|]. cbn [no_overlap]. intros H.
  destruct (no_overlap_from_chain (hi r) t H) as [H1 H2].
  unfold sorted_disjoint in *. cbn [chain]. split; auto.
  destruct t as [|b t']; auto. apply (H2 b (hi r) eq_refl). lia.
Qed.

Lemma no_overlap_from_filter (sel : row -> bool) l c c' :
  no_overlap_from c l = true -> c' <= c -> no_overlap_from c' (filter sel l) = true.
Proof.
  revert c c'. induction l as [|r t IH]; intros c c' H Hc; auto.
  cbn [no_overlap_from] in H. apply andb_prop in H as [H1 H2]. cbn [filter].
  destruct (sel r).
  - cbn [no_overlap_from]. apply andb_true_intro. split; [lia|].
    apply (IH (Z.max c (hi r))); auto. lia.
  - apply (IH (Z.max c (hi r))); auto. lia.
Qed.

Lemma no_overlap_from_filter_top (sel : row -> bool) l c :
  no_overlap_from c l = true -> no_overlap (filter sel l) = true.
Proof.
  revert c. induction l as [|r t IH]; intros c H; auto.
  cbn [no_overlap_from] in H. apply andb_prop in H as [H1 H2]. cbn [filter].
  destruct (sel r).
  - cbn [no_overlap]. apply (no_overlap_from_filter sel t (Z.max c (hi r))); auto. lia.
  - apply (IH _ H2).
Qed.

Lemma no_overlap_filter (sel : row -> bool) l :
  no_overlap l = true -> no_overlap (filter sel l) = true.
Proof.
  destruct l as [|r t]; auto. cbn [no_overlap filter]. intros H.
  destruct (sel r).
  - cbn [no_overlap]. apply (no_overlap_from_filter sel t (hi r)); auto. lia.
  - apply (no_overlap_from_filter_top sel t (hi r) H).
Qed.

(* in a sorted, disjoint, valid table no boundary lies strictly inside a row *)
Lemma disjoint_boundaries t :
  sorted_disjoint t -> valid t ->
  forall y p, boundary t y -> In p t -> ~ (lo p < y < hi p).
Proof.
  induction t as [|r t IH]; intros Hs Hv y p Hy Hp; [destruct Hp|].
  pose proof (sorted_disjoint_head r t Hv Hs) as Hh. rewrite Forall_forall in Hh.
  apply valid_cons in Hv as [Hr Hv].
  destruct Hy as [r1 [Hr1 Hy]].
  destruct Hr1 as [<-|Hr1]; destruct Hp as [<-|Hp].
  - lia.
  - specialize (Hh p Hp). lia.
  - specialize (Hh r1 Hr1). pose proof (valid_in _ _ Hv Hr1). lia.
  - apply (IH (chain_tail _ _ _ Hs) Hv y p); auto. exists r1; auto.
Qed.

(* ---- flatten of one chromosome of a whole table ---------------------------------------- *)

Theorem flatten_sel_spec (whole : list row) (sel : row -> bool) :
  valid whole ->
  let t := filter sel whole in
  let fl := flatten_sel comb (no_overlap whole) t in
  (forall z, covers fl z <-> covers t z) /\ sorted_disjoint fl /\ valid fl /\
  (forall y p, boundary t y -> In p fl -> ~ (lo p < y < hi p)).
Proof.
  intros Hv t fl. subst fl. unfold flatten_sel.
  assert (Hvt : valid t) by (subst t; apply valid_filter; exact Hv).
  destruct t as [|r0 t0] eqn:Et.
  - split; [tauto|]. split; [exact I|]. split; [constructor|]. intros y p _ [].
  - rewrite <- Et in *. destruct (no_overlap whole) eqn:Hf.
    + assert (Hs : sorted_disjoint t).
      { apply no_overlap_chain. subst t. apply no_overlap_filter. exact Hf. }
      split; [tauto|]. split; [exact Hs|]. split; [exact Hvt|].
      apply disjoint_boundaries; auto.
    + apply flatten_slow_spec. exact Hvt.
Qed.

End Flatten.
