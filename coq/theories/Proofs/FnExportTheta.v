(* C20 source tie of theta_read_counts (per element): the body is regenerated from the Python source on every
   run (Gen/FnExportTheta.v fn_theta_count).  Here: with the defaults of the source (Gen/ExportDefaults.v
   theta_depth / theta_bin_width / theta_read_len) it IS Model/Export.v theta_count on a finite log2 ratio,
   and the NaN count (0) on a missing one. *)
From Coq Require Import Qround.
From CNV Require Import Base.Prelude Base.Str Base.QNum Gen.ExportDefaults Gen.FnExportTheta Model.Call Model.Export
  Proofs.CallNum Proofs.FnCall Proofs.QNumLemmas.

Local Open Scope Q_scope.

Lemma trunc_inject (z : Z) :
  (let t := inject_Z z in if Qle_bool 0 t then floorQ t else ceilQ t) = z.
Proof.
  cbn zeta. destruct (Qle_bool 0 (inject_Z z)); [apply floorQ_Z|].
  unfold ceilQ, Qceiling. rewrite <- inject_Z_opp, Qfloor_Z. lia.
Qed.

Lemma source_theta_count (exp2 : Q -> Q) v nb :
  fn_theta_count exp2 (Some v) nb theta_depth theta_bin_width theta_read_len = theta_count (exp2 v) nb.
Proof.
  unfold fn_theta_count, theta_count. rewrite trunc_inject.
  rewrite round_half_even_is_round_he. apply round_he_comp.
  unfold theta_value. rewrite !Qred_correct. unfold Qdiv. ring.
Qed.

Lemma source_theta_count_nan (exp2 : Q -> Q) nb d w l :
  fn_theta_count exp2 None nb d w l = theta_nan_count.
Proof. reflexivity. Qed.
