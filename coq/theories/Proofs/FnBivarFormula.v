(* C19 source tie [loop ties e2]: biweight_midvariance's result

       if not w[mask].any(): return mad * 1.4826
       n = mask.sum(); d_ = d[mask]; w_ = (w ** 2)[mask]
       return np.sqrt((n * (d_ ** 2 * (1 - w_) ** 4).sum()) / (((1 - w_) * (1 - 5 * w_)).sum() ** 2))

   regenerated from cnvlib/descriptives.py on every run (Gen/FnBivarFormula.v): fn_bivar_terms is the masked pair
   (d_, w_) of one element, fn_bivar_result the statement range with the two reductions as inputs -- they are keyed by
   their SOURCE TEXT, so the summands `d_ ** 2 * (1 - w_) ** 4` and `(1 - w_) * (1 - 5 * w_)` are pinned (bivar_num_term /
   bivar_den_term below restate them) -- and np.sqrt the oracle.  Here: with the reductions taken over the model's kept
   pairs, the generated result is sqrt of Model/Descriptives.v bv_formula when some kept w is non-zero, and squares to
   bv_fallback otherwise, i.e. bivar_sq_core is the square of what the source returns. *)
From CNV Require Import Base.Prelude Base.QNum Proofs.QNumLemmas Gen.DescDefaults Gen.FnBivarFormula Model.Descriptives
  Proofs.FnDescriptives.
From Coq Require Import Qabs Lia.
Local Open Scope Q_scope.

(* the kept (deviation, w) pairs of bivar_parts_of *)
Definition bivar_kept (c eps : Q) (a : list Q) (initial : Q) : list (Q * Q) :=
  let d := sub_all initial a in
  let mad := median (abs_all d) in
  let scale := qmax2 (qmul c mad) eps in
  filter (fun p => qlt_b (qabs (snd p)) BIVAR_MASK_BOUND) (combine d (map (fun di => qdiv di scale) d)).

(* the summands of the two reductions, on a masked pair (d_, w_) *)
Definition bivar_num_term (t : Q * Q) : Q :=
  fst t * fst t * ((1 - snd t) * (1 - snd t) * (1 - snd t) * (1 - snd t)).     (* d_ ** 2 * (1 - w_) ** 4 *)
Definition bivar_den_term (t : Q * Q) : Q := (1 - snd t) * (1 - 5 * snd t).    (* (1 - w_) * (1 - 5 * w_) *)

Lemma qsum_map_ext_pair (f g : Q * Q -> Q) l : (forall p, f p == g p) -> qsum (map f l) == qsum (map g l).
Proof. intro H. induction l as [|p t IH]; cbn [map]; [reflexivity|]. rewrite !qsum_cons, IH, H. reflexivity. Qed.

(* per kept element: d_ is the deviation, w_ the SQUARE of its w *)
Theorem source_bivar_terms c eps a initial :
  Forall2 pair_rel (map (fun p => (fst p, qsq (snd p))) (bivar_kept c eps a initial))
                   (map (fun p => fn_bivar_terms (fst p) (snd p) true) (bivar_kept c eps a initial)).
Proof.
  induction (bivar_kept c eps a initial) as [|p t IH]; cbn [map]; constructor; [|exact IH].
  split; cbn [fst snd]; [reflexivity|]. apply qsq_spec.
Qed.

Lemma bv_formula_unfold c eps a initial :
  bv_formula (bivar_parts_of c eps a initial) =
  let dw := bivar_kept c eps a initial in
  qdiv (qmul (qofnat (length dw))
             (qsum (map (fun p => qmul (qsq (fst p)) (qpow (qsub 1 (qsq (snd p))) (Z.to_nat BIVAR_NUM_POW))) dw)))
       (qsq (qsum (map (fun p => qmul (qsub 1 (qsq (snd p))) (qsub 1 (qmul BIVAR_DEN_COEF (qsq (snd p))))) dw))).
Proof. reflexivity. Qed.

Lemma bv_fallback_unfold c eps a initial :
  bv_fallback (bivar_parts_of c eps a initial) = qsq (qmul (median (abs_all (sub_all initial a))) BIVAR_MAD_SCALE).
Proof. reflexivity. Qed.

Theorem source_bivar_result (sqrtf : Q -> Q) c eps a initial d0 w0 m0 :
  let P := bivar_parts_of c eps a initial in
  let dw := bivar_kept c eps a initial in
  let terms := map (fun p => fn_bivar_terms (fst p) (snd p) true) dw in
  let r := fn_bivar_result sqrtf d0 w0 m0 (median (abs_all (sub_all initial a))) (bv_any P) (Z.of_nat (length dw))
                           (qsum (map bivar_num_term terms)) (qsum (map bivar_den_term terms)) in
  if bv_any P then exists x, r = sqrtf x /\ x == bv_formula P else r * r == bv_fallback P.
Proof.
  cbv zeta. unfold fn_bivar_result.
  destruct (bv_any (bivar_parts_of c eps a initial)); cbn [negb]; cbv iota zeta.
  - eexists. split; [reflexivity|]. rewrite bv_formula_unfold. cbv zeta.
    rewrite qdiv_spec, qmul_spec, qsq_spec. unfold qofnat. rewrite !map_map.
    assert (N : forall l : list (Q * Q),
              qsum (map (fun p => bivar_num_term (fn_bivar_terms (fst p) (snd p) true)) l) ==
              qsum (map (fun p => qmul (qsq (fst p)) (qpow (qsub 1 (qsq (snd p))) (Z.to_nat BIVAR_NUM_POW))) l)).
    { intro l. apply qsum_map_ext_pair. intros [d w]. unfold bivar_num_term, fn_bivar_terms. cbn [fst snd].
      change (Z.to_nat BIVAR_NUM_POW) with 4%nat. cbn [qpow].
      unfold qmul, qsq, qsub. rewrite !Qred_correct. ring. }
    assert (D : forall l : list (Q * Q),
              qsum (map (fun p => bivar_den_term (fn_bivar_terms (fst p) (snd p) true)) l) ==
              qsum (map (fun p => qmul (qsub 1 (qsq (snd p))) (qsub 1 (qmul BIVAR_DEN_COEF (qsq (snd p))))) l)).
    { intro l. apply qsum_map_ext_pair. intros [d w]. unfold bivar_den_term, fn_bivar_terms, BIVAR_DEN_COEF. cbn [fst snd].
      unfold qmul, qsq, qsub. rewrite !Qred_correct. ring. }
    rewrite N, D. reflexivity.
  - rewrite bv_fallback_unfold, qsq_spec, qmul_spec. unfold BIVAR_MAD_SCALE. reflexivity.
Qed.
