(* C06 loop ties of the fast paths of merge() and flatten() (skgenome/merge.py): the whole-table tests read per
   element (row i >= 1 against the running maximum of the ends before it), regenerated from the Python source on
   every run as Gen/FnIvFast.v:

       merge:    gap_sizes = table.start.values[1:] - table.end.cummax().values[:-1]
                 if (gap_sizes > -bp).all(): return table                                   fn_merge_fast
       flatten:  if (table.start.values[1:] >= table.end.cummax().values[:-1]).all(): return table   fn_flatten_fast

   Here: Model/Intervals.v all_gaps / no_overlap ARE the generated tests holding at every row after the first. *)
From CNV Require Import Base.Prelude Model.IvRow Model.Intervals.
From CNV Require Gen.FnIvFast.

Local Open Scope Z_scope.

Section FastTie.
Context {A : Type}.
Notation row := (@row A).

Lemma source_merge_fast (s c bp : Z) : FnIvFast.fn_merge_fast s c bp = (- bp <? s - c).
Proof. reflexivity. Qed.

Lemma source_flatten_fast (s c d : Z) : FnIvFast.fn_flatten_fast s c d = (c <=? s).
Proof. reflexivity. Qed.

(* (<test on row i and the running maximum before it>).all() *)
Fixpoint src_all (test : Z -> Z -> bool) (cmax : Z) (rest : list row) : bool :=
  match rest with
  | [] => true
  | r :: t => test (lo r) cmax && src_all test (Z.max cmax (hi r)) t
  end.

Lemma source_all_gaps_from (bp : Z) (rest : list row) : forall cmax,
  all_gaps_from bp cmax rest = src_all (fun s c => FnIvFast.fn_merge_fast s c bp) cmax rest.
Proof.
  induction rest as [|r t IH]; intros cmax; [reflexivity|].
  cbn [all_gaps_from src_all]. rewrite IH, source_merge_fast. reflexivity.
Qed.

Theorem source_all_gaps (bp : Z) (t : list row) :
  all_gaps bp t =
  match t with [] => true | r :: t' => src_all (fun s c => FnIvFast.fn_merge_fast s c bp) (hi r) t' end.
Proof. destruct t as [|r t']; [reflexivity|]. apply source_all_gaps_from. Qed.

Lemma source_no_overlap_from (d : Z) (rest : list row) : forall cmax,
  no_overlap_from cmax rest = src_all (fun s c => FnIvFast.fn_flatten_fast s c d) cmax rest.
Proof.
  induction rest as [|r t IH]; intros cmax; [reflexivity|].
  cbn [no_overlap_from src_all]. rewrite IH, source_flatten_fast. reflexivity.
Qed.

Theorem source_no_overlap (d : Z) (t : list row) :
  no_overlap t =
  match t with [] => true | r :: t' => src_all (fun s c => FnIvFast.fn_flatten_fast s c d) (hi r) t' end.
Proof. destruct t as [|r t']; [reflexivity|]. apply source_no_overlap_from. Qed.

End FastTie.
