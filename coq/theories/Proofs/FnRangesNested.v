(* C07 loop tie of intersect._irange_nested: ONE ITERATION of

       for start_val, end_val in zip(starts, ends):
           region_mask = np.ones(len(table), dtype=np.bool_)
           if start_val:
               if mode == "inner":
                   start_idx = table.start.searchsorted(start_val)
                   region_mask[: int(start_idx)] = 0
               else:
                   region_mask = table.end.values > start_val
           if end_val is not None:
               if mode == "inner":
                   region_mask &= table.end.values <= end_val
               else:
                   end_idx = table.start.searchsorted(end_val)
                   region_mask[int(end_idx) :] = 0
           yield region_mask, start_val, end_val

   read for ONE ROW of the table (position k among the n = len(table) rows; region_mask is that row's
   bit) and regenerated from the Python source on every run as Gen/FnRangesNested.v (fn_nested_elem;
   the two searchsorted calls are opaque integers, the slice stores carry Python's meaning of negative
   bounds).  Here: Model/Ranges.v nested_mask IS the generated bit, row by row, when the two searches
   are the model's searchsorted1 (numpy's binary search, never negative); irange_nested yields, query
   by query, what the generated iteration yields. *)
From CNV Require Import Base.Prelude Model.Ranges Proofs.RangesLib.
From CNV Require Gen.FnRangesNested.

Local Open Scope Z_scope.

(* the mode string idx_ranges passes on *)
Definition imode_name (m : imode) : string := match m with Inner => "inner"%string | Outer => "outer"%string end.

(* a function of (position, row) along the table *)
Fixpoint map_pos {A B} (f : Z -> A -> B) (i0 : Z) (l : list A) : list B :=
  match l with
  | [] => []
  | x :: t => f i0 x :: map_pos f (i0 + 1) t
  end.

Lemma map_pos_ext {A B} (f g : Z -> A -> B) (l : list A) : forall i0,
  (forall k x, i0 <= k -> f k x = g k x) -> map_pos f i0 l = map_pos g i0 l.
Proof.
  induction l as [|x t IH]; intros i0 H; [reflexivity|]. cbn [map_pos].
  rewrite (H i0 x) by lia. f_equal. apply IH. intros k y Hk. apply H. lia.
Qed.

Lemma map_pos_map {A B} (g : A -> B) (l : list A) : forall i0, map g l = map_pos (fun _ x => g x) i0 l.
Proof. induction l as [|x t IH]; intros i0; [reflexivity|]. cbn [map map_pos]. f_equal. apply IH. Qed.

Lemma mask_idx_map_pos {A} (p : Z -> bool) (f : Z -> A -> bool) (l : list A) : forall i0,
  mask_idx p i0 (map_pos f i0 l) = map_pos (fun k x => f k x && p k) i0 l.
Proof. induction l as [|x t IH]; intros i0; [reflexivity|]. cbn [map_pos mask_idx]. f_equal. apply IH. Qed.

Lemma mask_and_map_pos {A} (f g : Z -> A -> bool) (l : list A) : forall i0,
  mask_and (map_pos f i0 l) (map_pos g i0 l) = map_pos (fun k x => f k x && g k x) i0 l.
Proof. induction l as [|x t IH]; intros i0; [reflexivity|]. cbn [map_pos mask_and]. f_equal. apply IH. Qed.

(* numpy's binary search never answers a negative position *)
Lemma bs_loop_lower s arr key fuel : forall mn mx, mn <= bs_loop s arr key fuel mn mx.
Proof.
  induction fuel as [|f IH]; intros mn mx; cbn [bs_loop]; [lia|].
  destruct (Z.ltb_spec mn mx) as [H|H]; [|lia].
  assert (Hd : 0 <= (mx - mn) / 2) by (apply Z.div_pos; lia).
  destruct (ss_cmp s (nth (Z.to_nat (mn + (mx - mn) / 2)) arr 0) key).
  - specialize (IH (mn + (mx - mn) / 2 + 1) mx). lia.
  - apply IH.
Qed.

Lemma searchsorted1_nonneg s arr key : 0 <= searchsorted1 s arr key.
Proof.
  unfold searchsorted1, searchsorted. cbn [ss_go hd].
  destruct (ss_cmp s key key); apply bs_loop_lower.
Qed.

(* the generated iteration, spelled out: the row's bit *)
Definition src_bit (k n : Z) (inner : bool) (qs : Z) (qe : option Z) (si ei row_end : Z) : bool :=
  let norm x := if 0 <=? x then x else n + x in
  let m1 := if negb (qs =? 0)
            then (if inner then (if k <? norm si then false else true) else qs <? row_end)
            else true in
  match qe with
  | Some e => if inner then m1 && (row_end <=? e) else (if norm ei <=? k then false else m1)
  | None => m1
  end.

Lemma source_nested_elem (k n : Z) (mode : string) (qs : Z) (qe : option Z) (si ei row_end : Z) :
  FnRangesNested.fn_nested_elem k n mode qs qe si ei row_end
  = [(src_bit k n (String.eqb mode "inner") qs qe si ei row_end, qs, qe)].
Proof.
  unfold FnRangesNested.fn_nested_elem, src_bit. cbv zeta. cbn [app].
  destruct qe as [e|]; destruct (String.eqb mode "inner"); destruct (negb (qs =? 0)); reflexivity.
Qed.

(* the bit of row k of the table, with the model's searches *)
Definition src_row_bit (t : list row) (m : imode) (qs : Z) (qe : option Z) (k : Z) (r : row) : bool :=
  let los := map r_lo t in
  match FnRangesNested.fn_nested_elem k (zlen t) (imode_name m) qs qe
          (searchsorted1 SLeft los qs)
          (match qe with Some e => searchsorted1 SLeft los e | None => 0 end)
          (r_hi r) with
  | [(b, _, _)] => b
  | _ => false
  end.

Theorem source_nested_mask (t : list row) (m : imode) (qs : Z) (qe : option Z) :
  nested_mask t m qs qe = map_pos (src_row_bit t m qs qe) 0 t.
Proof.
  unfold src_row_bit.
  rewrite (map_pos_ext _ (fun k r => src_bit k (zlen t) (String.eqb (imode_name m) "inner") qs qe
                                       (searchsorted1 SLeft (map r_lo t) qs)
                                       (match qe with Some e => searchsorted1 SLeft (map r_lo t) e | None => 0 end)
                                       (r_hi r)))
    by (intros k r _; rewrite source_nested_elem; reflexivity).
  unfold nested_mask, src_bit, truthyZ, ones.
  pose proof (searchsorted1_nonneg SLeft (map r_lo t) qs) as Hs.
  replace (0 <=? searchsorted1 SLeft (map r_lo t) qs) with true by lia.
  set (s := searchsorted1 SLeft (map r_lo t) qs) in *.
  destruct m; cbn [imode_name String.eqb Ascii.eqb Bool.eqb andb]; cbv zeta.
  - (* Inner *)
    destruct (negb (qs =? 0)).
    + rewrite (map_pos_map (fun _ : row => true) t 0), mask_idx_map_pos.
      destruct qe as [e|].
      * rewrite (map_pos_map (fun r => r_hi r <=? e) t 0), mask_and_map_pos.
        apply map_pos_ext. intros k r _. cbn [andb].
        destruct (Z.leb_spec s k), (Z.ltb_spec k s); try lia; reflexivity.
      * apply map_pos_ext. intros k r _. cbn [andb].
        destruct (Z.leb_spec s k), (Z.ltb_spec k s); try lia; reflexivity.
    + destruct qe as [e|].
      * rewrite (map_pos_map (fun _ : row => true) t 0), (map_pos_map (fun r => r_hi r <=? e) t 0), mask_and_map_pos.
        reflexivity.
      * apply map_pos_map.
  - (* Outer *)
    destruct qe as [e|].
    + pose proof (searchsorted1_nonneg SLeft (map r_lo t) e) as He.
      replace (0 <=? searchsorted1 SLeft (map r_lo t) e) with true by lia.
      destruct (negb (qs =? 0)).
      * rewrite (map_pos_map (fun r => qs <? r_hi r) t 0), mask_idx_map_pos.
        apply map_pos_ext. intros k r _.
        destruct (qs <? r_hi r); cbn [andb];
          destruct (Z.leb_spec (searchsorted1 SLeft (map r_lo t) e) k), (Z.ltb_spec k (searchsorted1 SLeft (map r_lo t) e));
          try lia; reflexivity.
      * rewrite (map_pos_map (fun _ : row => true) t 0), mask_idx_map_pos.
        apply map_pos_ext. intros k r _. cbn [andb].
        destruct (Z.leb_spec (searchsorted1 SLeft (map r_lo t) e) k), (Z.ltb_spec k (searchsorted1 SLeft (map r_lo t) e));
          try lia; reflexivity.
    + destruct (negb (qs =? 0)); apply map_pos_map.
Qed.

(* the whole generator: one (mask, start_val, end_val) per query, the mask made of the generated bits *)
Theorem source_irange_nested (t : list row) (starts : list Z) (ends : list (option Z)) (m : imode) :
  irange_nested t starts ends m =
  map (fun '(qs, qe) => (SelMask (map_pos (src_row_bit t m qs qe) 0 t), Some qs, qe)) (combine starts ends).
Proof.
  unfold irange_nested. apply map_ext. intros [qs qe]. rewrite source_nested_mask. reflexivity.
Qed.

(* what every row's iteration yields besides its bit: the query bounds, unchanged *)
Lemma source_nested_bounds (k n : Z) (mode : string) (qs : Z) (qe : option Z) (si ei row_end : Z) :
  map (fun x => (snd (fst x), snd x)) (FnRangesNested.fn_nested_elem k n mode qs qe si ei row_end) = [(qs, qe)].
Proof. rewrite source_nested_elem. reflexivity. Qed.
