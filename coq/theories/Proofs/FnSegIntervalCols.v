(* C17 per-row tie of do_segmetrics' interval columns: the statements

       if "ci" in interval_stats:
           segarr["ci_lo"], segarr["ci_hi"] = calc_intervals(bins_log2s, weights, stat_funcs["ci"])
       if "pi" in interval_stats:
           segarr["pi_lo"], segarr["pi_hi"] = calc_intervals(bins_log2s, weights, stat_funcs["pi"])

   read per segment row are regenerated from the Python source on every run as
   Gen/FnSegIntervalCols.v (fn_interval_columns: the four column entries after the two statements, as
   functions of the two requests, of the row's entries in calc_intervals' two result arrays -- first
   array to *_lo, second to *_hi -- and of the entries before).
   Here: the interval part of Model/Segmetrics.v row_assignments IS those entries, for the columns the
   request creates (a column that is not requested is not created: the model lists no entry). *)
From CNV Require Import Base.Prelude Base.QNum Gen.SegmetricsDefaults Gen.FnSegIntervalCols
  Model.Ranges Model.Segmetrics.
Local Open Scope Q_scope.

Definition omap {A B} (f : A -> B) (o : option A) : option B :=
  match o with Some a => Some (f a) | None => None end.

Definition py_interval_cols (O : oracles) (cfg : config) (vals wts : list Q) : list (string * option Q) :=
  let ci := ci_func O (c_alpha cfg) (c_boot cfg) (c_smoothed cfg) vals wts in
  let pi := pi_func (c_alpha cfg) vals in
  let want_ci := has "ci" (c_ivl cfg) in
  let want_pi := has "pi" (c_ivl cfg) in
  let '(cl, ch, pl, ph) :=
    fn_interval_columns want_ci want_pi (omap fst ci) (omap snd ci) (omap fst pi) (omap snd pi)
                        None None None None in
  (if want_ci then [("ci_lo"%string, cl); ("ci_hi"%string, ch)] else [])
  ++ (if want_pi then [("pi_lo"%string, pl); ("pi_hi"%string, ph)] else []).

Lemma pair_cols_omap lo hi r : pair_cols lo hi r = [(lo, omap fst r); (hi, omap snd r)].
Proof. destruct r as [[a b]|]; reflexivity. Qed.

Theorem source_interval_columns O cfg seg_log2 vals wts :
  row_assignments O cfg seg_log2 vals wts
  = named_stats (loc_stat O) (c_loc cfg) vals
    ++ named_stats (spread_stat O) (c_spread cfg) (map (fun x => qsub x seg_log2) vals)
    ++ py_interval_cols O cfg vals wts.
Proof.
  unfold row_assignments, py_interval_cols, fn_interval_columns. cbv zeta.
  rewrite !pair_cols_omap.
  destruct (has "ci" (c_ivl cfg)), (has "pi" (c_ivl cfg)); reflexivity.
Qed.
