(* C11: the clean-step theorem for ARBITRARY positive bin weights.  The weighted Haar
   convolution of a step at t is scale * (b - a) * (share of the upper window's weight past t
   minus share of the lower window's weight past t): zero up to t-h, strictly increasing to
   t, strictly decreasing to t+h, zero after -- so again exactly one peak, exactly at t. *)
From Coq Require Import QArith.Qabs.
From CNV Require Import Base.Prelude Model.Haar Spec.Haar Proofs.HaarConv Proofs.HaarFlat
  Proofs.HaarUnify Proofs.HaarPeaks Proofs.HaarStepLib Proofs.HaarMeans Proofs.HaarStep.
From Coq Require Import Lqa.

Local Open Scope Q_scope.

(* ---------- a sequence that is a non-zero multiple of a unimodal shape ---------- *)

Lemma qscaled_lt_pos f x y : 0 < f -> x < y -> f * x < f * y.
Proof. intros Hf H. apply Qmult_lt_l; assumption. Qed.

Lemma qscaled_lt_neg f x y : f < 0 -> x < y -> f * y < f * x.
Proof.
  intros Hf H. assert (X : (- f) * x < (- f) * y) by (apply Qmult_lt_l; [lra|exact H]). lra.
Qed.

Lemma scaled_through f x y z : ~ f == 0 -> x < y -> y < z -> quietT (f * x) (f * y) (f * z).
Proof.
  intros Hf H1 H2. destruct (Qlt_le_dec 0 f) as [P|P].
  - right; left. split; apply qscaled_lt_pos; assumption.
  - assert (f < 0) by (destruct (Qeq_dec f 0); [contradiction|lra]).
    right; right. split; apply qscaled_lt_neg; assumption.
Qed.

Lemma scaled_through_down f x y z : ~ f == 0 -> z < y -> y < x -> quietT (f * x) (f * y) (f * z).
Proof.
  intros Hf H1 H2. destruct (Qlt_le_dec 0 f) as [P|P].
  - right; right. split; apply qscaled_lt_pos; assumption.
  - assert (f < 0) by (destruct (Qeq_dec f 0); [contradiction|lra]).
    right; left. split; apply qscaled_lt_neg; assumption.
Qed.

Lemma scaled_top f x y z : ~ f == 0 -> 0 < y -> x < y -> z < y -> peakT (f * x) (f * y) (f * z).
Proof.
  intros Hf H0 H1 H2. destruct (Qlt_le_dec 0 f) as [P|P].
  - left. split; [|split; apply qscaled_lt_pos; assumption].
    pose proof (qscaled_lt_pos f 0 y P H0). lra.
  - assert (N : f < 0) by (destruct (Qeq_dec f 0); [contradiction|lra]).
    right. split; [|split; apply qscaled_lt_neg; assumption].
    pose proof (qscaled_lt_neg f 0 y N H0). lra.
Qed.

Lemma unimodal_list_peaks (l : list Q) (f : Q) (g : Z -> Q) (h t : Z) :
  let n := Z.of_nat (length l) in
  (forall k, (0 <= k < n)%Z -> qnth l k == f * g k) ->
  ~ f == 0 -> (1 <= h)%Z -> (1 <= t <= n - 2)%Z ->
  (forall k, (0 <= k)%Z -> (k + h <= t)%Z -> g k == 0) ->
  (forall k, (t + h <= k < n)%Z -> g k == 0) ->
  (forall k, (0 <= k)%Z -> (t - h <= k < t)%Z -> g k < g (k + 1)%Z) ->
  (forall k, (t <= k < t + h)%Z -> (k + 1 < n)%Z -> g (k + 1)%Z < g k) ->
  0 < g t ->
  find_local_peaks l = [t].
Proof.
  intros n HF Hf Hh Ht Z1 Z2 INC DEC POS.
  assert (Cl : forall k, (1 <= k <= n - 2)%Z ->
            (k = t -> peakT (f * g (k - 1)%Z) (f * g k) (f * g (k + 1)%Z)) /\
            (k <> t -> quietT (f * g (k - 1)%Z) (f * g k) (f * g (k + 1)%Z))).
  { intros k Hk. split.
    - intros ->. apply scaled_top; [exact Hf|exact POS| |].
      + pose proof (INC (t - 1)%Z ltac:(lia) ltac:(lia)) as X.
        replace (t - 1 + 1)%Z with t in X by lia. exact X.
      + apply DEC; lia.
    - intros Hne. destruct (Z_lt_le_dec k t) as [L|L].
      + destruct (Z_le_gt_dec (k + h) t) as [A|A].
        * left. rewrite (Z1 k) by lia. ring.
        * apply scaled_through; [exact Hf| |].
          -- pose proof (INC (k - 1)%Z ltac:(lia) ltac:(lia)) as X.
             replace (k - 1 + 1)%Z with k in X by lia. exact X.
          -- apply INC; lia.
      + destruct (Z_le_gt_dec (t + h) k) as [A|A].
        * left. rewrite (Z2 k) by lia. ring.
        * apply scaled_through_down; [exact Hf| |].
          -- apply DEC; lia.
          -- pose proof (DEC (k - 1)%Z ltac:(lia) ltac:(lia)) as X.
             replace (k - 1 + 1)%Z with k in X by lia. exact X. }
  destruct (peaks_sorted l) as [S _].
  apply ssorted_ext; [exact S|repeat constructor|].
  intros x.
  rewrite (find_local_peaks_mem l (fun k => f * g k) HF).
  - split.
    + intros [Hx Hp]. destruct (Z.eq_dec x t) as [->|Hne]; [left; reflexivity|].
      exfalso. destruct (Cl x Hx) as [_ Q]. exact (quiet_not_peak _ _ _ (Q Hne) Hp).
    + intros [<-|[]]. split; [exact Ht|]. destruct (Cl t Ht) as [P _]. exact (P eq_refl).
  - intros k Hk. destruct (Cl k Hk) as [P Q].
    destruct (Z.eq_dec k t) as [E|E]; [right; exact (P E)|left; exact (Q E)].
Qed.

(* ---------- window weights around a step ---------- *)

Lemma wsum_le f g a len :
  (forall j, (a <= j < a + Z.of_nat len)%Z -> f j <= g j) -> wsum f a len <= wsum g a len.
Proof.
  revert a; induction len as [|m IH]; intros a H; cbn [wsum]; [lra|].
  assert (f a <= g a) by (apply H; lia).
  assert (wsum f (a + 1)%Z m <= wsum g (a + 1)%Z m) by (apply IH; intros j Hj; apply H; lia).
  lra.
Qed.

Lemma Qdiv_lt_cross a b c d : 0 < b -> 0 < d -> a * d < c * b -> a / b < c / d.
Proof.
  intros Hb Hd H.
  assert (E1 : a / b == (a * d) / (b * d)) by (field; split; lra).
  assert (E2 : c / d == (c * b) / (b * d)) by (field; split; lra).
  rewrite E1, E2.
  assert (P : 0 < b * d) by (apply Qmult_lt_0_compat; assumption).
  unfold Qdiv. apply Qmult_lt_r; [apply Qinv_lt_0_compat; exact P|exact H].
Qed.

Section Shares.
Variable w : list Q.
Variables (t n : nat) (h : Z).
Hypothesis Hlen : length w = n.
Hypothesis Hpos : all_pos w.
Hypothesis Hh : (1 <= h <= Z.of_nat t)%Z.
Hypothesis Hn : (Z.of_nat t + h <= Z.of_nat n)%Z.

Local Notation T := (Z.of_nat t).
Local Notation N := (Z.of_nat n).
Local Notation hn := (Z.to_nat h).
Local Notation pw := (padded w).
Local Notation uw := (fun j => ustep T j * padded w j).
Local Notation Wn := (fun s => wsum pw s hn).
Local Notation Un := (fun s => wsum uw s hn).
Local Notation Rn := (weight_share_after w T h).

Lemma pw_pos j : (- h <= j < N + h)%Z -> 0 < pw j.
Proof.
  intros Hj. unfold padded. rewrite Hlen.
  apply (nth_Forall (fun x => 0 < x)); [exact Hpos|].
  rewrite Hlen. unfold mirror in *.
  destruct (j <? 0)%Z eqn:E1; [lia|]. destruct (Z.of_nat n <=? j)%Z eqn:E2; lia.
Qed.

Lemma Wn_pos s : (- h <= s)%Z -> (s <= N)%Z -> 0 < Wn s.
Proof.
  intros H1 H2. idtac. apply wsum_pos; [idtac; lia|].
  intros j Hj. apply pw_pos. idtac. lia.
Qed.

Lemma Un_zero s : (s + h <= T)%Z -> Un s == 0.
Proof.
  intros H. idtac. rewrite (wsum_const uw s hn 0); [ring|].
  intros j Hj. unfold ustep in *. destruct (T <=? j)%Z eqn:E; [lia|ring].
Qed.

Lemma Un_full s : (T <= s)%Z -> Un s == Wn s.
Proof.
  intros H. idtac. apply wsum_ext. intros j Hj. unfold ustep.
  destruct (T <=? j)%Z eqn:E; [ring|lia].
Qed.

Lemma Un_nonneg s : (- h <= s)%Z -> (s <= N)%Z -> 0 <= Un s.
Proof.
  intros H1 H2. idtac. apply wsum_nonneg. intros j Hj. unfold ustep.
  assert (0 < pw j) by (apply pw_pos; idtac; lia). idtac.
  destruct (T <=? j)%Z; lra.
Qed.

(* a window that starts before the step keeps at least its first bin's weight below the step *)
Lemma gap s : (- h <= s < T)%Z -> (s <= N)%Z -> pw s <= Wn s - Un s.
Proof.
  intros H1 H2.
  assert (E : Wn s - Un s == wsum (fun j => (1 - ustep T j) * pw j) s hn).
  { idtac.
    rewrite (wsum_ext (fun j => (1 - ustep T j) * pw j) (fun j => pw j + (-1) * uw j)) by
      (intros j Hj; idtac; ring).
    rewrite wsum_plus, wsum_scale. ring. }
  rewrite E. idtac. destruct (Z.to_nat h) as [|m] eqn:Em; [lia|]. cbn [wsum].
  assert (F : (1 - ustep T s) * pw s == pw s).
  { unfold ustep. destruct (T <=? s)%Z eqn:E1; [lia|ring]. }
  assert (0 <= wsum (fun j => (1 - ustep T j) * pw j) (s + 1)%Z m).
  { apply wsum_nonneg. intros j Hj. assert (0 < pw j) by (apply pw_pos; lia).
    unfold ustep. destruct (T <=? j)%Z; lra. }
  lra.
Qed.

Lemma slideU s : (T - h <= s < T)%Z -> Un (s + 1)%Z == Un s + pw (s + h)%Z.
Proof.
  intros H. idtac. rewrite wsum_slide. idtac. rewrite Z2Nat.id by lia.
  unfold ustep.
  destruct (T <=? s + h)%Z eqn:E1; [|lia]. destruct (T <=? s)%Z eqn:E2; [lia|]. ring.
Qed.

Lemma slideW s : Wn (s + 1)%Z == Wn s + pw (s + h)%Z - pw s.
Proof. idtac. rewrite wsum_slide. idtac. rewrite Z2Nat.id by lia. reflexivity. Qed.

Lemma Rn_eq s : Rn s = Un s / Wn s.
Proof. reflexivity. Qed.

Lemma Rn_zero s : (s + h <= T)%Z -> Rn s == 0.
Proof. intros H. rewrite Rn_eq, (Un_zero s H). unfold Qdiv. ring. Qed.

Lemma Rn_one s : (T <= s <= N)%Z -> Rn s == 1.
Proof.
  intros H. rewrite Rn_eq, (Un_full s) by lia.
  assert (0 < Wn s) by (apply Wn_pos; lia). cbv beta in *. field. lra.
Qed.

Lemma Rn_inc s : (T - h <= s < T)%Z -> Rn s < Rn (s + 1)%Z.
Proof.
  intros H. rewrite !Rn_eq.
  assert (B1 : (- h <= s)%Z) by (idtac; lia).
  assert (B2 : (s + 1 <= N)%Z) by (idtac; lia).
  assert (W0 : 0 < Wn s) by (apply Wn_pos; lia).
  assert (W1 : 0 < Wn (s + 1)%Z) by (apply Wn_pos; lia).
  assert (U0 : 0 <= Un s) by (apply Un_nonneg; lia).
  assert (G : pw s <= Wn s - Un s) by (apply gap; lia).
  assert (X : 0 < pw (s + h)%Z) by (apply pw_pos; idtac; lia).
  assert (Y : 0 < pw s) by (apply pw_pos; lia).
  cbv beta in *. apply Qdiv_lt_cross; [exact W0|exact W1|].
  rewrite (slideU s H), slideW.
  (* Un s * (W + x - y) < (Un s + x) * W  <=>  0 < (W - U) x + U y *)
  assert (P1 : 0 < (Wn s - Un s) * pw (s + h)%Z).
  { apply Qmult_lt_0_compat; lra. }
  assert (P2 : 0 <= Un s * pw s).
  { apply Qmult_le_0_compat; lra. }
  assert (E : (Un s + pw (s + h)%Z) * Wn s - Un s * (Wn s + pw (s + h)%Z - pw s)
              == (Wn s - Un s) * pw (s + h)%Z + Un s * pw s) by ring.
  cbv beta in *. lra.
Qed.

(* the shape *)
Lemma wt_zero_left k : (0 <= k)%Z -> (k + h <= T)%Z -> weighted_tent w T h k == 0.
Proof.
  intros H0 H. unfold weighted_tent. rewrite (Rn_zero k H), (Rn_zero (k - h)%Z) by lia. ring.
Qed.

Lemma wt_zero_right k : (T + h <= k < N)%Z -> weighted_tent w T h k == 0.
Proof.
  intros H. unfold weighted_tent. rewrite (Rn_one k), (Rn_one (k - h)%Z) by (idtac; lia). ring.
Qed.

Lemma wt_inc k : (0 <= k)%Z -> (T - h <= k < T)%Z -> weighted_tent w T h k < weighted_tent w T h (k + 1)%Z.
Proof.
  intros H0 H. unfold weighted_tent.
  rewrite (Rn_zero (k - h)%Z), (Rn_zero (k + 1 - h)%Z) by lia.
  pose proof (Rn_inc k H). lra.
Qed.

Lemma wt_dec k : (T <= k < T + h)%Z -> weighted_tent w T h (k + 1)%Z < weighted_tent w T h k.
Proof.
  intros H. unfold weighted_tent.
  rewrite (Rn_one k), (Rn_one (k + 1)%Z) by (idtac; lia).
  pose proof (Rn_inc (k - h)%Z ltac:(lia)) as X.
  replace (k - h + 1)%Z with (k + 1 - h)%Z in X by lia. lra.
Qed.

Lemma wt_top : weighted_tent w T h T == 1.
Proof.
  unfold weighted_tent. rewrite (Rn_one T), (Rn_zero (T - h)%Z) by (idtac; lia). ring.
Qed.

(* the weighted window of the step signal *)
Lemma step_window_w a b k :
  (0 <= k < N)%Z ->
  haar_window_w (step_signal a b t n) w h k == (b - a) * weighted_tent w T h k.
Proof.
  intros Hk. unfold haar_window_w, weighted_tent, weight_share_after.
  assert (S : forall s, (- h <= s)%Z -> (s <= N)%Z ->
            wsum (padded_prod (step_signal a b t n) w) s hn == a * Wn s + (b - a) * Un s).
  { intros s H1 H2. idtac.
    rewrite (wsum_ext _ (fun j => a * pw j + (b - a) * uw j)).
    - rewrite wsum_plus, !wsum_scale. reflexivity.
    - intros j Hj. unfold padded_prod.
      rewrite (padded_step a b t n h j) by (idtac; lia). ring. }
  rewrite (S k), (S (k - h)%Z) by (idtac; lia).
  assert (0 < Wn k) by (apply Wn_pos; idtac; lia).
  assert (0 < Wn (k - h)%Z) by (apply Wn_pos; idtac; lia).
 
  cbv beta in *. field. split; lra.
Qed.

Lemma step_conv_w a b scale k :
  (0 <= k < N)%Z ->
  qnth (haar_conv (step_signal a b t n) (Some w) h scale) k
  == (scale * (b - a)) * weighted_tent w T h k.
Proof.
  intros Hk.
  assert (Hl : length (step_signal a b t n) = n) by (apply step_signal_length; idtac; lia).
  destruct (Z.eq_dec k 0) as [->|Hk0].
  - rewrite haar_conv_0. rewrite wt_zero_left by (idtac; lia). ring.
  - rewrite haar_conv_w_closed by (rewrite ?Hl, ?Hlen; idtac; lia).
    rewrite step_window_w by exact Hk. ring.
Qed.

Lemma step_peaks_w a b scale :
  ~ a == b -> ~ scale == 0 -> (T + 2 <= N)%Z ->
  find_local_peaks (haar_conv (step_signal a b t n) (Some w) h scale) = [T].
Proof.
  intros Hab Hs H2.
  assert (Hl : length (haar_conv (step_signal a b t n) (Some w) h scale) = n).
  { rewrite haar_conv_length. apply step_signal_length. idtac. lia. }
  apply (unimodal_list_peaks _ (scale * (b - a)) (weighted_tent w T h) h T).
  - intros k Hk. rewrite Hl in Hk. apply step_conv_w. exact Hk.
  - intros C. apply Hab.
    assert (E : b - a == (scale * (b - a)) / scale) by (field; exact Hs).
    assert (b - a == 0) by (rewrite E, C; field; exact Hs). lra.
  - lia.
  - rewrite Hl. idtac. lia.
  - intros k H0 H. apply wt_zero_left; assumption.
  - intros k H. rewrite Hl in H. apply wt_zero_right. exact H.
  - intros k H0 H. apply wt_inc; assumption.
  - intros k H _. apply wt_dec. exact H.
  - rewrite wt_top. lra.
Qed.

End Shares.

(* ---------- the level loop with a single peak at every level ---------- *)

Section StepW.
Variable scale_u scale_w : Z -> Q.
Variable pvals : Z -> list Q.
Variable absorb : Z -> bool.
Hypothesis scale_w_nz : forall h, ~ scale_w h == 0.

Lemma single_peak_addon sg wt q level T :
  find_local_peaks (conv_level scale_u scale_w sg wt (2 ^ level)) = [T] ->
  level_addon scale_u scale_w pvals absorb sg wt q level = [T].
Proof.
  intros H. unfold level_addon. rewrite H. cbn [map]. rewrite fdr_thres_single. cbn [filter].
  rewrite Qle_bool_0_abs. reflexivity.
Qed.

Lemma single_peak_breakpoints sg wt q levels T :
  levels <> [] -> (0 <= T)%Z ->
  (forall l, In l levels -> (1 <= l)%Z /\ find_local_peaks (conv_level scale_u scale_w sg wt (2 ^ l)) = [T]) ->
  haar_breakpoints_over scale_u scale_w pvals absorb levels sg wt q = [T].
Proof.
  intros Hne HT Hl. unfold haar_breakpoints_over.
  assert (G : forall ls bps,
            (forall l, In l ls -> (1 <= l)%Z /\ find_local_peaks (conv_level scale_u scale_w sg wt (2 ^ l)) = [T]) ->
            (bps = [] /\ ls <> []) \/ bps = [T] ->
            fold_left (fun bps level =>
                         unify_levels bps (level_addon scale_u scale_w pvals absorb sg wt q level)
                           (2 ^ (level - 1))) ls bps = [T]).
  { induction ls as [|l ls IH]; intros bps Hls Hb.
    - destruct Hb as [ [_ C] | -> ]; [congruence|reflexivity].
    - cbn [fold_left]. destruct (Hls l (or_introl eq_refl)) as [L1 L2].
      rewrite (single_peak_addon sg wt q l T L2).
      apply IH; [intros l' Hl'; apply Hls; right; exact Hl'|]. right.
      destruct Hb as [ [-> _] | -> ].
      + apply unify_first. exact HT.
      + apply unify_same. apply Z.pow_nonneg. lia. }
  apply G; [exact Hl|]. left. split; [reflexivity|exact Hne].
Qed.

Lemma step_haar_seg_w a b t n w q :
  ~ a == b -> length w = n -> all_pos w -> (32 <= t)%nat -> (t + 32 <= n)%nat ->
  let sg := step_signal a b t n in
  let r := haar_seg scale_u scale_w pvals absorb sg (Some w) q in
  let T := Z.of_nat t in
  let N := Z.of_nat n in
  (forall level, (1 <= level <= 5)%Z ->
     let h := (2 ^ level)%Z in
     let conv := conv_level scale_u scale_w sg (Some w) h in
     (forall k, (0 <= k < N)%Z -> qnth conv k == scale_w h * (b - a) * weighted_tent w T h k) /\
     (forall k, (0 <= k)%Z -> (k + h <= T)%Z -> weighted_tent w T h k == 0) /\
     (forall k, (T + h <= k < N)%Z -> weighted_tent w T h k == 0) /\
     (forall k, (0 <= k)%Z -> (T - h <= k < T)%Z -> weighted_tent w T h k < weighted_tent w T h (k + 1)%Z) /\
     (forall k, (T <= k < T + h)%Z -> weighted_tent w T h (k + 1)%Z < weighted_tent w T h k) /\
     weighted_tent w T h T == 1 /\
     level_peaks scale_u scale_w sg (Some w) level = [T] /\
     level_addon scale_u scale_w pvals absorb sg (Some w) q level = [T]) /\
  hr_breaks r = [T] /\ hr_start r = [0; T]%Z /\ hr_end r = [T - 1; N - 1]%Z /\
  hr_size r = [T; N - T]%Z /\
  exists m1 m2, hr_mean r = [m1; m2] /\ m1 == a /\ m2 == b.
Proof.
  intros Hab Hlw Hp Ht Hn sg r T N.
  assert (Hlen : length sg = n) by (apply step_signal_length; lia).
  assert (Hpk : forall level, (1 <= level <= 5)%Z ->
            find_local_peaks (conv_level scale_u scale_w sg (Some w) (2 ^ level)) = [T]).
  { intros level Hl. pose proof (pow2_le32 level Hl) as P. unfold conv_level.
    eapply step_peaks_w; try eassumption; try lia. apply scale_w_nz. }
  split.
  { intros level Hl h conv. pose proof (pow2_le32 level Hl) as P. fold h in P.
    assert (H1 : (1 <= h <= Z.of_nat t)%Z) by lia.
    assert (H2 : (Z.of_nat t + h <= Z.of_nat n)%Z) by lia.
    split; [|split; [|split; [|split; [|split; [|split; [|split]]]]]].
    - intros k Hk. unfold conv, conv_level. eapply step_conv_w; eassumption.
    - intros k K0 K. eapply wt_zero_left; eassumption.
    - intros k K. eapply wt_zero_right; eassumption.
    - intros k K0 K. eapply wt_inc; eassumption.
    - intros k K. eapply wt_dec; eassumption.
    - eapply wt_top; eassumption.
    - unfold level_peaks. apply Hpk. exact Hl.
    - apply single_peak_addon. apply Hpk. exact Hl. }
  assert (Hb : haar_breakpoints_over scale_u scale_w pvals absorb haar_levels sg (Some w) q = [T]).
  { apply single_peak_breakpoints; [apply haar_levels_nonempty|unfold T; lia|].
    intros l Hl. apply haar_levels_range in Hl. split; [lia|apply Hpk; exact Hl]. }
  unfold r, haar_seg. rewrite Hb. unfold haar_result_of.
  cbn [hr_breaks hr_start hr_end hr_size hr_mean app map combine fst snd].
  unfold Zlength_nat. rewrite Hlen. fold N. rewrite Z.sub_0_r.
  repeat (split; [reflexivity|]).
  eexists. eexists. split; [reflexivity|].
  assert (Hne : sg <> []) by (intros C; rewrite C in Hlen; cbn in Hlen; lia).
  assert (Hbi : breaks_in (Zlength_nat sg) [T]).
  { unfold Zlength_nat. rewrite Hlen. split; [repeat constructor|]. intros x [<-|[]]. unfold T. lia. }
  assert (Hwok : weights_ok sg (Some w)) by (split; [rewrite Hlen; exact Hlw|exact Hp]).
  split.
  - rewrite (segment_by_peaks_nth sg [T] (Some w) 0 T 0 Hne Hbi); [|left; reflexivity|unfold T; lia].
    apply seg_mean_const; [unfold T; lia|rewrite Hlen; unfold T; lia|exact Hwok|].
    unfold sg, T. rewrite slice_step_left by lia. apply all_eq_repeat.
  - rewrite (segment_by_peaks_nth sg [T] (Some w) T N T Hne Hbi);
      [|unfold Zlength_nat; rewrite Hlen; right; left; reflexivity|unfold T, N; lia].
    apply seg_mean_const; [unfold T, N; lia|rewrite Hlen; unfold N; lia|exact Hwok|].
    unfold sg, T, N. rewrite slice_step_right by lia. apply all_eq_repeat.
Qed.

End StepW.
