(* C03 proofs, part 4: a whole chromosome.  Per-arm methods: the arms' chains
   concatenate; whole-table methods: one chain per chromosome with optional
   stretches.  Then the property's clauses are read off the chain. *)
From CNV Require Import Base.Prelude Base.Str Model.Arms Model.Segment Spec.Segments
  Proofs.SegTiles Proofs.SegArm Proofs.SegFields.

(* a reported segment paired with the survivors it summarises *)
Definition pr := (seg * list bin)%type.
Definition p_lo (p : pr) : Z := s_lo (fst p).
Definition p_hi (p : pr) : Z := s_hi (fst p).
Definition p_grp (p : pr) : list bin := snd p.
Notation ptiles := (tiles p_lo p_hi p_grp).

Definition pair_of (m : method) (bins : list bin) (r : rseg) : pr := (finish m bins r, rgrp r).

Definition pair_ok (m : method) (p : pr) : Prop :=
  s_probes (fst p) = Z.of_nat (length (snd p)) /\ s_log2 (fst p) = seg_log2 m (snd p).

Lemma pair_of_ok m bins r : pair_ok m (pair_of m bins r).
Proof. split; reflexivity. Qed.

Lemma pairs_tiles m bins l e E : rtiles e l E -> ptiles e (map (pair_of m bins) l) E.
Proof.
  intros H. apply (tiles_map (pair_of m bins) p_lo p_hi p_grp r_lo r_hi rgrp); try (intros; reflexivity). exact H.
Qed.

Lemma pairs_grouped m bins l : grouped p_grp (map (pair_of m bins) l) = grouped rgrp l.
Proof. apply grouped_map. intros; reflexivity. Qed.

Lemma pairs_ok m bins l : Forall (pair_ok m) (map (pair_of m bins) l).
Proof. apply Forall_map. apply Forall_forall. intros r _. apply pair_of_ok. Qed.

Lemma pairs_segs m bins l : map fst (map (pair_of m bins) l) = map (finish m bins) l.
Proof. rewrite map_map. apply map_ext. intros; reflexivity. Qed.

(* ---- generic list facts ---------------------------------------------------- *)

Lemma map_flat_map {A B C} (f : B -> C) (g : A -> list B) l :
  map f (flat_map g l) = flat_map (fun x => map f (g x)) l.
Proof. induction l as [|x t IH]; cbn; [reflexivity|]. rewrite map_app, IH. reflexivity. Qed.

Lemma StronglySorted_map {A B} (f : A -> B) (R : B -> B -> Prop) l :
  StronglySorted (fun a b => R (f a) (f b)) l -> StronglySorted R (map f l).
Proof. induction 1; cbn; constructor; [assumption|]. apply Forall_map. assumption. Qed.

Lemma sorted_pairs {A} (R R' : A -> A -> Prop) l :
  (forall a b, R a b -> R' a b) -> StronglySorted R l -> ForallOrdPairs R' l.
Proof.
  intros HR. induction 1 as [|a l Hs IH Hf]; constructor; [|exact IH].
  eapply Forall_impl; [|exact Hf]. intros b. apply HR.
Qed.

Lemma filter_map_comm {A B} (f : A -> B) p l : filter p (map f l) = map f (filter (fun x => p (f x)) l).
Proof. induction l as [|x t IH]; cbn; [reflexivity|]. destruct (p (f x)); cbn; rewrite IH; reflexivity. Qed.

Lemma Forall_filter {A} (P : A -> Prop) p l : Forall P l -> Forall P (filter p l).
Proof. induction 1; cbn; [constructor|]. destruct (p x); [constructor|]; assumption. Qed.

Lemma hd_opt_map {A B} (f : A -> B) l : hd_opt (map f l) = option_map f (hd_opt l).
Proof. destruct l; reflexivity. Qed.

Lemma last_opt_map {A B} (f : A -> B) l : last_opt (map f l) = option_map f (last_opt l).
Proof.
  induction l as [|x t IH]; [reflexivity|]. destruct t as [|y t']; [reflexivity|].
  change (last_opt (map f (x :: y :: t'))) with (last_opt (map f (y :: t'))).
  change (last_opt (x :: y :: t')) with (last_opt (y :: t')). exact IH.
Qed.

Lemma tiles_sorted_lo {A} (lo hi : A -> Z) grp e l E :
  tiles lo hi grp e l E -> StronglySorted (fun a b => lo a < lo b) l.
Proof.
  revert e; induction l as [|a t IH]; intros e H; cbn in H; [constructor|].
  destruct H as (H1 & H2 & H3 & H4). constructor; [eapply IH; exact H4|].
  eapply Forall_impl; [|apply (tiles_bounds lo hi grp _ _ _ H4)]. cbn. intros x Hx. lia.
Qed.

(* ---- the clauses, read off a chain ---------------------------------------- *)

Lemma ptiles_tiling bins P : ptiles (span_lo bins) P (span_hi bins) -> tiling bins (map fst P).
Proof.
  intros H. constructor.
  - apply StronglySorted_map. exact (tiles_sorted_lo p_lo p_hi p_grp _ _ _ H).
  - apply Forall_map. eapply Forall_impl; [|apply (tiles_bounds p_lo p_hi p_grp _ _ _ H)].
    cbn. unfold p_lo, p_hi. intros a Ha. lia.
  - apply (sorted_pairs (fun s t => s_hi s <= s_lo t)); [intros a b Hab; left; exact Hab|].
    apply StronglySorted_map. exact (tiles_sorted p_lo p_hi p_grp _ _ _ H).
  - apply Forall_map. eapply Forall_impl; [|apply (tiles_bounds p_lo p_hi p_grp _ _ _ H)].
    cbn. unfold p_lo, p_hi. intros a Ha. lia.
Qed.

Lemma ptiles_accounting m P e E :
  ptiles e P E -> Forall (pair_ok m) P -> accounting (grouped p_grp P) (map fst P).
Proof.
  intros H Hok. rewrite Forall_forall in Hok. constructor.
  - eapply Forall_impl; [|apply (tiles_exactly_one p_lo p_hi p_grp _ _ _ H)].
    intros b Hb. rewrite filter_map_comm, map_length. exact Hb.
  - apply Forall_map. pose proof (tiles_group_exact p_lo p_hi p_grp _ _ _ H) as G.
    rewrite Forall_forall in G |- *. intros a Ha.
    change (contains (fst a)) with (cont p_lo p_hi a). rewrite (G a Ha).
    destruct (Hok a Ha) as (Hp & _). exact Hp.
  - rewrite map_map. rewrite <- (grouped_length p_lo p_hi p_grp P). f_equal. apply map_ext_in.
    intros a Ha. destruct (Hok a Ha) as (Hp & _). exact Hp.
  - intros HS HP. apply map_eq_nil in HP. subst P. apply HS. reflexivity.
Qed.

Lemma ptiles_log2 m P e E :
  ptiles e P E -> Forall (pair_ok m) P -> m <> MHaar ->
  (m = MNone -> Forall (fun b => (0 <= weight_of b)%Q) (grouped p_grp P)) ->
  Forall (log2_mean_ok (grouped p_grp P)) (map fst P).
Proof.
  intros H Hok Hm Hw. rewrite Forall_forall in Hok. apply Forall_map.
  pose proof (tiles_group_exact p_lo p_hi p_grp _ _ _ H) as G.
  rewrite Forall_forall in G |- *. intros a Ha.
  unfold log2_mean_ok. cbv zeta. change (contains (fst a)) with (cont p_lo p_hi a).
  rewrite (G a Ha). destruct (Hok a Ha) as (_ & Hl). rewrite Hl. unfold p_grp.
  destruct m; [| congruence |].
  - exists (mean_none (snd a)). split; [reflexivity|]. apply mean_none_spec.
    specialize (Hw eq_refl). pose proof (G a Ha) as Ga. unfold p_grp in Ga at 2. rewrite <- Ga.
    apply Forall_filter. exact Hw.
  - exists (mean_squash (snd a)). split; [reflexivity|]. apply mean_squash_spec.
Qed.

(* ---- fields ---------------------------------------------------------------- *)

Lemma finish_fields m arm_bins all_bins r :
  filter (overlaps (r_lo r) (r_hi r)) all_bins = filter (overlaps (r_lo r) (r_hi r)) arm_bins ->
  fields_ok all_bins (finish m arm_bins r).
Proof.
  intros Hsp. unfold fields_ok. cbv zeta.
  change (spans (finish m arm_bins r)) with (overlaps (r_lo r) (r_hi r)). rewrite Hsp.
  unfold finish, spanned. cbv zeta. cbn [s_gene s_weight s_depth].
  split; [apply gene_field_spec|apply agg_spec].
Qed.

Lemma spanned_middle pre a post e0 e m E slo shi :
  bins_in e0 pre e -> bins_in m post E -> e <= slo -> shi <= m ->
  filter (overlaps slo shi) (pre ++ a ++ post) = filter (overlaps slo shi) a.
Proof.
  intros Hpre Hpost Hlo Hhi.
  assert (F1 : filter (overlaps slo shi) pre = []).
  { apply filter_all_false. eapply Forall_impl; [|apply (bins_in_all _ _ _ Hpre)].
    unfold overlaps. cbn. intros b Hb. lia. }
  assert (F2 : filter (overlaps slo shi) post = []).
  { apply filter_all_false. eapply Forall_impl; [|apply (bins_in_all _ _ _ Hpost)].
    unfold overlaps. cbn. intros b Hb. lia. }
  rewrite !filter_app', F1, F2. cbn. apply app_nil_r.
Qed.

(* ---- per-arm methods: all arms of a chromosome ----------------------------- *)

Definition arms_pairs (m : method) (arms : list (list fbin)) (off : Z) (bps : list Z) : list pr :=
  flat_map (fun p => map (pair_of m (fst p)) (snd p)) (arms_rsegs m arms off bps).

Lemma arms_pairs_cons m a t off bps :
  arms_pairs m (a :: t) off bps =
  map (pair_of m (map fst a)) (arm_rsegs a (method_bps m off (Z.of_nat (length (survivors a))) bps))
  ++ arms_pairs m t (off + Z.of_nat (length (survivors a))) bps.
Proof. reflexivity. Qed.

Lemma arms_pairs_segs m arms off bps :
  map fst (arms_pairs m arms off bps) =
  flat_map (fun p => map (finish m (fst p)) (snd p)) (arms_rsegs m arms off bps).
Proof.
  unfold arms_pairs. rewrite map_flat_map. apply flat_map_ext. intros p. apply pairs_segs.
Qed.

Lemma arms_pairs_tiles m arms off bps e E :
  bins_in e (map fst (concat arms)) E ->
  ptiles e (arms_pairs m arms off bps) E /\
  grouped p_grp (arms_pairs m arms off bps) = survivors (concat arms).
Proof.
  revert off e; induction arms as [|a t IH]; intros off e H.
  - cbn in *. split; [exact H|reflexivity].
  - rewrite arms_pairs_cons. cbn [concat] in H |- *. rewrite map_app in H.
    apply bins_in_app_inv in H. destruct H as (mid & Ha & Hb).
    destruct (arm_tiles a (method_bps m off (Z.of_nat (length (survivors a))) bps) e mid Ha) as (T1 & G1).
    destruct (IH (off + Z.of_nat (length (survivors a))) mid Hb) as (T2 & G2).
    split.
    + apply (tiles_app p_lo p_hi p_grp e _ mid); [apply pairs_tiles; exact T1|exact T2].
    + rewrite grouped_app, pairs_grouped, G1, G2, survivors_app. reflexivity.
Qed.

Lemma arms_pairs_ok m arms off bps : Forall (pair_ok m) (arms_pairs m arms off bps).
Proof.
  revert off; induction arms as [|a t IH]; intros off; [constructor|].
  rewrite arms_pairs_cons. apply Forall_app. split; [apply pairs_ok|apply IH].
Qed.

Lemma arms_fields m arms off bps pre e0 e E :
  bins_in e0 pre e -> bins_in e (map fst (concat arms)) E ->
  Forall (fun p => fields_ok (pre ++ map fst (concat arms)) (fst p)) (arms_pairs m arms off bps).
Proof.
  revert off pre e; induction arms as [|a t IH]; intros off pre e Hpre H; [constructor|].
  rewrite arms_pairs_cons. cbn [concat] in H |- *. rewrite map_app in H |- *.
  apply bins_in_app_inv in H. destruct H as (mid & Ha & Hb).
  apply Forall_app. split.
  - destruct (arm_tiles a (method_bps m off (Z.of_nat (length (survivors a))) bps) e mid Ha) as (T1 & _).
    pose proof (tiles_bounds r_lo r_hi rgrp _ _ _ T1) as B.
    apply Forall_map. eapply Forall_impl; [|exact B]. intros r Hr. cbv beta in Hr. cbn [pair_of fst].
    apply finish_fields.
    apply (spanned_middle pre (map fst a) (map fst (concat t)) e0 e mid E); [exact Hpre|exact Hb|lia|lia].
  - rewrite app_assoc. apply (IH _ (pre ++ map fst a) mid); [|exact Hb].
    apply (bins_in_app e0 pre e); [exact Hpre|exact Ha].
Qed.

Lemma bins_in_wf e l E : bins_in e l E -> bins_wf l.
Proof.
  intros H. destruct l as [|b t]; [cbn; lia|].
  destruct (bins_in_tight _ _ _ _ H) as (Ht & _). exact Ht.
Qed.

Lemma arm_edges_holds m a bps e E :
  bins_in e (map fst a) E ->
  arm_edges (map fst a) (survivors a) (map (finish m (map fst a)) (arm_rsegs a bps)).
Proof.
  intros H. constructor.
  - apply bins_in_wf in H. destruct (arm_tiles a bps _ _ H) as (T & _).
    apply Forall_map. eapply Forall_impl; [|apply (tiles_bounds r_lo r_hi rgrp _ _ _ T)].
    cbn. intros r Hr. lia.
  - intros Hs. rewrite (arm_rsegs_nil a bps Hs). reflexivity.
  - intros Hs. destruct (arm_rsegs_edges a bps Hs) as (r0 & rl & H0 & Hl & L0 & Ll).
    exists (finish m (map fst a) r0), (finish m (map fst a) rl).
    rewrite hd_opt_map, last_opt_map, H0, Hl. repeat split; assumption.
Qed.

Lemma arms_edges m arms off bps e E :
  bins_in e (map fst (concat arms)) E ->
  Forall2 (fun a part => arm_edges (map fst a) (survivors a) part) arms
          (map (fun p => map (finish m (fst p)) (snd p)) (arms_rsegs m arms off bps)).
Proof.
  revert off e; induction arms as [|a t IH]; intros off e H; [constructor|].
  cbn [concat] in H. rewrite map_app in H. apply bins_in_app_inv in H. destruct H as (mid & Ha & Hb).
  cbn [arms_rsegs map fst snd]. constructor.
  - apply (arm_edges_holds m a _ e mid Ha).
  - apply (IH _ mid Hb).
Qed.

Lemma arm_split_with_concat {A} (lo hi : A -> Z) r l : concat (arm_split_with lo hi r l) = l.
Proof.
  unfold arm_split_with. destruct l as [|x t]; [reflexivity|].
  destruct (arm_cut_with lo hi r (x :: t)) as [j|]; cbn [concat]; rewrite app_nil_r; [apply firstn_skipn|reflexivity].
Qed.

Lemma arm_split_concat {A} (lo hi : A -> Z) l : concat (arm_split lo hi l) = l.
Proof. apply arm_split_with_concat. Qed.

Definition chrom_pairs (m : method) (fl : list fbin) (bps : list Z) : list pr :=
  arms_pairs m (chrom_arms fl) 0 bps.

Lemma chrom_pairs_segs m fl bps : map fst (chrom_pairs m fl bps) = chrom_segs m fl bps.
Proof. apply arms_pairs_segs. Qed.

Lemma chrom_concat fl : concat (chrom_arms fl) = fl.
Proof. apply arm_split_concat. Qed.

(* ---- the chromosome-level statements, per-arm methods ---------------------- *)

Lemma chrom_tiling m fl bps :
  bins_wf (map fst fl) -> tiling (map fst fl) (chrom_segs m fl bps).
Proof.
  intros H. rewrite <- chrom_pairs_segs. apply ptiles_tiling.
  unfold chrom_pairs. apply arms_pairs_tiles. rewrite chrom_concat. exact H.
Qed.

Lemma chrom_accounting m fl bps :
  bins_wf (map fst fl) -> accounting (survivors fl) (chrom_segs m fl bps).
Proof.
  intros H. rewrite <- chrom_pairs_segs. unfold chrom_pairs.
  destruct (arms_pairs_tiles m (chrom_arms fl) 0 bps _ _ (eq_ind_r (fun l => bins_in _ (map fst l) _) H (chrom_concat fl)))
    as (T & G).
  rewrite chrom_concat in G. rewrite <- G.
  apply (ptiles_accounting m _ _ _ T). apply arms_pairs_ok.
Qed.

Lemma chrom_log2 m fl bps :
  bins_wf (map fst fl) -> m <> MHaar ->
  Forall (fun b => (0 <= weight_of b)%Q) (survivors fl) ->
  Forall (log2_mean_ok (survivors fl)) (chrom_segs m fl bps).
Proof.
  intros H Hm Hw. rewrite <- chrom_pairs_segs. unfold chrom_pairs.
  destruct (arms_pairs_tiles m (chrom_arms fl) 0 bps _ _ (eq_ind_r (fun l => bins_in _ (map fst l) _) H (chrom_concat fl)))
    as (T & G).
  rewrite chrom_concat in G. rewrite <- G in Hw |- *.
  apply (ptiles_log2 m _ _ _ T); [apply arms_pairs_ok|exact Hm|intros _; exact Hw].
Qed.

Lemma chrom_fields m fl bps :
  bins_wf (map fst fl) -> Forall (fields_ok (map fst fl)) (chrom_segs m fl bps).
Proof.
  intros H. rewrite <- chrom_pairs_segs. apply Forall_map. unfold chrom_pairs.
  pose proof (arms_fields m (chrom_arms fl) 0 bps [] (span_lo (map fst fl)) (span_lo (map fst fl)) (span_hi (map fst fl))) as F.
  rewrite chrom_concat in F. cbn [app] in F. apply F; [cbn; lia|exact H].
Qed.

Lemma chrom_arm_edges m fl bps :
  bins_wf (map fst fl) ->
  exists parts, concat parts = chrom_segs m fl bps /\
    Forall2 (fun a part => arm_edges (map fst a) (survivors a) part) (chrom_arms fl) parts.
Proof.
  intros H. exists (map (fun p => map (finish m (fst p)) (snd p)) (arms_rsegs m (chrom_arms fl) 0 bps)). split.
  - unfold chrom_segs. rewrite flat_map_concat_map. reflexivity.
  - apply (arms_edges m _ 0 bps (span_lo (map fst fl)) (span_hi (map fst fl))). rewrite chrom_concat. exact H.
Qed.

(* ---- whole-table methods: one chromosome ----------------------------------- *)

Lemma hmm_rsegs_tiles a b c e E :
  bins_in e (map fst (c_fl c)) E ->
  rtiles e (chrom_hmm_rsegs a b c) E /\ grouped rgrp (chrom_hmm_rsegs a b c) = survivors (c_fl c).
Proof.
  intros H. unfold chrom_hmm_rsegs, chrom_raw. destruct (c_fl c) as [|f t].
  - change (survivors []) with (@nil bin). unfold groups_of_breaks. rewrite groups_from_nil.
    split; [exact H|reflexivity].
  - remember (f :: t) as fl eqn:Efl.
    assert (Ht : bins_in (b_lo (fst f)) (map fst fl) (b_hi (fst (last fl f))) /\ e <= b_lo (fst f) /\ b_hi (fst (last fl f)) <= E).
    { subst fl. cbn [map] in *. pose proof (bins_in_tight _ _ _ _ H) as Hq.
      rewrite last_cons. rewrite <- (last_map fst t f). exact Hq. }
    destruct Ht as (Ht & He & HE).
    pose proof (groups_tiles 0 (c_bps c) _ _ _ (bins_in_survivors _ _ _ Ht)) as T0.
    fold (groups_of_breaks (c_bps c) (survivors fl)) in T0.
    pose proof (groups_concat 0 (c_bps c) (survivors fl)) as G0.
    fold (groups_of_breaks (c_bps c) (survivors fl)) in G0.
    set (raw := map seg_of_group (groups_of_breaks (c_bps c) (survivors fl))) in *.
    assert (T1 : rtiles (b_lo (fst f)) (if a then stretch_lo (b_lo (fst f)) raw else raw) (b_hi (fst (last fl f))) /\
                 grouped rgrp (if a then stretch_lo (b_lo (fst f)) raw else raw) = survivors fl).
    { destruct a; [|split; assumption]. split; [|rewrite stretch_lo_grouped; exact G0].
      apply (stretch_lo_tiles _ _ (b_lo (fst f))); [apply Z.le_refl|apply Z.le_refl|exact T0]. }
    destruct T1 as (T1 & G1).
    set (r1 := if a then stretch_lo (b_lo (fst f)) raw else raw) in *.
    destruct b.
    + split; [|rewrite stretch_hi_grouped; exact G1].
      apply (tiles_weaken r_lo r_hi rgrp (b_lo (fst f)) e _ (b_hi (fst (last fl f))) E); [exact He|exact HE|].
      apply (stretch_hi_tiles _ _ (b_hi (fst (last fl f)))); [apply Z.le_refl|apply Z.le_refl|exact T1].
    + split; [|exact G1].
      apply (tiles_weaken r_lo r_hi rgrp (b_lo (fst f)) e _ (b_hi (fst (last fl f))) E); [exact He|exact HE|exact T1].
Qed.

Definition chrom_hmm_pairs (a b : bool) (c : chrom_in) : list pr :=
  map (pair_of MHmm (map fst (c_fl c))) (chrom_hmm_rsegs a b c).

Lemma chrom_hmm_pairs_segs a b c : map fst (chrom_hmm_pairs a b c) = chrom_hmm_segs a b c.
Proof. apply pairs_segs. Qed.

Lemma hmm_tiling a b c :
  bins_wf (map fst (c_fl c)) -> tiling (map fst (c_fl c)) (chrom_hmm_segs a b c).
Proof.
  intros H. rewrite <- chrom_hmm_pairs_segs. apply ptiles_tiling. apply pairs_tiles.
  apply hmm_rsegs_tiles. exact H.
Qed.

Lemma hmm_accounting a b c :
  bins_wf (map fst (c_fl c)) -> accounting (survivors (c_fl c)) (chrom_hmm_segs a b c).
Proof.
  intros H. rewrite <- chrom_hmm_pairs_segs. destruct (hmm_rsegs_tiles a b c _ _ H) as (T & G).
  rewrite <- G. rewrite <- (pairs_grouped MHmm (map fst (c_fl c))).
  apply (ptiles_accounting MHmm _ _ _ (pairs_tiles MHmm _ _ _ _ T)). apply pairs_ok.
Qed.

Lemma hmm_log2 a b c :
  bins_wf (map fst (c_fl c)) -> Forall (log2_mean_ok (survivors (c_fl c))) (chrom_hmm_segs a b c).
Proof.
  intros H. rewrite <- chrom_hmm_pairs_segs. destruct (hmm_rsegs_tiles a b c _ _ H) as (T & G).
  rewrite <- G. rewrite <- (pairs_grouped MHmm (map fst (c_fl c))).
  apply (ptiles_log2 MHmm _ _ _ (pairs_tiles MHmm _ _ _ _ T)); [apply pairs_ok|discriminate|discriminate].
Qed.

Lemma hmm_fields a b c : Forall (fields_ok (map fst (c_fl c))) (chrom_hmm_segs a b c).
Proof.
  unfold chrom_hmm_segs. apply Forall_map. apply Forall_forall. intros r _. apply finish_fields. reflexivity.
Qed.

Lemma hmm_rows_shape is_first tbl :
  Forall2 (fun c row => exists a b, row = (c_name c, chrom_hmm_segs a b c)) tbl (hmm_rows is_first tbl).
Proof.
  revert is_first; induction tbl as [|c t IH]; intros is_first; cbn [hmm_rows]; constructor.
  - eexists _, _. reflexivity.
  - apply IH.
Qed.
