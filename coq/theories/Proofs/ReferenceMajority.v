(* Columns in which the samples agree: flat :: v, v, ..., v.  With at least two samples (or with
   the flat value equal to v) the biweight location is v and the midvariance is 0, provided the
   flat value does not sit strictly within epsilon of v (it is then masked out; inside epsilon it
   would pull the location by less than epsilon). *)
From CNV Require Import Base.Prelude Base.QNum Spec.Biweight Proofs.QNumLemmas.
From Coq Require Import Qabs.
Local Open Scope Q_scope.

(* ---- the median of a list with a majority value --------------------------------------------------- *)
Lemma allv_sorted v l : (forall x, In x l -> x == v) -> sortedQ l.
Proof.
  induction l as [|a l IH]; intros H; constructor.
  - apply IH. intros x Hx. apply H. now right.
  - apply Forall_forall. intros y Hy. rewrite (H a (or_introl eq_refl)), (H y (or_intror Hy)). apply Qle_refl.
Qed.

Lemma nthq_tail f vs j v :
  (1 <= j <= length vs)%nat -> (forall x, In x vs -> x == v) -> nthq j (f :: vs) == v.
Proof.
  intros Hj H. destruct j as [|j]; [lia|]. unfold nthq. cbn [nth]. apply H. apply nth_In. lia.
Qed.

Lemma median_majority_le f vs v :
  (2 <= length vs)%nat -> (forall x, In x vs -> x == v) -> f <= v -> median (f :: vs) == v.
Proof.
  intros Hk H Hf.
  assert (S : sortedQ (f :: vs)).
  { constructor; [eapply allv_sorted; eauto|]. apply Forall_forall. intros y Hy. rewrite (H y Hy). exact Hf. }
  rewrite (median_of_sorted _ S).
  destruct (Nat.even (length (f :: vs))) eqn:E.
  - rewrite (median_sorted_even _ E). pose proof (even_half_true _ E) as Hh. cbn [length] in *.
    rewrite (nthq_tail f vs _ v), (nthq_tail f vs _ v); auto; try lia. field.
  - rewrite (median_sorted_odd _ E). pose proof (even_half_false _ E) as Hh. cbn [length] in *.
    apply nthq_tail; auto. lia.
Qed.

Lemma median_majority f vs v :
  (2 <= length vs)%nat -> (forall x, In x vs -> x == v) -> median (f :: vs) == v.
Proof.
  intros Hk H. destruct (Qlt_le_dec v f) as [Hlt|Hle]; [|now apply median_majority_le].
  (* mirror the list *)
  assert (E : median (map Qopp (f :: vs)) == - v).
  { cbn [map]. apply median_majority_le.
    - now rewrite map_length.
    - intros x Hx. apply in_map_iff in Hx. destruct Hx as (y & <- & Hy). rewrite (H y Hy). reflexivity.
    - apply Qopp_le_compat. apply Qlt_le_weak. exact Hlt. }
  rewrite median_opp in E. rewrite <- (Qopp_involutive (median (f :: vs))), E. apply Qopp_involutive.
Qed.

Lemma median_all v l : l <> [] -> (forall x, In x l -> x == v) -> median l == v.
Proof. apply median_const. Qed.

(* ---- sums over lists whose terms are constant -------------------------------------------------------- *)
Lemma sumQ_zero (h : Q -> Q) l : (forall x, In x l -> h x == 0) -> sumQ h l == 0.
Proof.
  induction l as [|x l IH]; intros H; [reflexivity|]. cbn [sumQ].
  rewrite (H x (or_introl eq_refl)), IH; [reflexivity|]. intros y Hy. apply H. now right.
Qed.

Lemma sumQ_ones (h : Q -> Q) l : (forall x, In x l -> h x == 1) -> sumQ h l == qofnat (length l).
Proof.
  induction l as [|x l IH]; intros H; [reflexivity|]. cbn [sumQ length].
  rewrite (H x (or_introl eq_refl)), IH, qofnat_S; [ring|]. intros y Hy. apply H. now right.
Qed.

(* ---- the agreeing column -------------------------------------------------------------------------------- *)
Section Agree.
  Variables (c eps : Q).
  Hypothesis Hc : 0 <= c.
  Hypothesis He : 0 < eps.

  Variables (f v : Q) (vs : list Q).
  Hypothesis Hvs : forall x, In x vs -> x == v.
  (* either the flat value agrees too, or there are two samples and it is not strictly within eps *)
  Hypothesis Hmaj : (f == v /\ vs <> []) \/ (eps <= Qabs (f - v) /\ (2 <= length vs)%nat).

  Lemma col_median : median (f :: vs) == v.
  Proof.
    destruct Hmaj as [(Ef & Hne)|(_ & Hk)].
    - apply median_const; [discriminate|]. intros x [<-|Hx]; auto.
    - now apply median_majority.
  Qed.

  Lemma col_mad m : m == v -> mad_about m (f :: vs) == 0.
  Proof.
    intros Em. unfold mad_about. cbn [map].
    assert (Hz : forall x, In x (map (fun x => Qabs (x - m)) vs) -> x == 0).
    { intros x Hx. apply in_map_iff in Hx. destruct Hx as (y & <- & Hy).
      rewrite (Hvs y Hy), Em. setoid_replace (v - v) with 0 by ring. reflexivity. }
    destruct Hmaj as [(Ef & Hne)|(_ & Hk)].
    - apply median_const; [discriminate|]. intros x [<-|Hx]; auto.
      rewrite Ef, Em. setoid_replace (v - v) with 0 by ring. reflexivity.
    - apply median_majority; [now rewrite map_length|exact Hz].
  Qed.

  Lemma col_scale m : m == v -> bw_scale c eps m (f :: vs) = eps.
  Proof.
    intros Em. unfold bw_scale, Qmax2.
    assert (H : Qle_bool (c * mad_about m (f :: vs)) eps = true).
    { apply Qle_bool_iff. rewrite (col_mad m Em). setoid_replace (c * 0) with 0 by ring.
      apply Qlt_le_weak. exact He. }
    now rewrite H.
  Qed.

  (* what passes the mask sits on the centre; and something passes *)
  Lemma col_inside m x : m == v ->
    In x (filter (bw_inside eps m) (f :: vs)) -> x == m.
  Proof.
    intros Em Hx. apply filter_In in Hx. destruct Hx as (Hin & Hb).
    destruct Hin as [<-|Hin]; [|rewrite (Hvs x Hin), Em; reflexivity].
    destruct Hmaj as [(Ef & _)|(Hfar & _)]; [rewrite Ef, Em; reflexivity|].
    exfalso. unfold bw_inside, bw_u in Hb. apply negb_true_iff in Hb.
    assert (Hq : 1 <= Qabs ((f - m) / eps)).
    { unfold Qdiv. rewrite Qabs_Qmult. rewrite (Qabs_pos (/ eps)) by (apply Qlt_le_weak, Qinv_lt_0_compat; exact He).
      apply Qle_shift_div_l; [exact He|]. rewrite Qmult_1_l. rewrite Em. exact Hfar. }
    apply Qle_bool_iff in Hq. congruence.
  Qed.

  Lemma col_inside_nonempty m : m == v -> filter (bw_inside eps m) (f :: vs) <> [].
  Proof.
    intros Em.
    assert (Hx : exists x, In x vs) by (destruct vs as [|x t]; [destruct Hmaj as [(_ & H)|(_ & H)]; [congruence|cbn in H; lia]|exists x; now left]).
    destruct Hx as (x & Hx). intros E.
    assert (Hin : In x (filter (bw_inside eps m) (f :: vs))).
    { apply filter_In. split; [now right|]. unfold bw_inside, bw_u. apply negb_true_iff.
      destruct (Qle_bool 1 (Qabs ((x - m) / eps))) eqn:Hb; [|reflexivity].
      apply Qle_bool_iff in Hb. exfalso.
      assert (Hz : (x - m) / eps == 0) by (rewrite (Hvs x Hx), Em; unfold Qdiv; ring).
      rewrite Hz in Hb. cbn in Hb. apply (Qle_not_lt _ _ Hb). reflexivity. }
    rewrite E in Hin. exact Hin.
  Qed.

  (* one step from a centre equal to v stays there *)
  Lemma col_step m : m == v -> bw_step c eps (f :: vs) m == m.
  Proof.
    intros Em. unfold bw_step. rewrite (col_scale m Em).
    set (ins := filter (bw_inside eps m) (f :: vs)).
    assert (Hin : forall x, In x ins -> x == m) by (intros x Hx; eapply col_inside; eauto).
    assert (HW : sumQ (bw_weight eps m) ins == qofnat (length ins)).
    { apply sumQ_ones. intros x Hx. unfold bw_weight, bw_u, sq. rewrite (Hin x Hx). unfold Qdiv. ring. }
    assert (HN : sumQ (fun x => (x - m) * bw_weight eps m x) ins == 0).
    { apply sumQ_zero. intros x Hx.
      assert (E0 : x - m == 0) by (rewrite (Hin x Hx); ring). rewrite E0. ring. }
    assert (Hpos : 0 < qofnat (length ins)).
    { apply qofnat_pos. pose proof (col_inside_nonempty m Em) as Hne. fold ins in Hne.
      destruct ins; [congruence|cbn; lia]. }
    destruct (Qeq_bool (sumQ (bw_weight eps m) ins) 0) eqn:E; [reflexivity|].
    rewrite HN. unfold Qdiv. ring.
  Qed.

  Theorem agree_location n : biweight_location_spec c eps (S n) (f :: vs) == v.
  Proof.
    unfold biweight_location_spec. cbn [bw_iterate].
    pose proof col_median as Em. pose proof (col_step _ Em) as Es.
    assert (Hb : Qle_bool (Qabs (bw_step c eps (f :: vs) (median (f :: vs)) - median (f :: vs))) eps = true).
    { apply Qle_bool_iff. rewrite Es. setoid_replace (median (f :: vs) - median (f :: vs)) with 0 by ring.
      apply Qlt_le_weak. exact He. }
    rewrite Hb, Es. exact Em.
  Qed.

  Theorem agree_midvar k m : m == v -> biweight_midvar_sq_spec c eps k (f :: vs) m == 0.
  Proof.
    intros Em. unfold biweight_midvar_sq_spec. rewrite (col_scale m Em).
    assert (Hall : forallb (fun x => Qeq_bool (x - m) 0) (filter (bw_inside eps m) (f :: vs)) = true).
    { apply forallb_forall. intros x Hx. apply Qeq_bool_iff. rewrite (col_inside m x Em Hx). ring. }
    rewrite Hall. unfold sq. rewrite (col_mad m Em). ring.
  Qed.
End Agree.
