(* C19 source tie [loop ties e2]: weighted_median from `midpoint = 0.5 * weights.sum()` to the end, as ONE
   definition regenerated from cnvlib/descriptives.py on every run (Gen/FnWmedianTail.v fn_wm_tail): the majority
   shortcut, the rounding allowance, the index `cumulative_weight.searchsorted(midpoint - tolerance)` finds (an
   opaque input keyed by the call's text), the tie test `midpoint_idx < len(a) - 1 and |cum - midpoint| <= tolerance`
   and the averaging rule.  Here: Model/Descriptives.v wmedian_sorted IS fn_wm_tail when the index is the first
   position whose cumulative weight reaches midpoint - tolerance (wm_index = what searchsorted returns), the array
   reads being those of the model's sorted pairs. *)
From CNV Require Import Base.Prelude Base.QNum Proofs.QNumLemmas Gen.DescDefaults Gen.FnWmedianTail Model.Descriptives.
From Coq Require Import Qabs Lia.
Local Open Scope Q_scope.

(* (kept local so that this tie depends on no other source tie) *)
Lemma Qle_bool_wd a a' b b' : a == a' -> b == b' -> Qle_bool a b = Qle_bool a' b'.
Proof.
  intros Ha Hb. destruct (Qle_bool a b) eqn:E1, (Qle_bool a' b') eqn:E2; try reflexivity.
  - apply Qle_bool_iff in E1. rewrite Ha, Hb in E1. apply Qle_bool_iff in E1. congruence.
  - apply Qle_bool_iff in E2. rewrite <- Ha, <- Hb in E2. apply Qle_bool_iff in E2. congruence.
Qed.

(* searchsorted(thr) on the running sums started at acc: the first position whose running sum is >= thr
   (the length when there is none) *)
Fixpoint wm_index (thr acc : Q) (ps : list (Q * Q)) : nat :=
  match ps with
  | [] => O
  | (_, w) :: rest => let c := qadd acc w in if qle_b thr c then O else S (wm_index thr c rest)
  end.

Lemma wmed_walk_at mid tol : forall ps acc,
  wmed_walk mid tol acc ps =
  let i := wm_index (qsub mid tol) acc ps in
  let vals := map fst ps in
  if (Z.of_nat i <? Z.of_nat (length ps) - 1)%Z
     && qle_b (qabs (qsub (nth i (qcumsum_from acc (map snd ps)) 0) mid)) tol
  then qdiv (qadd (nth i vals 0) (nth (S i) vals 0)) 2 else nth i vals 0.
Proof.
  induction ps as [|[v w] rest IH]; intro acc; [reflexivity|].
  cbn [wmed_walk wm_index map qcumsum_from fst snd length]. cbv zeta.
  change (Qred (acc + w)) with (qadd acc w).
  destruct (qle_b (qsub mid tol) (qadd acc w)) eqn:E.
  - cbn [nth]. destruct rest as [|[v2 w2] r]; [reflexivity|].
    cbn [length map fst nth].
    destruct (Z.ltb_spec (Z.of_nat 0) (Z.of_nat (S (S (length r))) - 1)) as [L|L]; [|lia].
    cbn [andb]. reflexivity.
  - rewrite IH. cbv zeta. cbn [nth].
    set (i := wm_index (qsub mid tol) (qadd acc w) rest).
    assert (B : (Z.of_nat (S i) <? Z.of_nat (S (length rest)) - 1)%Z = (Z.of_nat i <? Z.of_nat (length rest) - 1)%Z).
    { destruct (Z.ltb_spec (Z.of_nat (S i)) (Z.of_nat (S (length rest)) - 1)),
               (Z.ltb_spec (Z.of_nat i) (Z.of_nat (length rest) - 1)); try reflexivity; lia. }
    rewrite B. reflexivity.
Qed.

Theorem source_wmedian_tail ps :
  let w := map snd ps in
  let vals := map fst ps in
  let mid := qmul WMEDIAN_HALF (qsum w) in
  let i := wm_index (qsub mid (wmed_tol ps)) 0 ps in
  wmedian_sorted ps =
  fn_wm_tail (qsum w) (existsb (fun p => qlt_b mid (snd p)) ps)
             (match ps with [] => 0 | p :: t => fst (argmax_from p t) end)
             (qcumsum w) (Z.of_nat (length ps)) WMEDIAN_TOL_EPS (qsum w)
             (Z.of_nat i) (nth i (qcumsum w) 0)
             (qdiv (qadd (nth i vals 0) (nth (S i) vals 0)) 2) (nth i vals 0).
Proof.
  cbv zeta. unfold wmedian_sorted, fn_wm_tail. cbv zeta.
  destruct (existsb _ ps); [reflexivity|].
  rewrite wmed_walk_at. cbv zeta. unfold qcumsum.
  set (i := wm_index _ 0 ps). set (c := nth i _ 0).
  assert (B : qle_b (qabs (qsub c (qmul WMEDIAN_HALF (qsum (map snd ps))))) (wmed_tol ps)
              = Qle_bool (Qabs (c - (1 # 2) * qsum (map snd ps)))
                         (inject_Z (Z.of_nat (length ps)) * WMEDIAN_TOL_EPS * qsum (map snd ps))).
  { unfold qle_b, qabs, wmed_tol, qofnat, WMEDIAN_HALF. apply Qle_bool_wd.
    - apply Qabs_wd. rewrite qsub_spec, qmul_spec. reflexivity.
    - rewrite !qmul_spec. reflexivity. }
  rewrite B. reflexivity.
Qed.
