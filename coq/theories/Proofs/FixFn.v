(* Tie of the hand-written edge formulas of Model/Fix.v to the bodies of cnvlib/fix.py edge_losses /
   edge_gains as translated on every run into Gen/FnFix.v (DESIGN 9.4), and of the generated
   literals the model was written for. *)
From CNV Require Import Base.Prelude Base.Str Base.QNum Model.Fix Gen.Params Gen.FixDefaults Gen.FnFix.
Local Open Scope Q_scope.

Lemma inject_Z_sub a b : inject_Z (a - b) == inject_Z a - inject_Z b.
Proof. unfold Z.sub. rewrite inject_Z_plus, inject_Z_opp. reflexivity. Qed.

Theorem fn_edge_losses_eq t : edge_loss t == fn_edge_losses t INSERT_SIZE.
Proof.
  unfold edge_loss, fn_edge_losses, isz. cbv zeta.
  destruct (t <? INSERT_SIZE)%Z; rewrite Qred_correct;
    rewrite ?inject_Z_mult, ?inject_Z_sub, ?inject_Z_mult; reflexivity.
Qed.

Theorem fn_edge_gains_eq t g : edge_gain t g == fn_edge_gains t g INSERT_SIZE.
Proof.
  unfold edge_gain, fn_edge_gains, isz. cbv zeta.
  destruct (t + Z.max 0 g <? INSERT_SIZE)%Z; rewrite Qred_correct;
    rewrite ?inject_Z_mult, ?inject_Z_sub, ?inject_Z_mult; reflexivity.
Qed.

(* the autosome rule of the model was written for this pattern, the shuffle for this seed *)
Lemma fix_literals : autosome_pattern = "(chr)?\d+$"%string /\ shuffle_seed = 679661%Z.
Proof. split; reflexivity. Qed.
