(* C01 source tie of absolute_pure's loop: ONE ITERATION of `for i, row in enumerate(cnarr):`

       ref_copies = _reference_copies_pure(row.chromosome, ploidy, is_haploid_x_reference)
       absolutes[i] = _log2_ratio_to_absolute_pure(row.log2, ref_copies)

   is regenerated from the Python source on every run (Gen/FnCallPureRow.v fn_pure_row: the value stored at
   absolutes[i]; the two callees are translated in the same module).  Here: it IS the `absolutes` of Model/Call.v
   call_row_pure -- the row function of the no-purity clonal path that C01_cn_exact / C01_nearest / C01_nonneg speak
   about through call_row --, and the cn of that row is its half-to-even rounding (do_call's
   `absolutes.round().astype("int")`, tied by FnCallFinish). *)
From CNV Require Import Base.Prelude Base.Str Gen.CallDefaults Gen.FnCall Gen.FnCallPureRow Model.Call.
From CNV Require Proofs.CallNum Proofs.Call Proofs.FnCall.
Local Open Scope Z_scope.

Lemma purerow_ref_pure chrom k hapx : fn_purerow_ref_pure chrom k hapx = ref_pure chrom k hapx.
Proof. rewrite <- FnCall.fn_ref_pure_eq. reflexivity. Qed.

Lemma source_pure_row (exp2 : Q -> Q) i chrom v k hapx :
  (fn_pure_row exp2 i chrom v k hapx == Call.abs_of (call_row_pure k hapx chrom (exp2 v)))%Q /\
  Call.cn_of (call_row_pure k hapx chrom (exp2 v)) = round_he (fn_pure_row exp2 i chrom v k hapx) /\
  Call.ratio_of (call_row_pure k hapx chrom (exp2 v)) = None.
Proof.
  assert (A : (fn_pure_row exp2 i chrom v k hapx == abs_pure (exp2 v) (ref_pure chrom k hapx))%Q).
  { unfold fn_pure_row. cbv zeta. rewrite purerow_ref_pure.
    exact (FnCall.fn_abs_pure_eq exp2 v (ref_pure chrom k hapx)). }
  unfold call_row_pure, Call.abs_of, Call.cn_of, Call.ratio_of. cbn [fst snd].
  split; [exact A|]. split; [|reflexivity].
  apply CallNum.round_he_comp. symmetry. exact A.
Qed.

(* and call_row without a usable purity is that row *)
Lemma source_pure_call_row (exp2 : Q -> Q) i k purity hapx female build first chrom lo hi v :
  use_purity purity = None ->
  let a := fn_pure_row exp2 i chrom v k hapx in
  let c := call_row k purity hapx female build first (chrom, lo, hi, exp2 v) in
  (Call.abs_of c == a)%Q /\ Call.cn_of c = round_he a /\ Call.ratio_of c = None.
Proof.
  intro U. cbv zeta. unfold call_row. rewrite U.
  destruct (source_pure_row exp2 i chrom v k hapx) as [A [B C]].
  split; [symmetry; exact A|]. split; [exact B | exact C].
Qed.
