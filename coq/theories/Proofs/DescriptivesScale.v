(* C19 -- scale estimators: each model function equals its textbook formula of
   Spec/Stats.v, is non-negative, zero on constant data, unchanged by adding a
   constant and proportional under rescaling.  MAD, IQR, Q_n, mean squared
   error, weighted variance (= weighted_std squared). *)
From CNV Require Import Base.Prelude Base.QNum Proofs.QNumLemmas Gen.DescDefaults
  Model.Descriptives Spec.Stats Proofs.DescriptivesWMedian.
From Coq Require Import Qabs Qround Psatz Setoid Morphisms.
Local Open Scope Q_scope.

Lemma qabs_Qabs x : qabs x = Qabs x. Proof. reflexivity. Qed.

Lemma sumQ_eqQ l l' : eqQ l l' -> sumQ l == sumQ l'.
Proof. induction 1 as [|x y l l' E _ IH]; cbn [sumQ]; [reflexivity|]. now rewrite E, IH. Qed.

Lemma nQ_qofnat {A} (l : list A) : nQ l = qofnat (length l).
Proof. reflexivity. Qed.

Lemma qmean_meanQ l : qmean l == meanQ l.
Proof. unfold meanQ. rewrite qmean_spec, qsum_sumQ, nQ_qofnat. reflexivity. Qed.

(* ========================================================================== *)
(** * Median absolute deviation *)

Lemma devs_spec m a : eqQ (abs_all (sub_all m a)) (map (fun x => Qabs (x - m)) a).
Proof.
  unfold abs_all, sub_all. rewrite map_map. apply eqQ_map_ext. intros x _.
  unfold qabs. now rewrite qsub_spec.
Qed.

Lemma mad_core_unscaled a : mad_core a false == madQ a.
Proof. unfold mad_core, madQ. apply median_eqQ, devs_spec. Qed.

Lemma mad_core_scaled a : mad_core a true == madQ a * MAD_SCALE.
Proof. unfold mad_core. rewrite qmul_spec. fold (mad_core a false). now rewrite mad_core_unscaled. Qed.

Lemma madQ_shift c a : a <> [] -> madQ (map (fun x => x + c) a) == madQ a.
Proof.
  intro N. unfold madQ. rewrite map_map.
  apply median_map_ext. intros x _. rewrite (median_shift c a N). apply Qabs_wd. ring.
Qed.

Lemma madQ_scale k a : madQ (map (fun x => k * x) a) == Qabs k * madQ a.
Proof.
  unfold madQ. rewrite map_map.
  rewrite <- (median_scale (Qabs k)). rewrite map_map.
  apply median_map_ext. intros x _. rewrite (median_scale k a), <- Qabs_Qmult. apply Qabs_wd. ring.
Qed.

Lemma madQ_nonneg a : 0 <= madQ a.
Proof.
  unfold madQ. apply median_nonneg. intros y Hy. apply in_map_iff in Hy as (x & <- & _). apply Qabs_nonneg.
Qed.

Lemma madQ_const c a : a <> [] -> (forall x, In x a -> x == c) -> madQ a == 0.
Proof.
  intros N H. unfold madQ. apply median_const.
  - destruct a; [congruence|discriminate].
  - intros y Hy. apply in_map_iff in Hy as (x & <- & Hx).
    rewrite (median_const c a N H), (H x Hx). setoid_replace (c - c) with 0 by ring. reflexivity.
Qed.

(* ========================================================================== *)
(** * Interquartile range *)

Lemma iqr_core_spec a : iqr_core a == iqrQ a.
Proof. unfold iqr_core, iqrQ, IQR_HI, IQR_LO. rewrite qsub_spec. reflexivity. Qed.

Lemma p25 : 0 <= 25 <= 100. Proof. split; unfold Qle; cbn; lia. Qed.
Lemma p75 : 0 <= 75 <= 100. Proof. split; unfold Qle; cbn; lia. Qed.

Lemma iqrQ_shift c a : a <> [] -> iqrQ (map (fun x => x + c) a) == iqrQ a.
Proof. intro N. unfold iqrQ. rewrite !percentile_shift by (auto using p25, p75). ring. Qed.

Lemma iqrQ_scale_nonneg k a : a <> [] -> 0 <= k -> iqrQ (map (fun x => k * x) a) == k * iqrQ a.
Proof. intros N K. unfold iqrQ. rewrite !percentile_scale_nonneg by (auto using p25, p75). ring. Qed.

Lemma iqrQ_nonneg a : a <> [] -> 0 <= iqrQ a.
Proof.
  intro N. unfold iqrQ.
  assert (percentile 25 a <= percentile 75 a).
  { apply percentile_mono; auto; unfold Qle; cbn; lia. }
  lra.
Qed.

Lemma iqrQ_const c a : a <> [] -> (forall x, In x a -> x == c) -> iqrQ a == 0.
Proof.
  intros N H. unfold iqrQ. rewrite !(percentile_const _ c a N) by (auto using p25, p75). ring.
Qed.

(* ========================================================================== *)
(** * Q_n *)

Lemma pair_diffs_spec a : eqQ (pair_diffs a) (pairs_absdiff a).
Proof.
  induction a as [|x t IH]; cbn [pair_diffs pairs_absdiff]; [constructor|].
  apply eqQ_app; [|exact IH]. apply eqQ_map_ext. intros y _. unfold qabs. now rewrite qsub_spec.
Qed.

Lemma qn_core_spec a : qn_core a == qn_quartileQ a / qn_scale (length a).
Proof.
  unfold qn_core, qn_quartileQ, QN_PCT. rewrite qdiv_spec.
  now rewrite (percentile_eqQ 25 _ _ (pair_diffs_spec a)).
Qed.

Lemma pairs_absdiff_shift c a : eqQ (pairs_absdiff (map (fun x => x + c) a)) (pairs_absdiff a).
Proof.
  induction a as [|x t IH]; cbn [map pairs_absdiff]; [constructor|].
  apply eqQ_app; [|exact IH]. rewrite map_map. apply eqQ_map_ext. intros y _. apply Qabs_wd. ring.
Qed.

Lemma pairs_absdiff_scale k a :
  eqQ (pairs_absdiff (map (fun x => k * x) a)) (map (fun d => Qabs k * d) (pairs_absdiff a)).
Proof.
  induction a as [|x t IH]; cbn [map pairs_absdiff]; [constructor|].
  rewrite map_app. apply eqQ_app; [|exact IH]. rewrite !map_map. apply eqQ_map_ext. intros y _.
  rewrite <- Qabs_Qmult. apply Qabs_wd. ring.
Qed.

Lemma pairs_absdiff_nonnil a : (2 <= length a)%nat -> pairs_absdiff a <> [].
Proof. destruct a as [|x [|y t]]; cbn; intro H; try lia. discriminate. Qed.

Lemma pairs_absdiff_nonneg a : forall d, In d (pairs_absdiff a) -> 0 <= d.
Proof.
  induction a as [|x t IH]; cbn [pairs_absdiff]; intros d Hd; [destruct Hd|].
  apply in_app_or in Hd as [Hd|Hd]; [|now apply IH].
  apply in_map_iff in Hd as (y & <- & _). apply Qabs_nonneg.
Qed.

Lemma pairs_absdiff_const c a : (forall x, In x a -> x == c) -> forall d, In d (pairs_absdiff a) -> d == 0.
Proof.
  induction a as [|x t IH]; cbn [pairs_absdiff]; intros H d Hd; [destruct Hd|].
  apply in_app_or in Hd as [Hd|Hd].
  - apply in_map_iff in Hd as (y & <- & Hy). rewrite (H x) by now left. rewrite (H y) by now right.
    setoid_replace (c - c) with 0 by ring. reflexivity.
  - apply IH; [|exact Hd]. intros; apply H; now right.
Qed.

Lemma qn_quartileQ_shift c a : qn_quartileQ (map (fun x => x + c) a) == qn_quartileQ a.
Proof. unfold qn_quartileQ. apply percentile_eqQ, pairs_absdiff_shift. Qed.

Lemma qn_quartileQ_scale k a : (2 <= length a)%nat ->
  qn_quartileQ (map (fun x => k * x) a) == Qabs k * qn_quartileQ a.
Proof.
  intro N. unfold qn_quartileQ. rewrite (percentile_eqQ 25 _ _ (pairs_absdiff_scale k a)).
  apply percentile_scale_nonneg; [now apply pairs_absdiff_nonnil|apply p25|apply Qabs_nonneg].
Qed.

Lemma qn_quartileQ_nonneg a : (2 <= length a)%nat -> 0 <= qn_quartileQ a.
Proof.
  intro N. unfold qn_quartileQ.
  pose proof (percentile_min_max 25 _ (pairs_absdiff_nonnil a N) p25) as [H _].
  assert (0 <= qmin (pairs_absdiff a)).
  { apply qmin_glb; [now apply pairs_absdiff_nonnil|apply pairs_absdiff_nonneg]. }
  lra.
Qed.

Lemma qn_quartileQ_const c a : (2 <= length a)%nat -> (forall x, In x a -> x == c) -> qn_quartileQ a == 0.
Proof.
  intros N H. unfold qn_quartileQ. apply percentile_const; [now apply pairs_absdiff_nonnil|apply p25|].
  now apply (pairs_absdiff_const c).
Qed.

Lemma qn_scale_pos n : 0 < qn_scale n.
Proof.
  unfold qn_scale. destruct (Z.of_nat n <=? QN_SMALL_N)%Z; [reflexivity|].
  destruct ((QN_MID_LO <? Z.of_nat n) && (Z.of_nat n <? QN_MID_HI))%Z eqn:E; [|reflexivity].
  rewrite qadd_spec, qdiv_spec. unfold QN_MID_BASE, QN_MID_NUM.
  assert (0 < qofnat n).
  { apply qofnat_pos. apply andb_true_iff in E as [E _]. unfold QN_MID_LO in E. lia. }
  assert (0 < 4 / qofnat n) by (apply Qlt_shift_div_l; lra). lra.
Qed.

(* ========================================================================== *)
(** * Mean squared error *)

Lemma mse_sq_spec i a : eqQ (map qsq (sub_all i a)) (map (fun x => (x - i) * (x - i)) a).
Proof.
  unfold sub_all. rewrite map_map. apply eqQ_map_ext. intros x _. now rewrite qsq_spec, qsub_spec.
Qed.

Lemma mse_zero_spec a : eqQ (map qsq a) (map (fun x => (x - 0) * (x - 0)) a).
Proof. apply eqQ_map_ext. intros x _. rewrite qsq_spec. ring. Qed.

Lemma meanQ_eqQ l l' : eqQ l l' -> meanQ l == meanQ l'.
Proof. intro H. unfold meanQ, nQ. now rewrite (sumQ_eqQ _ _ H), (eqQ_length _ _ H). Qed.

Lemma mse_core_spec a initial :
  mse_core a initial == mseQ (match initial with Some i => i | None => 0 end) a.
Proof.
  unfold mse_core, mseQ. rewrite qmean_meanQ. destruct initial as [i|].
  - destruct (qeq_b i 0) eqn:E.
    + apply qeq_b_iff in E. rewrite (meanQ_eqQ _ _ (mse_zero_spec a)).
      apply meanQ_eqQ, eqQ_map_ext. intros x _. now rewrite E.
    + apply meanQ_eqQ, mse_sq_spec.
  - apply meanQ_eqQ, mse_zero_spec.
Qed.

(* ========================================================================== *)
(** * Weighted variance (weighted_std squared) *)

Lemma qdot_sumQ a w : length a = length w ->
  qdot a w == sumQ (map (fun p => fst p * snd p) (combine a w)).
Proof.
  revert w; induction a as [|x t IH]; intros [|y w'] H; cbn in H; try discriminate; [reflexivity|].
  rewrite qdot_cons. cbn [combine map sumQ fst snd]. rewrite IH by lia. reflexivity.
Qed.

Lemma combine_fst_snd {A B} (ps : list (A * B)) : combine (map fst ps) (map snd ps) = ps.
Proof. induction ps as [|[a b] t IH]; cbn; [reflexivity|]. now rewrite IH. Qed.

Lemma wmean_wmeanQ ps : wmean (map fst ps) (map snd ps) == wmeanQ ps.
Proof.
  unfold wmeanQ. rewrite wmean_spec, qdot_sumQ by now rewrite !map_length.
  rewrite combine_fst_snd, qsum_map_snd. reflexivity.
Qed.

Lemma weighted_var_core_spec ps v : weighted_var_core ps = Some v -> v == wvarQ ps.
Proof.
  unfold weighted_var_core. destruct (qeq_b (qsum (map snd ps)) 0); [discriminate|].
  intro E; injection E as <-. unfold wvarQ.
  pose proof (wmean_wmeanQ ps) as Hm.
  set (m := wmean (map fst ps) (map snd ps)) in *. set (mu := wmeanQ ps) in *.
  rewrite wmean_spec, qsum_map_snd. rewrite qdot_sumQ by now rewrite !map_length.
  unfold Qdiv. apply Qmult_comp; [|reflexivity].
  apply sumQ_eqQ.
  clearbody m mu. induction ps as [|[x y] t IH]; cbn [map combine fst snd]; constructor; [|exact IH].
  rewrite qsq_spec, qsub_spec, Hm. ring.
Qed.

(* ---- weighted mean / variance at the level of the textbook formulas ------------ *)
Definition shift_values (c : Q) (ps : list (Q * Q)) : list (Q * Q) := map (fun p => (fst p + c, snd p)) ps.
Definition scale_values (k : Q) (ps : list (Q * Q)) : list (Q * Q) := map (fun p => (k * fst p, snd p)) ps.

Lemma wtotal_shift c ps : wtotal (shift_values c ps) == wtotal ps.
Proof. unfold wtotal, shift_values. rewrite map_map. cbn [snd]. reflexivity. Qed.
Lemma wtotal_scale k ps : wtotal (scale_values k ps) == wtotal ps.
Proof. unfold wtotal, scale_values. rewrite map_map. cbn [snd]. reflexivity. Qed.

Lemma wsum_shift c ps :
  sumQ (map (fun p => fst p * snd p) (shift_values c ps)) == sumQ (map (fun p => fst p * snd p) ps) + c * wtotal ps.
Proof.
  induction ps as [|[x y] t IH]; [unfold wtotal; cbn; ring|].
  cbn [shift_values map sumQ fst snd]. fold (shift_values c t). rewrite IH, wtotal_cons. cbn [snd]. ring.
Qed.
Lemma wsum_scale k ps :
  sumQ (map (fun p => fst p * snd p) (scale_values k ps)) == k * sumQ (map (fun p => fst p * snd p) ps).
Proof.
  induction ps as [|[x y] t IH]; [cbn; ring|].
  cbn [scale_values map sumQ fst snd]. fold (scale_values k t). rewrite IH. ring.
Qed.

Lemma wmeanQ_shift c ps : ~ wtotal ps == 0 -> wmeanQ (shift_values c ps) == wmeanQ ps + c.
Proof. intro H. unfold wmeanQ. rewrite wsum_shift, wtotal_shift. now field. Qed.
Lemma wmeanQ_scale k ps : wmeanQ (scale_values k ps) == k * wmeanQ ps.
Proof.
  unfold wmeanQ. rewrite wsum_scale, wtotal_scale. unfold Qdiv. ring.
Qed.

Lemma wvar_num_ext (f g : Q * Q -> Q) ps ps' :
  Forall2 (fun p q => f p == g q) ps ps' -> sumQ (map f ps) == sumQ (map g ps').
Proof. induction 1 as [|p q l l' E _ IH]; cbn [map sumQ]; [reflexivity|]. now rewrite E, IH. Qed.

Lemma wvarQ_shift c ps : ~ wtotal ps == 0 -> wvarQ (shift_values c ps) == wvarQ ps.
Proof.
  intro H. unfold wvarQ. rewrite wtotal_shift. unfold Qdiv. apply Qmult_comp; [|reflexivity].
  pose proof (wmeanQ_shift c ps H) as Hm.
  set (m' := wmeanQ (shift_values c ps)) in *. set (m := wmeanQ ps) in *. clearbody m m'. clear H.
  induction ps as [|[x y] t IH]; [reflexivity|].
  cbn [shift_values map sumQ fst snd]. fold (shift_values c t). rewrite IH, Hm. ring.
Qed.

Lemma wvarQ_scale k ps : wvarQ (scale_values k ps) == (k * k) * wvarQ ps.
Proof.
  unfold wvarQ. rewrite wtotal_scale.
  pose proof (wmeanQ_scale k ps) as Hm.
  set (m' := wmeanQ (scale_values k ps)) in *. set (m := wmeanQ ps) in *. clearbody m m'.
  assert (E : sumQ (map (fun p => snd p * ((fst p - m') * (fst p - m'))) (scale_values k ps)) ==
              (k * k) * sumQ (map (fun p => snd p * ((fst p - m) * (fst p - m))) ps)).
  { induction ps as [|[x y] t IH]; [cbn; ring|].
    cbn [scale_values map sumQ fst snd]. fold (scale_values k t). rewrite IH, Hm. ring. }
  rewrite E. unfold Qdiv. ring.
Qed.

Lemma wvarQ_nonneg ps : nonneg_weights ps -> 0 < wtotal ps -> 0 <= wvarQ ps.
Proof.
  intros Hnn HW. unfold wvarQ. apply Qle_shift_div_l; [exact HW|]. rewrite Qmult_0_l.
  apply sumQ_nonneg. intros z Hz. apply in_map_iff in Hz as (p & <- & Hp).
  apply Qmult_le_0_compat; [now apply Hnn|]. set (d := fst p - wmeanQ ps). nra.
Qed.

Lemma wsum_const c ps : (forall p, In p ps -> fst p == c) ->
  sumQ (map (fun p => fst p * snd p) ps) == c * wtotal ps.
Proof.
  induction ps as [|[x y] t IH]; intro H; [unfold wtotal; cbn; ring|].
  cbn [map sumQ fst snd]. rewrite IH by (intros; apply H; now right). rewrite wtotal_cons. cbn [snd].
  rewrite (H (x, y)) by now left. cbn [fst]. ring.
Qed.

Lemma wmeanQ_const c ps : ~ wtotal ps == 0 -> (forall p, In p ps -> fst p == c) -> wmeanQ ps == c.
Proof. intros HW H. unfold wmeanQ. rewrite (wsum_const c ps H). now field. Qed.

Lemma wvarQ_const c ps : ~ wtotal ps == 0 -> (forall p, In p ps -> fst p == c) -> wvarQ ps == 0.
Proof.
  intros HW H. unfold wvarQ. pose proof (wmeanQ_const c ps HW H) as Hm.
  set (m := wmeanQ ps) in *. clearbody m.
  assert (E : sumQ (map (fun p => snd p * ((fst p - m) * (fst p - m))) ps) == 0).
  { clear HW. induction ps as [|[x y] t IH]; [reflexivity|]. cbn [map sumQ fst snd].
    rewrite IH by (intros; apply H; now right).
    rewrite (H (x, y)) by now left. rewrite Hm. ring. }
  rewrite E. unfold Qdiv. ring.
Qed.
