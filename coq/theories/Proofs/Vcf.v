(* Proofs for C18, first half: genotype columns, rows, sample choice, filters,
   rows stay attached to their records. *)
From CNV Require Import Base.Prelude Base.Str Model.Vcf Model.VBaf Spec.Vcf Proofs.VcfLib.
From Coq Require Import Lqa.

(* ---- zygosity from the genotype ---------------------------------------- *)

Lemma optZ_eqb_eq a b : optZ_eqb a b = true <-> a = b.
Proof.
  destruct a as [x|], b as [y|]; cbn; try (split; congruence).
  rewrite Z.eqb_eq. split; congruence.
Qed.

Lemma existsb_optZ x l : existsb (optZ_eqb x) l = true <-> In x l.
Proof.
  rewrite existsb_exists. split.
  - intros (y & Hy & E). apply optZ_eqb_eq in E. now subst.
  - intros H. exists x. split; [exact H | now apply optZ_eqb_eq].
Qed.

Lemma dedup_in x l : In x (dedup l) <-> In x l.
Proof.
  induction l as [|y t IH]; cbn; [tauto|].
  destruct (existsb (optZ_eqb y) t) eqn:E.
  - rewrite IH. split; [tauto|]. intros [<-|H]; [now apply existsb_optZ | exact H].
  - cbn. rewrite IH. tauto.
Qed.

Lemma dedup_all_equal x l : l <> [] -> (forall a, In a l -> a = x) -> dedup l = [x].
Proof.
  induction l as [|y t IH]; intros Hne Hall; [congruence|].
  assert (y = x) by (apply Hall; now left). subst y.
  destruct t as [|z t'].
  - reflexivity.
  - cbn [dedup].
    assert (E : existsb (optZ_eqb x) (z :: t') = true).
    { apply existsb_optZ. left. apply Hall. right. now left. }
    rewrite E. apply IH; [discriminate|]. intros a Ha. apply Hall. now right.
Qed.

Lemma two_distinct_length {A} (a b : A) l : In a l -> In b l -> a <> b -> (2 <= length l)%nat.
Proof.
  destruct l as [|x [|y t]]; cbn; intros Ha Hb Hn; try tauto; try lia.
  destruct Ha as [<-|[]], Hb as [<-|[]]. congruence.
Qed.

Lemma zygosity_of_spec gt : gt <> [] -> zygosity_spec gt (zygosity_of gt).
Proof.
  intros Hne. unfold zygosity_spec, zygosity_of,
    VcfDefaults.gt_distinct_gt, VcfDefaults.gt_ref_allele,
    VcfDefaults.zyg_het, VcfDefaults.zyg_ref, VcfDefaults.zyg_hom.
  split; [|split].
  - intros H. rewrite (dedup_all_equal (Some 0) gt Hne H). reflexivity.
  - intros H. rewrite (dedup_all_equal (Some 1) gt Hne H). reflexivity.
  - intros H0 H1.
    assert (Hl : (2 <= length (dedup gt))%nat).
    { apply (two_distinct_length (Some 0) (Some 1)); [now apply dedup_in | now apply dedup_in | congruence]. }
    assert (E : (1 <? Z.of_nat (length (dedup gt))) = true) by lia.
    rewrite E. reflexivity.
Qed.

Lemma zygosity_of_valid gt : zyg_valid (zygosity_of gt).
Proof.
  unfold zyg_valid, zygosity_of, VcfDefaults.zyg_het, VcfDefaults.zyg_ref, VcfDefaults.zyg_hom.
  destruct (_ <? _); [auto|].
  destruct (dedup gt) as [|[a|] ?]; auto. destruct (a =? _); auto.
Qed.

(* ---- depth, count, frequency --------------------------------------------- *)

Lemma geno_geno_spec r c : s_gt c <> [] -> geno_spec r c (geno r c).
Proof.
  intros Hgt. unfold geno_spec, geno. cbn [g_zyg g_depth g_count g_freq].
  split; [apply zygosity_of_spec, Hgt|]. split; [|split].
  - intros d Hdp Hd. unfold depth_of. rewrite Hdp, Hd. reflexivity.
  - intros a0 a1 rest Had Hs. unfold alt_count_of, VcfDefaults.ad_alt_index. rewrite Had, Hs.
    cbn [ad_is_missing andb negb length].
    assert (E : (1 <? Z.of_nat (S (S (length rest)))) = true) by lia.
    destruct a0; rewrite E; reflexivity.
  - intros d a0 a1 rest Hdp Hd Hpos Had Hs.
    unfold depth_of, alt_count_of, VcfDefaults.ad_alt_index. rewrite Hdp, Hd, Had, Hs.
    cbn [ad_is_missing andb negb length].
    assert (E : (1 <? Z.of_nat (S (S (length rest)))) = true) by lia.
    assert (E0 : (d =? 0) = false) by lia.
    destruct a0; rewrite E; cbn [Z.to_nat nth Pos.to_nat Pos.iter_op]; unfold freq_of; rewrite E0;
      (eexists; split; [reflexivity | apply Qred_correct]).
Qed.

Lemma geno_valid r c : g_valid (geno r c).
Proof. unfold g_valid, geno. cbn. apply zygosity_of_valid. Qed.

Lemma geno_info_valid r : g_valid (geno_info r).
Proof. unfold g_valid, geno_info, VcfDefaults.zyg_ref. cbn. left. reflexivity. Qed.

(* ---- rows of one record ------------------------------------------------------ *)

Lemma rows_of_in r t n row :
  In row (rows_of r t n) -> row_spec r row /\ v_t row = t /\ v_n row = n.
Proof.
  unfold rows_of. intros H. apply in_map_iff in H as (alt & <- & Ha).
  unfold real_alts in Ha. apply filter_In in Ha as [Hin Hne].
  unfold row_spec. cbn. repeat split; try assumption.
  apply negb_true_iff, String.eqb_neq in Hne. exact Hne.
Qed.

Lemma rows_of_length r t n : length (rows_of r t n) = length (real_alts r).
Proof. unfold rows_of. apply map_length. Qed.

Definition biallelic (r : vrec) : Prop := exists alt, real_alts r = [alt].

(* the sample call(s) a row was computed from *)
Definition row_from (sidx nidx : option nat) (r : vrec) (row : vrow) : Prop :=
  row_spec r row /\
  match sidx with
  | None => v_t row = geno_info r /\ v_n row = None
  | Some i =>
      exists c, nth_error (r_calls r) i = Some c /\ v_t row = geno r c /\
        match nidx with
        | None => v_n row = None
        | Some j => exists cn, nth_error (r_calls r) j = Some cn /\ v_n row = Some (geno r cn)
        end
  end.

Lemma record_rows_in sidx nidx r rs row :
  record_rows sidx nidx r = Some rs -> In row rs -> row_from sidx nidx r row.
Proof.
  unfold record_rows, row_from. destruct sidx as [i|].
  - destruct (nth_error (r_calls r) i) as [c|] eqn:Ec; [|discriminate].
    destruct nidx as [j|].
    + destruct (nth_error (r_calls r) j) as [cn|] eqn:En; [|discriminate].
      intros H Hin. injection H as <-. apply rows_of_in in Hin as (Hs & Ht & Hn).
      split; [exact Hs|]. exists c. split; [reflexivity|]. split; [exact Ht|].
      exists cn. split; [reflexivity | exact Hn].
    + intros H Hin. injection H as <-. apply rows_of_in in Hin as (Hs & Ht & Hn).
      split; [exact Hs|]. exists c. auto.
  - intros H Hin. injection H as <-. apply rows_of_in in Hin as (Hs & Ht & Hn). auto.
Qed.

Lemma record_rows_length sidx nidx r rs :
  record_rows sidx nidx r = Some rs -> length rs = length (real_alts r).
Proof.
  unfold record_rows. destruct sidx as [i|].
  - destruct (nth_error (r_calls r) i); [|discriminate]. destruct nidx as [j|].
    + destruct (nth_error (r_calls r) j); [|discriminate].
      intros H. injection H as <-. apply rows_of_length.
    + intros H. injection H as <-. apply rows_of_length.
  - intros H. injection H as <-. apply rows_of_length.
Qed.

Lemma row_from_valid sidx nidx r row : row_from sidx nidx r row -> row_valid row.
Proof.
  unfold row_from, row_valid. intros [_ H]. destruct sidx as [i|].
  - destruct H as (c & _ & -> & Hn). split; [apply geno_valid|].
    destruct nidx as [j|].
    + destruct Hn as (cn & _ & ->). apply geno_valid.
    + rewrite Hn. exact I.
  - destruct H as [-> ->]. split; [apply geno_info_valid | exact I].
Qed.

(* ---- all rows of the file ------------------------------------------------------ *)

Lemma all_rows_in sidx nidx sr recs rows row :
  all_rows sidx nidx sr recs = Some rows -> In row rows ->
  exists r, In r recs /\ sr && rejected r = false /\ row_from sidx nidx r row.
Proof.
  revert rows. induction recs as [|r t IH]; intros rows H Hin; cbn in H.
  - injection H as <-. destruct Hin.
  - destruct (sr && rejected r) eqn:Er.
    + destruct (IH rows H Hin) as (r0 & Hr0 & Hrest). exists r0. split; [now right | exact Hrest].
    + destruct (record_rows sidx nidx r) as [a|] eqn:Ea; [|discriminate].
      destruct (all_rows sidx nidx sr t) as [b|] eqn:Eb; [|discriminate].
      injection H as <-. apply in_app_iff in Hin as [Hin|Hin].
      * exists r. split; [now left|]. split; [exact Er|]. eapply record_rows_in; eassumption.
      * destruct (IH b eq_refl Hin) as (r0 & Hr0 & Hrest). exists r0. split; [now right | exact Hrest].
Qed.

(* completeness: every real alt allele of every (non-rejected) record yields a row *)
Lemma all_rows_complete sidx nidx sr recs rows r alt :
  all_rows sidx nidx sr recs = Some rows -> In r recs -> sr && rejected r = false ->
  In alt (real_alts r) ->
  exists row, In row rows /\ row_from sidx nidx r row /\ v_alt row = alt.
Proof.
  revert rows. induction recs as [|r0 t IH]; intros rows H Hin Hrej Halt; cbn in H; [destruct Hin|].
  destruct Hin as [->|Hin].
  - rewrite Hrej in H.
    destruct (record_rows sidx nidx r) as [a|] eqn:Ea; [|discriminate].
    destruct (all_rows sidx nidx sr t) as [b|]; [|discriminate]. injection H as <-.
    assert (Hrow : exists row, In row a /\ v_alt row = alt).
    { unfold record_rows in Ea.
      assert (Hgen : forall tt nn, exists row, In row (rows_of r tt nn) /\ v_alt row = alt).
      { intros tt nn. unfold rows_of. eexists. split; [apply in_map, Halt | reflexivity]. }
      destruct sidx as [i|].
      - destruct (nth_error (r_calls r) i); [|discriminate]. destruct nidx as [j|].
        + destruct (nth_error (r_calls r) j); [|discriminate]. injection Ea as <-. apply Hgen.
        + injection Ea as <-. apply Hgen.
      - injection Ea as <-. apply Hgen. }
    destruct Hrow as (row & Hr & Ha). exists row. split; [apply in_app_iff; now left|].
    split; [eapply record_rows_in; eassumption | exact Ha].
  - destruct (sr && rejected r0).
    + apply IH; assumption.
    + destruct (record_rows sidx nidx r0) as [a|]; [|discriminate].
      destruct (all_rows sidx nidx sr t) as [b|] eqn:Eb; [|discriminate]. injection H as <-.
      destruct (IH b eq_refl Hin Hrej Halt) as (row & Hr & Hrest).
      exists row. split; [apply in_app_iff; now right | exact Hrest].
Qed.

Lemma all_rows_length sidx nidx recs rows :
  all_rows sidx nidx false recs = Some rows -> Forall biallelic recs -> length rows = length recs.
Proof.
  revert rows. induction recs as [|r t IH]; intros rows H Hb; cbn in H.
  - injection H as <-. reflexivity.
  - destruct (record_rows sidx nidx r) as [a|] eqn:Ea; [|discriminate].
    destruct (all_rows sidx nidx false t) as [b|] eqn:Eb; [|discriminate]. injection H as <-.
    inversion Hb as [|? ? [alt Halt] Hbt]; subst.
    rewrite app_length, (IH b eq_refl Hbt), (record_rows_length _ _ _ _ Ea), Halt. reflexivity.
Qed.

(* ---- read_vcf -------------------------------------------------------------------- *)

Definition chosen_indices (h : header) (p : pair_t) : option nat * option nat :=
  (sample_index h (fst p), sample_index h (if truthy (snd p) then snd p else None)).

Lemma read_vcf_inv h recs ssel nsel md sr ss t :
  read_vcf h recs ssel nsel md sr ss = Ok t ->
  exists p rows, choose_samples h ssel nsel = Ok p /\
    all_rows (fst (chosen_indices h p)) (snd (chosen_indices h p)) sr recs = Some rows /\
    t_rows t = sort_rows (somatic_filter ss (depth_filter md rows)).
Proof.
  unfold read_vcf, chosen_indices. destruct (choose_samples h ssel nsel) as [[sid nid]|e]; [|discriminate].
  cbn [fst snd].
  destruct (all_rows (sample_index h sid) (sample_index h (if truthy nid then nid else None)) sr recs)
    as [rows|] eqn:Er; [|discriminate].
  intros H. injection H as <-. exists (sid, nid), rows. cbn. auto.
Qed.

Lemma sort_rows_perm rows : Permutation (sort_rows rows) rows.
Proof. apply isort_perm. Qed.

(* a file without records: a table without rows, paired exactly when a normal was chosen --
   whatever filters are asked for (the columns are never lost) *)
Lemma read_empty_file h ssel nsel md sr ss p :
  choose_samples h ssel nsel = Ok p ->
  read_vcf h [] ssel nsel md sr ss = Ok {| t_paired := truthy (snd p); t_rows := [] |}.
Proof.
  intros Hc. unfold read_vcf. rewrite Hc. destruct p as [sid nid]. cbn [all_rows snd].
  assert (E : somatic_filter ss (depth_filter md []) = []).
  { unfold somatic_filter, depth_filter. destruct md as [m|]; [destruct (m =? 0)|]; destruct ss; reflexivity. }
  rewrite E. reflexivity.
Qed.

(* the table has the normal's columns exactly when the chosen pair has a normal *)
Lemma read_paired_flag h recs ssel nsel md sr ss t :
  read_vcf h recs ssel nsel md sr ss = Ok t ->
  exists p, choose_samples h ssel nsel = Ok p /\ t_paired t = truthy (snd p).
Proof.
  unfold read_vcf. destruct (choose_samples h ssel nsel) as [[sid nid]|e]; [|discriminate].
  destruct (all_rows _ _ sr recs) as [rows|]; [|discriminate].
  intros H. injection H as <-. exists (sid, nid). split; reflexivity.
Qed.

Lemma depth_filter_eq md rows :
  depth_filter md rows =
  filter (fun r => match md with
                   | Some m => (m =? 0) || negb (has_depth_info rows) || (m <=? filter_depth r)
                   | None => true
                   end) rows.
Proof.
  unfold depth_filter, has_depth_info. destruct md as [m|]; [|now rewrite filter_true].
  destruct (m =? 0); [now rewrite filter_true|].
  destruct (existsb _ rows); cbn [negb orb]; [reflexivity | now rewrite filter_true].
Qed.

Lemma somatic_filter_eq ss rows :
  somatic_filter ss rows = filter (fun r => negb ss || negb (v_somatic r)) rows.
Proof.
  unfold somatic_filter. destruct ss; cbn [negb orb]; [reflexivity | now rewrite filter_true].
Qed.

Lemma filters_eq md ss rows :
  somatic_filter ss (depth_filter md rows) = filter (keep_spec md ss rows) rows.
Proof.
  rewrite somatic_filter_eq, depth_filter_eq, filter_filter. reflexivity.
Qed.

Lemma keep_spec_perm md ss rows rows' r :
  Permutation rows rows' -> keep_spec md ss rows r = keep_spec md ss rows' r.
Proof.
  intros Hp. unfold keep_spec, has_depth_info. now rewrite (perm_existsb _ _ _ Hp).
Qed.

Lemma keep_none all rows : filter (keep_spec None false all) rows = rows.
Proof.
  induction rows as [|x t IH]; cbn; [reflexivity | now rewrite IH].
Qed.

(* C18_filters *)
Lemma read_filters h recs ssel nsel md sr ss t t0 :
  read_vcf h recs ssel nsel md sr ss = Ok t ->
  read_vcf h recs ssel nsel None sr false = Ok t0 ->
  Permutation (t_rows t) (filter (keep_spec md ss (t_rows t0)) (t_rows t0)).
Proof.
  intros H H0.
  destruct (read_vcf_inv _ _ _ _ _ _ _ _ H) as (p & rows & Hc & Hr & Ht).
  destruct (read_vcf_inv _ _ _ _ _ _ _ _ H0) as (p0 & rows0 & Hc0 & Hr0 & Ht0).
  rewrite Hc in Hc0. injection Hc0 as <-. rewrite Hr in Hr0. injection Hr0 as <-.
  rewrite Ht, Ht0, filters_eq, filters_eq.
  assert (E : filter (keep_spec None false rows) rows = rows) by apply keep_none.
  rewrite E.
  eapply Permutation_trans; [apply sort_rows_perm|].
  eapply Permutation_trans; [apply perm_filter, Permutation_sym, (sort_rows_perm rows)|].
  erewrite filter_ext_in'; [apply Permutation_refl|].
  intros x _. apply keep_spec_perm, Permutation_sym, sort_rows_perm.
Qed.

Lemma read_unfiltered_perm h recs ssel nsel sr t0 :
  read_vcf h recs ssel nsel None sr false = Ok t0 ->
  exists p rows, choose_samples h ssel nsel = Ok p /\
    all_rows (fst (chosen_indices h p)) (snd (chosen_indices h p)) sr recs = Some rows /\
    Permutation (t_rows t0) rows.
Proof.
  intros H0. destruct (read_vcf_inv _ _ _ _ _ _ _ _ H0) as (p0 & rows0 & Hc0 & Hr0 & Ht0).
  exists p0, rows0. split; [exact Hc0|]. split; [exact Hr0|].
  rewrite Ht0, filters_eq.
  assert (E : filter (keep_spec None false rows0) rows0 = rows0) by apply keep_none.
  rewrite E. apply sort_rows_perm.
Qed.

(* consequences spelled out *)
Lemma read_filters_forall h recs ssel nsel md sr ss t :
  read_vcf h recs ssel nsel md sr ss = Ok t ->
  (ss = true -> Forall (fun r => v_somatic r = false) (t_rows t)) /\
  (forall m, md = Some m -> m <> 0 -> existsb (fun r => negb (g_depth (v_t r) =? 0)) (t_rows t) = true ->
     Forall (fun r => m <= filter_depth r) (t_rows t)).
Proof.
  intros H. destruct (read_vcf_inv _ _ _ _ _ _ _ _ H) as (p & rows & Hc & Hr & Ht).
  assert (Hp : Permutation (t_rows t) (filter (keep_spec md ss rows) rows)).
  { rewrite Ht, filters_eq. apply sort_rows_perm. }
  split.
  - intros ->. eapply perm_Forall; [apply Permutation_sym, Hp|].
    apply Forall_forall. intros r Hin. apply filter_In in Hin as [_ Hk].
    unfold keep_spec in Hk. apply andb_true_iff in Hk as [_ Hk]. cbn in Hk.
    now apply negb_true_iff in Hk.
  - intros m -> Hm Hex. eapply perm_Forall; [apply Permutation_sym, Hp|].
    apply Forall_forall. intros r Hin. apply filter_In in Hin as [_ Hk].
    unfold keep_spec in Hk. apply andb_true_iff in Hk as [Hk _].
    assert (Hinfo : has_depth_info rows = true).
    { unfold has_depth_info. rewrite (perm_existsb _ _ _ Hp) in Hex.
      apply existsb_exists in Hex as (x & Hx & Hd). apply filter_In in Hx as [Hx _].
      apply existsb_exists. exists x. auto. }
    rewrite Hinfo in Hk. cbn in Hk.
    assert (E : (m =? 0) = false) by lia. rewrite E in Hk. cbn in Hk. lia.
Qed.

(* C18_rows / C18_attached for the reader: every row is the row of one record *)
Lemma read_row_sound h recs ssel nsel md sr ss t row :
  read_vcf h recs ssel nsel md sr ss = Ok t -> In row (t_rows t) ->
  exists p r, choose_samples h ssel nsel = Ok p /\ In r recs /\
    row_from (fst (chosen_indices h p)) (snd (chosen_indices h p)) r row.
Proof.
  intros H Hin. destruct (read_vcf_inv _ _ _ _ _ _ _ _ H) as (p & rows & Hc & Hr & Ht).
  rewrite Ht, filters_eq in Hin.
  apply (Permutation_in _ (sort_rows_perm _)) in Hin. apply filter_In in Hin as [Hin _].
  destruct (all_rows_in _ _ _ _ _ _ Hr Hin) as (r & Hrin & _ & Hfrom).
  exists p, r. auto.
Qed.

Lemma read_rows_valid h recs ssel nsel md sr ss t :
  read_vcf h recs ssel nsel md sr ss = Ok t -> Forall row_valid (t_rows t).
Proof.
  intros H. apply Forall_forall. intros row Hin.
  destruct (read_row_sound _ _ _ _ _ _ _ _ _ H Hin) as (p & r & _ & _ & Hf).
  eapply row_from_valid, Hf.
Qed.

Lemma read_one_row_per_record h recs ssel nsel t :
  read_vcf h recs ssel nsel None false false = Ok t -> Forall biallelic recs ->
  length (t_rows t) = length recs.
Proof.
  intros H Hb. destruct (read_unfiltered_perm _ _ _ _ _ _ H) as (p & rows & _ & Hr & Hp).
  rewrite (Permutation_length Hp). eapply all_rows_length; eassumption.
Qed.

Lemma read_row_complete h recs ssel nsel t r alt :
  read_vcf h recs ssel nsel None false false = Ok t -> In r recs -> In alt (real_alts r) ->
  exists row, In row (t_rows t) /\ row_spec r row /\ v_alt row = alt.
Proof.
  intros H Hin Halt. destruct (read_unfiltered_perm _ _ _ _ _ _ H) as (p & rows & _ & Hr & Hp).
  destruct (all_rows_complete _ _ _ _ _ _ _ Hr Hin eq_refl Halt) as (row & Hrow & Hfrom & Ha).
  exists row. split; [eapply Permutation_in; [apply Permutation_sym, Hp | exact Hrow]|].
  split; [apply Hfrom | exact Ha].
Qed.

(* the chosen sample's own call gives the row's numbers *)
Lemma row_from_geno_spec i nidx r row :
  row_from (Some i) nidx r row -> Forall (fun c => s_gt c <> []) (r_calls r) ->
  exists c, nth_error (r_calls r) i = Some c /\ geno_spec r c (v_t row).
Proof.
  intros [_ (c & Hc & Ht & _)] Hgt. exists c. split; [exact Hc|]. rewrite Ht.
  apply geno_geno_spec. rewrite Forall_forall in Hgt. apply Hgt. eapply nth_error_In, Hc.
Qed.

Lemma row_from_geno_spec_normal i j r row :
  row_from (Some i) (Some j) r row -> Forall (fun c => s_gt c <> []) (r_calls r) ->
  exists cn g, nth_error (r_calls r) j = Some cn /\ v_n row = Some g /\ geno_spec r cn g.
Proof.
  intros [_ (c & _ & _ & (cn & Hcn & Hn))] Hgt. exists cn, (geno r cn).
  split; [exact Hcn|]. split; [exact Hn|].
  apply geno_geno_spec. rewrite Forall_forall in Hgt. apply Hgt. eapply nth_error_In, Hcn.
Qed.

(* ---- sample choice ------------------------------------------------------------------ *)

Lemma mem_string_in s l : mem_string s l = true <-> In s l.
Proof.
  induction l as [|x t IH]; cbn; [split; [discriminate | tauto]|].
  rewrite orb_true_iff, IH, String.eqb_eq. split; intros [H|H]; auto.
Qed.

Lemma filter_eqb_notin s l : ~ In s l -> filter (String.eqb s) l = [].
Proof.
  induction l as [|x t IH]; intros H; cbn; [reflexivity|].
  destruct (String.eqb s x) eqn:E.
  - apply String.eqb_eq in E. subst. exfalso. apply H. now left.
  - apply IH. intros Hin. apply H. now right.
Qed.

Lemma count_str_nodup s l : NoDup l -> In s l -> count_str s l = 1.
Proof.
  unfold count_str. induction 1 as [|x t Hx Hnd IH]; intros Hin; [destruct Hin|].
  cbn [filter]. destruct (String.eqb s x) eqn:E.
  - apply String.eqb_eq in E. subst x. rewrite (filter_eqb_notin s t Hx). reflexivity.
  - destruct Hin as [->|Hin]; [rewrite String.eqb_refl in E; discriminate|]. apply IH, Hin.
Qed.

Definition selected_ok (h : header) (o : option string) : Prop :=
  forall s, o = Some s -> s <> ""%string -> In s (h_samples h).

Lemma missing_false h o :
  selected_ok h o ->
  truthy o && negb (match o with Some s => mem_string s (h_samples h) | None => true end) = false.
Proof.
  intros H. destruct o as [s|]; [|reflexivity]. cbn [truthy].
  destruct (String.eqb s "") eqn:E; [reflexivity|]. cbn.
  apply String.eqb_neq in E. rewrite (proj2 (mem_string_in s _) (H s eq_refl E)). reflexivity.
Qed.

Lemma choose_ok h ssel nsel sid nid :
  NoDup (h_samples h) ->
  resolve (h_samples h) ssel = Ok sid -> resolve (h_samples h) nsel = Ok nid ->
  selected_ok h sid -> selected_ok h nid ->
  (forall s, In s (ids_of (candidate_pairs h sid nid)) -> In s (h_samples h)) ->
  choose_samples h ssel nsel = Ok (hd (sid, None) (candidate_pairs h sid nid)).
Proof.
  intros Hnd Hs Hn Hsok Hnok Hids. unfold choose_samples. rewrite Hs, Hn.
  rewrite (missing_false h sid Hsok), (missing_false h nid Hnok). cbn [orb].
  assert (E : forallb (fun s => count_str s (h_samples h) =? 1) (ids_of (candidate_pairs h sid nid)) = true).
  { apply forallb_forall. intros s Hin. rewrite (count_str_nodup s _ Hnd (Hids s Hin)). reflexivity. }
  rewrite E. reflexivity.
Qed.

Lemma choose_unknown h s nsel :
  s <> ""%string -> ~ In s (h_samples h) -> choose_samples h (SelName s) nsel = Fail IndexError
  \/ exists e, choose_samples h (SelName s) nsel = Fail e.
Proof.
  intros Hne Hnot. unfold choose_samples. cbn [resolve].
  destruct (resolve (h_samples h) nsel) as [nid|e]; [|right; eexists; reflexivity].
  left. cbn [truthy].
  assert (E : String.eqb s "" = false) by now apply String.eqb_neq.
  assert (M : mem_string s (h_samples h) = false).
  { destruct (mem_string s (h_samples h)) eqn:M; [|reflexivity]. apply mem_string_in in M. contradiction. }
  rewrite E, M. reflexivity.
Qed.

(* a requested tumour or normal that is not in the file is refused *)
Lemma choose_unknown_sample h s nsel :
  s <> ""%string -> ~ In s (h_samples h) -> exists e, choose_samples h (SelName s) nsel = Fail e.
Proof.
  intros Hne Hnot. destruct (choose_unknown h s nsel Hne Hnot) as [H|H]; [eexists; exact H | exact H].
Qed.

Lemma choose_unknown_normal h ssel n :
  n <> ""%string -> ~ In n (h_samples h) -> exists e, choose_samples h ssel (SelName n) = Fail e.
Proof.
  intros Hne Hnot. unfold choose_samples.
  destruct (resolve (h_samples h) ssel) as [sid|e]; [|eexists; reflexivity].
  cbn [resolve].
  assert (E : String.eqb n "" = false) by now apply String.eqb_neq.
  assert (M : mem_string n (h_samples h) = false).
  { destruct (mem_string n (h_samples h)) eqn:M; [|reflexivity]. apply mem_string_in in M. contradiction. }
  cbn [truthy]. rewrite E, M. cbn [negb andb]. rewrite orb_true_r. eexists. reflexivity.
Qed.

(* an index outside -n .. n-1 is refused *)
Lemma choose_index_out_of_range h i nsel :
  i < - Z.of_nat (length (h_samples h)) \/ Z.of_nat (length (h_samples h)) <= i ->
  choose_samples h (SelIdx i) nsel = Fail IndexError.
Proof.
  intros Hi. unfold choose_samples, resolve.
  assert (E : (- Z.of_nat (length (h_samples h)) <=? i) && (i <? Z.of_nat (length (h_samples h))) = false) by lia.
  rewrite E. reflexivity.
Qed.

Lemma resolve_index samples i s :
  0 <= i -> nth_error samples (Z.to_nat i) = Some s -> resolve samples (SelIdx i) = resolve samples (SelName s).
Proof.
  intros Hi Hn. unfold resolve.
  assert (Hlt : (Z.to_nat i < length samples)%nat) by (apply nth_error_Some; congruence).
  assert (E1 : (- Z.of_nat (length samples) <=? i) && (i <? Z.of_nat (length samples)) = true) by lia.
  assert (E2 : (i <? 0) = false) by lia.
  rewrite E1, E2, Hn. reflexivity.
Qed.

Lemma resolve_negative_index samples i s :
  - Z.of_nat (length samples) <= i < 0 ->
  nth_error samples (Z.to_nat (i + Z.of_nat (length samples))) = Some s ->
  resolve samples (SelIdx i) = resolve samples (SelName s).
Proof.
  intros Hi Hn. unfold resolve.
  assert (E1 : (- Z.of_nat (length samples) <=? i) && (i <? Z.of_nat (length samples)) = true) by lia.
  assert (E2 : (i <? 0) = true) by lia.
  rewrite E1, E2, Hn. reflexivity.
Qed.

Lemma choose_index h i s nsel :
  0 <= i -> nth_error (h_samples h) (Z.to_nat i) = Some s ->
  choose_samples h (SelIdx i) nsel = choose_samples h (SelName s) nsel.
Proof.
  intros Hi Hn. unfold choose_samples. now rewrite (resolve_index _ _ _ Hi Hn).
Qed.

Lemma choose_negative_index h i s nsel :
  - Z.of_nat (length (h_samples h)) <= i < 0 ->
  nth_error (h_samples h) (Z.to_nat (i + Z.of_nat (length (h_samples h)))) = Some s ->
  choose_samples h (SelIdx i) nsel = choose_samples h (SelName s) nsel.
Proof.
  intros Hi Hn. unfold choose_samples. now rewrite (resolve_negative_index _ _ _ Hi Hn).
Qed.

(* -- the decision table on candidate_pairs -- *)

Definition ped_pairs (h : header) : list pair_t := map (fun p => (Some (fst p), Some (snd p))) (h_peds h).

Lemma cp_pedigree h sid nid :
  h_peds h <> [] ->
  candidate_pairs h sid nid =
    let pairs := if truthy sid then filter (fun p => opt_str_eqb (fst p) sid) (ped_pairs h) else ped_pairs h in
    match pairs with [] => [(sid, None)] | _ => pairs end.
Proof.
  intros Hne. unfold candidate_pairs, ped_pairs. destruct (h_peds h); [congruence | reflexivity].
Qed.

Lemma ids_of_ped_pairs h s :
  In s (ids_of (ped_pairs h)) -> exists p, In p (h_peds h) /\ (s = fst p \/ s = snd p).
Proof.
  unfold ids_of, ped_pairs. rewrite in_flat_map. intros (q & Hq & Hs).
  apply in_map_iff in Hq as (p & <- & Hp). exists p. split; [exact Hp|].
  cbn in Hs. destruct Hs as [<-|[<-|[]]]; auto.
Qed.

Lemma ids_of_incl l l' s : (forall p, In p l -> In p l') -> In s (ids_of l) -> In s (ids_of l').
Proof.
  unfold ids_of. rewrite !in_flat_map. intros H (q & Hq & Hs). exists q. auto.
Qed.

Definition peds_in_file (h : header) : Prop :=
  forall p, In p (h_peds h) -> In (fst p) (h_samples h) /\ In (snd p) (h_samples h).

(* PEDIGREE-declared pairs first *)
Lemma choose_pedigree_first h d o rest nsel nid :
  NoDup (h_samples h) -> h_peds h = (d, o) :: rest -> peds_in_file h ->
  resolve (h_samples h) nsel = Ok nid -> selected_ok h nid ->
  choose_samples h SelNone nsel = Ok (Some d, Some o).
Proof.
  intros Hnd Hp Hin Hn Hnok.
  assert (Hne : h_peds h <> []) by (rewrite Hp; discriminate).
  rewrite (choose_ok h SelNone nsel None nid Hnd eq_refl Hn); [| intros s; discriminate | exact Hnok |].
  - rewrite (cp_pedigree h None nid Hne). cbn [truthy]. unfold ped_pairs. rewrite Hp. reflexivity.
  - rewrite (cp_pedigree h None nid Hne). cbn [truthy].
    assert (Hpp : ped_pairs h <> []) by (unfold ped_pairs; rewrite Hp; discriminate).
    cbv zeta. destruct (ped_pairs h) eqn:E; [congruence|]. rewrite <- E.
    intros s Hs. apply ids_of_ped_pairs in Hs as (pp & Hpin & [-> | ->]); apply (Hin pp Hpin).
Qed.

Lemma filter_ped_pairs h s :
  filter (fun p : pair_t => opt_str_eqb (fst p) (Some s)) (ped_pairs h)
  = map (fun p => (Some (fst p), Some (snd p))) (filter (fun p => String.eqb (fst p) s) (h_peds h)).
Proof.
  unfold ped_pairs. induction (h_peds h) as [|p t IH]; cbn; [reflexivity|].
  destruct (String.eqb (fst p) s); cbn; now rewrite IH.
Qed.

(* the requested sample is a declared tumour: its declared normal comes with it *)
Lemma choose_pedigree_sample h s o rest nsel nid :
  NoDup (h_samples h) -> h_peds h <> [] -> peds_in_file h -> s <> ""%string -> In s (h_samples h) ->
  filter (fun p => String.eqb (fst p) s) (h_peds h) = (s, o) :: rest ->
  resolve (h_samples h) nsel = Ok nid -> selected_ok h nid ->
  choose_samples h (SelName s) nsel = Ok (Some s, Some o).
Proof.
  intros Hnd Hne Hin Hs Hsin Hf Hn Hnok.
  assert (Ht : truthy (Some s) = true) by (cbn; now apply negb_true_iff, String.eqb_neq).
  rewrite (choose_ok h (SelName s) nsel (Some s) nid Hnd eq_refl Hn); [| | exact Hnok |].
  - rewrite (cp_pedigree h _ nid Hne), Ht, filter_ped_pairs, Hf. reflexivity.
  - intros s' E _. injection E as <-. exact Hsin.
  - rewrite (cp_pedigree h _ nid Hne), Ht, filter_ped_pairs, Hf. cbv zeta. cbn [map].
    change ((Some (fst (s, o)), Some (snd (s, o))) :: map (fun p => (Some (fst p), Some (snd p))) rest)
      with (map (fun p : string * string => (Some (fst p), Some (snd p))) ((s, o) :: rest)).
    intros x Hx.
    assert (Hx' : In x (ids_of (ped_pairs h))).
    { eapply ids_of_incl; [|exact Hx]. intros pp Hpp. apply in_map_iff in Hpp as (q & Eq & Hq).
      subst pp. rewrite <- Hf in Hq. apply filter_In in Hq as [Hq _].
      unfold ped_pairs. apply in_map_iff. exists q. auto. }
    apply ids_of_ped_pairs in Hx' as (pp & Hpin & [-> | ->]); apply (Hin pp Hpin).
Qed.

(* the requested sample is not a declared tumour (e.g. it is a declared normal): unpaired *)
Lemma choose_pedigree_salvage h s nsel nid :
  NoDup (h_samples h) -> h_peds h <> [] -> s <> ""%string -> In s (h_samples h) ->
  filter (fun p => String.eqb (fst p) s) (h_peds h) = [] ->
  resolve (h_samples h) nsel = Ok nid -> selected_ok h nid ->
  choose_samples h (SelName s) nsel = Ok (Some s, None).
Proof.
  intros Hnd Hne Hs Hsin Hf Hn Hnok.
  assert (Ht : truthy (Some s) = true) by (cbn; now apply negb_true_iff, String.eqb_neq).
  rewrite (choose_ok h (SelName s) nsel (Some s) nid Hnd eq_refl Hn); [| | exact Hnok |].
  - rewrite (cp_pedigree h _ nid Hne), Ht, filter_ped_pairs, Hf. reflexivity.
  - intros s' E _. injection E as <-. exact Hsin.
  - rewrite (cp_pedigree h _ nid Hne), Ht, filter_ped_pairs, Hf. cbn.
    intros x [<-|[]]. exact Hsin.
Qed.

(* no PEDIGREE: the given tumour and normal ids *)
Lemma cp_no_ped h sid nid :
  h_peds h = [] ->
  candidate_pairs h sid nid =
    let pairs :=
      if truthy nid then map (fun o => (Some o, nid))
                             (filter (fun s => negb (opt_str_eqb (Some s) nid)) (h_samples h))
      else map (fun s => (Some s, None)) (h_samples h) in
    let pairs := if truthy sid then filter (fun p => opt_str_eqb (fst p) sid) pairs else pairs in
    match pairs with [] => [(sid, None)] | _ => pairs end.
Proof. intros Hp. unfold candidate_pairs. rewrite Hp. reflexivity. Qed.

Lemma match_nonempty {A} (l d : list A) : l <> [] -> match l with [] => d | _ => l end = l.
Proof. destruct l; [congruence | reflexivity]. Qed.

Lemma hd_all_equal {A} (x d : A) l : l <> [] -> (forall y, In y l -> y = x) -> hd d l = x.
Proof. destruct l as [|a t]; [congruence|]. intros _ H. cbn. apply H. now left. Qed.

Lemma choose_given_ids h s n :
  NoDup (h_samples h) -> h_peds h = [] -> s <> ""%string -> n <> ""%string -> s <> n ->
  In s (h_samples h) -> In n (h_samples h) ->
  choose_samples h (SelName s) (SelName n) = Ok (Some s, Some n).
Proof.
  intros Hnd Hp Hs Hn Hsn Hsin Hnin.
  assert (Hts : truthy (Some s) = true) by (cbn; now apply negb_true_iff, String.eqb_neq).
  assert (Htn : truthy (Some n) = true) by (cbn; now apply negb_true_iff, String.eqb_neq).
  set (cands := filter (fun p : pair_t => opt_str_eqb (fst p) (Some s))
                  (map (fun o => (Some o, Some n))
                       (filter (fun x => negb (opt_str_eqb (Some x) (Some n))) (h_samples h)))).
  assert (Hall : forall p, In p cands -> p = (Some s, Some n)).
  { intros p Hpin. unfold cands in Hpin. apply filter_In in Hpin as [Hpin He].
    apply in_map_iff in Hpin as (o & <- & _). cbn in He. apply String.eqb_eq in He. now subst. }
  assert (Hne : cands <> []).
  { assert (Hin : In (Some s, Some n) cands).
    { unfold cands. apply filter_In. split; [|cbn; apply String.eqb_refl].
      apply in_map_iff. exists s. split; [reflexivity|]. apply filter_In. split; [exact Hsin|].
      cbn. apply negb_true_iff, String.eqb_neq, Hsn. }
    intros E. rewrite E in Hin. destruct Hin. }
  assert (Hcp : candidate_pairs h (Some s) (Some n) = cands).
  { rewrite (cp_no_ped h _ _ Hp), Htn, Hts. cbv zeta. exact (match_nonempty cands _ Hne). }
  rewrite (choose_ok h (SelName s) (SelName n) (Some s) (Some n) Hnd eq_refl eq_refl).
  - rewrite Hcp. f_equal. apply hd_all_equal; assumption.
  - intros x E _. injection E as <-. exact Hsin.
  - intros x E _. injection E as <-. exact Hnin.
  - rewrite Hcp. unfold ids_of. intros x Hx. apply in_flat_map in Hx as (p & Hpin & Hx).
    rewrite (Hall p Hpin) in Hx. cbn in Hx. destruct Hx as [<-|[<-|[]]]; assumption.
Qed.

(* only the normal is given: the first other sample is the tumour *)
Lemma choose_normal_only h n o rest :
  NoDup (h_samples h) -> h_peds h = [] -> n <> ""%string -> In n (h_samples h) ->
  filter (fun x => negb (String.eqb x n)) (h_samples h) = o :: rest ->
  choose_samples h SelNone (SelName n) = Ok (Some o, Some n).
Proof.
  intros Hnd Hp Hn Hnin Hf.
  assert (Htn : truthy (Some n) = true) by (cbn; now apply negb_true_iff, String.eqb_neq).
  assert (Hcp : candidate_pairs h None (Some n) = map (fun x => (Some x, Some n)) (o :: rest)).
  { rewrite (cp_no_ped h _ _ Hp), Htn. cbn [truthy opt_str_eqb]. cbv zeta. rewrite Hf. reflexivity. }
  rewrite (choose_ok h SelNone (SelName n) None (Some n) Hnd eq_refl eq_refl).
  - rewrite Hcp. reflexivity.
  - intros x; discriminate.
  - intros x E _. injection E as <-. exact Hnin.
  - rewrite Hcp. unfold ids_of. intros x Hx. apply in_flat_map in Hx as (p & Hpin & Hx).
    apply in_map_iff in Hpin as (y & <- & Hy). cbn in Hx. destruct Hx as [<-|[<-|[]]]; [|exact Hnin].
    rewrite <- Hf in Hy. apply filter_In in Hy. tauto.
Qed.

(* nothing given, no PEDIGREE: the first sample, unpaired *)
Lemma choose_first_sample h s0 rest :
  NoDup (h_samples h) -> h_peds h = [] -> h_samples h = s0 :: rest ->
  choose_samples h SelNone SelNone = Ok (Some s0, None).
Proof.
  intros Hnd Hp Hs.
  assert (Hcp : candidate_pairs h None None = map (fun x => (Some x, None)) (s0 :: rest)).
  { rewrite (cp_no_ped h _ _ Hp). cbn [truthy]. cbv zeta. rewrite Hs. reflexivity. }
  rewrite (choose_ok h SelNone SelNone None None Hnd eq_refl eq_refl).
  - rewrite Hcp. reflexivity.
  - intros x; discriminate.
  - intros x; discriminate.
  - rewrite Hcp, <- Hs. unfold ids_of. intros x Hx. apply in_flat_map in Hx as (p & Hpin & Hx).
    apply in_map_iff in Hpin as (y & <- & Hy). cbn in Hx. destruct Hx as [<-|[]]. exact Hy.
Qed.

(* only the sample is given, no PEDIGREE: that sample, unpaired *)
Lemma choose_named_single h s :
  NoDup (h_samples h) -> h_peds h = [] -> s <> ""%string -> In s (h_samples h) ->
  choose_samples h (SelName s) SelNone = Ok (Some s, None).
Proof.
  intros Hnd Hp Hs Hsin.
  assert (Hts : truthy (Some s) = true) by (cbn; now apply negb_true_iff, String.eqb_neq).
  set (cands := filter (fun p : pair_t => opt_str_eqb (fst p) (Some s))
                  (map (fun x => (Some x, @None string)) (h_samples h))).
  assert (Hall : forall p, In p cands -> p = (Some s, None)).
  { intros p Hpin. unfold cands in Hpin. apply filter_In in Hpin as [Hpin He].
    apply in_map_iff in Hpin as (o & <- & _). cbn in He. apply String.eqb_eq in He. now subst. }
  assert (Hne : cands <> []).
  { assert (Hin : In (Some s, @None string) cands).
    { unfold cands. apply filter_In. split; [|cbn; apply String.eqb_refl].
      apply in_map_iff. exists s. auto. }
    intros E. rewrite E in Hin. destruct Hin. }
  assert (Hcp : candidate_pairs h (Some s) None = cands).
  { rewrite (cp_no_ped h _ _ Hp), Hts. cbn [truthy]. cbv zeta. exact (match_nonempty cands _ Hne). }
  rewrite (choose_ok h (SelName s) SelNone (Some s) None Hnd eq_refl eq_refl).
  - rewrite Hcp. f_equal. apply hd_all_equal; assumption.
  - intros x E _. injection E as <-. exact Hsin.
  - intros x; discriminate.
  - rewrite Hcp. unfold ids_of. intros x Hx. apply in_flat_map in Hx as (p & Hpin & Hx).
    rewrite (Hall p Hpin) in Hx. cbn in Hx. destruct Hx as [<-|[]]. exact Hsin.
Qed.
