(* C01 / C02 source tie of do_call's argument check, its FIRST statement

       if method not in ("threshold", "clonal", "none"): raise ValueError(...)

   The test is regenerated from the Python source on every run (Gen/FnCallGuards.v fn_method_rejected; that it is the
   first statement and guards a ValueError is checked on the syntax tree by tools/fnspecs/z_call_rows.py).  Here: the
   methods do_call accepts are exactly the three values of Model/Baf.v call_method -- the methods do_call_row /
   do_call_model are defined for --, under the names the entry point decodes (Entries/C02.v method_of, which answers
   "ValueError" for every other name) and the dispatch compares with (C01_source_dispatch, C02_source_finish). *)
From CNV Require Import Base.Prelude Base.Str Gen.FnCallGuards Model.Call Model.Threshold Model.Baf.
From CNV Require Entries.C02.
Local Open Scope Z_scope.

Definition method_name (m : call_method) : string :=
  match m with MNone => "none" | MThreshold => "threshold" | MClonal => "clonal" end%string.

Lemma source_method_guard (m : string) :
  (fn_method_rejected m = false <-> exists cm, m = method_name cm) /\
  (fn_method_rejected m = true <-> Entries.C02.method_of m = None) /\
  (forall cm, Entries.C02.method_of (method_name cm) = Some cm).
Proof.
  unfold fn_method_rejected, Entries.C02.method_of. cbn [mem_string existsb].
  split; [|split].
  - split.
    + intro H. apply negb_false_iff in H. rewrite !orb_true_iff in H.
      destruct H as [H | [H | [H | H]]]; try discriminate; apply String.eqb_eq in H.
      * exists MThreshold. exact H.
      * exists MClonal. exact H.
      * exists MNone. exact H.
    + intros [cm ->]. destruct cm; reflexivity.
  - destruct (String.eqb m "none"), (String.eqb m "threshold"), (String.eqb m "clonal"); cbn; split; intro H;
      try reflexivity; discriminate.
  - intros []; reflexivity.
Qed.
