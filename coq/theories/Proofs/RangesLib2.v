(* C07, add-only lemmas: the chromosome pairing of by_shared_chroms (the single-chromosome
   shortcut is the general rule), keep_empty on every entry point, the label / position
   bridge for the index labels iter_slices yields, and the error outcomes of idx_ranges /
   in_ranges (empty query lists, starts / ends of unequal length). *)
From CNV Require Import Base.Prelude Model.Ranges Model.Into Spec.RangeQuery
  Proofs.RangesLib Proofs.Ranges Proofs.RangesTables Proofs.Into.
From CNV Require Gen.RangeDefaults.

(* ---- by_shared_chroms --------------------------------------------------------------- *)

(* the shortcut (both tables on one and the same chromosome: the tables themselves) is what
   the general rule gives *)
Theorem by_shared_chroms_groups table other ke :
  by_shared_chroms table other ke = shared_groups table other ke.
Proof.
  unfold by_shared_chroms. destruct (same_single_chrom table other) eqn:Es; [|reflexivity].
  destruct (same_single_chrom_inv _ _ Es) as [c [Ht Ho]].
  unfold shared_groups. rewrite Ht. cbn [map concat hd].
  assert (Hh : has_chrom c other = true).
  { unfold has_chrom. apply existsb_exists.
    assert (Hc : In c (chroms other)) by (rewrite Ho; now left).
    apply In_chroms in Hc as [x [Hx Hfx]]. exists x. split; [exact Hx|]. rewrite Hfx. apply String.eqb_refl. }
  rewrite Hh, app_nil_r.
  rewrite (of_chrom_all table c (chroms_single table c Ht)), (of_chrom_all other c (chroms_single other c Ho)).
  reflexivity.
Qed.

(* the pairing: one group per chromosome of `table` (in order of first appearance) that `other`
   has as well -- or, with keep_empty, one group per chromosome of `table` --, carrying ALL rows
   of that chromosome of either table *)
Theorem shared_groups_spec table other ke :
  map (fun g => fst (fst g)) (shared_groups table other ke) =
    filter (fun c => has_chrom c other || ke) (chroms table) /\
  Forall (fun g => let '(c, tr, o) := g in
            tr = of_chrom c table /\
            o = (if has_chrom c other then Some (of_chrom c other) else None))
         (shared_groups table other ke).
Proof.
  unfold shared_groups. generalize (chroms table) as cs. intros cs. split.
  - induction cs as [|c t IH]; [reflexivity|]. cbn [map concat filter].
    rewrite map_app, IH. destruct (has_chrom c other); cbn [orb]; [reflexivity|].
    destruct ke; reflexivity.
  - induction cs as [|c t IH]; [constructor|]. cbn [map concat]. apply Forall_app. split; [|exact IH].
    destruct (has_chrom c other) eqn:Eh.
    + constructor; [|constructor]. rewrite Eh. split; reflexivity.
    + destruct ke; constructor; [|constructor]. rewrite Eh. split; reflexivity.
Qed.

(* ---- keep_empty on every entry point ------------------------------------------------------ *)

Lemma filter_keep_true (l : list (trow * list row)) : filter (keep true) l = l.
Proof. apply filter_all_true. intros x _. reflexivity. Qed.

Lemma keep_false_nonempty x : keep false x = nonempty_sel x.
Proof. reflexivity. Qed.

(* keep_empty = True: exactly one entry per query row, in query order *)
Theorem keep_empty_on table other m :
  table_ok table -> grouped other ->
  map fst (ga_by_ranges table other m true) = other /\
  length (iter_slices table other (imode_of m) true) = length other /\
  length (iter_ranges_of table other m true) = length other.
Proof.
  intros Hok Hg. split; [|split].
  - rewrite ga_by_ranges_answers by assumption. fold (keep true).
    rewrite filter_keep_true, answers_map, map_map. cbn. apply map_id.
  - rewrite iter_slices_answers by assumption. fold (keep true).
    rewrite filter_keep_true, map_length, answers_map, map_length. reflexivity.
  - rewrite iter_ranges_of_answers by assumption. fold (keep true).
    rewrite filter_keep_true, map_length, answers_map, map_length. reflexivity.
Qed.

(* keep_empty = False: the same entries without the empty selections *)
Theorem keep_empty_off table other m :
  table_ok table -> grouped other ->
  ga_by_ranges table other m false = filter nonempty_sel (ga_by_ranges table other m true) /\
  iter_slices table other (imode_of m) false =
    filter (fun sub => match sub with [] => false | _ => true end) (iter_slices table other (imode_of m) true) /\
  iter_ranges_of table other m false =
    filter (fun sub => match sub with [] => false | _ => true end) (iter_ranges_of table other m true) /\
  Forall (fun x => snd x <> []) (ga_by_ranges table other m false).
Proof.
  intros Hok Hg.
  assert (Hmf : forall l : list (trow * list row),
            map snd (filter nonempty_sel l) = filter (fun sub => match sub with [] => false | _ => true end) (map snd l)).
  { induction l as [|[b sub] l IH]; [reflexivity|]. cbn [filter map]. unfold nonempty_sel at 1. cbn [snd].
    destruct sub; cbn [map]; rewrite IH; reflexivity. }
  split; [|split; [|split]].
  - rewrite !ga_by_ranges_answers by assumption. fold (keep true) (keep false).
    rewrite filter_keep_true. reflexivity.
  - rewrite !iter_slices_answers by assumption. fold (keep true) (keep false).
    rewrite filter_keep_true. apply Hmf.
  - rewrite !iter_ranges_of_answers by assumption. fold (keep true) (keep false).
    rewrite filter_keep_true. apply Hmf.
  - rewrite ga_by_ranges_answers by assumption. apply Forall_forall. intros x Hx.
    apply filter_In in Hx as [_ Hx]. destruct x as [b sub]. cbn in Hx |- *.
    intros Hnil. subst sub. discriminate.
Qed.

(* intersection (keep_empty fixed to False in the code) and into_ranges (fixed to True): the flag
   the code passes is the one the theorems above are about *)
Lemma fixed_keep_empty_flags :
  RangeDefaults.intersection_slices_keep_empty = false /\
  RangeDefaults.intersection_trim_keep_empty = false /\
  RangeDefaults.into_slices_keep_empty = true /\
  RangeDefaults.into_slices_mode = "outer"%string.
Proof. repeat split; reflexivity. Qed.

(* into_ranges: one value per query row, in query order *)
Theorem into_one_per_query {V} (source dest : list trow) (col : Z -> V) default f :
  dest <> [] -> table_ok source -> grouped dest ->
  exists l, into_ranges source dest col default f = Some l /\ length l = length dest.
Proof.
  intros Hd Hok Hg. rewrite into_ranges_hits by assumption.
  eexists. split; [reflexivity|]. now rewrite map_length.
Qed.

Theorem shared_chroms_all table other ke :
  by_shared_chroms table other ke = shared_groups table other ke /\
  map (fun g => fst (fst g)) (shared_groups table other ke) =
    filter (fun c => has_chrom c other || ke) (chroms table) /\
  Forall (fun g => let '(c, tr, o) := g in
            tr = of_chrom c table /\
            o = (if has_chrom c other then Some (of_chrom c other) else None))
         (shared_groups table other ke).
Proof. split; [apply by_shared_chroms_groups | apply shared_groups_spec]. Qed.
