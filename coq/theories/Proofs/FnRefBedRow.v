(* C05 function-body tie of bed2probes' column code (cnvlib/reference.py), translated on every run (Gen/FnRefBedRow.v):

       table["gene"] = regions.data["gene"] if "gene" in regions.data else "-"
       table["log2"] = 0.0
       table["spread"] = 0.0

   The spread column of Model/Reference.v's flat_reference (do_reference_flat never writes it again) is the translated
   0.0 on every row; the gene column is the file's when it has one. *)
From CNV Require Import Base.Prelude Base.Str Base.QNum Gen.RefDefaults Model.Center Model.Sex Model.Reference Gen.FnRefBedRow.
Local Open Scope Q_scope.

Theorem fn_bed_row_spread exp2 hap build targets antis g h r :
  In r (flat_reference exp2 hap build targets antis) -> r_spread_sq r = qsq (snd (fn_bed_row g h)).
Proof.
  unfold flat_reference. intros H. apply in_map_iff in H. destruct H as [b [<- _]]. reflexivity.
Qed.

Theorem fn_bed_row_gene g h :
  fst (fst (fn_bed_row g h)) = (if h then g else "-"%string) /\ snd (fst (fn_bed_row g h)) = 0.
Proof. unfold fn_bed_row. split; reflexivity. Qed.
