(* C17 per-row tie of do_bintest: the column code

       cnarr["log2"] = resid
       cnarr["probes"] = 1
       ...
       cnarr["p_bintest"] = z_prob(cnarr)
       is_sig = cnarr["p_bintest"] < alpha
       hits = cnarr[is_sig]

   read per row is regenerated from the Python source on every run as Gen/FnBintestRow.v
   (fn_bintest_stores: the row's log2 and probes after the two stores; fn_bintest_is_sig: the row's
   bit of the hit mask -- a NaN p-value compares False).  Here: Model/Bintest.v's hit tables ARE the
   candidate rows selected by the generated mask, carrying the generated stores. *)
From CNV Require Import Base.Prelude Base.QNum Gen.SegmetricsDefaults Gen.FnBintestRow
  Model.Ranges Model.Segmetrics Model.Bintest.
Local Open Scope Q_scope.

Definition p_value (q : option Q) : Q := match q with Some x => x | None => 0 end.

(* the output row of a candidate with adjusted p-value q, through the generated stores *)
Definition py_hit_row (cq : cand * option Q) : hit_row :=
  let '(l2, pr) := fn_bintest_stores (c_res (fst cq)) in
  mkHitRow (c_idx (fst cq)) (set_log2 (c_bin (fst cq)) l2) pr (p_value (snd cq)).

Lemma source_bintest_is_sig q alpha :
  fn_bintest_is_sig q alpha = match q with Some x => qlt_b x alpha | None => false end.
Proof. destruct q; reflexivity. Qed.

Lemma source_bintest_row c q :
  py_hit_row (c, Some q) = mkHitRow (c_idx c) (set_log2 (c_bin c) (c_res c)) bt_probes q.
Proof. reflexivity. Qed.

Theorem source_bintest_table ps cs alpha :
  bintest_table_with ps cs alpha
  = concat (map (fun cq => if fn_bintest_is_sig (snd cq) alpha then [py_hit_row cq] else [])
                (combine cs (bh_opt ps))).
Proof.
  unfold bintest_table_with. f_equal. apply map_ext. intros [c [q|]]; cbn [snd fst].
  - rewrite source_bintest_is_sig. destruct (qlt_b q alpha); reflexivity.
  - reflexivity.
Qed.

Theorem source_bintest_hits ps cs alpha :
  bintest_with ps cs alpha
  = concat (map (fun cq => if fn_bintest_is_sig (snd cq) alpha
                           then [(c_idx (fst cq), fst (fn_bintest_stores (c_res (fst cq))), p_value (snd cq))]
                           else [])
                (combine cs (bh_opt ps))).
Proof.
  unfold bintest_with. f_equal. apply map_ext. intros [c [q|]]; cbn [snd fst].
  - rewrite source_bintest_is_sig. destruct (qlt_b q alpha); reflexivity.
  - reflexivity.
Qed.
