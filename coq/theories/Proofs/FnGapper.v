(* C19 source tie [loop ties e2]: gapper_scale

       n = len(a); idx = np.arange(1, n); weights = idx * (n - idx)          (per gap)
       return (gaps * weights).sum() * np.sqrt(np.pi) / (n * (n - 1))

   regenerated from cnvlib/descriptives.py on every run (Gen/FnGapper.v).  The model's weight vector is the
   generated per-gap weight at idx = 1 .. n-1, and gapper_core is the generated result on the model's dot product. *)
From CNV Require Import Base.Prelude Base.QNum Proofs.QNumLemmas Gen.DescDefaults Gen.FnGapper Model.Descriptives.
From Coq Require Import Lia.
Local Open Scope Q_scope.

Theorem source_gapper_weights n :
  gapper_weights n = map (fun i => inject_Z (fn_gapper_weight (Z.of_nat n) (Z.of_nat i))) (seq 1 (n - 1)).
Proof.
  unfold gapper_weights. apply map_ext_in. intros i Hi. apply in_seq in Hi.
  unfold fn_gapper_weight, qofnat. cbv zeta. f_equal.
  rewrite Nat2Z.inj_mul, Nat2Z.inj_sub by lia. reflexivity.
Qed.

Lemma nat_n_pred n : qofnat (n * (n - 1)) = inject_Z (Z.of_nat n * (Z.of_nat n - 1)).
Proof.
  unfold qofnat. f_equal. destruct n as [|k]; [reflexivity|].
  rewrite Nat2Z.inj_mul, Nat2Z.inj_sub by lia. reflexivity.
Qed.

Theorem source_gapper_result sqrt_pi a idx :
  gapper_core sqrt_pi a ==
  fn_gapper_result (Z.of_nat (length a)) idx (qdot (diffs (qsort a)) (gapper_weights (length a))) sqrt_pi.
Proof.
  unfold gapper_core, fn_gapper_result. cbv zeta. rewrite qdiv_spec, qmul_spec, nat_n_pred. reflexivity.
Qed.
