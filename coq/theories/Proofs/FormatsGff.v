(* GFF (extension): the gene label is the value of the first matching tag, as gff.read_gff's
   regular expression finds it; the type filter; the pre-sort by chromosome string. *)
From CNV Require Import Base.Prelude Base.Str Model.Decimal Model.Chromsort Model.Sniff Model.Formats.
From CNV Require Import Proofs.ChromsortLemmas Proofs.FormatsLemmas Proofs.FormatsText Proofs.FormatsLib.
From CNV Require Import Gen.Formats.

(* ------------------------------------------------------------------------ *)
(* the value after a tag                                                      *)

(* a character of an ordinary attribute value: no white space, no ';', no double quote *)
Definition gff_plain (c : ascii) : bool :=
  is_nonspace c && negb (Ascii.eqb c semicolon) && negb (Ascii.eqb c dquote).

(* what may follow the value: the end of the field or a ';' *)
Definition gff_term (cs : list ascii) : bool :=
  match cs with [] => true | d :: _ => Ascii.eqb d semicolon end.

Lemma gff_plain_parts c : gff_plain c = true ->
  is_nonspace c = true /\ Ascii.eqb c semicolon = false /\ Ascii.eqb c dquote = false.
Proof.
  unfold gff_plain. intros H. apply andb_true_iff in H. destruct H as [H H3].
  apply andb_true_iff in H. destruct H as [H1 H2]. apply negb_true_iff in H2, H3. auto.
Qed.

Lemma gene_tail_plain v : forall acc term,
  forallb gff_plain v = true -> gff_term term = true ->
  gff_gene_tail acc (v ++ term) = Some (rev acc ++ v).
Proof.
  induction v as [|c v IH]; intros acc term Hv Ht; cbn [app].
  - rewrite app_nil_r. destruct term as [|d r]; [reflexivity|]. cbn in Ht. cbn [gff_gene_tail].
    apply Ascii.eqb_eq in Ht. subst d.
    replace (Ascii.eqb semicolon dquote) with false by reflexivity. cbn [andb].
    now rewrite Ascii.eqb_refl.
  - cbn in Hv. apply andb_true_iff in Hv. destruct Hv as [Hc Hv].
    destruct (gff_plain_parts c Hc) as (H1 & H2 & H3). cbn [gff_gene_tail].
    rewrite H3, H2, H1. cbn [andb]. rewrite (IH (c :: acc) term Hv Ht). cbn [rev].
    now rewrite <- app_assoc.
Qed.

Lemma gene_tail_plain_quoted v : forall acc term,
  forallb gff_plain v = true -> gff_term term = true ->
  gff_gene_tail acc (v ++ dquote :: term) = Some (rev acc ++ v).
Proof.
  induction v as [|c v IH]; intros acc term Hv Ht; cbn [app].
  - rewrite app_nil_r. cbn [gff_gene_tail]. rewrite Ascii.eqb_refl. cbn [andb].
    unfold gff_term in Ht. now rewrite Ht.
  - cbn in Hv. apply andb_true_iff in Hv. destruct Hv as [Hc Hv].
    destruct (gff_plain_parts c Hc) as (H1 & H2 & H3). cbn [gff_gene_tail].
    rewrite H3, H2, H1. cbn [andb]. rewrite (IH (c :: acc) term Hv Ht). cbn [rev].
    now rewrite <- app_assoc.
Qed.

Lemma gene_body_plain v term :
  v <> [] -> forallb gff_plain v = true -> gff_term term = true ->
  gff_gene_body (v ++ term) = Some v /\ gff_gene_body (v ++ dquote :: term) = Some v.
Proof.
  intros Hne Hv Ht. destruct v as [|c v]; [congruence|]. cbn in Hv.
  apply andb_true_iff in Hv. destruct Hv as [Hc Hv].
  destruct (gff_plain_parts c Hc) as (H1 & _ & _). cbn [app gff_gene_body]. rewrite H1.
  now rewrite gene_tail_plain, gene_tail_plain_quoted.
Qed.

Definition gff_sep (c : ascii) : bool := Ascii.eqb c "="%char || Ascii.eqb c " "%char.

(* tag=value;  tag value;  tag="value";  tag "value"; *)
Lemma after_tag_value sep v term :
  gff_sep sep = true -> v <> [] -> forallb gff_plain v = true -> gff_term term = true ->
  gff_after_tag (sep :: v ++ term) = Some v /\
  gff_after_tag (sep :: dquote :: v ++ dquote :: term) = Some v.
Proof.
  intros Hs Hne Hv Ht. destruct (gene_body_plain v term Hne Hv Ht) as [B1 B2].
  unfold gff_sep in Hs. split.
  - cbn [gff_after_tag]. rewrite Hs. destruct v as [|c v']; [congruence|]. cbn [app].
    cbn in Hv. apply andb_true_iff in Hv. destruct Hv as [Hc _].
    destruct (gff_plain_parts c Hc) as (_ & _ & H3). rewrite H3. exact B1.
  - cbn [gff_after_tag]. rewrite Hs, Ascii.eqb_refl. now rewrite B2.
Qed.

Lemma strip_prefix_app p rest : strip_prefix p (p ++ rest) = Some rest.
Proof. induction p as [|a p IH]; cbn; auto. now rewrite Ascii.eqb_refl. Qed.

Lemma strip_prefix_prefixb p cs : prefixb p cs = false -> strip_prefix p cs = None.
Proof.
  revert cs. induction p as [|a p IH]; intros [|b cs]; cbn; try discriminate; auto.
  destruct (Ascii.eqb a b); cbn; auto.
Qed.

Lemma try_tag_value tg sep v term :
  gff_sep sep = true -> v <> [] -> forallb gff_plain v = true -> gff_term term = true ->
  gff_try_tag tg (tg ++ sep :: v ++ term) = Some v /\
  gff_try_tag tg (tg ++ sep :: dquote :: v ++ dquote :: term) = Some v.
Proof.
  intros. unfold gff_try_tag. rewrite !strip_prefix_app. now apply after_tag_value.
Qed.

(* ------------------------------------------------------------------------ *)
(* alternatives in order, leftmost position                                   *)

Lemma gene_at_first before tg after cs g :
  (forall t', In t' before -> gff_try_tag t' cs = None) ->
  gff_try_tag tg cs = Some g ->
  gff_gene_at (before ++ tg :: after) cs = Some g.
Proof.
  induction before as [|b bs IH]; cbn [app gff_gene_at]; intros Hb Ht.
  - now rewrite Ht.
  - rewrite (Hb b (or_introl eq_refl)). apply IH; auto. intros t' Hin. apply Hb. now right.
Qed.

Lemma gene_at_none tags cs :
  (forall tg, In tg tags -> gff_try_tag tg cs = None) -> gff_gene_at tags cs = None.
Proof.
  induction tags as [|t ts IH]; cbn; auto. intros H.
  rewrite (H t (or_introl eq_refl)). apply IH. intros tg Hin. apply H. now right.
Qed.

Lemma gene_at_no_prefix tags cs :
  (forall tg, In tg tags -> prefixb tg cs = false) -> gff_gene_at tags cs = None.
Proof.
  intros H. apply gene_at_none. intros tg Hin. unfold gff_try_tag.
  now rewrite strip_prefix_prefixb by (now apply H).
Qed.

(* re.search semantics of the model: the match at the leftmost position that has one *)
Lemma gene_search_leftmost tags pre : forall cs g,
  (forall i, (i < length pre)%nat -> gff_gene_at tags (skipn i (pre ++ cs)) = None) ->
  gff_gene_at tags cs = Some g ->
  gff_gene_search tags (pre ++ cs) = Some g.
Proof.
  induction pre as [|a pre IH]; intros cs g Hn Hg.
  - cbn [app]. destruct cs as [|c cs']; cbn [gff_gene_search]; now rewrite Hg.
  - cbn [app gff_gene_search]. pose proof (Hn 0%nat ltac:(cbn; lia)) as H0. cbn [skipn app] in H0.
    rewrite H0. apply IH; auto. intros i Hi. apply (Hn (S i)). cbn. lia.
Qed.

Lemma gene_search_inv tags cs g :
  gff_gene_search tags cs = Some g ->
  exists pre suf, cs = pre ++ suf /\ gff_gene_at tags suf = Some g /\
    (forall i, (i < length pre)%nat -> gff_gene_at tags (skipn i cs) = None).
Proof.
  induction cs as [|c cs IH]; cbn [gff_gene_search]; intros H.
  - exists [], []. repeat split; auto. intros i Hi. cbn in Hi. lia.
  - destruct (gff_gene_at tags (c :: cs)) as [g'|] eqn:E.
    + injection H as <-. exists [], (c :: cs). repeat split; auto. intros i Hi. cbn in Hi. lia.
    + destruct (IH H) as (pre & suf & -> & Hs & Hn). exists (c :: pre), suf. repeat split; auto.
      intros [|i] Hi; cbn [skipn]; [exact E|]. apply Hn. cbn in Hi. lia.
Qed.

Lemma gene_search_none tags cs :
  (forall i, (i <= length cs)%nat -> gff_gene_at tags (skipn i cs) = None) ->
  gff_gene_search tags cs = None.
Proof.
  induction cs as [|c cs IH]; intros H; cbn [gff_gene_search].
  - exact (H 0%nat (Nat.le_refl _)).
  - pose proof (H 0%nat ltac:(cbn; lia)) as H0. cbn [skipn] in H0. rewrite H0.
    apply IH. intros i Hi. apply (H (S i)). cbn. lia.
Qed.

Lemma infixb_skipn p cs i : infixb p cs = false -> prefixb p (skipn i cs) = false.
Proof.
  revert cs. induction i as [|i IH]; intros cs H.
  - cbn [skipn]. destruct cs; cbn in H; apply orb_false_iff in H; tauto.
  - destruct cs as [|c cs]; cbn [skipn].
    + cbn in H. apply orb_false_iff in H. tauto.
    + apply IH. cbn in H. apply orb_false_iff in H. tauto.
Qed.

(* no tag anywhere in the attribute column: the label is the default '-' *)
Lemma gff_gene_missing tags attr :
  (forall tg, In tg tags -> str_infix tg attr = false) -> gff_gene tags attr = "-"%string.
Proof.
  intros H. unfold gff_gene. rewrite gene_search_none; [reflexivity|].
  intros i _. apply gene_at_no_prefix. intros tg Hin. apply in_map_iff in Hin.
  destruct Hin as (s & <- & Hs). apply infixb_skipn. exact (H s Hs).
Qed.

(* the gene label is the value that follows the first matching tag *)
Theorem gff_gene_first_tag (before after : list string) tg pre sep v term :
  gff_sep sep = true -> v <> [] -> forallb gff_plain v = true -> gff_term term = true ->
  let tags := before ++ tg :: after in
  let here := chars tg ++ sep :: v ++ term in
  let hereq := chars tg ++ sep :: dquote :: v ++ dquote :: term in
  (* plain value *)
  ((forall i, (i < length pre)%nat -> gff_gene_at (map chars tags) (skipn i (pre ++ here)) = None) ->
   (forall t', In t' before -> gff_try_tag (chars t') here = None) ->
   gff_gene tags (unchars (pre ++ here)) = unchars v) /\
  (* quoted value *)
  ((forall i, (i < length pre)%nat -> gff_gene_at (map chars tags) (skipn i (pre ++ hereq)) = None) ->
   (forall t', In t' before -> gff_try_tag (chars t') hereq = None) ->
   gff_gene tags (unchars (pre ++ hereq)) = unchars v).
Proof.
  intros Hs Hne Hv Ht tags here hereq.
  destruct (try_tag_value (chars tg) sep v term Hs Hne Hv Ht) as [T1 T2].
  split; intros Hn Hb; unfold gff_gene; rewrite chars_unchars.
  - rewrite (gene_search_leftmost _ pre here v); auto.
    unfold tags. rewrite map_app. cbn [map]. apply gene_at_first; auto.
    intros t' Hin. apply in_map_iff in Hin. destruct Hin as (s & <- & Hin). now apply Hb.
  - rewrite (gene_search_leftmost _ pre hereq v); auto.
    unfold tags. rewrite map_app. cbn [map]. apply gene_at_first; auto.
    intros t' Hin. apply in_map_iff in Hin. destruct Hin as (s & <- & Hin). now apply Hb.
Qed.

(* what the model computes is exactly a leftmost, first-alternative match *)
Theorem gff_gene_spec tags attr :
  (forall g, gff_gene_search (map chars tags) (chars attr) = Some g ->
     gff_gene tags attr = unchars g /\
     exists pre suf, chars attr = pre ++ suf /\ gff_gene_at (map chars tags) suf = Some g /\
       forall i, (i < length pre)%nat -> gff_gene_at (map chars tags) (skipn i (chars attr)) = None) /\
  (gff_gene_search (map chars tags) (chars attr) = None -> gff_gene tags attr = "-"%string).
Proof.
  split.
  - intros g H. split; [unfold gff_gene; now rewrite H | now apply gene_search_inv].
  - intros H. unfold gff_gene. now rewrite H.
Qed.

(* the files of the three dialects *)
Lemma gff_gene_examples :
  let tags := gff_default_tags in
  gff_gene tags "ID=gene0;Name=BRCA1;biotype=protein_coding" = "BRCA1"%string /\
  gff_gene tags "gene_id ""ENSG01""; transcript_id ""T1""; gene_name ""TP53"";" = "ENSG01"%string /\
  gff_gene tags "ID=x1;Parent=t1" = "-"%string /\
  gff_gene tags "ID=x;gene=A,B-1.2;Name=other" = "A,B-1.2"%string /\
  gff_gene tags "Name=""AB C"";gene=zz" = "zz"%string /\
  gff_gene tags "ID=x;my_gene=Y" = "Y"%string /\
  gff_gene tags "" = "-"%string /\
  gff_gene ["ID"]%string "ID=x1;Name=N" = "x1"%string.
Proof. repeat split; reflexivity. Qed.

(* ------------------------------------------------------------------------ *)
(* conventions, sortedness, type filter, pre-sort                             *)

Lemma conv_gff_row tags c src ty s e sc st ph attr :
  read_gff_row tags [c; src; ty; print_Z s; print_Z e; sc; st; ph; attr]
  = Some ((c, s + -1, e), [gff_gene tags attr; st; ty]).
Proof. unfold read_gff_row. now rewrite !parse_print. Qed.

Lemma read_gff_full_sorted tags kt ls t : read_gff_full tags kt ls = Some t -> rows_sorted t.
Proof. unfold read_gff_full. destruct (all_some _); cbn; intros [= <-]. apply sort_rows_sorted. Qed.

Lemma row_leb_total (a b : row) : region_leb row_region a b = true \/ region_leb row_region b a = true.
Proof. apply region_leb_total. Qed.
Lemma row_leb_trans (a b c : row) :
  region_leb row_region a b = true -> region_leb row_region b c = true -> region_leb row_region a c = true.
Proof. apply region_leb_trans. Qed.

(* keep_type: the filtered table is the unfiltered result without the other rows *)
Theorem gff_keep_type tags kt ls t :
  read_gff_full tags None ls = Some t ->
  read_gff_full tags kt ls = Some (filter (gff_keep kt) t) /\
  (forall ty, kt = Some ty -> ty <> EmptyString ->
     Forall (fun r => gff_type r = ty) (filter (gff_keep kt) t)).
Proof.
  unfold read_gff_full. destruct (all_some _) as [t0|]; cbn [option_map]; [|discriminate].
  intros [= <-]. split.
  - f_equal. unfold sort_rows, sort_regions.
    rewrite (filter_stable_sort _ row_leb_total row_leb_trans).
    f_equal. rewrite (filter_id (gff_keep None)) by reflexivity. reflexivity.
  - intros ty -> Hne. apply Forall_forall. intros r Hin. apply filter_In in Hin.
    destruct Hin as [_ Hk]. cbn in Hk. destruct (String.eqb_spec ty ""); [congruence|].
    now apply String.eqb_eq in Hk.
Qed.

(* the string order of the pre-sort *)
Definition sreg_cmp : (string * Z * Z) -> (string * Z * Z) -> comparison :=
  lex_cmp (lex_cmp String.compare Z.compare) Z.compare.

Lemma sreg_cmp_good : good_cmp sreg_cmp.
Proof. exact (lex_good _ _ (lex_good _ _ string_compare_good Z_compare_good) Z_compare_good). Qed.

Lemma str_region_leb_cmp a b :
  str_region_leb a b = match sreg_cmp a b with Gt => false | _ => true end.
Proof.
  destruct a as [[ca sa] ea], b as [[cb sb] eb]. unfold str_region_leb, sreg_cmp, lex_cmp. cbn.
  destruct (String.compare ca cb); auto. destruct (Z.compare sa sb); auto.
Qed.

Definition srow_leb (a b : row) : bool := str_region_leb (fst a) (fst b).

Lemma srow_leb_total a b : srow_leb a b = true \/ srow_leb b a = true.
Proof. unfold srow_leb. rewrite !str_region_leb_cmp. exact (cmp_leb_total _ sreg_cmp_good _ _). Qed.
Lemma srow_leb_trans a b c : srow_leb a b = true -> srow_leb b c = true -> srow_leb a c = true.
Proof. unfold srow_leb. rewrite !str_region_leb_cmp. exact (cmp_leb_trans _ sreg_cmp_good _ _ _). Qed.
Lemma srow_leb_refl a : srow_leb a a = true.
Proof. destruct (srow_leb_total a a); auto. Qed.

Lemma presort_perm t : Permutation t (gff_presort t).
Proof. apply stable_sort_perm. Qed.

(* the result is a sorted permutation of the rows of the file; where rows of equal
   (key, start, end) all spell the chromosome the same way -- e.g. a file that does not mix
   "chr1" and "1" -- the pre-sort changes nothing: the table is the stable natural sort *)
Theorem gff_presort_harmless (t : list row) :
  Permutation t (sort_rows (gff_presort t)) /\ rows_sorted (sort_rows (gff_presort t)) /\
  ((forall a b, In a t -> In b t -> rkey_of (row_region a) = rkey_of (row_region b) ->
      fst (fst (fst a)) = fst (fst (fst b))) ->
   sort_rows (gff_presort t) = sort_rows t).
Proof.
  split; [|split].
  - eapply perm_trans; [apply presort_perm | apply sort_regions_perm].
  - apply sort_rows_sorted.
  - intros Hsame.
    apply (sorted_stable_unique (region_leb row_region) row_leb_total);
      try apply sort_rows_sorted.
    intros z. unfold sort_rows. rewrite !sort_regions_stable.
    unfold gff_presort. fold srow_leb.
    rewrite (filter_stable_sort srow_leb srow_leb_total srow_leb_trans).
    apply stable_sort_sorted_id.
    (* inside one class every pair is srow_leb-related *)
    assert (Hcls : forall a b, In a (filter (equivb (region_leb row_region) z) t) ->
                               In b (filter (equivb (region_leb row_region) z) t) -> srow_leb a b = true).
    { intros a b Ha Hb. apply filter_In in Ha, Hb. destruct Ha as [Ha Hza], Hb as [Hb Hzb].
      apply equivb_region_same_key in Hza, Hzb.
      assert (Hk : rkey_of (row_region a) = rkey_of (row_region b)) by congruence.
      pose proof (Hsame a b Ha Hb Hk) as Hc.
      destruct a as [[[ca sa] ea] xa], b as [[[cb sb] eb] xb]. cbn in Hc. subst cb.
      unfold row_region, rkey_of in Hk. cbn in Hk. injection Hk as -> ->.
      exact (srow_leb_refl (ca, sb, eb, xa)). }
    generalize dependent (filter (equivb (region_leb row_region) z) t). intros l Hl.
    induction l as [|x l IH]; constructor.
    + apply IH. intros a b Ha Hb. apply Hl; now right.
    + destruct l as [|y l']; constructor. apply Hl; [now left | right; now left].
Qed.
