(* C13, text layer: get_regions on the text of a FASTA file.
   (1) gr_lines on header-led records = the per-record scanner, record by record, for every
       record content; blank lines before the first header are skipped;
   (2) lines_of inverts the joining of lines with LF / CRLF / CR terminators, with or without
       a terminator after the last line (empty lines included, as long as a CR terminator is
       not directly followed by an empty line terminated by LF -- that pair IS a CRLF);
   (3) header_name / rstrip / is_header on rendered lines;
   (4) C13_text: for every well-formed FASTA text -- `>name description` headers, sequences
       cut into lines of any widths, optional trailing blanks, blank lines anywhere (before
       the first header, inside a sequence, between records, at the end of the file), any of
       the three terminators per line, last terminator optional -- get_regions returns, record
       by record, the maximal non-N runs of the record's sequence under the record's name. *)
From CNV Require Import Base.Prelude Base.Str Spec.Runs Model.Access Model.AccessText Proofs.Access.

(* ---- (1) records ------------------------------------------------------------------------- *)

Definition frecord : Type := (list ascii * list (list ascii))%type.   (* header line, sequence lines *)
Definition rec_lines (r : frecord) : list (list ascii) := fst r :: snd r.
Definition rec_regions (r : frecord) : list tagged :=
  tag (header_name (fst r)) (regions_of_record isN_ascii (map rstrip (snd r))).
(* the same through the specification function: the runs of the rstripped lines' characters *)
Definition rec_runs (r : frecord) : list tagged :=
  tag (header_name (fst r)) (runs isN_ascii (concat (map rstrip (snd r)))).

Definition rec_shape (r : frecord) : Prop :=
  is_header (fst r) = true /\ Forall (fun l => is_header l = false) (snd r).

Lemma tag_app c l1 l2 : tag c (l1 ++ l2) = tag c l1 ++ tag c l2.
Proof. apply map_app. Qed.

Lemma rec_regions_runs r : rec_regions r = rec_runs r.
Proof. unfold rec_regions, rec_runs. now rewrite regions_of_record_runs. Qed.

Lemma gr_lines_seq chrom : forall lines ss rest,
  Forall (fun l => is_header l = false) lines ->
  gr_lines (Some (chrom, ss)) (lines ++ rest) =
  match gr_lines (Some (chrom, snd (scan_lines isN_ascii ss (map rstrip lines)))) rest with
  | Some r => Some (tag chrom (fst (scan_lines isN_ascii ss (map rstrip lines))) ++ r)
  | None => None
  end.
Proof.
  induction lines as [|l t IH]; intros ss rest Hh.
  - cbn [app map scan_lines fst snd tag]. destruct (gr_lines _ rest); reflexivity.
  - inversion Hh as [|? ? Hl Ht]; subst.
    cbn [app map gr_lines scan_lines]. unfold gr_step. rewrite Hl.
    destruct (scan_line isN_ascii ss (rstrip l)) as [out1 ss1].
    rewrite (IH ss1 rest Ht).
    destruct (scan_lines isN_ascii ss1 (map rstrip t)) as [out2 ss2]. cbn [fst snd].
    destruct (gr_lines (Some (chrom, ss2)) rest) as [r|]; [|reflexivity].
    rewrite tag_app. rewrite app_assoc. reflexivity.
Qed.

Lemma rec_regions_scan h ls :
  rec_regions (h, ls) =
  tag (header_name h) (fst (scan_lines isN_ascii (0, None) (map rstrip ls))) ++
  flush (Some (header_name h, snd (scan_lines isN_ascii (0, None) (map rstrip ls)))).
Proof.
  unfold rec_regions, regions_of_record. cbn [fst snd].
  destruct (scan_lines isN_ascii (0, None) (map rstrip ls)) as [out [cursor rs]]. cbn [fst snd flush].
  apply tag_app.
Qed.

Theorem gr_lines_records : forall recs st,
  Forall rec_shape recs ->
  gr_lines st (concat (map rec_lines recs)) = Some (flush st ++ flat_map rec_runs recs).
Proof.
  induction recs as [|[h ls] t IH]; intros st Hs.
  - cbn. now rewrite app_nil_r.
  - inversion Hs as [|? ? [Hh Hl] Ht]; subst. cbn [fst snd] in Hh, Hl.
    cbn [map concat rec_lines fst snd app gr_lines]. unfold gr_step. rewrite Hh.
    rewrite (gr_lines_seq (header_name h) ls (0, None) _ Hl).
    rewrite (IH _ Ht). cbn [flat_map]. rewrite <- rec_regions_runs, rec_regions_scan, <- !app_assoc. reflexivity.
Qed.

(* lines that are blank after rstrip are skipped before the first header, too *)
Lemma gr_lines_pre pre rest :
  Forall (fun l => is_header l = false /\ rstrip l = []) pre ->
  gr_lines None (pre ++ rest) = gr_lines None rest.
Proof.
  induction 1 as [|l t [Hh Hr] _ IH]; [reflexivity|].
  cbn [app gr_lines]. unfold gr_step. rewrite Hh, Hr, IH.
  destruct (gr_lines None rest); reflexivity.
Qed.

(* ---- (2) lines_of -------------------------------------------------------------------------- *)

Definition no_nl (l : list ascii) : Prop := Forall (fun c => c <> LF /\ c <> CR) l.

Lemma lines_of_plain c t : c <> LF -> c <> CR ->
  lines_of (c :: t) = match lines_of t with [] => [[c]] | l :: ls => (c :: l) :: ls end.
Proof.
  intros H1 H2. cbn [lines_of].
  apply Ascii.eqb_neq in H1. apply Ascii.eqb_neq in H2. now rewrite H1, H2.
Qed.

(* the next character cannot complete a CR to a CRLF *)
Definition no_lf_first (rest : list ascii) : Prop :=
  match rest with d :: _ => d <> LF | [] => True end.

Definition is_eol (e : list ascii) : Prop := e = [LF] \/ e = [CR; LF] \/ e = [CR].

Lemma lines_of_eol e rest : is_eol e -> (e = [CR] -> no_lf_first rest) ->
  lines_of (e ++ rest) = [] :: lines_of rest.
Proof.
  intros [->|[->| ->]] Hr.
  - reflexivity.
  - reflexivity.
  - specialize (Hr eq_refl). cbn [app]. destruct rest as [|d t]; [reflexivity|].
    cbn in Hr. apply Ascii.eqb_neq in Hr.
    change (lines_of (CR :: d :: t)) with ([] :: (if Ascii.eqb d LF then lines_of t else lines_of (d :: t))).
    now rewrite Hr.
Qed.

Lemma lines_of_line l e rest : no_nl l -> is_eol e -> (e = [CR] -> no_lf_first rest) ->
  lines_of (l ++ e ++ rest) = l :: lines_of rest.
Proof.
  intros Hl He Hr. induction Hl as [|c t [H1 H2] Ht IH].
  - exact (lines_of_eol e rest He Hr).
  - cbn [app]. rewrite lines_of_plain, IH by assumption. reflexivity.
Qed.

Lemma lines_of_last l : no_nl l -> l <> [] -> lines_of l = [l].
Proof.
  intros Hl. induction Hl as [|c t [H1 H2] Ht IH]; intros Hne; [congruence|].
  rewrite lines_of_plain by assumption. destruct t as [|c' t']; [reflexivity|].
  rewrite IH by discriminate. reflexivity.
Qed.

Fixpoint join (pl : list (list ascii * list ascii)) : list ascii :=
  match pl with
  | [] => []
  | le :: t => fst le ++ snd le ++ join t
  end.

Definition phys_ok (le : list ascii * list ascii) : Prop := no_nl (fst le) /\ is_eol (snd le).

(* a line terminated by CR is not followed by an empty line terminated by LF (the two
   terminators together would be one CRLF) *)
Fixpoint eols_ok (pl : list (list ascii * list ascii)) : Prop :=
  match pl with
  | le1 :: t =>
      match t with
      | le2 :: _ => snd le1 = [CR] -> fst le2 = [] -> snd le2 <> [LF]
      | [] => True
      end /\ eols_ok t
  | [] => True
  end.

Lemma no_lf_first_line l rest : no_nl l -> l <> [] -> no_lf_first (l ++ rest).
Proof. intros Hl Hne. destruct Hl as [|c t [H1 _] _]; [congruence|]. exact H1. Qed.

Lemma lines_of_join : forall pl tail,
  Forall phys_ok pl -> eols_ok pl -> no_lf_first tail ->
  lines_of (join pl ++ tail) = map fst pl ++ lines_of tail.
Proof.
  induction pl as [|[l e] t IH]; intros tail Hp Hc Ht; [reflexivity|].
  inversion Hp as [|? ? (Hl & He) Hp']; subst. cbn [fst snd] in *.
  destruct Hc as [Hc1 Hc'].
  cbn [join map app fst snd]. rewrite <- !app_assoc.
  rewrite lines_of_line; auto.
  - now rewrite IH.
  - intros ->. destruct t as [|[l' e'] t']; [exact Ht|].
    inversion Hp' as [|? ? (Hl' & He') _]; subst. cbn [fst snd] in *.
    cbn [join fst snd]. rewrite <- !app_assoc.
    destruct l' as [|c' l''].
    + specialize (Hc1 eq_refl eq_refl). cbn [app].
      destruct He' as [->|[->| ->]]; [congruence|discriminate|discriminate].
    + now apply no_lf_first_line.
Qed.

(* ---- (3) one rendered line ---------------------------------------------------------------- *)

Definition nonspace (l : list ascii) : Prop := Forall (fun c => is_space c = false) l.
(* blanks: white space other than the line terminators *)
Definition blanks (l : list ascii) : Prop := Forall (fun c => is_space c = true /\ c <> LF /\ c <> CR) l.

Lemma nonspace_no_nl l : nonspace l -> no_nl l.
Proof.
  apply Forall_impl. intros c Hc. split; intros ->; discriminate Hc.
Qed.

Lemma blanks_no_nl l : blanks l -> no_nl l.
Proof. apply Forall_impl. tauto. Qed.

Lemma no_nl_app l1 l2 : no_nl l1 -> no_nl l2 -> no_nl (l1 ++ l2).
Proof. intros. apply Forall_app. auto. Qed.

Lemma dropwhile_all {A} (f : A -> bool) l rest : Forall (fun c => f c = true) l ->
  dropwhile f (l ++ rest) = dropwhile f rest.
Proof. induction 1 as [|c t Hc Ht IH]; [reflexivity|]. cbn [app dropwhile]. now rewrite Hc. Qed.

Lemma dropwhile_none {A} (f : A -> bool) l : Forall (fun c => f c = false) l -> dropwhile f l = l.
Proof. destruct 1 as [|c t Hc Ht]; [reflexivity|]. cbn [dropwhile]. now rewrite Hc. Qed.

Lemma rstrip_line body trail : nonspace body -> blanks trail -> rstrip (body ++ trail) = body.
Proof.
  intros Hb Ht. unfold rstrip. rewrite rev_app_distr, dropwhile_all.
  - rewrite dropwhile_none; [apply rev_involutive|]. now apply Forall_rev.
  - apply Forall_rev. eapply Forall_impl; [|exact Ht]. intros c (H & _). exact H.
Qed.

Lemma takewhile_stop {A} (f : A -> bool) l rest : Forall (fun c => f c = true) l ->
  match rest with d :: _ => f d = false | [] => True end ->
  takewhile f (l ++ rest) = l.
Proof.
  intros Hl Hr. induction Hl as [|c t Hc Ht IH].
  - destruct rest as [|d r]; [reflexivity|]. cbn [app takewhile]. now rewrite Hr.
  - cbn [app takewhile]. now rewrite Hc, IH.
Qed.

(* a description is empty or starts with a blank *)
Definition desc_ok (d : list ascii) : Prop :=
  no_nl d /\ match d with c :: _ => is_space c = true | [] => True end.

Lemma header_name_line name desc : nonspace name -> desc_ok desc ->
  header_name (GT :: name ++ desc) = unchars name.
Proof.
  intros Hn [_ Hd]. unfold header_name. cbn [tl]. f_equal. apply takewhile_stop.
  - eapply Forall_impl; [|exact Hn]. cbn. intros c ->. reflexivity.
  - destruct desc as [|c t]; [exact I|]. now rewrite Hd.
Qed.

Lemma blanks_not_header b : blanks b -> is_header b = false /\ rstrip b = [] /\ no_nl b.
Proof.
  intros Hb. split; [|split].
  - destruct Hb as [|c t (Hc & _) _]; [reflexivity|]. cbn [is_header].
    apply Ascii.eqb_neq. intros ->. discriminate Hc.
  - now apply (rstrip_line [] b (Forall_nil _)).
  - now apply blanks_no_nl.
Qed.

(* ---- (4) well-formed FASTA text ------------------------------------------------------------- *)

(* a sequence line: non-blank characters (not starting with ">"), then optional blanks; the
   characters may be missing altogether -- a blank line *)
Definition sline : Type := (list ascii * list ascii)%type.
Definition sline_ok (bl : sline) : Prop :=
  nonspace (fst bl) /\ hd "A"%char (fst bl) <> GT /\ blanks (snd bl).
Definition sline_text (bl : sline) : list ascii := fst bl ++ snd bl.

(* a record: name, description, sequence lines *)
Definition wrec : Type := (list ascii * list ascii * list sline)%type.
Definition w_name (r : wrec) := fst (fst r).
Definition w_desc (r : wrec) := snd (fst r).
Definition w_lines (r : wrec) := snd r.
Definition wrec_ok (r : wrec) : Prop :=
  nonspace (w_name r) /\ desc_ok (w_desc r) /\ Forall sline_ok (w_lines r).

Definition w_header (r : wrec) : list ascii := GT :: w_name r ++ w_desc r.
Definition w_phys (r : wrec) : list (list ascii) := w_header r :: map sline_text (w_lines r).
(* the record's sequence: its lines' characters, in order *)
Definition w_seq (r : wrec) : list ascii := concat (map fst (w_lines r)).
Definition w_expected (r : wrec) : list tagged := tag (unchars (w_name r)) (runs isN_ascii (w_seq r)).

Lemma sline_not_header bl : sline_ok bl -> is_header (sline_text bl) = false.
Proof.
  intros (_ & Hgt & Ht). unfold sline_text. destruct (fst bl) as [|c t].
  - cbn [app]. now apply blanks_not_header.
  - cbn [app is_header hd] in *. now apply Ascii.eqb_neq.
Qed.

Lemma sline_no_nl bl : sline_ok bl -> no_nl (sline_text bl).
Proof. intros (Hb & _ & Ht). apply no_nl_app; [now apply nonspace_no_nl|now apply blanks_no_nl]. Qed.

Lemma w_header_no_nl r : wrec_ok r -> no_nl (w_header r).
Proof.
  intros (Hn & [Hd _] & _).
  unfold w_header. constructor; [split; discriminate|].
  apply no_nl_app; [now apply nonspace_no_nl|exact Hd].
Qed.

Lemma map_rstrip_slines ls : Forall sline_ok ls -> map rstrip (map sline_text ls) = map fst ls.
Proof.
  induction 1 as [|bl t (Hb & _ & Ht) _ IH]; [reflexivity|].
  cbn [map]. f_equal; [now apply rstrip_line|exact IH].
Qed.

Lemma wrec_runs r : wrec_ok r -> rec_runs (w_header r, map sline_text (w_lines r)) = w_expected r.
Proof.
  intros (Hn & Hd & Hl). unfold rec_runs, w_expected, w_seq. cbn [fst snd].
  unfold w_header. rewrite header_name_line by assumption.
  now rewrite map_rstrip_slines.
Qed.

Lemma wrec_shape r : wrec_ok r -> rec_shape (w_header r, map sline_text (w_lines r)).
Proof.
  intros (_ & _ & Hl). split; [reflexivity|]. cbn [snd].
  apply Forall_map. eapply Forall_impl; [|exact Hl]. apply sline_not_header.
Qed.

Lemma flat_map_wrec recs : Forall wrec_ok recs ->
  flat_map rec_runs (map (fun r => (w_header r, map sline_text (w_lines r))) recs) =
  flat_map w_expected recs.
Proof.
  induction 1 as [|r t Hr _ IH]; [reflexivity|].
  cbn [map flat_map]. rewrite (wrec_runs r Hr). now rewrite IH.
Qed.

Lemma wrecs_lines pre recs : Forall blanks pre -> Forall wrec_ok recs ->
  gr_lines None (pre ++ concat (map w_phys recs)) = Some (flat_map w_expected recs).
Proof.
  intros Hpre Hok.
  rewrite gr_lines_pre.
  2:{ eapply Forall_impl; [|exact Hpre]. intros b Hb. destruct (blanks_not_header b Hb) as (H1 & H2 & _). auto. }
  assert (E : concat (map w_phys recs) =
              concat (map rec_lines (map (fun r => (w_header r, map sline_text (w_lines r))) recs))).
  { rewrite map_map. reflexivity. }
  rewrite E, gr_lines_records.
  - cbn [flush app]. f_equal. now apply flat_map_wrec.
  - apply Forall_map. eapply Forall_impl; [|exact Hok]. apply wrec_shape.
Qed.

Lemma wrecs_phys_ok pre recs (pl : list (list ascii * list ascii)) :
  Forall blanks pre -> Forall wrec_ok recs -> map fst pl = pre ++ concat (map w_phys recs) ->
  Forall (fun le => is_eol (snd le)) pl -> Forall phys_ok pl.
Proof.
  intros Hpre Hok Hl He.
  assert (Hall : Forall no_nl (pre ++ concat (map w_phys recs))).
  { apply Forall_app. split.
    - eapply Forall_impl; [|exact Hpre]. apply blanks_no_nl.
    - apply Forall_concat. apply Forall_map. eapply Forall_impl; [|exact Hok]. intros r Hr.
      unfold w_phys. constructor; [now apply w_header_no_nl|].
      apply Forall_map. destruct Hr as (_ & _ & Hls). eapply Forall_impl; [|exact Hls]. apply sline_no_nl. }
  rewrite <- Hl in Hall. clear Hl.
  induction pl as [|le t IH]; [constructor|].
  inversion He as [|? ? Hle He']; subst. cbn [map] in Hall. inversion Hall as [|? ? Hn1 Hall']; subst.
  constructor; [split; assumption|auto].
Qed.

(* every physical line carries its own terminator (LF, CRLF or CR); blank lines [pre] may
   precede the first header, and blank lines may occur anywhere in the records *)
Theorem get_regions_text_wellformed pre recs (pl : list (list ascii * list ascii)) :
  Forall blanks pre -> Forall wrec_ok recs -> map fst pl = pre ++ concat (map w_phys recs) ->
  Forall (fun le => is_eol (snd le)) pl -> eols_ok pl ->
  get_regions_text (unchars (join pl)) = Some (flat_map w_expected recs).
Proof.
  intros Hpre Hok Hl He Hc. unfold get_regions_text, chars, unchars.
  rewrite list_ascii_of_string_of_list_ascii.
  rewrite <- (app_nil_r (join pl)), lines_of_join; [|now apply (wrecs_phys_ok pre recs)|exact Hc|exact I].
  cbn [lines_of]. rewrite app_nil_r, Hl. now apply wrecs_lines.
Qed.

(* ... and the file need not end in a newline: the last line's terminator may be missing *)
Theorem get_regions_text_no_final_newline pre recs (pl : list (list ascii * list ascii)) (last : list ascii) :
  Forall blanks pre -> Forall wrec_ok recs -> map fst pl ++ [last] = pre ++ concat (map w_phys recs) ->
  last <> [] -> Forall (fun le => is_eol (snd le)) pl -> eols_ok pl ->
  get_regions_text (unchars (join pl ++ last)) = Some (flat_map w_expected recs).
Proof.
  intros Hpre Hok Hl Hne He Hc. unfold get_regions_text, chars, unchars.
  rewrite list_ascii_of_string_of_list_ascii.
  assert (Hall : Forall phys_ok (pl ++ [(last, [LF])])).
  { apply (wrecs_phys_ok pre recs); auto.
    - now rewrite map_app.
    - apply Forall_app. split; [exact He|]. constructor; [left; reflexivity|constructor]. }
  apply Forall_app in Hall as [Hpl Hlast]. inversion Hlast as [|? ? (Hn & _) _]; subst. cbn [fst] in *.
  assert (Hf : no_lf_first last).
  { rewrite <- (app_nil_r last). now apply no_lf_first_line. }
  rewrite (lines_of_join pl last Hpl Hc Hf).
  rewrite lines_of_last by assumption. rewrite Hl. now apply wrecs_lines.
Qed.
