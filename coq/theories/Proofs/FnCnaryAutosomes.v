(* C15 function-body tie of CopyNumArray.autosomes (cnvlib/cnary.py), the WHOLE override, translated on every run
   (Gen/FnCnaryAutosomes.v) and read per row:

       if diploid_parx_genome is not None:
           if also is None: also = self.parx_filter(diploid_parx_genome)
           elif isinstance(also, pd.Series): also |= self.parx_filter(diploid_parx_genome)
           else: raise NotImplementedError(...)
       return super().autosomes(also=also)

   Model/Center.v's autosomes (as center_all and compare_sex_chromosomes call it: `also` not given) is the filter by the
   generated override, whose `super().autosomes` is the generated base-class function of Gen/FnGaryAutosomes.v. *)
From CNV Require Import Base.Prelude Base.Str Base.QNum Gen.CenterDefaults Model.Center
  Gen.FnGaryAutosomes Proofs.FnGaryAutosomes Gen.FnCnaryAutosomes.

Definition has_build_a (build : option parb) : bool := match build with Some _ => true | None => false end.
Definition in_parx_a (t : list bin) (build : option parb) (b : bin) : bool :=
  match build with Some p => parx_filter t p b | None => false end.

(* the row is kept: the override, called without `also`, around the base-class row function *)
Definition cnary_keep (t : list bin) (build : option parb) (na aa : bool) (b : bin) : bool :=
  fn_cnary_autosomes (has_build_a build) None (in_parx_a t build b) true
    (fun also => fn_gary_autosomes (is_auto_bin b) (existsb is_auto_bin t) also true na aa).

Theorem fn_cnary_autosomes_eq t build na aa :
  autosomes t build = filter (cnary_keep t build na aa) t.
Proof.
  rewrite autosomes_as_gary, (fn_gary_autosomes_eq _ _ na aa).
  apply filter_ext. intros b. unfold gary_keep, cnary_keep, fn_cnary_autosomes, has_build_a, in_parx_a.
  destruct build; reflexivity.
Qed.

(* an `also` mask given by the caller is OR-ed with the PAR-X mask when a build is given, passed on as it is otherwise *)
Theorem fn_cnary_autosomes_also has_b also_bit parx base :
  fn_cnary_autosomes has_b (Some also_bit) parx true base =
  base (Some (if has_b then also_bit || parx else also_bit)).
Proof. unfold fn_cnary_autosomes. destruct has_b; reflexivity. Qed.
