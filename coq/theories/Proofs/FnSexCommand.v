(* C15 function-body tie of commands.do_sex (cnvlib/commands.py), translated on every run (Gen/FnSexCommand.v): the nested
   functions strsign and guess_and_format, whole, and the column names.

       def strsign(num):                       def guess_and_format(cna):
           if num > 0: return "+%.3g" % num        is_xy, stats = cna.compare_sex_chromosomes(is_haploid_x_reference, diploid_parx_genome)
           return "%.3g" % num                     return (cna.meta["filename"] or cna.sample_id, "Male" if is_xy else "Female",
                                                           strsign(stats["chrx_ratio"]) if stats else "NA",
                                                           strsign(stats["chry_ratio"]) if stats else "NA")

   Model/Sex.v's do_sex_row is the generated guess_and_format on the model's decision: the label is "Male" exactly for
   a male call (no call reads as "Female"), the ratios are printed exactly when there are statistics and "NA" otherwise;
   strsign_plus is the generated strsign's choice of the "+" format (a NaN ratio takes the plain one). *)
From CNV Require Import Base.Prelude Base.Str Base.QNum Gen.CenterDefaults Model.Center Model.Sex Gen.FnSexCommand.
Local Open Scope Q_scope.

Theorem fn_strsign_eq q plus plain :
  fn_strsign (Some q) plus plain = (if strsign_plus q then plus else plain) /\
  fn_strsign None plus plain = plain.
Proof. unfold fn_strsign, strsign_plus, qlt_b. split; reflexivity. Qed.

(* the statistics dictionary of compare_sex_chromosomes, read as the list of its keys: empty when there is no call *)
Definition stats_keys (has_stats : bool) : list string :=
  if has_stats then ["chrx_ratio"; "chry_ratio"; "combined_score"; "chrx_male_lr"; "chry_male_lr"]%string else [].

Definition has_ratios (r : string * option (Q * option Q)) : bool :=
  match snd r with Some _ => true | None => false end.

Theorem fn_guess_and_format_eq gstat hap build t sample x_text y_text :
  let r := do_sex_row gstat hap build t in
  fn_guess_and_format (sex_decision gstat hap build t) (stats_keys (has_ratios r)) sample x_text y_text =
  (sample, fst r, if has_ratios r then x_text else "NA"%string, if has_ratios r then y_text else "NA"%string).
Proof.
  cbv zeta. unfold do_sex_row, sex_decision, fn_guess_and_format, has_ratios, stats_keys.
  destruct (compare_sex gstat hap build t) as [[is_xy st]|]; cbn [fst snd].
  - destruct is_xy; reflexivity.
  - reflexivity.
Qed.

Theorem fn_do_sex_columns_eq : do_sex_header = fn_do_sex_columns.
Proof. reflexivity. Qed.
