(* C06 loop tie of merge._flatten_tuples / _flatten_tuples_split, the generator's body:

       rows = [kr[1] for kr in keyed_rows]
       first_row = rows[0]
       if len(rows) == 1:
           yield first_row
       else:
           extra_cols = [x for x in first_row._fields[3:] if x in combine]
           breaks = sorted(set(itertools.chain( *[(r.start, r.end) for r in rows])))
           for bp_start, bp_end in zip(breaks[:-1], breaks[1:]):
               rows_in_play = [row for row in rows if row.start <= bp_start and row.end >= bp_end]
               extra_fields = {key: combine[key]([getattr(r, key) for r in rows_in_play]) for key in extra_cols}
               yield first_row._replace(start=bp_start, end=bp_end, **extra_fields)

   regenerated from the Python source on every run as Gen/FnIvFlatten.v (fn_flatten_tuples and its twin:
   the (start, end) of every row yielded, in order; `breaks` is an integer list, the comprehensions are
   opaque values; both declared fields of the yielded record are given explicitly, so a mapping that
   holds one of them is a TypeError -- a recorded error path).  Here: the coordinates of Model/Intervals.v
   flatten_group -- a single row as it is, otherwise one piece per pair of consecutive breakpoints -- ARE
   what the generated body yields on the model's breakpoints (the other fields of a piece are combined
   from the rows in play: Proofs/FnIvInPlay.v). *)
From CNV Require Import Base.Prelude Model.IvRow Model.Intervals.
From CNV Require Gen.FnIvFlatten.

Local Open Scope Z_scope.

Lemma pairs_zip (l : list Z) : pairs l = combine (removelast l) (tl l).
Proof.
  destruct l as [|a t]; [reflexivity|]. cbn [tl]. revert a.
  induction t as [|b t' IH]; intros a; [reflexivity|].
  change (pairs (a :: b :: t')) with ((a, b) :: pairs (b :: t')).
  change (removelast (a :: b :: t')) with (a :: removelast (b :: t')).
  cbn [combine]. f_equal. apply IH.
Qed.

Lemma flat_map_singletons (l : list (Z * Z)) : flat_map (fun '(a, b) => [(a, b)]) l = l.
Proof. induction l as [|[a b] t IH]; [reflexivity|]. cbn [flat_map app]. f_equal. exact IH. Qed.

Lemma source_flatten_tuples (d1 n d2 fs fe d3 : Z) (bks : list Z) (d4 d5 : Z) :
  FnIvFlatten.fn_flatten_tuples d1 n d2 fs fe d3 bks d4 d5 =
    (if n =? 1 then [(fs, fe)] else combine (removelast bks) (tl bks)) /\
  FnIvFlatten.fn_flatten_tuples_split d1 n d2 fs fe d3 bks d4 d5 =
    (if n =? 1 then [(fs, fe)] else combine (removelast bks) (tl bks)).
Proof.
  unfold FnIvFlatten.fn_flatten_tuples, FnIvFlatten.fn_flatten_tuples_split. cbv zeta.
  destruct (n =? 1); [split; reflexivity|]. cbn [app].
  split; apply flat_map_singletons.
Qed.

Section FlattenTie.
Context {A : Type} (comb : A -> list A -> A).
Notation row := (@row A).

Definition coords (l : list row) : list (Z * Z) := map (fun r => (lo r, hi r)) l.

Theorem source_flatten_group (d1 d2 d3 d4 d5 : Z) (f : row) (rest : list row) :
  let g := f :: rest in
  coords (flatten_group comb g) =
    FnIvFlatten.fn_flatten_tuples d1 (Z.of_nat (length g)) d2 (lo f) (hi f) d3 (breaks g) d4 d5 /\
  coords (flatten_group comb g) =
    FnIvFlatten.fn_flatten_tuples_split d1 (Z.of_nat (length g)) d2 (lo f) (hi f) d3 (breaks g) d4 d5.
Proof.
  cbv zeta.
  destruct (source_flatten_tuples d1 (Z.of_nat (length (f :: rest))) d2 (lo f) (hi f) d3 (breaks (f :: rest)) d4 d5)
    as [E1 E2].
  rewrite E1, E2. clear E1 E2.
  assert (H : coords (flatten_group comb (f :: rest)) =
              if Z.of_nat (length (f :: rest)) =? 1 then [(lo f, hi f)]
              else combine (removelast (breaks (f :: rest))) (tl (breaks (f :: rest)))).
  { destruct rest as [|x t]; [reflexivity|].
    replace (Z.of_nat (length (f :: x :: t)) =? 1) with false by (cbn [length]; lia).
    rewrite <- pairs_zip. unfold flatten_group, coords. rewrite map_map.
    induction (pairs (breaks (f :: x :: t))) as [|[a b] l IH]; [reflexivity|].
    cbn [map fst snd]. f_equal. exact IH. }
  split; exact H.
Qed.

End FlattenTie.
