(* C12 source tie of the option flow of target.do_target, the whole body [loop ties e3]:

       tgt_arr = bait_arr.copy()
       tgt_arr = tgt_arr[tgt_arr.start != tgt_arr.end]
       if do_split:
           tgt_arr = tgt_arr.subdivide(avg_size, 0)
       if annotate:
           annotation = tabio.read_auto(annotate)
           antitarget.compare_chrom_names(tgt_arr, annotation)
           if len(tgt_arr):
               tgt_arr["gene"] = list(annotation.into_ranges(tgt_arr, "gene", "-"))
       if do_short_names:
           tgt_arr["gene"] = list(shorten_labels(tgt_arr["gene"]))
       return tgt_arr

   regenerated from the Python source on every run as Gen/FnTargetFlow.v (fn_do_target: the id of the returned table, the
   id of its gene column, and whether the compare_chrom_names statement raised).  Tables and label columns are opaque
   ids, the row filter of the second statement is the opaque table `nonzero_id` (its mask is tied by
   C12_source_drop_zero), functions and methods are function-typed inputs on ids, `if annotate:` reads id 0 as None,
   and the gene column read before any store (`genes_id`) is the returned table's own.

   Here: under EVERY reading of ids as tables / label lists in which the function inputs are the model's operations,
   the generated body IS Model/Target.v do_target_full: split first (minimum size 0), then the annotation (name check,
   nothing written into an empty table, into_ranges on the "gene" column with default "-"), then the shortening --
   applied to the labels the annotation left. *)
From CNV Require Import Base.Prelude Base.Str Model.IvRow Model.Intervals Model.Target.
From CNV Require Gen.FnTargetFlow Gen.BinsDefaults.

Local Open Scope Z_scope.

Lemma set_genes_own (t : list grow) : set_genes t (map gene t) = t.
Proof.
  unfold set_genes. induction t as [|r t IH]; [reflexivity|].
  cbn [map combine]. rewrite IH. f_equal.
  destruct r as [[l h] [c g]]. reflexivity.
Qed.

Definition dflt (v : option string) : string :=
  match v with Some g => g | None => Gen.BinsDefaults.annotate_default end.

Section Reading.
  Variable tbl : Z -> list grow.
  Variable col : Z -> list string.
  Variable pick : list string -> string.
  Variable cut : Z -> Z -> Z -> Z.
  Variables copy_fn read_fn len_fn list_fn shorten_fn : Z -> Z.
  Variable subdivide_fn : Z -> Q -> Z -> Z.
  Variable names_raise : Z -> Z -> bool.
  Variable into_fn : Z -> Z -> string -> string -> Z.

  Record target_reading : Prop := {
    rt_subdivide : forall a avg mn, tbl (subdivide_fn a avg mn) = gsubdivide avg mn cut (tbl a);
    rt_names : forall a b, names_raise a b = match compare_chrom_names (tbl a) (tbl b) with None => true | Some _ => false end;
    rt_len : forall a, len_fn a = Z.of_nat (length (tbl a));
    rt_into : forall a t vals, annot_values (tbl a) (tbl t) = Some vals ->
      col (list_fn (into_fn a t "gene" Gen.BinsDefaults.annotate_default)) = map dflt vals;
    rt_shorten : forall g, col (list_fn (shorten_fn g)) = shorten_labels_pick pick (col g) }.

  (* the `annotate` argument an id stands for: id 0 is None, any other id the file tabio.read_auto reads *)
  Definition annot_of (id : Z) : option (list grow) := if id =? 0 then None else Some (tbl (read_fn id)).

  Definition run_do_target (bait annot_id : Z) (short split : bool) (avg : Q) (nonzero genes : Z) : Z * Z * bool :=
    Gen.FnTargetFlow.fn_do_target bait annot_id short split avg copy_fn nonzero subdivide_fn read_fn names_raise len_fn
      list_fn into_fn shorten_fn genes.

  (* what the column assignment / into_ranges itself may raise (outside the translated statements) *)
  Definition into_raises (annot : option (list grow)) (t : list grow) : Prop :=
    exists a, annot = Some a /\ t <> [] /\
      match annot_values a t with Some vals => Nat.eqb (length vals) (length t) = false | None => True end.

  Theorem source_do_target (bait annot_id : Z) (short split : bool) (avg : Q) (nonzero genes : Z) :
    target_reading -> tbl nonzero = drop_zero_width (tbl bait) ->
    let '(out, g, raised) := run_do_target bait annot_id short split avg nonzero genes in
    col genes = map gene (tbl out) ->
    tbl out = do_target split avg cut (tbl bait) /\
    match do_target_full pick split avg cut (annot_of annot_id) short (tbl bait) with
    | AnnotRows rows => raised = false /\ rows = set_genes (tbl out) (col g)
    | AnnotValueError => raised = true \/ into_raises (annot_of annot_id) (tbl out)
    end.
  Proof.
    intros R Hz. unfold run_do_target, Gen.FnTargetFlow.fn_do_target.
    set (T := if split then subdivide_fn nonzero avg 0 else nonzero).
    assert (HT : tbl T = do_target split avg cut (tbl bait)).
    { unfold T, do_target. destruct split; [rewrite (rt_subdivide R)|]; rewrite Hz; reflexivity. }
    unfold do_target_full, annot_of. rewrite <- HT.
    destruct (annot_id =? 0) eqn:Ea; cbn [negb].
    - (* no annotation *)
      destruct short; intros Hg; (split; [reflexivity|]); (split; [reflexivity|]).
      + rewrite (rt_shorten R), Hg. reflexivity.
      + rewrite Hg. symmetry. apply set_genes_own.
    - (* annotation *)
      rewrite orb_false_l, (rt_names R), (rt_len R). unfold Target.annotate.
      destruct (compare_chrom_names (tbl T) (tbl (read_fn annot_id))) as [nm|] eqn:Ec.
      2:{ destruct short; intros _; (split; [reflexivity|]); left; reflexivity. }
      destruct (tbl T) as [|r0 rest] eqn:Et.
      + (* empty table: nothing is written *)
        cbn [length Z.of_nat Z.eqb negb].
        destruct short; intros Hg; (split; [reflexivity|]); (split; [reflexivity|]); reflexivity.
      + assert (Hl : negb (Z.of_nat (length (r0 :: rest)) =? 0) = true) by (cbn [length]; rewrite Nat2Z.inj_succ; apply negb_true_iff, Z.eqb_neq; lia).
        rewrite Hl. rewrite <- Et in *.
        destruct (annot_values (tbl (read_fn annot_id)) (tbl T)) as [vals|] eqn:Ev.
        2:{ destruct short; intros _; (split; [reflexivity|]); right; exists (tbl (read_fn annot_id));
            (split; [reflexivity|]); (split; [rewrite Et; discriminate|]); rewrite Ev; exact I. }
        destruct (Nat.eqb (length vals) (length (tbl T))) eqn:En.
        2:{ destruct short; intros _; (split; [reflexivity|]); right; exists (tbl (read_fn annot_id));
            (split; [reflexivity|]); (split; [rewrite Et; discriminate|]); rewrite Ev; exact En. }
        pose proof (rt_into R _ _ _ Ev) as Hi. cbv delta [Gen.BinsDefaults.annotate_default] in Hi. fold dflt.
        assert (Hgene : map gene (set_genes (tbl T) (map dflt vals)) = map dflt vals).
        { apply Nat.eqb_eq in En. unfold set_genes. rewrite map_map. cbn [gene pay snd].
          rewrite <- (map_length dflt) in En. revert En. generalize (map dflt vals) as ns. generalize (tbl T) as t.
          induction t as [|r t IH]; intros [|n ns] H; cbn in *; try discriminate; [reflexivity|].
          f_equal. apply IH. lia. }
        assert (Hsg : forall ns, set_genes (set_genes (tbl T) (map dflt vals)) ns = set_genes (tbl T) ns).
        { apply Nat.eqb_eq in En. rewrite <- (map_length dflt) in En. revert En.
          generalize (map dflt vals) as ms. generalize (tbl T) as t. unfold set_genes.
          induction t as [|r t IH]; intros [|m ms] H ns; cbn in *; try discriminate; [reflexivity|].
          destruct ns as [|n ns]; [reflexivity|]. cbn. f_equal. apply IH. lia. }
        destruct short; intros _; (split; [reflexivity|]); (split; [reflexivity|]).
        * rewrite (rt_shorten R), Hi, Hgene, Hsg. reflexivity.
        * rewrite Hi. reflexivity.
  Qed.
End Reading.
