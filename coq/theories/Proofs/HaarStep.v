(* C11: a noiseless step (a for i < t, b <> a after, at least h bins on each side) --
   the Haar convolution is the tent (b - a) * max(0, h - |k - t|) over the scale, at every
   half-width h; FindLocalPeaks returns exactly [t]; the single-peak FDR threshold is 0 and
   keeps it; unification of [t] with [t] is [t]; SegmentByPeaks gives two segments with
   means exactly a and b and sizes t and n - t.  No bound on n. *)
From Coq Require Import QArith.Qabs.
From CNV Require Import Base.Prelude Model.Haar Spec.Haar Proofs.HaarConv Proofs.HaarFlat
  Proofs.HaarUnify Proofs.HaarPeaks Proofs.HaarStepLib Proofs.HaarMeans.
From Coq Require Import Lqa.

Local Open Scope Q_scope.

(* ---------- a signal that is a sum of unit steps under the mirror padding ---------- *)

(* if the padded signal is c0 + d1 * [t1 <= j] + d2 * [t2 <= j] on the 2h bins around k,
   the Haar window at k is d1 * tent(t1) + d2 * tent(t2) *)
Lemma window_two_usteps sg h k c0 d1 t1 d2 t2 :
  (0 <= h)%Z ->
  (forall j, (k - h <= j < k + h)%Z -> padded sg j == c0 + d1 * ustep t1 j + d2 * ustep t2 j) ->
  haar_window sg h k == d1 * tentQ h t1 k + d2 * tentQ h t2 k.
Proof.
  intros Hh Hp. unfold haar_window.
  assert (S : forall a, (k - h <= a)%Z -> (a + h <= k + h)%Z ->
            wsum (padded sg) a (Z.to_nat h) ==
            inject_Z h * c0 + d1 * wsum (ustep t1) a (Z.to_nat h) + d2 * wsum (ustep t2) a (Z.to_nat h)).
  { intros a Ha1 Ha2.
    rewrite (wsum_ext (padded sg) (fun j => (c0 + d1 * ustep t1 j) + d2 * ustep t2 j) a).
    - rewrite wsum_plus, wsum_plus, !wsum_scale.
      rewrite (wsum_const (fun _ => c0) a (Z.to_nat h) c0) by (intros; reflexivity).
      rewrite Z2Nat.id by lia. reflexivity.
    - intros j Hj. apply Hp. lia. }
  rewrite (S k), (S (k - h)%Z) by lia.
  rewrite <- (window_ustep t1 k h Hh), <- (window_ustep t2 k h Hh). ring.
Qed.

(* ---------- the step signal ---------- *)

Lemma step_signal_length a b t n : (t <= n)%nat -> length (step_signal a b t n) = n.
Proof. intros H. unfold step_signal. rewrite app_length, !repeat_length. lia. Qed.

Lemma nth_repeat_lt (x : Q) m i : (i < m)%nat -> nth i (repeat x m) 0 = x.
Proof. revert i; induction m as [|m IH]; intros i H; [lia|]. destruct i; cbn [repeat nth]; [reflexivity|apply IH; lia]. Qed.

Lemma nth_step a b t n i :
  (i < n)%nat -> nth i (step_signal a b t n) 0 = if (i <? t)%nat then a else b.
Proof.
  intros Hi. unfold step_signal. destruct (i <? t)%nat eqn:E.
  - apply Nat.ltb_lt in E. rewrite app_nth1 by (rewrite repeat_length; exact E). apply nth_repeat_lt, E.
  - apply Nat.ltb_ge in E. rewrite app_nth2 by (rewrite repeat_length; exact E).
    rewrite repeat_length. apply nth_repeat_lt. lia.
Qed.

Lemma padded_step a b t n h j :
  (0 <= h <= Z.of_nat t)%Z -> (Z.of_nat t + h <= Z.of_nat n)%Z -> (- h <= j < Z.of_nat n + h)%Z ->
  padded (step_signal a b t n) j == a + (b - a) * ustep (Z.of_nat t) j + 0 * ustep 0 j.
Proof.
  intros H1 H2 Hj. unfold padded. rewrite step_signal_length by lia.
  assert (Hm : (0 <= mirror (Z.of_nat n) j < Z.of_nat n)%Z).
  { unfold mirror. destruct (j <? 0)%Z eqn:M1; [lia|]. destruct (Z.of_nat n <=? j)%Z eqn:M2; lia. }
  rewrite nth_step by lia. unfold ustep.
  assert (E : (Z.to_nat (mirror (Z.of_nat n) j) <? t)%nat = negb (Z.of_nat t <=? j)%Z).
  { unfold mirror in *. destruct (j <? 0)%Z eqn:M1; [|destruct (Z.of_nat n <=? j)%Z eqn:M2];
      (destruct (Z.of_nat t <=? j)%Z eqn:E1; cbn [negb]; [apply Nat.ltb_ge|apply Nat.ltb_lt]; lia). }
  rewrite E. destruct (Z.of_nat t <=? j)%Z; cbn [negb]; ring.
Qed.

(* the shape of the Haar window on a step: a linear ramp up to t and down after *)
Lemma step_window a b t n h k :
  (1 <= h <= Z.of_nat t)%Z -> (Z.of_nat t + h <= Z.of_nat n)%Z -> (0 <= k < Z.of_nat n)%Z ->
  haar_window (step_signal a b t n) h k == (b - a) * tentQ h (Z.of_nat t) k.
Proof.
  intros H1 H2 Hk.
  rewrite (window_two_usteps (step_signal a b t n) h k a (b - a) (Z.of_nat t) 0 0%Z).
  - ring.
  - lia.
  - intros j Hj. apply (padded_step a b t n h); lia.
Qed.

(* ---------- uniform weights: the weighted window is the plain window over h ---------- *)

Lemma all_eq_repeat (c : Q) n : all_eq c (repeat c n).
Proof. induction n; cbn; constructor; [reflexivity|assumption]. Qed.

Lemma uniform_window_w sg c h k :
  0 < c -> (1 <= h <= Z.of_nat (length sg))%Z -> (0 <= k < Z.of_nat (length sg))%Z ->
  haar_window_w sg (repeat c (length sg)) h k == haar_window sg h k / inject_Z h.
Proof.
  intros Hc Hh Hk. unfold haar_window_w, haar_window.
  set (w := repeat c (length sg)).
  assert (Hlw : length w = length sg) by apply repeat_length.
  assert (Pw : forall j, (k - h <= j < k + h)%Z -> padded w j == c).
  { intros j Hj. apply (padded_Forall (fun x => x == c) w h k j); try (rewrite Hlw; lia); [|exact Hj].
    apply all_eq_repeat. }
  assert (S1 : forall a, (k - h <= a)%Z -> (a + h <= k + h)%Z ->
            wsum (padded_prod sg w) a (Z.to_nat h) == c * wsum (padded sg) a (Z.to_nat h)).
  { intros a Ha1 Ha2. rewrite <- wsum_scale. apply wsum_ext. intros j Hj. unfold padded_prod.
    rewrite Pw by lia. ring. }
  assert (S2 : forall a, (k - h <= a)%Z -> (a + h <= k + h)%Z ->
            wsum (padded w) a (Z.to_nat h) == inject_Z h * c).
  { intros a Ha1 Ha2. rewrite (wsum_const (padded w) a (Z.to_nat h) c) by (intros j Hj; apply Pw; lia).
    rewrite Z2Nat.id by lia. reflexivity. }
  rewrite (S1 k), (S1 (k - h)%Z), (S2 k), (S2 (k - h)%Z) by lia.
  assert (0 < inject_Z h) by (apply inject_Z_pos; lia).
  field. split; lra.
Qed.

(* ---------- the convolution of a step at one half-width ---------- *)

Lemma step_amp_nonzero scale wt h d : ~ scale == 0 -> (1 <= h)%Z -> ~ d == 0 -> ~ step_amp scale wt h d == 0.
Proof.
  intros Hs Hh Hd. assert (0 < inject_Z h) by (apply inject_Z_pos; lia).
  unfold step_amp. destruct wt; intros C; apply Hd.
  - assert (E : d == (scale * d / inject_Z h) * inject_Z h / scale) by (field; split; lra).
    rewrite E, C. field. exact Hs.
  - assert (E : d == (d / scale) * scale) by (field; exact Hs).
    rewrite E, C. ring.
Qed.

Lemma tent_at_0 h t : (h <= t)%Z -> tentQ h t 0 = 0.
Proof. intros H. apply tent_zero. lia. Qed.

Lemma step_conv a b t n wt h scale k :
  uniform_weights n wt ->
  (1 <= h <= Z.of_nat t)%Z -> (Z.of_nat t + h <= Z.of_nat n)%Z -> (0 <= k < Z.of_nat n)%Z ->
  qnth (haar_conv (step_signal a b t n) wt h scale) k
  == step_amp scale wt h (b - a) * tentQ h (Z.of_nat t) k.
Proof.
  intros Hw H1 H2 Hk.
  assert (Hlen : length (step_signal a b t n) = n) by (apply step_signal_length; lia).
  destruct wt as [w|]; cbn [step_amp].
  - destruct Hw as [c [Hc ->]].
    destruct (Z.eq_dec k 0) as [->|Hk0].
    + rewrite haar_conv_0. rewrite tent_at_0 by lia. ring.
    + rewrite haar_conv_w_closed by (rewrite ?repeat_length, ?Hlen; lia).
      pose proof (uniform_window_w (step_signal a b t n) c h k Hc) as U.
      rewrite Hlen in U. rewrite U by lia.
      rewrite step_window by lia.
      assert (0 < inject_Z h) by (apply inject_Z_pos; lia).
      field. lra.
  - rewrite haar_conv_u_closed by (rewrite Hlen; lia).
    rewrite step_window by lia. unfold Qdiv. ring.
Qed.

(* ---------- exactly one peak, exactly at t ---------- *)

(* a list that is a non-zero multiple of the tent centred at t has its only local peak at t *)
Lemma tent_list_peaks (l : list Q) f h t :
  (forall k, (0 <= k < Z.of_nat (length l))%Z -> qnth l k == f * tentQ h t k) ->
  ~ f == 0 -> (1 <= h)%Z -> (1 <= t <= Z.of_nat (length l) - 2)%Z ->
  find_local_peaks l = [t].
Proof.
  intros HF Hf Hh Ht.
  destruct (peaks_sorted l) as [S _].
  apply ssorted_ext; [exact S|repeat constructor|].
  intros x.
  rewrite (find_local_peaks_mem l (fun k => f * tentQ h t k) HF).
  - split.
    + intros [Hx Hp]. destruct (Z.eq_dec x t) as [->|Hne]; [left; reflexivity|].
      exfalso. exact (tent_not_peak f h t x Hne Hp).
    + intros [<-|[]]. split; [exact Ht|]. apply tent_peak; assumption.
  - intros k Hk. destruct (Z.eq_dec k t) as [->|Hne].
    + right. apply tent_peak; assumption.
    + left. apply tent_quiet; assumption.
Qed.

(* |f * tent| is strictly largest at t *)
Lemma tent_abs_max f h t k : ~ f == 0 -> (1 <= h)%Z -> k <> t -> Qabs (f * tentQ h t k) < Qabs (f * tentQ h t t).
Proof.
  intros Hf Hh Hk. rewrite !Qabs_Qmult.
  assert (0 < Qabs f).
  { apply Qabs_case; intros Hs.
    - destruct (Qlt_le_dec 0 f) as [L|L]; [exact L|exfalso; apply Hf; lra].
    - destruct (Qlt_le_dec f 0) as [L|L]; [lra|exfalso; apply Hf; lra]. }
  assert (E1 : Qabs (tentQ h t k) == tentQ h t k).
  { apply Qabs_pos. unfold tentQ. change 0 with (inject_Z 0). rewrite <- Zle_Qle. unfold tent. lia. }
  assert (E2 : Qabs (tentQ h t t) == tentQ h t t).
  { apply Qabs_pos. unfold tentQ. change 0 with (inject_Z 0). rewrite <- Zle_Qle. unfold tent. lia. }
  rewrite E1, E2.
  assert (tentQ h t k < tentQ h t t) by (apply inject_Z_lt; unfold tent; lia).
  nra.
Qed.

(* ---------- the single-peak FDR threshold and level unification ---------- *)

Lemma fdr_thres_single v q pv ab : fdr_thres [v] q pv ab = 0.
Proof. reflexivity. Qed.

Lemma Qle_bool_0_abs x : Qle_bool 0 (Qabs x) = true.
Proof. apply Qle_bool_iff, Qabs_nonneg. Qed.

Lemma unify_first t w : (0 <= t)%Z -> unify_levels [] [t] w = [t].
Proof.
  intros Ht. cbn [unify_levels unify_loop last_opt app drop_le].
  destruct (t <=? -1)%Z eqn:E; [lia|]. reflexivity.
Qed.

Lemma unify_same t w : (0 <= w)%Z -> unify_levels [t] [t] w = [t].
Proof.
  intros Hw. cbn [unify_levels unify_loop unify_take].
  destruct (t <? t - w)%Z eqn:E1; [lia|].
  destruct ((t - w <=? t) && (t <=? t + w))%Z eqn:E2; [|lia].
  reflexivity.
Qed.

(* ---------- the two segments ---------- *)

Lemma skipn_repeat_all {A} (x : A) m : skipn m (repeat x m) = [].
Proof. induction m; cbn [repeat skipn]; [reflexivity|assumption]. Qed.

Lemma firstn_repeat_all {A} (x : A) m : firstn m (repeat x m) = repeat x m.
Proof. induction m; cbn [repeat firstn]; [reflexivity|f_equal; assumption]. Qed.

Lemma slice_step_left a b t n : (t <= n)%nat -> slice (step_signal a b t n) 0 (Z.of_nat t) = repeat a t.
Proof.
  intros H. unfold slice, step_signal. rewrite Z.sub_0_r, Nat2Z.id. change (Z.to_nat 0) with 0%nat.
  cbn [skipn]. rewrite firstn_app, repeat_length, Nat.sub_diag. cbn [firstn]. rewrite app_nil_r.
  apply firstn_repeat_all.
Qed.

Lemma slice_step_right a b t n :
  (t <= n)%nat -> slice (step_signal a b t n) (Z.of_nat t) (Z.of_nat n) = repeat b (n - t).
Proof.
  intros H. unfold slice, step_signal. rewrite Nat2Z.id.
  rewrite skipn_app, repeat_length, Nat.sub_diag. cbn [skipn].
  rewrite skipn_repeat_all. cbn [app].
  replace (Z.to_nat (Z.of_nat n - Z.of_nat t)) with (n - t)%nat by lia.
  apply firstn_repeat_all.
Qed.

(* ---------- a segment whose bins are all c has mean c (any positive weights) ---------- *)

Lemma In_firstn {A} (x : A) m : forall l, In x (firstn m l) -> In x l.
Proof.
  induction m as [|m IH]; intros l H; [destruct H|]. destruct l as [|y t]; [destruct H|].
  cbn [firstn] in H. destruct H as [->|H]; [left; reflexivity|right; apply IH, H].
Qed.

Lemma In_skipn {A} (x : A) m : forall l, In x (skipn m l) -> In x l.
Proof.
  induction m as [|m IH]; intros l H; [exact H|]. destruct l as [|y t]; [destruct H|].
  cbn [skipn] in H. right. apply IH, H.
Qed.

Lemma all_pos_slice w s e : all_pos w -> all_pos (slice w s e).
Proof.
  intros H. unfold slice, all_pos in *. rewrite Forall_forall in *. intros x Hx.
  apply H. eapply In_skipn. eapply In_firstn. exact Hx.
Qed.

Lemma seg_mean_const d wt s e c :
  (0 <= s < e)%Z -> (e <= Z.of_nat (length d))%Z -> weights_ok d wt ->
  all_eq c (slice d s e) -> seg_mean d wt s e == c.
Proof.
  intros H1 H2 Hw Hc. unfold seg_mean.
  assert (Hl : length (slice d s e) = Z.to_nat (e - s)) by (apply slice_length; lia).
  assert (Hplain : Qred (qsum (slice d s e) / inject_Z (Zlength_nat (slice d s e))) == c).
  { rewrite Qred_correct, (qsum_all_eq c _ Hc). unfold Zlength_nat.
    assert (0 < inject_Z (Z.of_nat (length (slice d s e)))) by (apply inject_Z_pos; lia).
    field. lra. }
  destruct wt as [w|]; [|exact Hplain].
  destruct Hw as [Hlw Hp].
  assert (Hlw' : length (slice w s e) = length (slice d s e)) by (rewrite Hl; apply slice_length; lia).
  assert (Hq : 0 < qsum (slice w s e)).
  { apply qsum_pos; [apply all_pos_slice, Hp|]. intros C. rewrite C in Hlw'. cbn in Hlw'. lia. }
  rewrite (Qltb_lt _ _ Hq). rewrite Qred_correct, (qsum_qmul2_all_eq c _ _ Hc Hlw'). field. lra.
Qed.

(* ---------- the clean-step theorem ---------- *)

Lemma haar_levels_eq : haar_levels = [1; 2; 3; 4; 5]%Z.
Proof. reflexivity. Qed.

Lemma haar_levels_range l : In l haar_levels -> (1 <= l <= 5)%Z.
Proof. rewrite haar_levels_eq. intros H. repeat (destruct H as [<-|H]; [lia|]). destruct H. Qed.

Lemma haar_levels_nonempty : haar_levels <> [].
Proof. rewrite haar_levels_eq. discriminate. Qed.

Lemma pow2_le32 l : (1 <= l <= 5)%Z -> (2 <= 2 ^ l <= 32)%Z.
Proof.
  intros H. split.
  - change 2%Z with (2 ^ 1)%Z at 1. apply Z.pow_le_mono_r; lia.
  - change 32%Z with (2 ^ 5)%Z. apply Z.pow_le_mono_r; lia.
Qed.

Lemma uniform_weights_ok a b t n wt :
  (t <= n)%nat -> uniform_weights n wt -> weights_ok (step_signal a b t n) wt.
Proof.
  intros H Hw. destruct wt as [w|]; [|exact I]. destruct Hw as [c [Hc ->]].
  split; [rewrite repeat_length, step_signal_length by lia; reflexivity|].
  clear H. induction n; cbn [repeat]; constructor; assumption.
Qed.

Section Step.
Variable scale_u scale_w : Z -> Q.
Variable pvals : Z -> list Q.
Variable absorb : Z -> bool.
Hypothesis scale_u_nz : forall h, ~ scale_u h == 0.
Hypothesis scale_w_nz : forall h, ~ scale_w h == 0.

Definition level_scale (wt : option (list Q)) (h : Z) : Q :=
  match wt with None => scale_u h | Some _ => scale_w h end.

Lemma level_scale_nz wt h : ~ level_scale wt h == 0.
Proof. destruct wt; [apply scale_w_nz|apply scale_u_nz]. Qed.

Lemma step_conv_level a b t n wt h k :
  uniform_weights n wt ->
  (1 <= h <= Z.of_nat t)%Z -> (Z.of_nat t + h <= Z.of_nat n)%Z -> (0 <= k < Z.of_nat n)%Z ->
  qnth (conv_level scale_u scale_w (step_signal a b t n) wt h) k
  == step_amp (level_scale wt h) wt h (b - a) * tentQ h (Z.of_nat t) k.
Proof. intros. unfold conv_level. fold (level_scale wt h). apply step_conv; assumption. Qed.

Lemma step_level_peaks a b t n wt h :
  ~ a == b -> uniform_weights n wt ->
  (1 <= h <= Z.of_nat t)%Z -> (Z.of_nat t + h <= Z.of_nat n)%Z -> (Z.of_nat t + 2 <= Z.of_nat n)%Z ->
  find_local_peaks (conv_level scale_u scale_w (step_signal a b t n) wt h) = [Z.of_nat t].
Proof.
  intros Hab Hw H1 H2 H3.
  assert (Hlen : length (conv_level scale_u scale_w (step_signal a b t n) wt h) = n).
  { unfold conv_level. rewrite haar_conv_length. apply step_signal_length. lia. }
  apply (tent_list_peaks _ (step_amp (level_scale wt h) wt h (b - a)) h).
  - intros k Hk. rewrite Hlen in Hk. apply step_conv_level; assumption.
  - apply step_amp_nonzero; [apply level_scale_nz|lia|]. intros C. apply Hab. lra.
  - lia.
  - rewrite Hlen. lia.
Qed.

Lemma step_level_addon a b t n wt q level :
  ~ a == b -> uniform_weights n wt ->
  (1 <= 2 ^ level <= Z.of_nat t)%Z -> (Z.of_nat t + 2 ^ level <= Z.of_nat n)%Z ->
  (Z.of_nat t + 2 <= Z.of_nat n)%Z ->
  level_addon scale_u scale_w pvals absorb (step_signal a b t n) wt q level = [Z.of_nat t].
Proof.
  intros Hab Hw H1 H2 H3. unfold level_addon.
  rewrite (step_level_peaks a b t n wt (2 ^ level) Hab Hw H1 H2 H3).
  cbn [map]. rewrite fdr_thres_single. cbn [filter]. rewrite Qle_bool_0_abs. reflexivity.
Qed.

Lemma step_breakpoints a b t n wt q levels :
  ~ a == b -> uniform_weights n wt -> levels <> [] ->
  (forall l, In l levels -> (1 <= l)%Z /\ (2 ^ l <= Z.of_nat t)%Z /\ (Z.of_nat t + 2 ^ l <= Z.of_nat n)%Z) ->
  haar_breakpoints_over scale_u scale_w pvals absorb levels (step_signal a b t n) wt q = [Z.of_nat t].
Proof.
  intros Hab Hw Hne Hl. unfold haar_breakpoints_over.
  assert (G : forall ls bps,
            (forall l, In l ls -> (1 <= l)%Z /\ (2 ^ l <= Z.of_nat t)%Z /\ (Z.of_nat t + 2 ^ l <= Z.of_nat n)%Z) ->
            (bps = [] /\ ls <> []) \/ bps = [Z.of_nat t] ->
            fold_left (fun bps level =>
                         unify_levels bps (level_addon scale_u scale_w pvals absorb (step_signal a b t n) wt q level)
                           (2 ^ (level - 1))) ls bps = [Z.of_nat t]).
  { induction ls as [|l ls IH]; intros bps Hls Hb.
    - destruct Hb as [ [_ C] | -> ]; [congruence|reflexivity].
    - cbn [fold_left]. destruct (Hls l (or_introl eq_refl)) as [L1 [L2 L3]].
      assert (P2 : (2 <= 2 ^ l)%Z).
      { change 2%Z with (2 ^ 1)%Z at 1. apply Z.pow_le_mono_r; lia. }
      rewrite step_level_addon by (try assumption; lia).
      apply IH; [intros l' Hl'; apply Hls; right; exact Hl'|]. right.
      destruct Hb as [ [-> _] | -> ].
      + apply unify_first. lia.
      + apply unify_same. apply Z.pow_nonneg. lia. }
  apply G; [exact Hl|]. left. split; [reflexivity|exact Hne].
Qed.

Lemma step_haar_seg a b t n wt q :
  ~ a == b -> uniform_weights n wt -> (32 <= t)%nat -> (t + 32 <= n)%nat ->
  let sg := step_signal a b t n in
  let r := haar_seg scale_u scale_w pvals absorb sg wt q in
  let T := Z.of_nat t in
  let N := Z.of_nat n in
  (forall level, (1 <= level <= 5)%Z ->
     let h := (2 ^ level)%Z in
     let conv := conv_level scale_u scale_w sg wt h in
     (forall k, (0 <= k < N)%Z ->
        qnth conv k == step_amp (match wt with None => scale_u h | Some _ => scale_w h end) wt h (b - a)
                       * tentQ h T k) /\
     (forall k, (0 <= k < N)%Z -> k <> T -> Qabs (qnth conv k) < Qabs (qnth conv T)) /\
     level_peaks scale_u scale_w sg wt level = [T] /\
     level_addon scale_u scale_w pvals absorb sg wt q level = [T]) /\
  hr_breaks r = [T] /\ hr_start r = [0; T]%Z /\ hr_end r = [T - 1; N - 1]%Z /\
  hr_size r = [T; N - T]%Z /\
  exists m1 m2, hr_mean r = [m1; m2] /\ m1 == a /\ m2 == b.
Proof.
  intros Hab Hw Ht Hn sg r T N.
  assert (Hlen : length sg = n) by (apply step_signal_length; lia).
  split.
  { intros level Hl h conv. pose proof (pow2_le32 level Hl) as P. fold h in P.
    assert (Hshape : forall k, (0 <= k < N)%Z ->
              qnth conv k == step_amp (level_scale wt h) wt h (b - a) * tentQ h T k).
    { intros k Hk. apply step_conv_level; try assumption; unfold T, N in *; lia. }
    assert (Hamp : ~ step_amp (level_scale wt h) wt h (b - a) == 0).
    { apply step_amp_nonzero; [apply level_scale_nz|lia|]. intros C. apply Hab. lra. }
    split; [exact Hshape|]. split.
    - intros k Hk Hne. rewrite (Hshape k Hk), (Hshape T) by (unfold T, N in *; lia).
      apply tent_abs_max; [exact Hamp|lia|exact Hne].
    - split.
      + unfold level_peaks. apply step_level_peaks; try assumption; unfold h in *; lia.
      + apply step_level_addon; try assumption; unfold h in *; lia. }
  assert (Hb : haar_breakpoints_over scale_u scale_w pvals absorb haar_levels sg wt q = [T]).
  { apply step_breakpoints; try assumption; [apply haar_levels_nonempty|].
    intros l Hl. apply haar_levels_range in Hl. pose proof (pow2_le32 l Hl). lia. }
  unfold r, haar_seg. rewrite Hb. unfold haar_result_of.
  cbn [hr_breaks hr_start hr_end hr_size hr_mean app map combine fst snd].
  unfold Zlength_nat. rewrite Hlen. fold N. rewrite Z.sub_0_r.
  repeat (split; [reflexivity|]).
  eexists. eexists. split; [reflexivity|].
  assert (Hne : sg <> []) by (intros C; rewrite C in Hlen; cbn in Hlen; lia).
  assert (Hbi : breaks_in (Zlength_nat sg) [T]).
  { unfold Zlength_nat. rewrite Hlen. split; [repeat constructor|]. intros x [<-|[]]. unfold T. lia. }
  pose proof (uniform_weights_ok a b t n wt ltac:(lia) Hw) as Hwok.
  split.
  - rewrite (segment_by_peaks_nth sg [T] wt 0 T 0 Hne Hbi); [|left; reflexivity|unfold T; lia].
    apply seg_mean_const; [unfold T; lia|rewrite Hlen; unfold T; lia|exact Hwok|].
    unfold sg, T. rewrite slice_step_left by lia. apply all_eq_repeat.
  - rewrite (segment_by_peaks_nth sg [T] wt T N T Hne Hbi);
      [|unfold Zlength_nat; rewrite Hlen; right; left; reflexivity|unfold T, N; lia].
    apply seg_mean_const; [unfold T, N; lia|rewrite Hlen; unfold N; lia|exact Hwok|].
    unfold sg, T, N. rewrite slice_step_right by lia. apply all_eq_repeat.
Qed.

End Step.
