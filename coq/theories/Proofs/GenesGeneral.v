(* Proofs for C16, part 5: what by_gene does on ANY table (no precondition).
   - the gene map / by_chromosome list their keys in order of first occurrence (closed forms);
   - by_gene of a chromosome is the list of position ranges Spec.Genes.yielded_ranges;
   - every bin is yielded at least once; every bin exactly once IFF the gene spans are disjoint
     (the precondition of C16_partition is exactly what is needed);
   - a bin naming two genes (comma-joined) is always yielded at least twice. *)
From CNV Require Import Base.Prelude Base.Str Gen.Params Model.Genes Spec.Genes
  Proofs.GenesMap Proofs.Genes Proofs.GenesReports.

Local Open Scope nat_scope.

(* ---- first occurrences ------------------------------------------------------------------- *)

Definition add_new (acc : list string) (x : string) : list string :=
  if mem_string x acc then acc else acc ++ [x].

Lemma mem_string_app x a b : mem_string x (a ++ b) = mem_string x a || mem_string x b.
Proof.
  induction a as [|y t IH]; cbn [app mem_string]; [reflexivity|].
  rewrite IH. apply orb_assoc.
Qed.

Lemma filter_filter {A} (p q : A -> bool) l :
  filter p (filter q l) = filter (fun x => q x && p x) l.
Proof.
  induction l as [|x t IH]; [reflexivity|]. cbn [filter].
  destruct (q x); cbn [filter andb]; [destruct (p x)|]; rewrite IH; reflexivity.
Qed.

Lemma fold_add_new_dedup l : forall acc,
  fold_left add_new l acc = acc ++ filter (fun y => negb (mem_string y acc)) (dedup l).
Proof.
  induction l as [|x t IH]; intros acc; cbn [fold_left dedup filter].
  - symmetry. apply app_nil_r.
  - rewrite IH. unfold add_new. destruct (mem_string x acc) eqn:E; cbn [negb].
    + f_equal. rewrite filter_filter. apply filter_ext_in. intros y _.
      destruct (String.eqb y x) eqn:Eyx; cbn [negb andb]; [|reflexivity].
      apply String.eqb_eq in Eyx. subst y. rewrite E. reflexivity.
    + rewrite <- app_assoc. cbn [app]. f_equal. f_equal. rewrite filter_filter.
      apply filter_ext_in. intros y _. rewrite mem_string_app. cbn [mem_string].
      rewrite orb_false_r, negb_orb. apply andb_comm.
Qed.

Lemma fold_add_new_nil l : fold_left add_new l [] = dedup l.
Proof.
  rewrite fold_add_new_dedup. cbn [app]. induction (dedup l) as [|y t IH]; [reflexivity|].
  cbn [filter mem_string negb]. f_equal. exact IH.
Qed.

(* ---- the gene map lists every gene with its span, in order of first occurrence ---------- *)

Lemma gm_fold_names o : forall m, names (gm_fold o m) = fold_left add_new (map fst o) (names m).
Proof.
  induction o as [|[g i] r IH]; intros m; [reflexivity|].
  cbn [gm_fold fold_left map fst snd]. fold (gm_fold r (gm_add g i m)).
  rewrite IH, gm_add_names. reflexivity.
Qed.

Lemma occs_names rows : forall k, map fst (occs k rows) = flat_map genes_of rows.
Proof.
  induction rows as [|b t IH]; intros k; [reflexivity|].
  cbn [occs flat_map]. rewrite map_app, map_map, IH. cbn [fst]. rewrite map_id. reflexivity.
Qed.

Lemma gene_map_names rows : names (gene_map rows) = genes_in_order rows.
Proof.
  unfold gene_map, genes_in_order. rewrite gm_fold_names, occs_names. apply fold_add_new_nil.
Qed.

Lemma carries_iff g b : carries g b = true <-> In g (genes_of b).
Proof. apply mem_string_In. Qed.

Lemma gene_at_0 b t g : gene_at (b :: t) g 0 <-> In g (genes_of b).
Proof.
  unfold gene_at. cbn [nth_error]. split.
  - intros (b' & Heq & Hin). inversion Heq; subst. exact Hin.
  - intros Hin. exists b. auto.
Qed.

Lemma gene_at_S b t g i : gene_at (b :: t) g (S i) <-> gene_at t g i.
Proof. unfold gene_at. cbn [nth_error]. reflexivity. Qed.

Lemma gene_at_existsb rows g i : gene_at rows g i -> existsb (carries g) rows = true.
Proof.
  intros (b & Hn & Hin). apply existsb_exists. exists b. split.
  - eapply nth_error_In; eassumption.
  - apply carries_iff. exact Hin.
Qed.

Lemma first_last_span g rows :
  existsb (carries g) rows = true -> gene_span rows g (first_pos g rows) (last_pos g rows).
Proof.
  unfold first_pos, last_pos.
  induction rows as [|b t IH]; intros Hex; [discriminate|].
  cbn [existsb first_idx last_idx] in *.
  destruct (carries g b) eqn:Eb; destruct (existsb (carries g) t) eqn:Et; cbn [orb] in Hex;
    try discriminate.
  - specialize (IH eq_refl). destruct IH as (Hf & Hl & Hall).
    split; [apply gene_at_0, carries_iff; exact Eb|].
    split; [apply gene_at_S; exact Hl|].
    intros [|j] Hj; [lia|]. change (gene_at t g j) in Hj. specialize (Hall _ Hj). lia.
  - assert (H0 : gene_at (b :: t) g 0) by (apply gene_at_0, carries_iff; exact Eb).
    split; [exact H0|]. split; [exact H0|].
    intros [|j] Hj; [lia|]. change (gene_at t g j) in Hj. apply gene_at_existsb in Hj. congruence.
  - specialize (IH eq_refl). destruct IH as (Hf & Hl & Hall).
    split; [apply gene_at_S; exact Hf|]. split; [apply gene_at_S; exact Hl|].
    intros [|j] Hj.
    + apply gene_at_0, carries_iff in Hj. congruence.
    + change (gene_at t g j) in Hj. specialize (Hall _ Hj). lia.
Qed.

Lemma gene_map_order rows : gene_map rows = spans_in_order rows.
Proof.
  unfold spans_in_order. rewrite <- gene_map_names. unfold names. rewrite map_map.
  rewrite <- (map_id (gene_map rows)) at 1. apply map_ext_in.
  intros [[g f] l] Hin. change (ge_name (g, f, l)) with g.
  apply gene_map_sound in Hin.
  assert (Hex : existsb (carries g) rows = true) by (eapply gene_at_existsb; apply Hin).
  destruct (gene_span_unique _ _ _ _ _ _ Hin (first_last_span g rows Hex)) as [-> ->].
  reflexivity.
Qed.

(* a gene's first / last position is where its span begins / ends *)
Lemma span_positions rows g f l : gene_span rows g f l -> f = first_pos g rows /\ l = last_pos g rows.
Proof.
  intros Hsp. apply (gene_span_unique _ _ _ _ _ _ Hsp). apply first_last_span.
  eapply gene_at_existsb. apply Hsp.
Qed.

(* ---- by_chromosome lists the chromosomes in order of first occurrence -------------------- *)

Lemma chrom_fold_names l : forall m,
  cnames (fold_left (fun m b => chrom_add b m) l m) = fold_left add_new (map b_chr l) (cnames m).
Proof.
  induction l as [|b t IH]; intros m; [reflexivity|].
  cbn [fold_left map]. rewrite IH, chrom_add_names. reflexivity.
Qed.

Lemma by_chromosome_order rows :
  by_chromosome rows = map (fun c => (c, chrom_rows c rows)) (chroms_in_order rows).
Proof.
  assert (Hn : cnames (by_chromosome rows) = chroms_in_order rows).
  { unfold by_chromosome, chroms_in_order. rewrite chrom_fold_names. apply fold_add_new_nil. }
  rewrite <- Hn. unfold cnames. rewrite map_map.
  rewrite <- (map_id (by_chromosome rows)) at 1. apply map_ext_in.
  intros [c l] Hin. cbn [fst]. destruct (by_chromosome_rows _ _ _ Hin) as [-> _]. reflexivity.
Qed.

(* ---- the walk as position ranges ---------------------------------------------------------- *)

Lemma skipn_as_slice {A} (l : list A) a : skipn a l = slice l a (length l).
Proof.
  unfold slice. symmetry. apply firstn_all2. rewrite skipn_length. lia.
Qed.

Lemma walk_ranges ign rows m : forall prev,
  walk ign rows prev m =
  groups_of_ranges rows (ranges_from (length rows) prev (filter (real_entry ign) m)).
Proof.
  induction m as [|[[g f] l] t IH]; intros prev; cbn [walk filter].
  - cbn [ranges_from]. unfold gap. destruct (prev <? length rows); [|reflexivity].
    rewrite skipn_as_slice. reflexivity.
  - unfold real_entry at 1. change (ge_name (g, f, l)) with g.
    destruct (mem_string g ign); cbn [negb]; [apply IH|].
    cbn [ranges_from]. unfold groups_of_ranges. rewrite map_app. cbn [map].
    fold (groups_of_ranges rows (ranges_from (length rows) (S l) (filter (real_entry ign) t))).
    rewrite <- IH. unfold gap. destruct (prev <? f); reflexivity.
Qed.

Lemma real_spans_gene_map ign rows : real_spans ign rows = filter (real_entry ign) (gene_map rows).
Proof. unfold real_spans. rewrite gene_map_order. reflexivity. Qed.

Lemma by_gene_chrom_ranges ign rows :
  by_gene_chrom ign rows = groups_of_ranges rows (yielded_ranges ign rows).
Proof.
  unfold by_gene_chrom, yielded_ranges. rewrite walk_ranges, real_spans_gene_map. reflexivity.
Qed.

Lemma by_gene_order ignore rows :
  by_gene ignore rows =
  flat_map (fun c => by_gene_chrom (full_ignore ignore) (chrom_rows c rows)) (chroms_in_order rows).
Proof.
  unfold by_gene. rewrite by_chromosome_order.
  induction (chroms_in_order rows) as [|c t IH]; [reflexivity|].
  cbn [map flat_map snd]. rewrite IH. reflexivity.
Qed.

(* real spans: exactly the spans of the genes not ignored *)
Lemma real_spans_in ign rows g f l :
  In (g, f, l) (real_spans ign rows) <-> mem_string g ign = false /\ gene_span rows g f l.
Proof.
  rewrite real_spans_gene_map, filter_In, gene_map_iff. unfold real_entry.
  change (ge_name (g, f, l)) with g. rewrite negb_true_iff. tauto.
Qed.

(* ---- the ranges of the genes and of the gaps ------------------------------------------------ *)

Definition range_of (e : gentry) : prange := (ge_name e, ge_first e, S (ge_last e)).
Definition is_gene_range (r : prange) : bool := negb (String.eqb (pr_label r) "Antitarget").

Lemma gap_not_gene a b : filter is_gene_range (gap a b) = [].
Proof. unfold gap. destruct (a <? b); reflexivity. Qed.

Lemma ranges_gene_part n spans : forall prev,
  (forall e, In e spans -> ge_name e <> "Antitarget"%string) ->
  filter is_gene_range (ranges_from n prev spans) = map range_of spans.
Proof.
  induction spans as [|[[g f] l] t IH]; intros prev Hne; cbn [ranges_from map].
  - apply gap_not_gene.
  - rewrite filter_app, gap_not_gene. cbn [app filter].
    assert (Hg : is_gene_range (g, f, S l) = true).
    { unfold is_gene_range, pr_label; cbn [fst]. apply negb_true_iff, String.eqb_neq.
      apply (Hne (g, f, l)). left. reflexivity. }
    rewrite Hg. unfold range_of at 1. cbn [ge_name ge_first ge_last fst snd]. f_equal.
    apply IH. intros e He. apply Hne. right. exact He.
Qed.

Definition end_from (prev : nat) (pre : list gentry) : nat :=
  match rev pre with [] => prev | e :: _ => S (ge_last e) end.

Lemma end_from_cons prev e pre : end_from prev (e :: pre) = end_from (S (ge_last e)) pre.
Proof.
  unfold end_from. cbn [rev]. destruct (rev pre) as [|x r]; reflexivity.
Qed.

Lemma end_of_from pre : end_of pre = end_from 0 pre.
Proof. reflexivity. Qed.

Lemma ranges_gap_iff n spans : forall prev a b,
  (forall e, In e spans -> ge_name e <> "Antitarget"%string) ->
  (In ("Antitarget"%string, a, b) (ranges_from n prev spans) <->
   a < b /\ exists pre post, spans = pre ++ post /\ a = end_from prev pre /\ b = start_of n post).
Proof.
  induction spans as [|[[g f] l] t IH]; intros prev a b Hne; cbn [ranges_from].
  - unfold gap. split.
    + destruct (prev <? n) eqn:E; [|intros []]. apply Nat.ltb_lt in E.
      intros [Heq|[]]. inversion Heq; subst. split; [assumption|]. exists [], []. auto.
    + intros (Hab & pre & post & Heq & -> & ->). symmetry in Heq. apply app_eq_nil in Heq as [-> ->].
      unfold end_from, start_of in *. cbn [rev] in *.
      apply Nat.ltb_lt in Hab. rewrite Hab. left. reflexivity.
  - assert (Hg : g <> "Antitarget"%string) by (apply (Hne (g, f, l)); left; reflexivity).
    assert (Hne' : forall e, In e t -> ge_name e <> "Antitarget"%string)
      by (intros e He; apply Hne; right; exact He).
    rewrite in_app_iff. cbn [In]. rewrite (IH (S l) a b Hne'). split.
    + intros [Hin|[Heq|(Hab & pre & post & -> & -> & ->)]].
      * unfold gap in Hin. destruct (prev <? f) eqn:E; [|destruct Hin]. apply Nat.ltb_lt in E.
        destruct Hin as [Heq|[]]. injection Heq as Ha Hb. subst a b. split; [assumption|].
        exists [], ((g, f, l) :: t). auto.
      * inversion Heq. congruence.
      * split; [assumption|]. exists ((g, f, l) :: pre), post. split; [reflexivity|].
        split; [|reflexivity]. rewrite end_from_cons. reflexivity.
    + intros (Hab & pre & post & Heq & -> & ->). destruct pre as [|e pre'].
      * cbn [app] in Heq. subst post. left. unfold end_from, start_of, gap in *. cbn [rev ge_first fst snd] in *.
        apply Nat.ltb_lt in Hab. rewrite Hab. left. reflexivity.
      * cbn [app] in Heq. inversion Heq; subst. right. right. split.
        -- exact Hab.
        -- exists pre', post. split; [reflexivity|]. split; [|reflexivity].
           rewrite end_from_cons. reflexivity.
Qed.

(* ---- how often a bin is yielded ----------------------------------------------------------------- *)

Lemma countb_app {A} (p : A -> bool) l1 l2 : countb p (l1 ++ l2) = countb p l1 + countb p l2.
Proof. unfold countb. rewrite filter_app, app_length. reflexivity. Qed.

Lemma countb_in {A} (p : A -> bool) l x : In x l -> p x = true -> 1 <= countb p l.
Proof.
  intros Hin Hp. apply in_split in Hin as (l1 & l2 & ->).
  rewrite countb_app, countb_cons, Hp. lia.
Qed.

Lemma countb_two {A} (p : A -> bool) l x y :
  In x l -> In y l -> x <> y -> p x = true -> p y = true -> 2 <= countb p l.
Proof.
  intros Hx Hy Hne Hpx Hpy. apply in_split in Hx as (l1 & l2 & ->).
  rewrite countb_app, countb_cons, Hpx.
  apply in_app_iff in Hy as [Hy|[Hy|Hy]]; [|congruence|].
  - pose proof (countb_in p l1 y Hy Hpy). lia.
  - pose proof (countb_in p l2 y Hy Hpy). lia.
Qed.

Lemma ranges_cover n spans : forall prev i,
  prev <= i < n -> exists r, In r (ranges_from n prev spans) /\ in_prange i r = true.
Proof.
  induction spans as [|[[g f] l] t IH]; intros prev i Hi; cbn [ranges_from].
  - exists ("Antitarget"%string, prev, n). unfold gap.
    assert (E : (prev <? n) = true) by (apply Nat.ltb_lt; lia). rewrite E. split; [left; reflexivity|].
    unfold in_prange, pr_a, pr_b; cbn [fst snd]. apply andb_true_iff. split; [apply Nat.leb_le|apply Nat.ltb_lt]; lia.
  - destruct (Nat.lt_ge_cases i f) as [Hlt|Hge].
    + exists ("Antitarget"%string, prev, f). unfold gap.
      assert (E : (prev <? f) = true) by (apply Nat.ltb_lt; lia). rewrite E.
      split; [apply in_app_iff; left; left; reflexivity|].
      unfold in_prange, pr_a, pr_b; cbn [fst snd]. apply andb_true_iff. split; [apply Nat.leb_le|apply Nat.ltb_lt]; lia.
    + destruct (Nat.lt_ge_cases i (S l)) as [Hlt|Hge'].
      * exists (g, f, S l). split; [apply in_app_iff; right; left; reflexivity|].
        unfold in_prange, pr_a, pr_b; cbn [fst snd]. apply andb_true_iff. split; [apply Nat.leb_le|apply Nat.ltb_lt]; lia.
      * destruct (IH (S l) i ltac:(lia)) as (r & Hr & Hin). exists r. split; [|exact Hin].
        apply in_app_iff. right. right. exact Hr.
Qed.

(* every bin is yielded at least once, whatever the table *)
Lemma by_gene_never_drops ign rows i :
  i < length rows -> 1 <= times_yielded (yielded_ranges ign rows) i.
Proof.
  intros Hi. destruct (ranges_cover (length rows) (real_spans ign rows) 0 i ltac:(lia)) as (r & Hr & Hin).
  unfold times_yielded. eapply countb_in; eassumption.
Qed.

Lemma in_ranges_of_span n spans e : forall prev, In e spans -> In (range_of e) (ranges_from n prev spans).
Proof.
  induction spans as [|[[g f] l] t IH]; intros prev Hin; [destruct Hin|].
  cbn [ranges_from]. apply in_app_iff. right. destruct Hin as [<-|Hin].
  - left. reflexivity.
  - right. apply IH. exact Hin.
Qed.

Lemma times_gap a b i :
  times_yielded (gap a b) i = if (a <=? i) && (i <? b) then 1 else 0.
Proof.
  unfold times_yielded, gap. destruct (a <? b) eqn:E.
  - rewrite countb_cons. unfold in_prange, pr_a, pr_b; cbn [fst snd].
    destruct ((a <=? i) && (i <? b)); reflexivity.
  - apply Nat.ltb_ge in E. unfold countb. cbn [filter length].
    destruct (a <=? i) eqn:E1; destruct (i <? b) eqn:E2; cbn [andb]; try reflexivity.
    apply Nat.leb_le in E1. apply Nat.ltb_lt in E2. lia.
Qed.

(* under the well-formedness the walk needs (Proofs.Genes.wf, which holds for the gene map of a
   table with disjoint spans) the ranges tile prev..n: every position is in exactly one *)
Lemma times_wf ign rows m : forall prev, wf ign rows prev m -> forall i,
  times_yielded (ranges_from (length rows) prev (filter (real_entry ign) m)) i =
  if (prev <=? i) && (i <? length rows) then 1 else 0.
Proof.
  induction m as [|[[g f] l] t IH]; intros prev Hwf i; cbn [wf filter] in *.
  - cbn [ranges_from]. apply times_gap.
  - unfold real_entry at 1. change (ge_name (g, f, l)) with g.
    destruct (mem_string g ign); cbn [negb]; [apply IH; exact Hwf|].
    destruct Hwf as (Hpf & Hsp & _ & Hwf). destruct (gene_span_bounds _ _ _ _ Hsp) as [Hfl Hln].
    cbn [ranges_from]. unfold times_yielded in *. rewrite countb_app, countb_cons.
    fold (times_yielded (gap prev f) i). rewrite times_gap, (IH _ Hwf i).
    unfold in_prange, pr_a, pr_b; cbn [fst snd].
    destruct (prev <=? i) eqn:E1; destruct (i <? f) eqn:E2; destruct (f <=? i) eqn:E3;
      destruct (i <? S l) eqn:E4; destruct (S l <=? i) eqn:E5; destruct (i <? length rows) eqn:E6;
      cbn [andb]; try reflexivity; exfalso;
      repeat match goal with
             | H : (_ <=? _) = true |- _ => apply Nat.leb_le in H
             | H : (_ <=? _) = false |- _ => apply Nat.leb_gt in H
             | H : (_ <? _) = true |- _ => apply Nat.ltb_lt in H
             | H : (_ <? _) = false |- _ => apply Nat.ltb_ge in H
             end; lia.
Qed.

Lemma gene_map_wf ign rows :
  mem_string "Antitarget" ign = true -> spans_disjoint ign rows -> wf ign rows 0 (gene_map rows).
Proof.
  intros Hanti Hdisj. apply wf_of; try assumption.
  - apply gene_map_nodup.
  - apply gene_map_sorted.
  - intros g f l. apply gene_map_sound.
  - intros i g _ _ Hat. destruct (gene_map_has _ _ _ Hat) as (f & l & Hin).
    eapply in_names; eassumption.
  - intros; lia.
  - lia.
Qed.

(* EVERY bin exactly once  <->  the spans of distinct genes are disjoint *)
Lemma by_gene_once_iff ign rows :
  mem_string "Antitarget" ign = true ->
  ((forall i, i < length rows -> times_yielded (yielded_ranges ign rows) i = 1) <->
   spans_disjoint ign rows).
Proof.
  intros Hanti. split.
  - intros Hone g g' f l f' l' Hg Hg' Hne Hsp Hsp'.
    destruct (gene_span_bounds _ _ _ _ Hsp) as [Hfl Hln].
    destruct (gene_span_bounds _ _ _ _ Hsp') as [Hfl' Hln'].
    destruct (Nat.lt_ge_cases l f') as [|H1]; [left; assumption|].
    destruct (Nat.lt_ge_cases l' f) as [|H2]; [right; assumption|]. exfalso.
    set (i := Nat.max f f').
    assert (Hi : i < length rows) by (unfold i; lia).
    specialize (Hone i Hi).
    assert (H2x : 2 <= times_yielded (yielded_ranges ign rows) i).
    { unfold times_yielded, yielded_ranges.
      apply (countb_two _ _ (range_of (g, f, l)) (range_of (g', f', l'))).
      - apply in_ranges_of_span. apply real_spans_in. auto.
      - apply in_ranges_of_span. apply real_spans_in. auto.
      - unfold range_of; cbn [ge_name ge_first ge_last fst snd]. congruence.
      - unfold in_prange, range_of, pr_a, pr_b; cbn [ge_name ge_first ge_last fst snd].
        apply andb_true_iff. split; [apply Nat.leb_le|apply Nat.ltb_lt]; unfold i; lia.
      - unfold in_prange, range_of, pr_a, pr_b; cbn [ge_name ge_first ge_last fst snd].
        apply andb_true_iff. split; [apply Nat.leb_le|apply Nat.ltb_lt]; unfold i; lia. }
    lia.
  - intros Hdisj i Hi. unfold yielded_ranges. rewrite real_spans_gene_map.
    rewrite (times_wf ign rows _ 0 (gene_map_wf ign rows Hanti Hdisj) i).
    assert (E : (i <? length rows) = true) by (apply Nat.ltb_lt; exact Hi). rewrite E. reflexivity.
Qed.

(* a bin naming two different genes (comma-joined names) is always yielded at least twice *)
Lemma comma_bin_twice ign rows i b g g' :
  nth_error rows i = Some b -> In g (genes_of b) -> In g' (genes_of b) -> g <> g' ->
  mem_string g ign = false -> mem_string g' ign = false ->
  2 <= times_yielded (yielded_ranges ign rows) i.
Proof.
  intros Hn Hg Hg' Hne Hr Hr'.
  assert (Hat : gene_at rows g i) by (exists b; auto).
  assert (Hat' : gene_at rows g' i) by (exists b; auto).
  pose proof (first_last_span g rows (gene_at_existsb _ _ _ Hat)) as Hsp.
  pose proof (first_last_span g' rows (gene_at_existsb _ _ _ Hat')) as Hsp'.
  pose proof (proj2 (proj2 Hsp) _ Hat) as Hin. pose proof (proj2 (proj2 Hsp') _ Hat') as Hin'.
  unfold times_yielded, yielded_ranges.
  apply (countb_two _ _ (range_of (g, first_pos g rows, last_pos g rows))
                        (range_of (g', first_pos g' rows, last_pos g' rows))).
  - apply in_ranges_of_span. apply real_spans_in. auto.
  - apply in_ranges_of_span. apply real_spans_in. auto.
  - unfold range_of; cbn [ge_name ge_first ge_last fst snd]. congruence.
  - unfold in_prange, range_of, pr_a, pr_b; cbn [ge_name ge_first ge_last fst snd].
    apply andb_true_iff. split; [apply Nat.leb_le|apply Nat.ltb_lt]; lia.
  - unfold in_prange, range_of, pr_a, pr_b; cbn [ge_name ge_first ge_last fst snd].
    apply andb_true_iff. split; [apply Nat.leb_le|apply Nat.ltb_lt]; lia.
Qed.

(* the general statement, assembled *)
Lemma by_gene_general ignore rows :
  let ign := full_ignore ignore in
  (* the table is processed chromosome by chromosome, in order of first appearance *)
  by_gene ignore rows =
    flat_map (fun c => by_gene_chrom ign (chrom_rows c rows)) (chroms_in_order rows) /\
  forall crows,
    (* the groups are the position ranges of the closed form *)
    by_gene_chrom ign crows = groups_of_ranges crows (yielded_ranges ign crows) /\
    (* its genes: every name not ignored, with its first and last position, in order of first occurrence *)
    (forall g f l, In (g, f, l) (real_spans ign crows) <-> mem_string g ign = false /\ gene_span crows g f l) /\
    map ge_name (real_spans ign crows) =
      filter (fun g => negb (mem_string g ign)) (genes_in_order crows) /\
    (* gene-labelled groups: exactly these spans, in that order *)
    filter is_gene_range (yielded_ranges ign crows) = map range_of (real_spans ign crows) /\
    (* Antitarget groups: the non-empty stretches between the end of one gene and the first bin of the
       next gene OF THAT ORDER (start of the table before the first, end of the table after the last) *)
    (forall a b, In ("Antitarget"%string, a, b) (yielded_ranges ign crows) <->
       (a < b /\ exists pre post, real_spans ign crows = pre ++ post /\
                                  a = end_of pre /\ b = start_of (length crows) post)) /\
    (* no bin is ever dropped *)
    (forall i, i < length crows -> 1 <= times_yielded (yielded_ranges ign crows) i) /\
    (* every bin exactly once iff the spans of distinct genes are disjoint *)
    ((forall i, i < length crows -> times_yielded (yielded_ranges ign crows) i = 1) <->
     spans_disjoint ign crows).
Proof.
  intros ign. split; [apply by_gene_order|]. intros crows.
  assert (Hne : forall e, In e (real_spans ign crows) -> ge_name e <> "Antitarget"%string).
  { intros [[g f] l] He. apply real_spans_in in He as [Hg _]. change (ge_name (g, f, l)) with g.
    intros ->. unfold ign in Hg. rewrite full_ignore_anti in Hg. discriminate. }
  split; [apply by_gene_chrom_ranges|].
  split; [apply real_spans_in|].
  split.
  { unfold real_spans, spans_in_order.
    induction (genes_in_order crows) as [|g t IH]; [reflexivity|].
    cbn [map filter]. change (ge_name (g, first_pos g crows, last_pos g crows)) with g.
    destruct (mem_string g ign); cbn [negb map]; [exact IH|].
    change (ge_name (g, first_pos g crows, last_pos g crows)) with g. f_equal. exact IH. }
  split; [apply ranges_gene_part; exact Hne|].
  split; [intros a b; apply ranges_gap_iff; exact Hne|].
  split; [intros i; apply by_gene_never_drops|].
  apply by_gene_once_iff. apply full_ignore_anti.
Qed.

(* ---- outside the precondition: witnesses ------------------------------------------------------------- *)

Definition wit_bin (g : string) (i : Z) : bin :=
  mkBin "chr1" (100 * i)%Z (100 * i + 80)%Z g 0 1 1 1.

(* gene A recurs after gene B *)
Definition wit_split : list bin := [wit_bin "A" 0; wit_bin "B" 1; wit_bin "A" 2; wit_bin "C" 3].
(* a comma-joined bin shared by two genes *)
Definition wit_comma : list bin := [wit_bin "A,B" 0; wit_bin "A" 1; wit_bin "B" 2].

Lemma by_gene_split_gene_witness :
  let ign := full_ignore IGNORE_GENE_NAMES in
  ~ spans_disjoint ign wit_split /\
  map (fun gr => (fst gr, map b_start (snd gr))) (by_gene_chrom ign wit_split) =
    [("A", [0; 100; 200]); ("B", [100]); ("Antitarget", [200]); ("C", [300])]%string%Z /\
  map (times_yielded (yielded_ranges ign wit_split)) [0; 1; 2; 3] = [1; 2; 2; 1].
Proof.
  intros ign. split; [|split; vm_compute; reflexivity].
  intros H.
  assert (H1 : 1 < length wit_split) by (vm_compute; lia).
  pose proof (proj2 (by_gene_once_iff ign wit_split (full_ignore_anti _)) H 1 H1) as E.
  vm_compute in E. discriminate.
Qed.

Lemma by_gene_comma_witness :
  let ign := full_ignore IGNORE_GENE_NAMES in
  ~ spans_disjoint ign wit_comma /\
  map (fun gr => (fst gr, map b_start (snd gr))) (by_gene_chrom ign wit_comma) =
    [("A", [0; 100]); ("B", [0; 100; 200])]%string%Z /\
  map (times_yielded (yielded_ranges ign wit_comma)) [0; 1; 2] = [2; 2; 1].
Proof.
  intros ign. split; [|split; vm_compute; reflexivity].
  intros H.
  assert (H0 : 0 < length wit_comma) by (vm_compute; lia).
  pose proof (proj2 (by_gene_once_iff ign wit_comma (full_ignore_anti _)) H 0 H0) as E.
  vm_compute in E. discriminate.
Qed.
