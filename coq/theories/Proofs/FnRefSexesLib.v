(* Shared by the three C05 loop ties of the `sexes` dictionary (Proofs/FnRefSexesInfer.v, FnRefSexesMerge.v,
   FnRefSexesGiven.v): a Python dict seen as its lookup function, one store `d[key] = v` as an update of that function,
   and Model/Reference.v's association list (last binding wins) under lookup. *)
From CNV Require Import Base.Prelude Base.Str Base.QNum Model.Center Model.Sex Model.Reference.

Definition lookup := string -> option bool.

(* the dict after one loop iteration that stores into the entry of `sid` only: that entry becomes v *)
Definition upd (f : lookup) (sid : string) (v : option bool) : lookup :=
  fun k => if String.eqb k sid then v else f k.

Lemma dict_get_snoc d sid v k :
  dict_get (d ++ [(sid, v)]) k = if String.eqb k sid then Some v else dict_get d k.
Proof.
  induction d as [|[k' v'] d IH]; cbn [app dict_get].
  - reflexivity.
  - rewrite IH. destruct (String.eqb k sid); reflexivity.
Qed.

Lemma dict_get_cons k' v' d k :
  dict_get ((k', v') :: d) k =
  match dict_get d k with Some r => Some r | None => if String.eqb k k' then Some v' else None end.
Proof. reflexivity. Qed.
