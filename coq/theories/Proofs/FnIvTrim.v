(* C06 loop tie of intersection(mode="trim"): ONE ITERATION of intersect.iter_ranges'

       for region_idx, start_val, end_val in idx_ranges(...):
           subtable = table.iloc[region_idx]
           if mode == "trim":
               subtable = subtable.copy()
               if start_val: subtable.start = subtable.start.clip(lower=start_val)
               if end_val:   subtable.end = subtable.end.clip(upper=end_val)
           yield subtable

   read for one row of the selection (Gen/FnRangesIter.v fn_iter_row, regenerated from the Python source
   on every run; property C07 ties it to its own model in Proofs/FnRangesIter.v).  Here: Model/Intervals.v
   trim_row -- what intersect_trim does to every selected row for the query (qs, qe) -- IS the generated
   iteration in mode "trim" with the query's bounds, the other fields being the row's; and
   intersect_chunks is that over the rows overlapping each query. *)
From CNV Require Import Base.Prelude Model.IvRow Model.Intervals.
From CNV Require Gen.FnRangesIter.

Local Open Scope Z_scope.

Section TrimTie.
Context {A B : Type}.
Notation rowA := (@row A).
Notation rowB := (@row B).

(* a selected row as the generated iteration yields it in mode "trim" *)
Definition src_trim_row (qs qe d1 d2 : Z) (r : rowA) : rowA :=
  match FnRangesIter.fn_iter_row "trim" (Some qs) (Some qe) d1 d2 (lo r) (hi r) with
  | [(a, b)] => (a, b, pay r)
  | _ => r
  end.

Theorem source_trim_row (qs qe d1 d2 : Z) (r : rowA) : trim_row qs qe r = src_trim_row qs qe d1 d2 r.
Proof.
  unfold trim_row, src_trim_row, FnRangesIter.fn_iter_row. cbn [String.eqb Ascii.eqb Bool.eqb].
  destruct (qs =? 0), (qe =? 0); reflexivity.
Qed.

Theorem source_intersect_chunks (d1 d2 : Z) (a : list rowA) (b : list rowB) :
  intersect_chunks a b =
  filter (fun c => negb (Nat.eqb (length c) 0))
         (map (fun q => map (src_trim_row (lo q) (hi q) d1 d2) (filter (overlaps (lo q) (hi q)) a)) b).
Proof.
  unfold intersect_chunks. f_equal. apply map_ext. intros q. apply map_ext. intros r. apply source_trim_row.
Qed.

End TrimTie.
