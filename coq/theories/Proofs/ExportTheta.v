(* C20 proofs, THetA input: row selection (autosomes), chromosome ranks and ids, the read-count
   arithmetic (exp2 values as oracle inputs), the bin counts without a normal, and the
   reference means through the C07 range-query specification. *)
From Coq Require Import Qabs Qround.
From CNV Require Import Base.Prelude Base.Str Model.Decimal Gen.ExportDefaults.
From CNV Require Import Model.Call Proofs.CallNum Model.Export Spec.Export Proofs.ExportLib Proofs.ExportCi.
From CNV Require Import Model.Ranges Spec.RangeQuery Proofs.RangesTables.
From CNV Require Model.Formats.
From Coq Require Import Lqa.   (* after Prelude: `lra` over Q *)

Local Open Scope Z_scope.

(* ---------------------------------------------------------------- autosome names *)

Lemma prefix_chr_not_digit l : prefixb (chars "chr") l = true -> all_digits l = false.
Proof.
  destruct l as [|a t]; [discriminate|]. cbn [chars list_ascii_of_string prefixb].
  destruct (Ascii.eqb_spec "c"%char a) as [<-|NE]; [intros _; reflexivity | discriminate].
Qed.

Lemma is_auto_spec s : is_auto_name s = sp_is_auto s.
Proof.
  unfold is_auto_name, is_auto_chars, sp_is_auto. cbv zeta.
  destruct (prefixb (chars "chr") (chars s)) eqn:P; cbn [andb].
  - rewrite (prefix_chr_not_digit _ P). unfold all_digits.
    destruct (skipn 3 (chars s)); [reflexivity|]. destruct (forallb is_digit (a :: l)); reflexivity.
  - reflexivity.
Qed.

Lemma existsb_ext' {A} (p q : A -> bool) l : (forall a, p a = q a) -> existsb p l = existsb q l.
Proof. intro H. induction l as [|a t IH]; cbn [existsb]; [reflexivity | now rewrite H, IH]. Qed.

Lemma theta_autosomes_spec {A} (name : A -> string) (l : list A) :
  theta_autosomes name l
  = if existsb (fun x => sp_is_auto (name x)) l then filter (fun x => sp_is_auto (name x)) l else l.
Proof.
  unfold theta_autosomes.
  rewrite (existsb_ext' (fun x => is_auto_name (name x)) (fun x => sp_is_auto (name x))) by (intro; apply is_auto_spec).
  destruct (existsb (fun x => sp_is_auto (name x)) l); [|reflexivity].
  apply filter_ext_in'. intros a _. apply is_auto_spec.
Qed.

Lemma theta_kept_spec rows : theta_autosomes t_chrom rows = sp_theta_kept rows.
Proof. apply theta_autosomes_spec. Qed.

Lemma theta_normal_spec nb : theta_autosomes nb_chrom nb = sp_theta_normal nb.
Proof. apply theta_autosomes_spec. Qed.

Lemma theta_kept_nonempty rows : rows <> [] -> sp_theta_kept rows <> [].
Proof.
  intro NE. unfold sp_theta_kept.
  destruct (existsb (fun s => sp_is_auto (t_chrom s)) rows) eqn:E; [|exact NE].
  apply existsb_exists in E. destruct E as [s [Hs Ha]].
  intro F. assert (I : In s (filter (fun s0 => sp_is_auto (t_chrom s0)) rows)) by (apply filter_In; auto).
  rewrite F in I. exact I.
Qed.

(* ---------------------------------------------------------------- chromosome rank, id *)

Lemma In_uniq x l : In x l -> In x (uniq l).
Proof.
  induction l as [|y t IH]; intro H; [exact H|]. cbn [uniq].
  destruct (String.eqb x y) eqn:E.
  - left. apply String.eqb_eq in E. now symmetry.
  - right. apply filter_In. split.
    + apply IH. destruct H as [->|H]; [rewrite String.eqb_refl in E; discriminate | exact H].
    + now rewrite E.
Qed.

Lemma index_first c names i :
  index_from c names i = match first_index c names i with Some j => j | None => i + Z.of_nat (length names) end.
Proof.
  revert i. induction names as [|x t IH]; intro i; cbn [index_from first_index length]; [lia|].
  destruct (String.eqb x c); [reflexivity|]. rewrite IH. destruct (first_index c t (i + 1)); lia.
Qed.

Lemma first_index_In c names i : In c names -> exists j, first_index c names i = Some j.
Proof.
  revert i. induction names as [|x t IH]; intros i H; [destruct H|]. cbn [first_index].
  destruct (String.eqb x c) eqn:E; [now exists i|].
  destruct H as [->|H]; [rewrite String.eqb_refl in E; discriminate|]. now apply IH.
Qed.

Lemma theta_chrm_spec kept s :
  In s kept ->
  index_from (t_chrom s) (Formats.distinct_names [] (map t_chrom kept)) theta_first_chrm = sp_theta_chrm kept s.
Proof.
  intro Hs. rewrite distinct_names_nil, index_first. unfold sp_theta_chrm. change theta_first_chrm with 1.
  destruct (first_index_In (t_chrom s) (uniq (map t_chrom kept)) 1) as [j Hj].
  { apply In_uniq. now apply in_map. }
  now rewrite Hj.
Qed.

Lemma theta_id_spec ch lo hi : theta_id ch lo hi = sp_theta_id ch lo hi.
Proof. reflexivity. Qed.

Definition row_key (r : theta_row) : string * Z * Z * Z := let '(id, ch, lo, hi, _, _) := r in (id, ch, lo, hi).
Definition row_counts (r : theta_row) : Z * Z := let '(_, _, _, _, t, n) := r in (t, n).

Lemma map3_keys {A} (K : tseg -> A) (F : tseg -> Z -> Z -> theta_row) (key : theta_row -> A) (l : list tseg) :
  forall tc nc, length tc = length l -> length nc = length l ->
    (forall s t n, In s l -> key (F s t n) = K s) ->
    map key (map3 F l tc nc) = map K l.
Proof.
  induction l as [|s l' IH]; intros [|t tc] [|n nc] Ht Hn HK; cbn [length] in *; try discriminate; [reflexivity|].
  cbn [map3 map]. rewrite (HK s t n (or_introl eq_refl)). f_equal.
  apply IH; [lia | lia |]. intros s' t' n' Hs'. apply HK. now right.
Qed.

Lemma map3_counts (F : tseg -> Z -> Z -> theta_row) (l : list tseg) :
  forall tc nc, length tc = length l -> length nc = length l ->
    (forall s t n, row_counts (F s t n) = (t, n)) ->
    map row_counts (map3 F l tc nc) = combine tc nc.
Proof.
  induction l as [|s l' IH]; intros [|t tc] [|n nc] Ht Hn HC; cbn [length] in *; try discriminate; [reflexivity|].
  cbn [map3 map combine]. rewrite HC. f_equal. apply IH; [lia | lia | exact HC].
Qed.

Lemma theta_rows_keys segs tc nc :
  length tc = length segs -> length nc = length segs ->
  map row_key (theta_rows segs tc nc) = map (sp_theta_key segs) segs.
Proof.
  intros Ht Hn. unfold theta_rows. apply map3_keys; [exact Ht | exact Hn |].
  intros s t n Hs. cbn [row_key]. unfold sp_theta_key.
  rewrite (theta_chrm_spec segs s Hs), theta_id_spec. reflexivity.
Qed.

Lemma theta_rows_counts segs tc nc :
  length tc = length segs -> length nc = length segs ->
  map row_counts (theta_rows segs tc nc) = combine tc nc.
Proof. intros Ht Hn. unfold theta_rows. apply map3_counts; [exact Ht | exact Hn | reflexivity]. Qed.

(* ---------------------------------------------------------------- the count arithmetic *)

Local Open Scope Q_scope.

Lemma theta_value_spec e nb : theta_value e nb == sp_theta_value e nb.
Proof.
  unfold theta_value, sp_theta_value. rewrite !Qred_correct.
  change (inject_Z theta_bin_width) with 200. change (inject_Z theta_depth) with 500.
  change (inject_Z theta_read_len) with 100. reflexivity.
Qed.

Lemma theta_count_spec e nb : theta_count e nb = round_he (sp_theta_value e nb).
Proof. unfold theta_count. apply round_he_comp. apply theta_value_spec. Qed.

Lemma theta_count_comp e nb nb' : nb == nb' -> theta_count e nb = theta_count e nb'.
Proof.
  intro H. rewrite !theta_count_spec. apply round_he_comp. unfold sp_theta_value. now rewrite H.
Qed.

(* sums and means: the reduced left fold is the plain sum *)
Lemma qsum_acc l a : fold_left (fun x y => Qred (x + y)) l a == a + sp_sum l.
Proof.
  revert a. induction l as [|x t IH]; intro a.
  - unfold sp_sum. cbn [fold_left fold_right]. ring.
  - cbn [fold_left]. rewrite IH, Qred_correct. unfold sp_sum. cbn [fold_right]. ring.
Qed.

Lemma qmean_spec l : qmean l == sp_mean l.
Proof. unfold qmean, sp_mean, qsum. rewrite Qred_correct, qsum_acc. now rewrite Qplus_0_l. Qed.

(* the largest element *)
Lemma fold_qmax t a :
  (fold_left qmax t a = a \/ In (fold_left qmax t a) t) /\ a <= fold_left qmax t a /\
  Forall (fun x => x <= fold_left qmax t a) t.
Proof.
  revert a. induction t as [|x t IH]; intro a; cbn [fold_left].
  - split; [now left|]. split; [lra | constructor].
  - destruct (IH (qmax a x)) as [I [L F]].
    destruct (qmax_cases a x) as [[Hle E]|[Hlt E]]; rewrite E in *.
    + split; [right; destruct I as [->|I]; [now left | now right]|]. split; [lra|]. constructor; [lra | exact F].
    + split; [destruct I as [I|I]; [now left | right; now right]|]. split; [exact L|]. constructor; [lra | exact F].
Qed.

Lemma qmaxl_spec l : l <> [] -> In (qmaxl l) l /\ Forall (fun x => x <= qmaxl l) l.
Proof.
  destruct l as [|a t]; [congruence|]. intros _. unfold qmaxl.
  destruct (fold_qmax t a) as [I [L F]]. split.
  - destruct I as [->|I]; [now left | now right].
  - constructor; [exact L | exact F].
Qed.

Lemma Forall2_map {A} (R : Q -> Q -> Prop) (f g : A -> Q) (l : list A) :
  (forall a, In a l -> R (f a) (g a)) -> Forall2 R (map f l) (map g l).
Proof.
  induction l as [|a t IH]; intro H; cbn [map]; constructor.
  - apply H. now left.
  - apply IH. intros b Hb. apply H. now right.
Qed.

Lemma qltb_spec a b : qltb a b = negb (Qle_bool b a).
Proof. reflexivity. Qed.

Lemma theta_nbins_length hp hw segs : length (theta_nbins hp hw segs) = length segs.
Proof.
  unfold theta_nbins.
  destruct (hw && existsb (fun w => qltb theta_new_weight_above w) (map t_weight segs)).
  - now rewrite !map_length.
  - destruct hw.
    + destruct hp; rewrite ?map_map, map2_map_map, map_length; reflexivity.
    + destruct hp; now rewrite ?map_map, map_length.
Qed.

(* the bin counts without a normal are the specification's, up to == *)
Lemma theta_nbins_spec hp hw segs :
  Forall2 Qeq (theta_nbins hp hw segs) (sp_theta_nbins hp hw (qmaxl (map t_weight segs)) segs).
Proof.
  unfold theta_nbins, sp_theta_nbins. cbv zeta. change theta_new_weight_above with 1.
  rewrite (existsb_ext' (fun w => qltb 1 w) (fun w => negb (Qle_bool w 1))) by reflexivity.
  destruct (hw && existsb (fun w => negb (Qle_bool w 1)) (map t_weight segs)).
  - apply Forall2_map. intros w _. rewrite !Qred_correct, qmean_spec. reflexivity.
  - destruct hw, hp.
    + rewrite map2_map_map. apply Forall2_map. intros s _. rewrite !Qred_correct, qmean_spec. reflexivity.
    + rewrite map_map, map2_map_map. apply Forall2_map. intros s _.
      rewrite !Qred_correct, !qmean_spec. reflexivity.
    + apply Forall2_map. intros s _. ring.
    + rewrite map_map. apply Forall2_map. intros s _. rewrite !Qred_correct, qmean_spec. ring.
Qed.

Local Open Scope Z_scope.

(* ---------------------------------------------------------------- without a normal *)

Definition no_normal (normal : option (list nbin)) : Prop := normal = None \/ normal = Some [].

Lemma map2_length {A B C} (f : A -> B -> C) (la : list A) (lb : list B) :
  length la = length lb -> length (map2 f la lb) = length la.
Proof.
  revert lb. induction la as [|a ta IH]; intros [|b tb] H; cbn [length map2] in *; try discriminate; [reflexivity|].
  f_equal. apply IH. lia.
Qed.

Lemma theta_plain hp hw rows normal en :
  rows <> [] -> no_normal normal ->
  exists out,
    export_theta hp hw rows normal en = ThetaOk out /\
    map row_key out = map (sp_theta_key (sp_theta_kept rows)) (sp_theta_kept rows) /\
    map row_counts out
    = combine (map2 (fun s nb => round_he (sp_theta_value (t_e s) nb)) (sp_theta_kept rows)
                    (theta_nbins hp hw (sp_theta_kept rows)))
              (map (fun nb => round_he (sp_theta_value 1 nb)) (theta_nbins hp hw (sp_theta_kept rows))).
Proof.
  intros NE NN. unfold export_theta. destruct rows as [|r0 rt] eqn:ER; [congruence|]. rewrite <- ER.
  rewrite theta_kept_spec. set (kept := sp_theta_kept rows).
  assert (L := theta_nbins_length hp hw kept).
  assert (E : match normal with Some (_ :: _) => False | _ => True end).
  { destruct NN as [->| ->]; exact I. }
  eexists. split; [|split].
  - destruct normal as [[|b nb]|]; [reflexivity | destruct E | reflexivity].
  - apply theta_rows_keys; [rewrite map2_length; [reflexivity | now rewrite L] | now rewrite map_length].
  - rewrite theta_rows_counts; [| rewrite map2_length; [reflexivity | now rewrite L] | now rewrite map_length].
    f_equal.
    + clear. generalize (theta_nbins hp hw kept). induction kept as [|s t IH]; intros [|n l]; cbn [map2]; try reflexivity.
      now rewrite theta_count_spec, IH.
    + apply map_ext. intro nb. apply theta_count_spec.
Qed.

(* ---------------------------------------------------------------- reference means (C07) *)

Section RefMeans.
  (* selections depend on the coordinates only *)
  Variable P : Z -> Z -> bool.

  Lemma rows_logs (c : string) (l : list nbin) :
    forall pre : list nbin,
      map (fun r => nth (Z.to_nat (r_id r)) (map nb_log2 (pre ++ l)) 0%Q)
          (filter (fun r => P (r_lo r) (r_hi r))
                  (map snd (filter (fun x : trow => String.eqb (fst x) c)
                                   (to_trows (Z.of_nat (length pre)) (map nb_region l)))))
      = map nb_log2
            (filter (fun b => String.eqb (nb_chrom b) c && P (snd (fst (nb_region b))) (snd (nb_region b))) l).
  Proof.
    induction l as [|[[[c' lo] hi] v] t IH]; intro pre; [reflexivity|].
    cbn [map to_trows nb_region filter fst snd nb_chrom].
    assert (Enext : Z.of_nat (length pre) + 1 = Z.of_nat (length (pre ++ [(c', lo, hi, v)]))).
    { rewrite app_length. cbn [length]. lia. }
    assert (Eapp : pre ++ (c', lo, hi, v) :: t = (pre ++ [(c', lo, hi, v)]) ++ t).
    { now rewrite <- app_assoc. }
    specialize (IH (pre ++ [(c', lo, hi, v)])). rewrite <- Enext, <- Eapp in IH.
    destruct (String.eqb c' c); cbn [andb map filter snd r_lo r_hi].
    - destruct (P lo hi); cbn [map r_id]; [|exact IH].
      f_equal; [|exact IH].
      rewrite Nat2Z.id, map_app, app_nth2; rewrite map_length; [|lia].
      rewrite Nat.sub_diag. reflexivity.
    - exact IH.
  Qed.
End RefMeans.

(* the bins' log2 per segment: those of the normal's bins sharing a base with the segment *)
Lemma theta_bins_in_spec normal segs :
  table_ok (to_trows 0 (map nb_region normal)) -> grouped (to_trows 0 (map tseg_region segs)) ->
  theta_bins_in normal segs = map (sp_normal_log2 normal) segs.
Proof.
  intros Hok Hg. unfold theta_bins_in.
  rewrite (ga_by_ranges_answers _ _ QOuter true Hok Hg). cbn [orb]. rewrite filter_true.
  unfold answers. rewrite map_map.
  transitivity (map (fun q : trow =>
                       map (fun r => nth (Z.to_nat (r_id r)) (map nb_log2 normal) 0%Q)
                           (outer_spec (r_lo (snd q)) (r_hi (snd q)) (rows_of (fst q) (to_trows 0 (map nb_region normal)))))
                    (to_trows 0 (map tseg_region segs))).
  { apply map_ext. intro q. reflexivity. }
  rewrite (to_trows_map (fun c lo hi => map (fun r => nth (Z.to_nat (r_id r)) (map nb_log2 normal) 0%Q)
                                            (outer_spec lo hi (rows_of c (to_trows 0 (map nb_region normal)))))
                        0 (map tseg_region segs)).
  rewrite map_map. apply map_ext. intro s. cbn [tseg_region fst snd].
  unfold outer_spec, rows_of, of_chrom, sp_normal_log2.
  pose proof (rows_logs (fun lo hi => (lo <? t_hi s) && (t_lo s <? hi)) (t_chrom s) normal []) as H.
  cbn [length app] in H. etransitivity; [exact H|].
  f_equal. apply filter_ext_in'. intros b _. now rewrite andb_assoc.
Qed.

Lemma theta_ref_means_spec normal segs :
  table_ok (to_trows 0 (map nb_region normal)) -> grouped (to_trows 0 (map tseg_region segs)) ->
  theta_ref_means normal segs
  = map (fun s => match sp_normal_log2 normal s with [] => None | l => Some (qmean l) end) segs.
Proof.
  intros Hok Hg. unfold theta_ref_means. rewrite (theta_bins_in_spec normal segs Hok Hg), map_map.
  apply map_ext. intro s. destruct (sp_normal_log2 normal s); reflexivity.
Qed.

(* ---------------------------------------------------------------- with a normal *)

Lemma map3_length {A B C D} (f : A -> B -> C -> D) (la : list A) (lb : list B) (lc : list C) :
  length la = length lb -> length la = length lc -> length (map3 f la lb lc) = length la.
Proof.
  revert lb lc. induction la as [|a ta IH]; intros [|b tb] [|c tc] H1 H2; cbn [length map3] in *; try discriminate; [reflexivity|].
  f_equal. apply IH; lia.
Qed.

Lemma theta_with_normal hw rows nb en :
  rows <> [] -> nb <> [] -> length en = length (sp_theta_kept rows) ->
  table_ok (to_trows 0 (map nb_region (sp_theta_normal nb))) ->
  grouped (to_trows 0 (map tseg_region (sp_theta_kept rows))) ->
  exists out,
    export_theta true hw rows (Some nb) en = ThetaOk out /\
    map row_key out = map (sp_theta_key (sp_theta_kept rows)) (sp_theta_kept rows) /\
    map row_counts out
    = map2 (fun s e => (round_he (sp_theta_value (t_e s) (inject_Z (t_probes s))),
                        match sp_normal_log2 (sp_theta_normal nb) s with
                        | [] => 0
                        | _ => round_he (sp_theta_value e (inject_Z (t_probes s)))
                        end))
           (sp_theta_kept rows) en.
Proof.
  intros NE NEn Len Hok Hg. unfold export_theta. destruct rows as [|r0 rt] eqn:ER; [congruence|]. rewrite <- ER in *.
  destruct nb as [|b0 bt] eqn:EN; [congruence|]. rewrite <- EN in *.
  cbn [negb]. rewrite theta_kept_spec, theta_normal_spec.
  set (kept := sp_theta_kept rows) in *. set (nb' := sp_theta_normal nb) in *.
  rewrite (theta_ref_means_spec nb' kept Hok Hg).
  eexists. split; [reflexivity|]. split.
  - apply theta_rows_keys.
    + rewrite map2_length; [reflexivity | now rewrite map_length].
    + rewrite map3_length; now rewrite ?map_length.
  - rewrite theta_rows_counts.
    + clear -Len. revert en Len. induction kept as [|s t IH]; intros [|e en] Len; cbn [length] in Len; try discriminate; [reflexivity|].
      cbn [map map2 map3 combine]. rewrite theta_count_spec. f_equal.
      * f_equal. change theta_nan_count with 0. destruct (sp_normal_log2 nb' s); [reflexivity | apply theta_count_spec].
      * apply IH. lia.
    + rewrite map2_length; [reflexivity | now rewrite map_length].
    + rewrite map3_length; now rewrite ?map_length.
Qed.

(* a normal is given but the segments carry no probes column: the code's bin counts are a
   bare ndarray and `.fillna` fails *)
Lemma theta_no_probes_fails hw rows nb en :
  rows <> [] -> nb <> [] -> export_theta false hw rows (Some nb) en = ThetaAttr.
Proof.
  intros NE NEn. unfold export_theta. destruct rows; [congruence|]. destruct nb; [congruence|]. reflexivity.
Qed.

Lemma theta_autosome_name :
  theta_autosome_pattern = "(chr)?\d+$"%string /\ forall s, is_auto_name s = sp_is_auto s.
Proof. split; [reflexivity | exact is_auto_spec]. Qed.

Lemma theta_ref_means_full normal segs :
  table_ok (to_trows 0 (map nb_region normal)) -> grouped (to_trows 0 (map tseg_region segs)) ->
  theta_ref_means normal segs
  = map (fun s => match sp_normal_log2 normal s with [] => None | l => Some (qmean l) end) segs
  /\ forall l, (qmean l == sp_mean l)%Q.
Proof. intros Hok Hg. split; [exact (theta_ref_means_spec normal segs Hok Hg) | exact qmean_spec]. Qed.
