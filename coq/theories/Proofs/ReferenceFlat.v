(* C05_flat: the flat reference is 0 / -1 as the property says (outside the open finding's
   situation), has exactly the given bins in genomic order, spread 0; and the refutation of the
   unrestricted clause (male reference + PAR build: PAR-Y bins get 0). *)
From CNV Require Import Base.Prelude Base.Str Base.QNum Model.Chromsort Model.Center Model.Sex
  Model.Reference Spec.Reference Proofs.ChromsortLemmas.
Local Open Scope Q_scope.

Lemma labels_distinct t : t <> [] -> x_label t <> y_label t.
Proof.
  destruct t as [|b t]; [congruence|]. intros _. unfold y_label, x_label.
  destruct (str_prefix "chr" (b_chrom b)); cbv; discriminate.
Qed.

Lemma in_par_inside p b : in_par p b = inside_par p (b_start b) (b_end b).
Proof. destruct p as [[[s1 e1] s2] e2]. reflexivity. Qed.

(* expect_flat_log2 is the map of flat_at *)
Lemma expect_flat_map hap build t : expect_flat hap build t = map (flat_at hap build t) t.
Proof. reflexivity. Qed.

Lemma flat_at_spec hap build t b :
  t <> [] ->
  ~ (hap = true /\ exists p, build = Some p /\ pary_filter t p b = true) ->
  flat_at hap build t b ==
  flat_level hap (option_map par_x build) (x_label t) (y_label t) (b_chrom b) (b_start b) (b_end b).
Proof.
  intros Ht Hex. pose proof (labels_distinct t Ht) as Hd.
  unfold flat_at, flat_level, chr_x_filter, chr_y_filter, parx_filter, pary_filter in *.
  destruct (String.eqb_spec (b_chrom b) (y_label t)) as [Ey|Ey];
  destruct (String.eqb_spec (b_chrom b) (x_label t)) as [Ex|Ex];
    try (exfalso; congruence).
  - (* Y *)
    destruct hap.
    + destruct build as [p|]; cbn [option_map andb orb negb].
      * destruct (in_par (par_y p) b) eqn:Ep.
        -- exfalso. apply Hex. split; [reflexivity|]. exists p. split; [reflexivity|].
           rewrite Ep. reflexivity.
        -- reflexivity.
      * reflexivity.
    + reflexivity.
  - (* X *)
    destruct hap.
    + destruct build as [p|]; cbn [option_map andb orb negb].
      * rewrite <- in_par_inside. destruct (in_par (par_x p) b); reflexivity.
      * reflexivity.
    + reflexivity.
  - (* neither *)
    destruct hap; [destruct build|]; reflexivity.
Qed.

(* rows of the flat reference *)
Lemma flat_reference_rows exp2 hap build T A r :
  In r (flat_reference exp2 hap build T A) ->
  exists b, In b (flat_table T A) /\
    r_chrom r = b_chrom b /\ r_start r = b_start b /\ r_end r = b_end b /\ r_gene r = b_gene b /\
    r_log2 r = flat_at hap build (flat_table T A) b /\ r_depth r = exp2 (r_log2 r) /\ r_spread_sq r = 0.
Proof.
  unfold flat_reference. intros H. apply in_map_iff in H. destruct H as (b & <- & Hb).
  exists b. cbn. repeat split; auto.
Qed.

Lemma flat_table_nonempty T A b : In b (flat_table T A) -> flat_table T A <> [].
Proof. intros H E. rewrite E in H. exact H. Qed.

Theorem flat_levels exp2 hap build T A r :
  let t := flat_table T A in
  In r (flat_reference exp2 hap build T A) ->
  ~ (hap = true /\ exists p, build = Some p /\ r_chrom r = y_label t /\
       inside_par (par_y p) (r_start r) (r_end r) = true) ->
  r_log2 r == flat_level hap (option_map par_x build) (x_label t) (y_label t)
                (r_chrom r) (r_start r) (r_end r)
  /\ r_spread_sq r == 0.
Proof.
  intros t H Hex. apply flat_reference_rows in H.
  destruct H as (b & Hb & Ec & Es & Ee & _ & El & _ & Esp).
  split; [|rewrite Esp; reflexivity].
  rewrite El, Ec, Es, Ee. apply flat_at_spec.
  - eapply flat_table_nonempty; eauto.
  - intros (Hh & p & Hp & Hf). apply Hex. split; [exact Hh|]. exists p. split; [exact Hp|].
    unfold pary_filter in Hf. apply andb_true_iff in Hf. destruct Hf as (H1 & H2).
    apply String.eqb_eq in H1. rewrite Ec, Es, Ee. split; [exact H1|].
    rewrite <- in_par_inside. exact H2.
Qed.

(* the bins of the flat reference: those of the two BED files, in genomic order *)
Lemma flat_reference_keys exp2 hap build T A :
  map ref_key (flat_reference exp2 hap build T A) = map key_of (flat_table T A).
Proof. unfold flat_reference. rewrite map_map. reflexivity. Qed.

Lemma flat_table_perm T A : Permutation (T ++ A) (flat_table T A).
Proof.
  unfold flat_table. destruct A as [|a A'].
  - rewrite app_nil_r. apply sort_regions_perm.
  - eapply perm_trans; [|apply sort_regions_perm].
    apply Permutation_app; apply sort_regions_perm.
Qed.

Lemma flat_table_sorted T A : regions_sorted bin_proj (flat_table T A).
Proof. unfold flat_table. destruct A; apply sort_regions_sorted. Qed.

(* the open finding: male reference and a diploid-PAR build give 0 on a bin inside PAR1Y *)
Lemma flat_pary_refuted :
  exists p, resolve_build "grch37" = Some p /\
  exists r, In r (flat_reference (fun _ => 0) true (Some p)
                    [mkBin "chr1" 100 200 "A" 0 None None; mkBin "chrX" 3000000 3000100 "B" 0 None None;
                     mkBin "chrY" 20000 20100 "C" 0 None None; mkBin "chrY" 5000000 5000100 "D" 0 None None] [])
            /\ r_chrom r = "chrY"%string /\ r_start r = 20000%Z /\ r_log2 r == 0 /\ ~ r_log2 r == -1.
Proof.
  eexists. split; [vm_compute; reflexivity|].
  eexists. split.
  - vm_compute. right. right. left. reflexivity.
  - cbn. repeat split; try reflexivity. intro H. discriminate H.
Qed.
