(* C14 source tie of squash_by_groups' group-key columns (cnvlib/segfilters.py), per row:

       groupkey = ["_group"]
       if "cn1" in cnarr:
           data["_g1"] = enumerate_changes(cnarr["cn1"])
           data["_g2"] = enumerate_changes(cnarr["cn2"])
           groupkey.extend(["_g1", "_g2"])

   regenerated from the Python source on every run as Gen/FnSegAlleleKeys.v (fn_allele_keys: the list of key columns and
   the row's values in _g1 / _g2).  Here: the key Model/Segfilters.v mk_keys gives a row IS the row's values in the
   generated key columns (a column that is no key column contributes 0) -- with cn1 / cn2 present, and also without
   them, where the model holds missing cells in every row (their change counts are all 0). *)
From CNV Require Import Base.Prelude Base.Str Model.Segfilters Gen.FnSegAlleleKeys.

Local Open Scope Z_scope.

(* a row's key, read off the generated key columns *)
Definition src_key3 (has_cn1 : bool) (grp e1 e2 : Z) : key :=
  let '(gk, g1, g2) := fn_allele_keys has_cn1 e1 e2 in
  (if mem_string "_group" gk then grp else 0,
   if mem_string "_g1" gk then g1 else 0,
   if mem_string "_g2" gk then g2 else 0).

Fixpoint src_keys3 (has_cn1 : bool) (g o g1 g2 : list Z) : list key :=
  match g, o, g1, g2 with
  | a :: g', b :: o', c :: g1', d :: g2' => src_key3 has_cn1 (a + b) c d :: src_keys3 has_cn1 g' o' g1' g2'
  | _, _, _, _ => []
  end.

Lemma source_allele_key grp e1 e2 : src_key3 true grp e1 e2 = (grp, e1, e2).
Proof. reflexivity. Qed.

Lemma source_allele_key_absent grp e1 e2 : src_key3 false grp e1 e2 = (grp, 0, 0).
Proof. reflexivity. Qed.

(* with the allele columns: mk_keys IS the generated key, row by row *)
Theorem source_allele_keys (g : list Z) : forall o g1 g2, mk_keys g o g1 g2 = src_keys3 true g o g1 g2.
Proof.
  induction g as [|a g' IH]; intros o g1 g2; [reflexivity|].
  destruct o as [|b o']; [reflexivity|]. destruct g1 as [|c g1']; [reflexivity|].
  destruct g2 as [|d g2']; [reflexivity|].
  cbn [mk_keys src_keys3]. rewrite IH, source_allele_key. reflexivity.
Qed.

(* a column of missing cells never changes *)
Lemma enum_from_none n (l : list (option Q)) :
  Forall (fun c => c = None) l -> enum_from n None l = map (fun _ => n) l.
Proof.
  induction 1 as [|c l Hc _ IH]; [reflexivity|]. subst c. cbn [enum_from optQ_eqb map]. rewrite IH. reflexivity.
Qed.

Lemma enumerate_none (l : list (option Q)) :
  Forall (fun c => c = None) l -> enumerate_changes l = map (fun _ => 0) l.
Proof.
  intros H. destruct H as [|c l Hc Hl]; [reflexivity|]. subst c.
  cbn [enumerate_changes map]. rewrite (enum_from_none 0 l Hl). reflexivity.
Qed.

(* without the allele columns (missing cells throughout): mk_keys IS the generated key without _g1 / _g2 *)
Theorem source_allele_keys_absent (g : list Z) : forall o (c1 c2 : list (option Q)),
  Forall (fun c => c = None) c1 -> Forall (fun c => c = None) c2 ->
  mk_keys g o (enumerate_changes c1) (enumerate_changes c2)
  = src_keys3 false g o (enumerate_changes c1) (enumerate_changes c2).
Proof.
  intros o c1 c2 H1 H2. rewrite (enumerate_none c1 H1), (enumerate_none c2 H2).
  clear H1 H2. revert o c1 c2.
  induction g as [|a g' IH]; intros o c1 c2; [reflexivity|].
  destruct o as [|b o']; [reflexivity|]. destruct c1 as [|x c1']; [reflexivity|].
  destruct c2 as [|y c2']; [reflexivity|].
  cbn [map mk_keys src_keys3]. rewrite IH, source_allele_key_absent. reflexivity.
Qed.

(* squash_by_groups through the generated key columns *)
Theorem source_group_keys3 (levels : list (option Q)) (t : list seg) :
  squash_by_groups levels t =
  let names := map chrom t in
  let u := uniq_str names in
  let keys := src_keys3 true (enumerate_changes levels) (map (fun c => index_of c u) names)
                        (enumerate_changes (map cn1 t)) (enumerate_changes (map cn2 t)) in
  map (fun kg => squash_region (snd kg)) (group_by_key (combine keys t)).
Proof. unfold squash_by_groups. cbv zeta. rewrite source_allele_keys. reflexivity. Qed.

Theorem source_group_keys3_absent (levels : list (option Q)) (t : list seg) :
  Forall (fun s => cn1 s = None /\ cn2 s = None) t ->
  squash_by_groups levels t =
  let names := map chrom t in
  let u := uniq_str names in
  let keys := src_keys3 false (enumerate_changes levels) (map (fun c => index_of c u) names)
                        (enumerate_changes (map cn1 t)) (enumerate_changes (map cn2 t)) in
  map (fun kg => squash_region (snd kg)) (group_by_key (combine keys t)).
Proof.
  intros H. unfold squash_by_groups. cbv zeta. rewrite source_allele_keys_absent; [reflexivity| |];
    apply Forall_forall; intros c Hc; apply in_map_iff in Hc; destruct Hc as [s [<- Hs]];
    rewrite Forall_forall in H; apply (H s Hs).
Qed.
