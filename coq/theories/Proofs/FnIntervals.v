(* Source ties for the scalar rules of the interval code (tools/fnspecs/intervals.py ->
   Gen/FnIntervals.v, Gen/FnIntervalsResize.v): the expressions taken from the bodies of
   subdivide._split_targets and GenomicArray.resize_ranges EQUAL the hand-written model
   functions (the trim rule of intersect.iter_ranges: Proofs/RangesFn.v). *)
From CNV Require Import Base.Prelude Base.QNum Model.IvRow Model.Intervals Spec.Cover.
From CNV Require Import Proofs.QNumLemmas Proofs.IvSubdivide.
From Coq Require Import Qround.
From CNV Require Gen.IvDefaults Gen.FnIntervals Gen.FnIntervalsResize.

(* ---- Python's round() on a fraction = the model's integer rounding ----------------------- *)
Lemma round_half_even_frac (S : Z) (p : positive) : round_half_even (S # p) = round_div S (Zpos p).
Proof.
  unfold round_half_even, round_div.
  assert (Ef : Qfloor (S # p) = S / Zpos p) by reflexivity.
  rewrite Ef. set (f := S / Zpos p). set (r := S mod Zpos p).
  assert (Hdm : S = Zpos p * f + r) by (apply Z.div_mod; lia).
  assert (Hr : 0 <= r < Zpos p) by (apply Z.mod_pos_bound; lia).
  assert (Eq1 : (S # p) - inject_Z f == r # p).
  { unfold Qeq, Qminus, Qplus, Qopp, inject_Z. cbn [Qnum Qden]. rewrite Hdm at 1. nia. }
  rewrite Eq1.
  assert (Ec : ((r # p) ?= (1 # 2))%Q = (r * 2 ?= 1 * Zpos p)) by reflexivity.
  rewrite Ec.
  destruct (Z.compare_spec (r * 2) (1 * Zpos p)) as [H|H|H].
  - assert (E1 : 2 * r <? Zpos p = false) by lia. assert (E2 : Zpos p <? 2 * r = false) by lia.
    rewrite E1, E2. reflexivity.
  - assert (E1 : 2 * r <? Zpos p = true) by lia. rewrite E1. reflexivity.
  - assert (E1 : 2 * r <? Zpos p = false) by lia. assert (E2 : Zpos p <? 2 * r = true) by lia.
    rewrite E1, E2. reflexivity.
Qed.

(* round(span / avg_size) for a positive rational avg_size *)
Lemma round_span_avg (span : Z) (avg : Q) : 0 < Qnum avg ->
  round_half_even (Qdiv (inject_Z span) avg) = round_div (span * Zpos (Qden avg)) (Qnum avg).
Proof.
  intros Ha. destruct avg as [an ad]. cbn [Qnum Qden] in *.
  destruct an as [|n|n]; try lia.
  assert (E : Qdiv (inject_Z span) (Zpos n # ad) == (span * Zpos ad) # n).
  { unfold Qeq, Qdiv, Qmult, Qinv, inject_Z. cbn [Qnum Qden]. lia. }
  rewrite E. apply round_half_even_frac.
Qed.

(* subdivide._split_targets: the guard, the bin count and the single-bin test, for ANY positive
   rational avg_size (the default of cnvkit's target command is the float 200 / 0.75) *)
Theorem fn_split_rule_eq (s e : Z) (avg : Q) (mn : Z) : 0 < Qnum avg ->
  let span := e - s in
  let n := nbins (Qnum avg) (span * Zpos (Qden avg)) in
  FnIntervals.fn_split_rule s e avg mn = (negb (span <? mn), n, n =? 1).
Proof.
  intros Ha span n. unfold FnIntervals.fn_split_rule. fold span.
  rewrite (round_span_avg span avg Ha). subst n. unfold nbins.
  replace (mn <=? span) with (negb (span <? mn)) by lia.
  destruct (round_div (span * Z.pos (Qden avg)) (Qnum avg) =? 0); reflexivity.
Qed.

(* ... in particular for an integer avg_size: the nbins of Model/Intervals.v *)
Theorem fn_split_rule_int (s e a mn : Z) : 0 < a ->
  FnIntervals.fn_split_rule s e (inject_Z a) mn =
  (negb (e - s <? mn), nbins a (e - s), nbins a (e - s) =? 1).
Proof.
  intros Ha. rewrite fn_split_rule_eq by exact Ha. cbn [inject_Z Qnum Qden]. rewrite Z.mul_1_r. reflexivity.
Qed.

(* the row-level model, read through the generated rule *)
Theorem split_row_source {A} (avg mn : Z) (cut : Z -> Z -> Z -> Z) (r : @IvRow.row A) : 0 < avg ->
  let '(ok, n, single) := FnIntervals.fn_split_rule (lo r) (hi r) (inject_Z avg) mn in
  split_row avg mn cut r =
  if ok then (if single then [r]
              else bins_from (cut (hi r - lo r) n) (lo r) (lo r) 1 (Z.to_nat (n - 1)) (hi r) (pay r))
  else [].
Proof.
  intros Ha. rewrite fn_split_rule_int by exact Ha. unfold split_row.
  destruct (hi r - lo r <? mn); reflexivity.
Qed.

(* ---- GenomicArray.resize_ranges ------------------------------------------------------------- *)
Theorem fn_resize_open_eq (s e bp : Z) :
  FnIntervalsResize.fn_resize_open s e bp = (clip None (s - bp), clip None (e + bp)).
Proof. reflexivity. Qed.

Theorem fn_resize_sized_eq (s e bp size : Z) :
  FnIntervalsResize.fn_resize_sized s e bp size = (clip (Some size) (s - bp), clip (Some size) (e + bp)).
Proof. reflexivity. Qed.

Theorem fn_resize_ok_eq (s e : Z) : FnIntervalsResize.fn_resize_ok s e = (0 <? e - s).
Proof. reflexivity. Qed.

(* ... in the words of the specification (Spec/Cover.v: clip_to) *)
Theorem fn_resize_clip_to (s e bp size : Z) :
  FnIntervalsResize.fn_resize_open s e bp = (clip_to None (s - bp), clip_to None (e + bp)) /\
  FnIntervalsResize.fn_resize_sized s e bp size = (clip_to (Some size) (s - bp), clip_to (Some size) (e + bp)) /\
  FnIntervalsResize.fn_resize_ok s e = (0 <? e - s).
Proof. repeat split; reflexivity. Qed.

(* the row-level model, read through the generated expressions *)
Lemma resize_one {A} (bp : Z) (size : option Z) (r : @IvRow.row A) :
  resize bp size [r] =
  if (bp <? 0) && negb (0 <? clip size (hi r + bp) - clip size (lo r - bp)) then []
  else [(clip size (lo r - bp), clip size (hi r + bp), pay r)].
Proof.
  unfold resize. cbn [map]. destruct (bp <? 0); cbn [andb filter]; [|reflexivity].
  change (hi (clip size (lo r - bp), clip size (hi r + bp), pay r)) with (clip size (hi r + bp)).
  change (lo (clip size (lo r - bp), clip size (hi r + bp), pay r)) with (clip size (lo r - bp)).
  destruct (0 <? clip size (hi r + bp) - clip size (lo r - bp)); reflexivity.
Qed.

Theorem resize_source {A} (bp : Z) (size : option Z) (r : @IvRow.row A) :
  let '(s', e') := match size with
                   | Some u => FnIntervalsResize.fn_resize_sized (lo r) (hi r) bp u
                   | None => FnIntervalsResize.fn_resize_open (lo r) (hi r) bp
                   end in
  resize bp size [r] =
  if (bp <? 0) && negb (FnIntervalsResize.fn_resize_ok s' e') then [] else [(s', e', pay r)].
Proof.
  rewrite resize_one.
  destruct size as [u|]; [rewrite fn_resize_sized_eq | rewrite fn_resize_open_eq];
    rewrite fn_resize_ok_eq; reflexivity.
Qed.
