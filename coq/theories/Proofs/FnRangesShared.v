(* C07 loop tie of intersect.by_shared_chroms (skgenome/intersect.py), ONE ITERATION of

       for chrom, ctable in table.groupby("chromosome", sort=False):
           if chrom in other_chroms:
               otable = other_chroms[chrom]
               yield chrom, ctable, otable
           elif keep_empty:
               yield chrom, ctable, None

   regenerated from the Python source on every run as Gen/FnRangesShared.v (fn_shared_step: the triples the iteration
   yields; tables are opaque ids, the third component an optional id).  With id 1 = the table's rows on the chromosome
   and id 2 = the other table's rows on it ([group_of]), Model/Ranges.v shared_groups IS the generated iteration per
   chromosome of the table, in order of first appearance. *)
From CNV Require Import Base.Prelude Base.Str Model.Ranges Gen.FnRangesShared.

Local Open Scope Z_scope.

Definition group_of (table other : list trow) (y : string * Z * option Z)
  : string * list trow * option (list trow) :=
  let '(c, cid, oid) := y in
  (c, if cid =? 1 then of_chrom c table else if cid =? 2 then of_chrom c other else [],
   match oid with
   | Some i => Some (if i =? 2 then of_chrom c other else if i =? 1 then of_chrom c table else [])
   | None => None
   end).

Definition py_shared_iter (table other : list trow) (keep_empty : bool) (c : string)
  : list (string * list trow * option (list trow)) :=
  map (group_of table other) (fn_shared_step c 1 (has_chrom c other) 2 keep_empty).

Lemma source_shared_step table other keep_empty c :
  py_shared_iter table other keep_empty c =
  if has_chrom c other then [(c, of_chrom c table, Some (of_chrom c other))]
  else if keep_empty then [(c, of_chrom c table, None)] else [].
Proof.
  unfold py_shared_iter, fn_shared_step. destruct (has_chrom c other); [reflexivity|].
  destruct keep_empty; reflexivity.
Qed.

Theorem source_shared_groups table other keep_empty :
  shared_groups table other keep_empty = concat (map (py_shared_iter table other keep_empty) (chroms table)).
Proof.
  unfold shared_groups. f_equal. apply map_ext. intro c. symmetry. apply source_shared_step.
Qed.
